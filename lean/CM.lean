import CM.Basic.Bytes
import CM.Basic.Tree
import CM.Basic.Wire
import CM.Ops.All
