import Lean
import MODULE
/-
Axiom audit for one property module (instantiated by bin/check: MODULE is replaced).
Prints one JSON object per theorem of the module with the axioms it depends on.
-/
open Lean

def allowedAxioms : List Name := [``propext, ``Classical.choice, ``Quot.sound]

#eval show CoreM Unit from do
  let env ← getEnv
  let m : Name := `MODULE
  let some idx := env.getModuleIdx? m | throwError "module not found"
  let mut total := 0
  let mut bad := 0
  for (n, ci) in env.constants.map₁.toList do
    if env.getModuleIdxFor? n != some idx then continue
    match ci with
    | .thmInfo _ =>
      if n.isInternalDetail then continue
      total := total + 1
      let axs := (← collectAxioms n).toList
      let ok := axs.all (allowedAxioms.contains ·)
      if !ok then bad := bad + 1
      IO.println s!"AUDIT \{\"theorem\":\"{n}\",\"axioms\":{axs.map (fun a => s!"\"{a}\"")},\"ok\":{ok}}"
    | .axiomInfo _ =>
      bad := bad + 1
      IO.println s!"AUDIT \{\"axiom\":\"{n}\",\"ok\":false}"
    | _ => pure ()
  IO.println s!"AUDIT \{\"summary\":true,\"theorems\":{total},\"bad\":{bad}}"
