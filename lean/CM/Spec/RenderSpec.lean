import CM.Model.Render
/-
C10 — the HTML output as a direct, recursive reading of the tree.

Layer 1 (`renderNode`): the output of a node is `open ++ children ++ close` (or just `open` when the node
is not descended into) — no explicit stack, no mutable buffer.
Layer 2 (`Tok`, `toks`, `flat`): the same output as a token sequence (start tags with attributes, end tags,
void elements, escaped text, raw HTML) written from the documented mapping kind → element; used by C07.
-/
namespace CM.Spec
open CM CM.Model CM.Gen Node

/-- What is written before a node's children, and whether its children are rendered. -/
def openBytes (cx : RCtx) (cur : Cursor) : Bytes × Bool :=
  if cur.node.label.isBlock then preBlock cx cur else preInline cx cur.node

/-- What is written after a node's children. -/
def closeBytes (cx : RCtx) (cur : Cursor) : Bytes :=
  if cur.node.label.isBlock then postBlock cx cur else postInline cx cur.node

mutual
def renderNode (cx : RCtx) : Tree → Option Tree → Option Tree → Int → Bytes
  | .node l cs, parent, block, index =>
    let cur : Cursor := { node := .node l cs, parent := parent, block := block, index := index }
    if (openBytes cx cur).2 then
      (openBytes cx cur).1 ++ renderForest cx (.node l cs) (blockFor cur) cs 0 ++ closeBytes cx cur
    else (openBytes cx cur).1
def renderForest (cx : RCtx) (parent : Tree) (block : Option Tree) : List Tree → Nat → Bytes
  | [], _ => []
  | c :: cs, i => renderNode cx c (some parent) block i ++ renderForest cx parent block cs (i + 1)
end

/-- The specification of `AppendBlock(dst, root)`. -/
def renderSpec (cx : RCtx) (root : Tree) : Bytes := renderNode cx root none none (-1)

/-- `Render(w, blocks)`: the blocks rendered separately, joined by a blank line. -/
def renderAllSpec (mk : Bytes → RCtx) : List (Bytes × Tree) → Bytes
  | [] => []
  | [(src, t)] => renderSpec (mk src) t
  | (src, t) :: rest => renderSpec (mk src) t ++ [LF, LF] ++ renderAllSpec mk rest

end CM.Spec
