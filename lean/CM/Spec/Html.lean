import CM.Model.Render
/-
The documented mapping node kind → HTML, as a token sequence (used by C10's independent reading and by C07).
Written from the doc comments of the node kinds and the CommonMark 0.30 HTML mapping; it does not use
the renderer's pre/post functions.
-/
namespace CM.Spec
open CM CM.Model CM.Gen Node

inductive Tok where
  /-- start tag `<name a="v"…>`; attribute values are already escaped -/
  | stag (name : Bytes) (attrs : List (Bytes × Bytes))
  /-- end tag `</name>` -/
  | etag (name : Bytes)
  /-- a line break: the void element `br` followed by a line feed -/
  | br
  /-- escaped character data -/
  | text (b : Bytes)
  /-- a character reference copied from the source -/
  | cref (b : Bytes)
  /-- raw HTML from the source (verbatim or tag-filtered) -/
  | raw (b : Bytes)
deriving Repr

def flatAttr (a : Bytes × Bytes) : Bytes := [SP] ++ a.1 ++ [0x3D, 0x22] ++ a.2 ++ [0x22]

def flatTok (cx : RCtx) : Tok → Bytes
  | .stag name attrs => openTagAttr cx name ++ attrs.flatMap flatAttr ++ [0x3E]
  | .etag name => closeTag cx name
  | .br => openTag cx (str "br") ++ [LF]
  | .text b => b
  | .cref b => b
  | .raw b => b

def flat (cx : RCtx) (ts : List Tok) : Bytes := ts.flatMap (flatTok cx)

def linkAttrToks (d : LinkDef) (attr : String) : List (Bytes × Bytes) :=
  [(str attr, escapeString (normalizeURI d.dest))] ++ (if d.titlePresent then [(str "title", escapeString d.title)] else [])

/-- An element with content. -/
def wrap (name : Bytes) (attrs : List (Bytes × Bytes)) (kids : List Tok) : List Tok :=
  [.stag name attrs] ++ kids ++ [.etag name]

/-- A void element (`hr`, `img`). -/
def voidEl (name : Bytes) (attrs : List (Bytes × Bytes)) : List Tok := [.stag name attrs]

mutual
def toksNode (cx : RCtx) (parent : Option Tree) : Tree → List Tok
  | .node l cs =>
    let t : Tree := .node l cs
    let kids := toksForest cx t cs
    if l.isBlock then
      if l.kind == BK.paragraph then
        (if parentTight parent then kids else wrap (str "p") [] kids)
      else if l.kind == BK.thematicBreak then voidEl (str "hr") []
      else if l.kind == BK.atxHeading || l.kind == BK.setextHeading then
        wrap (headingTag (headingLevel t)) [] kids
      else if l.kind == BK.indentedCode || l.kind == BK.fencedCode then
        let cls : List (Bytes × Bytes) := match infoString t with
          | some info =>
            let w := firstField (text cx.ext cx.src info)
            if w.isEmpty then [] else [(str "class", str "language-" ++ escapeString w)]
          | none => []
        wrap (str "pre") [] (wrap (str "code") cls kids)
      else if l.kind == BK.blockQuote then wrap (str "blockquote") [] kids
      else if l.kind == BK.list then
        if isOrderedList (some t) then
          let n := listItemNumber cx.src (cs.head?.filter (·.label.isBlock))
          wrap (str "ol") (if n ≥ 0 && n != 1 then [(str "start", Model.decimal n.toNat)] else []) kids
        else wrap (str "ul") [] kids
      else if l.kind == BK.listItem then wrap (str "li") [] kids
      else if l.kind == BK.htmlBlock then (if cx.ignoreRaw then [] else kids)
      else []
    else
      if l.kind == IK.text || l.kind == IK.unparsed then [.text (escapeHTML (slice cx.src t))]
      else if l.kind == IK.charRef then [.cref (slice cx.src t)]
      else if l.kind == IK.rawHTML then
        (if cx.ignoreRaw then [.raw []] else
          [.raw (match cx.filter with
                 | none => slice cx.src t
                 | some f => filterRaw f (slice cx.src t))])
      else if l.kind == IK.softBreak then
        (if cx.soft == 2 then [.br] else if cx.soft == 1 then [.text [SP]]
         else [.text (if spanLen t > 0 then slice cx.src t else [LF])])
      else if l.kind == IK.hardBreak then [.br]
      else if l.kind == IK.emphasis then wrap (str "em") [] kids
      else if l.kind == IK.strong then wrap (str "strong") [] kids
      else if l.kind == IK.codeSpan then wrap (str "code") [] kids
      else if l.kind == IK.link then wrap (str "a") (linkAttrToks (linkDef cx t) "href") kids
      else if l.kind == IK.image then
        voidEl (str "img") (linkAttrToks (linkDef cx t) "src" ++ [(str "alt", altPieces cx t)])
      else if l.kind == IK.autolink then
        let dest := match cs.head? with
          | some c => text cx.ext cx.src c
          | none => []
        wrap (str "a") [(str "href", (if isEmailAddress dest then str "mailto:" else []) ++ escapeString (normalizeURI dest))]
          [.text (escapeString dest)]
      else if l.kind == IK.indent then [.text (spaces l.indent.toNat)]
      else if l.kind == IK.htmlTag then kids
      else []
def toksForest (cx : RCtx) (parent : Tree) : List Tree → List Tok
  | [] => []
  | c :: cs => toksNode cx (some parent) c ++ toksForest cx parent cs
end

end CM.Spec
