/-
C19 — the logic of "no shared mutable state": if every operation writes only to locations it owns and
reads, besides those, only locations nobody writes, then every interleaving of the operations' steps gives
each operation the result it has when run alone.

The heap is a function from locations to values; operation `i` owns the locations `owns i`; a step of
operation `i` is a function on heaps satisfying two frame conditions (`StepOK`).
-/
namespace CM.Spec.Footprint

variable {Loc Val : Type}

abbrev Heap (Loc Val : Type) := Loc → Val

structure Sys (Loc Val : Type) (n : Nat) where
  /-- which operation owns a location (`none` = shared, read-only) -/
  owner : Loc → Option (Fin n)
  /-- one atomic step of operation `i` -/
  step : Fin n → Heap Loc Val → Heap Loc Val

/-- The discipline the footprint analysis checks for the code. -/
structure StepOK {n : Nat} (S : Sys Loc Val n) : Prop where
  /-- an operation writes only to locations it owns -/
  writesOwn : ∀ i h l, S.owner l ≠ some i → S.step i h l = h l
  /-- what it writes depends only on its own locations and on shared (unowned) ones -/
  readsOwnOrShared : ∀ i h h', (∀ l, (S.owner l = some i ∨ S.owner l = none) → h l = h' l) →
    ∀ l, S.owner l = some i → S.step i h l = S.step i h' l

/-- Run a schedule (a list of operation indices) from a heap. -/
def run {n : Nat} (S : Sys Loc Val n) : List (Fin n) → Heap Loc Val → Heap Loc Val
  | [], h => h
  | i :: rest, h => run S rest (S.step i h)

/-- Operation `i` run alone for as many steps as it gets in the schedule. -/
def runAlone {n : Nat} (S : Sys Loc Val n) (i : Fin n) : List (Fin n) → Heap Loc Val → Heap Loc Val
  | [], h => h
  | j :: rest, h => if j = i then runAlone S i rest (S.step i h) else runAlone S i rest h

/-- Heaps that agree on everything operation `i` can see. -/
def AgreeFor {n : Nat} (S : Sys Loc Val n) (i : Fin n) (h h' : Heap Loc Val) : Prop :=
  ∀ l, (S.owner l = some i ∨ S.owner l = none) → h l = h' l

theorem step_preserves_agree {n : Nat} (S : Sys Loc Val n) (ok : StepOK S) (i j : Fin n) (h h' : Heap Loc Val)
    (ha : AgreeFor S i h h') :
    AgreeFor S i (S.step j h) (if j = i then S.step i h' else h') := by
  intro l hl
  by_cases hji : j = i
  · subst hji
    simp only [if_true]
    rcases hl with hl | hl
    · exact ok.readsOwnOrShared j h h' ha l hl
    · rw [ok.writesOwn j h l (by simp [hl]), ok.writesOwn j h' l (by simp [hl])]
      exact ha l (Or.inr hl)
  · simp only [hji, if_false]
    have hne : S.owner l ≠ some j := by
      rcases hl with hl | hl
      · rw [hl]; intro heq; exact hji (Option.some.inj heq).symm
      · simp [hl]
    rw [ok.writesOwn j h l hne]
    exact ha l hl

/-- Schedule independence: after any interleaving, everything operation `i` owns (and every shared
    location) holds exactly what it holds when `i` runs alone. -/
theorem schedule_independent {n : Nat} (S : Sys Loc Val n) (ok : StepOK S) (i : Fin n) (sched : List (Fin n))
    (h h' : Heap Loc Val) (ha : AgreeFor S i h h') :
    AgreeFor S i (run S sched h) (runAlone S i sched h') := by
  induction sched generalizing h h' with
  | nil => exact ha
  | cons j rest ih =>
    simp only [run, runAlone]
    have := step_preserves_agree S ok i j h h' ha
    by_cases hji : j = i
    · simp only [hji, if_true] at this ⊢
      exact ih _ _ this
    · simp only [hji, if_false] at this ⊢
      exact ih _ _ this

/-- Shared locations are never modified by any schedule. -/
theorem shared_untouched {n : Nat} (S : Sys Loc Val n) (ok : StepOK S) (sched : List (Fin n)) (h : Heap Loc Val)
    (l : Loc) (hl : S.owner l = none) : run S sched h l = h l := by
  induction sched generalizing h with
  | nil => rfl
  | cons j rest ih =>
    simp only [run]
    rw [ih, ok.writesOwn j h l (by simp [hl])]

end CM.Spec.Footprint
