import CM.Spec.Classes
/-
The line grammars of CommonMark 0.30 §4.1 (thematic breaks), §4.2 (ATX headings),
§4.3 (setext heading underline), §4.5 (code fence + info string), §5.2 (list markers),
§6.5 (e-mail autolinks), written as direct functional readings of the prose.
All functions take the line *after* the caller stripped the ≤3 columns of indentation,
with its line ending (if any) still attached. No reference to the model.
-/
namespace CM.Spec

def isWs (c : UInt8) : Bool := isSpaceTabOrLineEnding c
def isSpTab (c : UInt8) : Bool := c == 0x20 || c == 0x09

/-- Drop trailing bytes satisfying `p`. -/
def dropRight (p : UInt8 → Bool) (l : Bytes) : Bytes := (l.reverse.dropWhile p).reverse

/-- §4.1: "a sequence of three or more matching -, _, or * characters, each followed optionally by
    any number of spaces or tabs". Result: index just after the last marker character. -/
def thematicBreak (line : Bytes) : Option Nat :=
  match line.filter (fun b => !isWs b) with
  | [] => none
  | ch :: marks =>
    if (ch == 0x2D || ch == 0x5F || ch == 0x2A) && marks.all (· == ch) && marks.length + 1 ≥ 3
    then some (dropRight isWs line).length else none

structure ATX where
  level : Nat
  start : Nat
  stop : Nat
deriving Repr, BEq, DecidableEq

/-- §4.2. `body` is the line without its line ending. The opening sequence is 1–6 `#` followed by
    a space/tab or the end of the line; raw content is stripped of leading and trailing spaces/tabs;
    an optional closing sequence of `#`s must be preceded by a space or tab (the one after the
    opening sequence counts) and may be followed by spaces or tabs only. -/
def atxHeading (line : Bytes) : Option ATX :=
  let body := dropRight (fun c => c == 0x0A || c == 0x0D) line
  let level := (body.takeWhile (· == 0x23)).length
  if level == 0 || level > 6 then none else
  let rest := body.drop level
  match rest with
  | [] => some ⟨level, level, level⟩
  | c :: _ =>
    if !isSpTab c then none else
    let lead := (rest.takeWhile isSpTab).length
    let start := level + lead
    let content := rest.drop lead               -- starts at index `start`
    let r1 := dropRight isSpTab content          -- trailing spaces/tabs stripped
    let r2 := dropRight (· == 0x23) r1           -- candidate closing sequence removed
    if r2.length == r1.length then some ⟨level, start, start + r1.length⟩   -- no trailing #
    else if r2.isEmpty then some ⟨level, start, start⟩                       -- only a closing sequence
    else if isSpTab (r2.getLast?.getD 0) then some ⟨level, start, start + (dropRight isSpTab r2).length⟩
    else some ⟨level, start, start + r1.length⟩                              -- #s belong to the content

/-- §4.3: "a sequence of = characters or a sequence of - characters, with … any number of trailing
    spaces or tabs". 1 for `=`, 2 for `-`. -/
def setextUnderline (line : Bytes) : Option Nat :=
  match line with
  | [] => none
  | c :: _ =>
    if c == 0x3D || c == 0x2D then
      if ((line.dropWhile (· == c)).all isWs) then some (if c == 0x3D then 1 else 2) else none
    else none

structure Fence where
  char : UInt8
  n : Nat
  info : Option (Nat × Nat)
deriving Repr, BEq, DecidableEq

/-- §4.5: at least three consecutive backticks or tildes; the rest of the line, trimmed, is the
    info string; a backtick fence's info string may not contain a backtick. -/
def codeFence (line : Bytes) : Option Fence :=
  match line with
  | [] => none
  | c :: _ =>
    if !(c == 0x60 || c == 0x7E) then none else
    let n := (line.takeWhile (· == c)).length
    if n < 3 then none else
    let rest := line.drop n
    let lead := (rest.takeWhile isWs).length
    let info := dropRight isWs (rest.drop lead)
    if info.isEmpty then some ⟨c, n, none⟩
    else if c == 0x60 && info.contains 0x60 then none
    else some ⟨c, n, some (n + lead, n + lead + info.length)⟩

structure Marker where
  delim : UInt8
  n : Nat
  stop : Nat
deriving Repr, BEq, DecidableEq

def decimal (ds : Bytes) : Nat := ds.foldl (fun acc d => acc * 10 + (d.toNat - 48)) 0

/-- §5.2: bullet `-`, `+`, `*`; or 1–9 digits followed by `.` or `)`. In a list item the marker is
    followed by a space, a tab, or the end of the line. -/
def listMarker (line : Bytes) : Option Marker :=
  match line with
  | [] => none
  | c :: rest =>
    if c == 0x2D || c == 0x2B || c == 0x2A then
      if rest.isEmpty || isWs (rest.headD 0) then some ⟨c, 0, 1⟩ else none
    else
      let ds := line.takeWhile isASCIIDigit
      if ds.length == 0 || ds.length > 9 then none else
      match line.drop ds.length with
      | [] => none
      | d :: after =>
        if !(d == 0x2E || d == 0x29) then none
        else if after.isEmpty || isWs (after.headD 0) then some ⟨d, decimal ds, ds.length + 1⟩ else none

/-! ### E-mail address (§6.5, the regular expression quoted from the HTML5 spec)
`[a-zA-Z0-9.!#$%&'*+/=?^_`{|}~-]+@[a-zA-Z0-9](?:[a-zA-Z0-9-]{0,61}[a-zA-Z0-9])?(?:\.[a-zA-Z0-9](?:[a-zA-Z0-9-]{0,61}[a-zA-Z0-9])?)*` -/

def isAlnum (c : UInt8) : Bool := isASCIILetter c || isASCIIDigit c
def isLocalChar (c : UInt8) : Bool := isAlnum c || mem ".!#$%&'*+/=?^_`{|}~-" c

/-- `[a-zA-Z0-9](?:[a-zA-Z0-9-]{0,61}[a-zA-Z0-9])?` -/
def isDomainLabel (l : Bytes) : Bool :=
  1 ≤ l.length && l.length ≤ 63 && l.all (fun c => isAlnum c || c == 0x2D)
    && isAlnum (l.headD 0) && isAlnum (l.getLast?.getD 0)

def splitOn (sep : UInt8) : Bytes → List Bytes
  | [] => [[]]
  | c :: rest =>
    if c == sep then [] :: splitOn sep rest
    else match splitOn sep rest with
      | [] => [[c]]
      | l :: ls => (c :: l) :: ls

def isEmailAddress (s : Bytes) : Bool :=
  let loc := s.takeWhile (· != 0x40)
  match s.drop loc.length with
  | [] => false
  | _ :: domain =>
    !loc.isEmpty && loc.all isLocalChar && (splitOn 0x2E domain).all isDomainLabel

/-! ### URI normalisation (RFC 3986 alphabets) -/

/-- Output alphabet: unreserved ∪ reserved (the set the renderer keeps) plus well-formed `%HH`. -/
def uriWellFormed : Bytes → Bool
  | [] => true
  | c :: rest =>
    if c == 0x25 then
      match rest with
      | a :: b :: rest' => isHex a && isHex b && uriWellFormed rest'
      | _ => false
    else isURISafe c && uriWellFormed rest

end CM.Spec
