import CM.Spec.Classes
/-
The tag-related states of the WHATWG HTML tokenizer (§13.2.5), started in the data state, for content that
is not foreign (so `<![CDATA[` is a bogus comment) and as long as no raw-text / RCDATA / script / plaintext
element has been opened (the situation C17 is about). Output: the lower-cased names of the start-tag tokens
emitted, in order. Character references, attribute values and text are consumed but not reported.
No reference to the model.
-/
namespace CM.Spec

inductive TS where
  | data | tagOpen | endTagOpen | tagName | beforeAttrName | attrName | afterAttrName | beforeAttrValue
  | attrValueDQ | attrValueSQ | attrValueUQ | afterAttrValueQ | selfClosing | bogusComment | markupDeclOpen
  | commentStart | commentStartDash | comment | commentLT | commentLTBang | commentLTBangDash
  | commentLTBangDashDash | commentEndDash | commentEnd | commentEndBang | doctype
deriving Repr, BEq, DecidableEq

structure TokSt where
  st : TS := .data
  /-- the tag token being built -/
  name : Bytes := []
  isEnd : Bool := false
  /-- start-tag names emitted so far (reversed) -/
  out : List Bytes := []
deriving Repr

def isHtmlWs (c : UInt8) : Bool := c == 0x09 || c == 0x0A || c == 0x0C || c == 0x20

def lowerByte (c : UInt8) : UInt8 := if 0x41 ≤ c && c ≤ 0x5A then c + 0x20 else c

def emitTag (s : TokSt) : TokSt :=
  { s with st := .data, out := if s.isEnd then s.out else s.name.reverse :: s.out, name := [], isEnd := false }

def ciPrefix (b : Bytes) (p : String) : Bool :=
  let pb := p.toUTF8.toList
  b.length ≥ pb.length && (b.take pb.length).map lowerByte == pb.map lowerByte

/-- One input character in one state. `rest` is the input after `c` (for the look-ahead of the markup
    declaration open state); the result says how many further characters were consumed by look-ahead.
    `fuel` bounds reconsumption (every reconsume reaches a consuming state within three hops). -/
def tstep : Nat → TokSt → UInt8 → Bytes → TokSt × Nat
  | 0, s, _, _ => (s, 0)
  | fuel + 1, s, c, rest =>
    match s.st with
    | .data => if c == 0x3C then ({ s with st := .tagOpen }, 0) else (s, 0)
    | .tagOpen =>
      if c == 0x21 then
        -- markup declaration open state looks ahead without a current character
        if rest.take 2 == [0x2D, 0x2D] then ({ s with st := .commentStart }, 2)
        else if ciPrefix rest "doctype" then ({ s with st := .doctype }, 7)
        else ({ s with st := .bogusComment }, 0)          -- includes `[CDATA[` outside foreign content
      else if c == 0x2F then ({ s with st := .endTagOpen }, 0)
      else if isASCIILetter c then tstep fuel { s with st := .tagName, name := [], isEnd := false } c rest
      else if c == 0x3F then ({ s with st := .bogusComment }, 0)
      else tstep fuel { s with st := .data } c rest      -- invalid-first-character-of-tag-name: '<' is text
    | .endTagOpen =>
      if isASCIILetter c then tstep fuel { s with st := .tagName, name := [], isEnd := true } c rest
      else if c == 0x3E then ({ s with st := .data }, 0)
      else ({ s with st := .bogusComment }, 0)
    | .tagName =>
      if isHtmlWs c then ({ s with st := .beforeAttrName }, 0)
      else if c == 0x2F then ({ s with st := .selfClosing }, 0)
      else if c == 0x3E then (emitTag s, 0)
      else ({ s with name := lowerByte c :: s.name }, 0)
    | .beforeAttrName =>
      if isHtmlWs c then (s, 0)
      else if c == 0x2F || c == 0x3E then tstep fuel { s with st := .afterAttrName } c rest
      else ({ s with st := .attrName }, 0)                -- '=' too (unexpected-equals-sign): starts a name
    | .attrName =>
      if isHtmlWs c || c == 0x2F || c == 0x3E then tstep fuel { s with st := .afterAttrName } c rest
      else if c == 0x3D then ({ s with st := .beforeAttrValue }, 0)
      else (s, 0)
    | .afterAttrName =>
      if isHtmlWs c then (s, 0)
      else if c == 0x2F then ({ s with st := .selfClosing }, 0)
      else if c == 0x3D then ({ s with st := .beforeAttrValue }, 0)
      else if c == 0x3E then (emitTag s, 0)
      else ({ s with st := .attrName }, 0)
    | .beforeAttrValue =>
      if isHtmlWs c then (s, 0)
      else if c == 0x22 then ({ s with st := .attrValueDQ }, 0)
      else if c == 0x27 then ({ s with st := .attrValueSQ }, 0)
      else if c == 0x3E then (emitTag s, 0)               -- missing-attribute-value
      else ({ s with st := .attrValueUQ }, 0)
    | .attrValueDQ => if c == 0x22 then ({ s with st := .afterAttrValueQ }, 0) else (s, 0)
    | .attrValueSQ => if c == 0x27 then ({ s with st := .afterAttrValueQ }, 0) else (s, 0)
    | .attrValueUQ =>
      if isHtmlWs c then ({ s with st := .beforeAttrName }, 0)
      else if c == 0x3E then (emitTag s, 0)
      else (s, 0)
    | .afterAttrValueQ =>
      if isHtmlWs c then ({ s with st := .beforeAttrName }, 0)
      else if c == 0x2F then ({ s with st := .selfClosing }, 0)
      else if c == 0x3E then (emitTag s, 0)
      else tstep fuel { s with st := .beforeAttrName } c rest
    | .selfClosing =>
      if c == 0x3E then (emitTag s, 0)
      else tstep fuel { s with st := .beforeAttrName } c rest
    | .bogusComment => if c == 0x3E then ({ s with st := .data }, 0) else (s, 0)
    | .markupDeclOpen => (s, 0)                            -- handled inside tagOpen
    | .commentStart =>
      if c == 0x2D then ({ s with st := .commentStartDash }, 0)
      else if c == 0x3E then ({ s with st := .data }, 0)   -- abrupt-closing-of-empty-comment `<!-->`
      else tstep fuel { s with st := .comment } c rest
    | .commentStartDash =>
      if c == 0x2D then ({ s with st := .commentEnd }, 0)
      else if c == 0x3E then ({ s with st := .data }, 0)   -- `<!--->`
      else tstep fuel { s with st := .comment } c rest
    | .comment =>
      if c == 0x3C then ({ s with st := .commentLT }, 0)
      else if c == 0x2D then ({ s with st := .commentEndDash }, 0)
      else (s, 0)
    | .commentLT =>
      if c == 0x21 then ({ s with st := .commentLTBang }, 0)
      else if c == 0x3C then (s, 0)
      else tstep fuel { s with st := .comment } c rest
    | .commentLTBang =>
      if c == 0x2D then ({ s with st := .commentLTBangDash }, 0)
      else tstep fuel { s with st := .comment } c rest
    | .commentLTBangDash =>
      if c == 0x2D then ({ s with st := .commentLTBangDashDash }, 0)
      else tstep fuel { s with st := .commentEndDash } c rest
    | .commentLTBangDashDash => tstep fuel { s with st := .commentEnd } c rest
    | .commentEndDash =>
      if c == 0x2D then ({ s with st := .commentEnd }, 0)
      else tstep fuel { s with st := .comment } c rest
    | .commentEnd =>
      if c == 0x3E then ({ s with st := .data }, 0)
      else if c == 0x21 then ({ s with st := .commentEndBang }, 0)
      else if c == 0x2D then (s, 0)
      else tstep fuel { s with st := .comment } c rest
    | .commentEndBang =>
      if c == 0x2D then ({ s with st := .commentEndDash }, 0)
      else if c == 0x3E then ({ s with st := .data }, 0)   -- incorrectly-closed-comment `--!>`
      else tstep fuel { s with st := .comment } c rest
    | .doctype => if c == 0x3E then ({ s with st := .data }, 0) else (s, 0)   -- every DOCTYPE state leaves at '>'

/-- Run over the input; `skip` = characters already consumed by look-ahead. -/
def tokenizeAux : Bytes → TokSt → Nat → TokSt
  | [], s, _ => s
  | _ :: rest, s, skip + 1 => tokenizeAux rest s skip
  | c :: rest, s, 0 =>
    let r := tstep 6 s c rest
    tokenizeAux rest r.1 r.2

/-- §13.2.3.5 "Preprocessing the input stream": newlines are normalised before tokenization —
    every CR LF pair becomes LF, every remaining CR becomes LF. -/
def normalizeNewlines : Bytes → Bytes
  | [] => []
  | [c] => if c == 0x0D then [0x0A] else [c]
  | c :: d :: rest =>
    if c == 0x0D then
      if d == 0x0A then 0x0A :: normalizeNewlines rest else 0x0A :: normalizeNewlines (d :: rest)
    else c :: normalizeNewlines (d :: rest)

/-- The tokenizer proper, on an already preprocessed stream. -/
def startTagsRaw (input : Bytes) : List Bytes := (tokenizeAux input {} 0).out.reverse

/-- The start-tag names an HTML tokenizer emits for `input`, in order (preprocessing, then tokenization). -/
def startTags (input : Bytes) : List Bytes := startTagsRaw (normalizeNewlines input)

end CM.Spec
