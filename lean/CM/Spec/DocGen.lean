import CM.Spec.Doc
/-
Seeded generator of abstract documents (a test-data generator: its recursive functions are `partial`,
bounded by explicit fuel and depth arguments; nothing is proved about it)
Seeded generator of abstract documents (and of serialiser choices) satisfying the side conditions of
DESIGN.md §7. Everything derives from one seed; a document is `genDoc seed size`.
-/
namespace CM.Spec

/-- splitmix-style step on `Nat` (mod 2^64). -/
def rngNext (x : Nat) : Nat :=
  let z := (x + 0x9E3779B97F4A7C15) % 18446744073709551616
  let z := ((z ^^^ (z / 1073741824)) * 0xBF58476D1CE4E5B9) % 18446744073709551616
  let z := ((z ^^^ (z / 134217728)) * 0x94D049BB133111EB) % 18446744073709551616
  z ^^^ (z / 2147483648)

structure G where
  seed : Nat
deriving Inhabited

instance : Inhabited Inl := ⟨.softbreak⟩
instance : Inhabited Blk := ⟨.hr⟩

def G.next (g : G) (n : Nat) : Nat × G :=
  let x := rngNext g.seed
  ((if n == 0 then 0 else (x / 65536) % n), ⟨x⟩)

def choicesOf (seed : Nat) : Nat → Choices
  | 0 => []
  | n + 1 => let x := rngNext seed; (x / 65536) % 1000 :: choicesOf x n

def pickFrom (g : G) (xs : List Bytes) : Bytes × G :=
  let (i, g) := g.next xs.length
  (xs.getD i [], g)

def wordPool : List Bytes :=
  [s "foo", s "bar", s "a", s "Baz9", s "x1", s "é", s "ß", s "q*r", s "a_b", s "#h", s "1.", s "-", s "+x", s "a&b", s "<t>",
   s "[b]", s "c]d", s "`k`", s "e\\f", s "\"q\"", s "it's", s "(p)", s "=", s "~~", s "a:b", s "!", s "2)", s "w.", s ">", s "|", s "$5", s "100%"]

def destPool : List Bytes := [s "/u", s "http://a.b/c?d=e&f#g", s "/a b", s "x(y)z", s "", s "/p/é", s "#frag", s "/q\"r", s "/l<m"]
def titlePool : List Bytes := [s "t", s "a \"q\" b", s "it's", s "(p)", s "x & y", s "l1 l2", s "é<b>", s "ti\ntle", s "two\nmore lines\nhere"]
def codePool : List Bytes := [s "c", s "a b", s "`", s "``x", s "a`b``c", s " x ", s "<&>", s "*e*", s "  ", s "\\n"]
def uriPool : List Bytes := [s "http://a.b/c", s "https://x.y/?q=1&r=2", s "mailto:a@b.c", s "ftp://h/p%20q", s "a+b.c-d:x"]
def tagPool : List Bytes := [s "<b>", s "</b>", s "<br/>", s "<a href=\"x\">", s "<!-- c -->", s "<?p?>", s "<x-y z='1'>", s "<a\nhref=\"x\">", s "<img\nsrc=\"y.png\"\nalt=\"z\"/>"]
def entityPool : List (Bytes × Bytes) := [(s "amp", s "&"), (s "lt", s "<"), (s "#35", s "#"), (s "#x41", s "A"), (s "copy", s "©"), (s "quot", s "\""), (s "auml", s "ä"),
  (s "#x01F600", s "😀"), (s "#0128512", s "😀"), (s "#x10FFFD", [0xF4, 0x8F, 0xBF, 0xBD]), (s "#0000097", s "a"), (s "#X000061", s "a")]
def infoPool : List Bytes := [[], s "go", s "c++", s "x-y", s "é"]
def codeLinePool : List Bytes := [s "x", s "  ind", s "a < b && c", s "```", s "~~~", s "*not em*", s "", s "# h", s "- l", s "> q", s "    deep", s "<div>", s "\\e", s "``` ", s "~~~~  ", s "````", s "``` x", s "\tt", s "a\tb", s " ````", s "   ~~~~", s "  ```"]
def htmlLinePool : List Bytes := [s "<div>", s "</div>", s "<p class=\"c\">", s "*x*", s "text", s "<table><tr>", s "  <td>"]
/-- words for intraword emphasis: every character is a letter, a digit, or a non-ASCII SYMBOL (not punctuation in 0.30) -/
def gluePool : List Bytes := [s "a", s "Baz9", s "x1", s "é", s "ß", s "£", s "€5", s "©", s "×", s "→", s "5×", s "µm"]
def labelPool : List Bytes := [s "l1", s "Lab 2", s "ß", s "x*y"]

/-- A plain word (the first and last item of every inline sequence, so that delimiters flank properly). -/
def genWord (g : G) : Inl × G :=
  let (w, g) := pickFrom g wordPool
  (.word w, g)

mutual
/-- One non-word inline item. `fuel` bounds the total recursion, `d` the nesting; `inLink` forbids nested links. -/
partial def genItem : Nat → Nat → Bool → List Bytes → G → Inl × G
  | 0, _, _, _, g => genWord g
  | _, 0, _, _, g => genWord g
  | f + 1, d + 1, inLink, labels, g =>
    let (k, g) := g.next 11
    if k == 10 then
      let (a, g) := pickFrom g gluePool
      let (b, g) := pickFrom g gluePool
      let (c, g) := pickFrom g gluePool
      let (st, g) := g.next 2
      (.intra (st == 1) a b c, g)
    else if k == 0 then let (c, g) := pickFrom g codePool; (.code c, g)
    else if k == 1 then let (ks, g) := genInls f d inLink labels false g; (.emph ks, g)
    else if k == 2 then let (ks, g) := genInls f d inLink labels false g; (.strong ks, g)
    else if k == 3 && !inLink then
      let (ks, g) := genInls f d true labels false g
      let (dst, g) := pickFrom g destPool
      let (t, g) := g.next 2
      let (tt, g) := pickFrom g titlePool
      (.link ks dst (if t == 0 then none else some tt), g)
    else if k == 4 then
      let (ks, g) := genInls f d inLink labels false g
      let (dst, g) := pickFrom g destPool
      let (t, g) := g.next 2
      let (tt, g) := pickFrom g titlePool
      (.image ks dst (if t == 0 then none else some tt), g)
    else if k == 5 && !inLink && !labels.isEmpty then
      let (ks, g) := genInls f d true labels false g
      let (l, g) := pickFrom g labels
      (.reflink ks l, g)
    else if k == 6 && !inLink then let (u, g) := pickFrom g uriPool; (.autolink u, g)
    else if k == 7 then let (t, g) := pickFrom g tagPool; (.rawtag t, g)
    else if k == 8 then
      let (i, g) := g.next entityPool.length
      let e := entityPool.getD i (s "amp", s "&")
      (.entity e.1 e.2, g)
    else genWord g
/-- word (item word)*: first and last items are words; `breaks` allows hard/soft line breaks. -/
partial def genInls : Nat → Nat → Bool → List Bytes → Bool → G → List Inl × G
  | 0, _, _, _, _, g => let (w, g) := genWord g; ([w], g)
  | f + 1, d, inLink, labels, breaks, g =>
    let (w0, g) := genWord g
    let (n, g) := g.next 3
    let (rest, g) := genMore f n d inLink labels breaks g
    (w0 :: rest, g)
partial def genMore : Nat → Nat → Nat → Bool → List Bytes → Bool → G → List Inl × G
  | 0, _, _, _, _, _, g => ([], g)
  | _, 0, _, _, _, _, g => ([], g)
  | f + 1, m + 1, d, inLink, labels, breaks, g =>
    let (b, g) := g.next 6
    let sep : List Inl := if breaks && b == 0 then [.softbreak] else if breaks && b == 1 then [.hardbreak] else []
    let (it, g) := genItem f d inLink labels g
    -- a comment or processing instruction at the start of a line would start an HTML block
    let sep : List Inl := match it with
      | .rawtag t => if t.take 2 == s "<!" || t.take 2 == s "<?" then [] else sep
      | _ => sep
    let (b2, g) := g.next 6
    let sep2 : List Inl := if breaks && b2 == 0 then [.softbreak] else []
    let (w, g) := genWord g
    let (rest, g) := genMore f m d inLink labels breaks g
    (sep ++ [it] ++ sep2 ++ [w] ++ rest, g)
end

mutual
/-- An ATX heading is one line: titles and raw tags inside it may not continue on a next line. -/
def oneLineInl : Inl → Inl
  | .emph ks => .emph (oneLineInls ks)
  | .strong ks => .strong (oneLineInls ks)
  | .link ks d t => .link (oneLineInls ks) d (t.map fun b => b.map fun c => if c == 0x0A then 0x20 else c)
  | .image ks d t => .image (oneLineInls ks) d (t.map fun b => b.map fun c => if c == 0x0A then 0x20 else c)
  | .reflink ks l => .reflink (oneLineInls ks) l
  | .rawtag b => .rawtag (b.map fun c => if c == 0x0A then 0x20 else c)
  | i => i
def oneLineInls : List Inl → List Inl
  | [] => []
  | k :: ks => oneLineInl k :: oneLineInls ks
end

def inlFuel : Nat := 40

def genLinesN : Nat → G → List Bytes → List Bytes × G
  | 0, g, _ => ([], g)
  | m + 1, g, pool => let (l, g) := pickFrom g pool; let (r, g) := genLinesN m g pool; (l :: r, g)

def genLines (g : G) (pool : List Bytes) (nonBlankEnds : Bool) : List Bytes × G :=
  let (n, g) := g.next 4
  let (ls, g) := genLinesN (n + 1) g pool
  if nonBlankEnds then
    let ls := (ls.dropWhile (·.all (· == 0x20))).reverse.dropWhile (·.all (· == 0x20)) |>.reverse
    (if ls.isEmpty then [s "x"] else ls, g)
  else (ls, g)

mutual
/-- One block. `first` = it is the first block of a list item (then no thematic break, no indented code,
    no setext heading); `prevList` = the previous sibling is a list (then no list and no indented code). -/
partial def genBlk : Nat → Nat → Bool → Bool → List Bytes → G → Blk × G
  | 0, _, _, _, labels, g => let (ks, g) := genInls inlFuel 1 false labels true g; (.para ks, g)
  | _, 0, _, _, labels, g => let (ks, g) := genInls inlFuel 1 false labels true g; (.para ks, g)
  | f + 1, d + 1, first, prevList, labels, g =>
    let (k, g) := g.next 12
    if k == 0 then let (l, g) := g.next 6; let (ks, g) := genInls inlFuel d false labels false g; (.atx (l + 1) (oneLineInls ks), g)
    else if k == 1 && !first then let (l, g) := g.next 2; let (ks, g) := genInls inlFuel d false labels true g; (.setext (l + 1) ks, g)
    else if k == 2 && !first then (.hr, g)
    else if k == 3 then
      let (info, g) := pickFrom g infoPool
      let (ls, g) := genLines g codeLinePool false
      (.fenced info ls, g)
    else if k == 4 && !first && !prevList then
      let (ls, g) := genLines g (codeLinePool.filter (fun l => !l.isEmpty)) true
      (.indented ls, g)
    else if k == 5 then let (ks, g) := genBlks f d labels g; (.quote ks, g)
    else if (k == 6 || k == 7) && !prevList then
      let (o, g) := g.next 2
      let (st, g) := g.next 5
      let start := [1, 0, 7, 42, 999999999].getD st 1
      let (n, g) := g.next 3
      let (tight, g) := g.next 2
      if tight == 0 then
        let (its, g) := genTightItems f d (n + 1) labels g
        (.list (if o == 0 then none else some start) true its, g)
      else
        let (its, g) := genLooseItems f d (n + 2) labels g
        (.list (if o == 0 then none else some start) false its, g)
    else if k == 8 && !first then
      let (ls, g) := genLines g (htmlLinePool.drop 2) false
      (.html (s "<div>" :: ls.filter (fun l => !l.isEmpty)), g)
    else let (ks, g) := genInls inlFuel d false labels true g; (.para ks, g)
partial def genBlks : Nat → Nat → List Bytes → G → List Blk × G
  | 0, _, _, g => ([], g)
  | f + 1, d, labels, g =>
    let (n, g) := g.next 3
    genBlkSeq f (n + 1) d false labels g
partial def genBlkSeq : Nat → Nat → Nat → Bool → List Bytes → G → List Blk × G
  | 0, _, _, _, _, g => ([], g)
  | _, 0, _, _, _, g => ([], g)
  | f + 1, m + 1, d, prevList, labels, g =>
    let (b, g) := genBlk f d false prevList labels g
    let isList := match b with | .list _ _ _ => true | .indented _ => true | _ => false
    let (r, g) := genBlkSeq f m d isList labels g
    (b :: r, g)
/-- Tight items: one paragraph, optionally followed by a nested tight list. -/
partial def genTightItems : Nat → Nat → Nat → List Bytes → G → List (List Blk) × G
  | 0, _, _, _, g => ([], g)
  | _, _, 0, _, g => ([], g)
  | f + 1, d, m + 1, labels, g =>
    let (ks, g) := genInls inlFuel d false labels true g
    let (nest, g) := g.next 4
    let (sub, g) :=
      if nest == 0 && d > 0 then
        let (its, g) := genTightItems f (d - 1) 1 labels g
        (if its.isEmpty then [] else [Blk.list none true its], g)
      else ([], g)
    -- after a nested list: sometimes a thematic break or a fenced block and then ANOTHER paragraph of the same
    -- (tight) item - it must still be rendered without <p>, although a nested container was entered and left
    let (tl, g) := g.next 3
    let (tail, g) :=
      if sub.isEmpty || tl != 0 then (([] : List Blk), g)
      else
        let (w, g) := g.next 2
        let (ks2, g) := genInls inlFuel d false labels true g
        ((if w == 0 then Blk.hr else Blk.fenced [] [s "c"]) :: [Blk.para ks2], g)
    let (rest, g) := genTightItems f d m labels g
    ((Blk.para ks :: sub ++ tail) :: rest, g)
/-- Loose items: one or two blocks each, the first not an indented code block / thematic break. -/
partial def genLooseItems : Nat → Nat → Nat → List Bytes → G → List (List Blk) × G
  | 0, _, _, _, g => ([], g)
  | _, _, 0, _, g => ([], g)
  | f + 1, d, m + 1, labels, g =>
    let (b0, g) := genBlk f d true false labels g
    -- one time in eight the item BEGINS with an indented code block (often its only block)
    let (ic0, g) := g.next 8
    let (b0, g) :=
      if ic0 == 0 then
        let (ls, g) := genLines g (codeLinePool.filter (fun l => !l.isEmpty)) true
        (Blk.indented ls, g)
      else (b0, g)
    let (two, g) := if ic0 == 0 then g.next 4 else g.next 2
    let isList := match b0 with | .list _ _ _ => true | .indented _ => true | _ => false
    let (more, g) := if two == 0 then let (b1, g) := genBlk f d false isList labels g; ([b1], g) else ([], g)
    -- one time in five the item ENDS in an indented code block (whatever came before): the blank line that separates it
    -- from the next item is then what makes the list loose
    let (ic, g) := g.next 5
    let (more, g) :=
      let lastIsListOrCode : Bool := match (more.getLast? : Option Blk) with
        | some (Blk.list _ _ _) => true
        | some (Blk.indented _) => true
        | _ => false
      if ic == 0 && !isList && !lastIsListOrCode then
        let (ls, g) := genLines g (codeLinePool.filter (fun l => !l.isEmpty)) true
        (more ++ [Blk.indented ls], g)
      else (more, g)
    let (rest, g) := genLooseItems f d m labels g
    ((b0 :: more) :: rest, g)
end

/-- Reference definitions for every label, placed at the end of the document. -/
def genDefs (g : G) : List Bytes → List Blk × List (Bytes × Bytes × Option Bytes) × G
  | [] => ([], [], g)
  | l :: ls =>
    let (d, g) := pickFrom g (destPool.filter (fun d => !d.isEmpty))
    let (t, g) := g.next 2
    let (tt, g) := pickFrom g titlePool
    let title := if t == 0 then none else some tt
    let (bs, env, g) := genDefs g ls
    -- one time in four the definition sits two block quotes deep and is followed, one level up in the same root
    -- block, by a competing definition of the same label: the first in document order wins
    let (k, g) := g.next 4
    if k == 0 then
      (Blk.quote [Blk.quote [Blk.refdef l d title], Blk.refdef l (s "/later") none] :: bs, (l, d, title) :: env, g)
    else (Blk.refdef l d title :: bs, (l, d, title) :: env, g)

/-! ### The formatter's supported construct set (`FDoc`, DESIGN.md §7) -/

def wordOK (first : Bool) (b : Bytes) : Bool :=
  -- a line must not begin (after unescaping) with `+`, or with digits followed by `.` or `)`
  !first || !(b.head? == some 0x2B ||
    (let ds := b.takeWhile isASCIIDigit; !ds.isEmpty && ((b.drop ds.length).head? == some 0x2E || (b.drop ds.length).head? == some 0x29)))

mutual
def fInl : Inl → Bool
  | .word _ => true
  | .code _ => true
  | .emph ks => fInls ks
  | .strong ks => fInls ks
  | .link ks _ t => fInls ks && (match t with | some t => !t.contains 0x22 && !t.contains 0x0A | none => true)
  | .image ks _ t => fInls ks && (match t with | some t => !t.contains 0x22 && !t.contains 0x0A | none => true)
  | .reflink ks _ => fInls ks
  | .autolink _ => true
  | .rawtag _ => true
  | .entity _ _ => true
  | .intra _ _ _ _ => true
  | .hardbreak => true
  | .softbreak => true
def fInls : List Inl → Bool
  | [] => true
  | k :: ks => fInl k && fInls ks
end

/-- Words that begin a line (the first item and every item after a break). -/
def lineStartsOK : List Inl → Bool → Bool
  | [], _ => true
  | .word b :: rest, atStart => wordOK atStart b && lineStartsOK rest false
  | .hardbreak :: rest, _ => lineStartsOK rest true
  | .softbreak :: rest, _ => lineStartsOK rest true
  | _ :: rest, _ => lineStartsOK rest false

def oneLine (ks : List Inl) : Bool := ks.all fun k => match k with | .softbreak => false | .hardbreak => false | _ => true

mutual
def fBlk : Blk → Bool
  | .para ks => fInls ks && lineStartsOK ks true
  | .atx _ ks => fInls ks
  | .setext _ ks => fInls ks && oneLine ks && lineStartsOK ks true
  | .hr => true
  | .fenced _ _ => true
  | .indented _ => true
  | .quote ks => fBlks ks
  | .list _ tight items => fItems tight items
  | .html _ => true
  | .refdef _ d t => !d.contains 0x20 && !d.isEmpty && !d.contains 0x3C && (match t with | some t => !t.contains 0x22 && !t.contains 0x0A | none => true)
def fBlks : List Blk → Bool
  | [] => true
  | b :: bs => fBlk b && fBlks bs
def fItems (tight : Bool) : List (List Blk) → Bool
  | [] => true
  | it :: its => fBlks it && (!tight || it.length == 1) && fItems tight its
end

def inFDoc (d : Doc) : Bool := fBlks d

structure GenResult where
  doc : Doc
  env : Env
  choices : Choices

/-- The document for a seed. `size` bounds the nesting depth (1–4). -/
def genDoc (seed size : Nat) (crlf : Bool) : GenResult :=
  let g : G := ⟨seed⟩
  let (useRefs, g) := g.next 3
  let labels := if useRefs == 0 then labelPool.take 2 else []
  let (blocks, g) := genBlks 60 size labels g
  let (defs, refs, g) := genDefs g labels
  { doc := blocks ++ defs,
    env := { eol := if crlf then [0x0D, 0x0A] else [0x0A], refs := refs },
    choices := choicesOf g.seed 400 }

end CM.Spec
