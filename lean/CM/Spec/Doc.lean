import CM.Spec.Classes
/-
C06 / C20 — abstract CommonMark documents, their canonical serialisation and the HTML they denote.
Normative summary: DESIGN.md §7. No reference to the model.

A document is serialised in "canonical style": only spellings whose meaning is fixed by the text of
CommonMark 0.30. `ser` is deterministic given a stream of choices (`Choices`): marker characters, fence
lengths, indentation widths 1–4, escaping style, emphasis character, title quotes, ATX closing
sequence, setext underline length, thematic-break spelling, blank-line counts, `<dest>` vs bare.
`denote` is the HTML mapping of the spec, spelled the way this renderer spells it
(`<hr>`, `<br>` + LF, blocks concatenated, root blocks joined by a blank line).
-/
namespace CM.Spec

def s (x : String) : Bytes := x.toUTF8.toList

inductive Inl where
  /-- a word: letters, digits and ASCII punctuation (the latter is escaped when serialised) -/
  | word (b : Bytes)
  | code (b : Bytes)
  | emph (kids : List Inl)
  | strong (kids : List Inl)
  | link (kids : List Inl) (dest : Bytes) (title : Option Bytes)
  | image (kids : List Inl) (dest : Bytes) (title : Option Bytes)
  | reflink (kids : List Inl) (label : Bytes)
  | autolink (uri : Bytes)
  | rawtag (b : Bytes)
  | entity (name : Bytes) (decoded : Bytes)
  /-- intraword emphasis `pre*mid*post` (`**` when `strong`): three words written without separators. All three consist of
      letters, digits and non-ASCII characters that CommonMark 0.30 counts neither as Unicode whitespace nor as
      punctuation (letters, and SYMBOLS such as `£ € © × →`: general categories Sc/Sm/So are not punctuation in 0.30), so
      both `*` runs are left- and right-flanking and §6.2 rules 1, 5 make `mid` (strongly) emphasised -/
  | intra (strong : Bool) (pre mid post : Bytes)
  /-- the separator *before* this item is a hard / soft line break instead of a space -/
  | hardbreak
  | softbreak
deriving Repr

inductive Blk where
  | para (kids : List Inl)
  | atx (level : Nat) (kids : List Inl)
  | setext (level : Nat) (kids : List Inl)
  | hr
  | fenced (info : Bytes) (lines : List Bytes)
  | indented (lines : List Bytes)
  | quote (kids : List Blk)
  /-- `ordered = some start`; items are block lists -/
  | list (ordered : Option Nat) (tight : Bool) (items : List (List Blk))
  | html (lines : List Bytes)
  | refdef (label dest : Bytes) (title : Option Bytes)
deriving Repr

abbrev Doc := List Blk

/-! ### Choices -/

/-- A stream of serialiser choices (consumed left to right; an exhausted stream yields 0). -/
abbrev Choices := List Nat

def pick (c : Choices) (n : Nat) : Nat × Choices :=
  match c with
  | [] => (0, [])
  | x :: rest => (if n == 0 then 0 else x % n, rest)

/-! ### HTML denotation -/

def escText (b : Bytes) : Bytes :=
  b.flatMap fun c =>
    if c == 0x26 then s "&amp;" else if c == 0x3C then s "&lt;" else if c == 0x3E then s "&gt;"
    else if c == 0x22 then s "&quot;" else if c == 0x27 then s "&#39;" else [c]

def escAttr (b : Bytes) : Bytes :=
  b.flatMap fun c =>
    if c == 0x26 then s "&amp;" else if c == 0x3C then s "&lt;" else if c == 0x3E then s "&gt;"
    else if c == 0x22 then s "&#34;" else if c == 0x27 then s "&#39;" else [c]

def hexUp (n : Nat) : UInt8 := if n < 10 then UInt8.ofNat (48 + n) else UInt8.ofNat (55 + n)

/-- Percent-encoding of a destination: everything outside RFC 3986's reserved/unreserved sets. -/
def uriEncode (b : Bytes) : Bytes :=
  b.flatMap fun c => if isURISafe c || c == 0x25 then [c] else [0x25, hexUp (c.toNat / 16), hexUp (c.toNat % 16)]

structure Env where
  /-- line ending used by the serialiser (LF or CRLF) -/
  eol : Bytes := [0x0A]
  /-- defined reference labels → (destination, title) -/
  refs : List (Bytes × Bytes × Option Bytes) := []

mutual
/-- Plain-text content (image descriptions). -/
def plainInl : Inl → Bytes
  | .word b => b
  | .code b => b
  | .emph ks => plainInls ks
  | .strong ks => plainInls ks
  | .link ks _ _ => plainInls ks
  | .image ks _ _ => plainInls ks
  | .reflink ks _ => plainInls ks
  | .autolink u => u
  | .rawtag _ => []
  | .entity _ d => d
  | .intra _ a b c => a ++ b ++ c
  | .hardbreak => []
  | .softbreak => []
/-- Items are separated by single spaces; a break item replaces the separator before the next item. -/
def plainInls : List Inl → Bytes
  | [] => []
  | [k] => plainInl k
  | k :: .hardbreak :: rest => plainInl k ++ [0x20] ++ plainInls rest
  | k :: .softbreak :: rest => plainInl k ++ [0x20] ++ plainInls rest
  | k :: rest => plainInl k ++ [0x20] ++ plainInls rest
end

/-- A line feed inside a title or raw tag stands for the document's line ending. -/
def withEol (eol : Bytes) (b : Bytes) : Bytes := b.flatMap fun c => if c == 0x0A then eol else [c]

def linkAttrs (e : Env) (attr : String) (dest : Bytes) (title : Option Bytes) : Bytes :=
  s (" " ++ attr ++ "=\"") ++ escAttr (uriEncode dest) ++ s "\"" ++
  (match title with
   | some t => s " title=\"" ++ escAttr (withEol e.eol t) ++ s "\""
   | none => [])

mutual
def denoteInl (e : Env) : Inl → Bytes
  | .word b => escText b
  | .code b => s "<code>" ++ escText b ++ s "</code>"
  | .emph ks => s "<em>" ++ denoteInls e ks ++ s "</em>"
  | .strong ks => s "<strong>" ++ denoteInls e ks ++ s "</strong>"
  | .link ks d t => s "<a" ++ linkAttrs e "href" d t ++ s ">" ++ denoteInls e ks ++ s "</a>"
  | .image ks d t => s "<img" ++ linkAttrs e "src" d t ++ s " alt=\"" ++ escAttr (plainInls ks) ++ s "\">"
  | .reflink ks l =>
    (match e.refs.lookup l with
     | some (d, t) => s "<a" ++ linkAttrs e "href" d t ++ s ">" ++ denoteInls e ks ++ s "</a>"
     | none => s "[undefined]")
  | .autolink u => s "<a href=\"" ++ escAttr (uriEncode u) ++ s "\">" ++ escAttr u ++ s "</a>"
  | .rawtag b => withEol e.eol b
  | .entity _ d => escText d
  | .intra st a b c =>
    escText a ++ (if st then s "<strong>" else s "<em>") ++ escText b ++ (if st then s "</strong>" else s "</em>") ++ escText c
  | .hardbreak => []
  | .softbreak => []
/-- Items separated by one space; `hardbreak`/`softbreak` items turn the separator into a break. -/
def denoteInls (e : Env) : List Inl → Bytes
  | [] => []
  | [k] => denoteInl e k
  | k :: .hardbreak :: rest => denoteInl e k ++ s "<br>\n" ++ denoteInls e rest
  | k :: .softbreak :: rest => denoteInl e k ++ e.eol ++ denoteInls e rest
  | k :: rest => denoteInl e k ++ [0x20] ++ denoteInls e rest
end

def decimalStr (n : Nat) : Bytes := (toString n).toUTF8.toList

mutual
/-- `tightParent`: paragraphs directly inside a tight list item are not wrapped in `<p>`. -/
def denoteBlk (e : Env) (tightParent : Bool) : Blk → Bytes
  | .para ks => if tightParent then denoteInls e ks else s "<p>" ++ denoteInls e ks ++ s "</p>"
  | .atx l ks => s "<h" ++ decimalStr l ++ s ">" ++ denoteInls e ks ++ s "</h" ++ decimalStr l ++ s ">"
  | .setext l ks => s "<h" ++ decimalStr l ++ s ">" ++ denoteInls e ks ++ s "</h" ++ decimalStr l ++ s ">"
  | .hr => s "<hr>"
  | .fenced info lines =>
    s "<pre><code" ++ (if info.isEmpty then [] else s " class=\"language-" ++ escAttr info ++ s "\"") ++ s ">"
      ++ lines.flatMap (fun l => escText l ++ e.eol) ++ s "</code></pre>"
  | .indented lines => s "<pre><code>" ++ lines.flatMap (fun l => escText l ++ e.eol) ++ s "</code></pre>"
  | .quote ks => s "<blockquote>" ++ denoteBlks e false ks ++ s "</blockquote>"
  | .list ord tight items =>
    (match ord with
     | some st => s "<ol" ++ (if st == 1 then [] else s " start=\"" ++ decimalStr st ++ s "\"") ++ s ">"
     | none => s "<ul>")
    ++ denoteItems e tight items
    ++ (if ord.isSome then s "</ol>" else s "</ul>")
  | .html lines => lines.flatMap (fun l => l ++ e.eol)
  | .refdef _ _ _ => []
def denoteBlks (e : Env) (tightParent : Bool) : List Blk → Bytes
  | [] => []
  | b :: bs => denoteBlk e tightParent b ++ denoteBlks e tightParent bs
def denoteItems (e : Env) (tight : Bool) : List (List Blk) → Bytes
  | [] => []
  | it :: its => s "<li>" ++ denoteBlks e tight it ++ s "</li>" ++ denoteItems e tight its
end

/-- Root blocks are rendered separately and joined by a blank line. -/
def denoteDoc (e : Env) : Doc → Bytes
  | [] => []
  | [b] => denoteBlk e false b
  | b :: bs => denoteBlk e false b ++ [0x0A, 0x0A] ++ denoteDoc e bs

/-! ### Canonical serialisation -/

def isWordSafe (c : UInt8) : Bool := isASCIILetter c || isASCIIDigit c || c ≥ 0x80

/-- A word: every ASCII punctuation character is escaped, by a backslash or by a numeric reference. -/
def serWord (c : Choices) (b : Bytes) : Bytes × Choices :=
  b.foldl (fun (acc : Bytes × Choices) ch =>
    if isWordSafe ch then (acc.1 ++ [ch], acc.2)
    else
      let (k, c') := pick acc.2 3
      if k == 2 then (acc.1 ++ s "&#" ++ decimalStr ch.toNat ++ s ";", c')
      else (acc.1 ++ [0x5C, ch], c')) ([], c)

/-- Backslash-escape the characters that are special inside a link title / destination. -/
def escIn (special : Bytes) (b : Bytes) : Bytes :=
  b.flatMap fun ch => if special.contains ch then [0x5C, ch] else [ch]

/-- A line feed inside a title / raw tag continues on the next line of the container (`pre` = its prefix). -/
def contLines (pre eol : Bytes) (b : Bytes) : Bytes := b.flatMap fun c => if c == 0x0A then eol ++ pre else [c]

def serTitle (pre eol : Bytes) (c : Choices) (t : Option Bytes) : Bytes × Choices :=
  match t with
  | none => ([], c)
  | some t =>
    let (k, c') := pick c 3
    if k == 0 then (s " \"" ++ contLines pre eol (escIn (s "\"\\&") t) ++ s "\"", c')
    else if k == 1 then (s " '" ++ contLines pre eol (escIn (s "'\\&") t) ++ s "'", c')
    else (s " (" ++ contLines pre eol (escIn (s "()\\&") t) ++ s ")", c')

def serDest (c : Choices) (d : Bytes) : Bytes × Choices :=
  let needsAngle := d.isEmpty || d.contains 0x20
  let (k, c') := pick c 2
  if needsAngle || k == 1 then (s "<" ++ escIn (s "<>\\&") d ++ s ">", c')
  else (escIn (s "()\\&") d, c')

mutual
/-- Does intraword `*` emphasis occur inside? Then an enclosing emphasis must be written with `_`: an enclosing `*`
    could pair with the inner both-flanking runs. -/
def hasIntra : Inl → Bool
  | .intra _ _ _ _ => true
  | .emph ks => hasIntras ks
  | .strong ks => hasIntras ks
  | .link ks _ _ => hasIntras ks
  | .image ks _ _ => hasIntras ks
  | .reflink ks _ => hasIntras ks
  | _ => false
def hasIntras : List Inl → Bool
  | [] => false
  | k :: ks => hasIntra k || hasIntras ks
end

mutual
/-- Inline items are separated by one space; `hardbreak`/`softbreak` items replace the separator. `pre` is
    the prefix put at the start of every continuation line (container prefixes). -/
def serInl (pre : Bytes) (eol : Bytes) (c : Choices) : Inl → Bytes × Choices
  | .word b => serWord c b
  | .code b =>
    -- one more backtick than the longest run inside; padded with a space when it starts/ends with one
    let n := 1 + (b.foldl (fun (acc : Nat × Nat) ch => if ch == 0x60 then (acc.1 + 1, max acc.2 (acc.1 + 1)) else (0, acc.2)) (0, 0)).2
    let tick := List.replicate n 0x60
    let pad := b.head? == some 0x60 || b.getLast? == some 0x60 || (b.head? == some 0x20 && b.getLast? == some 0x20 && !b.all (· == 0x20))
    (tick ++ (if pad then [0x20] else []) ++ b ++ (if pad then [0x20] else []) ++ tick, c)
  | .emph ks =>
    let (k, c1) := pick c 2
    let d : UInt8 := if k == 0 && !hasIntras ks then 0x2A else 0x5F
    let (body, c2) := serInls pre eol c1 ks
    ([d] ++ body ++ [d], c2)
  | .strong ks =>
    let (k, c1) := pick c 2
    let d : UInt8 := if k == 0 && !hasIntras ks then 0x2A else 0x5F
    let (body, c2) := serInls pre eol c1 ks
    ([d, d] ++ body ++ [d, d], c2)
  | .link ks d t =>
    let (body, c1) := serInls pre eol c ks
    let (ds, c2) := serDest c1 d
    let (ts, c3) := serTitle pre eol c2 t
    (s "[" ++ body ++ s "](" ++ ds ++ ts ++ s ")", c3)
  | .image ks d t =>
    let (body, c1) := serInls pre eol c ks
    let (ds, c2) := serDest c1 d
    let (ts, c3) := serTitle pre eol c2 t
    (s "![" ++ body ++ s "](" ++ ds ++ ts ++ s ")", c3)
  | .reflink ks l =>
    let (body, c1) := serInls pre eol c ks
    (s "[" ++ body ++ s "][" ++ l ++ s "]", c1)
  | .autolink u => (s "<" ++ u ++ s ">", c)
  | .rawtag b => (contLines pre eol b, c)
  | .entity n _ => (s "&" ++ n ++ s ";", c)
  | .intra st a b d => (a ++ (if st then [0x2A, 0x2A] else [0x2A]) ++ b ++ (if st then [0x2A, 0x2A] else [0x2A]) ++ d, c)
  | .hardbreak => ([], c)
  | .softbreak => ([], c)
def serInls (pre : Bytes) (eol : Bytes) (c : Choices) : List Inl → Bytes × Choices
  | [] => ([], c)
  | [k] => serInl pre eol c k
  | k :: .hardbreak :: rest =>
    let (a, c1) := serInl pre eol c k
    let (h, c2) := pick c1 2
    let (b, c3) := serInls pre eol c2 rest
    (a ++ (if h == 0 then s "  " else s "\\") ++ eol ++ pre ++ b, c3)
  | k :: .softbreak :: rest =>
    let (a, c1) := serInl pre eol c k
    let (b, c2) := serInls pre eol c1 rest
    (a ++ eol ++ pre ++ b, c2)
  | k :: rest =>
    let (a, c1) := serInl pre eol c k
    let (b, c2) := serInls pre eol c1 rest
    (a ++ [0x20] ++ b, c2)
end

/-- A *structural* space: a column of white space that defines block structure (container prefixes, list-item
    content indentation, the four columns of an indented code block). The serialiser writes it as this
    placeholder; `resolveStructural` turns every run of them into spaces or — where a run reaches a tab stop —
    tabs (CommonMark 0.30 §2.2: "in contexts where spaces help to define block structure, tabs behave as if they
    were replaced by spaces with a tab stop of 4 characters"). Content never contains this byte. -/
def SS : UInt8 := 0x01

def spacesN (n : Nat) : Bytes := List.replicate n SS

def trimEndSp (b : Bytes) : Bytes := (b.reverse.dropWhile (fun c => c == 0x20 || c == SS)).reverse

/-- A line of a container: prefix (trailing spaces dropped on blank lines) + text + line ending. -/
def line (pre text eol : Bytes) : Bytes := (if text.isEmpty then trimEndSp pre else pre ++ text) ++ eol

mutual
/-- `first` = prefix of the block's first line (e.g. a list marker), `pre` = prefix of every later line. -/
def serBlk (first pre eol : Bytes) (c : Choices) : Blk → Bytes × Choices
  | .para ks =>
    let (body, c1) := serInls pre eol c ks
    (first ++ body ++ eol, c1)
  | .atx l ks =>
    let (body, c1) := serInls pre eol c ks
    let (k, c2) := pick c1 3
    let (n, c3) := pick c2 3
    (first ++ List.replicate l 0x23 ++ (if body.isEmpty then [] else [0x20] ++ body)
      ++ (if k == 1 then [0x20] ++ List.replicate (n + 1) 0x23 else []) ++ eol, c3)
  | .setext l ks =>
    let (body, c1) := serInls pre eol c ks
    let (n, c2) := pick c1 4
    (first ++ body ++ eol ++ pre ++ List.replicate (n + 1) (if l == 1 then 0x3D else 0x2D) ++ eol, c2)
  | .hr =>
    let (k, c1) := pick c 5
    let sp := if k == 0 then s "***" else if k == 1 then s "---" else if k == 2 then s "___"
              else if k == 3 then s "* * *" else s "- - - -"
    (first ++ sp ++ eol, c1)
  | .fenced info lines =>
    let (k, c1) := pick c 2
    let ch : UInt8 := if k == 0 && !info.contains 0x60 then 0x60 else 0x7E
    -- longer than every run of the fence character at the start of a content line
    let longest := lines.foldl (fun m l => max m ((l.dropWhile (· == 0x20)).takeWhile (· == ch)).length) 0
    let (extra, c2) := pick c1 3
    let fence := List.replicate (max 3 (longest + 1) + extra) ch
    (first ++ fence ++ (if info.isEmpty then [] else info) ++ eol
      ++ lines.flatMap (fun l => line pre l eol) ++ pre ++ fence ++ eol, c2)
  | .indented lines =>
    match lines with
    | [] => ([], c)
    | l0 :: rest => (first ++ spacesN 4 ++ l0 ++ eol ++ rest.flatMap (fun l => line pre (if l.isEmpty then [] else spacesN 4 ++ l) eol), c)
  | .quote ks =>
    let q := [0x3E, SS]
    match ks with
    | [] => (first ++ trimEndSp q ++ eol, c)
    | _ => serBlks (first ++ q) (pre ++ q) (pre ++ q) eol c ks
  | .list ord tight items =>
    let (mk, c1) := pick c 3
    let (dl, c2) := pick c1 2
    serItems first pre eol c2 ord tight mk dl 0 items
  | .html lines =>
    match lines with
    | [] => ([], c)
    | l0 :: rest => (first ++ l0 ++ eol ++ rest.flatMap (fun l => pre ++ l ++ eol), c)
  | .refdef label dest title =>
    let (ds, c1) := serDest c dest
    let (ts, c2) := serTitle pre eol c1 title
    (first ++ s "[" ++ label ++ s "]: " ++ ds ++ ts ++ eol, c2)
/-- Blocks of one container, separated by 1–3 blank lines. `blankPre` is the prefix of a blank line. -/
def serBlks (first pre blankPre eol : Bytes) (c : Choices) : List Blk → Bytes × Choices
  | [] => ([], c)
  | [b] => serBlk first pre eol c b
  | b :: bs =>
    let (x, c1) := serBlk first pre eol c b
    let (n, c2) := pick c1 3
    let (y, c3) := serBlks pre pre blankPre eol c2 bs
    (x ++ (List.replicate (n + 1) (line blankPre [] eol)).flatten ++ y, c3)
/-- Items of one list. `idx` numbers ordered items. -/
def serItems (first pre eol : Bytes) (c : Choices) (ord : Option Nat) (tight : Bool) (mk dl : Nat) (idx : Nat) :
    List (List Blk) → Bytes × Choices
  | [] => ([], c)
  | it :: its =>
    let c2 := c
    let marker : Bytes := match ord with
      | some st => decimalStr (min (st + idx) 999999999) ++ (if dl == 0 then s "." else s ")")
      | none => if mk == 0 then s "-" else if mk == 1 then s "+" else s "*"
    let (n, c3) := pick c2 4
    -- an item that BEGINS with an indented code block: exactly one space after the marker (§5.2 rule 2), the block's own
    -- four columns follow
    let n := match it with
      | .indented _ :: _ => 0
      | _ => n
    let pad := spacesN (n + 1)
    let inner := pre ++ spacesN (marker.length + n + 1)
    let fst := (if idx == 0 then first else pre) ++ marker ++ pad
    let (x, c4) := if tight then serTight fst inner eol c3 it else serBlks fst inner inner eol c3 it
    let (y, c5) := serItems first pre eol c4 ord tight mk dl (idx + 1) its
    (x ++ (if tight || its.isEmpty then [] else line pre [] eol) ++ y, c5)
/-- Blocks of a tight item: no blank lines between them. -/
def serTight (first pre eol : Bytes) (c : Choices) : List Blk → Bytes × Choices
  | [] => ([], c)
  | [b] => serBlk first pre eol c b
  | b :: bs =>
    let (x, c1) := serBlk first pre eol c b
    let (y, c2) := serTight pre pre eol c1 bs
    (x ++ y, c2)
end

/-- One run of `r` structural columns starting at column `col`: a tab wherever the run reaches the next tab stop
    and the choice stream says so, a space otherwise. -/
def resolveRun : Nat → Nat → Nat → Choices → Bytes × Nat × Choices
  | 0, _, col, tc => ([], col, tc)
  | fuel + 1, r, col, tc =>
    if r == 0 then ([], col, tc) else
    let toStop := 4 - col % 4
    let (k, tc') := pick tc 2
    if toStop ≤ r && k == 1 then
      let (rest, col', tc'') := resolveRun fuel (r - toStop) (col + toStop) tc'
      (0x09 :: rest, col', tc'')
    else
      let (rest, col', tc'') := resolveRun fuel (r - 1) (col + 1) tc'
      (0x20 :: rest, col', tc'')

/-- Replace the structural-space placeholders of a serialised document. Columns are counted from the start of
    each line (every byte before the last structural space of a line is ASCII). -/
def resolveStructural : Nat → Bytes → Nat → Choices → Bytes
  | 0, _, _, _ => []
  | _ + 1, [], _, _ => []
  | fuel + 1, c :: rest, col, tc =>
    if c == SS then
      let run := 1 + (rest.takeWhile (· == SS)).length
      let (out, col', tc') := resolveRun (run + 1) run col tc
      out ++ resolveStructural fuel (rest.drop (run - 1)) col' tc'
    else if c == 0x0A || c == 0x0D then c :: resolveStructural fuel rest 0 tc
    else c :: resolveStructural fuel rest (col + 1) tc

/-- The canonical serialisation of a document. The first choice selects how structural white space is spelled:
    0 = spaces only, 1 = a tab wherever one fits, 2 = a per-position choice. -/
def ser (eol : Bytes) (c : Choices) (d : Doc) : Bytes :=
  let (mode, c) := pick c 3
  let raw := (serBlks [] [] [] eol c d).1
  let tc : Choices := if mode == 0 then [] else if mode == 1 then List.replicate raw.length 1 else c.reverse ++ c
  resolveStructural (raw.length + 1) raw 0 tc

end CM.Spec
