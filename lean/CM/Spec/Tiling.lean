import CM.Basic.Bytes
import CM.Spec.Classes
/-
C01: the root blocks tile the input. Direct reading of the property text.
-/
namespace CM.Spec

structure RootInfo where
  startOff : Nat
  endOff : Nat
  line : Nat
  source : Bytes
deriving Repr

/-- Each NUL replaced by U+FFFD (EF BF BD). -/
def replNul (b : Bytes) : Bytes := b.flatMap fun c => if c == 0 then [0xEF, 0xBF, 0xBD] else [c]

/-- Number of line endings, counting LF, CR and CRLF as one each. -/
def lineEndings : Bytes → Nat
  | [] => 0
  | 0x0D :: 0x0A :: rest => 1 + lineEndings rest
  | 0x0D :: rest => 1 + lineEndings rest
  | 0x0A :: rest => 1 + lineEndings rest
  | _ :: rest => lineEndings rest

def rootsOrdered : List RootInfo → Bool
  | a :: b :: rest => a.endOff ≤ b.startOff && rootsOrdered (b :: rest)
  | _ => true

def tilingWhy (x : Bytes) (rs : List RootInfo) : String :=
  if !rs.all (fun r => r.startOff ≤ r.endOff && r.endOff ≤ x.length) then "offsets-out-of-range"
  else if !rootsOrdered rs then "blocks-overlap-or-out-of-order"
  else if !(List.range x.length).all (fun j => rs.any (fun r => r.startOff ≤ j && j < r.endOff) || isSpaceTabOrLineEnding (x.getD j 0))
    then "non-blank-byte-outside-every-block"
  else if !rs.all (fun r => r.source == replNul ((x.drop r.startOff).take (r.endOff - r.startOff))) then "source-differs-from-input-range"
  else if !rs.all (fun r => r.line == 1 + lineEndings (x.take r.startOff)) then "start-line-wrong"
  else if !x.contains 0 && !rs.all (fun r => r.endOff - r.startOff == r.source.length) then "length-mismatch-without-nul"
  else "ok"

def tiling (x : Bytes) (rs : List RootInfo) : Bool := tilingWhy x rs == "ok"

end CM.Spec
