import CM.Spec.HtmlWF
/-
A recogniser for the output language of C07, applied to the bytes the implementation writes:
  output ::= (text | start-tag | end-tag)*
  start-tag ::= '<' name (' ' attr '="' value '"')* '>'      name ∈ renderer elements, attr ∈ renderer attributes
  end-tag ::= '</' name '>'
  text, value: no '<' '>' '"' '\''; every '&' starts `&[#A-Za-z0-9]+;`
with proper nesting (void: hr, img, br).
-/
namespace CM.Spec
open CM CM.Model CM.Gen

def isRefChar (c : UInt8) : Bool := isASCIILetter c || isASCIIDigit c || c == 0x23

/-- Every `&` starts `&[#A-Za-z0-9]+;`. -/
def ampRefOK : Bytes → Bool
  | [] => true
  | c :: rest =>
    (c != 0x26 ||
      (let body := rest.takeWhile isRefChar
       !body.isEmpty && (rest.drop body.length).head? == some 0x3B)) && ampRefOK rest

def dataOK (b : Bytes) : Bool := markupFree b && ampRefOK b

def isNameChar (c : UInt8) : Bool := isASCIILetter c || isASCIIDigit c

/-- Parse `( attr="value")*>` ; returns the rest after `>`. -/
def parseAttrs : Nat → Bytes → Option Bytes
  | 0, _ => none
  | fuel + 1, b =>
    match b with
    | 0x3E :: rest => some rest
    | 0x20 :: rest =>
      let name := rest.takeWhile isNameChar
      match rest.drop name.length with
      | 0x3D :: 0x22 :: rest2 =>
        let value := rest2.takeWhile (· != 0x22)
        match rest2.drop value.length with
        | 0x22 :: rest3 =>
          if rendererAttrs.contains name && dataOK value then parseAttrs fuel rest3 else none
        | _ => none
      | _ => none
    | _ => none

def isVoidOut (n : Bytes) : Bool := isVoid n || n == str "br"

/-- The recogniser: `st` is the stack of open elements. -/
def htmlLang : Nat → Bytes → List Bytes → Bool
  | 0, _, _ => false
  | fuel + 1, b, st =>
    match b with
    | [] => st.isEmpty
    | 0x3C :: 0x2F :: rest =>
      let name := rest.takeWhile isNameChar
      match rest.drop name.length, st with
      | 0x3E :: rest2, m :: st' => m == name && htmlLang fuel rest2 st'
      | _, _ => false
    | 0x3C :: rest =>
      let name := rest.takeWhile isNameChar
      if !(rendererElements.contains name || name == str "br") then false else
      match parseAttrs (rest.length + 1) (rest.drop name.length) with
      | some rest2 => htmlLang fuel rest2 (if isVoidOut name then st else name :: st)
      | none => false
    | _ =>
      let text := b.takeWhile (· != 0x3C)
      dataOK text && htmlLang fuel (b.drop text.length) st

def htmlWellFormed (b : Bytes) : Bool := htmlLang (b.length + 1) b []

end CM.Spec
