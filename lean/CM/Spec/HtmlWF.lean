import CM.Spec.Html
import CM.Spec.TreeWF
/-
C07 — what "well-formed, fixed-vocabulary, fully escaped" means for a token sequence.
-/
namespace CM.Spec
open CM CM.Model CM.Gen

/-- Bytes that could open a tag, close a tag, or close a quoted attribute value. -/
def isMarkupByte (c : UInt8) : Bool := c == 0x3C || c == 0x3E || c == 0x22 || c == 0x27

def markupFree (b : Bytes) : Bool := b.all (!isMarkupByte ·)

/-- The character references the renderer itself writes. -/
def escapeNames : List Bytes := [str "amp;", str "lt;", str "gt;", str "quot;", str "#39;", str "#34;"]

/-- Every `&` is the start of one of the renderer's own escapes. -/
def ampOK : Bytes → Bool
  | [] => true
  | c :: rest => (c != 0x26 || escapeNames.any (hasBytePrefix rest)) && ampOK rest

/-- Escaped character data / attribute value. -/
def safeData (b : Bytes) : Bool := markupFree b && ampOK b

def isVoid (n : Bytes) : Bool := n == str "hr" || n == str "img"

def attrOK (a : Bytes × Bytes) : Bool := rendererAttrs.contains a.1 && safeData a.2

def tokOK : Tok → Bool
  | .stag n attrs => rendererElements.contains n && attrs.all attrOK
  | .etag n => rendererElements.contains n && !isVoid n
  | .br => true
  | .text b => safeData b
  | .cref b => charRefShape b
  | .raw b => b.isEmpty

/-- Tag nesting: a stack of open element names. -/
def nest : List Tok → List Bytes → Option (List Bytes)
  | [], st => some st
  | .stag n _ :: ts, st => if isVoid n then nest ts st else nest ts (n :: st)
  | .etag n :: ts, st =>
    match st with
    | m :: st' => if m == n then nest ts st' else none
    | [] => none
  | .br :: ts, st => nest ts st
  | .text _ :: ts, st => nest ts st
  | .cref _ :: ts, st => nest ts st
  | .raw _ :: ts, st => nest ts st

def wellNested (ts : List Tok) : Bool := nest ts [] == some []

/-- What C07 assumes of a tree beyond the configuration: copied character references are references,
    and a soft break's span holds only its line ending (both hold for parser output: `Spec.renderPre`,
    C13). -/
def safePreAt (src : Bytes) (t : Tree) : Bool :=
  (if T.isI t IK.charRef then charRefShape (Node.slice src t) else true) &&
  (if T.isI t IK.softBreak then (Node.slice src t).all (fun c => c == LF || c == CR) else true)

def safePre (src : Bytes) (root : Tree) : Bool := (T.nodes root).all (safePreAt src)

def isRawNode (t : Tree) : Bool := T.isI t IK.rawHTML || T.isI t IK.htmlTag || T.isB t BK.htmlBlock

/-- The tree contains no raw HTML node. -/
def noRaw (root : Tree) : Bool := (T.nodes root).all (!isRawNode ·)

end CM.Spec
