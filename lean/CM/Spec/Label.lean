import CM.Spec.Classes
/-
CommonMark 0.30 §4.7 / §6.3 "matches": label normalisation. "…perform the Unicode case fold, strip leading
and trailing spaces, tabs, and line endings, and collapse consecutive internal spaces, tabs, and line
endings to a single space." The case fold is a parameter.
-/
namespace CM.Spec

/-- The maximal runs of non-whitespace bytes (`cur` = the word being read, reversed). -/
def wordsAux : Bytes → Bytes → List Bytes
  | [], cur => if cur.isEmpty then [] else [cur.reverse]
  | c :: rest, cur =>
    if isSpaceTabOrLineEnding c then (if cur.isEmpty then wordsAux rest [] else cur.reverse :: wordsAux rest [])
    else wordsAux rest (c :: cur)

def words (b : Bytes) : List Bytes := wordsAux b []

/-- Words joined by single spaces. -/
def joinWords : List Bytes → Bytes
  | [] => []
  | [w] => w
  | w :: ws => w ++ [0x20] ++ joinWords ws

/-- The whitespace-normal form of a label: no leading/trailing white space, single spaces inside. -/
def wsNormal (label : Bytes) : Bytes := joinWords (words label)

/-- Label normalisation with a given case fold. -/
def normalizeLabelSpec (fold : Bytes → Bytes) (label : Bytes) : Bytes := fold (wsNormal label)

end CM.Spec
