import CM.Model.Walk
/-
C18 — the specification of Walk: the obvious structural recursion.
"Pre; if it returned true: the children in order, then Post; stop everything when Post returns false."
The Boolean component of the result is `false` when the traversal was aborted.
-/
namespace CM.Spec
open CM CM.Model

def callPre {σ : Type} (opts : WalkOpts σ) (cur : Cursor) (s : σ) : Bool × σ :=
  match opts.pre with
  | none => (true, s)
  | some pre => pre cur s

def callPost {σ : Type} (opts : WalkOpts σ) (cur : Cursor) (s : σ) : Bool × σ :=
  match opts.post with
  | none => (true, s)
  | some post => post cur s

mutual
def walkNode {σ : Type} (opts : WalkOpts σ) : (t : Tree) → (parent block : Option Tree) → (index : Int) → σ → Bool × σ
  | .node l cs, parent, block, index, s =>
    let cur : Cursor := { node := .node l cs, parent := parent, block := block, index := index }
    match callPre opts cur s with
    | (false, s1) => (true, s1)                         -- pruned: no children, no Post
    | (true, s1) =>
      match walkForest opts (.node l cs) (blockFor cur) cs 0 s1 with
      | (false, s2) => (false, s2)                      -- aborted below
      | (true, s2) => callPost opts cur s2              -- Post returning false aborts
def walkForest {σ : Type} (opts : WalkOpts σ) (parent : Tree) (block : Option Tree) : List Tree → Nat → σ → Bool × σ
  | [], _, s => (true, s)
  | c :: cs, i, s =>
    match walkNode opts c (some parent) block i s with
    | (false, s1) => (false, s1)
    | (true, s1) => walkForest opts parent block cs (i + 1) s1
end

/-- The specification of `Walk root opts`. -/
def walkSpec {σ : Type} (root : Tree) (opts : WalkOpts σ) (s : σ) : σ :=
  (walkNode opts root none none (-1) s).2

end CM.Spec
