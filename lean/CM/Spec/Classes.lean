import CM.Basic.Bytes
/-
Character classes as the CommonMark 0.30 text (§2.1 Characters and lines) and RFC 3986 list them.
No reference to the model or to generated code.
-/
namespace CM.Spec

def mem (s : String) (c : UInt8) : Bool := (s.toUTF8.toList).contains c

/-- space (U+0020), tab (U+0009), line feed (U+000A), carriage return (U+000D). -/
def isSpaceTabOrLineEnding (c : UInt8) : Bool := c == 0x20 || c == 0x09 || c == 0x0A || c == 0x0D

def isASCIILetter (c : UInt8) : Bool := mem "ABCDEFGHIJKLMNOPQRSTUVWXYZabcdefghijklmnopqrstuvwxyz" c

def isASCIIDigit (c : UInt8) : Bool := mem "0123456789" c

/-- "An ASCII punctuation character is !, \", #, $, %, &, ', (, ), *, +, ,, -, ., / (U+0021–2F),
    :, ;, <, =, >, ?, @ (U+003A–0040), [, \\, ], ^, _, ` (U+005B–0060), {, |, }, or ~ (U+007B–007E)." -/
def isASCIIPunctuation (c : UInt8) : Bool := mem "!\"#$%&'()*+,-./:;<=>?@[\\]^_`{|}~" c

/-- "An ASCII control character is a character between U+0000–1F (both including) or U+007F." -/
def isASCIIControl (c : UInt8) : Bool := c.toNat ≤ 0x1F || c.toNat == 0x7F

def isHex (c : UInt8) : Bool := mem "0123456789abcdefABCDEF" c

def toLowerASCII (c : UInt8) : UInt8 :=
  match "ABCDEFGHIJKLMNOPQRSTUVWXYZ".toUTF8.toList.idxOf? c with
  | some i => "abcdefghijklmnopqrstuvwxyz".toUTF8.toList.getD i c
  | none => c

/-- An unquoted attribute value: "a nonempty string of characters not including spaces, tabs,
    line endings, \", ', =, <, >, or `". -/
def isUnquotedAttributeValueChar (c : UInt8) : Bool := !(mem " \t\n\r\"'=<>`" c)

def urlHexDigit (x : UInt8) : Option UInt8 := "0123456789ABCDEF".toUTF8.toList[x.toNat]?

/-- RFC 3986 reserved ∪ unreserved characters, minus those CommonMark's reference implementation
    escapes (`[`, `]`), i.e. the set commonmark.js / cmark keep verbatim in URLs besides `%`. -/
def isURISafe (c : UInt8) : Bool := isASCIILetter c || isASCIIDigit c || mem ";/?:@&=+$,-_.!~*'()#" c

end CM.Spec
