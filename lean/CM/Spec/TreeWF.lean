import CM.Basic.Tree
import CM.Basic.Utf8
import CM.Spec.Classes
import CM.Spec.Regular
/-
Executable statements of the tree properties C02 (spans), C03 (coverage), C05 (node grammar and
accessor agreement), C13 (span shapes), and of `RenderPre` (what the renderer assumes).
Each is a Boolean function of `(src, tree)` written directly from the property text; they are run by
the driver on the trees the implementation returns. No reference to the model.
-/
namespace CM.Spec
open CM

namespace T

mutual
/-- All nodes in document (pre-)order. -/
def nodes : Tree → List Tree
  | .node l cs => .node l cs :: nodesL cs
def nodesL : List Tree → List Tree
  | [] => []
  | c :: cs => nodes c ++ nodesL cs
end

def kind (t : Tree) : Nat := t.label.kind
def isBlock (t : Tree) : Bool := t.label.isBlock
def start (t : Tree) : Int := t.label.start
def stop (t : Tree) : Int := t.label.stop
def isB (t : Tree) (k : Nat) : Bool := t.label.isBlock && t.label.kind == k
def isI (t : Tree) (k : Nat) : Bool := !t.label.isBlock && t.label.kind == k

/-- `src[start:stop]` (empty when the span is invalid). -/
def slice (src : Bytes) (t : Tree) : Bytes :=
  if 0 ≤ t.label.start && t.label.start ≤ t.label.stop then
    (src.drop t.label.start.toNat).take (t.label.stop - t.label.start).toNat
  else []

end T
open T

/-! ## C02 — spans valid, nested, ordered, on character boundaries -/

def spanValid (n : Nat) (t : Tree) : Bool := 0 ≤ start t && start t ≤ stop t && stop t ≤ n

def childrenInside (t : Tree) : Bool := t.children.all fun c => start t ≤ start c && stop c ≤ stop t

def siblingsOrdered : List Tree → Bool
  | a :: b :: rest => stop a ≤ start b && siblingsOrdered (b :: rest)
  | _ => true

/-- No span boundary `b < |src|` is a UTF-8 continuation byte. -/
def onCharBoundary (src : Bytes) (b : Int) : Bool :=
  if 0 ≤ b then match src[b.toNat]? with
    | some c => !Utf8.isCont c
    | none => true
  else true

def spansOK (src : Bytes) (root : Tree) : Bool :=
  (nodes root).all (fun t => spanValid src.length t && childrenInside t && siblingsOrdered t.children)
  && stop root == src.length
  && (src.take (start root).toNat).all isSpTab
  && (!Utf8.isValid src || (nodes root).all fun t => onCharBoundary src (start t) && onCharBoundary src (stop t))

/-- The first failing clause, for diagnostics. -/
def spansWhy (src : Bytes) (root : Tree) : String :=
  if !(nodes root).all (spanValid src.length) then "span-invalid-or-outside-source"
  else if !(nodes root).all childrenInside then "child-outside-parent"
  else if !(nodes root).all (fun t => siblingsOrdered t.children) then "siblings-overlap-or-out-of-order"
  else if !(stop root == src.length) then "root-does-not-end-at-len-source"
  else if !(src.take (start root).toNat).all isSpTab then "root-preceded-by-non-blank"
  else if Utf8.isValid src && !(nodes root).all (fun t => onCharBoundary src (start t) && onCharBoundary src (stop t)) then "boundary-inside-multibyte-character"
  else "ok"

/-! ## C03 — no source text lost or duplicated -/

/-- Leaves that carry text: childless inline nodes, and list markers. -/
def isLeaf (t : Tree) : Bool := (!isBlock t && t.children.isEmpty) || isB t BK.listMarker

def leaves (root : Tree) : List Tree := (nodes root).filter isLeaf

def coverCount (ls : List Tree) (j : Nat) : Nat := ls.countP fun l => start l ≤ j && (j : Int) < stop l

def needsCover (c : UInt8) : Bool := isASCIILetter c || isASCIIDigit c || c ≥ 0x80

def coverage (src : Bytes) (root : Tree) : Bool :=
  let ls := leaves root
  (List.range src.length).all fun j =>
    let n := coverCount ls j
    n ≤ 1 && (!needsCover (src.getD j 0) || n == 1)

def coverageWhy (src : Bytes) (root : Tree) : String :=
  let ls := leaves root
  match (List.range src.length).find? (fun j => coverCount ls j > 1) with
  | some j => s!"byte-{j}-covered-by-more-than-one-leaf"
  | none =>
    match (List.range src.length).find? (fun j => needsCover (src.getD j 0) && coverCount ls j == 0) with
    | some j => s!"byte-{j}-not-covered-by-any-leaf"
    | none => "ok"

/-! ## C05 — node grammar and accessor agreement -/

def phrasingKinds : List Nat := [IK.text, IK.softBreak, IK.hardBreak, IK.indent, IK.charRef, IK.emphasis, IK.strong,
  IK.link, IK.image, IK.codeSpan, IK.autolink, IK.htmlTag]

def isPhrasing (t : Tree) : Bool := !isBlock t && phrasingKinds.contains (kind t)

def inlineOf (ks : List Nat) (t : Tree) : Bool := !isBlock t && ks.contains (kind t)

def containerChildKinds : List Nat := [BK.paragraph, BK.thematicBreak, BK.atxHeading, BK.setextHeading, BK.indentedCode,
  BK.fencedCode, BK.htmlBlock, BK.linkRefDef, BK.blockQuote, BK.list]

def isContainerChild (t : Tree) : Bool := isBlock t && containerChildKinds.contains (kind t)

def isOrderedChar (c : UInt8) : Bool := c == 0x2E || c == 0x29

/-- Children of a link/image: phrasing content, then `[destination][title]` or one label. -/
def linkTail : List Tree → Bool
  | [] => true
  | [a] => isI a IK.linkDest || isI a IK.linkTitle || isI a IK.linkLabel || isPhrasing a
  | [a, b] => (isPhrasing a && (isI b IK.linkDest || isI b IK.linkTitle || isI b IK.linkLabel || isPhrasing b))
              || (isI a IK.linkDest && isI b IK.linkTitle)
  | a :: rest => isPhrasing a && linkTail rest

def hasKind (k : Nat) (ts : List Tree) : Bool := ts.any (isI · k)

/-- The local grammar rule at one node (children kinds and attribute agreement). -/
def grammarAt (t : Tree) : Bool :=
  let cs := t.children
  let l := t.label
  if l.isBlock then
    if l.kind == BK.paragraph then cs.all isPhrasing
    else if l.kind == BK.thematicBreak then cs.isEmpty
    else if l.kind == BK.atxHeading then cs.all isPhrasing && 1 ≤ l.n && l.n ≤ 6
    else if l.kind == BK.setextHeading then cs.all isPhrasing && 1 ≤ l.n && l.n ≤ 2
    else if l.kind == BK.indentedCode then cs.all (inlineOf [IK.text, IK.indent, IK.softBreak])
    else if l.kind == BK.fencedCode then
      (match cs with
       | c :: rest => (isI c IK.infoString || inlineOf [IK.text, IK.indent, IK.softBreak] c)
                      && rest.all (inlineOf [IK.text, IK.indent, IK.softBreak])
       | [] => true)
    else if l.kind == BK.htmlBlock then cs.all (inlineOf [IK.rawHTML, IK.indent])
    else if l.kind == BK.linkRefDef then
      (match cs with
       | [a, b] => isI a IK.linkLabel && isI b IK.linkDest
       | [a, b, c] => isI a IK.linkLabel && isI b IK.linkDest && isI c IK.linkTitle
       | _ => false)
    else if l.kind == BK.blockQuote then cs.all isContainerChild
    else if l.kind == BK.listItem then
      (match cs with
       | m :: rest => isB m BK.listMarker && rest.all isContainerChild
       | [] => false)
    else if l.kind == BK.list then
      !cs.isEmpty && cs.all (fun c => isB c BK.listItem
        && isOrderedChar c.label.char == isOrderedChar l.char && c.label.loose == l.loose)
    else if l.kind == BK.listMarker then cs.isEmpty
    else false
  else
    if l.kind == IK.text || l.kind == IK.softBreak || l.kind == IK.hardBreak || l.kind == IK.indent
       || l.kind == IK.charRef || l.kind == IK.rawHTML then cs.isEmpty
    else if l.kind == IK.infoString then cs.all (inlineOf [IK.text, IK.charRef])
    else if l.kind == IK.emphasis || l.kind == IK.strong then cs.all isPhrasing
    else if l.kind == IK.link || l.kind == IK.image then
      linkTail cs
      -- reference links have no destination / title
      && ((l.ref.isEmpty && !hasKind IK.linkLabel cs) || (!hasKind IK.linkDest cs && !hasKind IK.linkTitle cs))
    else if l.kind == IK.linkDest || l.kind == IK.linkTitle then cs.all (inlineOf [IK.text, IK.charRef, IK.indent])
    else if l.kind == IK.linkLabel then cs.all (inlineOf [IK.text, IK.indent])
    else if l.kind == IK.codeSpan then cs.all (inlineOf [IK.text, IK.indent])
    else if l.kind == IK.autolink then (match cs with | [c] => isI c IK.text | _ => false)
    else if l.kind == IK.htmlTag then cs.all (inlineOf [IK.rawHTML, IK.indent])
    else false   -- Unparsed (18) or an unknown kind

/-- No link inside a link (at any depth). -/
def noNestedLink (root : Tree) : Bool :=
  (nodes root).all fun t => !isI t IK.link || (nodesL t.children).all (fun d => !isI d IK.link)

/-- Ordered items: the marker text is 1–9 digits followed by the item's delimiter. -/
def orderedItemOK (src : Bytes) (t : Tree) : Bool :=
  if isB t BK.listItem && isOrderedChar t.label.char then
    match t.children with
    | m :: _ =>
      let s := slice src m
      let ds := s.takeWhile isASCIIDigit
      1 ≤ ds.length && ds.length ≤ 9 && s.drop ds.length == [t.label.char]
    | [] => false
  else true

def rootKindOK (root : Tree) : Bool := isContainerChild root

def grammar (src : Bytes) (root : Tree) : Bool :=
  rootKindOK root && (nodes root).all (fun t => grammarAt t && orderedItemOK src t) && noNestedLink root

def grammarWhy (src : Bytes) (root : Tree) : String :=
  if !rootKindOK root then "root-kind" else
  match (nodes root).find? (fun t => !grammarAt t) with
  | some t => s!"children-or-attributes-of-{if isBlock t then "block" else "inline"}-kind-{kind t}-at-{start t}"
  | none =>
    if !(nodes root).all (orderedItemOK src) then "ordered-item-number"
    else if !noNestedLink root then "link-inside-link" else "ok"

/-! ## C13 — each span delimits exactly the syntax of its construct -/

def lastN (n : Nat) (l : Bytes) : Bytes := l.drop (l.length - n)

def isEOL (l : Bytes) : Bool := l == [0x0A] || l == [0x0D] || l == [0x0D, 0x0A]

def backtickRun (l : Bytes) : Nat := (l.takeWhile (· == 0x60)).length

def shapeAt (src : Bytes) (t : Tree) : Bool :=
  let s := slice src t
  let l := t.label
  if l.isBlock then
    if l.kind == BK.atxHeading then
      (s.takeWhile (· == 0x23)).length == l.n.toNat
    else if l.kind == BK.setextHeading then
      -- ends in an `=` (level 1) or `-` (level 2) underline
      let body := dropRight isWs s
      let c : UInt8 := if l.n == 1 then 0x3D else 0x2D
      body.getLast? == some c
    else if l.kind == BK.fencedCode then
      (l.char == 0x60 || l.char == 0x7E) && l.n ≥ 3 && (s.takeWhile (· == l.char)).length == l.n.toNat
    else if l.kind == BK.blockQuote then s.head? == some 0x3E
    else if l.kind == BK.listMarker then
      s == [0x2D] || s == [0x2B] || s == [0x2A] ||
      (let ds := s.takeWhile isASCIIDigit
       1 ≤ ds.length && ds.length ≤ 9 && (s.drop ds.length == [0x2E] || s.drop ds.length == [0x29]))
    else true
  else
    if l.kind == IK.emphasis then
      s.length ≥ 2 && (s.head? == some 0x2A || s.head? == some 0x5F) && s.getLast? == s.head?
    else if l.kind == IK.strong then
      s.length ≥ 4 && (s.head? == some 0x2A || s.head? == some 0x5F)
        && s.take 2 == [s.headD 0, s.headD 0] && lastN 2 s == [s.headD 0, s.headD 0]
    else if l.kind == IK.codeSpan then
      let n := backtickRun s
      n ≥ 1 && s.length ≥ 2 * n && backtickRun (s.reverse) == n
    else if l.kind == IK.link then
      s.head? == some 0x5B && (s.getLast? == some 0x5D || s.getLast? == some 0x29)
    else if l.kind == IK.image then
      s.take 2 == [0x21, 0x5B] && (s.getLast? == some 0x5D || s.getLast? == some 0x29)
    else if l.kind == IK.autolink || l.kind == IK.htmlTag then
      s.length ≥ 2 && s.head? == some 0x3C && s.getLast? == some 0x3E
    else if l.kind == IK.charRef then
      s.length ≥ 3 && s.head? == some 0x26 && s.getLast? == some 0x3B
    else if l.kind == IK.hardBreak then
      -- a backslash, or 2+ spaces, with the line ending
      (s.head? == some 0x5C && isEOL (s.drop 1)) || (let sp := s.takeWhile (· == 0x20); sp.length ≥ 2 && isEOL (s.drop sp.length))
    else true

def shapes (src : Bytes) (root : Tree) : Bool := (nodes root).all (shapeAt src)

def shapesWhy (src : Bytes) (root : Tree) : String :=
  match (nodes root).find? (fun t => !shapeAt src t) with
  | some t => s!"shape-of-{if isBlock t then "block" else "inline"}-kind-{kind t}-at-{start t}-{stop t}"
  | none => "ok"

/-! ## RenderPre — what the renderer and formatter assume about a tree -/

def charRefShape (s : Bytes) : Bool :=
  match s with
  | a :: rest => a == 0x26 && rest.length ≥ 2 && rest.getLast? == some 0x3B
                 && (rest.dropLast).all (fun c => isASCIILetter c || isASCIIDigit c || c == 0x23)
  | [] => false

def renderPreAt (src : Bytes) (t : Tree) : Bool :=
  spanValid src.length t &&
  (if isI t IK.charRef then charRefShape (slice src t)
   else if isI t IK.autolink then (match t.children with | [c] => isI c IK.text | _ => false)
   else if isB t BK.linkRefDef then (t.children.length == 2 || t.children.length == 3) && t.children.all (!isBlock ·)
   else true)

def renderPre (src : Bytes) (root : Tree) : Bool := (nodes root).all (renderPreAt src)

end CM.Spec
