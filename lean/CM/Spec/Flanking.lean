import CM.Basic.Bytes
/-
CommonMark 0.30 §6.2: delimiter runs, left- and right-flanking, can open / can close emphasis.
Written from the prose, over the classes of the characters before and after the run.
No reference to the model.
-/
namespace CM.Spec

/-- What the rules look at: is the neighbouring character Unicode whitespace (the beginning and the end of
    the line count as whitespace), is it a Unicode punctuation character. -/
structure Neighbour where
  ws : Bool
  punct : Bool

/-- "A left-flanking delimiter run is a delimiter run that is (1) not followed by Unicode whitespace, and
    either (2a) not followed by a Unicode punctuation character, or (2b) followed by a Unicode punctuation
    character and preceded by Unicode whitespace or a Unicode punctuation character." -/
def leftFlanking (prev next : Neighbour) : Bool :=
  !next.ws && (!next.punct || (next.punct && (prev.ws || prev.punct)))

/-- "A right-flanking delimiter run is a delimiter run that is (1) not preceded by Unicode whitespace, and
    either (2a) not preceded by a Unicode punctuation character, or (2b) preceded by a Unicode punctuation
    character and followed by Unicode whitespace or a Unicode punctuation character." -/
def rightFlanking (prev next : Neighbour) : Bool :=
  !prev.ws && (!prev.punct || (prev.punct && (next.ws || next.punct)))

/-- Rules 1 and 5 (`*`): can open iff left-flanking. Rules 2 and 6 (`_`): can open iff left-flanking and
    either not right-flanking or right-flanking and preceded by a Unicode punctuation character. -/
def canOpenEmphasis (star : Bool) (prev next : Neighbour) : Bool :=
  if star then leftFlanking prev next
  else leftFlanking prev next && (!rightFlanking prev next || (rightFlanking prev next && prev.punct))

/-- Rules 3 and 7 (`*`): can close iff right-flanking. Rules 4 and 8 (`_`): can close iff right-flanking and
    either not left-flanking or left-flanking and followed by a Unicode punctuation character. -/
def canCloseEmphasis (star : Bool) (prev next : Neighbour) : Bool :=
  if star then rightFlanking prev next
  else rightFlanking prev next && (!leftFlanking prev next || (leftFlanking prev next && next.punct))

/-- §2.1 "A Unicode whitespace character is any code point in the Unicode Zs general category, or a tab (U+0009), line
    feed (U+000A), form feed (U+000C), or carriage return (U+000D)." (`isZs` = membership in Zs, which contains U+0020.) -/
def isUnicodeWhitespaceSpec (isZs : Nat → Bool) (c : Nat) : Bool :=
  isZs c || c == 0x09 || c == 0x0A || c == 0x0C || c == 0x0D

/-- §2.1: the 32 ASCII punctuation characters: U+0021-2F, U+003A-0040, U+005B-0060, U+007B-007E. -/
def asciiPunctuationChars : List UInt8 := [0x21, 0x22, 0x23, 0x24, 0x25, 0x26, 0x27, 0x28, 0x29, 0x2A, 0x2B, 0x2C, 0x2D, 0x2E, 0x2F, 0x3A, 0x3B, 0x3C, 0x3D, 0x3E, 0x3F, 0x40, 0x5B, 0x5C, 0x5D, 0x5E, 0x5F, 0x60, 0x7B, 0x7C, 0x7D, 0x7E]

/-- §2.1 "A Unicode punctuation character is an ASCII punctuation character or anything in the general Unicode
    categories Pc, Pd, Pe, Pf, Pi, Po, or Ps." (`isP` = membership in one of those categories; the ASCII punctuation
    characters are the 32 listed in §2.1.) -/
def isUnicodePunctuationSpec (isP : Nat → Bool) (c : Nat) : Bool :=
  isP c || (c < 0x80 && asciiPunctuationChars.contains (UInt8.ofNat c))

end CM.Spec
