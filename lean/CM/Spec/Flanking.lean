import CM.Basic.Bytes
/-
CommonMark 0.30 §6.2: delimiter runs, left- and right-flanking, can open / can close emphasis.
Written from the prose, over the classes of the characters before and after the run.
No reference to the model.
-/
namespace CM.Spec

/-- What the rules look at: is the neighbouring character Unicode whitespace (the beginning and the end of
    the line count as whitespace), is it a Unicode punctuation character. -/
structure Neighbour where
  ws : Bool
  punct : Bool

/-- "A left-flanking delimiter run is a delimiter run that is (1) not followed by Unicode whitespace, and
    either (2a) not followed by a Unicode punctuation character, or (2b) followed by a Unicode punctuation
    character and preceded by Unicode whitespace or a Unicode punctuation character." -/
def leftFlanking (prev next : Neighbour) : Bool :=
  !next.ws && (!next.punct || (next.punct && (prev.ws || prev.punct)))

/-- "A right-flanking delimiter run is a delimiter run that is (1) not preceded by Unicode whitespace, and
    either (2a) not preceded by a Unicode punctuation character, or (2b) preceded by a Unicode punctuation
    character and followed by Unicode whitespace or a Unicode punctuation character." -/
def rightFlanking (prev next : Neighbour) : Bool :=
  !prev.ws && (!prev.punct || (prev.punct && (next.ws || next.punct)))

/-- Rules 1 and 5 (`*`): can open iff left-flanking. Rules 2 and 6 (`_`): can open iff left-flanking and
    either not right-flanking or right-flanking and preceded by a Unicode punctuation character. -/
def canOpenEmphasis (star : Bool) (prev next : Neighbour) : Bool :=
  if star then leftFlanking prev next
  else leftFlanking prev next && (!rightFlanking prev next || (rightFlanking prev next && prev.punct))

/-- Rules 3 and 7 (`*`): can close iff right-flanking. Rules 4 and 8 (`_`): can close iff right-flanking and
    either not left-flanking or left-flanking and followed by a Unicode punctuation character. -/
def canCloseEmphasis (star : Bool) (prev next : Neighbour) : Bool :=
  if star then rightFlanking prev next
  else rightFlanking prev next && (!leftFlanking prev next || (leftFlanking prev next && next.punct))

end CM.Spec
