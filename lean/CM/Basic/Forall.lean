/- Quantifying over all 256 bytes by kernel evaluation. -/
namespace CM

theorem forall_uint8 (P : UInt8 → Prop) (h : ∀ n : Fin 256, P (UInt8.ofNat n.val)) : ∀ c, P c := by
  intro c
  have := h ⟨c.toNat, c.toNat_lt⟩
  simpa using this

end CM
