import CM.Basic.Tree
/-
Line-protocol (de)serialisation used by the driver only.
A tree is the token sequence
  `( b|i kind start stop n char loose indent refhex child… )`.
-/
namespace CM.Wire

def parseInt (s : String) : Option Int := s.toInt?

mutual
partial def parseTree : List String → Option (Tree × List String)
  | "(" :: bi :: kind :: start :: stop :: n :: char :: loose :: indent :: ref :: rest => do
    let kind ← kind.toNat?
    let start ← parseInt start
    let stop ← parseInt stop
    let n ← parseInt n
    let char ← char.toNat?
    let indent ← parseInt indent
    let ref ← Bytes.ofHex ref
    let (cs, rest) ← parseForest rest
    let l : Label := { isBlock := bi == "b", kind, start, stop, n, char := UInt8.ofNat char,
                       loose := loose == "1", indent, ref }
    pure (Tree.node l cs, rest)
  | _ => none
partial def parseForest : List String → Option (List Tree × List String)
  | ")" :: rest => some ([], rest)
  | toks => do
    let (t, rest) ← parseTree toks
    let (ts, rest) ← parseForest rest
    pure (t :: ts, rest)
end

def treeOfString (s : String) : Option Tree :=
  match parseTree ((s.splitOn " ").filter (· ≠ "")) with
  | some (t, []) => some t
  | _ => none

/-- A list of trees: `[ tree tree … ]` written as trees separated by ` ; `. -/
def forestOfString (s : String) : Option (List Tree) :=
  if s == "-" then some [] else
  (s.splitOn " ; ").mapM treeOfString

mutual
partial def showTree : Tree → String
  | Tree.node l cs =>
    "( " ++ (if l.isBlock then "b" else "i") ++ " " ++ toString l.kind ++ " " ++ toString l.start ++ " "
      ++ toString l.stop ++ " " ++ toString l.n ++ " " ++ toString l.char.toNat ++ " "
      ++ (if l.loose then "1" else "0") ++ " " ++ toString l.indent ++ " " ++ Bytes.toHex l.ref
      ++ showForest cs ++ " )"
partial def showForest : List Tree → String
  | [] => ""
  | t :: ts => " " ++ showTree t ++ showForest ts
end

end CM.Wire
