/-
Basic byte-string vocabulary shared by every model, spec and proof.
Core-only (no Mathlib) so that the driver links as a `lean_exe`.
-/
namespace CM

/-- Go `[]byte` / `string` as seen by specifications and proofs. -/
abbrev Bytes := List UInt8

namespace Bytes

def ofString (s : String) : Bytes := s.toUTF8.toList

def hexDigit (n : Nat) : Char :=
  if n < 10 then Char.ofNat (48 + n) else Char.ofNat (87 + n)

def toHex (b : Bytes) : String :=
  if b.isEmpty then "-" else
  String.ofList (b.foldr (fun c acc => hexDigit (c.toNat / 16) :: hexDigit (c.toNat % 16) :: acc) [])

def hexVal (c : Char) : Option Nat :=
  if '0' ≤ c ∧ c ≤ '9' then some (c.toNat - 48)
  else if 'a' ≤ c ∧ c ≤ 'f' then some (c.toNat - 87)
  else if 'A' ≤ c ∧ c ≤ 'F' then some (c.toNat - 55)
  else none

def ofHexChars : List Char → Option Bytes
  | [] => some []
  | [_] => none
  | a :: b :: rest => do
    let x ← hexVal a
    let y ← hexVal b
    let r ← ofHexChars rest
    pure (UInt8.ofNat (x * 16 + y) :: r)

def ofHex (s : String) : Option Bytes :=
  if s == "-" then some [] else ofHexChars s.toList

end Bytes

/-- ASCII codes used throughout. -/
abbrev SP : UInt8 := 0x20
abbrev TAB : UInt8 := 0x09
abbrev LF : UInt8 := 0x0A
abbrev CR : UInt8 := 0x0D

end CM
