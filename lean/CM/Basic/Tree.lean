import CM.Basic.Bytes
/-
The tree type shared by all upper-layer models: one node type for blocks and
inlines (Go's `Node`), carrying the raw fields of `Block` / `Inline`.
Accessors (`HeadingLevel`, `IsOrderedList`, …) are functions in `CM.Model.Node`.
-/
namespace CM

structure Label where
  isBlock : Bool := true
  kind : Nat := 0
  start : Int := 0
  stop : Int := 0
  /-- `Block.n` (heading level, fence length, HTML condition). -/
  n : Int := 0
  /-- `Block.char` (list delimiter, fence character). -/
  char : UInt8 := 0
  /-- `Block.listLoose`. -/
  loose : Bool := false
  /-- `Block.indent` / `Inline.indent`. -/
  indent : Int := 0
  /-- `Inline.ref`. -/
  ref : Bytes := []
deriving Repr, BEq, DecidableEq, Inhabited

inductive Tree where
  | node : Label → List Tree → Tree
deriving Repr, Inhabited

namespace Tree

def label : Tree → Label
  | node l _ => l

def children : Tree → List Tree
  | node _ cs => cs

mutual
def size : Tree → Nat
  | node _ cs => 1 + sizeL cs
def sizeL : List Tree → Nat
  | [] => 0
  | c :: cs => c.size + sizeL cs
end

mutual
def beq : Tree → Tree → Bool
  | node l cs, node l' cs' => l == l' && beqL cs cs'
def beqL : List Tree → List Tree → Bool
  | [], [] => true
  | c :: cs, c' :: cs' => beq c c' && beqL cs cs'
  | _, _ => false
end

instance : BEq Tree := ⟨beq⟩

end Tree

-- Block kinds, in the iota order of blocks.go (checked against CM.Gen.Kinds).
namespace BK
def paragraph : Nat := 1
def thematicBreak : Nat := 2
def atxHeading : Nat := 3
def setextHeading : Nat := 4
def indentedCode : Nat := 5
def fencedCode : Nat := 6
def htmlBlock : Nat := 7
def linkRefDef : Nat := 8
def blockQuote : Nat := 9
def listItem : Nat := 10
def list : Nat := 11
def listMarker : Nat := 12
def document : Nat := 13
end BK

-- Inline kinds, in the iota order of inlines.go (checked against CM.Gen.Kinds).
namespace IK
def text : Nat := 1
def softBreak : Nat := 2
def hardBreak : Nat := 3
def indent : Nat := 4
def charRef : Nat := 5
def infoString : Nat := 6
def emphasis : Nat := 7
def strong : Nat := 8
def link : Nat := 9
def image : Nat := 10
def linkDest : Nat := 11
def linkTitle : Nat := 12
def linkLabel : Nat := 13
def codeSpan : Nat := 14
def autolink : Nat := 15
def htmlTag : Nat := 16
def rawHTML : Nat := 17
def unparsed : Nat := 18
end IK

end CM
