import CM.Basic.Bytes
/-
UTF-8 decoding as Go's `unicode/utf8` does it (DecodeRune / DecodeLastRune / `range` over a
string): an invalid or truncated sequence decodes to U+FFFD with width 1.
-/
namespace CM.Utf8

def isCont (b : UInt8) : Bool := 0x80 ≤ b && b ≤ 0xBF

/-- Width of the valid encoding starting at the head, or `none` (Go: RuneError, width 1). -/
def validWidth : Bytes → Option Nat
  | [] => none
  | b0 :: rest =>
    if b0 < 0x80 then some 1
    else if 0xC2 ≤ b0 && b0 ≤ 0xDF then
      match rest with
      | b1 :: _ => if isCont b1 then some 2 else none
      | _ => none
    else if 0xE0 ≤ b0 && b0 ≤ 0xEF then
      match rest with
      | b1 :: b2 :: _ =>
        let lo : UInt8 := if b0 == 0xE0 then 0xA0 else 0x80
        let hi : UInt8 := if b0 == 0xED then 0x9F else 0xBF
        if lo ≤ b1 && b1 ≤ hi && isCont b2 then some 3 else none
      | _ => none
    else if 0xF0 ≤ b0 && b0 ≤ 0xF4 then
      match rest with
      | b1 :: b2 :: b3 :: _ =>
        let lo : UInt8 := if b0 == 0xF0 then 0x90 else 0x80
        let hi : UInt8 := if b0 == 0xF4 then 0x8F else 0xBF
        if lo ≤ b1 && b1 ≤ hi && isCont b2 && isCont b3 then some 4 else none
      | _ => none
    else none

def runeError : Nat := 0xFFFD

/-- `utf8.DecodeRune`: (code point, width); width 0 only for empty input. -/
def decodeRune (b : Bytes) : Nat × Nat :=
  match b with
  | [] => (runeError, 0)
  | b0 :: rest =>
    match validWidth b with
    | some 1 => (b0.toNat, 1)
    | some 2 => (((b0.toNat % 32) * 64) + (rest.headD 0).toNat % 64, 2)
    | some 3 => ((b0.toNat % 16) * 4096 + ((rest.headD 0).toNat % 64) * 64 + ((rest.drop 1).headD 0).toNat % 64, 3)
    | some 4 => ((b0.toNat % 8) * 262144 + ((rest.headD 0).toNat % 64) * 4096
                  + (((rest.drop 1).headD 0).toNat % 64) * 64 + ((rest.drop 2).headD 0).toNat % 64, 4)
    | _ => (runeError, 1)

/-- First index `k ≥ 1` (counted from the end, `k ≤ 3`) whose byte is a rune start (`b & 0xC0 ≠ 0x80`). -/
def lastRuneStart : Bytes → Nat → Option Nat
  | [], _ => none
  | c :: rest, k => if k > 3 then none else if !isCont c then some k else lastRuneStart rest (k + 1)

/-- `utf8.DecodeLastRune`: back up over at most three bytes to a rune start and decode from there;
    anything that does not end exactly at the end is (RuneError, 1). -/
def decodeLastRune (b : Bytes) : Nat × Nat :=
  match b.reverse with
  | [] => (runeError, 0)
  | last :: before =>
    if last < 0x80 then (last.toNat, 1) else
    match lastRuneStart before 1 with
    | none => (runeError, 1)
    | some k =>
      let r := decodeRune (b.drop (b.length - (k + 1)))
      if r.2 == k + 1 then r else (runeError, 1)

/-- `utf8.EncodeRune` (AppendRune), including the surrogate / out-of-range → U+FFFD rule. -/
def encodeRune (r : Nat) : Bytes :=
  let r := if r > 0x10FFFF || (0xD800 ≤ r && r ≤ 0xDFFF) then runeError else r
  if r < 0x80 then [UInt8.ofNat r]
  else if r < 0x800 then [UInt8.ofNat (0xC0 + r / 64), UInt8.ofNat (0x80 + r % 64)]
  else if r < 0x10000 then [UInt8.ofNat (0xE0 + r / 4096), UInt8.ofNat (0x80 + (r / 64) % 64), UInt8.ofNat (0x80 + r % 64)]
  else [UInt8.ofNat (0xF0 + r / 262144), UInt8.ofNat (0x80 + (r / 4096) % 64), UInt8.ofNat (0x80 + (r / 64) % 64), UInt8.ofNat (0x80 + r % 64)]

/-- `utf8.Valid`. -/
def valid : Bytes → Nat → Bool
  | [], _ => true
  | b :: rest, k + 1 => isCont b && valid rest k   -- inside a sequence already validated at its lead
  | b :: rest, 0 =>
    match validWidth (b :: rest) with
    | some w => valid rest (w - 1)
    | none => false

def isValid (b : Bytes) : Bool := valid b 0

end CM.Utf8
