import CM.Basic.Tree
import CM.Model.Recognize
import CM.Model.Node
/-
Model of inlines.go `inlineByteReader` (the reader that makes a multi-line run of inline nodes look like
one contiguous byte stream) and `nodeIndexForPosition`.
The Go methods mutate the reader even when they only "read" (`currentNode` drops the nodes before the current
one), so every operation here returns the new reader state.
-/
namespace CM.Model
open CM CM.Gen

/-- `Span.Intersect(search).Len() > 0` for `search = [pos, pos+1)`. -/
def spanContains (t : Tree) (pos : Nat) : Bool :=
  Node.spanValid t && t.label.start ≤ pos && (pos : Int) < t.label.stop

/-- inlines.go `nodeIndexForPosition`: index of the first node containing `pos`, scanning until a node starts
    after `pos`. -/
def nodeIndexForPosition : List Tree → Nat → Nat → Option Nat
  | [], _, _ => none
  | t :: rest, pos, i =>
    if t.label.start > (pos : Int) then none
    else if spanContains t pos then some i
    else nodeIndexForPosition rest pos (i + 1)

structure Rd where
  spans : List Tree
  pos : Nat
  vpos : Nat := 0
  /-- `prevPos` (−1 initially) -/
  prev : Int := -1
deriving Inhabited

def newReader (spans : List Tree) (pos : Nat) : Rd := { spans := spans, pos := pos }

/-- `currentNode`: drops the nodes before the one containing `pos`; `nil` (and `spans = nil`) if none. -/
def Rd.currentNode (r : Rd) : Option Tree × Rd :=
  match nodeIndexForPosition r.spans r.pos 0 with
  | none => (none, { r with spans := [] })
  | some i =>
    let sp := r.spans.drop i
    (sp.head?, { r with spans := sp })

def isIndent (t : Tree) : Bool := Node.isI t IK.indent
def isUnparsed (t : Tree) : Bool := Node.isI t IK.unparsed

/-- `current`: the byte at the reader's position (0 at the end of input; a space inside an Indent node;
    a byte of U+FFFD for a padded NUL). -/
def Rd.current (src : Bytes) (r : Rd) : UInt8 × Rd :=
  if r.pos ≥ src.length then (0, r) else
  let (n, r) := r.currentNode
  match n with
  | some t =>
    if isIndent t then (SP, r)
    else if src.getD r.pos 0 == 0 then (nullReplacementString.getD r.vpos 0, r)
    else (src.getD r.pos 0, r)
  | none =>
    -- Kind() of nil is 0: not Indent
    if src.getD r.pos 0 == 0 then (nullReplacementString.getD r.vpos 0, r) else (src.getD r.pos 0, r)

/-- inlines.go `computeNullVirtualPosition`. -/
def nullRunBefore : Bytes → Nat
  | [] => 0
  | b :: rest => if b == 0 then 1 + nullRunBefore rest else 0

def computeNullVirtualPosition (src : Bytes) (pos : Nat) : Nat :=
  if pos ≥ src.length || src.getD pos 0 != 0 then 0
  else nullRunBefore (src.take pos).reverse % nullReplacementString.length

/-- The loop of `next` that looks for the following Unparsed/Text/Indent node. -/
def nextTextNode : List Tree → Option (Tree × List Tree)
  | [] => none
  | t :: rest =>
    if Node.isI t IK.unparsed || Node.isI t IK.text || Node.isI t IK.indent then some (t, t :: rest)
    else nextTextNode rest

/-- `remainingNodeBytes`. -/
def Rd.remainingNodeBytes (src : Bytes) (r : Rd) : Bytes × Rd :=
  let (n, r) := r.currentNode
  match n with
  | none => ([], r)
  | some t => ((src.drop r.pos).take (t.label.stop.toNat - r.pos), r)

/-- `next`: advance by one byte (or one virtual column of an Indent node), jumping to the next text-bearing
    node at the end of the current one. Returns false at the end. -/
def Rd.next (src : Bytes) (r : Rd) : Bool × Rd :=
  let (n, r) := r.currentNode
  match n with
  | none => (false, r)
  | some t =>
    if isIndent t && (r.vpos : Int) < t.label.indent then
      (true, { r with prev := r.pos, vpos := r.vpos + 1 })
    else if !isIndent t && ((r.pos + 1 : Nat) : Int) < t.label.stop then
      let vpos := if src.getD r.pos 1 == 0 && src.getD (r.pos + 1) 1 == 0
                  then (r.vpos + 1) % nullReplacementString.length else 0
      (true, { r with prev := r.pos, pos := r.pos + 1, vpos := vpos })
    else
      match nextTextNode (r.spans.drop 1) with
      | some (t', sp) =>
        let p := t'.label.start.toNat
        (true, { spans := sp, prev := r.pos, pos := p, vpos := computeNullVirtualPosition src p })
      | none => (false, { spans := [], prev := r.pos, pos := r.pos + 1, vpos := r.vpos })

/-- `jumped`. -/
def Rd.jumped (r : Rd) : Bool := r.prev ≥ 0 && (r.pos : Int) - r.prev > 1

/-- Fuel for loops that advance a reader: every iteration calls `next` successfully at least once. -/
def rdFuel (src : Bytes) (spans : List Tree) : Nat :=
  2 * src.length + (spans.map (fun t => t.label.indent.toNat + 1)).sum + 8

end CM.Model
