import CM.Basic.Utf8
import CM.Gen.Preds
import CM.Gen.Consts
import CM.Model.URI
/-
Model of the emphasis machinery of inlines.go: `emphasisFlags`, `parseDelimiterRun`,
`processEmphasis` (the loop with its `openersBottom` array, index-based deletion, `n` = original run
length, current length taken from the node span), using the *generated* `Gen.isEmphasisDelimiterMatch`
and `Gen.openersBottomIndex`.

`procLoop useBounds`: with `useBounds = true` it is the Go loop; with `false` the search goes down to
`stack_bottom` every time — CommonMark 0.30's "process emphasis" procedure without its `openers_bottom`
optimisation (the specification side of C11). The two differ in nothing else.
-/
namespace CM.Model
open CM CM.Gen

/-- `unicode` predicates the library calls (parameters; see DESIGN §3 rule 6). -/
structure UExt where
  /-- `unicode.Is(unicode.Zs, c)` -/
  isZs : Nat → Bool
  /-- `unicode.In(c, Pc, Pd, Pe, Pf, Pi, Po, Ps)` -/
  isP : Nat → Bool

/-- parse.go `isUnicodeWhitespace`. -/
def isUnicodeWhitespace (u : UExt) (c : Nat) : Bool :=
  (c ≤ 0x7F && (isSpaceTabOrLineEnding (UInt8.ofNat c) || c == 0x0C)) || u.isZs c

/-- parse.go `isUnicodePunctuation`. -/
def isUnicodePunctuation (u : UExt) (c : Nat) : Bool :=
  if c < 0x80 then isASCIIPunctuation (UInt8.ofNat c) else u.isP c

/-- inlines.go `emphasisFlags` on the run `source[start:stop]` (non-empty): (canOpen, canClose). -/
def emphasisFlags (u : UExt) (source : Bytes) (start stop : Nat) : Bool × Bool :=
  let prev : Nat := if start > 0 then (Utf8.decodeLastRune (source.take start)).1 else 0x20
  let next : Nat := if stop < source.length then (Utf8.decodeRune (source.drop stop)).1 else 0x20
  let ch := source.getD start 0
  let leftFlanking := !isUnicodeWhitespace u next &&
    (!isUnicodePunctuation u next || isUnicodeWhitespace u prev || isUnicodePunctuation u prev)
  let rightFlanking := !isUnicodeWhitespace u prev &&
    (!isUnicodePunctuation u prev || isUnicodeWhitespace u next || isUnicodePunctuation u next)
  (leftFlanking && (ch == 0x2A || !rightFlanking || isUnicodePunctuation u prev),
   rightFlanking && (ch == 0x2A || !leftFlanking || isUnicodePunctuation u next))

/-- A delimiter-stack element: the generated Go struct fields plus the node identity and its current
    length (`node.Span().Len()`). -/
structure Delim where
  elem : DelimElem
  id : Nat
  len : Nat
deriving Repr, BEq, DecidableEq

/-- A match: which opener and closer nodes, and whether it is strong emphasis. -/
structure EmEvent where
  opener : Nat
  closer : Nat
  strong : Bool
deriving Repr, BEq, DecidableEq

def isEmphasisDelim (d : Delim) : Bool := d.elem.typ == inlineDelimiterStar || d.elem.typ == inlineDelimiterUnderscore
def canClose (d : Delim) : Bool := d.elem.flags &&& 4 != 0
def canOpen (d : Delim) : Bool := d.elem.flags &&& 2 != 0

/-- Advance `cur` to the first potential closer with delimiter `*` or `_`. -/
def nextCloser (stack : List Delim) (cur : Nat) : Nat → Option Nat
  | 0 => none
  | fuel + 1 =>
    match stack[cur]? with
    | none => none
    | some d => if isEmphasisDelim d && canClose d then some cur else nextCloser stack (cur + 1) fuel

/-- Look back from index `i` (given as `i+1`) down to `lo` for the first entry matching `closer`. -/
def findOpener (stack : List Delim) (closer : Delim) (lo : Nat) : Nat → Option Nat
  | 0 => none
  | i + 1 =>
    if i < lo then none else
    match stack[i]? with
    | none => none
    | some o => if isEmphasisDelimiterMatch o.elem closer.elem then some i else findOpener stack closer lo i

/-- `deleteDelimiterStack(stack, i, j)`. -/
def deleteRange (stack : List Delim) (i j : Nat) : List Delim := stack.take i ++ stack.drop j

structure ProcState where
  stack : List Delim
  cur : Nat
  /-- `openersBottom` (indexed by `openersBottomIndex`) -/
  bot : Nat → Nat
  events : List EmEvent

/-- One iteration of the `closerLoop`; `none` = `break` (no more closers). -/
def procStep (useBounds : Bool) (stackBottom : Nat) (s : ProcState) : Option ProcState :=
  match nextCloser s.stack s.cur (s.stack.length + 1) with
  | none => none
  | some cur =>
    match s.stack[cur]? with
    | none => none
    | some closer =>
      let k := (openersBottomIndex closer.elem).getD 0
      let lo := if useBounds then s.bot k else stackBottom
      match findOpener s.stack closer lo cur with
      | some oi =>
        match s.stack[oi]? with
        | none => none
        | some opener =>
          let strong := opener.len ≥ 2 && closer.len ≥ 2
          let w := if strong then 2 else 1
          let opener' := { opener with len := opener.len - w }
          let closer' := { closer with len := closer.len - w }
          -- stack after shrinking the two nodes and deleting what lies between them
          let st1 := (s.stack.take oi) ++ [opener', closer'] ++ s.stack.drop (cur + 1)
          -- `currentPosition = openerIndex + 1`, minus one if the emptied opener is removed from the stack
          let cur2 := if opener'.len == 0 then oi else oi + 1
          let st2 := if opener'.len == 0 then deleteRange st1 oi (oi + 1) else st1
          let st3 := if closer'.len == 0 then deleteRange st2 cur2 (cur2 + 1) else st2
          some { stack := st3, cur := cur2,
                 bot := fun j => if s.bot j > cur2 then cur2 else s.bot j,
                 events := s.events ++ [{ opener := opener.id, closer := closer.id, strong := strong }] }
      | none =>
        let bot' := fun j => if j == k then cur else s.bot j
        if !canOpen closer then
          some { s with stack := deleteRange s.stack cur (cur + 1), cur := cur, bot := bot' }
        else some { s with cur := cur + 1, bot := bot' }

/-- The loop (fuel bounds the number of iterations; `procTerminates` shows the bound used is enough). -/
def procLoop (useBounds : Bool) (stackBottom : Nat) : Nat → ProcState → ProcState
  | 0, s => s
  | fuel + 1, s =>
    match procStep useBounds stackBottom s with
    | none => s
    | some s' => procLoop useBounds stackBottom fuel s'

def totalLen (stack : List Delim) : Nat := (stack.map (·.len)).sum

/-- `processEmphasis(state, stackBottom)`: the match events, in order. -/
def processEmphasis (useBounds : Bool) (stack : List Delim) (stackBottom : Nat) : List EmEvent :=
  (procLoop useBounds stackBottom (2 * totalLen stack + 2 * stack.length + 2)
    { stack := stack, cur := stackBottom, bot := fun _ => stackBottom, events := [] }).events

/-! ### Tokenising a paragraph line and building the tree -/

inductive Item where
  | text (b : Bytes)
  | run (id : Nat) (ch : UInt8) (n : Nat) (flagsOpen flagsClose : Bool)
deriving Repr

/-- The scanner of `parse` restricted to `*`/`_` runs and plain bytes. `pos` = offset of `rest` in `source`. -/
def scanItems (u : UExt) (source : Bytes) : Bytes → Nat → Nat → Nat → List Item
  | _, _, _, 0 => []
  | [], _, _, _ => []
  | c :: rest, pos, nextId, fuel + 1 =>
    if c == 0x2A || c == 0x5F then
      let n := 1 + (rest.takeWhile (· == c)).length
      let f := emphasisFlags u source pos (pos + n)
      Item.run nextId c n f.1 f.2 :: scanItems u source (rest.drop (n - 1)) (pos + n) (nextId + 1) fuel
    else
      match scanItems u source rest (pos + 1) nextId fuel with
      | Item.text b :: more => Item.text (c :: b) :: more
      | more => Item.text [c] :: more

def itemsOf (u : UExt) (source : Bytes) : List Item := scanItems u source source 0 0 (source.length + 1)

def delimsOf : List Item → List Delim
  | [] => []
  | Item.text _ :: rest => delimsOf rest
  | Item.run id ch n o c :: rest =>
    { elem := { typ := if ch == 0x2A then 1 else 2,
                flags := 1 ||| (if o then 2 else 0) ||| (if c then 4 else 0), n := n },
      id := id, len := n } :: delimsOf rest

/-- Inline nodes during tree surgery. -/
inductive ENode where
  | text (b : Bytes)
  | run (id : Nat) (ch : UInt8) (len : Nat)
  | em (strong : Bool) (kids : List ENode)
deriving Repr

def nodesOf : List Item → List ENode
  | [] => []
  | Item.text b :: rest => ENode.text b :: nodesOf rest
  | Item.run id ch n _ _ :: rest => ENode.run id ch n :: nodesOf rest

def isRun (id : Nat) : ENode → Bool
  | ENode.run i _ _ => i == id
  | _ => false

def shrink (w : Nat) : ENode → ENode
  | ENode.run i ch len => ENode.run i ch (len - w)
  | n => n

/-- `wrap`: everything strictly between the opener and closer run nodes moves under a new node; both
    runs lose `w` characters (the opener at its end, the closer at its start). -/
def applyEvent (ns : List ENode) (e : EmEvent) : List ENode :=
  let w := if e.strong then 2 else 1
  let before := ns.takeWhile (!isRun e.opener ·)
  match ns.drop before.length with
  | [] => ns
  | o :: afterO =>
    let mid := afterO.takeWhile (!isRun e.closer ·)
    match afterO.drop mid.length with
    | [] => ns
    | c :: after => before ++ [shrink w o, ENode.em e.strong mid, shrink w c] ++ after

mutual
/-- Canonical structure string: text bytes, `{e…}` for emphasis, `{s…}` for strong. -/
def showENode : ENode → Bytes
  | ENode.text b => b
  | ENode.run _ ch len => List.replicate len ch
  | ENode.em strong kids => (if strong then [0x7B, 0x73] else [0x7B, 0x65]) ++ showENodes kids ++ [0x7D]
def showENodes : List ENode → Bytes
  | [] => []
  | n :: ns => showENode n ++ showENodes ns
end

/-- The emphasis structure of one paragraph line. -/
def emphasisStructure (useBounds : Bool) (u : UExt) (source : Bytes) : Bytes :=
  let items := itemsOf u source
  let events := processEmphasis useBounds (delimsOf items) 0
  showENodes (events.foldl applyEvent (nodesOf items))

end CM.Model
