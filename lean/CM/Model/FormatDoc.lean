import CM.Model.Format
import CM.Model.Walk
import CM.Model.Node
/-
Model of format/format.go `Format(w, blocks)`: the `Walk` over the virtual root with the
`Pre`/`Post` closures, `preBlock`, `isFirstParagraph`, `postBlock`, `visitInline`, `postInline`,
`isShortcutLinkOrImage`, `codeFenceChar`, `codeFenceLength`, over the writer model `FW` of
CM/Model/Format.lean (so a writer failing at its k-th write is expressible).

The callbacks are written in a small *program* type `Prog` whose only effects are the operations the Go
code performs on its `*formatWriter` (`s`/`b`, `push`, `pop`, reading `hasWritten`) and a Go panic.
`Prog.run` interprets a program over `FW` with the existing `fwS`/`fwPush`/`fwPop`. One Lean function per
Go function, same control structure (do-notation mirrors the statement sequence). See FORMAT_NOTES.md.
-/
namespace CM.Model.Fmt
open CM CM.Model Node

/-! ## Programs over the formatWriter -/

/-- The kinds of Go run-time panic `Format` can raise. -/
inductive GoPanic where
  /-- `Child(i)` with `i` out of range -/
  | indexOutOfRange
  /-- `spanSlice`: slice bounds out of range -/
  | sliceBounds
  /-- `(*Inline)(nil).ref` -/
  | nilDeref
  /-- `fw.pop()` on an empty indent stack: slice bounds out of range [:-1] -/
  | popEmpty
deriving Repr, DecidableEq, BEq

/-- A straight-line/branching program over a `*formatWriter`. -/
inductive Prog (α : Type) where
  /-- return -/
  | ret (a : α)
  /-- `fw.s(b)` / `fw.b(b)`, then continue -/
  | s (b : Bytes) (k : Prog α)
  /-- `fw.push(b)` -/
  | push (b : Bytes) (k : Prog α)
  /-- `fw.pop()` (panics on an empty stack) -/
  | pop (k : Prog α)
  /-- read `fw.hasWritten` -/
  | hasWritten (k : Bool → Prog α)
  /-- a Go run-time panic (index/slice out of range, nil dereference) -/
  | panic (msg : GoPanic)

namespace Prog

def bind {α β : Type} : Prog α → (α → Prog β) → Prog β
  | .ret a, f => f a
  | .s b k, f => .s b (k.bind f)
  | .push b k, f => .push b (k.bind f)
  | .pop k, f => .pop (k.bind f)
  | .hasWritten k, f => .hasWritten fun h => (k h).bind f
  | .panic m, _ => .panic m

instance : Monad Prog where
  pure := .ret
  bind := Prog.bind

/-- Interpretation over the writer model. `Except.error` = the Go code panicked (the writer state is the one
    reached at the panic). -/
def run {α : Type} : Prog α → FW → Except GoPanic α × FW
  | .ret a, fw => (.ok a, fw)
  | .s b k, fw => k.run (fwS fw b)
  | .push b k, fw => k.run (fwPush fw b)
  | .pop k, fw =>
    if fw.indents.isEmpty then (.error .popEmpty, fw) else k.run (fwPop fw)
  | .hasWritten k, fw => (k fw.hasWritten).run fw
  | .panic m, fw => (.error m, fw)

end Prog

/-- `fw.s(b)` -/
def wS (b : Bytes) : Prog Unit := .s b (.ret ())
/-- `fw.b(b)` = `fw.s(string(b))` -/
def wB (b : Bytes) : Prog Unit := wS b
def wPush (b : Bytes) : Prog Unit := .push b (.ret ())
def wPop : Prog Unit := .pop (.ret ())
def wHasWritten : Prog Bool := .hasWritten .ret
/-- A value whose computation may panic in Go (`none`). -/
def orPanic {α : Type} (o : Option α) (msg : GoPanic) : Prog α :=
  match o with
  | some a => .ret a
  | none => .panic msg

/-- `for i := 0; i < n; i++ { fw.s(b) }` -/
def wRepeat : Nat → Bytes → Prog Unit
  | 0, _ => pure ()
  | n + 1, b => do wS b; wRepeat n b

/-! ## Node access as the Go code performs it (`none` = Go panics) -/

/-- `Node.Block()`. -/
def asBlock (t : Tree) : Option Tree := if t.label.isBlock then some t else none

/-- Go's zero `Node{}` (neither block nor inline): the virtual root; the wire form is inline kind 0. -/
def isNilNode (t : Tree) : Bool := !t.label.isBlock && t.label.kind == 0

/-- `Node.Inline()`. -/
def asInline (t : Tree) : Option Tree := if !t.label.isBlock && t.label.kind != 0 then some t else none

/-- `(*Block).Kind()` / `(*Inline).Kind()` on a possibly nil receiver. -/
def kindOf (o : Option Tree) : Nat :=
  match o with
  | some t => t.label.kind
  | none => 0

/-- `spanSlice(source, node.Span())`: Go panics unless `0 ≤ Start ≤ End ≤ len(source)`
    (the capacity of `source` beyond its length is not modelled). A nil receiver has `NullSpan()`. -/
def spanSliceP (src : Bytes) (o : Option Tree) : Option Bytes :=
  match o with
  | none => none
  | some t =>
    if 0 ≤ t.label.start && t.label.start ≤ t.label.stop && t.label.stop ≤ (src.length : Int) then
      some ((src.drop t.label.start.toNat).take (t.label.stop - t.label.start).toNat)
    else none

/-- `(*Block).Child(i)` / `(*Inline).Child(i)`: index out of range panics. -/
def childP (t : Tree) (i : Nat) : Option Tree := t.children[i]?

/-- `(*Inline).Text(source)` on a possibly nil receiver, with the slicing panics. -/
def textP (ext : Ext) (src : Bytes) (o : Option Tree) : Option Bytes :=
  match o with
  | none => some []
  | some t =>
    let k := t.label.kind
    if k == IK.text || k == IK.rawHTML then spanSliceP src (some t)
    else if k == IK.charRef then (spanSliceP src (some t)).map ext.unescape
    else if k == IK.softBreak then (if spanLen t == 0 then some [LF] else spanSliceP src (some t))
    else if k == IK.hardBreak then some [LF]
    else if k == IK.indent then some (spaces t.label.indent.toNat)
    else if k == IK.infoString || k == IK.linkDest || k == IK.linkTitle then
      t.children.foldlM (fun (acc : Bytes) c =>
        let ck := kindOf (asInline c)
        if ck == IK.text then (spanSliceP src (some c)).map (acc ++ ·)
        else if ck == IK.charRef then (spanSliceP src (some c)).map (acc ++ ext.unescape ·)
        else some acc) []
    else some []

/-- `(*Inline).LinkReference()` on a possibly nil receiver (nil: `inline.ref` dereferences nil). -/
def linkReferenceP (o : Option Tree) : Option Bytes := o.map linkReference

/-! ## format.go -/

/-- `isFirstParagraph(cursor)`. -/
def isFirstParagraph (cur : Cursor) : Option Bool :=
  if kindOf (asBlock cur.node) != BK.paragraph then some false
  else if cur.index ≤ 0 then some true
  else
    let parent := cur.parent.bind asBlock
    if cur.index == 1 && kindOf parent == BK.listItem then
      match parent.bind (childP · 0) with
      | none => none
      | some c => some (kindOf (asBlock c) == BK.listMarker)
    else some false

/-- `codeFenceChar(source, block)`. -/
def codeFenceChar (src : Bytes) (block : Tree) : Option UInt8 :=
  match infoString block with
  | none => some 0x60
  | some info => (spanSliceP src (some info)).map fun s => if s.contains 0x60 then 0x7E else 0x60

/-- The locals of `codeFenceLength`. -/
structure CFL where
  minFence : Int := 2
  /-- −1 = start of line, 0 = not a fence-like line -/
  state : Int := -1
  indent : Int := 0
deriving Repr, BEq, DecidableEq

def codeBlockIndentLimit : Int := 4

/-- One iteration of the inner `for _, c := range s` loop. -/
def cflByte (fence : UInt8) (a : CFL) (c : UInt8) : CFL :=
  if c == SP then
    if a.state == -1 then
      let indent := a.indent + 1
      if indent ≥ codeBlockIndentLimit then { a with indent := indent, state := 0 } else { a with indent := indent }
    else a
  else if c == LF || c == CR then
    { a with minFence := if a.state > a.minFence then a.state else a.minFence, state := -1, indent := 0 }
  else if c == fence then
    if a.state < 0 then { a with state := 1 }
    else if a.state > 0 then { a with state := a.state + 1 }
    else a
  else { a with state := 0 }

/-- One iteration of the loop over the children. -/
def cflChild (src : Bytes) (fence : UInt8) (a : CFL) (c : Tree) : Option CFL :=
  let inl := asInline c
  let k := kindOf inl
  if k == IK.text then (spanSliceP src inl).map fun s => s.foldl (cflByte fence) a
  else if k == IK.softBreak || k == IK.hardBreak then
    some { a with minFence := if a.state > a.minFence then a.state else a.minFence, state := -1, indent := 0 }
  else if k == IK.indent then
    if a.state == -1 then
      let indent := a.indent + c.label.indent
      if indent ≥ codeBlockIndentLimit then some { a with indent := indent, state := 0 }
      else some { a with indent := indent }
    else some a
  else some a

/-- `codeFenceLength(source, block)`. -/
def codeFenceLength (src : Bytes) (block : Tree) : Option Int := do
  let fence ← codeFenceChar src block
  let a ← block.children.foldlM (cflChild src fence) {}
  pure (a.minFence + 1)

/-- `isShortcutLinkOrImage(inline)`. -/
def isShortcutLinkOrImage (t : Tree) : Bool :=
  if !isLinkOrImage t || t.children.isEmpty then false
  else if (match t.children.getLast? with
           | some last => last.label.kind == IK.linkLabel
           | none => false) then false
  else !(lastTwo t.children).any (·.label.kind == IK.linkDest)

/-- `preBlock(fw, source, cursor)`: returns `(childrenIndent, descend)`. -/
def preBlock (ext : Ext) (src : Bytes) (cur : Cursor) : Prog (Bytes × Bool) := do
  let curr := cur.node
  let k := curr.label.kind
  if k == BK.paragraph then
    let first ← orPanic (isFirstParagraph cur) .indexOutOfRange
    if !first then wS [LF]
    return ([], true)
  else if k == BK.thematicBreak then
    if (← wHasWritten) then wS [LF, 0x2D, 0x2D, 0x2D, LF, LF]          -- "\n---\n\n"
    else wS [0x2A, 0x2A, 0x2A, LF, LF]                                 -- "***\n\n"
    return ([], true)
  else if k == BK.list then
    if (← wHasWritten) then wS [LF]
    return ([], true)
  else if k == BK.listItem then
    if cur.index > 0 && !isTightList (some curr) then wS [LF]
    let c0 ← orPanic (childP curr 0) .indexOutOfRange
    let marker := asBlock c0
    if kindOf marker == BK.listMarker then
      let markerBytes ← orPanic (spanSliceP src marker) .sliceBounds
      wB markerBytes
      wS [SP]
      return (spaces (markerBytes.length + 1), true)
    return ([], true)
  else if k == BK.linkRefDef then
    if (← wHasWritten) then wS [LF]
    wS [0x5B]                                                           -- "["
    let c0 ← orPanic (childP curr 0) .indexOutOfRange
    let ref ← orPanic (linkReferenceP (asInline c0)) .nilDeref
    wS ref
    wS [0x5D, 0x3A, SP]                                                 -- "]: "
    let c1 ← orPanic (childP curr 1) .indexOutOfRange
    let dest ← orPanic (textP ext src (asInline c1)) .sliceBounds
    wS dest
    if curr.children.length > 2 then
      wS [SP, 0x22]                                                     -- ` "`
      let c2 ← orPanic (childP curr 2) .indexOutOfRange
      let title ← orPanic (textP ext src (asInline c2)) .sliceBounds
      wS title
      wS [0x22]
    wS [LF]
    return ([], false)
  else if k == BK.blockQuote then
    if (← wHasWritten) then wS [LF]
    wS [0x3E, SP]                                                       -- "> "
    return ([0x3E, SP], true)
  else if k == BK.indentedCode then
    if (← wHasWritten) then wS [LF]
    let n ← orPanic (codeFenceLength src curr) .sliceBounds
    wRepeat n.toNat [0x60]
    wS [LF]
    return ([], true)
  else if k == BK.fencedCode then
    if (← wHasWritten) then wS [LF]
    let c ← orPanic (codeFenceChar src curr) .sliceBounds
    let n ← orPanic (codeFenceLength src curr) .sliceBounds
    wRepeat n.toNat [c]
    match infoString curr with
    | some info =>
      let b ← orPanic (spanSliceP src (some info)) .sliceBounds
      wB b
    | none => pure ()
    wS [LF]
    return ([], true)
  else if k == BK.atxHeading then
    if (← wHasWritten) then wS [LF]
    wRepeat (headingLevel curr).toNat [0x23]                            -- "#"
    wS [SP]
    return ([], true)
  else if k == BK.setextHeading || k == BK.htmlBlock then
    if (← wHasWritten) then wS [LF]
    return ([], true)
  else
    return ([], false)

/-- `postBlock(fw, source, cursor)`. -/
def postBlock (src : Bytes) (cur : Cursor) : Prog Unit := do
  let b := cur.node
  let k := b.label.kind
  if k == BK.paragraph then
    if !isTightList cur.block then wS [LF]
  else if k == BK.listItem then
    wS [LF]
  else if k == BK.indentedCode || k == BK.fencedCode then
    let c ← orPanic (codeFenceChar src b) .sliceBounds
    let n ← orPanic (codeFenceLength src b) .sliceBounds
    wRepeat n.toNat [c]
    wS [LF]
  else if k == BK.atxHeading then
    wS [LF]
  else if k == BK.setextHeading then
    if headingLevel b == 1 then wS [LF, 0x3D, 0x3D, 0x3D, 0x3D, 0x3D, LF]     -- "\n=====\n"
    else wS [LF, 0x2D, 0x2D, 0x2D, 0x2D, 0x2D, LF]                            -- "\n-----\n"
  else pure ()

/-- The runes `visitInline` escapes: ``\[]*_-=<>&#~` `` and the backtick. -/
def escapeSet : List Nat := [0x5C, 0x5B, 0x5D, 0x2A, 0x5F, 0x2D, 0x3D, 0x3C, 0x3E, 0x26, 0x23, 0x7E, 0x60]

/-- The `for s := …; len(s) > 0;` loop of `visitInline` (fuel = `len(s)`: every iteration consumes ≥ 1 byte). -/
def textLoop (setext : Bool) : Nat → Bytes → Prog Unit
  | 0, _ => pure ()
  | fuel + 1, s =>
    if s.isEmpty then pure () else
    let r := Utf8.decodeRune s
    if r.1 == 0x0A && setext then textLoop setext fuel (s.drop r.2)
    else do
      if escapeSet.contains r.1 then wS [0x5C]
      wB (s.take r.2)
      textLoop setext fuel (s.drop r.2)

/-- `spanSlice(source, Span{Start, End})` for an explicit span (same panic condition). -/
def rangeSliceP (src : Bytes) (start stop : Int) : Option Bytes :=
  if 0 ≤ start && start ≤ stop && stop ≤ (src.length : Int) then some ((src.drop start.toNat).take (stop - start).toNat) else none

/-- `isVerbatimInline(parent)`: the text children of code spans, autolinks and raw HTML tags are written as they are. -/
def isVerbatimInline (o : Option Tree) : Bool :=
  match o with
  | some t => !t.label.isBlock && (t.label.kind == IK.codeSpan || t.label.kind == IK.autolink || t.label.kind == IK.htmlTag)
  | none => false

/-- `emphasisDelimiterLength`. -/
def emphasisDelimiterLength (t : Tree) : Int := if t.label.kind == IK.strong then 2 else 1

def hasSuffixEOL (b : Bytes) : Bool := b.getLast? == some LF || b.getLast? == some CR

/-- `visitInline(fw, source, cursor)`. -/
def visitInline (src : Bytes) (cur : Cursor) : Prog Bool := do
  let child := cur.node
  let k := child.label.kind
  if k == IK.link then
    wS [0x5B]
    return true
  else if k == IK.image then
    wS [0x21, 0x5B]
    return true
  else if k == IK.text then
    let pk := kindOf cur.block
    if pk == BK.indentedCode || pk == BK.fencedCode || isVerbatimInline (cur.parent.bind asInline) then
      let b ← orPanic (spanSliceP src (some child)) .sliceBounds
      wB b
      return false
    let s ← orPanic (spanSliceP src (some child)) .sliceBounds
    textLoop (pk == BK.setextHeading) s.length s
    return false
  else if k == IK.infoString || k == IK.linkDest || k == IK.linkLabel || k == IK.linkTitle then
    return false
  else if k == IK.emphasis || k == IK.strong then
    let n := emphasisDelimiterLength child
    if child.children.isEmpty || !spanValid child || (spanLen child : Int) < 2 * n then
      if spanValid child then
        let b ← orPanic (spanSliceP src (some child)) .sliceBounds
        wB b
      return false
    else
      let b ← orPanic (rangeSliceP src child.label.start (child.label.start + n)) .sliceBounds
      wB b
      return true
  else if k == IK.codeSpan || k == IK.htmlTag || k == IK.autolink then
    let descend : Option Tree :=
      match child.children.head?, child.children.getLast? with
      | some first, some last =>
        if spanValid child && spanValid first && spanValid last && child.label.start ≤ first.label.start
            && last.label.stop ≤ child.label.stop then some first else none
      | _, _ => none
    match descend with
    | some first =>
      let b ← orPanic (rangeSliceP src child.label.start first.label.start) .sliceBounds
      wB b
      return true
    | none =>
      if spanValid child then
        let b ← orPanic (spanSliceP src (some child)) .sliceBounds
        wB b
      return false
  else
    if !spanValid child then return false
    let b ← orPanic (spanSliceP src (some child)) .sliceBounds
    wB b
    return false

/-- `postInline(fw, source, cursor)`. -/
def postInline (ext : Ext) (src : Bytes) (cur : Cursor) : Prog Unit := do
  let child := cur.node
  if child.label.kind == IK.emphasis || child.label.kind == IK.strong then
    let b ← orPanic (rangeSliceP src (child.label.stop - emphasisDelimiterLength child) child.label.stop) .sliceBounds
    wB b
  else if child.label.kind == IK.codeSpan || child.label.kind == IK.htmlTag || child.label.kind == IK.autolink then
    let last ← orPanic child.children.getLast? .indexOutOfRange
    let closing ← orPanic (rangeSliceP src last.label.stop child.label.stop) .sliceBounds
    let lastText ← orPanic (spanSliceP src (some last)) .sliceBounds
    if !closing.isEmpty && hasSuffixEOL lastText then
      let d := closing.getLast?.getD 0
      wB ((closing.reverse.takeWhile (· == d)).reverse)
    else wB closing
  else if child.label.kind == IK.link || child.label.kind == IK.image then
    wS [0x5D]                                                           -- "]"
    let ref := linkReference child
    if !ref.isEmpty then
      if isShortcutLinkOrImage child then
        wS [0x5B, 0x5D]                                                 -- "[]"
      else
        wS [0x5B]
        wS ref
        wS [0x5D]
    else
      wS [0x28]                                                         -- "("
      let title := linkTitle child
      match linkDestination child with
      | some dst =>
        let d ← orPanic (textP ext src (some dst)) .sliceBounds
        let uri := normalizeURI d
        if !uri.isEmpty then wS uri
        else wS [0x3C, 0x3E]                                            -- "<>"
        if title.isSome then wS [SP]
      | none => pure ()
      match title with
      | some t =>
        wS [0x22]
        let tt ← orPanic (textP ext src (some t)) .sliceBounds
        wS tt
        wS [0x22]
      | none => pure ()
      wS [0x29]                                                         -- ")"
  else pure ()

/-! ## `Format` -/

/-- What the closures of `Format` close over: the `*formatWriter`, `var source []byte`; `panic` records that
    the Go code has panicked (everything after it is skipped: the panic unwinds out of `Walk`). -/
structure FmtSt where
  fw : FW := {}
  source : Bytes := []
  panic : Option GoPanic := none
deriving Repr

/-- `blocks []*RootBlock`: `(Source, Block)` pairs. -/
abbrev Roots := List (Bytes × Tree)

/-- Go's zero `Node{}` presented with the custom `ChildCount`/`Child`: its children are the root blocks. -/
def vroot (blocks : Roots) : Tree :=
  .node { isBlock := false, kind := 0, start := -1, stop := -1 } (blocks.map (·.2))

/-- Run a callback body on the closure state. -/
def FmtSt.exec (st : FmtSt) (p : Prog Bool) : Bool × FmtSt :=
  match p.run st.fw with
  | (.ok r, fw) => (r, { st with fw := fw })
  | (.error m, fw) => (false, { st with fw := fw, panic := some m })

/-- The search `for _, root := range blocks { if b == &root.Block { source = root.Source; break } }` of the
    `Pre` closure. It compares pointers; a cursor without parent block is a child of the virtual root, i.e. the
    node is `blocks[c.Index()]` (and a block that occurs twice has the same `Source` both times). -/
def lookupSource (blocks : Roots) (cur : Cursor) (st : FmtSt) : FmtSt :=
  if cur.block.isNone then
    match blocks[cur.index.toNat]? with
    | some root => { st with source := root.1 }
    | none => st
  else st

/-- The block branch of the `Pre` closure after the source lookup. -/
def preBody (ext : Ext) (src : Bytes) (cur : Cursor) : Prog Bool := do
  let r ← preBlock ext src cur
  if r.2 then wPush r.1
  return r.2

/-- The `Pre` closure. -/
def formatPre (ext : Ext) (blocks : Roots) (cur : Cursor) (st : FmtSt) : Bool × FmtSt :=
  if st.panic.isSome then (false, st) else
  if (asBlock cur.node).isSome then
    let st := lookupSource blocks cur st
    st.exec (preBody ext st.source cur)
  else if (asInline cur.node).isSome then
    st.exec (visitInline st.source cur)
  else (isNilNode cur.node, st)

/-- The body of the `Post` closure. -/
def postBody (ext : Ext) (src : Bytes) (cur : Cursor) : Prog Bool := do
  if (asBlock cur.node).isSome then
    wPop
    postBlock src cur
  if (asInline cur.node).isSome then
    postInline ext src cur
  return true

/-- The `Post` closure (a panic unwinds out of `Walk`: the traversal stops). -/
def formatPost (ext : Ext) (cur : Cursor) (st : FmtSt) : Bool × FmtSt :=
  if st.panic.isSome then (false, st) else
  let r := st.exec (postBody ext st.source cur)
  (r.2.panic.isNone, r.2)

def formatOpts (ext : Ext) (blocks : Roots) : WalkOpts FmtSt :=
  { pre := some (formatPre ext blocks), post := some (formatPost ext) }

/-- `Format(w, blocks)` with `w` the scripted writer failing at its `failAt`-th write: the final closure state
    (`fw.err` is the returned error, `fw.w.log` the writes issued, `panic` whether `Format` panicked). -/
def format (ext : Ext) (failAt : Option Nat) (blocks : Roots) : FmtSt :=
  walk (vroot blocks) (formatOpts ext blocks) { fw := { w := { failAt := failAt } } }

end CM.Model.Fmt
