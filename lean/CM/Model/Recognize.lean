import CM.Basic.Bytes
import CM.Gen.Preds
import CM.Gen.Consts
/-
Model of the line recognizers of blocks.go and the small byte helpers of parse.go.
One Lean function per Go function; index-based Go loops are structural recursions
over the remaining bytes carrying the Go loop variables.
-/
namespace CM.Model
open CM.Gen

/-- parse.go `isBlankLine`. -/
def isBlankLine (line : Bytes) : Bool := line.all isSpaceTabOrLineEnding

/-- parse.go `indentLength`. -/
def indentLength : Bytes → Nat
  | [] => 0
  | b :: rest => if b != SP && b != TAB then 0 else 1 + indentLength rest

/-- parse.go `hasTabOrSpacePrefixOrEOL`. -/
def hasTabOrSpacePrefixOrEOL : Bytes → Bool
  | [] => true
  | b :: _ => isSpaceTabOrLineEnding b

/-- parse.go `hasBytePrefix`. -/
def hasBytePrefix : Bytes → Bytes → Bool
  | _, [] => true
  | [], _ :: _ => false
  | b :: bs, p :: ps => b == p && hasBytePrefix bs ps

/-- parse.go `hasByteSuffix`. -/
def hasByteSuffix (b suffix : Bytes) : Bool := hasBytePrefix b.reverse suffix.reverse

/-- parse.go `contains`: note the Go loop bound `i < len(b)-len(search)` never tests the last position. -/
def containsAux (search : Bytes) : Bytes → Nat → Bool
  | _, 0 => false
  | [], _ + 1 => false
  | b :: bs, k + 1 => hasBytePrefix (b :: bs) search || containsAux search bs k

def contains (b search : Bytes) : Bool := containsAux search b (b.length - search.length)

/-- parse.go `lineCount`. -/
def lineCount : Bytes → Nat
  | [] => 0
  | b :: rest =>
    if b == LF then 1 + lineCount rest
    else if b == CR then
      (match rest with
       | c :: _ => if c == LF then 0 else 1
       | [] => 1) + lineCount rest
    else lineCount rest

/-- parse.go `columnWidth`: returns the end column; the Go function returns `end - start`. -/
def columnEnd (col : Nat) : Bytes → Nat
  | [] => col
  | b :: rest =>
    if b == TAB then columnEnd ((col + tabStopSize) / tabStopSize * tabStopSize) rest
    else if b &&& 0x80 == 0 then columnEnd (col + 1) rest
    else columnEnd col rest

def columnWidth (start : Nat) (b : Bytes) : Nat := columnEnd start b - start

/-- parse.go `isEndEscaped`: s ends with an odd number of backslashes. -/
def trailingBackslashes : Bytes → Nat
  | [] => 0
  | b :: rest => if b == 0x5C then 1 + trailingBackslashes rest else 0

def isEndEscaped (s : Bytes) : Bool := trailingBackslashes s.reverse % 2 == 1

/-! ### parseThematicBreak -/

/-- Loop state `(n, want, end)`; `none` = `return -1` inside the loop. -/
def thematicLoop : Bytes → Nat → Nat → UInt8 → Nat → Option (Nat × Nat)
  | [], _, n, _, e => some (n, e)
  | b :: rest, i, n, want, e =>
    if b == 0x2D || b == 0x5F || b == 0x2A then
      if n == 0 then thematicLoop rest (i + 1) 1 b (i + 1)
      else if b != want then none
      else thematicLoop rest (i + 1) (n + 1) want (i + 1)
    else if b == SP || b == TAB || b == CR || b == LF then thematicLoop rest (i + 1) n want e
    else none

/-- blocks.go `parseThematicBreak`: end of the break characters, or −1. -/
def parseThematicBreak (line : Bytes) : Int :=
  match thematicLoop line 0 0 0 0 with
  | none => -1
  | some (n, e) => if n < 3 then -1 else e

/-! ### parseATXHeading -/

structure ATXHeading where
  level : Nat
  start : Nat
  stop : Nat
deriving Repr, BEq, DecidableEq

def countPrefix (c : UInt8) : Bytes → Nat
  | [] => 0
  | b :: rest => if b == c then 1 + countPrefix c rest else 0

def skipSpTab : Bytes → Nat
  | [] => 0
  | b :: rest => if b == SP || b == TAB then 1 + skipSpTab rest else 0

/-- First backward scan (`scanBack`): over `line[start:]` reversed.
    Returns `(end, hitHash)`; `e` is the current `h.content.End`. -/
def atxScanBack (line : Bytes) (start : Nat) : Nat → Nat × Bool
  | 0 => (0, false)
  | e + 1 =>
    if e + 1 ≤ start then (e + 1, false) else
    match line[e]? with
    | none => (e + 1, false)
    | some c =>
      if c == CR || c == LF then atxScanBack line start e
      else if c == SP || c == TAB then
        if isEndEscaped (line.take e) then (e + 1, false) else atxScanBack line start e
      else if c == 0x23 then (e + 1, true)
      else (e + 1, false)

/-- Second scan (`scanTrailingHashes`) from index `i` downwards.
    Result: `none` = `return h` unchanged (a non-space precedes the hashes);
    `some e` = new `h.content.End`. `i` is offset by one (`i+1` is passed) so that it is a Nat. -/
def atxScanHashes (line : Bytes) (start : Nat) : Nat → Option Nat
  | 0 => some start  -- i < 0 ≤ start
  | i + 1 =>
    if i < start then some start else
    match line[i]? with
    | none => none
    | some c =>
      if c == 0x23 then atxScanHashes line start i
      else if c == SP || c == TAB then some (i + 1)
      else none

/-- Final trim of trailing spaces/tabs (unless escaped). -/
def atxTrim (line : Bytes) (start : Nat) : Nat → Nat
  | 0 => 0
  | e + 1 =>
    if e + 1 ≤ start then e + 1 else
    match line[e]? with
    | none => e + 1
    | some b =>
      if !(b == SP || b == TAB) || isEndEscaped (line.take e) then e + 1
      else atxTrim line start e

/-- blocks.go `parseATXHeading`; level 0 = not a heading. -/
def parseATXHeading (line : Bytes) : ATXHeading :=
  let level := countPrefix 0x23 line
  if level == 0 || level > 6 then ⟨0, 0, 0⟩ else
  match line[level]? with
  | none => ⟨level, level, level⟩
  | some c =>
    if c == LF || c == CR then ⟨level, level, level⟩
    else if !(c == SP || c == TAB) then ⟨0, 0, 0⟩
    else
      let start := level + 1 + skipSpTab (line.drop (level + 1))
      let (e, hitHash) := atxScanBack line start line.length
      if !hitHash then ⟨level, start, e⟩
      else match atxScanHashes line start e with
        | none => ⟨level, start, e⟩
        | some e' => ⟨level, start, atxTrim line start e'⟩

/-! ### parseSetextHeadingUnderline -/

def setextRest (c : UInt8) : Bytes → Bool
  | [] => true
  | b :: rest => if b != c then isBlankLine (b :: rest) else setextRest c rest

/-- blocks.go `parseSetextHeadingUnderline`: 1, 2, or 0. -/
def parseSetextHeadingUnderline : Bytes → Nat
  | [] => 0
  | c :: rest =>
    if c == 0x3D then (if setextRest c rest then 1 else 0)
    else if c == 0x2D then (if setextRest c rest then 2 else 0)
    else 0

/-! ### parseCodeFence -/

structure CodeFence where
  char : UInt8
  n : Nat
  infoStart : Int
  infoEnd : Int
deriving Repr, BEq, DecidableEq

def noFence : CodeFence := ⟨0, 0, -1, -1⟩

/-- Index (from `i`) of the first byte that is not space/tab/line ending. -/
def firstNonSpace : Bytes → Nat → Option Nat
  | [], _ => none
  | b :: rest, i => if !isSpaceTabOrLineEnding b then some i else firstNonSpace rest (i + 1)

/-- Trailing-whitespace trim: largest `e ≥ start` with `line[e-1]` non-space, scanning down from `e`. -/
def trimEnd (line : Bytes) (start : Nat) : Nat → Nat
  | 0 => 0
  | e + 1 =>
    if e + 1 ≤ start then e + 1 else
    match line[e]? with
    | none => e + 1
    | some c => if !isSpaceTabOrLineEnding c then e + 1 else trimEnd line start e

/-- blocks.go `parseCodeFence`; `n = 0` = no fence. -/
def parseCodeFence (line : Bytes) : CodeFence :=
  match line with
  | [] => noFence
  | c :: _ =>
    if line.length < minConsecutive || (c != 0x60 && c != 0x7E) then noFence else
    let n := countPrefix c line
    if n < minConsecutive then noFence else
    match firstNonSpace (line.drop n) n with
    | none => ⟨c, n, -1, -1⟩
    | some s =>
      let e := trimEnd line s line.length
      if c == 0x60 && ((line.drop s).take (e - s)).any (· == 0x60) then noFence
      else ⟨c, n, s, e⟩

/-! ### parseListMarker -/

structure ListMarker where
  delim : UInt8
  n : Nat
  stop : Int   -- `end`; −1 = no marker
deriving Repr, BEq, DecidableEq

def noMarker : ListMarker := ⟨0, 0, -1⟩

/-- The digit loop: `i` is the index of `rest`'s head, `n` the number so far. -/
def listMarkerLoop : Bytes → Nat → Nat → ListMarker
  | [], _, _ => noMarker
  | c :: rest, i, n =>
    if i ≥ maxDigits + 1 then noMarker
    else if isASCIIDigit c then listMarkerLoop rest (i + 1) (n * 10 + (c - 0x30).toNat)
    else if c == 0x2E || c == 0x29 then
      if !hasTabOrSpacePrefixOrEOL rest then noMarker else ⟨c, n, i + 1⟩
    else noMarker

/-- blocks.go `parseListMarker`. -/
def parseListMarker : Bytes → ListMarker
  | [] => noMarker
  | c :: rest =>
    if c == 0x2D || c == 0x2B || c == 0x2A then
      if !hasTabOrSpacePrefixOrEOL rest then noMarker else ⟨c, 0, 1⟩
    else if isASCIIDigit c then listMarkerLoop rest 1 (c - 0x30).toNat
    else noMarker

end CM.Model
