import CM.Model.Recognize
import CM.Gen.Tags
/-
Model of html_renderer.go `filterRaw` (the GFM tag filter), `maybeLower`,
parse_html.go `htmlTagNameEnd`, `hasHTMLDeclarationPrefix`, and `FilterTagGFM`.
-/
namespace CM.Model
open CM.Gen

/-- parse_html.go `htmlTagNameEnd`. -/
def htmlTagNameEnd : Bytes → Nat
  | [] => 0
  | b :: rest => if !isASCIILetter b then 0 else
    1 + (rest.takeWhile fun c => isASCIILetter c || isASCIIDigit c || c == 0x2D).length

/-- html_renderer.go `maybeLower`. -/
def lower (x : Bytes) : Bytes := x.map fun b => if 0x41 ≤ b && b ≤ 0x5A then b - 0x41 + 0x61 else b

/-- parse_html.go `hasHTMLDeclarationPrefix`. -/
def hasHTMLDeclarationPrefix (b : Bytes) : Bool :=
  hasBytePrefix b [0x3C, 0x21] && b.length ≥ 3 && isASCIILetter (b.getD 2 0)

/-- The loop of `filterRaw`: every `<` is examined on its own — the bytes after it that form a tag name
    (`htmlTagNameEnd`; empty when no letter follows) are lower-cased and shown to the predicate, and the `<` is
    replaced by `&lt;` when the predicate rejects. Nothing else is ever skipped or changed, and the function
    keeps no state between positions (nor, therefore, between raw HTML nodes). The `copyStart` bookkeeping of
    the Go loop becomes "emit this byte, or `&lt;` in its place". -/
def filterLoop (filter : Bytes → Bool) : Bytes → Bytes
  | [] => []
  | c :: rest =>
    if c == 0x3C then
      (if filter (lower (rest.take (htmlTagNameEnd rest))) then [0x26, 0x6C, 0x74, 0x3B] else [c])
        ++ filterLoop filter rest
    else c :: filterLoop filter rest

/-- `(*renderState).filterRaw` on one raw HTML node. -/
def filterRaw (filter : Bytes → Bool) (raw : Bytes) : Bytes := filterLoop filter raw

/-- `FilterTagGFM` (atom.Lookup is exact-match on the lower-cased name). -/
def filterTagGFM (tag : Bytes) : Bool := filterTagGFMNames.contains tag

end CM.Model
