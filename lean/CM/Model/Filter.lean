import CM.Model.Recognize
import CM.Gen.Tags
/-
Model of html_renderer.go `filterRaw` (the GFM tag filter state machine), `maybeLower`,
parse_html.go `htmlTagNameEnd`, `hasHTMLDeclarationPrefix`, and `FilterTagGFM`.
-/
namespace CM.Model
open CM.Gen

/-- parse_html.go `htmlTagNameEnd`. -/
def htmlTagNameEnd : Bytes → Nat
  | [] => 0
  | b :: rest => if !isASCIILetter b then 0 else
    1 + (rest.takeWhile fun c => isASCIILetter c || isASCIIDigit c || c == 0x2D).length

/-- html_renderer.go `maybeLower`. -/
def lower (x : Bytes) : Bytes := x.map fun b => if 0x41 ≤ b && b ≤ 0x5A then b - 0x41 + 0x61 else b

/-- parse_html.go `hasHTMLDeclarationPrefix`. -/
def hasHTMLDeclarationPrefix (b : Bytes) : Bool :=
  hasBytePrefix b [0x3C, 0x21] && b.length ≥ 3 && isASCIILetter (b.getD 2 0)

inductive FState where
  | copy | comment | pi | decl | cdata
deriving Repr, BEq, DecidableEq

/-- Index of the first `>` in `b`, if any. -/
def indexGT : Bytes → Nat → Option Nat
  | [], _ => none
  | c :: rest, i => if c == 0x3E then some i else indexGT rest (i + 1)

/-- The loop of `filterRaw`. `raw` is what is left from index `i`; `skip` bytes of it were already jumped
    over by an index jump (`i += n`); output is produced per byte position so that `copyStart` bookkeeping
    becomes "emit this byte or `&lt;` in its place". The filter predicate sees lower-cased tag names. -/
def filterLoop (filter : Bytes → Bool) : Bytes → FState → Nat → Bytes
  | [], _, _ => []
  | c :: rest, st, skip + 1 => c :: filterLoop filter rest st skip
  | c :: rest, .copy, 0 =>
    if c == 0x3C then
      let here := c :: rest
      if hasBytePrefix here cdataPrefix then c :: filterLoop filter rest .cdata (cdataPrefix.length - 1)
      else if hasBytePrefix here htmlCommentPrefix then c :: filterLoop filter rest .comment (htmlCommentPrefix.length - 1)
      else if hasHTMLDeclarationPrefix here then c :: filterLoop filter rest .decl 2
      else
        -- tagEnd: just after the next '>' or the end of the raw text
        let tagLen := match indexGT rest 0 with
          | some j => j + 1
          | none => rest.length
        let name := lower (rest.take (htmlTagNameEnd (rest.take tagLen)))
        (if filter name then [0x26, 0x6C, 0x74, 0x3B] else [c]) ++ filterLoop filter rest .copy tagLen
    else c :: filterLoop filter rest .copy 0
  | c :: rest, .comment, 0 =>
    if hasBytePrefix (c :: rest) htmlCommentSuffix then c :: filterLoop filter rest .copy (htmlCommentSuffix.length - 1)
    else c :: filterLoop filter rest .comment 0
  | c :: rest, .pi, 0 =>
    if hasBytePrefix (c :: rest) processingInstructionSuffix then c :: filterLoop filter rest .copy (processingInstructionSuffix.length - 1)
    else c :: filterLoop filter rest .pi 0
  | c :: rest, .decl, 0 =>
    if c == 0x3E then c :: filterLoop filter rest .copy 0 else c :: filterLoop filter rest .decl 0
  | c :: rest, .cdata, 0 =>
    if hasBytePrefix (c :: rest) cdataSuffix then c :: filterLoop filter rest .copy (cdataSuffix.length - 1)
    else c :: filterLoop filter rest .cdata 0

/-- `(*renderState).filterRaw` on one raw HTML node (the state always starts in `copy`). -/
def filterRaw (filter : Bytes → Bool) (raw : Bytes) : Bytes := filterLoop filter raw .copy 0

/-- `FilterTagGFM` (atom.Lookup is exact-match on the lower-cased name). -/
def filterTagGFM (tag : Bytes) : Bool := filterTagGFMNames.contains tag

end CM.Model
