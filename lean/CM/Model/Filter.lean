import CM.Model.Recognize
import CM.Gen.Tags
/-
Model of html_renderer.go `filterRaw` (the GFM tag filter state machine), `maybeLower`,
parse_html.go `htmlTagNameEnd`, `hasHTMLDeclarationPrefix`, and `FilterTagGFM`.
-/
namespace CM.Model
open CM.Gen

/-- parse_html.go `htmlTagNameEnd`. -/
def htmlTagNameEnd : Bytes → Nat
  | [] => 0
  | b :: rest => if !isASCIILetter b then 0 else
    1 + (rest.takeWhile fun c => isASCIILetter c || isASCIIDigit c || c == 0x2D).length

/-- html_renderer.go `maybeLower`. -/
def lower (x : Bytes) : Bytes := x.map fun b => if 0x41 ≤ b && b ≤ 0x5A then b - 0x41 + 0x61 else b

/-- parse_html.go `hasHTMLDeclarationPrefix`. -/
def hasHTMLDeclarationPrefix (b : Bytes) : Bool :=
  hasBytePrefix b [0x3C, 0x21] && b.length ≥ 3 && isASCIILetter (b.getD 2 0)

inductive FState where
  | copy | comment | pi | decl
deriving Repr, BEq, DecidableEq

inductive TagSt where
  | tagName | beforeAttrName | attrName | afterAttrName | beforeAttrValue | dq | sq | uq
deriving Repr, BEq, DecidableEq

def isTagSpace (c : UInt8) : Bool := c == 0x20 || c == 0x09 || c == 0x0A || c == 0x0C

/-- html_renderer.go `htmlTagEnd`: index just past the `>` that ends the tag (quoted attribute values may
    contain `>`), or the length if the tag is not closed. `i` = bytes consumed so far. -/
def htmlTagEndAux : Bytes → TagSt → Nat → Nat
  | [], _, i => i
  | c :: rest, st, i =>
    match st with
    | .tagName =>
      if c == 0x3E then i + 1
      else if isTagSpace c || c == 0x2F then htmlTagEndAux rest .beforeAttrName (i + 1)
      else htmlTagEndAux rest .tagName (i + 1)
    | .beforeAttrName =>
      if c == 0x3E then i + 1
      else if isTagSpace c || c == 0x2F then htmlTagEndAux rest .beforeAttrName (i + 1)
      else htmlTagEndAux rest .attrName (i + 1)
    | .attrName =>
      if c == 0x3E then i + 1
      else if isTagSpace c then htmlTagEndAux rest .afterAttrName (i + 1)
      else if c == 0x2F then htmlTagEndAux rest .beforeAttrName (i + 1)
      else if c == 0x3D then htmlTagEndAux rest .beforeAttrValue (i + 1)
      else htmlTagEndAux rest .attrName (i + 1)
    | .afterAttrName =>
      if c == 0x3E then i + 1
      else if isTagSpace c then htmlTagEndAux rest .afterAttrName (i + 1)
      else if c == 0x2F then htmlTagEndAux rest .beforeAttrName (i + 1)
      else if c == 0x3D then htmlTagEndAux rest .beforeAttrValue (i + 1)
      else htmlTagEndAux rest .attrName (i + 1)
    | .beforeAttrValue =>
      if c == 0x3E then i + 1
      else if isTagSpace c then htmlTagEndAux rest .beforeAttrValue (i + 1)
      else if c == 0x22 then htmlTagEndAux rest .dq (i + 1)
      else if c == 0x27 then htmlTagEndAux rest .sq (i + 1)
      else htmlTagEndAux rest .uq (i + 1)
    | .dq => if c == 0x22 then htmlTagEndAux rest .beforeAttrName (i + 1) else htmlTagEndAux rest .dq (i + 1)
    | .sq => if c == 0x27 then htmlTagEndAux rest .beforeAttrName (i + 1) else htmlTagEndAux rest .sq (i + 1)
    | .uq =>
      if c == 0x3E then i + 1
      else if isTagSpace c then htmlTagEndAux rest .beforeAttrName (i + 1)
      else htmlTagEndAux rest .uq (i + 1)

def htmlTagEnd (b : Bytes) : Nat := htmlTagEndAux b .tagName 0

/-- The loop of `filterRaw`. `raw` is what is left from index `i`; `skip` bytes of it are jumped over by an
    index jump (`i += n`, copied verbatim); output is produced per byte position, so the `copyStart`
    bookkeeping becomes "emit this byte, or `&lt;` in its place". The predicate sees lower-cased names. -/
def filterLoop (filter : Bytes → Bool) : Bytes → FState → Nat → Bytes
  | [], _, _ => []
  | c :: rest, st, skip + 1 => c :: filterLoop filter rest st skip
  | c :: rest, .copy, 0 =>
    if c == 0x3C then
      let here := c :: rest
      if hasBytePrefix here htmlCommentPrefix then
        let after := rest.drop (htmlCommentPrefix.length - 1)
        if hasBytePrefix after [0x3E] then c :: filterLoop filter rest .copy htmlCommentPrefix.length          -- `<!-->`
        else if hasBytePrefix after [0x2D, 0x3E] then c :: filterLoop filter rest .copy (htmlCommentPrefix.length + 1)  -- `<!--->`
        else c :: filterLoop filter rest .comment (htmlCommentPrefix.length - 1)
      else if hasBytePrefix here [0x3C, 0x21] || hasBytePrefix here processingInstructionPrefix
              || (hasBytePrefix here [0x3C, 0x2F] && !(match rest.drop 1 with | d :: _ => isASCIILetter d | [] => false)) then
        c :: filterLoop filter rest .decl 1
      else
        -- tagEnd: where an HTML parser ends the tag, or the end of the raw text
        -- (for an end tag the scan starts after the slash, at the name)
        let tagLen := if rest.head? == some 0x2F then 1 + htmlTagEnd (rest.drop 1) else htmlTagEnd rest
        let nameLen := htmlTagNameEnd (rest.take tagLen)
        let escaped := filter (lower (rest.take nameLen))
        (if escaped then [0x26, 0x6C, 0x74, 0x3B] else [c])
          ++ filterLoop filter rest .copy (if escaped || (nameLen == 0 && !(rest.head? == some 0x2F)) then 0 else tagLen)
    else c :: filterLoop filter rest .copy 0
  | c :: rest, .comment, 0 =>
    if hasBytePrefix (c :: rest) htmlCommentSuffix then c :: filterLoop filter rest .copy (htmlCommentSuffix.length - 1)
    else if hasBytePrefix (c :: rest) [0x2D, 0x2D, 0x21, 0x3E] then c :: filterLoop filter rest .copy 3
    else c :: filterLoop filter rest .comment 0
  | c :: rest, .pi, 0 =>
    if hasBytePrefix (c :: rest) processingInstructionSuffix then c :: filterLoop filter rest .copy (processingInstructionSuffix.length - 1)
    else c :: filterLoop filter rest .pi 0
  | c :: rest, .decl, 0 =>
    if c == 0x3E then c :: filterLoop filter rest .copy 0 else c :: filterLoop filter rest .decl 0

/-- `(*renderState).filterRaw` on one raw HTML node (the state always starts in `copy`). -/
def filterRaw (filter : Bytes → Bool) (raw : Bytes) : Bytes := filterLoop filter raw .copy 0

/-- `FilterTagGFM` (atom.Lookup is exact-match on the lower-cased name). -/
def filterTagGFM (tag : Bytes) : Bool := filterTagGFMNames.contains tag

end CM.Model
