import CM.Model.Reader
import CM.Model.URI
/-
Model of the reader-based scanners of inlines.go used by both phases: `skipLinkSpace`,
`skipSpacesAndTabs`, `readEOL`, `parseLinkLabel`, `parseLinkDestination`, `parseLinkTitle`,
`collectTextNodes`, `transformLinkReferenceSpan`, `parseCharacterEscape`, `isEntity`.
Loops over the reader carry fuel (`rdFuel`); every iteration advances the reader.
-/
namespace CM.Model
open CM CM.Gen

/-- A Go `Span` that may be `NullSpan()`. -/
structure SpanI where
  start : Int
  stop : Int
deriving Repr, BEq, Inhabited

def nullSpan : SpanI := ⟨-1, -1⟩
def SpanI.isValid (s : SpanI) : Bool := s.start ≥ 0 && s.stop ≥ 0 && s.start ≤ s.stop
def SpanI.len (s : SpanI) : Nat := if s.isValid then (s.stop - s.start).toNat else 0

/-- `isEntity` needs `html.UnescapeString` (external): "does not start with & or does not end with ;". -/
def isEntity (ext : Ext) (x : Bytes) : Bool :=
  let s := ext.unescape x
  !(s.head? == some 0x26) || !(s.getLast? == some 0x3B)

/-- The `for i, c := range rest` loops of `parseCharacterEscape` for numeric references. -/
def numericRefLoop (isDigit : UInt8 → Bool) : Bytes → Nat → Int
  | [], _ => -1
  | c :: rest, i =>
    if c == 0x3B then (if i == 0 then -1 else i + 1)
    else if !isDigit c then -1
    else numericRefLoop isDigit rest (i + 1)

/-- Entity-name loop: `i` counts bytes after `&`. -/
def entityLoop (ext : Ext) (text : Bytes) : Bytes → Nat → Int
  | [], _ => -1
  | c :: rest, i =>
    if c == 0x3B then (if i == 0 || !isEntity ext (text.take (i + 2)) then -1 else i + 2)
    else if !isASCIILetter c && !isASCIIDigit c then -1
    else entityLoop ext text rest (i + 1)

/-- inlines.go `parseCharacterEscape`: length of the character reference at the head, or −1. -/
def parseCharacterEscape (ext : Ext) (text : Bytes) : Int :=
  if text.length < 3 || text.head? != some 0x26 then -1 else
  if text.getD 1 0 != 0x23 then entityLoop ext text (text.drop 1) 0
  else if text.getD 2 0 == 0x78 || text.getD 2 0 == 0x58 then
    match numericRefLoop isHex ((text.drop hexDigitStart).take (hexDigitLimit + 1)) 0 with
    | Int.ofNat n => hexDigitStart + n
    | _ => -1
  else
    match numericRefLoop isASCIIDigit ((text.drop decDigitStart).take (decDigitLimit + 1)) 0 with
    | Int.ofNat n => decDigitStart + n
    | _ => -1

/-- `skipLinkSpace`: spaces, tabs and line endings; false if the reader hits the end. -/
def skipLinkSpace (src : Bytes) : Nat → Rd → Bool × Rd
  | 0, r => (false, r)
  | fuel + 1, r =>
    let (c, r) := r.current src
    if c == 0 then (false, r)
    else if isSpaceTabOrLineEnding c then
      let (ok, r) := r.next src
      if !ok then (false, r) else skipLinkSpace src fuel r
    else (true, r)

/-- `skipSpacesAndTabs`. -/
def skipSpacesAndTabs (src : Bytes) : Nat → Rd → Bool × Rd
  | 0, r => (false, r)
  | fuel + 1, r =>
    let (c, r) := r.current src
    if c == SP || c == TAB then
      let (ok, r) := r.next src
      if !ok then (false, r) else skipSpacesAndTabs src fuel r
    else (c != 0, r)

/-- `readEOL`: position just past one line ending (or the reader's position at the end), or −1. -/
def readEOL (src : Bytes) (fuel : Nat) (r : Rd) : Int × Rd :=
  let (ok, r) := skipSpacesAndTabs src fuel r
  if !ok then (r.pos, r) else
  let (c, r) := r.current src
  if c == CR then
    let (ok, r) := r.next src
    if !ok then (r.prev + 1, r) else
    let (c2, r) := r.current src
    if c2 == LF then let (_, r) := r.next src; (r.prev + 1, r) else (r.prev + 1, r)
  else if c == LF then
    let (_, r) := r.next src
    (r.prev + 1, r)
  else (-1, r)

structure LinkLabel where
  span : SpanI
  inner : SpanI
deriving Repr, Inhabited

def noLabel : LinkLabel := ⟨nullSpan, nullSpan⟩

/-- The "skip initial spaces" loop of `parseLinkLabel`. -/
def labelSkip (src : Bytes) : Nat → Rd → Nat → Option (Rd × Nat)
  | 0, _, _ => none
  | fuel + 1, r, chars =>
    let (ok, r) := r.next src
    if !ok then none else
    let chars := chars + 1
    let (c, r) := r.current src
    if chars ≥ maxChars || c == 0x5B || c == 0x5D then none
    else if !isSpaceTabOrLineEnding c then some (r, chars)
    else labelSkip src fuel r chars

/-- The "consume rest of the label text" loop; `innerEnd` is `result.inner.End`. -/
def labelBody (src : Bytes) : Nat → Rd → Nat → Int → Option (Rd × Int)
  | 0, _, _, _ => none
  | fuel + 1, r, chars, innerEnd =>
    let (c, r) := r.current src
    if !(chars < maxChars && c != 0x5B && c != 0x5D) then some (r, innerEnd) else
    if c == 0x5C then
      let innerEnd : Int := r.pos + 1
      let chars := chars + 1
      if chars ≥ maxChars then none else
      let (ok, r) := r.next src
      if !ok then none else
      let (c2, r) := r.current src
      let innerEnd : Int := if !isSpaceTabOrLineEnding c2 then r.pos + 1 else innerEnd
      let (ok, r) := r.next src
      if !ok then none else labelBody src fuel r (chars + 1) innerEnd
    else
      let innerEnd : Int := if !isSpaceTabOrLineEnding c then r.pos + 1 else innerEnd
      let (ok, r) := r.next src
      if !ok then none else labelBody src fuel r (chars + 1) innerEnd

/-- inlines.go `parseLinkLabel`. -/
def parseLinkLabel (src : Bytes) (fuel : Nat) (r : Rd) : LinkLabel × Rd :=
  let (c, r) := r.current src
  if c != 0x5B then (noLabel, r) else
  let start := r.pos
  match labelSkip src fuel r 0 with
  | none => (noLabel, r)      -- the reader state after a failed parse is not used by the callers
  | some (r, chars) =>
    let innerStart := r.pos
    match labelBody src fuel r chars (-1) with
    | none => (noLabel, r)
    | some (r, innerEnd) =>
      let (c, r) := r.current src
      if c != 0x5D then (noLabel, r) else
      let stop := r.pos + 1
      let (_, r) := r.next src
      (⟨⟨start, stop⟩, ⟨innerStart, innerEnd⟩⟩, r)

structure LinkDest where
  span : SpanI
  text : SpanI
deriving Repr, Inhabited

def noDest : LinkDest := ⟨nullSpan, nullSpan⟩

/-- `<…>` form: the loop `for r.next()`. -/
def destAngle (src : Bytes) (start : Nat) : Nat → Rd → LinkDest × Rd
  | 0, r => (noDest, r)
  | fuel + 1, r =>
    let (ok, r) := r.next src
    if !ok then (noDest, r) else
    let (c, r) := r.current src
    if c == CR || c == LF then (noDest, r)
    else if c == 0x5C then
      let (ok, r) := r.next src
      if !ok then (noDest, r) else
      let (c2, r) := r.current src
      if c2 == LF || c2 == CR then (noDest, r) else destAngle src start fuel r
    else if c == 0x3E then
      let (_, r) := r.next src
      (⟨⟨start, r.prev + 1⟩, ⟨start + 1, r.prev⟩⟩, r)
    else destAngle src start fuel r

/-- Bare form: balanced parentheses, no spaces or controls. -/
def destBare (src : Bytes) : Nat → Rd → Int → Rd
  | 0, r, _ => r
  | fuel + 1, r, parens =>
    let (c, r) := r.current src
    if isASCIIControl c || c == SP then r
    else if c == 0x5C then
      let (ok, r) := r.next src
      if !ok then r else
      let (c2, r) := r.current src
      if isASCIIControl c2 || c2 == SP then r else
      let (ok, r) := r.next src
      if !ok then r else destBare src fuel r parens
    else if c == 0x28 then
      let (ok, r) := r.next src
      if !ok then r else destBare src fuel r (parens + 1)
    else if c == 0x29 then
      if parens - 1 < 0 then r else
      let (ok, r) := r.next src
      if !ok then r else destBare src fuel r (parens - 1)
    else
      let (ok, r) := r.next src
      if !ok then r else destBare src fuel r parens

/-- inlines.go `parseLinkDestination`. -/
def parseLinkDestination (src : Bytes) (fuel : Nat) (r : Rd) : LinkDest × Rd :=
  let (c, r) := r.current src
  if c == 0x3C then destAngle src r.pos fuel r
  else if !isASCIIControl c && c != SP && c != 0x29 then
    let start := r.pos
    let r := destBare src fuel r 0
    (⟨⟨start, r.pos⟩, ⟨start, r.pos⟩⟩, r)
  else (noDest, r)

structure LinkTitle where
  span : SpanI
  text : SpanI
deriving Repr, Inhabited

def noTitle : LinkTitle := ⟨nullSpan, nullSpan⟩

def titleLoop (src : Bytes) (start : Nat) (term : UInt8) : Nat → Rd → LinkTitle × Rd
  | 0, r => (noTitle, r)
  | fuel + 1, r =>
    let (ok, r) := r.next src
    if !ok then (noTitle, r) else
    let (c, r) := r.current src
    if c == 0x5C then
      let (ok, r) := r.next src
      if !ok then (noTitle, r) else titleLoop src start term fuel r
    else if c == term then
      let (_, r) := r.next src
      (⟨⟨start, r.prev + 1⟩, ⟨start + 1, r.prev⟩⟩, r)
    else titleLoop src start term fuel r

/-- inlines.go `parseLinkTitle`. -/
def parseLinkTitle (src : Bytes) (fuel : Nat) (r : Rd) : LinkTitle × Rd :=
  let (c, r) := r.current src
  if c != 0x27 && c != 0x22 && c != 0x28 then (noTitle, r) else
  titleLoop src r.pos (if c == 0x28 then 0x29 else c) fuel r

/-! ### collectTextNodes -/

def mkInline (kind : Nat) (start stop : Int) (kids : List Tree := []) : Tree :=
  .node { isBlock := false, kind := kind, start := start, stop := stop } kids

/-- The skip loop `for r.next() && r.currentNode() == curr {}` over an Indent node. -/
def skipNode (src : Bytes) (curr : Tree) : Nat → Rd → Rd
  | 0, r => r
  | fuel + 1, r =>
    let (ok, r) := r.next src
    if !ok then r else
    let (n, r) := r.currentNode
    -- pointer equality: the same node object (identified by kind and span)
    if n.map (·.label) == some curr.label then skipNode src curr fuel r else r

/-- inlines.go `collectTextNodes`: returns the children appended to `parent`. -/
def collectTextNodes (ext : Ext) (src : Bytes) (stop : Nat) (textKind : Nat) (escapes : Bool) :
    Nat → Rd → Nat → List Tree → List Tree
  | 0, _, _, acc => acc
  | fuel + 1, r, plainStart, acc =>
    if !(r.pos < stop) then
      (if plainStart < stop then acc ++ [mkInline textKind plainStart stop] else acc)
    else
    let (curr, r) := r.currentNode
    match curr with
    | some cn =>
      if isIndent cn then
        let acc := if r.pos > plainStart then acc ++ [mkInline textKind plainStart (r.prev + 1)] else acc
        let acc := acc ++ [cn]
        let r := skipNode src cn fuel r
        collectTextNodes ext src stop textKind escapes fuel r r.pos acc
      else
        collectStep cn r plainStart acc fuel
    | none => collectStep (mkInline 0 (-1) (-1)) r plainStart acc fuel
where
  /-- the part of the loop body after the Indent check -/
  collectStep (cn : Tree) (r : Rd) (plainStart : Nat) (acc : List Tree) (fuel : Nat) : List Tree :=
    -- escapes
    let go (r : Rd) (plainStart : Nat) (acc : List Tree) : List Tree :=
      if r.pos ≥ stop then finish plainStart acc else
      let (ok, r) := r.next src
      if !ok then finish plainStart acc else
      if r.jumped then
        let acc := if r.prev ≥ (plainStart : Int) then acc ++ [mkInline textKind plainStart (r.prev + 1)] else acc
        collectTextNodes ext src stop textKind escapes fuel r r.pos acc
      else collectTextNodes ext src stop textKind escapes fuel r plainStart acc
    if escapes && isUnparsed cn then
      let (c, r) := r.current src
      if c == 0x5C then
        let (ok, r) := r.next src
        let (c2, r) := if ok then r.current src else (0, r)
        if ok && r.pos < stop && isASCIIPunctuation c2 then
          let acc := if r.prev > (plainStart : Int) then acc ++ [mkInline textKind plainStart r.prev] else acc
          go r r.pos acc
        else go r plainStart acc
      else if c == 0x26 then
        let (rest, r) := r.remainingNodeBytes src
        match parseCharacterEscape ext rest with
        | Int.ofNat e =>
          let acc := if r.pos > plainStart then acc ++ [mkInline textKind plainStart r.pos] else acc
          let acc := acc ++ [mkInline IK.charRef r.pos (r.pos + e)]
          let plainStart := r.pos + e
          let r := (List.range (e - 1)).foldl (fun r _ => (r.next src).2) r
          let (ok, r) := r.next src
          if !ok then finish plainStart acc
          else collectTextNodes ext src stop textKind escapes fuel r plainStart acc
        | _ => go r plainStart acc
      else go r plainStart acc
    else go r plainStart acc
  finish (plainStart : Nat) (acc : List Tree) : List Tree :=
    if plainStart < stop then acc ++ [mkInline textKind plainStart stop] else acc

/-- `transformLinkReferenceSpan` over a reader: collapse white space, trim spaces, fold. -/
def refTextLoop (src : Bytes) (stop : Nat) : Nat → Rd → Bool → Bytes → Bytes
  | 0, _, _, acc => acc
  | fuel + 1, r, inWs, acc =>
    if !(r.pos < stop) then acc else
    let (c, r) := r.current src
    if isSpaceTabOrLineEnding c then
      let acc := if inWs then acc else acc ++ [SP]
      let (ok, r) := r.next src
      if !ok then acc else refTextLoop src stop fuel r true acc
    else
      let acc := acc ++ [c]
      let (ok, r) := r.next src
      if !ok then acc else refTextLoop src stop fuel r false acc

def trimSp (b : Bytes) : Bytes := ((b.dropWhile (· == SP)).reverse.dropWhile (· == SP)).reverse

/-- `fold` = `cases.Fold().String` (external). -/
def transformLinkReferenceSpan (fold : Bytes → Bytes) (src : Bytes) (nodes : List Tree) (start stop : Nat) : Bytes :=
  fold (trimSp (refTextLoop src stop (rdFuel src nodes) (newReader nodes start) false []))

end CM.Model
