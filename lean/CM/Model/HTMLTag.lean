import CM.Model.LinkParse
import CM.Gen.Tags
/-
Model of parse_html.go: `parseHTMLTag` (inline raw HTML), `parseHTMLOpenTag`, `parseHTMLClosingTag`,
`parseHTMLTagName`, `parseHTMLAttribute`, and the seven `htmlBlockConditions`.
-/
namespace CM.Model
open CM CM.Gen

/-- `parseHTMLTagName`. -/
def tagNameLoop (src : Bytes) : Nat → Rd → Rd
  | 0, r => r
  | fuel + 1, r =>
    let (c, r) := r.current src
    if isASCIILetter c || isASCIIDigit c || c == 0x2D then
      let (ok, r) := r.next src
      if !ok then r else tagNameLoop src fuel r
    else r

def parseHTMLTagName (src : Bytes) (fuel : Nat) (r : Rd) : Bool × Rd :=
  let (c, r) := r.current src
  if !isASCIILetter c then (false, r) else
  let (ok, r) := r.next src
  if !ok then (true, r) else (true, tagNameLoop src fuel r)

def attrNameLoop (src : Bytes) : Nat → Rd → Bool × Rd
  | 0, r => (true, r)
  | fuel + 1, r =>
    let (c, r) := r.current src
    if isASCIILetter c || isASCIIDigit c || c == 0x5F || c == 0x2E || c == 0x3A || c == 0x2D then
      let (ok, r) := r.next src
      if !ok then (false, r) else attrNameLoop src fuel r
    else (true, r)

/-- Scan to the closing quote `q`; false if the reader ends first. -/
def quotedLoop (src : Bytes) (q : UInt8) : Nat → Rd → Bool × Rd
  | 0, r => (false, r)
  | fuel + 1, r =>
    let (c, r) := r.current src
    if c == q then let (_, r) := r.next src; (true, r) else
    let (ok, r) := r.next src
    if !ok then (false, r) else quotedLoop src q fuel r

def unquotedLoop (src : Bytes) : Nat → Rd → Rd
  | 0, r => r
  | fuel + 1, r =>
    let (ok, r) := r.next src
    if !ok then r else
    let (c, r) := r.current src
    if isUnquotedAttributeValueChar c then unquotedLoop src fuel r else r

/-- `parseHTMLAttribute`. -/
def parseHTMLAttribute (src : Bytes) (fuel : Nat) (r : Rd) : Bool × Rd :=
  let (c, r) := r.current src
  if !isASCIILetter c && c != 0x5F && c != 0x3A then (false, r) else
  let (ok, r) := r.next src
  if !ok then (true, r) else
  let (cont, r) := attrNameLoop src fuel r
  if !cont then (true, r) else
  -- value specification (the reader is restored if there is no `=`)
  let prevState := r
  let (ok, r) := skipLinkSpace src fuel r
  if !ok then (true, prevState) else
  let (c, r) := r.current src
  if c != 0x3D then (true, prevState) else
  let (ok, r) := r.next src
  if !ok then (false, r) else
  let (ok, r) := skipLinkSpace src fuel r
  if !ok then (false, r) else
  let (c, r) := r.current src
  if c == 0x27 || c == 0x22 then
    let (ok, r) := r.next src
    if !ok then (false, r) else quotedLoop src c fuel r
  else if isUnquotedAttributeValueChar c then (true, unquotedLoop src fuel r)
  else (false, r)

/-- The attribute loop of `parseHTMLOpenTag`; returns `end` or −1. -/
def openTagLoop (src : Bytes) : Nat → Rd → Int × Rd
  | 0, r => (-1, r)
  | fuel + 1, r =>
    let beforeSpace := r.pos
    let (ok, r) := skipLinkSpace src (fuel + 1) r
    if !ok then (-1, r) else
    let (c, r) := r.current src
    if c == 0x2F then
      let (ok, r) := r.next src
      if !ok || r.jumped then (-1, r) else
      let (c2, r) := r.current src
      if c2 != 0x3E then (-1, r) else
      let e := r.pos + 1
      let (_, r) := r.next src
      (e, r)
    else if c == 0x3E then
      let e := r.pos + 1
      let (_, r) := r.next src
      (e, r)
    else if r.pos == beforeSpace then (-1, r) else
      let (ok, r) := parseHTMLAttribute src (fuel + 1) r
      if !ok then (-1, r) else openTagLoop src fuel r

/-- `parseHTMLOpenTag` (sans the leading `<`). -/
def parseHTMLOpenTag (src : Bytes) (fuel : Nat) (r : Rd) : Int × Rd :=
  let (ok, r) := parseHTMLTagName src fuel r
  if !ok then (-1, r) else openTagLoop src fuel r

/-- `parseHTMLClosingTag`. -/
def parseHTMLClosingTag (src : Bytes) (fuel : Nat) (r : Rd) : Int × Rd :=
  let (c, r) := r.current src
  if c != 0x2F then (-1, r) else
  let (ok, r) := r.next src
  if !ok || r.jumped then (-1, r) else
  let (ok, r) := parseHTMLTagName src fuel r
  if !ok then (-1, r) else
  let (ok, r) := skipLinkSpace src fuel r
  if !ok then (-1, r) else
  let (c, r) := r.current src
  if c != 0x3E then (-1, r) else
  let e := r.pos + 1
  let (_, r) := r.next src
  (e, r)

/-- Processing instruction body: up to `?>`. -/
def piLoop (src : Bytes) (start : Nat) : Nat → Rd → SpanI × Rd
  | 0, r => (nullSpan, r)
  | fuel + 1, r =>
    let (c, r) := r.current src
    if c != 0x3F then
      let (ok, r) := r.next src
      if !ok then (nullSpan, r) else piLoop src start fuel r
    else
      let (ok, r) := r.next src
      if !ok || r.jumped then (nullSpan, r) else
      let (c2, r) := r.current src
      if c2 == 0x3E then
        let e := r.pos + 1
        let (_, r) := r.next src
        (⟨start, e⟩, r)
      else piLoop src start fuel r

def declLoop (src : Bytes) (start : Nat) : Nat → Rd → SpanI × Rd
  | 0, r => (nullSpan, r)
  | fuel + 1, r =>
    let (c, r) := r.current src
    if c == 0x3E then
      let e := r.pos + 1
      let (_, r) := r.next src
      (⟨start, e⟩, r)
    else
      let (ok, r) := r.next src
      if !ok then (nullSpan, r) else declLoop src start fuel r

def commentLoop (src : Bytes) (start : Nat) : Nat → Rd → SpanI × Rd
  | 0, r => (nullSpan, r)
  | fuel + 1, r =>
    let (rest, r) := r.remainingNodeBytes src
    if hasBytePrefix rest [0x2D, 0x2D, 0x3E] then
      let (_, r) := r.next src
      let (_, r) := r.next src
      let e := r.pos + 1
      let (_, r) := r.next src
      (⟨start, e⟩, r)
    else if hasBytePrefix rest [0x2D, 0x2D] then (nullSpan, r)
    else
      let (ok, r) := r.next src
      if !ok then (nullSpan, r) else commentLoop src start fuel r

def cdataLoop (src : Bytes) (start : Nat) : Nat → Rd → SpanI × Rd
  | 0, r => (nullSpan, r)
  | fuel + 1, r =>
    let (rest, r) := r.remainingNodeBytes src
    if hasBytePrefix rest cdataSuffix then
      let r := (List.range (cdataSuffix.length - 1)).foldl (fun r _ => (r.next src).2) r
      let e := r.pos + 1
      let (_, r) := r.next src
      (⟨start, e⟩, r)
    else
      let (ok, r) := r.next src
      if !ok then (nullSpan, r) else cdataLoop src start fuel r

/-- Advance `n` times, stopping (false) when the reader ends. -/
def advanceN (src : Bytes) : Nat → Rd → Bool × Rd
  | 0, r => (true, r)
  | n + 1, r => let (ok, r) := r.next src; if !ok then (false, r) else advanceN src n r

/-- parse_html.go `parseHTMLTag`. -/
def parseHTMLTag (src : Bytes) (fuel : Nat) (r : Rd) : SpanI × Rd :=
  let (c, r) := r.current src
  if c != 0x3C then (nullSpan, r) else
  let start := r.pos
  let (ok, r) := r.next src
  if !ok || r.jumped then (nullSpan, r) else
  let (c, r) := r.current src
  if c == 0x3F then
    let (ok, r) := r.next src
    if !ok then (nullSpan, r) else piLoop src start fuel r
  else if c == 0x21 then
    let (ok, r) := r.next src
    if !ok || r.jumped then (nullSpan, r) else
    let (rest, r) := r.remainingNodeBytes src
    if !rest.isEmpty && isASCIILetter (rest.headD 0) then
      let (_, r) := r.next src
      declLoop src start fuel r
    else if hasBytePrefix rest [0x2D, 0x2D] then
      let (_, r) := r.next src
      let (ok, r) := r.next src
      if !ok || r.jumped then (nullSpan, r) else
      let (ts, r) := r.remainingNodeBytes src
      if hasBytePrefix ts [0x3E] || hasBytePrefix ts [0x2D, 0x3E] then (nullSpan, r)
      else commentLoop src start fuel r
    else if hasBytePrefix rest (cdataPrefix.drop 2) then
      let (ok, r) := advanceN src (cdataPrefix.length - 2) r
      if !ok then (nullSpan, r) else cdataLoop src start fuel r
    else (nullSpan, r)
  else if c == 0x2F then
    let (e, r) := parseHTMLClosingTag src fuel r
    if e < 0 then (nullSpan, r) else (⟨start, e⟩, r)
  else
    let (e, r) := parseHTMLOpenTag src fuel r
    if e < 0 then (nullSpan, r) else (⟨start, e⟩, r)

/-! ### HTML block conditions -/

def hasCIPrefix (b : Bytes) (p : Bytes) : Bool :=
  b.length ≥ p.length && (b.take p.length).map toLowerASCII == p.map toLowerASCII

/-- `caseInsensitiveContains` (same loop bound as `contains`: the last position is never tested). -/
def ciContainsAux (search : Bytes) : Bytes → Nat → Bool
  | _, 0 => false
  | [], _ + 1 => false
  | b :: bs, k + 1 => hasCIPrefix (b :: bs) search || ciContainsAux search bs k

def ciContains (b search : Bytes) : Bool := ciContainsAux search b (b.length - search.length)

def startsTag (line : Bytes) (names : List Bytes) (allowSlashGT : Bool) : Bool :=
  names.any fun n =>
    hasCIPrefix line n &&
      (let rest := line.drop n.length
       rest.isEmpty || isSpaceTabOrLineEnding (rest.headD 0) || rest.headD 0 == 0x3E
         || (allowSlashGT && hasBytePrefix rest [0x2F, 0x3E]))

/-- Start condition 7: a complete open or closing tag followed only by white space. -/
def htmlStart7 (line : Bytes) : Bool :=
  if !hasBytePrefix line [0x3C] then false else
  let fake : Tree := mkInline IK.unparsed 1 line.length
  let r := newReader [fake] 1
  let fuel := rdFuel line [fake]
  let (e, r) := if hasBytePrefix line [0x3C, 0x2F] then parseHTMLClosingTag line fuel r else parseHTMLOpenTag line fuel r
  if e < 0 then false else !(skipLinkSpace line fuel r).1

def htmlBlockStart (i : Nat) (line : Bytes) : Bool :=
  match i with
  | 0 => startsTag line htmlBlockStarters1 false
  | 1 => hasBytePrefix line htmlCommentPrefix
  | 2 => hasBytePrefix line processingInstructionPrefix
  | 3 => hasHTMLDeclarationPrefixM line
  | 4 => hasBytePrefix line cdataPrefix
  | 5 =>
    if hasBytePrefix line [0x3C, 0x2F] then startsTag (line.drop 2) htmlBlockStarters6 true
    else if hasBytePrefix line [0x3C] then startsTag (line.drop 1) htmlBlockStarters6 true
    else false
  | 6 => htmlStart7 line
  | _ => false
where
  hasHTMLDeclarationPrefixM (b : Bytes) : Bool :=
    hasBytePrefix b [0x3C, 0x21] && b.length ≥ 3 && isASCIILetter (b.getD 2 0)

def htmlBlockEnd (i : Nat) (line : Bytes) : Bool :=
  match i with
  | 0 => htmlBlockEnders1.any (ciContains line)
  | 1 => contains line htmlCommentSuffix
  | 2 => contains line processingInstructionSuffix
  | 3 => contains line [0x3E]
  | 4 => contains line cdataSuffix
  | 5 => isBlankLine line
  | 6 => isBlankLine line
  | _ => false

def htmlBlockCanInterrupt (i : Nat) : Bool := i != 6

end CM.Model
