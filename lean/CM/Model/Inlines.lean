import CM.Model.HTMLTag
import CM.Model.Emphasis
/-
Model of the INLINE phase of inlines.go: `(*InlineParser).Rewrite` and everything it calls.

The Go code works on a mutable tree of `*Inline` with pointer identity (`parentMap`, the delimiter stack
holding node pointers, `wrap` / `remove` splicing children slices, spans of delimiter nodes shrunk in place).
The model keeps that structure: nodes live in an arena (`IState.nodes`), a pointer is an arena index,
`parentMap` is a partial map from indices to indices.  Children that are built once and never touched again
(raw HTML pieces, code span pieces, link destination / title / label text, the nodes taken over from the
block phase) are stored as finished `Tree`s in `INode.sub`.

One Lean function per Go function, same case order.  Go `for` loops whose termination is not structural are
`for _ in [0:fuel]` loops with the Go condition as first statement; running out of fuel raises `IErr.fuel`.
Go run-time panics (index / slice bounds, nil dereference, explicit `panic`) raise `IErr.panic`.
-/
namespace CM.Model.Inl
open CM CM.Gen CM.Model

/-- External functions of the inline phase. -/
structure IExt where
  /-- `html.UnescapeString` -/
  ext : Ext
  /-- `cases.Fold().String` -/
  fold : Bytes → Bytes
  /-- `unicode.Is(Zs, ·)`, `unicode.In(·, P*)` -/
  u : UExt

inductive IErr where
  | panic (msg : String)
  | fuel (site : String)
deriving Repr, BEq

/-- An `*Inline` in the arena. -/
structure INode where
  kind : Nat := 0
  start : Int := 0
  stop : Int := 0
  indent : Int := 0
  ref : Bytes := []
  /-- children that are arena nodes -/
  kids : Array Nat := #[]
  /-- children that are finished trees (a node has `kids` or `sub`; links have their contents in `kids` and
      destination / title / label behind them as further arena nodes) -/
  sub : List Tree := []
deriving Inhabited

/-- `delimiterStackElement`: the generated struct plus the node pointer. -/
structure DelimE where
  elem : DelimElem
  node : Nat

instance : Inhabited DelimE := ⟨{ elem := { typ := 0, flags := 0, n := 0 }, node := 0 }⟩

/-- What `parse` gets and never changes. -/
structure ICtx where
  x : IExt
  src : Bytes
  srcA : Array UInt8
  /-- `state.unparsed` = `container.inlineChildren` -/
  unparsed : Array Tree
  unparsedL : List Tree
  matchRef : Bytes → Bool
  /-- fuel for reader loops -/
  fl : Nat

/-- `inlineState` (the mutable part). -/
structure IState where
  nodes : Array INode
  /-- `parentMap` -/
  parentMap : Array (Option Nat)
  unparsedPos : Nat := 0
  stack : Array DelimE := #[]
  ignoreNextIndent : Bool := false

abbrev IM := StateT IState (Except IErr)

def goPanic {α : Type} (msg : String) : IM α := throw (IErr.panic msg)
def outOfFuel {α : Type} (site : String) : IM α := throw (IErr.fuel site)

/-- `Span.Len()` -/
def spanLenI (start stop : Int) : Nat :=
  if start ≥ 0 && stop ≥ 0 && start ≤ stop then (stop - start).toNat else 0

/-- `source[i]` -/
def srcAt (c : ICtx) (i : Int) : IM UInt8 :=
  if i < 0 || i ≥ (c.srcA.size : Int) then goPanic s!"index out of range [{i}] with length {c.srcA.size}"
  else pure (c.srcA[i.toNat]!)

def srcIs (c : ICtx) (i : Int) (b : UInt8) : IM Bool := do
  let x ← srcAt c i
  pure (x == b)

/-- `cond && source[i] == b` (short-circuit) -/
def guardAt (cond : Bool) (c : ICtx) (i : Int) (b : UInt8) : IM Bool :=
  if cond then srcIs c i b else pure false

/-- `source[lo:hi]` -/
def srcSlice (c : ICtx) (lo hi : Int) : IM Bytes :=
  if lo < 0 || hi < lo || hi > (c.srcA.size : Int) then goPanic s!"slice bounds out of range [{lo}:{hi}]"
  else pure (c.srcA.extract lo.toNat hi.toNat).toList

/-- `state.spanEnd()` -/
def spanEndOf (c : ICtx) (s : IState) : Int :=
  if s.unparsedPos ≥ c.unparsed.size then
    (match c.unparsed.back? with
     | none => 0
     | some t => t.label.stop)
  else (c.unparsed[s.unparsedPos]!).label.stop

def spanEnd (c : ICtx) : IM Int := do
  pure (spanEndOf c (← get))

/-- `state.isLastSpan()` -/
def isLastSpan (c : ICtx) : IM Bool := do
  pure ((← get).unparsedPos + 1 ≥ c.unparsed.size)

/-- `state.unparsed[state.unparsedPos:]` -/
def unparsedFrom (c : ICtx) : IM (List Tree) := do
  let s ← get
  if s.unparsedPos > c.unparsed.size then goPanic "slice bounds out of range (unparsed)"
  else pure (c.unparsedL.drop s.unparsedPos)

/-- `state.unparsed[state.unparsedPos]` -/
def unparsedAt (c : ICtx) : IM Tree := do
  let s ← get
  match c.unparsed[s.unparsedPos]? with
  | some t => pure t
  | none => goPanic "index out of range (unparsed)"

/-! ### the arena -/

/-- `&Inline{…}` -/
def alloc (n : INode) : IM Nat := do
  let s ← get
  set { s with nodes := s.nodes.push n, parentMap := s.parentMap.push none }
  pure s.nodes.size

def getNode (id : Nat) : IM INode := do
  pure ((← get).nodes[id]!)

def modifyNode (id : Nat) (f : INode → INode) : IM Unit :=
  modify fun s => { s with nodes := s.nodes.modify id f }

def nodeLen (id : Nat) : IM Nat := do
  let n ← getNode id
  pure (spanLenI n.start n.stop)

def setParent (id : Nat) (p : Option Nat) : IM Unit :=
  modify fun s => { s with parentMap := s.parentMap.set! id p }

/-- `state.addToRoot(node)`: the dummy root is arena node 0. -/
def addToRoot (id : Nat) : IM Unit := do
  if (← nodeLen id) == 0 then return ()
  setParent id (some 0)
  modifyNode 0 fun r => { r with kids := r.kids.push id }

/-- `state.addToRoot(&Inline{kind, span})` for a leaf: nothing is allocated for an empty span (the Go node is
    garbage at once). -/
def addLeaf (kind : Nat) (start stop : Int) : IM Unit := do
  if spanLenI start stop == 0 then return ()
  let id ← alloc { kind := kind, start := start, stop := stop }
  addToRoot id

def addText (start stop : Int) : IM Unit := addLeaf IK.text start stop

/-- `dummy.children = append(dummy.children, state.unparsed[state.unparsedPos])` -/
def importNode (t : Tree) : IM Unit := do
  let l := t.label
  let id ← alloc { kind := l.kind, start := l.start, stop := l.stop, indent := l.indent, ref := l.ref, sub := t.children }
  modifyNode 0 fun r => { r with kids := r.kids.push id }

/-- `state.wrap(kind, startNode, endNode)` -/
def wrap (kind : Nat) (startNode : Nat) (endNode : Option Nat) : IM Nat := do
  let s ← get
  let some parent := (s.parentMap[startNode]?).join
    | goPanic "wrap: nil pointer dereference (startNode has no parent)"
  let pn := s.nodes[parent]!
  let sn := s.nodes[startNode]!
  let stop : Int := match endNode with
    | some e => (s.nodes[e]!).start
    | none => pn.stop
  let newId ← alloc { kind := kind, start := sn.stop, stop := stop }
  setParent newId (some parent)
  let kids := pn.kids
  let mut si := 1
  for _ in [0:kids.size] do
    if !(si < kids.size) then break
    if kids[si - 1]! == startNode then break
    si := si + 1
  if kids.size == 0 || kids[si - 1]! != startNode then goPanic "could not find startNode"
  let mut ei := si
  for _ in [0:kids.size] do
    if !(ei < kids.size) then break
    if some kids[ei]! == endNode then break
    ei := ei + 1
  let newKids := kids.extract si ei
  modifyNode newId fun n => { n with kids := newKids }
  modifyNode parent fun n => { n with kids := (kids.extract 0 si).push newId ++ kids.extract ei kids.size }
  for k in newKids do
    setParent k (some newId)
  pure newId

/-- `state.remove(node)` -/
def removeNode (node : Nat) : IM Unit := do
  let s ← get
  let some parent := (s.parentMap[node]?).join
    | goPanic "remove: nil pointer dereference (node has no parent)"
  modifyNode parent fun n => { n with kids := n.kids.filter (· != node) }
  setParent node none

/-- `deleteDelimiterStack(state.stack, i, j)` -/
def delStack (i j : Nat) : IM Unit := do
  let s ← get
  if i > s.stack.size || j > s.stack.size || j < i then goPanic s!"deleteDelimiterStack: slice bounds out of range [{i}:{j}]"
  set { s with stack := s.stack.extract 0 i ++ s.stack.extract j s.stack.size }

def pushStack (e : DelimE) : IM Unit :=
  modify fun s => { s with stack := s.stack.push e }

def setUnparsedPos (n : Nat) : IM Unit :=
  modify fun s => { s with unparsedPos := n }

def setIgnoreNextIndent (b : Bool) : IM Unit :=
  modify fun s => { s with ignoreNextIndent := b }

/-! ### processEmphasis on the real tree -/

def isEmphElem (e : DelimE) : Bool := e.elem.typ == 1 || e.elem.typ == 2

/-- Bound on the iterations of the `closerLoop`: a match consumes at least two delimiter characters, a miss
    removes an entry or moves the current position up. -/
def emphFuel (s : IState) : Nat :=
  2 * (s.stack.foldl (fun acc e => acc + (match s.nodes[e.node]? with
                                           | some n => spanLenI n.start n.stop
                                           | none => 0)) 0) + 2 * s.stack.size + 2

/-- `(*InlineParser).processEmphasis(state, stackBottom)` -/
def processEmphasis (stackBottom : Nat) : IM Unit := do
  let mut cur := stackBottom
  let mut ob : Array Nat := Array.replicate openersBottomCount stackBottom
  let fuel := emphFuel (← get)
  let mut finished := false
  for _ in [0:fuel] do
    -- move current_position forward to the first potential closer
    let st := (← get).stack
    let mut found := false
    for _ in [0:st.size + 1] do
      if cur ≥ st.size then break
      let e := st[cur]!
      if isEmphElem e && e.elem.flags &&& 4 != 0 then
        found := true
        break
      cur := cur + 1
    if !found then
      finished := true
      break
    let closer := st[cur]!
    let some obi := openersBottomIndex closer.elem | goPanic "unreachable"
    let mut oi : Int := (cur : Int) - 1
    for _ in [0:cur + 1] do
      if !(oi ≥ (ob[obi]! : Int)) then break
      if isEmphasisDelimiterMatch (st[oi.toNat]!).elem closer.elem then break
      oi := oi - 1
    if oi ≥ (ob[obi]! : Int) then
      let openerIndex := oi.toNat
      let opener := (st[openerIndex]!).node
      let closerN := closer.node
      let strong := (← nodeLen opener) ≥ 2 && (← nodeLen closerN) ≥ 2
      let w : Int := if strong then 2 else 1
      modifyNode opener fun n => { n with stop := n.stop - w }
      modifyNode closerN fun n => { n with start := n.start + w }
      let _ ← wrap (if strong then IK.strong else IK.emphasis) opener (some closerN)
      delStack (openerIndex + 1) cur
      cur := openerIndex + 1
      if (← nodeLen opener) == 0 then
        removeNode opener
        delStack openerIndex (openerIndex + 1)
        cur := cur - 1
      if (← nodeLen closerN) == 0 then
        removeNode closerN
        delStack cur (cur + 1)
      let cur' := cur
      ob := ob.map fun b => if b > cur' then cur' else b
    else
      ob := ob.set! obi cur
      if closer.elem.flags &&& 2 == 0 then
        delStack cur (cur + 1)
      else
        cur := cur + 1
  if !finished then outOfFuel "processEmphasis"
  delStack stackBottom (← get).stack.size

/-! ### small scanners -/

/-- inlines.go `parseHardLineBreakSpace`: `(end, isHardLineBreak)`. -/
def parseHardLineBreakSpace (remaining : Bytes) : Nat × Bool :=
  let lead := (remaining.take numSpaces).takeWhile (· == SP)
  if lead.length < numSpaces then (lead.length, false) else
  let rest := (remaining.drop numSpaces).takeWhile (fun c => c == SP || c == LF || c == CR)
  let e := numSpaces + rest.length
  (e, e == remaining.length)

/-- `(*InlineParser).parseDelimiterRun` -/
def parseDelimiterRun (c : ICtx) (start : Int) : IM Int := do
  let ch ← srcAt c start
  let mut stop := start + 1
  let se ← spanEnd c
  for _ in [0:c.srcA.size + 1] do
    if !(stop < se) then break
    if (← srcAt c stop) != ch then break
    stop := stop + 1
  let f := emphasisFlags c.x.u c.src start.toNat stop.toNat
  let flags : UInt8 := 1 ||| (if f.1 then 2 else 0) ||| (if f.2 then 4 else 0)
  let id ← alloc { kind := IK.text, start := start, stop := stop }
  addToRoot id
  pushStack { elem := { typ := if ch == 0x2A then 1 else 2, flags := flags, n := spanLenI start stop }, node := id }
  pure stop

/-- `(*InlineParser).parseBackslash` -/
def parseBackslash (c : ICtx) (start : Int) : IM Int := do
  let se ← spanEnd c
  let atEOL ← (if start + 1 ≥ se then pure true else do
    let b ← srcAt c (start + 1)
    pure (b == LF || b == CR))
  if atEOL then
    if (← isLastSpan c) then
      addLeaf IK.text start (start + 1)
      return start + 1
    else
      let mut stop := start + 1
      if (← guardAt (stop < se) c stop CR) then stop := stop + 1
      if (← guardAt (stop < se) c stop LF) then stop := stop + 1
      setIgnoreNextIndent true
      addLeaf IK.hardBreak start stop
      return stop
  if isASCIIPunctuation (← srcAt c (start + 1)) then
    addLeaf IK.text (start + 1) (start + 2)
    return start + 2
  addLeaf IK.text start (start + 1)
  return start + 1

/-! ### code spans -/

structure CodeSpan where
  span : SpanI
  content : SpanI
deriving Repr, Inhabited

/-- `(*InlineParser).parseCodeSpan` -/
def parseCodeSpan (c : ICtx) (start : Int) : IM CodeSpan := do
  let spans ← unparsedFrom c
  let src := c.src
  let mut r := newReader spans start.toNat
  let mut contentStart : Int := start
  let mut backtickLength := 0
  let mut opened := false
  for _ in [0:c.fl] do
    let (ch, r1) := r.current src
    r := r1
    if ch != 0x60 then
      opened := true
      break
    backtickLength := backtickLength + 1
    let (ok, r1) := r.next src
    r := r1
    contentStart := r.pos
    if !ok then return { span := ⟨start, -1⟩, content := ⟨contentStart, -1⟩ }
  if !opened then outOfFuel "parseCodeSpan: opening run"
  for _ in [0:c.fl] do
    let (ch, r1) := r.current src
    r := r1
    if ch != 0x60 then
      let (ok, r1) := r.next src
      r := r1
      if !ok then return { span := ⟨start, -1⟩, content := ⟨contentStart, -1⟩ }
      continue
    let mut run := 1
    let potentialEnd : Int := r.pos
    let mut runDone := false
    for _ in [0:c.fl] do
      let (ok, r1) := r.next src
      r := r1
      if !ok then
        runDone := true
        break
      let (ch, r1) := r.current src
      r := r1
      if ch != 0x60 then
        runDone := true
        break
      run := run + 1
    if !runDone then outOfFuel "parseCodeSpan: closing run"
    if run == backtickLength then
      return { span := ⟨start, r.prev + 1⟩, content := ⟨contentStart, potentialEnd⟩ }
    let (ok, r1) := r.next src
    r := r1
    if !ok then return { span := ⟨start, -1⟩, content := ⟨contentStart, -1⟩ }
  outOfFuel "parseCodeSpan: body"

/-- A child of a code span under construction (Text, or Indent of width `indent`). -/
structure CSN where
  kind : Nat
  start : Int
  stop : Int
  indent : Int := 0
deriving Repr, Inhabited

def CSN.len (n : CSN) : Nat := spanLenI n.start n.stop

def CSN.toTree (n : CSN) : Tree :=
  .node { isBlock := false, kind := n.kind, start := n.start, stop := n.stop, indent := n.indent } []

/-- the closure `addSpan` of `collectCodeSpan` -/
def csAddSpan (c : ICtx) (acc : Array CSN) (start stop : Int) : IM (Array CSN) := do
  -- spanSlice(state.source, child.Span())
  if start < 0 || stop < start || stop > (c.srcA.size : Int) then goPanic s!"slice bounds out of range [{start}:{stop}]"
  let n := stop - start
  let last : UInt8 := if n ≥ 1 then c.srcA[(stop - 1).toNat]! else 0
  let last2 : UInt8 := if n ≥ 2 then c.srcA[(stop - 2).toNat]! else 0
  let trim : Int :=
    if n ≥ 2 && last2 == CR && last == LF then 2
    else if n ≥ 1 && (last == LF || last == CR) then 1
    else 0
  let stop' := stop - trim
  let acc := if spanLenI start stop' > 0 then acc.push { kind := IK.text, start := start, stop := stop' } else acc
  let acc := if trim > 0 then acc.push { kind := IK.indent, start := stop', stop := stop' + trim, indent := 1 } else acc
  pure acc

def isOnlySpaces (line : Bytes) : Bool := line.all (· == SP)

/-- `(*InlineParser).stripCodeSpanSpace` -/
def stripCodeSpanSpace (c : ICtx) (slice : Array CSN) : IM (Array CSN) := do
  let mut foundNonSpace := false
  for n in slice do
    if n.kind != IK.indent then
      if !isOnlySpaces (← srcSlice c n.start n.stop) then
        foundNonSpace := true
        break
  if !foundNonSpace then return slice
  -- foundNonSpace implies the slice is not empty
  let first := slice[0]!
  let last := slice[slice.size - 1]!
  let firstOK ← (if first.kind == IK.indent then pure true else srcIs c first.start SP)
  let lastOK ← (if !firstOK then pure false else if last.kind == IK.indent then pure true else srcIs c (last.stop - 1) SP)
  if !firstOK || !lastOK then return slice
  let single := slice.size == 1      -- `first` and `last` are the same node
  let mut sl := slice
  -- first
  let first' : CSN := if first.kind == IK.indent then { first with indent := first.indent - 1 } else { first with start := first.start + 1 }
  sl := sl.set! 0 first'
  let firstGone := if first.kind == IK.indent then first'.indent == 0 else first'.len == 0
  if firstGone then sl := sl.extract 1 sl.size
  -- last (the node object, wherever it is now)
  if single && firstGone then goPanic "stripCodeSpanSpace: slice bounds out of range [-1:]"
  let li := sl.size - 1
  let lastNow := sl[li]!
  let last' : CSN := if lastNow.kind == IK.indent then { lastNow with indent := lastNow.indent - 1 } else { lastNow with stop := lastNow.stop - 1 }
  sl := sl.set! li last'
  let lastGone := if lastNow.kind == IK.indent then last'.indent == 0 else last'.len == 0
  if lastGone then sl := sl.extract 0 li
  pure sl

/-- `(*InlineParser).collectCodeSpan` -/
def collectCodeSpan (c : ICtx) (cs : CodeSpan) : IM Unit := do
  let spans ← unparsedFrom c
  let mut acc : Array CSN := #[]
  let nodeCount : Int := match nodeIndexForPosition spans cs.content.stop.toNat 0 with
    | some i => i
    | none => -1
  if cs.content.stop < 0 then goPanic "collectCodeSpan: negative content end"
  if nodeCount == 0 then
    acc ← csAddSpan c acc cs.content.start cs.content.stop
  else
    acc ← csAddSpan c acc cs.content.start (← unparsedAt c).label.stop
    for _ in [0:(nodeCount - 1).toNat] do
      setUnparsedPos ((← get).unparsedPos + 1)
      let t ← unparsedAt c
      if isUnparsed t then
        acc ← csAddSpan c acc t.label.start t.label.stop
    setUnparsedPos ((← get).unparsedPos + 1)
    acc ← csAddSpan c acc (← unparsedAt c).label.start cs.content.stop
  let kids ← stripCodeSpanSpace c acc
  let id ← alloc { kind := IK.codeSpan, start := cs.span.start, stop := cs.span.stop, sub := kids.toList.map CSN.toTree }
  addToRoot id

/-! ### brackets -/

/-- `(*InlineParser).lookForLinkOrImage` -/
def lookForLinkOrImage : IM Int := do
  let st := (← get).stack
  let mut i : Int := (st.size : Int) - 1
  for _ in [0:st.size] do
    let e := st[i.toNat]!
    if e.elem.typ == 3 || e.elem.typ == 4 then
      if e.elem.flags &&& 1 == 0 then
        delStack i.toNat (i.toNat + 1)
        return -1
      return i
    i := i - 1
  return -1

structure InlineLinkInfo where
  span : SpanI
  destination : LinkDest
  title : LinkTitle
deriving Inhabited

def noInlineLink : InlineLinkInfo := ⟨nullSpan, noDest, noTitle⟩

/-- `(*InlineParser).parseInlineLink`; `start` is the position of the opening parenthesis. The deferred
    function (advance `unparsedPos` on success) runs at the end. -/
def parseInlineLink (c : ICtx) (start : Int) : IM InlineLinkInfo := do
  let spans ← unparsedFrom c
  let src := c.src
  let r := newReader spans (start + 1).toNat
  let (ok, r) := skipLinkSpace src c.fl r
  if !ok then return noInlineLink
  let (dest, r) := parseLinkDestination src c.fl r
  let mut r := r
  if dest.span.isValid then
    let (ok, r1) := skipLinkSpace src c.fl r
    r := r1
    if !ok then return noInlineLink
  let (title, r1) := parseLinkTitle src c.fl r
  r := r1
  if title.span.isValid then
    let (ok, r1) := skipLinkSpace src c.fl r
    r := r1
    if !ok then return noInlineLink
  let (ch, r1) := r.current src
  if ch != 0x29 then return noInlineLink
  let stop : Int := r1.pos + 1
  let span : SpanI := ⟨start, stop⟩
  if span.isValid then
    match nodeIndexForPosition spans (stop - 1).toNat 0 with
    | some i => setUnparsedPos ((← get).unparsedPos + i)
    | none => setUnparsedPos c.unparsed.size
  return { span := span, destination := dest, title := title }

/-- `(*InlineParser).finishLink` -/
def finishLink (kind : Nat) (openDelimIndex : Nat) : IM Unit := do
  processEmphasis (openDelimIndex + 1)
  let st := (← get).stack
  let some e := st[openDelimIndex]? | goPanic "finishLink: index out of range"
  removeNode e.node
  delStack openDelimIndex (openDelimIndex + 1)
  if kind == IK.link then
    let st := (← get).stack
    if openDelimIndex > st.size then goPanic "finishLink: slice bounds out of range"
    let mut st' := st
    for i in [0:openDelimIndex] do
      let e := st'[i]!
      if e.elem.typ == 3 then
        st' := st'.set! i { e with elem := { e.elem with flags := e.elem.flags &&& (~~~ (1 : UInt8)) } }
    modify fun s => { s with stack := st' }

/-- `transformLinkReference(source, nodes)` -/
def transformLinkReference (c : ICtx) (nodes : List Tree) : Bytes :=
  match nodes.head?, nodes.getLast? with
  | some f, some l => transformLinkReferenceSpan c.x.fold c.src nodes f.label.start.toNat l.label.stop.toNat
  | _, _ => []

/-- `linkNode.children = append(linkNode.children, child)` with a finished child -/
def appendFinished (parent : Nat) (n : INode) : IM Unit := do
  let id ← alloc n
  modifyNode parent fun p => { p with kids := p.kids.push id }

/-- `(*InlineParser).parseEndBracket` -/
def parseEndBracket (c : ICtx) (start : Int) : IM Int := do
  let openDelimIndex ← lookForLinkOrImage
  if openDelimIndex < 0 then
    addLeaf IK.text start (start + 1)
    return start + 1
  let odi := openDelimIndex.toNat
  let some opener := (← get).stack[odi]? | goPanic "parseEndBracket: index out of range"
  let kind := if opener.elem.typ == 4 then IK.image else IK.link
  let src := c.src

  -- Attempt as inline link first.
  if (← guardAt (start + 1 < (← spanEnd c)) c (start + 1) 0x28) then
    let linkNodes ← unparsedFrom c
    let info ← parseInlineLink c (start + 1)
    if info.span.isValid then
      let linkNode ← wrap kind opener.node none
      let on ← getNode opener.node
      modifyNode linkNode fun n => { n with start := on.start, stop := info.span.stop }
      if info.destination.span.isValid then
        let kids := if info.destination.text.isValid then
            collectTextNodes c.x.ext src info.destination.text.stop.toNat IK.text true c.fl
              (newReader linkNodes info.destination.text.start.toNat) info.destination.text.start.toNat []
          else []
        appendFinished linkNode { kind := IK.linkDest, start := info.destination.span.start, stop := info.destination.span.stop, sub := kids }
      if info.title.span.isValid then
        let kids := if info.title.text.isValid then
            collectTextNodes c.x.ext src info.title.text.stop.toNat IK.text true c.fl
              (newReader linkNodes info.title.text.start.toNat) info.title.text.start.toNat []
          else []
        appendFinished linkNode { kind := IK.linkTitle, start := info.title.span.start, stop := info.title.span.stop, sub := kids }
      finishLink kind odi
      return info.span.stop

  let se ← spanEnd c
  let isCollapsed ← (do
    if (← guardAt (start + 2 < se) c (start + 1) 0x5B) then srcIs c (start + 2) 0x5D else pure false)
  if isCollapsed then
    -- Collapsed reference link.
    let on ← getNode opener.node
    let normalizedLabel := transformLinkReferenceSpan c.x.fold src c.unparsedL on.stop.toNat start.toNat
    if !c.matchRef normalizedLabel then
      addLeaf IK.text start (start + 3)
      delStack odi (odi + 1)
      return start + 3
    let linkNode ← wrap kind opener.node none
    let on ← getNode opener.node
    modifyNode linkNode fun n => { n with start := on.start, stop := start + 3, ref := normalizedLabel }
    finishLink kind odi
    return start + 3
  else if (← guardAt (start + 1 < se) c (start + 1) 0x5B) then
    -- Full reference link.
    let spans ← unparsedFrom c
    let (label, _) := parseLinkLabel src c.fl (newReader spans (start + 1).toNat)
    if !label.span.isValid then
      addLeaf IK.text start (start + 1)
      delStack odi (odi + 1)
      return start + 1
    let labelKids := collectTextNodes c.x.ext src label.inner.stop.toNat IK.text false c.fl
      (newReader spans label.inner.start.toNat) label.inner.start.toNat []
    let ref := transformLinkReference c labelKids
    if !c.matchRef ref then
      addLeaf IK.text start (start + 1)
      delStack odi (odi + 1)
      return start + 1
    let linkNode ← wrap kind opener.node none
    appendFinished linkNode { kind := IK.linkLabel, start := label.span.start, stop := label.span.stop, ref := ref, sub := labelKids }
    let on ← getNode opener.node
    modifyNode linkNode fun n => { n with start := on.start, stop := label.span.stop }
    finishLink kind odi
    match nodeIndexForPosition (← unparsedFrom c) (label.span.stop - 1).toNat 0 with
    | some i => setUnparsedPos ((← get).unparsedPos + i)
    | none => pure ()
    return label.span.stop
  else
    -- Shortcut reference link.
    let on ← getNode opener.node
    let normalizedLabel := transformLinkReferenceSpan c.x.fold src c.unparsedL on.stop.toNat start.toNat
    if !c.matchRef normalizedLabel then
      addLeaf IK.text start (start + 1)
      delStack odi (odi + 1)
      return start + 1
    let linkNode ← wrap kind opener.node none
    let on ← getNode opener.node
    modifyNode linkNode fun n => { n with start := on.start, stop := start + 1, ref := normalizedLabel }
    finishLink kind odi
    return start + 1

/-! ### the tokenizer -/

/-- The `case UnparsedKind:` body of `parse`'s outer loop. -/
def parseRun (c : ICtx) : IM Unit := do
  let node ← unparsedAt c
  let mut pos : Int := node.label.start
  if (← get).ignoreNextIndent then
    for _ in [0:c.srcA.size + 1] do
      if !(pos < (← spanEnd c)) then break
      let b ← srcAt c pos
      if !(b == SP || b == TAB) then break
      pos := pos + 1
  setIgnoreNextIndent false
  let mut plainStart := pos
  let mut done := false
  for _ in [0:c.srcA.size + 2] do
    let s ← get
    if !(s.unparsedPos < c.unparsed.size && pos < spanEndOf c s) then
      done := true
      break
    let b ← srcAt c pos
    if b == 0x2A || b == 0x5F then
      addText plainStart pos
      pos ← parseDelimiterRun c pos
      plainStart := pos
    else if b == 0x5B then
      addText plainStart pos
      let id ← alloc { kind := IK.text, start := pos, stop := pos + 1 }
      addToRoot id
      pushStack { elem := { typ := 3, flags := 1, n := 0 }, node := id }
      pos := pos + 1
      plainStart := pos
    else if b == 0x5D then
      addText plainStart pos
      pos ← parseEndBracket c pos
      plainStart := pos
    else if b == 0x21 then
      if !(← guardAt (pos + 1 < spanEndOf c s) c (pos + 1) 0x5B) then
        pos := pos + 1
        continue
      addText plainStart pos
      let id ← alloc { kind := IK.text, start := pos, stop := pos + 2 }
      addToRoot id
      pushStack { elem := { typ := 4, flags := 1, n := 0 }, node := id }
      pos := pos + 2
      plainStart := pos
    else if b == SP then
      let (e, ok) := parseHardLineBreakSpace (← srcSlice c pos (spanEndOf c s))
      if ok && !(← isLastSpan c) then
        addText plainStart pos
        addLeaf IK.hardBreak pos (pos + e)
        setIgnoreNextIndent true
        plainStart := pos + e
      pos := pos + e
    else if b == 0x60 then
      let cs ← parseCodeSpan c pos
      if cs.span.isValid then
        addText plainStart cs.span.start
        collectCodeSpan c cs
        pos := cs.span.stop
        plainStart := pos
      else
        pos := cs.content.start
    else if b == 0x3C then
      let e := parseAutolink (← srcSlice c pos (spanEndOf c s))
      if e ≥ 0 then
        let e := e + pos
        addText plainStart pos
        let id ← alloc { kind := IK.autolink, start := pos, stop := e, sub := [mkInline IK.text (pos + 1) (e - 1)] }
        addToRoot id
        pos := e
        plainStart := pos
        continue
      let spans ← unparsedFrom c
      let (span, _) := parseHTMLTag c.src c.fl (newReader spans pos.toNat)
      if !span.isValid then
        pos := pos + 1
        continue
      addText plainStart span.start
      let kids := collectTextNodes c.x.ext c.src span.stop.toNat IK.rawHTML false c.fl
        (newReader spans span.start.toNat) span.start.toNat []
      let id ← alloc { kind := IK.htmlTag, start := span.start, stop := span.stop, sub := kids }
      addToRoot id
      pos := span.stop
      plainStart := pos
      match nodeIndexForPosition spans pos.toNat 0 with
      | some i => setUnparsedPos (s.unparsedPos + i)
      | none => setUnparsedPos c.unparsed.size
    else if b == 0x5C then
      addText plainStart pos
      pos ← parseBackslash c pos
      plainStart := pos
    else if b == 0x26 then
      let e := parseCharacterEscape c.x.ext (← srcSlice c pos (spanEndOf c s))
      if e < 0 then
        pos := pos + 1
        continue
      addText plainStart pos
      addLeaf IK.charRef pos (pos + e)
      pos := pos + e
      plainStart := pos
    else if b == LF then
      addText plainStart pos
      if !(← isLastSpan c) then addLeaf IK.softBreak pos (pos + 1)
      pos := pos + 1
      plainStart := pos
    else if b == CR then
      addText plainStart pos
      if (← guardAt (pos + 1 < spanEndOf c s) c (pos + 1) LF) then
        if !(← isLastSpan c) then addLeaf IK.softBreak pos (pos + 2)
        pos := pos + 2
      else
        if !(← isLastSpan c) then addLeaf IK.softBreak pos (pos + 1)
        pos := pos + 1
      plainStart := pos
    else
      pos := pos + 1
  if !done then outOfFuel "parse: tokenizer loop"
  addText plainStart (← spanEnd c)

/-- The children of the dummy root as trees. -/
def exportNode (nodes : Array INode) : Nat → Nat → Tree
  | 0, _ => .node { isBlock := false, kind := 997 } []
  | fuel + 1, id =>
    match nodes[id]? with
    | none => .node { isBlock := false, kind := 996 } []
    | some n =>
      .node { isBlock := false, kind := n.kind, start := n.start, stop := n.stop, indent := n.indent, ref := n.ref }
        (n.kids.toList.map (exportNode nodes fuel) ++ n.sub)

/-- `(*InlineParser).parse(source, container)`: the body, run on a fresh state. -/
def parseBody (c : ICtx) : IM Unit := do
  for _ in [0:c.unparsed.size + 1] do
    let s ← get
    if !(s.unparsedPos < c.unparsed.size) then break
    let t := c.unparsed[s.unparsedPos]!
    if t.label.isBlock || t.label.kind == 0 then
      setIgnoreNextIndent false
    else if t.label.kind == IK.indent then
      if !s.ignoreNextIndent then importNode t
    else if t.label.kind == IK.unparsed then
      parseRun c
    else
      setIgnoreNextIndent false
      importNode t
    setUnparsedPos ((← get).unparsedPos + 1)
  processEmphasis 0

/-- `(*InlineParser).parse`: the new inline children of a container with span `[cstart, cstop)`. -/
def parseInlines (x : IExt) (src : Bytes) (srcA : Array UInt8) (matchRef : Bytes → Bool)
    (cstart cstop : Int) (unparsed : List Tree) : Except IErr (List Tree) :=
  let c : ICtx := { x := x, src := src, srcA := srcA, unparsed := unparsed.toArray, unparsedL := unparsed,
                    matchRef := matchRef, fl := rdFuel src unparsed }
  let s0 : IState := { nodes := #[{ kind := 0, start := cstart, stop := cstop }], parentMap := #[none] }
  match (parseBody c).run s0 with
  | .error e => .error e
  | .ok (_, s) => .ok (exportNode s.nodes (s.nodes.size + 1) 0).children

/-- `hasUnparsed` (on the inline children) -/
def hasUnparsed (cs : List Tree) : Bool := cs.any isUnparsed

mutual
/-- `(*InlineParser).Rewrite(root)`: the explicit-stack traversal read recursively (the containers are
    independent of each other). -/
def rewriteE (x : IExt) (src : Bytes) (srcA : Array UInt8) (matchRef : Bytes → Bool) : Tree → Except IErr Tree
  | .node l cs =>
    if !l.isBlock then .ok (.node l cs)
    else if hasUnparsed cs then
      match parseInlines x src srcA matchRef l.start l.stop cs with
      | .ok kids => .ok (.node l kids)
      | .error e => .error e
    else
      match rewriteForestE x src srcA matchRef cs with
      | .ok kids => .ok (.node l kids)
      | .error e => .error e
def rewriteForestE (x : IExt) (src : Bytes) (srcA : Array UInt8) (matchRef : Bytes → Bool) : List Tree → Except IErr (List Tree)
  | [] => .ok []
  | t :: ts =>
    match rewriteE x src srcA matchRef t with
    | .error e => .error e
    | .ok t' =>
      match rewriteForestE x src srcA matchRef ts with
      | .error e => .error e
      | .ok ts' => .ok (t' :: ts')
end

/-- Marker trees for the two abnormal outcomes. -/
def errTree : IErr → Tree
  | .panic msg => .node { isBlock := true, kind := 999, ref := msg.toUTF8.toList } []
  | .fuel site => .node { isBlock := true, kind := 998, ref := site.toUTF8.toList } []

end CM.Model.Inl

namespace CM.Model
export Inl (IExt IErr)

/-- The model of `(*InlineParser).Rewrite(root)` with `ReferenceMatcher = matchRef`. -/
def rewrite (x : IExt) (src : Bytes) (t : Tree) (matchRef : Bytes → Bool) : Tree :=
  match Inl.rewriteE x src src.toArray matchRef t with
  | .ok t' => t'
  | .error e => Inl.errTree e

end CM.Model
