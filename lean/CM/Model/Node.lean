import CM.Basic.Tree
import CM.Basic.Utf8
import CM.Model.Recognize
import CM.Model.URI
/-
Model of the public node accessors (blocks.go / inlines.go) on the wire tree.
Slicing is total here (clamped); the Go `spanSlice` panics exactly when `Spec.spanValid` fails,
which is the `RenderPre` precondition of every theorem that uses these functions.
-/
namespace CM.Model
open CM

/-- External functions the library calls into (parameters of the model; see DESIGN §3 rule 6). -/
structure Ext where
  /-- `html.UnescapeString` -/
  unescape : Bytes → Bytes

namespace Node

def kind (t : Tree) : Nat := t.label.kind
def isB (t : Tree) (k : Nat) : Bool := t.label.isBlock && t.label.kind == k
def isI (t : Tree) (k : Nat) : Bool := !t.label.isBlock && t.label.kind == k

/-- `Span.IsValid`. -/
def spanValid (t : Tree) : Bool := t.label.start ≥ 0 && t.label.stop ≥ 0 && t.label.start ≤ t.label.stop

/-- `Span.Len`. -/
def spanLen (t : Tree) : Nat := if spanValid t then (t.label.stop - t.label.start).toNat else 0

/-- `spanSlice(source, node.Span())` (total). -/
def slice (src : Bytes) (t : Tree) : Bytes :=
  if spanValid t then (src.drop t.label.start.toNat).take (t.label.stop - t.label.start).toNat else []

def spaces (n : Nat) : Bytes := List.replicate n SP

/-- `(*Inline).Text`. -/
def text (ext : Ext) (src : Bytes) (t : Tree) : Bytes :=
  if t.label.isBlock then [] else
  let k := t.label.kind
  if k == IK.text || k == IK.rawHTML then slice src t
  else if k == IK.charRef then ext.unescape (slice src t)
  else if k == IK.softBreak then (if spanLen t == 0 then [LF] else slice src t)
  else if k == IK.hardBreak then [LF]
  else if k == IK.indent then spaces t.label.indent.toNat
  else if k == IK.infoString || k == IK.linkDest || k == IK.linkTitle then
    t.children.flatMap fun c =>
      if isI c IK.text then slice src c
      else if isI c IK.charRef then ext.unescape (slice src c)
      else []
  else []

/-- The last two children, last first (the scan order of `LinkDestination` / `LinkTitle`). -/
def lastTwo (cs : List Tree) : List Tree := (cs.reverse.take 2)

def isLinkOrImage (t : Tree) : Bool := isI t IK.link || isI t IK.image

/-- `(*Inline).LinkDestination`. -/
def linkDestination (t : Tree) : Option Tree :=
  if isLinkOrImage t then (lastTwo t.children).find? (isI · IK.linkDest) else none

/-- `(*Inline).LinkTitle`. -/
def linkTitle (t : Tree) : Option Tree :=
  if isLinkOrImage t then (lastTwo t.children).find? (isI · IK.linkTitle) else none

/-- `(*Inline).LinkReference`. -/
def linkReference (t : Tree) : Bytes :=
  if isLinkOrImage t then
    match t.children.getLast? with
    | some last => if isI last IK.linkLabel then last.label.ref else t.label.ref
    | none => t.label.ref
  else t.label.ref

/-- `(*Block).HeadingLevel`. -/
def headingLevel (t : Tree) : Int :=
  if isB t BK.atxHeading || isB t BK.setextHeading then t.label.n else 0

/-- `(*Block).IsOrderedList` (nil-safe: `none` = nil block). -/
def isOrderedList (t : Option Tree) : Bool :=
  match t with
  | some t => t.label.isBlock && (t.label.char == 0x2E || t.label.char == 0x29)
  | none => false

/-- `(*Block).IsTightList`. -/
def isTightList (t : Option Tree) : Bool :=
  match t with
  | some t => (isB t BK.list || isB t BK.listItem) && !t.label.loose
  | none => false

/-- `(*Block).ListItemNumber`. -/
def listItemNumber (src : Bytes) (t : Option Tree) : Int :=
  match t with
  | none => -1
  | some t =>
    if !isOrderedList (some t) || !isB t BK.listItem then -1 else
    match t.children.head? with
    | none => -1
    | some m =>
      if !isB m BK.listMarker then -1 else
      let p := parseListMarker (slice src m)
      if p.stop < 0 then -1 else p.n

/-- `(*Block).InfoString`. -/
def infoString (t : Tree) : Option Tree :=
  if !isB t BK.fencedCode then none else
  match t.children.head? with
  | some c => if isI c IK.infoString then some c else none
  | none => none

/-- `unicode.IsSpace` for the code points `strings.Fields` distinguishes. -/
def isSpaceRune (r : Nat) : Bool :=
  r == 0x09 || r == 0x0A || r == 0x0B || r == 0x0C || r == 0x0D || r == 0x20 || r == 0x85 || r == 0xA0
  || r == 0x1680 || (0x2000 ≤ r && r ≤ 0x200A) || r == 0x2028 || r == 0x2029 || r == 0x202F || r == 0x205F || r == 0x3000

/-- For each byte: does it belong to a white-space rune (`range` over the string, invalid bytes are
    U+FFFD of width 1)? `k` = bytes left in the current rune, `f` its flag. -/
def spaceMask : Bytes → Nat → Bool → List Bool
  | [], _, _ => []
  | _ :: rest, k + 1, f => f :: spaceMask rest k f
  | b :: rest, 0, _ =>
    let r := Utf8.decodeRune (b :: rest)
    let f := isSpaceRune r.1
    f :: spaceMask rest (r.2 - 1) f

/-- `strings.Fields(s)[0]` (empty when there is no field). -/
def firstField (s : Bytes) : Bytes :=
  (((s.zip (spaceMask s 0 false)).dropWhile (·.2)).takeWhile (!·.2)).map (·.1)

end Node
end CM.Model
