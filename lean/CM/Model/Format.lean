import CM.Model.Node
/-
Model of format/format.go `formatWriter`: indent stack, `startedLine`, `hasWritten`, sticky `err`,
`s`, `writeStrings`, `writeTrimmedIndent`. The underlying writer is a script: it records every write and
fails at the `failAt`-th one.
-/
namespace CM.Model
open CM

/-- The scripted `io.Writer`: `log` = writes issued so far (each `WriteString` call is one entry). -/
structure ScriptW where
  log : List Bytes := []
  failAt : Option Nat := none
deriving Repr

/-- One `WriteString` call: the write is recorded; it fails iff it is the `failAt`-th. -/
def ScriptW.write (w : ScriptW) (s : Bytes) : ScriptW × Bool :=
  ({ w with log := w.log ++ [s] }, w.failAt == some w.log.length)

structure FW where
  w : ScriptW := {}
  indents : List Bytes := []
  startedLine : Bool := false
  hasWritten : Bool := false
  /-- `err != nil` -/
  err : Bool := false
deriving Repr

/-- `writeStrings(w, slice)`: stops at the first error. -/
def writeStrings (w : ScriptW) : List Bytes → ScriptW × Bool
  | [] => (w, false)
  | s :: rest =>
    let r := w.write s
    if r.2 then (r.1, true) else writeStrings r.1 rest

/-- Byte offset just past the last rune that is not `unicode.IsSpace`, if any (`pos` = offset of `b`). -/
def lastNonSpaceEnd : Bytes → Nat → Nat → Option Nat → Option Nat
  | [], _, _, acc => acc
  | _ :: rest, pos, k + 1, acc => lastNonSpaceEnd rest (pos + 1) k acc
  | b :: rest, pos, 0, acc =>
    let r := Utf8.decodeRune (b :: rest)
    lastNonSpaceEnd rest (pos + 1) (r.2 - 1) (if Node.isSpaceRune r.1 then acc else some (pos + r.2))

/-- `writeTrimmedIndent`: drop trailing all-space indents, write the rest, the last one trimmed
    (the argument is the indent stack reversed). -/
def trimIndentsRev : List Bytes → Option (List Bytes × Bytes)
  | [] => none
  | last :: front =>
    match lastNonSpaceEnd last 0 0 none with
    | some n => some (front.reverse, last.take n)
    | none => trimIndentsRev front

def trimIndents (ind : List Bytes) : Option (List Bytes × Bytes) := trimIndentsRev ind.reverse

def writeTrimmedIndent (w : ScriptW) (indents : List Bytes) : ScriptW × Bool :=
  match trimIndents indents with
  | none => (w, false)
  | some (front, last) =>
    let r := writeStrings w front
    if r.2 then r else r.1.write last

/-- Split at the first line feed: `(line including LF, rest)`, or `none`. -/
def splitLF : Bytes → Bytes → Option (Bytes × Bytes)
  | [], _ => none
  | c :: rest, acc => if c == LF then some ((c :: acc).reverse, rest) else splitLF rest (c :: acc)

/-- The loop of `formatWriter.s` (one iteration per line feed in `s`), entered with `err == nil`. -/
def fwLoop : Nat → FW → Bytes → FW
  | 0, fw, _ => fw
  | fuel + 1, fw, s =>
    match splitLF s [] with
    | some (ln, rest) =>
      let fw := { fw with hasWritten := true }
      if !fw.startedLine && ln.length == 1 then
        -- blank line: trimmed indent, then the line feed
        let r := writeTrimmedIndent fw.w fw.indents
        if r.2 then { fw with w := r.1, err := true } else
        let r2 := r.1.write [LF]
        if r2.2 then { fw with w := r2.1, err := true } else
        fwLoop fuel { fw with w := r2.1 } rest
      else
        let r := if !fw.startedLine then writeStrings fw.w fw.indents else (fw.w, false)
        if r.2 then { fw with w := r.1, err := true } else
        let r2 := r.1.write ln
        if r2.2 then { fw with w := r2.1, err := true } else
        fwLoop fuel { fw with w := r2.1, startedLine := false } rest
    | none =>
      if s.isEmpty then fw else
      let fw := { fw with hasWritten := true }
      let r := if !fw.startedLine then writeStrings fw.w fw.indents else (fw.w, false)
      if r.2 then { fw with w := r.1, err := true } else
      let r2 := r.1.write s
      { fw with w := r2.1, err := r2.2, startedLine := true }

/-- `formatWriter.s`. -/
def fwS (fw : FW) (s : Bytes) : FW := if fw.err then fw else fwLoop (s.length + 1) fw s

def fwPush (fw : FW) (indent : Bytes) : FW := { fw with indents := fw.indents ++ [indent] }
def fwPop (fw : FW) : FW := { fw with indents := fw.indents.dropLast }

inductive FwOp where
  | s (b : Bytes)
  | push (b : Bytes)
  | pop
deriving Repr

def fwRun (fw : FW) : List FwOp → FW
  | [] => fw
  | .s b :: ops => fwRun (fwS fw b) ops
  | .push b :: ops => fwRun (fwPush fw b) ops
  | .pop :: ops => fwRun (fwPop fw) ops

end CM.Model
