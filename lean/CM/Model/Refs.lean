import CM.Model.Render
/-
Model of inlines.go `transformLinkReferenceSpan` over a single unparsed run (label normalisation) and of
references.go `ReferenceMap.Extract` (its explicit-stack DFS read recursively: document pre-order, first
definition wins).
-/
namespace CM.Model
open CM CM.Gen Node

/-- The collapsing loop of `transformLinkReferenceSpan`: each run of spaces/tabs/line endings becomes one
    space, every other byte is copied. `inWs` = the previous byte was white space. -/
def collapseWs : Bytes → Bool → Bytes
  | [], _ => []
  | c :: rest, inWs =>
    if isSpaceTabOrLineEnding c then (if inWs then collapseWs rest true else SP :: collapseWs rest true)
    else c :: collapseWs rest false

/-- `strings.Trim(s, " ")`. -/
def trimSpaces (b : Bytes) : Bytes := ((b.dropWhile (· == SP)).reverse.dropWhile (· == SP)).reverse

/-- `transformLinkReferenceSpan` on one run: collapse, trim, then `cases.Fold`. -/
def normalizeLabel (fold : Bytes → Bytes) (label : Bytes) : Bytes := fold (trimSpaces (collapseWs label false))

/-- A reference map as an association list in insertion order (keys unique). -/
abbrev RefMap := List (Bytes × LinkDef)

def refInsert (m : RefMap) (k : Bytes) (d : LinkDef) : RefMap :=
  if k.isEmpty || (m.lookup k).isSome then m else m ++ [(k, d)]

mutual
/-- `Extract(source, node)`: definitions in document order; only block children are descended into. -/
def extractNode (ext : Ext) (src : Bytes) : Tree → RefMap → RefMap
  | .node l cs, m =>
    if !l.isBlock then m
    else if l.kind == BK.linkRefDef then
      match cs with
      | lab :: dest :: rest =>
        refInsert m (linkReference lab)
          { dest := text ext src dest, titlePresent := !rest.isEmpty,
            title := match rest with
              | t :: _ => text ext src t
              | [] => [] }
      | _ => m          -- Go indexes inlineChildren[0], [1]: outside RenderPre
    else extractForest ext src cs m
def extractForest (ext : Ext) (src : Bytes) : List Tree → RefMap → RefMap
  | [], m => m
  | c :: cs, m => extractForest ext src cs (extractNode ext src c m)
end

/-- `Parse`'s loop: `refMap.Extract(block.Source, block.AsNode())` for every root in order. -/
def extractAll (ext : Ext) : List (Bytes × Tree) → RefMap → RefMap
  | [], m => m
  | (src, t) :: rest, m => extractAll ext rest (extractNode ext src t m)

end CM.Model
