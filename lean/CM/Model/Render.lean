import CM.Model.Walk
import CM.Model.Node
import CM.Model.Filter
/-
Model of html_renderer.go: `AppendBlock` = `Walk` + `preBlock/postBlock/preInline/postInline`
appending to a per-call `dst`; `openTagAttr/openTag/closeTag`, `appendAltText`.
-/
namespace CM.Model
open CM CM.Gen Node

structure LinkDef where
  dest : Bytes := []
  title : Bytes := []
  titlePresent : Bool := false
deriving Repr, BEq

/-- `HTMLRenderer` + the root block's `Source`. -/
structure RCtx where
  ext : Ext
  src : Bytes
  /-- `SoftBreakBehavior` (0 preserve, 1 space, 2 harden). -/
  soft : Nat := 0
  ignoreRaw : Bool := false
  /-- `FilterTag` (`none` = nil). -/
  filter : Option (Bytes → Bool) := none
  /-- `ReferenceMap[ref]` (a missing key yields the zero `LinkDefinition`). -/
  refs : Bytes → LinkDef := fun _ => {}

def str (s : String) : Bytes := s.toUTF8.toList

/-- `openTagAttr`: `<name`, or `&lt;name` when the filter rejects the name. -/
def openTagAttr (cx : RCtx) (name : Bytes) : Bytes :=
  match cx.filter with
  | some f => if f name then str "&lt;" ++ name else 0x3C :: name
  | none => 0x3C :: name

def openTag (cx : RCtx) (name : Bytes) : Bytes := openTagAttr cx name ++ [0x3E]

/-- `closeTag`: the filter sees `"/" ++ name`. -/
def closeTag (cx : RCtx) (name : Bytes) : Bytes :=
  (match cx.filter with
   | some f => if f (0x2F :: name) then str "&lt;/" ++ name else str "</" ++ name
   | none => str "</" ++ name) ++ [0x3E]

def headingTag (level : Int) : Bytes :=
  if level == 1 then str "h1" else if level == 2 then str "h2" else if level == 3 then str "h3"
  else if level == 4 then str "h4" else if level == 5 then str "h5" else str "h6"

/-- Decimal digits, least significant first (`fuel` bounds the number of digits). -/
def digitsRev : Nat → Nat → Bytes
  | 0, _ => []
  | fuel + 1, n => UInt8.ofNat (48 + n % 10) :: (if n / 10 == 0 then [] else digitsRev fuel (n / 10))

/-- `strconv.AppendInt(dst, n, 10)` for n ≥ 0. -/
def decimal (n : Nat) : Bytes := (digitsRev (n + 1) n).reverse

mutual
/-- The text pieces `appendAltText` collects (its explicit-stack DFS, read recursively). -/
def altPieces (cx : RCtx) : Tree → Bytes
  | .node l cs =>
    if l.isBlock then altPiecesL cx cs else
    if l.kind == IK.text || l.kind == IK.charRef then escapeString (text cx.ext cx.src (.node l cs))
    else if l.kind == IK.indent || l.kind == IK.softBreak || l.kind == IK.hardBreak then [SP]
    else if l.kind == IK.linkDest || l.kind == IK.linkTitle || l.kind == IK.linkLabel then []
    else altPiecesL cx cs
def altPiecesL (cx : RCtx) : List Tree → Bytes
  | [] => []
  | c :: cs => altPieces cx c ++ altPiecesL cx cs
end

/-- `appendAltText`. -/
def altText (cx : RCtx) (t : Tree) : Bytes := str " alt=\"" ++ altPieces cx t ++ [0x22]

/-- The `LinkDefinition` a link or image renders with. -/
def linkDef (cx : RCtx) (t : Tree) : LinkDef :=
  let ref := linkReference t
  if !ref.isEmpty then cx.refs ref else
  let title := linkTitle t
  { dest := match linkDestination t with
      | some d => text cx.ext cx.src d
      | none => [],
    title := match title with
      | some tt => text cx.ext cx.src tt
      | none => [],
    titlePresent := title.isSome }

def linkAttrs (d : LinkDef) (attr : String) : Bytes :=
  str (" " ++ attr ++ "=\"") ++ escapeString (normalizeURI d.dest) ++ [0x22]
  ++ (if d.titlePresent then str " title=\"" ++ escapeString d.title ++ [0x22] else [])

/-- `cursor.Parent().Block().IsTightList()`. -/
def parentTight (parent : Option Tree) : Bool := isTightList (parent.filter (·.label.isBlock))

/-- `preBlock`: bytes appended and whether to descend. -/
def preBlock (cx : RCtx) (cur : Cursor) : Bytes × Bool :=
  let b := cur.node
  let k := b.label.kind
  if k == BK.paragraph then
    (if !parentTight cur.parent then openTag cx (str "p") else [], true)
  else if k == BK.thematicBreak then (openTag cx (str "hr"), false)
  else if k == BK.atxHeading || k == BK.setextHeading then (openTag cx (headingTag (headingLevel b)), true)
  else if k == BK.indentedCode || k == BK.fencedCode then
    (openTag cx (str "pre") ++ openTagAttr cx (str "code")
      ++ (match infoString b with
          | some info =>
            let w := firstField (text cx.ext cx.src info)
            if w.isEmpty then [] else str " class=\"language-" ++ escapeString w ++ [0x22]
          | none => [])
      ++ [0x3E], true)
  else if k == BK.blockQuote then (openTag cx (str "blockquote"), true)
  else if k == BK.list then
    if isOrderedList (some b) then
      let n := listItemNumber cx.src (b.children.head?.filter (·.label.isBlock))
      (openTagAttr cx (str "ol")
        ++ (if n ≥ 0 && n != 1 then str " start=\"" ++ decimal n.toNat ++ [0x22] else [])
        ++ [0x3E], true)
    else (openTag cx (str "ul"), true)
  else if k == BK.listItem then (openTag cx (str "li"), true)
  else if k == BK.htmlBlock then ([], !cx.ignoreRaw)
  else ([], false)

def postBlock (cx : RCtx) (cur : Cursor) : Bytes :=
  let b := cur.node
  let k := b.label.kind
  if k == BK.paragraph then
    (if !parentTight cur.parent then closeTag cx (str "p") else [])
  else if k == BK.atxHeading || k == BK.setextHeading then closeTag cx (headingTag (headingLevel b))
  else if k == BK.indentedCode || k == BK.fencedCode then closeTag cx (str "code") ++ closeTag cx (str "pre")
  else if k == BK.blockQuote then closeTag cx (str "blockquote")
  else if k == BK.list then closeTag cx (if isOrderedList (some b) then str "ol" else str "ul")
  else if k == BK.listItem then closeTag cx (str "li")
  else []

def preInline (cx : RCtx) (t : Tree) : Bytes × Bool :=
  let k := t.label.kind
  if k == IK.text || k == IK.unparsed then (escapeHTML (slice cx.src t), false)
  else if k == IK.charRef then (slice cx.src t, false)
  else if k == IK.rawHTML then
    ((if cx.ignoreRaw then [] else
      match cx.filter with
      | none => slice cx.src t
      | some f => filterRaw f (slice cx.src t)), false)
  else if k == IK.softBreak then
    ((if cx.soft == 2 then openTag cx (str "br") ++ [LF]
      else if cx.soft == 1 then [SP]
      else if spanLen t > 0 then slice cx.src t else [LF]), false)
  else if k == IK.hardBreak then (openTag cx (str "br") ++ [LF], false)
  else if k == IK.emphasis then (openTag cx (str "em"), true)
  else if k == IK.strong then (openTag cx (str "strong"), true)
  else if k == IK.codeSpan then (openTag cx (str "code"), true)
  else if k == IK.link then (openTagAttr cx (str "a") ++ linkAttrs (linkDef cx t) "href" ++ [0x3E], true)
  else if k == IK.image then
    (openTagAttr cx (str "img") ++ linkAttrs (linkDef cx t) "src" ++ altText cx t ++ [0x3E], false)
  else if k == IK.autolink then
    let dest := match t.children.head? with
      | some c => text cx.ext cx.src c
      | none => []
    (openTagAttr cx (str "a") ++ str " href=\"" ++ (if isEmailAddress dest then str "mailto:" else [])
      ++ escapeString (normalizeURI dest) ++ str "\">" ++ escapeString dest ++ closeTag cx (str "a"), false)
  else if k == IK.indent then (spaces t.label.indent.toNat, false)
  else if k == IK.htmlTag then ([], true)
  else ([], false)

def postInline (cx : RCtx) (t : Tree) : Bytes :=
  let k := t.label.kind
  if k == IK.emphasis then closeTag cx (str "em")
  else if k == IK.strong then closeTag cx (str "strong")
  else if k == IK.codeSpan then closeTag cx (str "code")
  else if k == IK.link then closeTag cx (str "a")
  else []

/-- The `Pre`/`Post` closures of `AppendBlock` over the state `dst`. -/
def renderOpts (cx : RCtx) : WalkOpts Bytes :=
  { pre := some fun cur dst =>
      let r := if cur.node.label.isBlock then preBlock cx cur else preInline cx cur.node
      (r.2, dst ++ r.1),
    post := some fun cur dst =>
      (true, dst ++ (if cur.node.label.isBlock then postBlock cx cur else postInline cx cur.node)) }

/-- `(*HTMLRenderer).AppendBlock`. -/
def appendBlock (cx : RCtx) (dst : Bytes) (root : Tree) : Bytes := walk root (renderOpts cx) dst

end CM.Model

namespace CM.Model

/-- `(*HTMLRenderer).Render`: one `Write` per block; `mk src` is the renderer configuration applied to a
    block's `Source`. The result is the concatenation of everything written (a non-failing writer). -/
def renderAll (mk : Bytes → RCtx) : List (Bytes × Tree) → Nat → Bytes
  | [], _ => []
  | (src, t) :: rest, i =>
    appendBlock (mk src) (if i > 0 then [LF, LF] else []) t ++ renderAll mk rest (i + 1)

end CM.Model
