import CM.Basic.Utf8
import CM.Model.Recognize
/-
Model of html_renderer.go `NormalizeURI`, `escapeHTML`; Go's `html.EscapeString`;
inlines.go `parseEmail`, `parseDomainLabel`, `IsEmailAddress`, `parseAutolink`.
-/
namespace CM.Model
open CM.Gen

def pctByte (b : UInt8) : Bytes :=
  [0x25, (urlHexDigit (b >>> 4)).getD 0, (urlHexDigit (b &&& 0x0F)).getD 0]

def pctBytes (bs : Bytes) : Bytes := bs.flatMap pctByte

def isSafeRune (c : UInt8) : Bool :=
  (c < 0x80 && (isASCIILetter c || isASCIIDigit c)) || safeSet.contains c

/-- `NormalizeURI`: `skip` = bytes of the current rune / escape already emitted. -/
def normalizeURIAux : Bytes → Nat → Bytes
  | [], _ => []
  | _ :: rest, k + 1 => normalizeURIAux rest k
  | c :: rest, 0 =>
    if c == 0x25 then
      match rest with
      | a :: b :: _ =>
        if isHex a && isHex b then 0x25 :: a :: b :: normalizeURIAux rest 2
        else [0x25, 0x32, 0x35] ++ normalizeURIAux rest 0
      | _ => [0x25, 0x32, 0x35] ++ normalizeURIAux rest 0
    else
      match Utf8.validWidth (c :: rest) with
      | some w =>
        if w == 1 && isSafeRune c then c :: normalizeURIAux rest 0
        else pctBytes (c :: rest.take (w - 1)) ++ normalizeURIAux rest (w - 1)
      | none => pctBytes nullReplacementString ++ normalizeURIAux rest 0

def normalizeURI (s : Bytes) : Bytes := normalizeURIAux s 0

/-- html_renderer.go `escapeHTML` (the cases come from the source: `Gen.escapeHTMLCases`). -/
def escapeHTML (src : Bytes) : Bytes :=
  src.flatMap fun b => match escapeHTMLCases.lookup b with
    | some r => r
    | none => [b]

/-- Go `html.EscapeString`: `&`→`&amp;`, `'`→`&#39;`, `<`→`&lt;`, `>`→`&gt;`, `"`→`&#34;`. -/
def escapeString (src : Bytes) : Bytes :=
  src.flatMap fun b =>
    if b == 0x26 then "&amp;".toUTF8.toList
    else if b == 0x27 then "&#39;".toUTF8.toList
    else if b == 0x3C then "&lt;".toUTF8.toList
    else if b == 0x3E then "&gt;".toUTF8.toList
    else if b == 0x22 then "&#34;".toUTF8.toList
    else [b]

/-! ### e-mail / autolink -/

def emailLocalChars : Bytes := ".!#$%&'*+/=?^_`{|}~-".toUTF8.toList

def isEmailLocal (c : UInt8) : Bool := isASCIILetter c || isASCIIDigit c || emailLocalChars.contains c
def isLabelChar (c : UInt8) : Bool := isASCIILetter c || isASCIIDigit c || c == 0x2D

/-- Loop of `parseDomainLabel`: returns `end` after consuming label chars while `end < 63`. -/
def labelLoop : Bytes → Nat → UInt8 → Nat × UInt8 × Bytes
  | [], e, last => (e, last, [])
  | c :: rest, e, last =>
    if e < 63 && isLabelChar c then labelLoop rest (e + 1) c else (e, last, c :: rest)

/-- `parseDomainLabel`: length of the label at the head, or −1. -/
def parseDomainLabel : Bytes → Int
  | [] => -1
  | c :: rest =>
    if !(isASCIILetter c || isASCIIDigit c) then -1 else
    let (e, last, remaining) := labelLoop rest 1 c
    if last == 0x2D then -1
    else match remaining with
      | d :: _ => if isLabelChar d then -1 else e
      | [] => e

/-- The `for end < len(text) && text[end] == '.'` loop of `parseEmail`, on the remaining bytes. -/
def emailDomainLoop : Bytes → Nat → Nat → Int
  | _, _, 0 => -1
  | text, e, fuel + 1 =>
    match text with
    | c :: rest =>
      if c == 0x2E then
        match parseDomainLabel rest with
        | Int.ofNat n => emailDomainLoop (rest.drop n) (e + 1 + n) fuel
        | _ => -1
      else e
    | [] => e

/-- `parseEmail`: end of the address at the head of `text`, or −1. -/
def parseEmail (text : Bytes) : Int :=
  let loc := (text.takeWhile isEmailLocal).length
  if loc == 0 then -1 else
  match text.drop loc with
  | [] => -1
  | c :: dom =>
    if c != 0x40 then -1 else
    match parseDomainLabel dom with
    | Int.ofNat n => emailDomainLoop (dom.drop n) (loc + 1 + n) (text.length + 1)
    | _ => -1

def isEmailAddress (s : Bytes) : Bool := parseEmail s == s.length

def isSchemeChar (c : UInt8) : Bool := isASCIILetter c || isASCIIDigit c || c == 0x2B || c == 0x2E || c == 0x2D

/-- URI part of `parseAutolink`: index of `>` + 1, or −1. -/
def autolinkURI : Bytes → Nat → Int
  | [], _ => -1
  | c :: rest, e =>
    if c == 0x3E then e + 1
    else if isASCIIControl c || c == SP || c == 0x3C then -1
    else autolinkURI rest (e + 1)

/-- inlines.go `parseAutolink`. -/
def parseAutolink (text : Bytes) : Int :=
  if text.length < 3 + minSchemeChars then -1 else
  match text with
  | [] => -1
  | c0 :: t1 =>
    if c0 != 0x3C then -1 else
    let emailEnd := parseEmail t1
    if emailEnd ≥ 0 && 1 + emailEnd < text.length && text[(1 + emailEnd).toNat]? == some 0x3E then 2 + emailEnd else
    match t1 with
    | [] => -1
    | c1 :: t2 =>
      if !isASCIILetter c1 then -1 else
      let e := 2 + (t2.takeWhile isSchemeChar).length
      if e < 1 + minSchemeChars || e > 1 + maxSchemeChars then -1 else
      match text.drop e with
      | [] => -1
      | c :: rest => if c != 0x3A then -1 else autolinkURI rest (e + 1)

end CM.Model
