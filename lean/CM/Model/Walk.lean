import CM.Basic.Tree
/-
Model of walk.go `Walk`: the literal explicit-stack loop with post frames.
Callbacks are state-passing (`σ` is whatever the callbacks close over in Go);
`none` models a nil `Pre`/`Post`. Custom `ChildCount`/`Child` functions are modelled by the tree
they present (e.g. `format.Format`'s virtual root is a node of kind 0 whose children are the roots).
-/
namespace CM.Model

/-- walk.go `Cursor`. `parent`/`block` are `none` for Go's zero `Node` / nil `*Block`. -/
structure Cursor where
  node : Tree
  parent : Option Tree := none
  block : Option Tree := none
  index : Int := -1
deriving Inhabited

structure WalkOpts (σ : Type) where
  pre : Option (Cursor → σ → Bool × σ) := none
  post : Option (Cursor → σ → Bool × σ) := none

structure Frame where
  cur : Cursor
  post : Bool := false

/-- The frames pushed for the children of `cur.node`, first child on top of the stack. -/
def childFramesFrom (parent : Tree) (block : Option Tree) : List Tree → Nat → List Frame
  | [], _ => []
  | c :: cs, i => { cur := { node := c, parent := some parent, block := block, index := i } }
                  :: childFramesFrom parent block cs (i + 1)

/-- `currBlock`: the node itself if it is a block, else the inherited block. -/
def blockFor (cur : Cursor) : Option Tree :=
  if cur.node.label.isBlock then some cur.node else cur.block

def childFrames (cur : Cursor) : List Frame :=
  childFramesFrom cur.node (blockFor cur) cur.node.children 0

/-- Termination measure of the loop: a pending node costs twice its size, a post frame 1. -/
def frameCost (f : Frame) : Nat := if f.post then 1 else 2 * f.cur.node.size

def stackCost : List Frame → Nat
  | [] => 0
  | f :: fs => frameCost f + stackCost fs

theorem stackCost_append (a b : List Frame) : stackCost (a ++ b) = stackCost a + stackCost b := by
  induction a with
  | nil => simp [stackCost]
  | cons f fs ih => simp [stackCost, ih, Nat.add_assoc]

theorem childFramesFrom_cost (p : Tree) (b : Option Tree) (cs : List Tree) (i : Nat) :
    stackCost (childFramesFrom p b cs i) = 2 * Tree.sizeL cs := by
  induction cs generalizing i with
  | nil => simp [childFramesFrom, stackCost, Tree.sizeL]
  | cons c cs ih =>
    simp [childFramesFrom, stackCost, frameCost, Tree.sizeL, ih]
    omega

theorem Tree.size_eq (t : Tree) : t.size = 1 + Tree.sizeL t.children := by
  cases t with
  | node l cs => simp [Tree.size, Tree.children]

/-- The loop of `Walk` on the stack (top = head of the list). -/
def walkLoop {σ : Type} (opts : WalkOpts σ) : List Frame → σ → σ
  | [], s => s
  | f :: rest, s =>
    if hp : f.post then
      match opts.post with
      | none => walkLoop opts rest s
      | some post =>
        let r := post f.cur s
        if r.1 then walkLoop opts rest r.2 else r.2      -- `break`
    else
      let r : Bool × σ := match opts.pre with
        | none => (true, s)
        | some pre => pre f.cur s
      if r.1 then
        walkLoop opts (childFrames f.cur ++ { cur := f.cur, post := true } :: rest) r.2
      else walkLoop opts rest r.2                        -- `continue`
termination_by st _ => stackCost st
decreasing_by
  all_goals simp only [stackCost, frameCost, hp, stackCost_append, childFrames, childFramesFrom_cost]
  all_goals simp
  all_goals (try (have := Tree.size_eq f.cur.node; omega))
  all_goals (try (cases hf : f.cur.node with | node l cs => simp [Tree.size]; omega))

/-- walk.go `Walk`. -/
def walk {σ : Type} (root : Tree) (opts : WalkOpts σ) (s : σ) : σ :=
  walkLoop opts [{ cur := { node := root } }] s

end CM.Model
