import CM.Model.Blocks
/-
Model of parse.go's `BlockParser`: `padNulls` / `nullCount` / `unpaddedNullLength` / `fillNulls`, `readline`
(LF / CR / CRLF with the one-byte look-ahead after a CR at the end of the buffer, chunked reads, the block-size
limit), `NextBlock` (left-over closed blocks first, blank-line skipping, the per-line loop), `makeRoot`
(offset / line bookkeeping, re-basing of the left-over siblings with `offsetTree`), and `Parse`'s construction of
the parser (buffer pre-filled, `err = io.EOF`).

The line parser is a parameter (`LineParserI`): the stream machine only needs to create one from the pending
blocks, feed it a line, and read the document's children back. `blocksLP` instantiates it with the block-phase
model of `CM.Model.Blocks`.

The reader is a script (`Reader`): remaining data, the sizes of the next reads (0 = empty read), whether the final
error arrives together with the last bytes, and the final error (end of input, or a failure code).
Slices alias in Go; here every buffer is a value, so "the caller's buffer is not modified" is not expressible in
this model (it is checked at run time by the harness).
-/
namespace CM.Model
open CM CM.Gen

/-! ### NUL padding -/

/-- `padNulls(b, start)`: every zero byte at or after `start` becomes as many zero bytes as U+FFFD has in UTF-8. -/
def padNulls (b : Bytes) (start : Nat) : Bytes :=
  b.take start ++ (b.drop start).flatMap fun c => if c == 0 then List.replicate nullReplacementString.length 0 else [c]

def nullCount (b : Bytes) : Nat := (b.filter (· == 0)).length

/-- `unpaddedNullLength`. -/
def unpaddedNullLength (b : Bytes) : Nat :=
  b.length - nullCount b / nullReplacementString.length * (nullReplacementString.length - 1)

/-- `fillNulls`: at every (still) zero byte, `copy(b[i:], "�")` (truncated at the end of the slice). -/
def fillNulls : Bytes → Bytes
  | [] => []
  | c :: rest =>
    if c != 0 then c :: fillNulls rest else
    let n := min nullReplacementString.length (rest.length + 1)
    nullReplacementString.take n ++ fillNulls (rest.drop (n - 1))
termination_by b => b.length
decreasing_by all_goals simp_wf <;> omega

/-! ### The reader script -/

inductive RErr where
  | eof
  | fail (code : Nat)
deriving Repr, BEq, DecidableEq

structure Reader where
  data : Bytes := []
  sched : List Nat := []
  eofWith : Bool := false
  fin : RErr := .eof
deriving Repr

/-- One `Read(p)` with `len(p) = req`: bytes delivered, error returned, the reader afterwards. -/
def Reader.read (r : Reader) (req : Nat) : Bytes × Option RErr × Reader :=
  if r.data.isEmpty && r.fin != .eof then ([], some r.fin, r) else
  let (n, sched) := match r.sched with
    | k :: rest => (min k req, rest)
    | [] => (req, [])
  let n := min n r.data.length
  let out := r.data.take n
  let rest := r.data.drop n
  let r' := { r with data := rest, sched := sched }
  let err : Option RErr :=
    if rest.isEmpty then
      (if r.fin == .eof then (if n == 0 || r.eofWith then some .eof else none)
       else (if n > 0 && r.eofWith then some r.fin else none))
    else none
  (out, err, r')

/-! ### Parser state -/

inductive PErr where
  | eof
  | reader (code : Nat)
  | tooLarge (line : Nat)
deriving Repr, BEq, DecidableEq

def PErr.ofR : RErr → PErr
  | .eof => .eof
  | .fail c => .reader c

structure BP where
  buf : Bytes := []
  offset : Nat := 0
  lineno : Nat := 1
  i : Nat := 0
  err : Option PErr := none
  rd : Reader := {}
  blocks : List PB := []
  /-- a Go panic site was reached (index out of range after `p.i -= n`, fuel) -/
  panic : Option String := none
deriving Inhabited

/-- `NewBlockParser(r)`. -/
def newBlockParser (r : Reader) : BP := { rd := r, lineno := 1 }

/-- The parser `Parse` builds: the whole (padded) input in the buffer, `err = io.EOF`. -/
def memParser (source : Bytes) : BP := { buf := padNulls source 0, err := some .eof, lineno := 1 }

/-! ### readline -/

def chunkSize : Nat := 8 * 1024
def maxBlockSize : Nat := 1024 * 1024

/-- `bytes.IndexAny(b, "\r\n")`. -/
def indexEOL : Bytes → Nat → Option Nat
  | [], _ => none
  | c :: rest, k => if c == CR || c == LF then some k else indexEOL rest (k + 1)

/-- Where the line that starts at `p.i` ends, if that can be decided with the bytes in the buffer
    (`none` = more data is needed). -/
def eolEnd? (p : BP) : Option Nat :=
  match indexEOL (p.buf.drop p.i) 0 with
  | some k =>
    let eolStart := p.i + k
    if p.buf.getD eolStart 0 == LF then some (eolStart + 1)
    else if eolStart + 1 < p.buf.length then
      some (if p.buf.getD (eolStart + 1) 0 == LF then eolStart + 2 else eolStart + 1)
    else if p.err.isSome then some p.buf.length
    else none
  | none => if p.err.isSome then some p.buf.length else none

/-- `readline`. Fuel: one unit per `Read`. -/
def readline : Nat → BP → Bool × BP
  | 0, p => (false, { p with panic := p.panic <|> some "readline: fuel" })
  | fuel + 1, p =>
    match eolEnd? p with
    | some e => (p.i < e, { p with i := e })
    | none =>
      let len := p.buf.length
      let newSize :=
        if len + chunkSize * nullReplacementString.length > maxBlockSize
        then len + (maxBlockSize - len) / nullReplacementString.length
        else len + chunkSize
      if newSize ≤ len then
        let buf := p.buf.take p.i
        (false, { p with buf := buf, err := some (.tooLarge (p.lineno + lineCount (buf.take p.i))) })
      else
        let (bytes, e, rd) := p.rd.read (newSize - len)
        readline fuel { p with buf := padNulls (p.buf ++ bytes) len, err := e.map PErr.ofR, rd := rd }

/-! ### makeRoot -/

structure Root where
  source : Bytes
  startLine : Nat
  startOffset : Nat
  endOffset : Nat
  block : PB
deriving Inhabited

mutual
def offsetTree (n : Int) : Tree → Tree
  | .node l cs => .node { l with start := l.start + n, stop := if l.stop ≥ 0 then l.stop + n else l.stop } (offsetTrees n cs)
def offsetTrees (n : Int) : List Tree → List Tree
  | [] => []
  | t :: ts => offsetTree n t :: offsetTrees n ts
end

mutual
/-- `offsetTree(b.AsNode(), n)` on a block under construction. -/
def offsetPB (n : Int) : PB → PB
  | .mk l bs is =>
    .mk { l with start := l.start + n, stop := if l.stop ≥ 0 then l.stop + n else l.stop } (offsetPBs n bs) (offsetTrees n is)
def offsetPBs (n : Int) : List PB → List PB
  | [] => []
  | b :: bs => offsetPB n b :: offsetPBs n bs
end

/-- `makeRoot(docChildren)`: cut the first child off if it is closed. -/
def makeRoot (p : BP) (kids : List PB) : Option (Root × BP) :=
  match kids with
  | [] => none
  | k :: rest =>
    if k.isOpen then none else
    let n := k.label.stop.toNat
    let head := p.buf.take n
    let orig := unpaddedNullLength head
    let root : Root := { source := fillNulls head, startLine := p.lineno, startOffset := p.offset,
                         endOffset := p.offset + orig, block := k }
    let p' := { p with
      blocks := offsetPBs (-(n : Int)) rest
      offset := p.offset + orig
      lineno := p.lineno + lineCount head
      buf := p.buf.drop n
      i := p.i - n
      panic := if n > p.i || n > p.buf.length then p.panic <|> some "makeRoot: block ends beyond the parse position" else p.panic }
    some (root, p')

/-! ### NextBlock -/

/-- What the stream machine needs from a line parser. -/
structure LineParserI where
  σ : Type
  /-- `newLineParser(p.blocks, …)` before its first `reset` -/
  new : List PB → σ
  /-- `reset(lineStart, source)` followed by the body of the per-line loop -/
  line : σ → Bytes → Nat → σ
  /-- `lp.root.blockChildren` -/
  kids : σ → List PB
  /-- a panic recorded by the line parser -/
  panicked : σ → Option String

inductive NBOut where
  | block (r : Root)
  | err (e : PErr)
  | panic (msg : String)
deriving Inhabited

/-- The blank-line skipping loop. `none` = `return nil, p.err`. -/
def skipBlank : Nat → BP → Option BP × BP
  | 0, p => (none, { p with panic := p.panic <|> some "skipBlank: fuel" })
  | fuel + 1, p =>
    let (ok, p) := readline (p.rd.data.length + p.rd.sched.length + 2) p
    if !ok then (none, p)
    else if !isBlankLine (p.buf.take p.i) then (some p, p)
    else
      skipBlank fuel { p with offset := p.offset + unpaddedNullLength (p.buf.take p.i), lineno := p.lineno + 1,
                              buf := p.buf.drop p.i, i := 0 }

/-- The per-line loop. -/
def parseLines (L : LineParserI) : Nat → L.σ → Nat → BP → NBOut × BP
  | 0, _, _, p => (.panic "parseLines: fuel", p)
  | fuel + 1, lp, lineStart, p =>
    let lp := L.line lp (p.buf.take p.i) lineStart
    match L.panicked lp with
    | some m => (.panic m, p)
    | none =>
      match makeRoot p (L.kids lp) with
      | some (r, p') => (.block r, p')
      | none =>
        let ls := p.i
        let (_, p) := readline (p.rd.data.length + p.rd.sched.length + 2) p
        parseLines L fuel lp ls p

def bpFuel (p : BP) : Nat := p.buf.length + p.rd.data.length + p.rd.sched.length + 4

/-- `(*BlockParser).NextBlock`. -/
def nextBlock (L : LineParserI) (p : BP) : NBOut × BP :=
  match makeRoot p p.blocks with
  | some (r, p') => (.block r, p')
  | none =>
    let fuel := bpFuel p
    if p.blocks.length > 0 then
      let ls := p.i
      let (_, p) := readline (p.rd.data.length + p.rd.sched.length + 2) p
      parseLines L fuel (L.new p.blocks) ls p
    else
      let head := p.buf.take p.i
      let p := { p with offset := p.offset + unpaddedNullLength head, lineno := p.lineno + lineCount head,
                        buf := p.buf.drop p.i, i := 0 }
      match skipBlank fuel p with
      | (none, p) => (match p.panic with
          | some m => (.panic m, p)
          | none => (.err (p.err.getD .eof), p))
      | (some p, _) => parseLines L fuel (L.new p.blocks) 0 p

/-- Call `NextBlock` until it reports an error: the blocks delivered, the error, the final state. -/
def drain (L : LineParserI) : Nat → BP → List Root → List Root × NBOut × BP
  | 0, p, acc => (acc.reverse, .panic "drain: fuel", p)
  | fuel + 1, p, acc =>
    match nextBlock L p with
    | (.block r, p') => drain L fuel p' (r :: acc)
    | (o, p') => (acc.reverse, o, p')

/-! ### The block-phase line parser of `CM.Model.Blocks` as a `LineParserI` -/

def LP.reset (p : LP) (source : Bytes) (lineStart : Nat) : LP :=
  ({ p with lineStart := lineStart, source := source, line := source.drop lineStart, i := 0, col := 0, depth := 0 }).updateTabRemaining

def docRoot (children : List PB) : PB := .mk { kind := BK.document, start := 0, stop := -1 } children []

def blocksLP (x : PExt) : LineParserI where
  σ := LP
  new children := { source := [], root := docRoot children, lineStart := 0, line := [] }
  line lp source lineStart := processLine x (lp.reset source lineStart)
  kids lp := lp.root.blocks
  panicked lp := lp.panic

/-- Block-phase tree of a finished block, as the upper-layer `Tree`. -/
def pbToTree : PB → Tree
  | .mk l bs is =>
    .node { isBlock := true, kind := l.kind, start := l.start, stop := l.stop, n := l.n, char := l.char,
            loose := l.loose, indent := l.indent } (if bs.isEmpty then is else pbsToTrees bs)
where
  pbsToTrees : List PB → List Tree
    | [] => []
    | b :: bs => pbToTree b :: pbsToTrees bs

end CM.Model
