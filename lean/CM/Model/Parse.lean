import CM.Model.Stream
import CM.Model.Refs
import CM.Model.Inlines
/-
Model of parse.go `Parse`: the in-memory block parser drained to `io.EOF` (`memParser` / `nextBlock`),
`refMap.Extract` on every root as it is delivered, then `InlineParser{ReferenceMatcher: refMap}.Rewrite` on
every root.
-/
namespace CM.Model
open CM

structure ParsedRoot where
  root : Root
  /-- the fully parsed tree (or the marker tree of `Inl.errTree`) -/
  tree : Except IErr Tree

structure ParseResult where
  roots : List ParsedRoot
  refs : RefMap
  /-- how the `NextBlock` loop ended: `.err .eof` is the normal return; anything else is the `panic(err)` of `Parse`
      (or a panic of the block phase) -/
  ending : NBOut

/-- `Parse(source)`. -/
def parseDoc (x : PExt) (ix : IExt) (source : Bytes) : ParseResult :=
  let (roots, out, _) := drain (blocksLP x) (source.length + 8) (memParser source) []
  let pre := roots.map fun r => (r.source, pbToTree r.block)
  let refs := extractAll x.ext pre []
  let matchRef := fun k => (refs.lookup k).isSome
  { roots := roots.map fun r => { root := r, tree := Inl.rewriteE ix r.source r.source.toArray matchRef (pbToTree r.block) },
    refs := refs, ending := out }

end CM.Model
