import CM.Model.Lines
import CM.Gen.Dispatch
/-
Model of the block phase of blocks.go / parse.go: `close` with the `onClose` hooks (list looseness,
trailing blank lines of indented code, link reference definitions split off a paragraph), `openBlock`,
`CollectInline`, `EndBlock`, the `blockStarts` in source order, the `blockRules` match functions,
`descendOpenBlocks`, `openNewBlocks`, `addLineText`.
-/
namespace CM.Model
open CM CM.Gen

/-- External functions the block phase needs. -/
structure PExt where
  ext : Ext
  /-- `cases.Fold().String` -/
  fold : Bytes → Bytes

/-! ### onClose hooks -/

/-- `endsWithBlankLine` of the ListKind hook. -/
def endsWithBlankLine : PB → Bool
  | .mk l bs _ =>
    if l.lastLineBlank then true
    else if l.kind != BK.list && l.kind != BK.listItem then false
    else match h : bs.getLast? with
      | some c => endsWithBlankLine c
      | none => false
termination_by b => sizeOf b
decreasing_by
  have := List.sizeOf_lt_of_mem (List.mem_of_getLast? h)
  simp_wf
  omega

/-- Is the list loose? (`determineLoose` loop) -/
def listIsLoose (items : List PB) : Bool :=
  let n := items.length
  (items.zipIdx).any fun (item, i) =>
    (i < n - 1 && endsWithBlankLine item) ||
    (let subs := item.blocks
     let m := subs.length
     (subs.zipIdx).any fun (sub, j) => (i < n - 1 || j < m - 1) && endsWithBlankLine sub)

/-- ListKind onClose: is the list loose? (decided before the open descendants are closed) -/
def listLooseAtClose (l : PLabel) (items : List PB) : Bool := l.loose || listIsLoose items

/-- IndentedCodeBlockKind onClose: drop trailing blank text lines (and the synthetic end-of-input line break
    that follows a blank last line). -/
def indentedOnClose (src : Bytes) : PB → PB
  | .mk l bs is =>
    let is :=
      match is.reverse with
      | sb :: prev :: rest =>
        if Node.isI sb IK.softBreak && Node.spanLen sb == 0 && Node.isI prev IK.text && isBlankLine (Node.slice src prev)
        then (prev :: rest).reverse else is
      | _ => is
    let rec trim : List Tree → List Tree
      | [] => []
      | c :: rest => if Node.isI c IK.text && isBlankLine (Node.slice src c) then trim rest else c :: rest
    .mk l bs (trim is.reverse).reverse

def mkInlineRef (kind : Nat) (start stop : Int) (ref : Bytes) (kids : List Tree) : Tree :=
  .node { isBlock := false, kind := kind, start := start, stop := stop, ref := ref } kids

def mkPB (kind : Nat) (start stop : Int) (inlines : List Tree) : PB :=
  .mk { kind := kind, start := start, stop := stop } [] inlines

/-- The loop of `onCloseParagraph`. `orig` = the original block's label and remaining inline children;
    `result` = blocks split off so far. -/
def refDefLoop (x : PExt) (src : Bytes) (orphan : Option PB) :
    Nat → Rd → PLabel → List Tree → List PB → List PB
  | 0, _, l, is, result => result ++ [.mk l [] is]
  | fuel + 1, r, l, is, result =>
    let original : PB := .mk l [] is
    let fl := rdFuel src is
    let giveUp := result ++ [original]
    let withOrphan (res : List PB) : List PB := match orphan with
      | some o => res ++ [o]
      | none => res
    let (label, r) := parseLinkLabel src fl r
    if !label.span.isValid then giveUp else
    let (c, r) := r.current src
    if c != 0x3A then giveUp else
    let (_, r) := r.next src
    let (ok, r) := skipLinkSpace src fl r
    if !ok then giveUp else
    let (dest, r) := parseLinkDestination src fl r
    if !dest.span.isValid then giveUp else
    let sepPoint := r.pos
    let (destEOL, r) := readEOL src fl r
    let cloned := r
    let (c, r) := r.current src
    if destEOL < 0 && r.pos == sepPoint && c != 0 then giveUp else
    let labelInline := mkInlineRef IK.linkLabel label.inner.start label.inner.stop
      (transformLinkReferenceSpan x.fold src is label.inner.start.toNat label.inner.stop.toNat)
      (collectTextNodes x.ext src label.inner.stop.toNat IK.text false fl
        (newReader is label.inner.start.toNat) label.inner.start.toNat [])
    let destInline := mkInline IK.linkDest dest.span.start dest.span.stop
      (collectTextNodes x.ext src dest.text.stop.toNat IK.text true fl
        (newReader is dest.text.start.toNat) dest.text.start.toNat [])
    let newBlock (stop : Int) (kids : List Tree) : PB := mkPB BK.linkRefDef label.span.start stop kids
    let (ok, r) := skipLinkSpace src fl r
    if !ok then withOrphan (result ++ [newBlock destEOL [labelInline, destInline]]) else
    let (title, r) := parseLinkTitle src fl r
    if !title.span.isValid then
      if destEOL < 0 then giveUp else
      let result := result ++ [newBlock destEOL [labelInline, destInline]]
      match nodeIndexForPosition is cloned.pos 0 with
      | none => withOrphan result
      | some fc => refDefLoop x src orphan fuel cloned { l with start := cloned.pos } (is.drop fc) result
    else
    let (titleEOL, r) := readEOL src fl r
    if titleEOL < 0 then
      if destEOL < 0 then giveUp else
      let result := result ++ [newBlock destEOL [labelInline, destInline]]
      match nodeIndexForPosition is cloned.pos 0 with
      | none => withOrphan result
      | some fc => result ++ [.mk { l with start := cloned.pos } [] (is.drop fc)]
    else
    let titleInline := mkInline IK.linkTitle title.span.start title.span.stop
      (collectTextNodes x.ext src title.text.stop.toNat IK.text true fl
        (newReader is title.text.start.toNat) title.text.start.toNat [])
    let result := result ++ [newBlock titleEOL [labelInline, destInline, titleInline]]
    match nodeIndexForPosition is r.pos 0 with
    | none => withOrphan result
    | some fc => refDefLoop x src orphan fuel r { l with start := r.pos } (is.drop fc) result

/-- blocks.go `onCloseParagraph` (ParagraphKind and SetextHeadingKind). -/
def onCloseParagraph (x : PExt) (src : Bytes) : PB → List PB
  | .mk l bs is =>
    match is with
    | [] => [.mk l bs is]
    | first :: _ =>
      let contentStart := first.label.start.toNat
      let orphan : Option PB :=
        if l.kind == BK.setextHeading then
          let blockStart := (is.getLast?.map (·.label.stop)).getD 0
          -- scan back from the end of the block over the underline
          let endPos := l.stop.toNat
          let body := (src.take endPos).drop blockStart.toNat
          let noWs := (body.reverse.dropWhile isSpaceTabOrLineEnding)
          let lineStartPos : Nat :=
            match noWs with
            | [] => blockStart.toNat
            | u :: _ => blockStart.toNat + (noWs.dropWhile (· == u)).length
          some (mkPB BK.paragraph blockStart (-1) [mkInline IK.unparsed lineStartPos l.stop])
        else none
      refDefLoop x src orphan (is.length + 2) (newReader is contentStart) l is []

/-! ### close -/

mutual
/-- `(*Block).close`: closes `b` and its open descendants top-down; the result replaces `b` in its parent. -/
def closeBlock (x : PExt) (src : Bytes) (endPos : Int) : PB → List PB
  | .mk l bs is =>
    if l.stop ≥ 0 then [.mk l bs is] else
    let l := { l with stop := endPos }
    if l.kind == BK.list then
      if listLooseAtClose l bs then
        [.mk { l with loose := true } ((closeLast x src endPos bs).map (PB.setLabel fun il => { il with loose := true })) is]
      else [.mk l (closeLast x src endPos bs) is]
    else if l.kind == BK.paragraph || l.kind == BK.setextHeading then onCloseParagraph x src (.mk l bs is)
    else if l.kind == BK.indentedCode then [indentedOnClose src (.mk l bs is)]
    else [.mk l (closeLast x src endPos bs) is]
/-- Close the last block of a child list (if it is open). -/
def closeLast (x : PExt) (src : Bytes) (endPos : Int) : List PB → List PB
  | [] => []
  | [b] => closeBlock x src endPos b
  | b :: rest => b :: closeLast x src endPos rest
end

namespace LP

/-- `p.container.close(p.source, parent, end); p.container = parent` for a container at depth ≥ 1. -/
def closeContainer (x : PExt) (p : LP) (endPos : Int) : LP :=
  if p.depth == 0 then
    -- the document block itself (end of input)
    { p with root := (closeBlock x p.source endPos p.root).headD p.root }
  else
    { p with root := spineReplaceLast (closeBlock x p.source endPos) p.root (p.depth - 1), depth := p.depth - 1 }

/-- `p.container.lastChild().Block().close(p.source, p.container, end)` -/
def closeLastChild (x : PExt) (p : LP) (endPos : Int) : LP :=
  { p with root := spineReplaceLast (closeBlock x p.source endPos) p.root p.depth }

/-- `openBlock(kind)` with the attribute setters of the `Open…Block` wrappers folded in. -/
def openBlockLoop (x : PExt) (kind : Nat) : Nat → LP → LP
  | 0, p => p
  | fuel + 1, p =>
    if canContain p.containerKind kind then p
    else if p.depth == 0 then p.setPanic "openBlock: no ancestor can contain the block"
    else openBlockLoop x kind fuel (p.closeContainer x p.lineStart)

def openBlock (x : PExt) (p : LP) (kind : Nat) (setAttrs : PLabel → PLabel := id) : LP :=
  if p.state == stateDescending || p.state == stateDescendTerminated then p.setPanic "OpenBlock cannot be called in this context" else
  let p := p.markMatched
  let p := openBlockLoop x kind (p.depth + 1) p
  let p := p.closeLastChild x p.lineStart
  let child : PB := .mk (setAttrs { kind := kind, start := p.lineStart + p.i }) [] []
  let root := spineModify (fun b => match b with | .mk l bs is => .mk l (bs ++ [child]) is) p.root p.depth
  { p with root := root, depth := p.depth + 1 }

def modifyContainer (p : LP) (f : PB → PB) : LP := { p with root := spineModify f p.root p.depth }

def appendInline (p : LP) (t : Tree) : LP :=
  p.modifyContainer fun b => match b with | .mk l bs is => .mk l bs (is ++ [t])

/-- `SetContainerIndent`. -/
def setContainerIndent (p : LP) (n : Int) : LP :=
  if p.state == stateOpening || p.state == stateDescending || p.state == stateDescendTerminated then
    p.setPanic "SetContainerIndent cannot be called in this context"
  else if p.containerKind != BK.listItem && p.containerKind != BK.fencedCode then p.setPanic "can't set indent for this block type"
  else p.modifyContainer (PB.setLabel fun l => { l with indent := n })

/-- `parseInfoString`. -/
def infoStringLoop (ext : Ext) (src : Bytes) (stop : Nat) : Nat → Nat → Nat → List Tree → List Tree
  | 0, _, _, acc => acc
  | fuel + 1, i, plainStart, acc =>
    if i ≥ stop then (if plainStart < stop then acc ++ [mkInline IK.text plainStart stop] else acc) else
    let c := src.getD i 0
    if c == 0x5C then
      if i + 1 ≥ stop || !isASCIIPunctuation (src.getD (i + 1) 0) then infoStringLoop ext src stop fuel (i + 1) plainStart acc
      else
        let acc := if plainStart < i then acc ++ [mkInline IK.text plainStart i] else acc
        infoStringLoop ext src stop fuel (i + 2) (i + 2) (acc ++ [mkInline IK.text (i + 1) (i + 2)])
    else if c == 0x26 then
      match parseCharacterEscape ext ((src.take stop).drop i) with
      | Int.ofNat e =>
        if e == 0 then infoStringLoop ext src stop fuel (i + 1) plainStart acc else
        let acc := if plainStart < i then acc ++ [mkInline IK.text plainStart i] else acc
        infoStringLoop ext src stop fuel (i + e) (i + e) (acc ++ [mkInline IK.charRef i (i + e)])
      | _ => infoStringLoop ext src stop fuel (i + 1) plainStart acc
    else infoStringLoop ext src stop fuel (i + 1) plainStart acc

/-- `CollectInline(kind, n)`. -/
def collectInline (x : PExt) (p : LP) (kind : Nat) (n : Nat) : LP :=
  if p.state == stateDescendTerminated then p.setPanic "CollectInline cannot be called in this context" else
  let p := p.markMatched
  let ind := p.indent
  let p :=
    if ind > 0 then
      let indentStart := p.lineStart + p.i
      let p := p.advance (indentLength (p.line.drop p.i))
      p.appendInline (.node { isBlock := false, kind := IK.indent, start := indentStart, stop := p.lineStart + p.i, indent := ind } [])
    else p
  let start := p.lineStart + p.i
  let p := p.advance n
  let stop := p.lineStart + p.i
  if kind == IK.infoString then
    p.appendInline (mkInline IK.infoString start stop (infoStringLoop x.ext p.source stop (stop - start + 1) start start []))
  else p.appendInline (mkInline kind start stop)

/-- `EndBlock()`. -/
def endBlock (x : PExt) (p : LP) : LP :=
  if p.state == stateDescending || p.state == stateDescendTerminated then p.setPanic "EndBlock cannot be called in this context" else
  let p := p.markMatched
  p.closeContainer x (p.lineStart + p.i)

/-- `TipKind()`. -/
def tipKind (p : LP) : Nat := ((spineGet p.root (tipDepth p.root 0)).getD p.root).kind

end LP

/-! ### blockStarts (in the order of the Go slice) -/

def modelBlockStartsOrder : List String :=
  ["BlockQuoteKind", "ATXHeadingKind", "FencedCodeBlockKind", "HTMLBlockKind", "SetextHeadingKind",
   "ThematicBreakKind", "ListKind+ListItemKind+ListMarkerKind", "IndentedCodeBlockKind"]

def startBlockQuote (x : PExt) (p : LP) : LP :=
  let ind := p.indent
  if ind ≥ codeBlockIndentLimit then p else
  if !hasBytePrefix p.bytesAfterIndent blockQuotePrefix then p else
  let p := p.consumeIndentN ind
  let p := p.openBlock x BK.blockQuote
  let p := p.advance blockQuotePrefix.length
  if p.indent > 0 then p.consumeIndentN 1 else p

def startATX (x : PExt) (p : LP) : LP :=
  let ind := p.indent
  if ind ≥ codeBlockIndentLimit then p else
  let h := parseATXHeading p.bytesAfterIndent
  if h.level < 1 then p else
  let p := p.consumeIndentN ind
  let p := p.openBlock x BK.atxHeading (fun l => { l with n := h.level })
  let p := p.advance h.start
  let p := p.collectInline x IK.unparsed (h.stop - h.start)
  let p := p.consumeLine
  p.endBlock x

def startFenced (x : PExt) (p : LP) : LP :=
  let ind := p.indent
  if ind ≥ codeBlockIndentLimit then p else
  let f := parseCodeFence p.bytesAfterIndent
  if f.n == 0 then p else
  let p := p.consumeIndentN ind
  let p := p.openBlock x BK.fencedCode (fun l => { l with char := f.char, n := f.n })
  let p := p.setContainerIndent ind
  let p := if f.infoStart ≥ 0 && f.infoEnd ≥ 0 && f.infoStart ≤ f.infoEnd then
      (p.advance f.infoStart.toNat).collectInline x IK.infoString (f.infoEnd - f.infoStart).toNat
    else p
  p.consumeLine

def htmlStartLoop (x : PExt) (line : Bytes) : Nat → Nat → LP → LP
  | 0, _, p => p
  | fuel + 1, i, p =>
    if i ≥ 7 then p else
    if htmlBlockStart i line then
      if !htmlBlockCanInterrupt i && p.containerKind == BK.paragraph then p else
      let p := p.openBlock x BK.htmlBlock (fun l => { l with n := i })
      if htmlBlockEnd i line then
        let p := p.collectInline x IK.rawHTML p.bytesAfterIndent.length
        let p := p.consumeLine
        p.endBlock x
      else p
    else htmlStartLoop x line fuel (i + 1) p

def startHTML (x : PExt) (p : LP) : LP :=
  let ind := p.indent
  if ind ≥ codeBlockIndentLimit then p else
  let line := p.bytesAfterIndent
  if line.head? != some 0x3C then p else htmlStartLoop x line 8 0 p

def startSetext (x : PExt) (p : LP) : LP :=
  if p.containerKind != BK.paragraph then p else
  let ind := p.indent
  if ind ≥ codeBlockIndentLimit then p else
  let level := parseSetextHeadingUnderline p.bytesAfterIndent
  if level == 0 then p else
  let p := p.modifyContainer (PB.setLabel fun l => { l with kind := BK.setextHeading, n := level })
  let p := p.consumeLine
  p.endBlock x

def startThematicBreak (x : PExt) (p : LP) : LP :=
  let ind := p.indent
  if ind ≥ codeBlockIndentLimit then p else
  let e := parseThematicBreak p.bytesAfterIndent
  if e < 0 then p else
  let p := p.consumeIndentN ind
  let p := p.openBlock x BK.thematicBreak
  let p := p.advance e.toNat
  let p := p.consumeLine
  p.endBlock x

def startListItem (x : PExt) (p : LP) : LP :=
  let ind := p.indent
  if ind ≥ codeBlockIndentLimit then p else
  let m := parseListMarker p.bytesAfterIndent
  let ordered := m.delim == 0x2E || m.delim == 0x29
  if m.stop < 0 || (p.containerKind == BK.paragraph && ordered && m.n != 1) then p else
  if p.containerKind == BK.paragraph && isBlankLine (p.bytesAfterIndent.drop m.stop.toNat) then p else
  let p := p.consumeIndentN ind
  let delimOf (p : LP) : UInt8 :=
    if p.containerKind != BK.list && p.containerKind != BK.listItem then 0 else p.container.label.char
  let p := if p.containerKind != BK.list || delimOf p != m.delim then
      p.openBlock x BK.list (fun l => { l with char := m.delim })
    else p
  let p := p.openBlock x BK.listItem (fun l => { l with char := m.delim })
  let p := p.openBlock x BK.listMarker
  let p := p.advance m.stop.toNat
  let p := p.endBlock x
  if p.isRestBlank then
    let p := p.setContainerIndent (ind + m.stop.toNat + 1)
    p.consumeLine
  else
    let padding := p.indent
    if padding < 1 then p.setContainerIndent (ind + m.stop.toNat + 1)
    else if padding > 4 then (p.consumeIndentN 1).setContainerIndent (ind + m.stop.toNat + 1)
    else (p.consumeIndentN padding).setContainerIndent (ind + m.stop.toNat + padding)

def startIndentedCode (x : PExt) (p : LP) : LP :=
  if p.indent < codeBlockIndentLimit || p.isRestBlank || p.tipKind == BK.paragraph then p else
  let p := p.consumeIndentN codeBlockIndentLimit
  p.openBlock x BK.indentedCode

def blockStartFns (x : PExt) : List (LP → LP) :=
  [startBlockQuote x, startATX x, startFenced x, startHTML x, startSetext x, startThematicBreak x,
   startListItem x, startIndentedCode x]

/-! ### blockRules: match -/

/-- `blockRules[kind].match`; `none` = the rule has no match function. -/
def ruleMatch (x : PExt) (kind : Nat) (p : LP) : Option (Bool × LP) :=
  if kind == BK.document || kind == BK.list then some (true, p)
  else if kind == BK.listItem then
    if p.isRestBlank then
      if !(p.containerKind == BK.listItem && p.container.childCount > 1) then some (false, p)
      else some (true, p.consumeIndentN p.indent)
    else match p.containerIndent with
      | some ci => if (p.indent : Int) ≥ ci then some (true, p.consumeIndentN ci.toNat) else some (false, p)
      | none => some (false, p)
  else if kind == BK.blockQuote then
    let ind := p.indent
    if ind ≥ codeBlockIndentLimit then some (false, p)
    else if !hasBytePrefix p.bytesAfterIndent blockQuotePrefix then some (false, p)
    else
      let p := (p.consumeIndentN ind).advance blockQuotePrefix.length
      some (true, if p.indent > 0 then p.consumeIndentN 1 else p)
  else if kind == BK.fencedCode then
    let lineIndent := p.indent
    let closing :=
      lineIndent < codeBlockIndentLimit &&
        (let f := parseCodeFence p.bytesAfterIndent
         f.n > 0 && !(f.infoStart ≥ 0 && f.infoEnd ≥ 0 && f.infoStart ≤ f.infoEnd)
           && f.char == p.container.label.char && (f.n : Int) ≥ p.container.label.n)
    if closing then some (false, p.consumeLine)
    else
      let bi := (p.containerIndent.getD 0).toNat
      some (true, if lineIndent < bi then p.consumeIndentN lineIndent else p.consumeIndentN bi)
  else if kind == BK.indentedCode then
    let ind := p.indent
    if ind < codeBlockIndentLimit then
      if !p.isRestBlank then some (false, p) else some (true, p.consumeIndentN ind)
    else some (true, p.consumeIndentN codeBlockIndentLimit)
  else if kind == BK.htmlBlock then
    if htmlBlockEnd p.container.label.n.toNat p.bytesAfterIndent then
      if p.isRestBlank then some (false, p)
      else
        let p := p.collectInline x IK.rawHTML p.bytesAfterIndent.length
        some (false, p.consumeLine)
    else some (true, p)
  else if kind == BK.paragraph then some (!p.isRestBlank, p)
  else none     -- ATX heading, setext heading, thematic break, …: no match function

/-- `descendOpenBlocks`: returns `allMatched`. The container ends as the last matched block. -/
def descendLoop (x : PExt) : Nat → LP → Nat → Bool × LP
  | 0, p, parent => (true, { p with depth := parent })
  | fuel + 1, p, parent =>
    -- p.container = parent.lastChild()
    match spineGet p.root (parent + 1) with
    | none => (true, { p with depth := parent })
    | some c =>
      if !c.isOpen then (true, { p with depth := parent }) else
      let p := { p with depth := parent + 1 }
      match ruleMatch x c.kind { p with state := stateDescending } with
      | none => (false, { p with depth := parent })
      | some (ok, p) =>
        if p.state == stateDescendTerminated then
          let p := p.closeContainer x (p.lineStart + p.i)
          (true, { p with depth := parent })
        else if !ok then (false, { p with depth := parent })
        else descendLoop x fuel p (parent + 1)

def spineLength : PB → Nat
  | .mk _ bs _ => match h : bs.getLast? with
    | some c => 1 + spineLength c
    | none => 0
termination_by b => sizeOf b
decreasing_by
  have := List.sizeOf_lt_of_mem (List.mem_of_getLast? h)
  simp_wf
  omega

def descendOpenBlocks (x : PExt) (p : LP) : Bool × LP := descendLoop x (spineLength p.root + 1) p 0

/-- One pass over `blockStarts`; returns the state after the first start that did something. -/
def tryStarts : List (LP → LP) → LP → LP
  | [], p => p
  | f :: rest, p =>
    let p' := f { p with state := stateOpening }
    if p'.state == stateOpenMatched || p'.state == stateLineConsumed then p' else tryStarts rest p'

/-- The `openingLoop`. Returns `hasText`. -/
def openingLoop (x : PExt) : Nat → LP → Bool × LP
  | 0, p => (true, p)
  | fuel + 1, p =>
    if !(p.containerKind == BK.paragraph || !acceptsLines p.containerKind) then (true, p) else
    let p' := tryStarts (blockStartFns x) p
    if p'.state == stateOpenMatched then openingLoop x fuel p'
    else if p'.state == stateLineConsumed then (false, p')
    else (true, p')

/-- `openNewBlocks`. -/
def openNewBlocks (x : PExt) (p : LP) (allMatched : Bool) : Bool × LP :=
  if p.line.isEmpty then
    -- end of input: close the document block
    (false, { p with depth := 0 }.closeContainer x p.lineStart)
  else
    let (hasText, p) := openingLoop x (p.line.length + 8) p
    if allMatched then (hasText, p) else
    -- deferred: paragraph continuation text, or close the unmatched blocks
    let tip := tipDepth p.root 0
    if !p.isRestBlank && ((spineGet p.root tip).getD p.root).kind == BK.paragraph then (hasText, { p with depth := tip })
    else (hasText, p.closeLastChild x p.lineStart)

/-- Set `lastLineBlank` on the container and all its ancestors. -/
def setBlankFlags (v : Bool) : PB → Nat → PB
  | .mk l bs is, 0 => .mk { l with lastLineBlank := v } bs is
  | .mk l bs is, d + 1 =>
    match bs.getLast? with
    | some c => .mk { l with lastLineBlank := v } (bs.dropLast ++ [setBlankFlags v c d]) is
    | none => .mk { l with lastLineBlank := v } bs is

/-- parse.go `addLineText`. -/
def addLineText (x : PExt) (p : LP) : LP :=
  let isBlank := p.isRestBlank
  -- the container's last child ends in a blank line
  let p := if isBlank then
      { p with root := spineModify (fun b => match b with
          | .mk l bs is => match bs.getLast? with
            | some c => .mk l (bs.dropLast ++ [c.setLabel fun cl => { cl with lastLineBlank := true }]) is
            | none => .mk l bs is) p.root p.depth }
    else p
  let k := p.containerKind
  let lastLineBlank := isBlank && !(k == BK.blockQuote || k == BK.fencedCode ||
    (k == BK.listItem && p.container.childCount == 1 && p.container.label.start ≥ p.lineStart))
  let p := { p with root := setBlankFlags lastLineBlank p.root p.depth }
  let k := p.containerKind
  let cont : Option LP :=
    if acceptsLines k then
      if p.i < p.line.length && p.line.getD p.i 0 == TAB && p.tabRem > 0 && p.tabPartial then
        let p := p.appendInline (.node { isBlock := false, kind := IK.indent, start := p.lineStart + p.i, stop := p.lineStart + p.i + 1, indent := p.tabRem } [])
        some (p.consumeIndentN p.tabRem)
      else some p
    else if !isBlank then
      let p := p.openBlock x BK.paragraph
      some (p.consumeIndentN p.indent)
    else none
  match cont with
  | none => p
  | some p =>
    let k := p.containerKind
    let isCode := k == BK.indentedCode || k == BK.fencedCode
    let inlineKind := if isCode then IK.text else if k == BK.htmlBlock then IK.rawHTML else IK.unparsed
    let p := p.appendInline (mkInline inlineKind (p.lineStart + p.i) (p.lineStart + p.line.length))
    if isCode && !hasByteSuffix p.line [LF] && !hasByteSuffix p.line [CR] then
      p.appendInline (mkInline IK.softBreak (p.lineStart + p.line.length) (p.lineStart + p.line.length))
    else p

/-- One line through the line parser (the body of the `for` loop in `NextBlock`). -/
def processLine (x : PExt) (p : LP) : LP :=
  let (allMatched, p) := descendOpenBlocks x p
  if p.state == stateDescendTerminated then p else
  let (hasText, p) := openNewBlocks x p allMatched
  if hasText then addLineText x p else p

end CM.Model
