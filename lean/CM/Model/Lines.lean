import CM.Model.HTMLTag
/-
Model of blocks.go `lineParser`: the cursor on a line (byte position, column, partially consumed tab),
the parser states, and the tree under construction.

The tree under construction is `PB`. Only the last child of a block can be open, so the Go pointers
`p.container`, `findParent`, `findTip` are positions on the *last-child spine* of the root: the container is
identified by its depth on that spine (0 = the document block).
Go panics (`Advance` past the end of the line, `ConsumeIndent` past the indentation, the context checks of
`OpenBlock`/`EndBlock`/…) are recorded in `LP.panic` instead of being defaulted away.
-/
namespace CM.Model
open CM CM.Gen

/-- The fields of a `Block` during block parsing. -/
structure PLabel where
  kind : Nat
  start : Int
  /-- `span.End`; −1 while the block is open -/
  stop : Int := -1
  n : Int := 0
  char : UInt8 := 0
  indent : Int := 0
  loose : Bool := false
  lastLineBlank : Bool := false
deriving Repr, BEq, Inhabited

/-- A block under construction: block children or inline children (never both). -/
inductive PB where
  | mk (l : PLabel) (blocks : List PB) (inlines : List Tree)
deriving Inhabited

namespace PB
def label : PB → PLabel | mk l _ _ => l
def blocks : PB → List PB | mk _ b _ => b
def inlines : PB → List Tree | mk _ _ i => i
def kind (b : PB) : Nat := b.label.kind
def isOpen (b : PB) : Bool := b.label.stop < 0
def setLabel (f : PLabel → PLabel) : PB → PB | mk l b i => mk (f l) b i
def childCount : PB → Nat | mk _ b i => if b.length > 0 then b.length else i.length
/-- `lastChild().Block()` -/
def lastBlock : PB → Option PB | mk _ b _ => b.getLast?
end PB

/-- The block at depth `d` on the last-child spine (`none` if the spine is shorter). -/
def spineGet : PB → Nat → Option PB
  | b, 0 => some b
  | .mk _ bs _, d + 1 => match bs.getLast? with
    | some c => spineGet c d
    | none => none

/-- Apply `f` to the block at depth `d` on the last-child spine. -/
def spineModify (f : PB → PB) : PB → Nat → PB
  | b, 0 => f b
  | .mk l bs is, d + 1 => match bs.getLast? with
    | some c => .mk l (bs.dropLast ++ [spineModify f c d]) is
    | none => .mk l bs is

/-- Replace the block at depth `d + 1` (the last child of the block at depth `d`) by a list of blocks. -/
def spineReplaceLast (f : PB → List PB) (root : PB) (d : Nat) : PB :=
  spineModify (fun p => match p with
    | .mk l bs is => match bs.getLast? with
      | some c => .mk l (bs.dropLast ++ f c) is
      | none => .mk l bs is) root d

/-- Depth of the deepest open block (`findTip`): the last open block on the spine. -/
def tipDepth : PB → Nat → Nat
  | .mk _ bs _, d => match h : bs.getLast? with
    | some c => if c.isOpen then tipDepth c (d + 1) else d
    | none => d
termination_by b => sizeOf b
decreasing_by
  have := List.sizeOf_lt_of_mem (List.mem_of_getLast? h)
  simp_wf
  omega

structure LP where
  source : Bytes
  root : PB
  /-- depth of `p.container` on the last-child spine -/
  depth : Nat := 0
  lineStart : Nat
  line : Bytes
  i : Nat := 0
  col : Nat := 0
  tabRem : Nat := 0
  /-- some columns of the current tab character have been consumed -/
  tabPartial : Bool := false
  state : Nat := 0
  panic : Option String := none
deriving Inhabited

namespace LP

def container (p : LP) : PB := (spineGet p.root p.depth).getD p.root
def containerKind (p : LP) : Nat := p.container.kind

def setPanic (p : LP) (msg : String) : LP := if p.panic.isSome then p else { p with panic := some msg }

def updateTabRemaining (p : LP) : LP :=
  if p.line.getD p.i 0 == TAB && p.i < p.line.length then
    { p with tabRem := columnWidth p.col [TAB], tabPartial := false }
  else { p with tabRem := 0, tabPartial := false }

def markMatched (p : LP) : LP := if p.state == stateOpening then { p with state := stateOpenMatched } else p

/-- `Advance(n)`. -/
def advance (p : LP) (n : Nat) : LP :=
  if n == 0 then p else
  let p := p.markMatched
  let newIndex := p.i + n
  if newIndex > p.line.length then p.setPanic "Advance: index out of bounds" else
  let col :=
    if p.i < p.line.length && p.line.getD p.i 0 == TAB then
      p.col + p.tabRem + columnWidth p.col ((p.line.drop (p.i + 1)).take (newIndex - (p.i + 1)))
    else p.col + columnWidth p.col ((p.line.drop p.i).take n)
  ({ p with col := col, i := newIndex }).updateTabRemaining

/-- `ConsumeLine()`. -/
def consumeLine (p : LP) : LP :=
  let p := p.advance (p.line.length - p.i)
  if p.state == stateOpening || p.state == stateOpenMatched then { p with state := stateLineConsumed }
  else if p.state == stateDescending then { p with state := stateDescendTerminated }
  else p

/-- `Indent()`. -/
def indent (p : LP) : Nat :=
  if p.i ≥ p.line.length then 0 else
  let c := p.line.getD p.i 0
  let first := if c == SP then some 1 else if c == TAB then some p.tabRem else none
  match first with
  | none => 0
  | some w =>
    let rest := p.line.drop (p.i + 1)
    w + columnWidth (p.col + w) (rest.take (indentLength rest))

/-- `ConsumeIndent(n)`. -/
def consumeIndent : Nat → LP → Nat → LP
  | 0, p, _ => p
  | fuel + 1, p, n =>
    if n == 0 then p else
    let p := p.markMatched
    let c := p.line.getD p.i 0
    if p.i < p.line.length && c == SP then
      consumeIndent fuel ({ p with col := p.col + 1, i := p.i + 1 }).updateTabRemaining (n - 1)
    else if p.i < p.line.length && c == TAB then
      if n < p.tabRem then { p with col := p.col + n, tabRem := p.tabRem - n, tabPartial := true }
      else consumeIndent fuel ({ p with col := p.col + p.tabRem, i := p.i + 1 }).updateTabRemaining (n - p.tabRem)
    else p.setPanic "ConsumeIndent: consumed past end of indent"

def consumeIndentN (p : LP) (n : Nat) : LP := consumeIndent (n + 1) p n

/-- `BytesAfterIndent()`. -/
def bytesAfterIndent (p : LP) : Bytes := (p.line.drop p.i).dropWhile (fun c => c == SP || c == TAB)

/-- `IsRestBlank()`. -/
def isRestBlank (p : LP) : Bool := isBlankLine (p.line.drop p.i)

/-- `ContainerIndent()`: only valid while matching continuation lines. -/
def containerIndent (p : LP) : Option Int :=
  if p.state != stateDescending && p.state != stateDescendTerminated then none   -- math.MaxInt
  else some p.container.label.indent

end LP

end CM.Model
