import CM.Ops.Core
import CM.Ops.Recognize
import CM.Ops.Check
import CM.Ops.Walk
import CM.Ops.Render
import CM.Ops.Emph
import CM.Ops.Refs
import CM.Ops.Doc
import CM.Ops.Format
import CM.Ops.Blocks
import CM.Ops.Inline
import CM.Ops.TailHyp
namespace CM.Ops

def echoOp : Op
  | [a] => hexArg a (fun b => Bytes.toHex b)
  | _ => bad

def treeOp : Op
  | [a] => match Wire.treeOfString a with
    | some t => Wire.showTree t
    | none => bad
  | _ => bad

def allOps : List (String × Op) := [("echo", echoOp), ("tree", treeOp)] ++ recognizeOps ++ checkOps ++ walkOps ++ renderOps ++ emphOps ++ refsOps ++ docOps ++ formatOps ++ blocksOps ++ inlineOps ++ parseOps ++ tailOps

end CM.Ops
