import CM.Ops.Refs
import CM.Ops.Emph
import CM.Ops.Blocks
import CM.Model.Inlines
import CM.Model.Parse
namespace CM.Ops
open CM CM.Model

/-- `hex,hex,…` (or `-`): the keys of the reference map. -/
def parseKeys (s : String) : Option (List Bytes) :=
  if s == "-" then some [] else (s.splitOn ",").mapM Bytes.ofHex

def mkIExt (ext fold uext : String) : Option IExt := do
  let e ← parsePairs ext
  let ft ← parseFold fold
  let u ← parseUExt uext
  pure { ext := { unescape := fun s => (e.lookup s).getD s }, fold := fun b => foldWith ft b 0, u := u }

def showRewritten (r : Except IErr Tree) : String :=
  match r with
  | .ok t => Wire.showTree t
  | .error (.panic _) => "panic"
  | .error (.fuel site) => "fuel:" ++ site

/-- `inline <srcHex> <block-phase tree> <refKeys> <ext> <fold> <uext>` → the rewritten tree
    (`panic` if the model reaches a Go panic site, `fuel:<site>` if a loop bound was too small). -/
def inlineOp : Op
  | [src, tree, keys, ext, fold, uext] =>
    match Bytes.ofHex src, Wire.treeOfString tree, parseKeys keys, mkIExt ext fold uext with
    | some s, some t, some ks, some x =>
      showRewritten (Inl.rewriteE x s s.toArray (fun k => ks.contains k) t)
    | _, _, _, _ => bad
  | _ => bad

def inlineOps : List (String × Op) := [("inline", inlineOp)]

end CM.Ops

namespace CM.Ops
open CM CM.Model

/-- lexicographic order on byte strings (Go's string `<`) -/
def bytesLt : Bytes → Bytes → Bool
  | [], [] => false
  | [], _ :: _ => true
  | _ :: _, [] => false
  | a :: as, b :: bs => a < b || (a == b && bytesLt as bs)

def insertSorted (kv : Bytes × LinkDef) : List (Bytes × LinkDef) → List (Bytes × LinkDef)
  | [] => [kv]
  | h :: t => if bytesLt kv.1 h.1 then kv :: h :: t else h :: insertSorted kv t

def sortRefs (m : RefMap) : RefMap := m.foldl (fun acc kv => insertSorted kv acc) []

/-- `parse <inputHex> <ext> <fold> <uext>` → every root (offsets, line, Source, fully parsed tree), the reference map
    sorted by key, and how the block loop ended: the model of `Parse`. -/
def parseOp : Op
  | [input, ext, fold, uext] =>
    match Bytes.ofHex input, parsePairs ext, parseFold fold, mkIExt ext fold uext with
    | some inp, some e, some ft, some ix =>
      let x : PExt := { ext := { unescape := fun s => (e.lookup s).getD s }, fold := fun b => foldWith ft b 0 }
      let r := parseDoc x ix inp
      String.join (r.roots.map fun pr =>
        s!"{pr.root.startOffset},{pr.root.endOffset},{pr.root.startLine},{Bytes.toHex pr.root.source}," ++
          showRewritten pr.tree ++ " | ") ++
        "refs=" ++ showRefMap (sortRefs r.refs) ++ " err=" ++
        (match r.ending with
         | .err .eof => ""
         | .err e => "panic: " ++ showPErr e
         | .panic m => "panic: " ++ m
         | .block _ => "?")
    | _, _, _, _ => bad
  | _ => bad

def parseOps : List (String × Op) := [("parse", parseOp)]

end CM.Ops
