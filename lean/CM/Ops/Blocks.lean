import CM.Ops.Refs
import CM.Model.Stream
import CM.Props.C01Contract
import CM.Proofs.BlocksSpansStream
import CM.Proofs.CoverageStream
namespace CM.Ops
open CM CM.Model

def parseSched (s : String) : Option (List Nat) :=
  if s == "-" then some [] else (s.splitOn ",").mapM (·.toNat?)

def showPErr : PErr → String
  | .eof => "eof"
  | .reader c => s!"reader:{c}"
  | .tooLarge n => s!"toolarge:{n}"

def showRoots (trees : Bool) (rs : List Root) : String :=
  String.join (rs.map fun r =>
    s!"{r.startOffset},{r.endOffset},{r.startLine},{Bytes.toHex r.source}," ++
      (if trees then Wire.showTree (pbToTree r.block) else "") ++ " | ")

/-- `blocks <mem|stream> <trees 0|1> <inputHex> <sched> <eofWith> <fin: eof|k> <ext> <fold> <extraCalls>`
    → every root delivered (offsets, line, Source, block-phase tree), the error, and the errors of further calls. -/
def blocksOp : Op
  | [mode, trees, input, sched, eofWith, fin, ext, fold, extra] =>
    match Bytes.ofHex input, parseSched sched, parsePairs ext, parseFold fold, extra.toNat? with
    | some inp, some sc, some e, some ft, some extraCalls =>
      let x : PExt := { ext := { unescape := fun s => (e.lookup s).getD s }, fold := fun b => foldWith ft b 0 }
      let finE : RErr := if fin == "eof" then .eof else .fail (fin.toNat?.getD 0)
      let p0 : BP := if mode == "mem" then memParser inp
        else newBlockParser { data := inp, sched := sc, eofWith := eofWith == "1", fin := finE }
      let L := blocksLP x
      let (roots, out, p) := drain L (inp.length + 8) p0 []
      let more : List String := (List.range extraCalls).foldl (fun (acc : List String × BP) _ =>
          let (o, p') := nextBlock L acc.2
          (acc.1 ++ [match o with | .block _ => "block-after-error" | .err e => showPErr e | .panic m => "panic:" ++ m], p')) ([], p) |>.1
      showRoots (trees == "1") roots ++ "err=" ++
        (match out with | .err e => showPErr e | .panic m => "panic:" ++ m | .block _ => "?") ++
        (if more.isEmpty then "" else " late=" ++ ",".intercalate more)
    | _, _, _, _, _ => bad
  | _ => bad

/-- `lpcontract <inputHex> <ext> <fold>` → whether the block-phase line parser met the contract `LPContract` of the
    tiling theorem (C01) at every step of the in-memory run on this input (`checkLPContractStep` after every line). -/
def lpcontractOp : Op
  | [input, ext, fold] =>
    match Bytes.ofHex input, parsePairs ext, parseFold fold with
    | some inp, some e, some ft =>
      let x : PExt := { ext := { unescape := fun s => (e.lookup s).getD s }, fold := fun b => foldWith ft b 0 }
      if CM.Props.C01.checkDoc (blocksLP x) inp then "ok" else "contract-violated"
    | _, _, _ => bad
  | _ => bad

/-- `spanshyp <inputHex> <ext> <fold>` → whether the hypothesis of `drain_spans` (C02, block half) holds on this input:
    the `RefDefSpansOK` check never fails along the in-memory run of the checked block parser. -/
def spanshypOp : Op
  | [input, ext, fold] =>
    match Bytes.ofHex input, parsePairs ext, parseFold fold with
    | some inp, some e, some ft =>
      let x : PExt := { ext := { unescape := fun s => (e.lookup s).getD s }, fold := fun b => foldWith ft b 0 }
      if CM.Proofs.BSp.isRefDefFail (drain (CM.Proofs.BSp.blocksLPc x) (inp.length + 8) (memParser inp) []).2.1 then "refdef-spans-fail" else "ok"
    | _, _, _ => bad
  | _ => bad

/-- `coverhyp <inputHex> <ext> <fold>` → whether the hypothesis of `drain_coverage` (C03, block half) holds on this input:
    the `RefDefCoverOK` check (the blocks `onCloseParagraph` returns cover every letter, digit and non-ASCII byte the
    paragraph's inline children covered) never fails along the in-memory run of the checked block parser. -/
def coverhypOp : Op
  | [input, ext, fold] =>
    match Bytes.ofHex input, parsePairs ext, parseFold fold with
    | some inp, some e, some ft =>
      let x : PExt := { ext := { unescape := fun s => (e.lookup s).getD s }, fold := fun b => foldWith ft b 0 }
      if CM.Proofs.Cov.isCoverFail (drain (CM.Proofs.Cov.blocksLPk x) (inp.length + 8) (memParser inp) []).2.1 then "refdef-cover-fail" else "ok"
    | _, _, _ => bad
  | _ => bad

def blocksOps : List (String × Op) := [("blocks", blocksOp), ("lpcontract", lpcontractOp), ("spanshyp", spanshypOp), ("coverhyp", coverhypOp)]

end CM.Ops
