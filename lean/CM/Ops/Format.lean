import CM.Ops.Core
import CM.Model.Format
namespace CM.Ops
open CM CM.Model

def parseFwOps (s : String) : Option (List FwOp) :=
  if s == "-" then some [] else
  (s.splitOn ";").mapM fun o =>
    match o.splitOn ":" with
    | ["s", h] => (Bytes.ofHex h).map FwOp.s
    | ["push", h] => (Bytes.ofHex h).map FwOp.push
    | ["pop"] => some FwOp.pop
    | _ => none

/-- `fw <failAt|-> <ops>` → `<err> <hasWritten> <startedLine> <write;write;…>` -/
def fwOp : Op
  | [failAt, ops] =>
    match parseFwOps ops with
    | none => bad
    | some os =>
      let fa := if failAt == "-" then none else failAt.toNat?
      let fw := fwRun { w := { failAt := fa } } os
      let log := if fw.w.log.isEmpty then "-" else ";".intercalate (fw.w.log.map Bytes.toHex)
      s!"{showBool fw.err} {showBool fw.hasWritten} {showBool fw.startedLine} {log}"
  | _ => bad

def formatOps : List (String × Op) := [("fw", fwOp)]

end CM.Ops
