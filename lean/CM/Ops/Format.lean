import CM.Ops.Core
import CM.Model.Format
import CM.Model.FormatDoc
import CM.Ops.Render
namespace CM.Ops
open CM CM.Model CM.Model.Fmt

def parseFwOps (s : String) : Option (List FwOp) :=
  if s == "-" then some [] else
  (s.splitOn ";").mapM fun o =>
    match o.splitOn ":" with
    | ["s", h] => (Bytes.ofHex h).map FwOp.s
    | ["push", h] => (Bytes.ofHex h).map FwOp.push
    | ["pop"] => some FwOp.pop
    | _ => none

/-- `fw <failAt|-> <ops>` → `<err> <hasWritten> <startedLine> <write;write;…>` -/
def fwOp : Op
  | [failAt, ops] =>
    match parseFwOps ops with
    | none => bad
    | some os =>
      let fa := if failAt == "-" then none else failAt.toNat?
      let fw := fwRun { w := { failAt := fa } } os
      let log := if fw.w.log.isEmpty then "-" else ";".intercalate (fw.w.log.map Bytes.toHex)
      s!"{showBool fw.err} {showBool fw.hasWritten} {showBool fw.startedLine} {log}"
  | _ => bad

/-- `src;tree ~ src;tree …` ("-" = no blocks). -/
def parseRoots (s : String) : Option Roots :=
  if s == "-" then some [] else
  (s.splitOn " ~ ").mapM fun p =>
    match p.splitOn ";" with
    | [src, tree] => do
      let src ← Bytes.ofHex src
      let t ← Wire.treeOfString tree
      pure (src, t)
    | _ => none

/-- `format <failAt|-> <src;tree ~ src;tree …> <ext>` → `<err> <panic> <number of writes> <write;write;…>` -/
def formatOp : Op
  | [failAt, roots, ext] =>
    match parseRoots roots, parsePairs ext with
    | some rs, some e =>
      let fa := if failAt == "-" then none else failAt.toNat?
      let st := format { unescape := fun s => (e.lookup s).getD s } fa rs
      let log := if st.fw.w.log.isEmpty then "-" else ";".intercalate (st.fw.w.log.map Bytes.toHex)
      -- a panicking `Format` returns nothing: the error flag is not observable
      s!"{if st.panic.isSome then "?" else showBool st.fw.err} {showBool st.panic.isSome} {st.fw.w.log.length} {log}"
    | _, _ => bad
  | _ => bad

def formatOps : List (String × Op) := [("fw", fwOp), ("format", formatOp)]

end CM.Ops
