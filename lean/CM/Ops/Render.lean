import CM.Ops.Core
import CM.Spec.RenderSpec
import CM.Spec.Tokenizer
import CM.Proofs.FilterRenderBase
namespace CM.Ops
open CM CM.Model

def parsePairs (s : String) : Option (List (Bytes × Bytes)) :=
  if s == "-" then some [] else
  (s.splitOn ";").mapM fun p =>
    match p.splitOn ":" with
    | [a, b] => do
      let a ← Bytes.ofHex a
      let b ← Bytes.ofHex b
      pure (a, b)
    | _ => none

def parseRefs (s : String) : Option (List (Bytes × LinkDef)) :=
  if s == "-" then some [] else
  (s.splitOn ";").mapM fun p =>
    match p.splitOn "," with
    | [k, d, tp, t] => do
      let k ← Bytes.ofHex k
      let d ← Bytes.ofHex d
      let t ← Bytes.ofHex t
      pure (k, { dest := d, title := t, titlePresent := tp == "1" })
    | _ => none

def parseFilter (s : String) : Option (Option (Bytes → Bool)) :=
  if s == "-" then some none
  else if s == "gfm" then some (some filterTagGFM)
  else if s == "all" then some (some fun _ => true)
  else if s == "none" then some (some fun _ => false)
  else if s.startsWith "set:" then
    match ((s.drop 4).copy.splitOn ",").mapM Bytes.ofHex with
    | some names => some (some fun t => names.contains t)
    | none => none
  else none

def mkCtx (soft ignoreRaw filter src refs ext : String) : Option RCtx := do
  let soft ← soft.toNat?
  let f ← parseFilter filter
  let src ← Bytes.ofHex src
  let refs ← parseRefs refs
  let ext ← parsePairs ext
  pure { ext := { unescape := fun s => (ext.lookup s).getD s }, src := src, soft := soft,
         ignoreRaw := ignoreRaw == "1", filter := f,
         refs := fun k => (refs.lookup k).getD {} }

/-- `render <impl|spec> <soft> <ignoreRaw> <filter> <srcHex> <tree> <refs> <ext>` -/
def renderOp : Op
  | [which, soft, ig, filter, src, tree, refs, ext] =>
    match mkCtx soft ig filter src refs ext, Wire.treeOfString tree with
    | some cx, some t =>
      Bytes.toHex (if which == "spec" then Spec.renderSpec cx t else appendBlock cx [] t)
    | _, _ => bad
  | _ => bad

mutual
/-- The accessor values of every block of a tree, in pre-order: `kind:HeadingLevel:IsOrderedList:IsTightList:ListItemNumber`. -/
def accNode (src : Bytes) : Tree → List String
  | .node l cs =>
    let t := Tree.node l cs
    (if l.isBlock then
      [s!"{l.kind}:{Node.headingLevel t}:{showBool (Node.isOrderedList (some t))}:{showBool (Node.isTightList (some t))}:{Node.listItemNumber src (some t)}"]
     else []) ++ accForest src cs
def accForest (src : Bytes) : List Tree → List String
  | [] => []
  | t :: ts => accNode src t ++ accForest src ts
end

/-- `acc <srcHex> <tree>` → the model's accessor values for every block (the Go accessors are compared with them). -/
def accOp : Op
  | [src, tree] => hexArg src fun s =>
    match Wire.treeOfString tree with
    | some t => " ".intercalate (accNode s t)
    | none => bad
  | _ => bad

/-- `seams <soft> <ignoreRaw> <filter> <srcHex> <tree> <refs> <ext>` → whether the tree meets the hypothesis
    `rawSeamsOK` of the whole-page theorems of C17 (no name candidate straddles a verbatim-copied slice and what follows). -/
def seamsOp : Op
  | [soft, ig, filter, src, tree, refs, ext] =>
    match mkCtx soft ig filter src refs ext, Wire.treeOfString tree with
    | some cx, some t => if CM.Proofs.rawSeamsOK cx t then "ok" else "seam"
    | _, _ => bad
  | _ => bad

/-- `filter <filterName> <rawHex>` → `filterRaw` output. -/
def filterOp : Op
  | [filter, raw] =>
    match parseFilter filter, Bytes.ofHex raw with
    | some (some f), some r => Bytes.toHex (filterRaw f r)
    | some none, some r => Bytes.toHex r
    | _, _ => bad
  | _ => bad

/-- `tok <filterName> <htmlHex>` → the start-tag names the tokenizer sees that the predicate rejects ("-" = none). -/
def tokOp : Op
  | [filter, html] =>
    match parseFilter filter, Bytes.ofHex html with
    | some (some f), some h =>
      let bad := (Spec.startTags h).filter f
      if bad.isEmpty then "-" else ",".intercalate (bad.map Bytes.toHex)
    | some none, some _ => "-"
    | _, _ => bad
  | _ => bad

/-- `tags <htmlHex>` → all start-tag names (for cross-checking the transcription). -/
def tagsOp : Op
  | [html] => hexArg html fun h =>
    let ts := Spec.startTags h
    if ts.isEmpty then "-" else ",".intercalate (ts.map Bytes.toHex)
  | _ => bad

def renderOps : List (String × Op) := [("render", renderOp), ("filter", filterOp), ("seams", seamsOp), ("acc", accOp), ("tok", tokOp), ("tags", tagsOp)]

end CM.Ops
