import CM.Ops.Core
import CM.Spec.DocGen
namespace CM.Ops
open CM CM.Spec

def keepMask (mask : Nat) : List Blk → Nat → List Blk
  | [], _ => []
  | b :: bs, i =>
    let isDef := match b with | .refdef _ _ _ => true | _ => false
    if isDef || (mask / (2 ^ i)) % 2 == 1 then b :: keepMask mask bs (i + 1) else keepMask mask bs (i + 1)

/-- `gendoc <seed> <size> <crlf> <mask>` → `<markdownHex> <htmlHex> <topLevelBlocks> <inFDoc>`; mask selects the
    top-level blocks kept (for shrinking; definitions are always kept); `all` keeps everything. -/
def gendocOp : Op
  | [seed, size, crlf, mask] =>
    match seed.toNat?, size.toNat? with
    | some sd, some sz =>
      let r := genDoc sd sz (crlf == "1")
      let doc := match mask.toNat? with
        | some m => keepMask m r.doc 0
        | none => r.doc
      let md := ser r.env.eol r.choices doc
      let html := denoteDoc r.env doc
      s!"{Bytes.toHex md} {Bytes.toHex html} {r.doc.length} {if inFDoc doc then 1 else 0}"
    | _, _ => bad
  | _ => bad

def docOps : List (String × Op) := [("gendoc", gendocOp)]

end CM.Ops
