import CM.Ops.Core
import CM.Spec.WalkSpec
namespace CM.Ops
open CM CM.Model

/-- Scripted callback policy: the `prune`-listed Pre calls (by ordinal) return false, the `abort`-th Post
    call returns false; events are logged. -/
structure Policy where
  hasPre : Bool
  hasPost : Bool
  prune : List Nat
  abort : Int

structure WState where
  events : List String := []
  pres : Nat := 0
  posts : Nat := 0

def nodeId (t : Tree) : String :=
  s!"{if t.label.isBlock then "b" else "i"}{t.label.kind}:{t.label.start}:{t.label.stop}"

def optId : Option Tree → String
  | none => "-"
  | some t => nodeId t

def event (tag : String) (c : Cursor) : String :=
  s!"{tag}/{nodeId c.node}/{c.index}/{optId c.parent}/{optId c.block}"

def policyOpts (p : Policy) : WalkOpts WState :=
  { pre := if p.hasPre then some fun c s =>
        (!p.prune.contains s.pres, { s with events := event "P" c :: s.events, pres := s.pres + 1 }) else none,
    post := if p.hasPost then some fun c s =>
        (!(p.abort == (s.posts : Int)), { s with events := event "Q" c :: s.events, posts := s.posts + 1 }) else none }

def parsePolicy (s : String) : Option Policy :=
  match s.splitOn "/" with
  | [pre, post, prune, abort] => do
    let prune ← if prune == "-" then some [] else (prune.splitOn ",").mapM (·.toNat?)
    let abort ← abort.toInt?
    pure ⟨pre == "1", post == "1", prune, abort⟩
  | _ => none

/-- `walk <impl|spec> <policy> <tree>` → the event trace. -/
def walkOp : Op
  | [which, pol, tree] =>
    match parsePolicy pol, Wire.treeOfString tree with
    | some p, some t =>
      let s := if which == "spec" then Spec.walkSpec t (policyOpts p) {} else walk t (policyOpts p) {}
      let evs := s.events.reverse
      if evs.isEmpty then "-" else " ".intercalate evs
    | _, _ => bad
  | _ => bad

def walkOps : List (String × Op) := [("walk", walkOp)]

end CM.Ops
