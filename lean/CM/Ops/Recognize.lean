import CM.Ops.Core
import CM.Model.Recognize
import CM.Model.URI
import CM.Spec.Regular
namespace CM.Ops
open CM.Model

def clsOp : Op
  | [name, b] => natArg b fun n =>
    let c := UInt8.ofNat n
    match name with
    | "isSpaceTabOrLineEnding" => showBool (Gen.isSpaceTabOrLineEnding c)
    | "isASCIILetter" => showBool (Gen.isASCIILetter c)
    | "isASCIIDigit" => showBool (Gen.isASCIIDigit c)
    | "isASCIIPunctuation" => showBool (Gen.isASCIIPunctuation c)
    | "isASCIIControl" => showBool (Gen.isASCIIControl c)
    | "isHex" => showBool (Gen.isHex c)
    | "toLowerASCII" => toString (Gen.toLowerASCII c).toNat
    | "isUnquotedAttributeValueChar" => showBool (Gen.isUnquotedAttributeValueChar c)
    | "urlHexDigit" => match Gen.urlHexDigit c with
      | some d => toString d.toNat
      | none => "panic"
    | _ => bad
  | _ => bad

def recOp : Op
  | [name, line] => hexArg line fun l =>
    match name with
    | "tb" => toString (parseThematicBreak l)
    | "atx" => let h := parseATXHeading l; s!"{h.level} {h.start} {h.stop}"
    | "setext" => toString (parseSetextHeadingUnderline l)
    | "fence" => let f := parseCodeFence l; s!"{f.char.toNat} {f.n} {f.infoStart} {f.infoEnd}"
    | "lm" => let m := parseListMarker l; s!"{m.delim.toNat} {m.n} {m.stop}"
    | "blank" => showBool (isBlankLine l)
    | "lines" => toString (lineCount l)
    | _ => bad
  | [name, a, line] => hexArg line fun l => natArg a fun n =>
    match name with
    | "colw" => toString (columnWidth n l)
    | _ => bad
  | _ => bad

/-- The spec side of the recognizers, printed in the same canonical form as `rec`. -/
def recSpecOp : Op
  | [name, line] => hexArg line fun l =>
    match name with
    | "tb" => match Spec.thematicBreak l with
      | some e => toString e
      | none => "-1"
    | "atx" => match Spec.atxHeading l with
      | some h => s!"{h.level} {h.start} {h.stop}"
      | none => "0 0 0"
    | "setext" => toString ((Spec.setextUnderline l).getD 0)
    | "fence" => match Spec.codeFence l with
      | some ⟨c, n, some (s, e)⟩ => s!"{c.toNat} {n} {s} {e}"
      | some ⟨c, n, none⟩ => s!"{c.toNat} {n} -1 -1"
      | none => "0 0 -1 -1"
    | "lm" => match Spec.listMarker l with
      | some m => s!"{m.delim.toNat} {m.n} {m.stop}"
      | none => "0 0 -1"
    | "email" => showBool (Spec.isEmailAddress l)
    | "uriwf" => showBool (Spec.uriWellFormed l)
    | _ => bad
  | _ => bad

def strOp : Op
  | [name, a] => hexArg a fun s =>
    match name with
    | "uri" => Bytes.toHex (normalizeURI s)
    | "email" => showBool (isEmailAddress s)
    | "pemail" => toString (parseEmail s)
    | "autolink" => toString (parseAutolink s)
    | "esc" => Bytes.toHex (escapeHTML s)
    | "escstr" => Bytes.toHex (escapeString s)
    | "dec" => let r := Utf8.decodeRune s; s!"{r.1} {r.2}"
    | "declast" => let r := Utf8.decodeLastRune s; s!"{r.1} {r.2}"
    | "valid" => showBool (Utf8.isValid s)
    | _ => bad
  | _ => bad

def recognizeOps : List (String × Op) := [("cls", clsOp), ("rec", recOp), ("recspec", recSpecOp), ("str", strOp)]

end CM.Ops
