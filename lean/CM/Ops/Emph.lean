import CM.Ops.Core
import CM.Model.Emphasis
namespace CM.Ops
open CM CM.Model

/-- table: `cp,zs,p;…` (decimal code point, 0/1, 0/1) -/
def parseUExt (s : String) : Option UExt :=
  let rows := if s == "-" then some [] else (s.splitOn ";").mapM fun r =>
    match r.splitOn "," with
    | [cp, zs, p] => do
      let cp ← cp.toNat?
      pure (cp, zs == "1", p == "1")
    | _ => none
  rows.map fun t => { isZs := fun c => ((t.lookup c).map (·.1)).getD false, isP := fun c => ((t.lookup c).map (·.2)).getD false }

/-- `emph <impl|spec> <srcHex> <table>` → canonical emphasis structure (hex). -/
def emphOp : Op
  | [which, src, table] =>
    match Bytes.ofHex src, parseUExt table with
    | some s, some u => Bytes.toHex (emphasisStructure (which != "spec") u s)
    | _, _ => bad
  | _ => bad

/-- `flags <srcHex> <start> <stop> <table>` → `canOpen canClose` -/
def flagsOp : Op
  | [src, a, b, table] =>
    match Bytes.ofHex src, a.toNat?, b.toNat?, parseUExt table with
    | some s, some a, some b, some u => let f := emphasisFlags u s a b; s!"{showBool f.1} {showBool f.2}"
    | _, _, _, _ => bad
  | _ => bad

/-- `dmatch otyp oOpen oClose on ctyp cOpen cClose cn` / `obi typ canOpen n` : the generated predicates. -/
def dmatchOp : Op
  | [ot, oo, oc, on, ct, co, cc, cn] =>
    match ot.toInt?, on.toNat?, ct.toInt?, cn.toNat? with
    | some ot, some on, some ct, some cn =>
      let mk (t : Int) (o c : String) (n : Nat) : Gen.DelimElem :=
        { typ := t, flags := 1 ||| (if o == "1" then 2 else 0) ||| (if c == "1" then 4 else 0), n := n }
      showBool (Gen.isEmphasisDelimiterMatch (mk ot oo oc on) (mk ct co cc cn))
    | _, _, _, _ => bad
  | [t, o, n] =>
    match t.toInt?, n.toNat? with
    | some t, some n =>
      match Gen.openersBottomIndex { typ := t, flags := 1 ||| (if o == "1" then 2 else 0), n := n } with
      | some k => toString k
      | none => "panic"
    | _, _ => bad
  | _ => bad

def emphOps : List (String × Op) := [("emph", emphOp), ("flags", flagsOp), ("dmatch", dmatchOp)]

end CM.Ops
