import CM.Ops.Blocks
import CM.Proofs.ParseScanMain
import CM.Proofs.ParseAsmCheck
/-
`tailhyp`: the two decidable tail facts under which `blockphase_contOK2` (C02 / C04 inline halves, `Props/C02Scan.lean`) derives
the scanner facts for the containers of a block-phase tree - `TailNP` (the byte after the container's last run is not `)`) for
every container, `TailSafe` for ATX headings - evaluated on the block-phase trees of one input. The Boolean forms are proved
equivalent to the propositions the theorems use.
-/
namespace CM.Ops
open CM CM.Model CM.Proofs CM.Proofs.PSc CM.Proofs.InlH CM.Proofs.PS

def tailNPb (src : Bytes) (L : List Tree) : Bool :=
  match L.getLast? with
  | none => true
  | some t => decide (src.length ≤ t.label.stop.toNat) || decide (src.getD t.label.stop.toNat 0 ≠ 0x29)

theorem tailNPb_iff (src : Bytes) (L : List Tree) : tailNPb src L = true ↔ TailNP src L := by
  unfold tailNPb TailNP
  cases h : L.getLast? with
  | none => simp
  | some t => simp

def eolEndb (S : Bytes) (e : Int) : Bool :=
  decide (e ≤ (S.length : Int)) && (decide (e ≤ 0) || RDC.isEolB (S.getD (e.toNat - 1) 0))

theorem eolEndb_iff (S : Bytes) (e : Int) : eolEndb S e = true ↔ EolEnd S e := by
  unfold eolEndb EolEnd; simp

def safeAtb (src : Bytes) (p : Nat) : Bool :=
  decide (src.length ≤ p) || (src.getD p 0 == SP || src.getD p 0 == TAB || src.getD p 0 == LF || src.getD p 0 == CR || src.getD p 0 == 0x23)

theorem safeAtb_iff (src : Bytes) (p : Nat) : safeAtb src p = true ↔ PSc.SafeAt src p := by
  unfold safeAtb PSc.SafeAt; simp [or_assoc]

def tailSafeb (src : Bytes) (L : List Tree) : Bool :=
  match L.getLast? with
  | none => true
  | some t => isIndent t || eolEndb src t.label.stop || safeAtb src t.label.stop.toNat

theorem tailSafeb_iff (src : Bytes) (L : List Tree) : tailSafeb src L = true ↔ TailSafe src L := by
  unfold tailSafeb TailSafe
  cases h : L.getLast? with
  | none => simp
  | some t =>
    simp only [Option.some.injEq, forall_eq', Bool.or_eq_true, eolEndb_iff, safeAtb_iff]
    cases isIndent t <;> simp

/-- Both tail facts for every container of every tree of a list of roots. -/
def tailsOKb (rs : List Root) : Bool :=
  rs.all fun r => (conts (pbToTree r.block)).all fun p =>
    tailNPb r.source p.2 && (p.1.kind != BK.atxHeading || tailSafeb r.source p.2)

theorem tailsOKb_iff (rs : List Root) : tailsOKb rs = true ↔
    ∀ r ∈ rs, ∀ p ∈ conts (pbToTree r.block),
      TailNP r.source p.2 ∧ (p.1.kind = BK.atxHeading → TailSafe r.source p.2) := by
  unfold tailsOKb
  simp only [List.all_eq_true, Bool.and_eq_true, Bool.or_eq_true, tailNPb_iff, tailSafeb_iff, bne_iff_ne, ne_eq]
  constructor
  · intro h r hr p hp
    obtain ⟨h1, h2⟩ := h r hr p hp
    exact ⟨h1, fun hk => h2.resolve_left (fun hn => hn hk)⟩
  · intro h r hr p hp
    obtain ⟨h1, h2⟩ := h r hr p hp
    refine ⟨h1, ?_⟩
    by_cases hk : p.1.kind = BK.atxHeading
    · exact Or.inr (h2 hk)
    · exact Or.inl hk

/-- What the op `tailhyp` evaluates is the hypothesis `ParseTails` of the whole-`Parse` theorems `parse_spans_of_tails` /
    `parse_noPanic_of_tails` (the block phase does not depend on the inline externals). -/
theorem tailsOKb_parseTails (x : PExt) (ix : IExt) (inp : Bytes)
    (h : tailsOKb (drain (blocksLP x) (inp.length + 8) (memParser inp) []).1 = true) : PSc.ParseTails x ix inp := by
  intro pr hpr p hp
  exact (tailsOKb_iff _).1 h pr.root (PW.root_mem_drain x ix inp pr hpr) p hp

/-- `tailhyp <inputHex> <ext> <fold>` → `ok` when both tail facts hold for every container of every block-phase root. -/
def tailhypOp : Op
  | [input, ext, fold] =>
    match Bytes.ofHex input, parsePairs ext, parseFold fold with
    | some inp, some e, some ft =>
      let x : PExt := { ext := { unescape := fun s => (e.lookup s).getD s }, fold := fun b => foldWith ft b 0 }
      if tailsOKb (drain (blocksLP x) (inp.length + 8) (memParser inp) []).1 then "ok" else "tail-fact-fails"
    | _, _, _ => bad
  | _ => bad

def tailOps : List (String × Op) := [("tailhyp", tailhypOp)]

end CM.Ops
