import CM.Basic.Wire
/-
Driver plumbing: an op is a function from the tab-separated argument fields of a
line to one canonical answer line.
-/
namespace CM.Ops

abbrev Op := List String → String

def bad : String := "bad-op"

def showBool (b : Bool) : String := if b then "1" else "0"

def hexArg (s : String) (k : Bytes → String) : String :=
  match Bytes.ofHex s with
  | some b => k b
  | none => bad

def natArg (s : String) (k : Nat → String) : String :=
  match s.toNat? with
  | some n => k n
  | none => bad

def intArg (s : String) (k : Int → String) : String :=
  match s.toInt? with
  | some n => k n
  | none => bad

end CM.Ops
