import CM.Ops.Render
import CM.Model.Refs
import CM.Spec.Label
namespace CM.Ops
open CM CM.Model

/-- per-rune fold table `cp:hex;…`; unlisted code points fold to themselves. -/
def parseFold (s : String) : Option (List (Nat × Bytes)) :=
  if s == "-" then some [] else
  (s.splitOn ";").mapM fun r =>
    match r.splitOn ":" with
    | [cp, h] => do
      let cp ← cp.toNat?
      let h ← Bytes.ofHex h
      pure (cp, h)
    | _ => none

/-- Fold rune by rune (`cases.Fold` is context-free); `k` = bytes of the current rune still to skip. -/
def foldWith (t : List (Nat × Bytes)) : Bytes → Nat → Bytes
  | [], _ => []
  | _ :: rest, k + 1 => foldWith t rest k
  | b :: rest, 0 =>
    let r := Utf8.decodeRune (b :: rest)
    (match t.lookup r.1 with
     | some f => f
     | none => (b :: rest).take r.2) ++ foldWith t rest (r.2 - 1)

/-- `norm <impl|spec> <labelHex> <foldTable>` -/
def normOp : Op
  | [which, label, table] =>
    match Bytes.ofHex label, parseFold table with
    | some l, some t =>
      let fold := fun b => foldWith t b 0
      Bytes.toHex (if which == "spec" then Spec.normalizeLabelSpec fold l else normalizeLabel fold l)
    | _, _ => bad
  | _ => bad

def showRefMap (m : RefMap) : String :=
  if m.isEmpty then "-" else
  ";".intercalate (m.map fun (k, d) =>
    s!"{Bytes.toHex k},{Bytes.toHex d.dest},{if d.titlePresent then "1" else "0"},{Bytes.toHex d.title}")

/-- `extract <ext> <srcHex|tree ~ srcHex|tree ~ …>` → the map in insertion order -/
def extractOp : Op
  | [ext, roots] =>
    match parsePairs ext with
    | none => bad
    | some e =>
      let x : Ext := { unescape := fun s => (e.lookup s).getD s }
      let parts := if roots == "-" then some [] else (roots.splitOn " ~ ").mapM fun r =>
        match r.splitOn "|" with
        | [s, t] => do
          let s ← Bytes.ofHex s
          let t ← Wire.treeOfString t
          pure (s, t)
        | _ => none
      match parts with
      | some ps => showRefMap (extractAll x ps [])
      | none => bad
  | _ => bad

def refsOps : List (String × Op) := [("norm", normOp), ("extract", extractOp)]

end CM.Ops
