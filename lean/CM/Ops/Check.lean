import CM.Ops.Core
import CM.Spec.TreeWF
import CM.Spec.Tiling
import CM.Spec.HtmlLang
namespace CM.Ops
open CM.Spec

/-- `chk <which> <srcHex> <tree>` -/
def chkOp : Op
  | [which, src, tree] => hexArg src fun s =>
    match Wire.treeOfString tree with
    | none => bad
    | some t =>
      match which with
      | "spans" => spansWhy s t
      | "coverage" => coverageWhy s t
      | "grammar" => grammarWhy s t
      | "shapes" => shapesWhy s t
      | "renderpre" => if renderPre s t then "ok" else "render-precondition"
      | "safepre" => if safePre s t then "ok" else "safe-precondition"
      | "noraw" => if noRaw t then "1" else "0"
      | _ => bad
  | _ => bad

def parseRoot (s : String) : Option RootInfo :=
  match s.splitOn "," with
  | [a, b, c, d] => do
    let a ← a.toNat?
    let b ← b.toNat?
    let c ← c.toNat?
    let d ← Bytes.ofHex d
    pure ⟨a, b, c, d⟩
  | _ => none

/-- `tiling <inputHex> <start,end,line,srcHex;…>` -/
def tilingOp : Op
  | [x, roots] => hexArg x fun xb =>
    let rs := if roots == "-" then some [] else (roots.splitOn ";").mapM parseRoot
    match rs with
    | some rs => tilingWhy xb rs
    | none => bad
  | _ => bad

/-- `html <outputHex>` → is the output in the language of C07? -/
def htmlOp : Op
  | [out] => hexArg out fun b => showBool (htmlWellFormed b)
  | _ => bad

def checkOps : List (String × Op) := [("chk", chkOp), ("tiling", tilingOp), ("html", htmlOp)]

end CM.Ops
