import CM.Proofs.EscapedTextDoc
/-
C06, the corollary the property names: "backslash-escaping every punctuation character of a text yields that text literally" -
END TO END for the model of `Parse` and the renderer model (9 proof files `EscapedText*`; a functional, total-correctness proof
about the tokenizer of `Model/Inlines.lean`: the loop body is extracted from the elaborated `do` block and evaluated step by step).
For EVERY byte string `s` without LF, CR, NUL that is non-empty, does not start with a space or tab and does not end in two spaces:
the document `esc s ++ LF` (every ASCII punctuation byte preceded by a backslash) parses to exactly one paragraph whose children are
childless Text nodes, in order, whose source slices concatenate to `s`, and - for every renderer configuration - it renders as
`<p>` ++ escapeHTML s ++ `</p>`. The "two trailing spaces" condition is necessary (`two_trailing_spaces_needed`: the model, like
the code, then keeps the spaces and the line ending inside the text).
-/
namespace CM.Props.C06
open CM CM.Model CM.Proofs CM.Proofs.EscText CM.Proofs.Leaf

theorem escaped_text_parse_render (x : PExt) (ix : IExt) (s : Bytes) (h1 : lineTextOK s = true) (h2 : ¬ [SP, SP] <:+ s) :
    ∃ (r : Root) (kids : List Tree),
      (parseDoc x ix (esc s ++ [LF])).roots =
        [{ root := r, tree := .ok (leafTree BK.paragraph 0 ((esc s ++ [LF]).length : Nat) kids) }] ∧
      (parseDoc x ix (esc s ++ [LF])).ending = .err .eof ∧
      r.source = esc s ++ [LF] ∧
      (∀ t ∈ kids, Node.isI t IK.text = true ∧ t.children = []) ∧
      kids.Pairwise (fun a b => a.label.stop ≤ b.label.start) ∧
      kids.flatMap (Node.slice (esc s ++ [LF])) = s ∧
      ∀ (cx : RCtx) (dst : Bytes), cx.src = r.source →
        appendBlock cx dst (leafTree BK.paragraph 0 ((esc s ++ [LF]).length : Nat) kids) =
          dst ++ openTag cx (str "p") ++ escapeHTML s ++ closeTag cx (str "p") :=
  EscText.escaped_text_parse_render x ix s h1 h2

/-- The inline phase alone, for every text without line endings (it may be empty or start with a space), with or without the
    final LF: the tokenizer returns exactly the Text leaves whose slices concatenate to the text. -/
theorem escaped_text_literal (x : IExt) (matchRef : Bytes → Bool) (s tail : Bytes) (cs ce : Int) (hok : TextOK s tail) :
    ∃ kids : List Tree,
      Inl.parseInlines x (esc s ++ tail) (esc s ++ tail).toArray matchRef cs ce
        [mkInline IK.unparsed 0 ((esc s ++ tail).length : Int)] = .ok kids ∧
      (∀ t ∈ kids, Node.isI t IK.text = true ∧ t.children = [] ∧ 0 ≤ t.label.start ∧ t.label.start < t.label.stop ∧
        t.label.stop ≤ ((esc s).length : Int)) ∧
      kids.Pairwise (fun a b => a.label.stop ≤ b.label.start) ∧
      kids.flatMap (Node.slice (esc s ++ tail)) = s ∧
      kids.flatMap (Node.text x.ext (esc s ++ tail)) = s :=
  EscText.escaped_text_literal x matchRef s tail cs ce hok

end CM.Props.C06
