import CM.Proofs.Refs
import CM.Spec.Label
/-
C12 — references resolve by normalised label; first definition wins.
Proved here: clause (b) for the extraction (`Extract` = first definition in document pre-order, for every
forest of trees). Clause (a) (`normalizeLabel = normalizeLabelSpec`) is a stated target checked exhaustively
on small scope by the check; clause (c) (a reference node exists iff its label is a key) needs the inline
parser model and is monitored on the implementation.
-/
namespace CM.Props.C12
open CM CM.Model CM.Proofs

/-- `Extract` inserts the definitions of a tree in document pre-order, never replacing an existing key. -/
theorem extract_is_preorder (ext : Ext) (src : Bytes) (t : Tree) (m : RefMap) :
    extractNode ext src t m = insAll m (defsNode ext src t) :=
  extractNode_eq ext src t m

/-- First definition wins: the value of a (non-empty) key that was not in the map before is the one of the
    first definition with that label in document order — wherever it sits (containers included). -/
theorem first_definition_wins (ext : Ext) (src : Bytes) (t : Tree) (k : Bytes) (hk : k.isEmpty = false) :
    (extractNode ext src t []).lookup k = ((defsNode ext src t).find? (fun p => p.1 == k)).map (·.2) := by
  rw [extract_is_preorder]
  exact lookup_insAll_first [] _ k hk rfl

/-- Existing keys are never overwritten (definitions in earlier root blocks win over later ones). -/
theorem earlier_block_wins (ext : Ext) (src : Bytes) (t : Tree) (m : RefMap) (k : Bytes) (h : (m.lookup k).isSome) :
    (extractNode ext src t m).lookup k = m.lookup k := by
  rw [extract_is_preorder]
  exact lookup_insAll_of_some m _ k h

/-- Clause (a), target. -/
def normalize_eq_spec_target : Prop :=
  ∀ (fold : Bytes → Bytes) (label : Bytes), normalizeLabel fold label = Spec.normalizeLabelSpec fold label

end CM.Props.C12
