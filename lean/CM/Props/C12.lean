import CM.Proofs.Refs
import CM.Proofs.Label
import CM.Spec.Label
/-
C12 — references resolve by normalised label; first definition wins.
Proved here: clause (b) for the extraction (`Extract` = first definition in document pre-order, for every
forest of trees). Clause (a) (`normalizeLabel = normalizeLabelSpec`) is `normalize_eq_spec` below; clause (c) (a reference node exists iff its label is a key) needs the inline
parser model and is monitored on the implementation.
-/
namespace CM.Props.C12
open CM CM.Model CM.Proofs

/-- `Extract` inserts the definitions of a tree in document pre-order, never replacing an existing key. -/
theorem extract_is_preorder (ext : Ext) (src : Bytes) (t : Tree) (m : RefMap) :
    extractNode ext src t m = insAll m (defsNode ext src t) :=
  extractNode_eq ext src t m

/-- First definition wins: the value of a (non-empty) key that was not in the map before is the one of the
    first definition with that label in document order — wherever it sits (containers included). -/
theorem first_definition_wins (ext : Ext) (src : Bytes) (t : Tree) (k : Bytes) (hk : k.isEmpty = false) :
    (extractNode ext src t []).lookup k = ((defsNode ext src t).find? (fun p => p.1 == k)).map (·.2) := by
  rw [extract_is_preorder]
  exact lookup_insAll_first [] _ k hk rfl

/-- Existing keys are never overwritten (definitions in earlier root blocks win over later ones). -/
theorem earlier_block_wins (ext : Ext) (src : Bytes) (t : Tree) (m : RefMap) (k : Bytes) (h : (m.lookup k).isSome) :
    (extractNode ext src t m).lookup k = m.lookup k := by
  rw [extract_is_preorder]
  exact lookup_insAll_of_some m _ k h

/-- Clause (a): the label normalisation of the code (collapse runs of space/tab/line ending to one space, trim
    spaces, fold) equals the specification's "case fold, strip, collapse" for every label and every fold. -/
theorem normalize_eq_spec (fold : Bytes → Bytes) (label : Bytes) :
    normalizeLabel fold label = Spec.normalizeLabelSpec fold label :=
  Proofs.normalize_eq_spec fold label

/-- Labels that differ only in the amount or kind of white space have the same normal form. -/
theorem normalize_ws_variants (fold : Bytes → Bytes) (a b : Bytes) (h : Spec.words a = Spec.words b) :
    normalizeLabel fold a = normalizeLabel fold b :=
  Proofs.normalize_ws_variants fold a b h

/-- The white-space normal form is a normal form: idempotent, and exactly the labels without leading/trailing
    white space whose white space is single `0x20` bytes are its fixed points. -/
theorem wsNormal_idem (label : Bytes) : Spec.wsNormal (Spec.wsNormal label) = Spec.wsNormal label :=
  Proofs.wsNormal_idem label

theorem wsNormal_fixed_iff (l : Bytes) : Proofs.isWsNormal l = true ↔ Spec.wsNormal l = l :=
  Proofs.isWsNormal_iff_fixed l

-- Non-vacuity
private def b (s : String) : Bytes := s.toUTF8.toList
example : normalizeLabel id (b " \tFoo \r\n  bar\t") = b "Foo bar" := by decide +kernel
example : Spec.words (b "Foo\n bar") = Spec.words (b " Foo bar ") ∧ b "Foo\n bar" ≠ b " Foo bar " := by decide +kernel

end CM.Props.C12
