import CM.Proofs.Refs
import CM.Proofs.Label
import CM.Spec.Label
import CM.Proofs.RefKeysRewrite
import CM.Proofs.ParseWholeMain
import CM.Proofs.InlineSerLinkDoc
/-
C12 — references resolve by normalised label; first definition wins.
Proved here: clause (b) for the extraction (`Extract` = first definition in document pre-order, for every
forest of trees). Clause (a) (`normalizeLabel = normalizeLabelSpec`) is `normalize_eq_spec` below. Whole-`Parse` clauses, as
theorems about `Model.parseDoc` (the model of `Parse`: block phase, `Extract`, `Rewrite`; tied to the code by the `parse` op):
the returned map is the extraction from the root blocks in order - from the block-phase trees by definition and from the FINAL
trees because `Rewrite` never changes what `Extract` reads (`parse_refs_eq_extractAll_final`); its keys are pairwise different,
non-empty and in NORMAL FORM (`parse_keys_normalized`, under the two table facts `FoldOK` about `cases.Fold`, checked per label
at run time); a key's value is the first definition in document order (`parse_lookup_first`); the label of every USE is
normalised by the same function (`use_label_eq_spec`, `use_label_fixed`). every reference node names a key of the map (`parse_linkReference_has_key`, session 4 second wave). Still decided on generated
documents only: the converse (a use whose normalised label is a key does become a reference node) and the matching relation.
-/
namespace CM.Props.C12
open CM CM.Model CM.Proofs

/-- `Extract` inserts the definitions of a tree in document pre-order, never replacing an existing key. -/
theorem extract_is_preorder (ext : Ext) (src : Bytes) (t : Tree) (m : RefMap) :
    extractNode ext src t m = insAll m (defsNode ext src t) :=
  extractNode_eq ext src t m

/-- First definition wins: the value of a (non-empty) key that was not in the map before is the one of the
    first definition with that label in document order — wherever it sits (containers included). -/
theorem first_definition_wins (ext : Ext) (src : Bytes) (t : Tree) (k : Bytes) (hk : k.isEmpty = false) :
    (extractNode ext src t []).lookup k = ((defsNode ext src t).find? (fun p => p.1 == k)).map (·.2) := by
  rw [extract_is_preorder]
  exact lookup_insAll_first [] _ k hk rfl

/-- Existing keys are never overwritten (definitions in earlier root blocks win over later ones). -/
theorem earlier_block_wins (ext : Ext) (src : Bytes) (t : Tree) (m : RefMap) (k : Bytes) (h : (m.lookup k).isSome) :
    (extractNode ext src t m).lookup k = m.lookup k := by
  rw [extract_is_preorder]
  exact lookup_insAll_of_some m _ k h

/-- Clause (a): the label normalisation of the code (collapse runs of space/tab/line ending to one space, trim
    spaces, fold) equals the specification's "case fold, strip, collapse" for every label and every fold. -/
theorem normalize_eq_spec (fold : Bytes → Bytes) (label : Bytes) :
    normalizeLabel fold label = Spec.normalizeLabelSpec fold label :=
  Proofs.normalize_eq_spec fold label

/-- Labels that differ only in the amount or kind of white space have the same normal form. -/
theorem normalize_ws_variants (fold : Bytes → Bytes) (a b : Bytes) (h : Spec.words a = Spec.words b) :
    normalizeLabel fold a = normalizeLabel fold b :=
  Proofs.normalize_ws_variants fold a b h

/-- The white-space normal form is a normal form: idempotent, and exactly the labels without leading/trailing
    white space whose white space is single `0x20` bytes are its fixed points. -/
theorem wsNormal_idem (label : Bytes) : Spec.wsNormal (Spec.wsNormal label) = Spec.wsNormal label :=
  Proofs.wsNormal_idem label

theorem wsNormal_fixed_iff (l : Bytes) : Proofs.isWsNormal l = true ↔ Spec.wsNormal l = l :=
  Proofs.isWsNormal_iff_fixed l

open CM.Proofs.RK in
/-- The reference map `Parse` returns is `Extract` applied to the root blocks in order. -/
theorem parse_refs_eq_extractAll (x : PExt) (ix : IExt) (source : Bytes) :
    (parseDoc x ix source).refs =
      extractAll x.ext ((parseDoc x ix source).roots.map fun r => (r.root.source, pbToTree r.root.block)) [] :=
  RK.parse_refs_eq_extractAll x ix source

open CM.Proofs.RK in
/-- … and to the FINAL trees (after `Rewrite`), whenever the inline phase completed on every root: `Rewrite` replaces
    only inline children of blocks that hold unparsed text, which `Extract` never reads. -/
theorem parse_refs_eq_extractAll_final (x : PExt) (ix : IExt) (source : Bytes)
    (hok : ∀ r ∈ (parseDoc x ix source).roots, treeOk r = true) :
    (parseDoc x ix source).refs =
      extractAll x.ext ((parseDoc x ix source).roots.map fun r => (r.root.source, finalTree r)) [] :=
  RK.parse_refs_eq_extractAll_final' x ix source hok

open CM.Proofs.RK in
/-- Every key of the returned map is non-empty and a fixed point of label normalisation (collapse, trim, fold), for
    every input - given the two facts about the external fold on white-space-normal labels (idempotent; keeps them
    white-space normal). -/
theorem parse_keys_normalized (x : PExt) (hf : FoldOK x.fold) (ix : IExt) (source : Bytes) (k : Bytes) (d : LinkDef)
    (h : (k, d) ∈ (parseDoc x ix source).refs) : normalizeLabel x.fold k = k ∧ k ≠ [] :=
  RK.parse_keys_normalized x hf ix source k d h

open CM.Proofs.RK in
/-- Keys are pairwise different. -/
theorem parse_keys_nodup (x : PExt) (ix : IExt) (source : Bytes) : KeysNodup (parseDoc x ix source).refs :=
  RK.parse_keys_nodup x ix source

open CM.Proofs.RK in
/-- First definition wins, for the whole document: the value of a key is that of the first definition with that
    normalised label in document order over all root blocks (containers included). -/
theorem parse_lookup_first (x : PExt) (ix : IExt) (source : Bytes) (k : Bytes) (hk : k.isEmpty = false) :
    (parseDoc x ix source).refs.lookup k =
      (((parseDoc x ix source).roots.flatMap fun r => defsNode x.ext r.root.source (pbToTree r.root.block)).find?
        (fun p => p.1 == k)).map (·.2) :=
  RK.parse_lookup_first x ix source k hk

open CM.Proofs.RK in
/-- The label of a USE (collapsed and shortcut references, and the labels of definitions) is normalised by the
    specification's function applied to the label's text as the reader delivers it … -/
theorem use_label_eq_spec (fold : Bytes → Bytes) (src : Bytes) (nodes : List Tree) (start stop : Nat) :
    transformLinkReferenceSpan fold src nodes start stop =
      Spec.normalizeLabelSpec fold (refTextLoop src stop (rdFuel src nodes) (newReader nodes start) false []) :=
  RK.transformLinkReferenceSpan_eq_spec fold src nodes start stop

open CM.Proofs.RK in
/-- … and is itself a normal form, so matching a use against the map compares two normal forms. -/
theorem use_label_fixed {fold : Bytes → Bytes} (hf : FoldOK fold) (src : Bytes) (nodes : List Tree) (start stop : Nat) :
    normalizeLabel fold (transformLinkReferenceSpan fold src nodes start stop) =
      transformLinkReferenceSpan fold src nodes start stop :=
  RK.use_label_fixed hf src nodes start stop

open CM.Proofs.RK in
/-- The fold hypotheses are satisfiable by a fold that is not the identity. -/
example : FoldOK asciiLower := FoldOK_asciiLower

open CM.Proofs.PW CM.Spec in
/-- **Every reference-style link or image node of a parsed tree names a key present in the returned map** (whole `Parse`, every
    input, every root on which the inline phase completed): the key a link or image refers to (`LinkReference()`: its own `ref`
    for collapsed and shortcut references, its label child's for full references) is in the map. From the inline-phase invariant
    "`ref` is only written behind `MatchReference`" and the block-phase fact that the labels of definitions are keys. -/
theorem parse_linkReference_has_key (x : PExt) (ix : IExt) (inp : Bytes) :
    ∀ pr ∈ (parseDoc x ix inp).roots, ∀ t', pr.tree = .ok t' →
      ∀ u ∈ T.nodes t', Node.isLinkOrImage u = true → Node.linkReference u ≠ [] →
        ((parseDoc x ix inp).refs.lookup (Node.linkReference u)).isSome = true :=
  PW.parse_linkReference_has_key x ix inp

open CM.Proofs.PW CM.Spec in
/-- The same for every node carrying a `ref` attribute (links, images, link labels, labels of definitions). -/
theorem parse_reference_nodes_have_keys (x : PExt) (ix : IExt) (inp : Bytes) :
    ∀ pr ∈ (parseDoc x ix inp).roots, ∀ t', pr.tree = .ok t' →
      ∀ u ∈ T.nodes t', (T.isI u IK.link = true ∨ T.isI u IK.image = true ∨ T.isI u IK.linkLabel = true) →
        u.label.ref ≠ [] → ((parseDoc x ix inp).refs.lookup u.label.ref).isSome = true :=
  PW.parse_reference_nodes_have_keys x ix inp

open CM.Proofs.InlSer CM.Model.Inl in
/-- **A use whose normalised label the matcher accepts DOES resolve** (the converse direction, simplest setting): a line
    `P1 [ P2 ]` of flat pieces (words, escapes, code spans, references, autolinks; the link ends the line) is rewritten to `P1`
    followed by ONE Link node around `P2` whose `ref` is the model's own normalisation of the label … -/
theorem shortcut_reference_resolves (x : IExt) (matchRef : Bytes → Bool) (cs ce : Int) (l : LinkLine) (hok : LinkLineOK x l)
    (hm : matchRef (l.label x) = true) :
    parseInlines x l.bytes l.bytes.toArray matchRef cs ce [mkInline IK.unparsed 0 (l.bytes.length : Int)] =
      .ok ((l.A l.bytes).map nodeTree ++ [l.tree x]) :=
  InlSer.parseInlines_linkline x matchRef cs ce l hok hm

open CM.Proofs.InlSer CM.Model.Inl in
/-- … and when the matcher rejects it the brackets stay literal text: resolution is EXACTLY the matcher's verdict on the
    normalised label. -/
theorem shortcut_reference_literal (x : IExt) (matchRef : Bytes → Bool) (cs ce : Int) (l : LinkLine) (hok : LinkLineOK x l)
    (hm : matchRef (l.label x) = false) :
    parseInlines x l.bytes l.bytes.toArray matchRef cs ce [mkInline IK.unparsed 0 (l.bytes.length : Int)] =
      .ok ((l.A l.bytes ++ leafN IK.text l.p (l.p + 1) :: (l.B l.bytes ++ [leafN IK.text l.q (l.q + 1)])).map nodeTree) :=
  InlSer.parseInlines_linkline_neg x matchRef cs ce l hok hm

-- Non-vacuity
private def b (s : String) : Bytes := s.toUTF8.toList
example : normalizeLabel id (b " \tFoo \r\n  bar\t") = b "Foo bar" := by decide +kernel
example : Spec.words (b "Foo\n bar") = Spec.words (b " Foo bar ") ∧ b "Foo\n bar" ≠ b " Foo bar " := by decide +kernel

end CM.Props.C12
