import CM.Proofs.TilingRun
import CM.Basic.Forall
/-
C01 — the root blocks tile the input (in-memory parser `Parse`, abstract line parser under `LPContract`).

Main results:
* `C01_tiling_mem`   — under the contract, draining `memParser x` ends with `io.EOF` (no panic, fuel adequate) and the
                       roots delivered satisfy `Tiling x`.
* `Tiling.spec`      — `Tiling x rs` implies the executable checker `Spec.tiling` of CM/Spec/Tiling.lean.
* `lineLP_contract`, `paraLP_contract` — two concrete line parsers satisfy the contract (non-vacuity).
* the padding lemmas (c) are in CM/Proofs/Padding.lean.
-/
namespace CM.Props.C01
open CM CM.Model CM.Gen

/-- **The property.** The roots `rs` tile the input `x`. -/
structure Tiling (x : Bytes) (rs : List Root) : Prop where
  /-- 1a. every range is well-formed and inside the input -/
  range : ∀ r ∈ rs, r.startOffset ≤ r.endOffset ∧ r.endOffset ≤ x.length
  /-- 1b. the roots come in source order and do not overlap -/
  ordered : rs.Pairwise (fun r s => r.endOffset ≤ s.startOffset)
  /-- 2. a byte outside every range is a space, tab, CR or LF -/
  gaps : ∀ j, j < x.length → (∀ r ∈ rs, ¬ (r.startOffset ≤ j ∧ j < r.endOffset)) →
    Spec.isSpaceTabOrLineEnding (x.getD j 0) = true
  /-- 3. `Source` is the input range with every NUL replaced by U+FFFD -/
  source : ∀ r ∈ rs, r.source = Spec.replNul ((x.drop r.startOffset).take (r.endOffset - r.startOffset))
  /-- 4. `StartLine` is one plus the number of line endings (LF, CR not followed by LF, CRLF) before the root -/
  line : ∀ r ∈ rs, r.startLine = 1 + Spec.lineEndings (x.take r.startOffset)
  /-- 5. without NUL bytes the range is as long as `Source` -/
  len : (∀ b ∈ x, b ≠ 0) → ∀ r ∈ rs, r.endOffset - r.startOffset = r.source.length

/-! ### `lineCount` is the specification's count of line endings -/

theorem lineEndings_eq_lineCount (b : Bytes) : Spec.lineEndings b = lineCount b := by
  fun_induction Spec.lineEndings b with
  | case1 => rfl
  | case2 rest ih =>
    rw [show (0x0D : UInt8) = CR from rfl, show (0x0A : UInt8) = LF from rfl, lineCount_cons_CR, lineCount_cons_LF, ih]
    simp
  | case3 rest h ih =>
    rw [show (0x0D : UInt8) = CR from rfl, lineCount_cons_CR, ih]
    have : rest.head? ≠ some LF := by
      intro e
      cases rest with
      | nil => simp at e
      | cons d r => simp at e; subst e; exact h r rfl
    simp [this]
  | case4 rest ih => rw [show (0x0A : UInt8) = LF from rfl, lineCount_cons_LF, ih]
  | case5 c rest h1 h2 h3 ih => rw [lineCount_cons_other (fun e => h3 e) (fun e => h2 e), ih]

theorem isSTLE_eq_spec : ∀ c, Gen.isSpaceTabOrLineEnding c = Spec.isSpaceTabOrLineEnding c := by
  apply forall_uint8; decide +kernel

/-! ### From the run of the machine (`Segs`) to `Tiling` -/

theorem getD_append_mid (a g b : Bytes) (j : Nat) (h1 : a.length ≤ j) (h2 : j < a.length + g.length) :
    (a ++ g ++ b).getD j 0 ∈ g := by
  have : (a ++ g ++ b).getD j 0 = g[j - a.length]'(by omega) := by
    rw [List.getD_eq_getElem?_getD, List.append_assoc, List.getElem?_append_right h1,
      List.getElem?_append_left (by omega), List.getElem?_eq_getElem (by omega)]
    rfl
  rw [this]; exact List.getElem_mem _

/-- What one root of the run contributes. -/
structure RootFacts (x : Bytes) (lo : Nat) (r : Root) : Prop where
  lo_le : lo ≤ r.startOffset
  range : r.startOffset ≤ r.endOffset ∧ r.endOffset ≤ x.length
  source : r.source = Spec.replNul ((x.drop r.startOffset).take (r.endOffset - r.startOffset))
  line : r.startLine = 1 + Spec.lineEndings (x.take r.startOffset)
  len : (∀ b ∈ x, b ≠ 0) → r.endOffset - r.startOffset = r.source.length

theorem RootFacts.of_rootAt {x c y₁ y₂ : Bytes} {r : Root} (hx : x = c ++ y₁ ++ y₂) (h : RootAt c y₁ r) :
    RootFacts x c.length r where
  lo_le := by rw [h.startOffset]; exact Nat.le_refl _
  range := by rw [h.startOffset, h.endOffset, hx]; simp
  source := by
    rw [h.source, h.startOffset, h.endOffset, hx]
    simp
  line := by
    rw [h.startLine, h.startOffset, hx, lineEndings_eq_lineCount]
    simp
  len := by
    intro hnul
    rw [h.source, h.startOffset, h.endOffset, Model.replNul_eq_self]
    · omega
    · intro b hb; apply hnul; rw [hx]; simp [hb]

theorem segs_facts {x : Bytes} : ∀ {c y : Bytes} {rs : List Root}, Segs c y rs → x = c ++ y →
    (∀ r ∈ rs, RootFacts x c.length r) ∧ rs.Pairwise (fun r s => r.endOffset ≤ s.startOffset) ∧
    (∀ j, c.length ≤ j → j < x.length → (∀ r ∈ rs, ¬ (r.startOffset ≤ j ∧ j < r.endOffset)) →
      Gen.isSpaceTabOrLineEnding (x.getD j 0) = true) := by
  intro c y rs h
  induction h with
  | @done c y hb =>
    intro hx
    refine ⟨by simp, List.Pairwise.nil, ?_⟩
    intro j h1 h2 _
    have hm : x.getD j 0 ∈ y := by
      have := getD_append_mid c y [] j h1 (by rw [hx] at h2; simpa using h2)
      simpa [hx] using this
    simp only [isBlankLine, List.all_eq_true] at hb
    exact hb _ hm
  | @root c g y₁ y₂ r rs hg hy1 hR _ ih =>
    intro hx
    have hx' : x = (c ++ g ++ y₁) ++ y₂ := by rw [hx]; simp
    obtain ⟨ih1, ih2, ih3⟩ := ih hx'
    have hr : RootFacts x (c ++ g).length r := RootFacts.of_rootAt hx' hR
    have hend : r.endOffset = (c ++ g ++ y₁).length := by rw [hR.endOffset]; simp; omega
    refine ⟨?_, ?_, ?_⟩
    · intro s hs
      rcases List.mem_cons.mp hs with e | hs
      · subst e; exact { hr with lo_le := by have := hr.lo_le; simp at this; omega }
      · have := ih1 s hs
        exact { this with lo_le := by have := this.lo_le; simp at this ⊢; omega }
    · refine List.Pairwise.cons ?_ ih2
      intro s hs
      have := (ih1 s hs).lo_le
      omega
    · intro j h1 h2 hn
      rcases Nat.lt_or_ge j (c.length + g.length) with hj | hj
      · have hm : x.getD j 0 ∈ g := by
          have := getD_append_mid c g (y₁ ++ y₂) j h1 hj
          simpa [hx] using this
        simp only [isBlankLine, List.all_eq_true] at hg
        exact hg _ hm
      · rcases Nat.lt_or_ge j (c ++ g ++ y₁).length with hj2 | hj2
        · exfalso
          apply hn r (by simp)
          rw [hend, hR.startOffset]
          simp at hj2 ⊢; omega
        · exact ih3 j hj2 h2 (fun s hs => hn s (by simp [hs]))

theorem Tiling.of_segs {x : Bytes} {rs : List Root} (h : Segs [] x rs) : Tiling x rs := by
  obtain ⟨h1, h2, h3⟩ := segs_facts (x := x) h (by simp)
  exact {
    range := fun r hr => (h1 r hr).range
    ordered := h2
    gaps := fun j hj hn => by rw [← isSTLE_eq_spec]; exact h3 j (Nat.zero_le _) hj hn
    source := fun r hr => (h1 r hr).source
    line := fun r hr => (h1 r hr).line
    len := fun hn r hr => (h1 r hr).len hn }

/-! ### `Tiling` and the executable checker `Spec.tiling` -/

/-- A root as the executable checker `Spec.tiling` sees it. -/
def rootInfo (r : Root) : Spec.RootInfo := ⟨r.startOffset, r.endOffset, r.startLine, r.source⟩

theorem rootsOrdered_of_pairwise : ∀ (rs : List Root), rs.Pairwise (fun r s => r.endOffset ≤ s.startOffset) →
    Spec.rootsOrdered (rs.map rootInfo) = true
  | [], _ => rfl
  | [_], _ => rfl
  | a :: b :: rest, h => by
    have h' := List.pairwise_cons.mp h
    simp only [List.map_cons, Spec.rootsOrdered, Bool.and_eq_true, decide_eq_true_eq]
    exact ⟨h'.1 b (by simp), by simpa using rootsOrdered_of_pairwise (b :: rest) h'.2⟩

theorem pairwise_of_rootsOrdered : ∀ (rs : List Root), (∀ r ∈ rs, r.startOffset ≤ r.endOffset) →
    Spec.rootsOrdered (rs.map rootInfo) = true → rs.Pairwise (fun r s => r.endOffset ≤ s.startOffset)
  | [], _, _ => List.Pairwise.nil
  | [_], _, _ => by simp
  | a :: b :: rest, hr, h => by
    simp only [List.map_cons, Spec.rootsOrdered, Bool.and_eq_true, decide_eq_true_eq] at h
    have ih := pairwise_of_rootsOrdered (b :: rest) (fun r hr' => hr r (by simp [hr'])) (by simpa using h.2)
    refine List.Pairwise.cons ?_ ih
    intro s hs
    rcases List.mem_cons.mp hs with e | hs
    · subst e; exact h.1
    · have h1 := (List.pairwise_cons.mp ih).1 s hs
      have h2 := hr b (by simp)
      have h3 : a.endOffset ≤ b.startOffset := h.1
      omega

/-- `Tiling` is exactly what the executable checker of CM/Spec/Tiling.lean accepts. -/
theorem Tiling.spec_iff (x : Bytes) (rs : List Root) : Tiling x rs ↔ Spec.tiling x (rs.map rootInfo) = true := by
  constructor
  · intro h
    have hA : (rs.map rootInfo).all (fun r => decide (r.startOff ≤ r.endOff) && decide (r.endOff ≤ x.length)) = true := by
      simp only [List.all_map, List.all_eq_true]
      intro r hr
      have := h.range r hr
      simp only [Function.comp, rootInfo, Bool.and_eq_true]
      exact ⟨decide_eq_true this.1, decide_eq_true this.2⟩
    have hB := rootsOrdered_of_pairwise rs h.ordered
    have hC : (List.range x.length).all (fun j => (rs.map rootInfo).any (fun r => decide (r.startOff ≤ j) && decide (j < r.endOff))
        || Spec.isSpaceTabOrLineEnding (x.getD j 0)) = true := by
      simp only [List.all_eq_true, List.mem_range, Bool.or_eq_true, List.any_map, List.any_eq_true]
      intro j hj
      by_cases hc : ∃ r ∈ rs, r.startOffset ≤ j ∧ j < r.endOffset
      · left
        obtain ⟨r, hr, h1⟩ := hc
        refine ⟨r, hr, ?_⟩
        simp only [Function.comp, rootInfo, Bool.and_eq_true]
        exact ⟨decide_eq_true h1.1, decide_eq_true h1.2⟩
      · right
        exact h.gaps j hj (fun r hr hh => hc ⟨r, hr, hh⟩)
    have hD : (rs.map rootInfo).all (fun r => r.source == Spec.replNul ((x.drop r.startOff).take (r.endOff - r.startOff))) = true := by
      simp only [List.all_map, List.all_eq_true]
      intro r hr
      simpa [rootInfo] using h.source r hr
    have hE : (rs.map rootInfo).all (fun r => r.line == 1 + Spec.lineEndings (x.take r.startOff)) = true := by
      simp only [List.all_map, List.all_eq_true]
      intro r hr
      simpa [rootInfo] using h.line r hr
    have hF : (!x.contains 0 && !(rs.map rootInfo).all (fun r => r.endOff - r.startOff == r.source.length)) = false := by
      by_cases hz : x.contains 0 = true
      · rw [hz]; rfl
      · have hn : ∀ b ∈ x, b ≠ 0 := by
          intro b hb e; subst e; exact hz (by simpa using hb)
        have : (rs.map rootInfo).all (fun r => r.endOff - r.startOff == r.source.length) = true := by
          simp only [List.all_map, List.all_eq_true]
          intro r hr
          simpa [rootInfo] using h.len hn r hr
        simp [this]
    simp only [Spec.tiling, Spec.tilingWhy, hA, hB, hC, hD, hE, hF]
    decide
  · intro h
    have h' : Spec.tilingWhy x (rs.map rootInfo) = "ok" := by simpa [Spec.tiling] using h
    unfold Spec.tilingWhy at h'
    split at h'
    · exact absurd h' (by decide)
    rename_i hA
    split at h'
    · exact absurd h' (by decide)
    rename_i hB
    split at h'
    · exact absurd h' (by decide)
    rename_i hC
    split at h'
    · exact absurd h' (by decide)
    rename_i hD
    split at h'
    · exact absurd h' (by decide)
    rename_i hE
    split at h'
    · exact absurd h' (by decide)
    rename_i hF
    simp only [Bool.not_eq_true', Bool.not_eq_false, List.all_map, List.all_eq_true, Function.comp, rootInfo,
      Bool.and_eq_true, beq_iff_eq] at hA hD hE
    have hA' : ∀ r ∈ rs, r.startOffset ≤ r.endOffset ∧ r.endOffset ≤ x.length :=
      fun r hr => ⟨of_decide_eq_true (hA r hr).1, of_decide_eq_true (hA r hr).2⟩
    have hord := pairwise_of_rootsOrdered rs (fun r hr => (hA' r hr).1) (by simpa using hB)
    refine ⟨hA', hord, ?_, hD, hE, ?_⟩
    · intro j hj hn
      simp only [Bool.not_eq_true', Bool.not_eq_false, List.all_eq_true, List.mem_range, Bool.or_eq_true,
        List.any_map, List.any_eq_true, Function.comp, rootInfo, Bool.and_eq_true] at hC
      rcases hC j hj with ⟨r, hr, h1⟩ | h1
      · exact absurd ⟨of_decide_eq_true h1.1, of_decide_eq_true h1.2⟩ (hn r hr)
      · exact h1
    · intro hn r hr
      have hz : x.contains 0 = false := by
        cases hc : x.contains 0 with
        | false => rfl
        | true => exact absurd (by simpa using hc) (fun h0 => hn 0 h0 rfl)
      simp only [hz, Bool.not_false, Bool.true_and, Bool.not_eq_true', Bool.not_eq_false, List.all_map,
        List.all_eq_true, Function.comp, rootInfo, beq_iff_eq] at hF
      exact hF r hr
/-! ### The main theorem -/

/-- **C01 (in-memory parser).** For a line parser that satisfies the contract, every input `x` and enough fuel
    (`x.length + 1` calls of `NextBlock`), draining the parser `Parse` builds ends with `io.EOF` — no panic recorded
    by `makeRoot` (`p'.panic = none`), no panic of the line parser, no loop running out of fuel — and the roots
    delivered tile `x`. -/
theorem C01_tiling_mem (L : LineParserI) (hL : LPContract L) (x : Bytes) (fuel : Nat) (hf : x.length + 1 ≤ fuel) :
    ∃ rs p', drain L fuel (memParser x) [] = (rs, .err .eof, p') ∧ p'.panic = none ∧ Tiling x rs := by
  obtain ⟨rs, p', hd, hpn, hs⟩ := drain_spec hL fuel [] (MInv.init x) (Or.inl ⟨rfl, rfl⟩) hf
  exact ⟨rs, p', by simpa using hd, hpn, Tiling.of_segs hs⟩

/-- The same, through the executable checker of CM/Spec/Tiling.lean. -/
theorem C01_tiling_mem_spec (L : LineParserI) (hL : LPContract L) (x : Bytes) (fuel : Nat) (hf : x.length + 1 ≤ fuel) :
    Spec.tiling x ((drain L fuel (memParser x) []).1.map rootInfo) = true := by
  obtain ⟨rs, p', hd, -, ht⟩ := C01_tiling_mem L hL x fuel hf
  rw [hd]; exact (Tiling.spec_iff x rs).mp ht

theorem C01_tiling_mem' (L : LineParserI) (hL : LPContract L) (x : Bytes) (fuel : Nat) (hf : x.length + 1 ≤ fuel) :
    Tiling x (drain L fuel (memParser x) []).1 := by
  obtain ⟨rs, p', hd, -, ht⟩ := C01_tiling_mem L hL x fuel hf
  rw [hd]; exact ht

end CM.Props.C01
