import CM.Proofs.InlCoverRewrite
import CM.Proofs.InlCoverScan
import CM.Proofs.InlCoverExamples
import CM.Proofs.ParseScanLkCoverRewrite
import CM.Proofs.ParseAsmCoverEx
import CM.Proofs.ParseAsmScanCovMain
import CM.Proofs.ParseAsmScanCovStrip2
import CM.Proofs.ParseAsmScanCovStrip3
import CM.Proofs.ParseAsmScanCovLabelEx
import CM.Proofs.ParseAsmScanCovLabel2
/-
C03, inline half - "nothing lost": every letter, digit and non-ASCII byte of the unparsed runs handed to Rewrite is covered by a
leaf of the result (20 proof files `InlCover*`: a fourth spec chain carrying the span invariant and a coverage frontier together;
delimiter-stack nodes contain no needed byte, `wrap`/shrinking/removal never drop a covering leaf, the final `addText` covers what
is left of the last run; `parseRun_uge`: the model's bounded outer loop matches Go's because the run index never decreases).
Stated for every tree with ordered, disjoint runs inside their containers, modulo the scanner facts of C02's inline half plus their
coverage counterparts (`TokCover.html/code`, `LinkCover.inline/label`: what the HTML-tag, code-span, inline-link and label scanners
skip contains no needed byte outside their text pieces; the autolink scanner is discharged). "Not duplicated" follows from
`rewrite_spans` + `no_duplication`. Deriving the scanner facts for block-phase trees is the open connection; on parser output
the clause is evaluated by `Spec.coverage` on every tree.
CORRECTION (sixth wave): `ContsOK` is the original scanner hypothesis, shown in `Props/C02Scan.lean` to be false for containers that
hold a code span, so `rewrite_cover` spoke about fewer trees than intended. `rewrite_cover2` is the same conclusion under the repaired
`ContsOK2` (8 generated files `ParseScanLkCover*`; two proof steps changed), whose container facts ARE derived for block-phase trees
(`Props/C02Scan.lean`). `ContsCov` (the coverage counterparts) remains a hypothesis; `Spec.coverage` evaluated on the
implementation's trees decides the rest.
-/
namespace CM.Props.C03
open CM CM.Model CM.Model.Inl CM.Spec CM.Proofs CM.Proofs.InlH

theorem rewrite_cover (x : IExt) (src : Bytes) (srcA : Array UInt8) (matchRef : Bytes → Bool)
    (t : Tree) (hw : WFT t) (hc : ContsOK x src srcA matchRef t) (hv : ContsCov x src srcA matchRef t)
    (t' : Tree) (h : rewriteE x src srcA matchRef t = .ok t') :
    ∀ j : Int, 0 ≤ j → needsCover (srcA[j.toNat]!) = true → CovTs [t] j → CovTs [t'] j :=
  rewriteE_cover x src srcA matchRef t hw hc hv t' h

/-- The model's bounded loop over the runs never stops early: the run index never decreases inside the tokenizer. -/
theorem parseRun_run_index_monotone : type_of% @parseRun_uge := @parseRun_uge

/-- The inline half under the repaired scanner hypotheses. -/
theorem rewrite_cover2 : type_of% @CM.Proofs.InlH2.rewriteE_cover := @CM.Proofs.InlH2.rewriteE_cover

/-- **C03 "nothing lost" through Rewrite, for the whole of `Parse`**: every needed byte a leaf of a root's block-phase tree covers is
    covered by a leaf of its final tree - given the decidable document fact `ParseTails` (`Props/C02Scan.lean`) and the coverage facts
    of the four byte scanners on the containers of the block-phase trees (`ScanCovE`: what the HTML-tag, code-span, inline-link and
    label scanners skip holds no needed byte outside their text pieces). The third clause of the per-container coverage hypothesis
    (needed bytes covered by inline children lie in Unparsed runs) is discharged for block-phase trees (`blockphase_contsCovE`), and
    the content-less heading needs no special hypothesis. -/
theorem parse_cover_of_tails_scan : type_of% @CM.Proofs.PSc.parse_cover_of_tails_scan := @CM.Proofs.PSc.parse_cover_of_tails_scan
theorem parse_cover_of_tails : type_of% @CM.Proofs.PSc.parse_cover_of_tails := @CM.Proofs.PSc.parse_cover_of_tails
theorem rewrite_cover_E : type_of% @CM.Proofs.PSc.rewriteE_cover_E := @CM.Proofs.PSc.rewriteE_cover_E
theorem blockphase_contsCovE : type_of% @CM.Proofs.PSc.blockphase_contsCovE := @CM.Proofs.PSc.blockphase_contsCovE
/-- The scanner coverage facts hold trivially for sources without `<`, a backtick, `(` and `[` (used for the non-vacuity instance). -/
theorem scanCovE_of_plain : type_of% @CM.Proofs.PSc.scanCovE_of_plain := @CM.Proofs.PSc.scanCovE_of_plain

/-- Towards the scanner coverage facts (7 files `ParseAsmScanCov*`): the code-span scanner's coverage field for every container of a
    block-phase tree, given the strip step's specification `StripCov`; its mathematical content (`strip_keeps_coverage`: the two
    surgeries of `stripCodeSpanSpace` never drop a piece covering a needed byte - only a space, or an Indent piece) is proved, the
    monadic wrapping of it is not; the other three fields are stated as targets. `parse_cover_of_parseTails_of_strip` reduces the
    hypothesis-free whole-Parse statement to exactly those four open facts. -/
theorem tokCov_code : type_of% @CM.Proofs.PSc.tokCov_code := @CM.Proofs.PSc.tokCov_code
theorem strip_keeps_coverage : type_of% @CM.Proofs.PSc.strip_result_cov := @CM.Proofs.PSc.strip_result_cov
theorem parse_cover_of_parseTails_of_strip : type_of% @CM.Proofs.PSc.parse_cover_of_parseTails_of_strip :=
  @CM.Proofs.PSc.parse_cover_of_parseTails_of_strip

/-- The strip step's specification is a theorem (hand-proved triple over the named parts of `stripCodeSpanSpace`), hence the code-span
    coverage field holds for every container with content of every block-phase root; three fields (label, HTML tag, inline link)
    remain in the reduction. -/
theorem stripCodeSpanSpace_keeps_coverage : type_of% @CM.Proofs.PSc.stripCov := @CM.Proofs.PSc.stripCov
theorem blockphase_code_coverage : type_of% @CM.Proofs.PSc.blockphase_code := @CM.Proofs.PSc.blockphase_code
theorem parse_cover_of_parseTails_of_three : type_of% @CM.Proofs.PSc.parse_cover_of_parseTails_of_three :=
  @CM.Proofs.PSc.parse_cover_of_parseTails_of_three

/-- Shared prerequisite of the three remaining fields, for paragraph and setext-heading containers of block-phase trees: the text
    nodes `collectTextNodes` gathers between two positions cover every needed byte of the runs between them (these containers still
    meet the block phase's own reader context, so the block-phase collect theorem is reused; ATX headings need a one-run argument). -/
theorem blockphase_collect_covers : type_of% @CM.Proofs.PSc.blockphase_collect_CovTs := @CM.Proofs.PSc.blockphase_collect_CovTs

end CM.Props.C03
