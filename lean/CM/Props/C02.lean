import CM.Proofs.BlocksSpans
import CM.Proofs.BlocksSpansStream
import CM.Proofs.RefDefSpansMain
/-
C02 — every span is valid, nested in its parent, and ordered: the BLOCK phase, as theorems about the model of the real
block parser (tied to the code by the `blocks` correspondence op). `PBSpans QT lo hi b`: the block's span lies in
`[lo, hi]`; its block children are in order, pairwise non-overlapping and inside it; its inline children likewise; only a
last child may be open. `processLine_spans`: one line keeps the document root's `PBSpans` (for the source grown by that
line). `drain_spans`: every root `Parse` delivers (block phase) has `PBSpans 0 |Source|` and its span ends at `|Source|`.
The hypothesis `RefDefSpansOK` that `drain_spans` used to carry — that the blocks `onCloseParagraph` splits a paragraph into
(link reference definitions + remainder) tile a sub-range of the paragraph in order — is now a theorem
(`refDefSpansOK`, 19 proof files `RefDefSpans*`: the reader of the definition parser only moves forward through the
paragraph's inline nodes, whose line endings sit at node ends), so `drain_spans_uncond` and `drain_spans_stream` hold for
every input with no hypothesis (the streaming form within the block-size limit, as C08). The inline half and the
character-boundary clause need the inline-phase model; they are monitored on the implementation by `Spec.spansOK`.
-/
namespace CM.Props.C02
open CM CM.Model CM.Proofs CM.Proofs.BSp

/-- One line through the block parser keeps the span invariant of the document under construction. -/
theorem processLine_spans (x : PExt) (lp : LP) (source : Bytes) (lineStart : Nat) (hinv : LPInv' lp)
    (hls : lineStart ≤ source.length) (hopen : lp.root.label.stop < 0)
    (h : PBSpans (RefDefSpansOK x source lineStart source.length) 0 lineStart lp.root) :
    PBSpans QT 0 source.length (processLine x (lp.reset source lineStart)).root ∧
    (lineStart < source.length → (processLine x (lp.reset source lineStart)).root.label.stop < 0) :=
  BSp.processLine_spans x lp source lineStart hinv hls hopen h

/-- Every root block of the in-memory parse (block phase): spans valid, nested, ordered, inside its own Source, and the
    root's span ends at `len(Source)` — whenever the `RefDefSpansOK` check holds along the run. -/
theorem drain_spans (x : PExt) (inp : Bytes) (fuel : Nat)
    (h : isRefDefFail (drain (blocksLPc x) fuel (memParser inp) []).2.1 = false) :
    ∀ r ∈ (drain (blocksLP x) fuel (memParser inp) []).1, RootSpansOK r :=
  BSp.drain_spans x inp fuel h

theorem root_span (r : Root) (h : RootSpansOK r) :
    0 ≤ r.block.label.start ∧ r.block.label.start ≤ r.block.label.stop ∧ r.block.label.stop = r.source.length :=
  h.root

/-- Re-basing the left-over siblings when a root is cut off is a translation: it preserves the invariant. -/
theorem offset_spans (n : Int) (b : PB) {lo hi : Int} (hlo : 0 ≤ lo) (hlon : 0 ≤ lo + n) (h : PBSpans QT lo hi b) :
    PBSpans QT (lo + n) (hi + n) (offsetPB n b) :=
  offsetPB_spans n b hlo hlon h

/-- The link-reference-definition check never fails: `RefDefSpansOK` holds along every run. -/
theorem refDefSpansOK (x : PExt) (inp : Bytes) (fuel : Nat) :
    isRefDefFail (drain (blocksLPc x) fuel (memParser inp) []).2.1 = false :=
  RDS.refDefSpansOK x inp fuel

/-- **Block half of C02, unconditional.** Every root block `Parse` delivers (block phase), for every input: spans valid,
    nested, ordered, only inside its own Source, the root's span ending at `len(Source)`. -/
theorem drain_spans_uncond (x : PExt) (inp : Bytes) (fuel : Nat) :
    ∀ r ∈ (drain (blocksLP x) fuel (memParser inp) []).1, RootSpansOK r :=
  RDS.drain_spans_uncond x inp fuel

/-- … and every root block the streaming parser delivers, for every reader schedule and final reader error, when no
    root block reaches the block-size limit (`Small`, the side condition of C08). -/
theorem drain_spans_stream (x : PExt) (inp : Bytes) (sched : List Nat) (eofWith : Bool) (fin : RErr)
    (hsmall : Small inp) (fuel : Nat) :
    ∀ r ∈ (drain (blocksLP x) fuel
      (newBlockParser { data := inp, sched := sched, eofWith := eofWith, fin := fin }) []).1, RootSpansOK r :=
  RDS.drain_spans_stream x inp sched eofWith fin hsmall fuel

end CM.Props.C02
