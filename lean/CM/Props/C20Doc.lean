import CM.Proofs.FormatDoc
import CM.Proofs.FormatDocStack
import CM.Props.C18
/-
C20 (document level) — `format.Format(w, blocks)`: the error discipline of the whole formatter.
`Model.Fmt.format ext failAt blocks` is the model of `Format` (CM/Model/FormatDoc.lean, validated against the
Go code by the XFMT correspondence run) over the scripted writer of CM/Model/Format.lean, which records every
`WriteString` call in `fw.w.log` and fails at the `failAt`-th call (0-based); `fw.err` is the error `Format`
returns (`fw.err`). All statements hold for EVERY forest of trees (well-formed or not, including those on which
the Go code panics: then they describe the writes issued up to the panic), every `Source`, every
`html.UnescapeString` (`ext`) and every failure index.

Not expressible here: "the tree is left untouched" (the model is a function of immutable values: it cannot
mutate its argument; the harness checks this on the Go side, C20 clause 1). Determinism is functionality: the
model is a Lean function, so equal arguments give equal results (`format_deterministic`, by `rfl`).
-/
namespace CM.Props.C20Doc
open CM CM.Model CM.Model.Fmt CM.Proofs CM.Proofs.FormatDoc

/-- First error wins, nothing is written after it (general form, any `failAt`): either `Format` returns no error
    and no write issued has failed, or it returns the error and the failing write is the last one issued. -/
theorem format_first_error_doc (ext : Ext) (failAt : Option Nat) (blocks : Roots) :
    let r := format ext failAt blocks
    (r.fw.err = false → ∀ i, i < r.fw.w.log.length → failAt ≠ some i) ∧
    (r.fw.err = true → r.fw.w.log.length ≥ 1 ∧ failAt = some (r.fw.w.log.length - 1)) := by
  have h := format_inv ext failAt blocks
  have hf := format_failAt ext failAt blocks
  refine ⟨fun he i hi => ?_, fun he => ?_⟩
  · have := h.1 he i hi
    rwa [hf] at this
  · have := h.2 he
    unfold JustFailed at this
    rwa [hf] at this

/-- If the writer fails at its `k`-th write (i.e. `Format` gets as far as issuing it), `Format` returns that
    error and the failing write is the last one: exactly `k+1` writes were issued. Conversely an error is only
    ever returned in that situation. -/
theorem format_fails_at_k (ext : Ext) (k : Nat) (blocks : Roots) :
    let r := format ext (some k) blocks
    (k < r.fw.w.log.length ↔ r.fw.err = true) ∧ (r.fw.err = true → r.fw.w.log.length = k + 1) := by
  have h := format_first_error_doc ext (some k) blocks
  simp only at h ⊢
  refine ⟨⟨fun hk => ?_, fun he => ?_⟩, fun he => ?_⟩
  · cases he : (format ext (some k) blocks).fw.err with
    | true => rfl
    | false => exact absurd rfl (h.1 he k hk)
  · have := h.2 he
    have h2 : k = (format ext (some k) blocks).fw.w.log.length - 1 := by simpa using this.2
    omega
  · have := h.2 he
    have h2 : k = (format ext (some k) blocks).fw.w.log.length - 1 := by simpa using this.2
    omega

/-- With a writer that never fails `Format` returns no error. -/
theorem format_healthy_no_error (ext : Ext) (blocks : Roots) : (format ext none blocks).fw.err = false := by
  cases he : (format ext none blocks).fw.err with
  | false => rfl
  | true => have := ((format_first_error_doc ext none blocks).2 he).2; simp at this

/-- A failing writer sees a prefix of the same output: the writes issued to a writer failing at its `k`-th write
    are exactly the first `k+1` writes of the healthy run (all of them when the healthy run issues at most `k`),
    and the error is returned exactly when the healthy run issues more than `k` writes. -/
theorem format_prefix_of_healthy (ext : Ext) (k : Nat) (blocks : Roots) :
    (format ext (some k) blocks).fw.w.log = ((format ext none blocks).fw.w.log).take (k + 1) ∧
    ((format ext (some k) blocks).fw.err = true ↔ k < (format ext none blocks).fw.w.log.length) := by
  rcases format_rel ext k blocks with hl | hd
  · have hlen := hl.fw.w.len
    refine ⟨?_, ?_⟩
    · rw [hl.fw.w.log, List.take_of_length_le (by omega)]
    · rw [hl.fw.ea]; constructor
      · intro h; cases h
      · intro h; omega
  · have hlen := hd.w.len
    exact ⟨hd.w.log, by rw [hd.ea]; constructor <;> intro _ <;> first | rfl | omega⟩

/-- Until the failing write the two runs are indistinguishable: if the writer failing at `k` never gets to fail,
    the whole final state (source, panic flag, indent stack, flags, log) is that of the healthy run. -/
theorem format_unreached_failure (ext : Ext) (k : Nat) (blocks : Roots)
    (h : (format ext none blocks).fw.w.log.length ≤ k) :
    let a := format ext (some k) blocks
    let b := format ext none blocks
    a.fw.err = false ∧ a.fw.w.log = b.fw.w.log ∧ a.panic = b.panic ∧ a.source = b.source ∧
      a.fw.indents = b.fw.indents ∧ a.fw.startedLine = b.fw.startedLine ∧ a.fw.hasWritten = b.fw.hasWritten := by
  rcases format_rel ext k blocks with hl | hd
  · exact ⟨hl.fw.ea, hl.fw.w.log, hl.pan, hl.src, hl.fw.ind, hl.fw.sl, hl.fw.hw⟩
  · have := hd.w.len; omega

/-- The one panic site of format.go that does not depend on the tree being well formed — `fw.pop()` slicing an
    empty indent stack — is unreachable: `Post` pops exactly what `Pre` pushed, for every forest. And a run that
    does not panic ends with an empty indent stack. -/
theorem format_pop_never_panics (ext : Ext) (failAt : Option Nat) (blocks : Roots) :
    (format ext failAt blocks).panic ≠ some .popEmpty ∧
    ((format ext failAt blocks).panic = none → (format ext failAt blocks).fw.indents = []) :=
  format_popSafe ext failAt blocks

/-- The fuel given to the escaping loop of `visitInline` (`len(s)`) is adequate: more fuel changes nothing. -/
theorem visitInline_fuel_adequate (setext : Bool) (fuel : Nat) (s : Bytes) (h : s.length ≤ fuel) :
    textLoop setext fuel s = textLoop setext s.length s :=
  textLoop_fuel setext fuel s.length s h (Nat.le_refl _)

/-- Determinism is functionality. -/
theorem format_deterministic (ext : Ext) (failAt : Option Nat) (blocks blocks' : Roots) (h : blocks = blocks') :
    format ext failAt blocks = format ext failAt blocks' := by rw [h]

/-! Non-vacuity and concrete evaluations: the document `"  - foo\n\n\tbar\n"` as parsed by the Go parser
    (a loose list, one item with its marker and two paragraphs). -/

private def blk (kind : Nat) (start stop : Int) (cs : List Tree) (char : UInt8 := 0) (loose : Bool := false)
    (indent : Int := 0) : Tree :=
  .node { isBlock := true, kind := kind, start := start, stop := stop, char := char, loose := loose, indent := indent } cs
private def inl (kind : Nat) (start stop : Int) (cs : List Tree := []) : Tree :=
  .node { isBlock := false, kind := kind, start := start, stop := stop } cs

private def src : Bytes := [0x20, 0x20, 0x2D, 0x20, 0x66, 0x6F, 0x6F, 0x0A, 0x0A, 0x09, 0x62, 0x61, 0x72, 0x0A]
private def doc : Roots :=
  [(src, blk 11 2 14 (char := 45) (loose := true)
      [blk 10 2 14 (char := 45) (loose := true) (indent := 4)
        [blk 12 2 3 [], blk 1 4 8 [inl 1 4 7], blk 1 10 14 [inl 1 10 13]]])]
private def ext0 : Ext := { unescape := id }

/-- `format` evaluated through the Walk refinement (the loop of `walk` is well-founded recursion). -/
private theorem format_eq_spec (ext : Ext) (fa : Option Nat) (b : Roots) :
    format ext fa b = CM.Spec.walkSpec (vroot b) (formatOpts ext b) { fw := { w := { failAt := fa } } } := by
  unfold format; exact CM.Props.C18.walk_refines_spec _ _ _

-- the healthy run: "- foo\n\n  bar\n\n" in 16 writes, no error
example : (format ext0 none doc).fw.w.log =
    [[], [0x2D], [0x20], [0x66], [0x6F], [0x6F], [0x0A], [0x0A], [], [0x20, 0x20], [], [0x62], [0x61], [0x72], [0x0A], [0x0A]] := by
  rw [format_eq_spec]; decide +kernel
example : (format ext0 none doc).fw.err = false ∧ (format ext0 none doc).panic = none := by
  rw [format_eq_spec]; decide +kernel
-- the writer failing at write 5: error returned, exactly the first 6 writes
example : (format ext0 (some 5) doc).fw.err = true ∧
    (format ext0 (some 5) doc).fw.w.log = [[], [0x2D], [0x20], [0x66], [0x6F], [0x6F]] := by
  rw [format_eq_spec]; decide +kernel
-- the hypothesis of `format_fails_at_k` is satisfiable (k = 5 < 6 writes) and so is that of
-- `format_unreached_failure` (16 ≤ 16)
example : 5 < (format ext0 (some 5) doc).fw.w.log.length := by rw [format_eq_spec]; decide +kernel
example : (format ext0 none doc).fw.w.log.length ≤ 16 := by rw [format_eq_spec]; decide +kernel
-- a forest on which the Go code panics (a list item without children): the panic is explicit in the model
example : (format ext0 none [([], blk 10 0 0 [])]).panic.isSome = true := by rw [format_eq_spec]; decide +kernel

end CM.Props.C20Doc
