import CM.Props.C01
/-
C01 — the contract `LPContract` is satisfiable (two concrete line parsers), and a Boolean run-time checker of the
contract, used to sanity-check the real block parser `blocksLP` on sample documents.
-/
namespace CM.Props.C01
open CM CM.Model CM.Gen

/-! ### Small facts -/

def closedPara (start stop : Nat) : PB := mkPB BK.paragraph start stop []
def openPara (start : Nat) : PB := mkPB BK.paragraph start (-1) []

@[simp] theorem isOpen_closedPara (a s : Nat) : (closedPara a s).isOpen = false := by
  simp only [closedPara, mkPB, PB.isOpen, PB.label]
  apply decide_eq_false
  omega

@[simp] theorem isOpen_openPara (a : Nat) : (openPara a).isOpen = true := by
  simp [openPara, mkPB, PB.isOpen, PB.label]

@[simp] theorem stopOf_closedPara (a s : Nat) : stopOf (closedPara a s) = s := by
  simp [closedPara, mkPB, stopOf, PB.label]

theorem padded_append {a b : Bytes} (ha : Padded a) (hb : Padded b) : Padded (a ++ b) := by
  obtain ⟨y₁, rfl⟩ := ha
  obtain ⟨y₂, rfl⟩ := hb
  exact ⟨y₁ ++ y₂, (padNulls_append y₁ y₂).symm⟩

theorem aligned_length_of_padded {src : Bytes} (h : Padded src) : Aligned src src.length := by
  obtain ⟨y, rfl⟩ := h
  exact aligned_padNulls_length y

theorem goodCut_length_of_padded {src : Bytes} (h : Padded src) : GoodCut src src.length :=
  ⟨aligned_length_of_padded h, by simp [CRLFSplit]⟩

/-- The position between a padded `src` and the next line is a good cut of `src ++ ln`. -/
theorem goodCut_append {src ln : Bytes} (h : Padded src) (hns : ¬ CRLFSplit src ln) :
    GoodCut (src ++ ln) src.length := by
  refine ⟨?_, by simpa using hns⟩
  have := aligned_length_of_padded h
  simp only [aligned_iff, List.take_left', List.take_length] at this ⊢
  exact this

/-! ### Line parser 1: every non-blank line is one closed block -/

/-- Every non-blank line becomes one closed paragraph-like block that spans the line without its indentation. -/
def lineLP : LineParserI where
  σ := List PB
  new bs := bs
  line σ src ls :=
    if isBlankLine (src.drop ls) then σ
    else σ ++ [closedPara (ls + indentLength (src.drop ls)) src.length]
  kids σ := σ
  panicked _ := none

/-- **Non-vacuity (1).** `lineLP` satisfies the contract. -/
def lineLP_contract : LPContract lineLP where
  Ok σ src ls := Padded src ∧ src ≠ [] ∧ ls = 0 ∧ σ = [closedPara (indentLength src) src.length]
  Pend _ _ := False
  fresh ln hp hl hb := by
    refine ⟨hp, hl.1, rfl, ?_⟩
    simp [lineLP, hb]
  next σ src ls ln h ho := by
    obtain ⟨_, _, _, rfl⟩ := h
    simp [lineLP, headOpen] at ho
  resume bs src ln h := h.elim
  cut σ src ls k k' rest h hk := by
    obtain ⟨_, _, _, rfl⟩ := h
    simp [lineLP] at hk
  cut' src k k' rest h := h.elim
  obs σ src ls h := by
    obtain ⟨hp, hne, rfl, rfl⟩ := h
    have hlen : 0 < src.length := List.length_pos_iff.mpr hne
    have hg := goodCut_length_of_padded hp
    simp [checkLPContractStep, stepOK, lineLP, kidsOK, hg, hlen, isBlankLine]
  obsP bs src h := h.elim

/-! ### Line parser 2: paragraphs, closed by a blank line, the end of input, or a line that starts with `#` -/

/-- Close the open blocks at `stop`. -/
def closeAll (stop : Nat) (σ : List PB) : List PB :=
  σ.map fun k => if k.isOpen then k.setLabel (fun l => { l with stop := stop }) else k

/-- Consecutive non-blank lines form a paragraph. A blank line (or the end of input) closes it at the start of that
    line; a line that starts with `#` closes it and opens the next paragraph, so the document can have a closed
    child followed by an open one, which `NextBlock` picks up again (`L.new`) on its next call. -/
def paraLP : LineParserI where
  σ := List PB
  new bs := bs
  line σ src ls :=
    let ln := src.drop ls
    if isBlankLine ln then closeAll ls σ
    else match σ with
      | [] => [openPara ls]
      | _ => if ln.head? = some 0x23 then closeAll ls σ ++ [openPara ls] else σ
  kids σ := σ
  panicked _ := none

theorem closeAll_openPara (a s : Nat) : closeAll s [openPara a] = [closedPara a s] := by
  simp [closeAll, openPara, closedPara, mkPB, PB.isOpen, PB.label, PB.setLabel]

/-- The states of `paraLP` in a session. -/
def ParaOk (σ : List PB) (src : Bytes) (ls : Nat) : Prop :=
  Padded src ∧ src ≠ [] ∧
  ((∃ a, σ = [openPara a] ∧ ls < src.length)
   ∨ (∃ a, σ = [closedPara a ls] ∧ 0 < ls ∧ ls ≤ src.length ∧ GoodCut src ls ∧ isBlankLine (src.drop ls) = true)
   ∨ (∃ a, σ = [closedPara a ls, openPara ls] ∧ 0 < ls ∧ ls < src.length ∧ GoodCut src ls ∧ Padded (src.drop ls)))

theorem paraLP_step (a : Nat) {src ln : Bytes} (hp : Padded src) (hne : src ≠ []) (hpl : Padded ln)
    (hns : ¬ CRLFSplit src ln) :
    ParaOk (paraLP.line [openPara a] (src ++ ln) src.length) (src ++ ln) src.length := by
  have hlen : 0 < src.length := List.length_pos_iff.mpr hne
  have hg := goodCut_append hp hns
  refine ⟨padded_append hp hpl, by simp [hne], ?_⟩
  by_cases hb : isBlankLine ln = true
  · right; left
    exact ⟨a, by simp [paraLP, hb, closeAll_openPara], hlen, by simp, hg, by simpa using hb⟩
  · have hlnne : ln ≠ [] := by intro e; subst e; exact hb rfl
    have hlnlen : 0 < ln.length := List.length_pos_iff.mpr hlnne
    by_cases hh : ln.head? = some 0x23
    · right; right
      exact ⟨a, by simp [paraLP, hb, hh, closeAll_openPara], hlen, by simp; omega, hg, by simpa using hpl⟩
    · left
      exact ⟨a, by simp [paraLP, hb, hh], by simp; omega⟩

theorem offsetPBs_openPara (s : Nat) : offsetPBs (-(s : Int)) [openPara s] = [openPara 0] := by
  simp [offsetPBs, offsetPB, offsetTrees, openPara, mkPB]
  omega

/-- **Non-vacuity (2).** `paraLP` satisfies the contract; its sessions go through every clause. -/
def paraLP_contract : LPContract paraLP where
  Ok := ParaOk
  Pend bs src := Padded src ∧ src ≠ [] ∧ bs = [openPara 0]
  fresh ln hp hl hb := by
    have hlen : 0 < ln.length := List.length_pos_iff.mpr hl.1
    exact ⟨hp, hl.1, Or.inl ⟨0, by simp [paraLP, hb], hlen⟩⟩
  next σ src ls ln h ho hpl _ hns := by
    obtain ⟨hp, hne, ⟨a, rfl, _⟩ | ⟨a, rfl, _⟩ | ⟨a, rfl, _⟩⟩ := h
    · exact paraLP_step a hp hne hpl hns
    · simp [paraLP, headOpen] at ho
    · simp [paraLP, headOpen] at ho
  resume bs src ln h _ hpl _ hns := by
    obtain ⟨hp, hne, rfl⟩ := h
    exact paraLP_step 0 hp hne hpl hns
  cut σ src ls k k' rest h hk _ := by
    obtain ⟨hp, hne, ⟨a, rfl, _⟩ | ⟨a, rfl, _⟩ | ⟨a, rfl, h0, hlt, hg, hpd⟩⟩ := h
    · simp [paraLP] at hk
    · simp [paraLP] at hk
    · simp only [paraLP, List.cons.injEq] at hk
      obtain ⟨rfl, rfl, rfl⟩ := hk
      rw [stopOf_closedPara, offsetPBs_openPara]
      refine ⟨hpd, ?_, rfl⟩
      intro e
      have := congrArg List.length e
      simp at this; omega
  cut' src k k' rest h := by
    obtain ⟨_, _, e⟩ := h
    simp at e
  obs σ src ls h := by
    obtain ⟨hp, hne, ⟨a, rfl, hlt⟩ | ⟨a, rfl, h0, hle, hg, hb⟩ | ⟨a, rfl, h0, hlt, hg, hpd⟩⟩ := h
    · simp [checkLPContractStep, stepOK, paraLP, kidsOK]; omega
    · simp [checkLPContractStep, stepOK, paraLP, kidsOK, h0, hle, hg, hb]
    · simp [checkLPContractStep, stepOK, paraLP, kidsOK, h0, Nat.le_of_lt hlt, hg]; omega
  obsP bs src h := by
    obtain ⟨_, _, rfl⟩ := h
    simp [kidsOK]

/-! ### The contract is the weakest possible -/

/-- A contract exists exactly when every state the machine can reach (`Reach`: after an `L.line` call; `RPend`:
    left-over blocks) passes the Boolean check: the invariants `Ok`/`Pend` of `LPContract` add no strength. -/
theorem lpContract_iff_reach (L : LineParserI) :
    Nonempty (LPContract L) ↔
      (∀ σ src ls, Reach L σ src ls → checkLPContractStep L σ src ls = true) ∧
      (∀ bs src, RPend L bs src → kidsOK src 0 bs = true) := by
  constructor
  · intro ⟨C⟩
    exact ⟨fun σ src ls h => C.reach_check h, fun bs src h => C.obsP _ _ (C.reach.2 _ _ h)⟩
  · intro ⟨h1, h2⟩
    exact ⟨LPContract.ofReach L h1 h2⟩

/-! ### The Boolean checks, read as propositions (soundness of the checker) -/

/-- `kidsOK` as an inductive proposition. -/
inductive KidsOK (src : Bytes) : Nat → List PB → Prop
  | nil {lo} : isBlankLine (src.drop lo) = true → KidsOK src lo []
  | last_open {lo k} : k.isOpen = true → KidsOK src lo [k]
  | closed {lo k rest} : k.isOpen = false → lo < stopOf k → stopOf k ≤ src.length → GoodCut src (stopOf k) →
      KidsOK src (stopOf k) rest → KidsOK src lo (k :: rest)

theorem kidsOK_iff (src : Bytes) (lo : Nat) (ks : List PB) : kidsOK src lo ks = true ↔ KidsOK src lo ks := by
  induction ks generalizing lo with
  | nil => exact ⟨fun h => .nil h, fun h => by cases h; assumption⟩
  | cons k rest ih =>
    constructor
    · intro h
      by_cases hk : k.isOpen = true
      · have := kidsOK_cons_open hk h; subst this; exact .last_open hk
      · have hk' : k.isOpen = false := by simpa using hk
        obtain ⟨h1, h2, h3, h4⟩ := kidsOK_cons_closed hk' h
        exact .closed hk' h1 h2 h3 ((ih _).mp h4)
    · intro h
      cases h with
      | last_open hk => simp [kidsOK, hk]
      | closed hk h1 h2 h3 h4 => simp [kidsOK, hk, h1, h2, h3, (ih _).mpr h4]

/-- The per-step check is exactly: no panic, at least one child, the children acceptable, and nothing left open
    after the empty line that signals the end of input. -/
theorem checkLPContractStep_iff (L : LineParserI) (σ : L.σ) (src : Bytes) (ls : Nat) :
    checkLPContractStep L σ src ls = true ↔
      L.panicked σ = none ∧ L.kids σ ≠ [] ∧ KidsOK src 0 (L.kids σ) ∧
        (ls = src.length → ∀ k ∈ L.kids σ, k.isOpen = false) := by
  constructor
  · intro h
    obtain ⟨h1, h2, h3, h4⟩ := checkStep_elim h
    exact ⟨h1, h2, (kidsOK_iff _ _ _).mp h3, h4⟩
  · intro ⟨h1, h2, h3, h4⟩
    have h3' := (kidsOK_iff _ _ _).mpr h3
    simp only [checkLPContractStep, stepOK, h1, h3', Option.isNone_none, Bool.true_and, Bool.and_true,
      Bool.and_eq_true, Bool.not_eq_true', List.isEmpty_eq_false_iff, Bool.or_eq_true, bne_iff_ne,
      List.all_eq_true]
    refine ⟨h2, ?_⟩
    by_cases e : ls = src.length
    · right; intro k hk; simp [h4 e k hk]
    · left; exact e

/-! ### Running the checker along the machine -/

/-- `L` instrumented with the per-step check: a violation is reported like a line-parser panic. -/
def checkedLP (L : LineParserI) : LineParserI where
  σ := L.σ × Bool
  new bs := (L.new bs, true)
  line σ src ls := let σ' := L.line σ.1 src ls; (σ', σ.2 && checkLPContractStep L σ' src ls)
  kids σ := L.kids σ.1
  panicked σ := if σ.2 then L.panicked σ.1 else some "LPContract violated"

/-- Drain the parser, checking `obs` at every `L.line` call and `obsP` on the left-over blocks at every `NextBlock`
    call; `true` = the run ended with `io.EOF` and no check failed. -/
def checkRun (L : LineParserI) : Nat → BP → Bool
  | 0, _ => false
  | fuel + 1, p =>
    (p.blocks.isEmpty || kidsOK (p.buf.take p.i) 0 p.blocks) &&
      match nextBlock (checkedLP L) p with
      | (.block _, p') => checkRun L fuel p'
      | (.err .eof, _) => true
      | _ => false

def checkDoc (L : LineParserI) (x : Bytes) : Bool := checkRun L (x.length + 1) (memParser x)

/-! ### Concrete runs -/

/-- `ab⏎cd⏎⏎#x⏎#y⏎␠␠⏎z␀` -/
def doc1 : Bytes := [97, 98, 10, 99, 100, 10, 10, 35, 120, 10, 35, 121, 10, 32, 32, 10, 122, 0]

/-- Non-vacuity of `C01_tiling_mem`: its hypotheses hold for `paraLP` and `doc1` … -/
example : Tiling doc1 (drain paraLP 19 (memParser doc1) []).1 :=
  C01_tiling_mem' paraLP paraLP_contract doc1 19 (by decide)

/-- … and the roots are what one expects (the second paragraph is cut off while the third is open: `cut`, `resume`). -/
example : (drain paraLP 19 (memParser doc1) []).1.map (fun r => (r.startOffset, r.endOffset, r.startLine))
    = [(0, 6, 1), (7, 10, 4), (10, 13, 5), (16, 18, 7)] := by decide +kernel

example : (drain paraLP 19 (memParser doc1) []).1.map (fun r => r.source)
    = [[97, 98, 10, 99, 100, 10], [35, 120, 10], [35, 121, 10], [122, 239, 191, 189]] := by decide +kernel

example : (drain lineLP 19 (memParser doc1) []).1.map (fun r => (r.startOffset, r.endOffset, r.startLine))
    = [(0, 3, 1), (3, 6, 2), (7, 10, 4), (10, 13, 5), (16, 18, 7)] := by decide +kernel

example : Spec.tiling doc1 ((drain paraLP 19 (memParser doc1) []).1.map rootInfo) = true := by decide +kernel

example : checkDoc paraLP doc1 = true ∧ checkDoc lineLP doc1 = true := by decide +kernel

/-! ### The contract cannot be dropped: two line parsers that violate `GoodCut` -/

/-- Like `lineLP`, but a block on a CRLF-terminated line stops between the CR and the LF. -/
def crSplitLP : LineParserI where
  σ := List PB
  new bs := bs
  line σ src ls :=
    if isBlankLine (src.drop ls) then σ
    else σ ++ [closedPara ls
      (if src.getLast? = some LF ∧ src.dropLast.getLast? = some CR then src.length - 1 else src.length)]
  kids σ := σ
  panicked _ := none

/-- Like `lineLP`, but a block stops one byte after the start of the line (inside a padded NUL if the line starts
    with one). -/
def nulSplitLP : LineParserI where
  σ := List PB
  new bs := bs
  line σ src ls := if isBlankLine (src.drop ls) then σ else σ ++ [closedPara ls (ls + 1)]
  kids σ := σ
  panicked _ := none

/-- `a␍⏎b`: the checker rejects the run, and indeed the second root gets line 3 instead of 2. -/
example : checkDoc crSplitLP [97, 13, 10, 98] = false
    ∧ Spec.tilingWhy [97, 13, 10, 98] ((drain crSplitLP 5 (memParser [97, 13, 10, 98]) []).1.map rootInfo)
      = "start-line-wrong" := by decide +kernel

/-- `␀⏎`: the checker rejects the run, and indeed `Source` is a truncated U+FFFD. -/
example : checkDoc nulSplitLP [0, 10] = false
    ∧ Spec.tilingWhy [0, 10] ((drain nulSplitLP 3 (memParser [0, 10]) []).1.map rootInfo)
      = "source-differs-from-input-range" := by decide +kernel

/-! ### Sanity check of the contract on the real block parser (`blocksLP`), by evaluation -/

def x0 : PExt := { ext := { unescape := fun s => s }, fold := fun b => b }

def sampleDocs : List String := [
  "", "\n", "  \n\t\n", "abc", "abc\n", "abc\r\ndef\r\n\r\nghi\r", "a\rb\r\rc",
  "# h\npara\n- a\n- b\n\n    code\n\n\nlast\r\n",
  "[foo]: /url\n[bar]: /u2\ntext\n\n", "[foo]: /url\n[bar]: /u2\n", "[foo]: /url", "[foo]:\n/url\n'title'\nrest",
  "```\ncode\n```\nafter", "```\nunclosed\n\n", "~~~ info\n\x00\n~~~   \n  \n",
  "  a\x00b\r\n\x00\n", "\x00", "\x00\x00\n\x00", "a\x00", "\x00\r\n\x00\r\x00\n",
  "> q\n> r\nlazy\n***\n", "> a\n\n> b\n", "- a\n\n  - b\n\n    c\n- d\n\ne",
  "1. x\n2. y\n\n\n3. z", "<div>\nhi\n\nzz", "<!-- c\n\n-->\nx", "<?php\n\n?>", "Title\n=====\nsub\n---\n\n---\n***\n",
  "    indented\n\n    more\nnot", "\tcode\n \t x\n", "a  \nb\\\nc\n", "* * *\n- - -\n_ _ _", "#\n##\n### x ###\n",
  "|a|b|\n|-|-|\n|1|2|\n", "text\n    lazy indented\n> q\n    c", "-\n\n  x\n", "- \n-\n- a", "1)\n2) b\n",
  "   \nabc\n   \n   ", "abc   \n\n\n", "\r", "\r\n", "\n\r", "x\n\r\ny", "> ```\n> a\nb\n", "- ```\n  a\n\n  ```\n"]

/-- Every `L.line` result and every left-over block list of the real block parser passes the contract's checks on
    the sample documents (evaluation, not a proof). -/
def sampleDocsOK : Bool := sampleDocs.all fun s => checkDoc (blocksLP x0) (Bytes.ofString s)

#guard sampleDocsOK

/-- All documents of length ≤ 4 over a small alphabet of structurally interesting bytes. -/
def smallDocs : Nat → List Bytes
  | 0 => [[]]
  | n + 1 => (smallDocs n).flatMap fun d => ([97, 32, 10, 13, 0, 45, 62, 35, 96, 9, 91] : List UInt8).map fun c => c :: d

#guard (List.range 5).all fun n => (smallDocs n).all fun d => checkDoc (blocksLP x0) d

end CM.Props.C01
