import CM.Proofs.InlShapeAll
/-
C13, inline half (30 proof files `InlShape*`; two further spec chains over the inline-phase model): every inline clause of
`Spec.shapeAt` now has a theorem about `Rewrite`. Hard breaks, autolinks, character references and code spans: the clause itself,
given explicit conditions on the runs Rewrite is handed (`HBreakOK`: runs other than the last end at the end of a non-blank line;
`CSHyp`: indent nodes cover white space, runs are non-empty, sorted, inside the source, and no run boundary splits a backtick run -
all true of block-phase trees, and all NEEDED: six counterexamples on out-of-range run lists are theorems in Proofs/InlShapeAll).
HTML tags, emphasis, strong, links, images: the byte patterns at both ends of the span, stated as the clause under a minimal length
condition on the span (`start + 2 ≤ stop` etc.), whose discharge is the span-ordering statement of C02's inline half.
-/
namespace CM.Props.C13
open CM CM.Model CM.Model.Inl CM.Spec CM.Proofs CM.Proofs.InlH

theorem rewrite_shapes_partial (x : IExt) (src : Bytes) (matchRef : Bytes → Bool) (t t' : Tree)
    (hpre : ∀ u ∈ T.nodes t, u.label.isBlock = false → shapeAt src u = true)
    (hR : ∀ p ∈ conts t, HBreakOK src p.2 ∧ CSHyp p.2 src src.length)
    (h : rewriteE x src src.toArray matchRef t = .ok t') :
    ∀ u ∈ T.nodes t', u.label.isBlock = false → InlineShapesPartial src u :=
  rewriteE_shapes_partial x src matchRef t t' hpre hR h

/-- What the autolink recogniser accepts starts with `<` and ends with `>`. -/
theorem autolink_shape (text : Bytes) (e : Int) (h : parseAutolink text = e) (he : 0 ≤ e) :
    ∃ n : Nat, e = (n : Int) ∧ 2 ≤ n ∧ n ≤ text.length ∧ text[0]? = some 0x3C ∧ text[n - 1]? = some 0x3E :=
  parseAutolink_shape text e h he

end CM.Props.C13
