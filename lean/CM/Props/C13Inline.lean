import CM.Proofs.InlShapeAll
import CM.Proofs.ParseShapesAll
import CM.Proofs.ParseShapesExamples
/-
C13, inline half (30 proof files `InlShape*`; two further spec chains over the inline-phase model): every inline clause of
`Spec.shapeAt` now has a theorem about `Rewrite`. Hard breaks, autolinks, character references and code spans: the clause itself,
given explicit conditions on the runs Rewrite is handed (`HBreakOK`: runs other than the last end at the end of a non-blank line;
`CSHyp`: indent nodes cover white space, runs are non-empty, sorted, inside the source, and no run boundary splits a backtick run -
all true of block-phase trees, and all NEEDED: six counterexamples on out-of-range run lists are theorems in Proofs/InlShapeAll).
HTML tags, emphasis, strong, links, images: the byte patterns at both ends of the span, stated as the clause under a minimal length
condition on the span (`start + 2 ≤ stop` etc.), whose discharge is the span-ordering statement of C02's inline half.
-/
namespace CM.Props.C13
open CM CM.Model CM.Model.Inl CM.Spec CM.Proofs CM.Proofs.InlH

theorem rewrite_shapes_partial (x : IExt) (src : Bytes) (matchRef : Bytes → Bool) (t t' : Tree)
    (hpre : ∀ u ∈ T.nodes t, u.label.isBlock = false → shapeAt src u = true)
    (hR : ∀ p ∈ conts t, HBreakOK src p.2 ∧ CSHyp p.2 src src.length)
    (h : rewriteE x src src.toArray matchRef t = .ok t') :
    ∀ u ∈ T.nodes t', u.label.isBlock = false → InlineShapesPartial src u :=
  rewriteE_shapes_partial x src matchRef t t' hpre hR h

/-- What the autolink recogniser accepts starts with `<` and ends with `>`. -/
theorem autolink_shape (text : Bytes) (e : Int) (h : parseAutolink text = e) (he : 0 ≤ e) :
    ∃ n : Nat, e = (n : Int) ∧ 2 ≤ n ∧ n ≤ text.length ∧ text[0]? = some 0x3C ∧ text[n - 1]? = some 0x3E :=
  parseAutolink_shape text e h he

/-! ### Whole `Parse` (15 further files `ParseShapes*`: a block-phase invariant `PQ` - every run of a paragraph holds a non-blank
    byte, has its line ending at its end, and is not preceded by a backtick - discharges the run conditions; the one container for
    which `CSHyp` is FALSE, the empty content run of an ATX heading such as `#⏎`, is handled by evaluating the inline phase on it) -/

open CM.Proofs.PSh in
/-- **C13 for the whole of Parse, every input**: every BLOCK node, every hard break, autolink, character reference and code span
    of every final tree has the shape of its construct - no hypothesis but that the inline phase completed on the root. -/
theorem parse_shapes_unconditional (x : PExt) (ix : IExt) (inp : Bytes) :
    ∀ pr ∈ (parseDoc x ix inp).roots, ∀ t', pr.tree = .ok t' → ∀ u ∈ T.nodes t',
      (u.label.isBlock = true ∨ u.label.kind = IK.hardBreak ∨ u.label.kind = IK.autolink ∨ u.label.kind = IK.charRef ∨
        u.label.kind = IK.codeSpan) → shapeAt pr.root.source u = true :=
  PSh.parse_shapes_unconditional x ix inp

open CM.Proofs.PSh in
/-- … and HTML tags, emphasis, strong, links and images have their shape as soon as their span has the minimal length. -/
theorem parse_shapes_partial_all (x : PExt) (ix : IExt) (inp : Bytes) :
    ∀ pr ∈ (parseDoc x ix inp).roots, ∀ t', pr.tree = .ok t' → ∀ u ∈ T.nodes t',
      (u.label.isBlock = true → shapeAt pr.root.source u = true) ∧
      (u.label.isBlock = false → InlineShapesPartial pr.root.source u) :=
  PSh.parse_shapes_partial_all x ix inp

open CM.Proofs.PSh in
/-- The code-span run condition is false for the empty content run of an ATX heading (`#⏎`). -/
theorem atx_empty_not_cshyp : ¬ CSHyp [Model.mkInline IK.unparsed 1 1] [0x23, 0x0A] 2 := PSh.atx_empty_not_cshyp

end CM.Props.C13
