import CM.Proofs.Format
/-
C20 — Format: the writer part of clause 1.
`Model.fwS/fwPush/fwPop` model format.go's `formatWriter` over a scripted writer that records every
`WriteString` call and fails at a chosen one. Whatever sequence of writer operations the formatting
callbacks perform (the callbacks touch the writer only through `s`, `b`, `push`, `pop`):
-/
namespace CM.Props.C20
open CM CM.Model CM.Proofs

/-- Sticky error: once `err` is set, `s` does nothing at all. -/
theorem fw_sticky (fw : FW) (s : Bytes) (h : fw.err = true) : fwS fw s = fw := by
  simp [fwS, h]

/-- First error wins and nothing is written after it: for every operation sequence, either no write issued
    so far has failed and `err` is unset, or `err` is set and the failing write is the last one issued. -/
theorem format_first_error (failAt : Option Nat) (ops : List FwOp) :
    let fw := fwRun { w := { failAt := failAt } } ops
    (fw.err = false → ∀ i, i < fw.w.log.length → failAt ≠ some i) ∧
    (fw.err = true → fw.w.log.length ≥ 1 ∧ failAt = some (fw.w.log.length - 1)) := by
  have h0 : FwInv { w := { failAt := failAt } } := ⟨fun _ i hi => by simp at hi, fun hf => by simp at hf⟩
  have h := fwRun_inv _ ops h0
  have hws : ∀ (w : ScriptW) (l : List Bytes), (writeStrings w l).1.failAt = w.failAt := by
    intro w l
    induction l generalizing w with
    | nil => rfl
    | cons x xs ihx =>
      simp only [writeStrings]
      split
      · rfl
      · rw [ihx]; rfl
  have hti : ∀ (w : ScriptW) (ind : List Bytes), (writeTrimmedIndent w ind).1.failAt = w.failAt := by
    intro w ind
    unfold writeTrimmedIndent
    split
    · rfl
    · simp only
      split
      · exact hws _ _
      · simp only [ScriptW.write]; exact hws _ _
  have key : ∀ (fuel : Nat) (fw : FW) (s : Bytes), (fwLoop fuel fw s).w.failAt = fw.w.failAt := by
    intro fuel fw s
    fun_induction fwLoop fuel fw s <;> (try simp_all +zetaDelta [ScriptW.write]) <;> (try split) <;> (try simp_all +zetaDelta [ScriptW.write])
  have hfa : ∀ (fw : FW) (ops : List FwOp), (fwRun fw ops).w.failAt = fw.w.failAt := by
    intro fw ops
    induction ops generalizing fw with
    | nil => rfl
    | cons op ops ih =>
      cases op with
      | push b => exact ih _
      | pop => exact ih _
      | s b =>
        simp only [fwRun]
        rw [ih]
        unfold fwS
        split
        · rfl
        · exact key _ _ _
  have hf := hfa { w := { failAt := failAt } } ops
  simp only at hf
  refine ⟨fun he i hi => ?_, fun he => ?_⟩
  · have := h.1 he i hi
    rwa [hf] at this
  · have := h.2 he
    unfold JustFailed at this
    rwa [hf] at this

end CM.Props.C20
