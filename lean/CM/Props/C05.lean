import CM.Proofs.BlocksGrammar
import CM.Proofs.BlocksGrammarSpec
/-
C05 — parsed trees obey the documented node grammar: the BLOCK phase, as theorems about the model of the real block
parser (`Model/Lines` + `Model/Blocks` through the stream machine; tied to the code by the `blocks` correspondence op).
For every input, every reader schedule and every root block delivered by `NextBlock`, before inline rewriting:
`PBGrammar` — block children XOR inline children; documents, quotes and items hold only container content; lists hold
only items (at least one, same delimiter); an item starts with its marker and has no other; leaf blocks hold only their
leaf kinds (info string first, fenced only; a definition is label, destination, optional title); heading levels 1–6
(setext 1–2), fence length ≥ 3, list numbers ≤ 999999999; every child kind is allowed by the regenerated `canContain`.
The inline half (links end in [destination][title] or one label, no link in a link, no unparsed node left) needs the
inline-phase model; it is monitored on the implementation by `Spec.grammar`.
-/
namespace CM.Props.C05
open CM CM.Model CM.Gen CM.Proofs CM.Proofs.BG

/-- The grammar is an invariant of the line parser: after any sequence of lines from the empty document. -/
theorem blocksLP_grammar (x : PExt) (lines : List (Bytes × Nat)) :
    PBGrammar (feedLines x ((blocksLP x).new []) lines).root :=
  Proofs.blocksLP_grammar x lines

/-- Every root block `Parse` delivers (block phase) obeys the grammar and is of a kind a document may contain. -/
theorem parse_roots_grammar (x : PExt) (fuel : Nat) (source : Bytes) :
    ∀ r ∈ (drain (blocksLP x) fuel (memParser source) []).1, PBGrammar r.block ∧ cck r.block.kind = true :=
  drain_grammar_mem x fuel source

/-- … and every root block the streaming parser delivers, for every reader script. -/
theorem stream_roots_grammar (x : PExt) (fuel : Nat) (rd : Reader) :
    ∀ r ∈ (drain (blocksLP x) fuel (newBlockParser rd) []).1, PBGrammar r.block ∧ cck r.block.kind = true :=
  drain_grammar_stream x fuel rd

/-- Ordered list item numbers are at most 999,999,999 (from `maxDigits`, regenerated from the source). -/
theorem listMarker_number_range (l : Bytes) : (parseListMarker l).n ≤ 999999999 := BG.parseListMarker_n_le l

/-- The clauses, read off the local rule that holds at every block of every delivered root. -/
theorem list_shape {l : PLabel} {bs : List PB} {is : List Tree} (hk : l.kind = BK.list) (h : localOK l bs is = true) :
    is = [] ∧ isDelimChar l.char = true ∧ bs ≠ [] ∧ ∀ c ∈ bs, c.kind = BK.listItem ∧ c.label.char = l.char :=
  grammar_list_shape hk h

theorem item_shape {l : PLabel} {bs : List PB} {is : List Tree} (hk : l.kind = BK.listItem) (h : localOK l bs is = true) :
    is = [] ∧ isDelimChar l.char = true ∧
    ∃ m rest, bs = m :: rest ∧ m.kind = BK.listMarker ∧ ∀ c ∈ rest, cck c.kind = true ∧ c.kind ≠ BK.listMarker :=
  grammar_item_shape hk h

theorem attrs {l : PLabel} {bs : List PB} {is : List Tree} (h : localOK l bs is = true) :
    (l.kind = BK.atxHeading → 1 ≤ l.n ∧ l.n ≤ 6) ∧
    (l.kind = BK.setextHeading → 1 ≤ l.n ∧ l.n ≤ 2) ∧
    (l.kind = BK.fencedCode → 3 ≤ l.n ∧ (l.char = 0x60 ∨ l.char = 0x7E)) ∧
    (l.kind = BK.htmlBlock → 0 ≤ l.n ∧ l.n ≤ 6) :=
  grammar_attrs h

theorem children_allowed {l : PLabel} {bs : List PB} {is : List Tree} (h : localOK l bs is = true) :
    ∀ c ∈ bs, canContain l.kind c.kind = true :=
  grammar_canContain h

end CM.Props.C05
