import CM.Proofs.BlocksContractFinal
import CM.Props.C08
/-
C01 — unconditional. `blocksLP_contract`: the Lean model of the real block parser (Model/Lines + Model/Blocks, tied to the
code by the `blocks` and `parse` correspondence ops) satisfies `LPContract`, the contract of the tiling theorem: over every
session the stream machine can produce it never panics, every closed top-level child ends strictly after the previous one,
at a good cut of the padded buffer (not inside a padded NUL, not between CR and LF), and the bytes after the last closed
child are blank (25 proof files `BlocksContract*`). Hence the tiling theorem holds for the model of `Parse` with no
hypothesis but enough fuel, and - through C08's stream = memory theorem - for every read schedule of the streaming parser
whose blocks stay below the block-size limit.
-/
namespace CM.Props.C01
open CM CM.Model CM.Proofs

/-- The block parser meets the contract. -/
theorem blocksLP_contract (x : PExt) : Nonempty (LPContract (blocksLP x)) := Proofs.blocksLP_contract x

/-- **C01, in-memory entry point, every input**: draining the model of `Parse` ends with end of input, without a panic,
    and the roots tile the input (ordered, disjoint, gaps blank, Source = input range with NUL replaced, StartLine exact,
    lengths exact without NUL). -/
theorem C01_tiling_blocks (x : PExt) (inp : Bytes) (fuel : Nat) (hf : inp.length + 1 ≤ fuel) :
    ∃ rs p', drain (blocksLP x) fuel (memParser inp) [] = (rs, .err .eof, p') ∧ p'.panic = none ∧ Tiling inp rs :=
  Proofs.C01_tiling_blocks x inp fuel hf

/-- The same through the executable statement `Spec.tiling` (what the oracle evaluates on the implementation). -/
theorem C01_tiling_blocks_spec (x : PExt) (inp : Bytes) (fuel : Nat) (hf : inp.length + 1 ≤ fuel) :
    Spec.tiling inp ((drain (blocksLP x) fuel (memParser inp) []).1.map rootInfo) = true :=
  Proofs.C01_tiling_blocks_spec x inp fuel hf

/-- **C01, streaming entry point**: for every read schedule (any chunking, empty reads, end of input delivered with the
    last data) and every final reader outcome, the roots delivered tile the input, when no root block reaches the
    block-size limit. -/
theorem C01_tiling_stream (x : PExt) (inp : Bytes) (sched : List Nat) (eofWith : Bool) (fin : RErr) (hsmall : Small inp)
    (fuel : Nat) (hf : inp.length + 1 ≤ fuel) :
    Tiling inp (drain (blocksLP x) fuel (newBlockParser { data := inp, sched := sched, eofWith := eofWith, fin := fin }) []).1 := by
  rw [C08.C08_blocks_roots x inp sched eofWith fin hsmall fuel]
  exact Proofs.C01_tiling_blocks' x inp fuel hf

end CM.Props.C01
