import CM.Proofs.ParseWholeSafe2
import CM.Proofs.ParseWholeRaw
/-
C07 and C17 for PARSER OUTPUT, with no hypothesis: the tree conditions of the renderer theorems are established by the model of
`Parse` itself (11 + 2 proof files `ParseWhole*`, connecting the block-phase invariants, the inline-phase invariants and the
renderer theorems).
`parse_safePre`: for every input and every root on which the inline phase completed, the final tree satisfies `safePre`
(character-reference nodes span `&...;`, soft breaks span their line ending; all spans of the block-phase tree lie inside Source).
`parse_render_wellformed`: hence the SAFE-MODE rendering (raw HTML ignored, no filter or FilterTagGFM) of every root of every input
is accepted by the HTML grammar - C07's statement for the whole pipeline Parse → Render in the model.
`parse_render_no_rejected_start_tag_ignoreRaw`: C17(b) for the whole pipeline when raw HTML is ignored, for every name-closed
predicate. With raw HTML written, the seam condition `rawSeamsOK` of C17's page theorem is NOT implied by the simple sufficient
condition `rawClosed` for parser output (`parse_rawClosed_false`: an HTML block `<div` that ends the input without a line ending);
`rawSeamsOK` itself stays monitored there (`seams` op on every parser tree).
-/
namespace CM.Props.C07
open CM CM.Model CM.Spec CM.Proofs CM.Proofs.PW

/-- The parser contract of C07/C13/C17 holds for every final tree of every input. -/
theorem parse_safePre (x : PExt) (ix : IExt) (inp : Bytes) :
    ∀ pr ∈ (parseDoc x ix inp).roots, ∀ t', pr.tree = .ok t' → safePre pr.root.source t' = true :=
  PW.parse_safePre x ix inp

/-- **C07 for Parse → Render**: safe-mode output of every root of every input is in the language of the grammar. -/
theorem parse_render_wellformed (x : PExt) (ix : IExt) (inp : Bytes) :
    ∀ pr ∈ (parseDoc x ix inp).roots, ∀ t', pr.tree = .ok t' →
      ∀ cx : RCtx, cx.src = pr.root.source → cx.filter = none → cx.ignoreRaw = true →
        htmlWellFormed (appendBlock cx [] t') = true :=
  PW.parse_render_wellformed x ix inp

/-- Every span of every node of every block-phase root lies inside its Source (every depth, every input). -/
theorem blockphase_spanValid (x : PExt) (fuel : Nat) (inp : Bytes) :
    ∀ r ∈ (drain (blocksLP x) fuel (memParser inp) []).1, ∀ u ∈ T.nodes (pbToTree r.block),
      0 ≤ u.label.start ∧ u.label.start ≤ u.label.stop ∧ u.label.stop ≤ (r.source.length : Int) :=
  PW.blockphase_spanValid x fuel inp

/-- **C17(b) for Parse → Render with raw HTML ignored**: no start tag with a rejected name, for every name-closed predicate. -/
theorem parse_render_no_rejected_start_tag_ignoreRaw (x : PExt) (ix : IExt) (inp : Bytes) :
    ∀ pr ∈ (parseDoc x ix inp).roots, ∀ t', pr.tree = .ok t' →
      ∀ (cx : RCtx) (p : Bytes → Bool), cx.src = pr.root.source → cx.filter = some p → cx.ignoreRaw = true →
        NameClosed p → ∀ name ∈ Spec.startTags (appendBlock cx [] t'), p name = false :=
  PW.parse_render_no_rejected_start_tag_ignoreRaw x ix inp

/-- The simple sufficient condition for the seam contract is false of parser output (an unterminated last HTML line). -/
theorem parse_rawClosed_false : ¬ parse_rawClosed_target := parse_rawClosed_target_false

end CM.Props.C07
