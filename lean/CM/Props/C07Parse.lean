import CM.Proofs.ParseWholeRender
/-
C07 for PARSER OUTPUT: the tree condition `safePre` of `render_wellformed` is established by the model of `Parse` itself.
`parse_safePre_partial`: for every input and every root on which the inline phase completed, the final tree satisfies `safePre`
(character-reference nodes span `&...;`, soft breaks span their line ending) - given one decidable proviso on the block-phase tree,
`defCharRefSpansIn`: character-reference nodes inside the destination or title of a link REFERENCE DEFINITION lie inside the
Source (C02's `spansOK` implies it; vacuous for roots without definitions; evaluated with C02's check on every generated tree).
`parse_render_wellformed_partial`: hence rendering a parsed root with raw HTML ignored and no filter is accepted by the grammar.
-/
namespace CM.Props.C07
open CM CM.Model CM.Spec CM.Proofs CM.Proofs.PW

theorem parse_safePre_partial (x : PExt) (ix : IExt) (inp : Bytes) :
    ∀ pr ∈ (parseDoc x ix inp).roots, ∀ t', pr.tree = .ok t' →
      defCharRefSpansIn pr.root.source (pbToTree pr.root.block) = true → safePre pr.root.source t' = true :=
  PW.parse_safePre_partial x ix inp

theorem parse_render_wellformed_partial (x : PExt) (ix : IExt) (inp : Bytes) :
    ∀ pr ∈ (parseDoc x ix inp).roots, ∀ t', pr.tree = .ok t' →
      defCharRefSpansIn pr.root.source (pbToTree pr.root.block) = true →
      ∀ cx : RCtx, cx.src = pr.root.source → cx.filter = none → cx.ignoreRaw = true →
        htmlWellFormed (appendBlock cx [] t') = true :=
  PW.parse_render_wellformed_partial x ix inp

end CM.Props.C07
