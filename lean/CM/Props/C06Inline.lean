import CM.Proofs.InlineSerInlHtml
import CM.Proofs.InlineSerExamples
import CM.Proofs.InlineSerEmInl
/-
C06, the denotation theorem for FLAT paragraphs, end to end (17 proof files `InlineSer*`: a compositional, total-correctness
treatment of the tokenizer of `Model/Inlines.lean` - a sequencing lemma `Seg.trans` for self-contained constructs, 13 step
equations of the loop body, lines with soft and hard breaks, code spans, character references, autolinks - composed with
`paragraph_leaf` for the block phase and `render_eq_spec` for the renderer, and connected to `Spec/Doc.lean`):
for every paragraph `ks` whose items are words (any bytes, punctuation escaped), code spans, entities and autolinks, separated by
spaces, soft breaks or hard breaks, `Parse` of its canonical serialisation is one paragraph and `AppendBlock` renders it as EXACTLY
`denoteBlk (.para ks)` - the equation `render (parse (ser d)) = denote d` of the property, for this sub-language, every such `d`.
Side conditions: acceptance of each entity/autolink by the recognisers (pure functions), the block phase's own per-line tests, and -
for byte equality rather than HTML equality - entities spelled as the renderer's own escapes. Emphasis, links, raw tags: tokenizer
side proved (`delim_seg`), arena side open; the oracle on the implementation covers the full language.
-/
namespace CM.Props.C06
open CM CM.Model CM.Spec CM.Proofs CM.Proofs.InlSer CM.Proofs.Leaf

theorem flat_paragraph_correct (x : PExt) (ix : IExt) (ks : List Inl) (h : FlatOK ix.ext ks) (hh : ∀ k ∈ ks, HtmlOK k)
    (hpara : ∀ l0 rest, toSL ks = l0 :: rest → paraFirstOK l0.text = true ∧ l0.text.head? ≠ some 0x5B ∧
      ∀ l ∈ rest, plainLine l.text = true ∧ paraContOK l.text = true) :
    ∃ (r : Root) (t : Tree),
      (parseDoc x ix ((serInls [] [LF] [] ks).1 ++ [LF])).roots = [{ root := r, tree := .ok t }] ∧
      (parseDoc x ix ((serInls [] [LF] [] ks).1 ++ [LF])).ending = .err .eof ∧
      r.source = (serInls [] [LF] [] ks).1 ++ [LF] ∧
      ∀ (cx : RCtx) (dst : Bytes), PlainCx cx → cx.src = r.source →
        appendBlock cx dst t = dst ++ denoteBlk { eol := [LF] } false (.para ks) :=
  InlSer.flat_paragraph_correct x ix ks h hh hpara

/-- **Emphasis and strong emphasis, end to end** (7 further files `InlineSerWrap`, `InlineSerEm*`: `wrap` and `processEmphasis`
    as equations on the arena): for every non-empty flat item list `ks`, the paragraph `*ks*` / `**ks**` parses to one paragraph and
    renders as exactly `denoteBlk (.para [.emph ks])` / `(.para [.strong ks])`, given the flanking flags of the two delimiter runs
    (a pure function of the serialised bytes and the Unicode tables) and the block phase's line test. -/
theorem emph_paragraph_correct (x : PExt) (ix : IExt) (strong : Bool) (ks : List Inl) (hne : ks ≠ [])
    (hk : ∀ k ∈ ks, ItemOK ix.ext k) (hh : ∀ k ∈ ks, HtmlOK k) :
    let n := if strong then 2 else 1
    let d : Blk := .para [if strong then .strong ks else .emph ks]
    let l := emLineOf n ks
    emphasisFlags ix.u l.bytes l.p (l.p + l.n) = (true, false) → (emphasisFlags ix.u l.bytes l.q (l.q + l.n)).2 = true →
    paraFirstOK l.text = true →
    (serInls [] [LF] [] [if strong then .strong ks else .emph ks]).1 ++ [LF] = l.bytes ∧
    ∃ (r : Root) (t : Tree),
      (parseDoc x ix l.bytes).roots = [{ root := r, tree := .ok t }] ∧ (parseDoc x ix l.bytes).ending = .err .eof ∧
      r.source = l.bytes ∧
      ∀ (cx : RCtx) (dst : Bytes), PlainCx cx → cx.src = r.source →
        appendBlock cx dst t = dst ++ denoteBlk { eol := [LF] } false d :=
  InlSer.emph_paragraph_correct x ix strong ks hne hk hh

end CM.Props.C06
