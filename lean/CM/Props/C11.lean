import CM.Proofs.Emphasis
import CM.Proofs.EmphasisFuel
import CM.Spec.Flanking
import CM.Proofs.UnicodeClasses
/-
C11 — emphasis resolution follows the spec's delimiter-run algorithm.
`Model.processEmphasis true` is the Go loop of inlines.go with its `openersBottom` search bounds (the model
uses the *generated* `Gen.isEmphasisDelimiterMatch` and `Gen.openersBottomIndex`);
`Model.processEmphasis false` is CommonMark 0.30's process-emphasis procedure without the bounds.
-/
namespace CM.Props.C11
open CM CM.Model CM.Proofs CM.Gen

/-- For every delimiter stack (any lengths, flags, mixture of `*`, `_` and link delimiters) and every
    `stack_bottom`, the Go loop with its search-bound cache produces exactly the matches of the procedure
    without the cache: same openers, same closers, same strong/regular decisions, in the same order. -/
theorem impl_eq_spec (stack : List Delim) (stackBottom : Nat) :
    processEmphasis true stack stackBottom = processEmphasis false stack stackBottom := by
  unfold processEmphasis
  rw [procLoop_bounds_irrelevant stackBottom _ _ (inv_init stackBottom stack)]

/-- Hence the emphasis structure computed from a line of text is the specification's. -/
theorem structure_eq_spec (u : UExt) (source : Bytes) :
    emphasisStructure true u source = emphasisStructure false u source := by
  unfold emphasisStructure
  simp only [impl_eq_spec]

/-- The matching rule (rules 9 and 10: the multiple-of-3 rule) sees a closer only through the class the
    bounds are indexed by — this is what makes a per-class bound sound. Stated over the generated Go terms. -/
theorem match_depends_on_closer_class (o c c' : DelimElem) (hc : closerElem c = true) (hc' : closerElem c' = true)
    (hk : openersBottomIndex c = openersBottomIndex c') :
    isEmphasisDelimiterMatch o c = isEmphasisDelimiterMatch o c' :=
  match_class o c c' hc hc' hk

/-- The flags the implementation assigns equal the specification's can-open / can-close, for every pair of
    neighbouring code points and both delimiter characters. -/
theorem flags_eq_spec (u : UExt) (source : Bytes) (start stop : Nat) :
    let prev : Nat := if start > 0 then (Utf8.decodeLastRune (source.take start)).1 else 0x20
    let next : Nat := if stop < source.length then (Utf8.decodeRune (source.drop stop)).1 else 0x20
    let p : Spec.Neighbour := ⟨isUnicodeWhitespace u prev, isUnicodePunctuation u prev⟩
    let n : Spec.Neighbour := ⟨isUnicodeWhitespace u next, isUnicodePunctuation u next⟩
    let star := source.getD start 0 == 0x2A
    emphasisFlags u source start stop = (Spec.canOpenEmphasis star p n, Spec.canCloseEmphasis star p n) := by
  simp only [emphasisFlags, Spec.canOpenEmphasis, Spec.canCloseEmphasis, Spec.leftFlanking, Spec.rightFlanking]
  generalize isUnicodeWhitespace u _ = a
  generalize isUnicodeWhitespace u _ = b
  generalize isUnicodePunctuation u _ = c
  generalize isUnicodePunctuation u _ = d
  generalize (source.getD start 0 == 0x2A) = e
  cases a <;> cases b <;> cases c <;> cases d <;> cases e <;> rfl

/-- The model's loop carries fuel where the Go loop has none. The fuel `processEmphasis` passes is never
    exhausted: the measure "remaining delimiter characters + stack entries + distance of the current position
    from the top" strictly decreases at every iteration. Hence the result does not depend on the fuel (the Go
    loop terminates), with and without the search bounds. -/
theorem fuel_irrelevant (useBounds : Bool) (stack : List Delim) (stackBottom : Nat) (fuel : Nat)
    (h : 2 * totalLen stack + 2 * stack.length + 2 ≤ fuel) :
    processEmphasisFuel fuel useBounds stack stackBottom = processEmphasis useBounds stack stackBottom :=
  processEmphasis_fuel_irrelevant useBounds stack stackBottom fuel h

/-- The loop stops because it reached `break`, not because the fuel ran out. -/
theorem loop_stops_at_break (useBounds : Bool) (stack : List Delim) (stackBottom : Nat) :
    procStep useBounds stackBottom (procLoop useBounds stackBottom (procFuel stack) (procInit stack stackBottom)) = none :=
  procLoop_fuel_final useBounds stack stackBottom

-- Non-vacuity: the input of findings F14/F15 (`x*_*_*a*ax`): the stack of its six delimiter runs.
private def mk (id : Nat) (typ : Int) (o c : Bool) (n : Nat) : Delim :=
  { elem := { typ := typ, flags := 1 ||| (if o then 2 else 0) ||| (if c then 4 else 0), n := n }, id := id, len := n }
private def f14 : List Delim :=
  [mk 0 1 false true 1, mk 1 2 true true 1, mk 2 1 true true 1, mk 3 2 true true 1, mk 4 1 true false 1, mk 5 1 true true 1]
example : processEmphasis true f14 0 = [⟨1, 3, false⟩, ⟨4, 5, false⟩] := by decide +kernel
example : processEmphasis false f14 0 = [⟨1, 3, false⟩, ⟨4, 5, false⟩] := by decide +kernel

/-- What the flanking rules call "Unicode whitespace" is §2.1's definition, for EVERY code point: Zs, tab, line feed,
    FORM FEED, carriage return (the form feed was missing from parse.go until the repair recorded in known_findings.jsonl).
    The table fact `U+0020 ∈ Zs` is checked on Go's `unicode.Zs` on every run. -/
theorem unicode_whitespace_eq_spec (u : UExt) (hsp : u.isZs 0x20 = true) (c : Nat) :
    isUnicodeWhitespace u c = Spec.isUnicodeWhitespaceSpec u.isZs c :=
  isUnicodeWhitespace_eq_spec u hsp c

/-- … and "Unicode punctuation" is §2.1's: an ASCII punctuation character or anything in Pc, Pd, Pe, Pf, Pi, Po, Ps, for
    every code point. The table fact (the only ASCII characters in those categories are ASCII punctuation) is checked on
    Go's tables on every run. -/
theorem unicode_punctuation_eq_spec (u : UExt)
    (hP : ∀ c, c < 0x80 → u.isP c = true → isASCIIPunctuation (UInt8.ofNat c) = true) (c : Nat) :
    isUnicodePunctuation u c = Spec.isUnicodePunctuationSpec u.isP c :=
  isUnicodePunctuation_eq_spec u hP c

-- Non-vacuity: a table with the real ASCII facts; form feed is whitespace, `$` is punctuation, `£` (Sc) is not.
private def uEx : UExt := { isZs := fun c => c == 0x20 || c == 0xA0, isP := fun c => c == 0x21 || c == 0xA1 }
example : uEx.isZs 0x20 = true ∧ isUnicodeWhitespace uEx 0x0C = true ∧ isUnicodeWhitespace uEx 0x61 = false := by decide
example : isUnicodePunctuation uEx 0x24 = true ∧ isUnicodePunctuation uEx 0xA3 = false ∧ isUnicodePunctuation uEx 0xA1 = true := by decide

end CM.Props.C11
