import CM.Proofs.Recognize1
/-
C15 — line recognizers equal the CommonMark 0.30 definitions, for lines of every length.
Property theorems only; the proofs (closed forms of the Go loops with generalised accumulators) are in
`CM/Proofs/Recognize*.lean`. `Model.parse…` is the hand-written transliteration of blocks.go (tied to the code by
the `rec` correspondence op on exhaustive short lines + random long lines); `Spec.…` is the reading of the
spec prose in `CM/Spec/Regular.lean`. The canonical forms compared are exactly those of the `rec`/`recspec` ops.
-/
namespace CM.Props.C15
open CM

/-- §4.1 thematic breaks: same decision and same end index, for every byte list. -/
theorem thematicBreak_eq_spec (line : Bytes) :
    Model.parseThematicBreak line =
      (match Spec.thematicBreak line with | some e => (e : Int) | none => -1) :=
  Proofs.thematicBreak_eq_spec line

/-- §4.3 setext heading underline: same level (0 = none), for every byte list. -/
theorem setext_eq_spec (line : Bytes) :
    Model.parseSetextHeadingUnderline line = (Spec.setextUnderline line).getD 0 :=
  Proofs.setext_eq_spec line

/-- §5.2 list markers: same delimiter, number and end, for every byte list (numbers up to 9 digits). -/
theorem listMarker_eq_spec (line : Bytes) :
    Model.parseListMarker line = (match Spec.listMarker line with
      | some m => (⟨m.delim, m.n, (m.stop : Int)⟩ : Model.ListMarker) | none => Model.noMarker) :=
  Proofs.listMarker_eq_spec line

-- Non-vacuity: both sides take non-trivial values.
private def b (s : String) : Bytes := s.toUTF8.toList
example : Model.parseThematicBreak (b "- - -\r\n") = 5 := by decide +kernel
example : Spec.thematicBreak (b "- - -\r\n") = some 5 := by decide +kernel
example : Model.parseListMarker (b "123456789. x") = ⟨0x2E, 123456789, 10⟩ := by decide +kernel
example : Model.parseListMarker (b "1234567890. x") = Model.noMarker := by decide +kernel
example : Model.parseSetextHeadingUnderline (b "===  \n") = 1 := by decide +kernel

end CM.Props.C15
