import CM.Proofs.Recognize1
import CM.Proofs.Recognize2
/-
C15 — line recognizers equal the CommonMark 0.30 definitions, for lines of every length.
Property theorems only; the proofs (closed forms of the Go loops with generalised accumulators) are in
`CM/Proofs/Recognize*.lean`. `Model.parse…` is the hand-written transliteration of blocks.go (tied to the code by
the `rec` correspondence op on exhaustive short lines + random long lines); `Spec.…` is the reading of the
spec prose in `CM/Spec/Regular.lean`. The canonical forms compared are exactly those of the `rec`/`recspec` ops.
-/
namespace CM.Props.C15
open CM

/-- §4.1 thematic breaks: same decision and same end index, for every byte list. -/
theorem thematicBreak_eq_spec (line : Bytes) :
    Model.parseThematicBreak line =
      (match Spec.thematicBreak line with | some e => (e : Int) | none => -1) :=
  Proofs.thematicBreak_eq_spec line

/-- §4.3 setext heading underline: same level (0 = none), for every byte list. -/
theorem setext_eq_spec (line : Bytes) :
    Model.parseSetextHeadingUnderline line = (Spec.setextUnderline line).getD 0 :=
  Proofs.setext_eq_spec line

/-- §5.2 list markers: same delimiter, number and end, for every byte list (numbers up to 9 digits). -/
theorem listMarker_eq_spec (line : Bytes) :
    Model.parseListMarker line = (match Spec.listMarker line with
      | some m => (⟨m.delim, m.n, (m.stop : Int)⟩ : Model.ListMarker) | none => Model.noMarker) :=
  Proofs.listMarker_eq_spec line

/-- §4.5 code fences: same fence character, length and info-string range, for every byte list. -/
theorem fence_eq_spec (line : Bytes) :
    Model.parseCodeFence line = (match Spec.codeFence line with
      | some ⟨c, n, some (s, e)⟩ => (⟨c, n, (s : Int), (e : Int)⟩ : Model.CodeFence)
      | some ⟨c, n, none⟩ => ⟨c, n, -1, -1⟩
      | none => Model.noFence) :=
  Proofs.fence_eq_spec line

/-- §4.2 ATX headings, full statement (for lines: at most one trailing line ending). It is FALSE of the code:
    `parseATXHeading` keeps a trailing space/tab preceded by an odd number of backslashes (known finding
    KF-C15-atx-escaped-space; the repository's own TestParseATXHeading pins that behaviour). -/
def atx_eq_spec_target : Prop := Proofs.atx_eq_spec_target

theorem atx_eq_spec_target_false : ¬ atx_eq_spec_target := Proofs.atx_eq_spec_target_false

/-- §4.2 ATX headings: same level and content range on every line whose two trimmed blank runs (the one ending the
    line body, the one before a closing `#` sequence) are not preceded by an odd-length run of backslashes. -/
theorem atx_eq_spec_partial (line : Bytes) (h : Proofs.isLine line = true)
    (hesc : Proofs.noEscapedTrailingBlank line = true) :
    Model.parseATXHeading line = (match Spec.atxHeading line with
      | some h => (⟨h.level, h.start, h.stop⟩ : Model.ATXHeading) | none => ⟨0, 0, 0⟩) :=
  Proofs.atx_eq_spec_partial line h hesc

/-- … and that hypothesis is exactly the class of the known finding: on a line the spec reads as a heading, code
    and spec agree iff it holds. -/
theorem atx_eq_spec_iff (line : Bytes) (h : Proofs.isLine line = true) :
    Model.parseATXHeading line = (match Spec.atxHeading line with
      | some h => (⟨h.level, h.start, h.stop⟩ : Model.ATXHeading) | none => ⟨0, 0, 0⟩) ↔
    (Spec.atxHeading line = none ∨ Proofs.noEscapedTrailingBlank line = true) :=
  Proofs.atx_eq_spec_iff line h

-- Non-vacuity: both sides take non-trivial values.
private def b (s : String) : Bytes := s.toUTF8.toList
example : Model.parseThematicBreak (b "- - -\r\n") = 5 := by decide +kernel
example : Spec.thematicBreak (b "- - -\r\n") = some 5 := by decide +kernel
example : Model.parseListMarker (b "123456789. x") = ⟨0x2E, 123456789, 10⟩ := by decide +kernel
example : Model.parseListMarker (b "1234567890. x") = Model.noMarker := by decide +kernel
example : Model.parseSetextHeadingUnderline (b "===  \n") = 1 := by decide +kernel

example : Proofs.isLine (b "## foo \\\\ ## \r\n") = true ∧ Proofs.noEscapedTrailingBlank (b "## foo \\\\ ## \r\n") = true := by decide +kernel
example : Model.parseATXHeading (b "## foo \\\\ ## \r\n") = ⟨2, 3, 9⟩ := by decide +kernel
example : Model.parseATXHeading (b "# foo\\ ") = ⟨1, 2, 7⟩ ∧ Spec.atxHeading (b "# foo\\ ") = some ⟨1, 2, 6⟩ := by decide +kernel
example : Model.parseCodeFence (b "~~~~ go lang \n") = ⟨0x7E, 4, 5, 12⟩ := by decide +kernel

end CM.Props.C15
