import CM.Props.C08
import CM.Model.Parse
/-
C08 for the whole of `Parse`: the streaming use documented for `BlockParser` (NextBlock until an error, `Extract` on every block as it
arrives, then `Rewrite` on every block) yields, for every read schedule and every final reader outcome, exactly the parsed roots and
the reference map of the in-memory `Parse` - because the root blocks are equal (`C08_blocks_roots`, for the model of the real block
parser, below the block-size limit) and `Extract` and `Rewrite` are functions of the roots.
-/
namespace CM.Props.C08
open CM CM.Model CM.Proofs

/-- What `Parse` and the documented streaming loop both do with the root blocks they obtained. -/
def finish (x : PExt) (ix : IExt) (roots : List Root) : List ParsedRoot × RefMap :=
  let pre := roots.map fun r => (r.source, pbToTree r.block)
  let refs := extractAll x.ext pre []
  let matchRef := fun k => (refs.lookup k).isSome
  (roots.map fun r => { root := r, tree := Inl.rewriteE ix r.source r.source.toArray matchRef (pbToTree r.block) }, refs)

/-- `Parse` is `finish` of the in-memory roots. -/
theorem parseDoc_eq_finish (x : PExt) (ix : IExt) (inp : Bytes) :
    ((parseDoc x ix inp).roots, (parseDoc x ix inp).refs) =
      finish x ix (drain (blocksLP x) (inp.length + 8) (memParser inp) []).1 := rfl

/-- **Streaming = in-memory for the whole parse**: roots with offsets, lines and Source, every final tree, and the reference map. -/
theorem C08_parse_stream (x : PExt) (ix : IExt) (inp : Bytes) (sched : List Nat) (eofWith : Bool) (fin : RErr)
    (hsmall : Small inp) :
    finish x ix (drain (blocksLP x) (inp.length + 8)
        (newBlockParser { data := inp, sched := sched, eofWith := eofWith, fin := fin }) []).1 =
      ((parseDoc x ix inp).roots, (parseDoc x ix inp).refs) := by
  rw [C08_blocks_roots x inp sched eofWith fin hsmall (inp.length + 8)]
  rfl

end CM.Props.C08
