import CM.Proofs.URI
/-
C15 — URI normalisation emits only RFC 3986 reserved/unreserved characters and well-formed percent-escapes and
is idempotent; e-mail address recognition equals the spec's regular expression. For strings of every length.
`Model.normalizeURI`, `Model.isEmailAddress` are the transliterations of html_renderer.go `NormalizeURI` and
inlines.go `IsEmailAddress` (tied by the `str` correspondence op); the per-byte facts the proofs rest on
(`urlHexDigit` yields upper-case hex digits, every byte of `safeSet` is in the RFC alphabet, …) are proved over
the *generated* definitions by kernel evaluation, so they are re-checked against the source on every run.
-/
namespace CM.Props.C15
open CM

/-- `NormalizeURI s` ∈ (reserved ∪ unreserved ∪ `%HH`)*. -/
theorem normalizeURI_alphabet (s : Bytes) : Spec.uriWellFormed (Model.normalizeURI s) = true :=
  Proofs.normalizeURI_alphabet s

/-- `NormalizeURI` is idempotent. -/
theorem normalizeURI_idem (s : Bytes) : Model.normalizeURI (Model.normalizeURI s) = Model.normalizeURI s :=
  Proofs.normalizeURI_idem s

/-- `IsEmailAddress s` ↔ `s` matches the regular expression of CommonMark 0.30 §6.5 (labels of 1–63 characters,
    no leading/trailing hyphen, non-empty local part over the allowed set). -/
theorem email_eq_regex (s : Bytes) : Model.isEmailAddress s = Spec.isEmailAddress s :=
  Proofs.email_eq_regex s

private def b (s : String) : Bytes := s.toUTF8.toList
example : Model.normalizeURI (b "a b%4g%41é") = b "a%20b%254g%41%C3%A9" := by decide +kernel
example : Model.isEmailAddress (b "a.b+c@ex-ample.co.uk") = true := by decide +kernel
example : Model.isEmailAddress (b "a@b..c") = false := by decide +kernel

end CM.Props.C15
