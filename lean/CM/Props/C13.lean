import CM.Proofs.ShapesFinal
/-
C13 — each node's span delimits exactly the syntax of its construct: the BLOCK half, unconditional.

`drain_block_shapes`: for every input (NUL bytes included), every root block the model of `Parse` delivers (block phase) and every
BLOCK node of its tree, the executable statement `Spec.shapeAt` holds of the node's slice of the root's Source: a list marker is a
bullet or 1-9 digits plus `.`/`)`; an ATX heading starts with exactly as many `#` as its level; a setext heading ends (before
trailing white space) in `=` (level 1) or `-` (level 2); a fenced code block starts with exactly its fence; a block quote starts
with `>`. Proved as an invariant of `processLine` (25 proof files `Shapes*`: the prefix a block is opened on is stable because the
source only grows by appending lines; re-basing after a root is cut is a translation; the setext rule is anchored at the end of
the span; NUL padding does not meet any clause), using C02's span theorem, C01's contract and C05's grammar theorem.
The inline half (emphasis, code spans, links, images, autolinks, HTML tags, character references, hard breaks) is monitored on the
implementation by `Spec.shapes`; its character-reference and soft-break clauses are the theorem `rewrite_safePre` (Props/C05Inline).
-/
namespace CM.Props.C13
open CM CM.Model CM.Proofs CM.Proofs.Shp

/-- Every block node of every root of every input has the shape of its construct. -/
theorem drain_block_shapes (x : PExt) (inp : Bytes) (fuel : Nat) :
    ∀ r ∈ (drain (blocksLP x) fuel (memParser inp) []).1,
      ∀ t ∈ Spec.T.nodes (pbToTree r.block), t.label.isBlock = true → Spec.shapeAt r.source t = true :=
  Shp.drain_block_shapes x inp fuel

/-- The same through the executable check, root by root. -/
theorem drain_block_shapes_all (x : PExt) (inp : Bytes) (fuel : Nat) :
    ∀ r ∈ (drain (blocksLP x) fuel (memParser inp) []).1,
      ((Spec.T.nodes (pbToTree r.block)).filter (·.label.isBlock)).all (Spec.shapeAt r.source) = true :=
  Shp.drain_block_shapes_all x inp fuel

end CM.Props.C13
