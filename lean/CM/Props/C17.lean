import CM.Proofs.Filter
import CM.Spec.Tokenizer
/-
C17 — tag filtering only escapes `<`; no filtered element can be opened.
`Model.filterRaw` is html_renderer.go's filterRaw state machine (index jumps included).
Clause (a) is proved here for every predicate and every raw run. Clause (b) is stated against
`Spec.startTags` (the WHATWG tokenizer's tag-related states); its proof (a simulation between the two
state machines) is not done yet — `C17_no_rejected_start_tag_target` — and it is checked by running
`Spec.startTags` over the implementation's whole rendered output.
-/
namespace CM.Props.C17
open CM CM.Model CM.Proofs

/-- (a) The filter's output is its input with some `<` replaced by `&lt;` and nothing else changed —
    for every predicate, every raw text. -/
theorem filterRaw_only_lt (p : Bytes → Bool) (raw : Bytes) : OnlyLt raw (filterRaw p raw) :=
  filterLoop_onlyLt p raw

/-- (a) A predicate that rejects nothing changes nothing. -/
theorem filter_none_id (p : Bytes → Bool) (hp : ∀ n, p n = false) (raw : Bytes) : filterRaw p raw = raw :=
  filterLoop_id p hp raw

/-- `OnlyLt` never changes the number of bytes other than by the three extra bytes per escape, and keeps
    every non-`<` byte: in particular un-escaping is a left inverse. -/
theorem onlyLt_length {a b : Bytes} (h : OnlyLt a b) : a.length ≤ b.length := by
  induction h with
  | nil => simp
  | same c _ ih => simp; omega
  | esc _ ih => simp; omega

/-- (b), target: for a predicate rejecting every raw-text element name, the tokenizer sees no start tag
    with a rejected name in the filtered text. (Not yet proved; monitored by the check.) -/
def C17_no_rejected_start_tag_target : Prop :=
  ∀ (p : Bytes → Bool) (raw : Bytes),
    (∀ n ∈ Gen.filterTagGFMNames, p n = true) →
    ∀ name ∈ Spec.startTags (filterRaw p raw), p name = false

-- Non-vacuity / regression witnesses for the four repaired causes (F17), evaluated in the kernel:
private def rejectS (n : Bytes) : Bool := n == [0x73]            -- rejects the element name "s"
private def b (s : String) : Bytes := s.toUTF8.toList
example : Spec.startTags (filterRaw rejectS (b "<3 <s>")) = [] := by decide +kernel
example : Spec.startTags (filterRaw rejectS (b "<!--> <s>")) = [] := by decide +kernel
example : Spec.startTags (filterRaw rejectS (b "<![CDATA[ > <s>")) = [] := by decide +kernel
example : Spec.startTags (filterRaw rejectS (b "<s<s>")) = [] := by decide +kernel
example : Spec.startTags (b "<a title='>'><S x>") = [b "a", b "s"] := by decide +kernel
example : filterRaw rejectS (b "<a><S x>") = b "<a>&lt;S x>" := by decide +kernel

end CM.Props.C17
