import CM.Proofs.Filter
import CM.Proofs.FilterSites
import CM.Proofs.FilterRender
import CM.Proofs.FilterRenderA
import CM.Spec.Tokenizer
/-
C17 — tag filtering only escapes `<`; no filtered element can be opened.
`Model.filterRaw` is html_renderer.go's `filterRaw` (repaired: stateless — every `<` is examined on its own).
`Spec.startTags` is the WHATWG tokenizer (newline preprocessing + the tag-related states).
Clause (a): for every predicate and raw text. Clause (b): for every predicate that is closed under "the name the
filter computes" (`NameClosed`: `FilterTagGFM` and every predicate given by a list of element names are), for
every raw text, for any number of raw nodes filtered separately and concatenated — and, at the bottom, for
ARBITRARY byte strings: `startTags_of_sitesOK` says that an HTML tokenizer sees no rejected start tag in any
string in which no `<` + letter is followed by a rejected name; the filter establishes exactly that premise.
-/
namespace CM.Props.C17
open CM CM.Model CM.Proofs

/-- (a) The filter's output is its input with some `<` replaced by `&lt;` and nothing else changed —
    for every predicate, every raw text. -/
theorem filterRaw_only_lt (p : Bytes → Bool) (raw : Bytes) : OnlyLt raw (filterRaw p raw) :=
  filterLoop_onlyLt p raw

/-- (a) A predicate that rejects nothing changes nothing. -/
theorem filter_none_id (p : Bytes → Bool) (hp : ∀ n, p n = false) (raw : Bytes) : filterRaw p raw = raw :=
  filterLoop_id p hp raw

theorem onlyLt_length {a b : Bytes} (h : OnlyLt a b) : a.length ≤ b.length := by
  induction h with
  | nil => simp
  | same c _ ih => simp; omega
  | esc _ ih => simp; omega

/-- (b), the core, about ANY byte string (a whole rendered page, whatever produced it): if no `<` that is followed
    by an ASCII letter is followed by a name the predicate rejects (`sitesOK`), an HTML tokenizer — wherever its
    comments, quoted attribute values and tags begin and end — emits no start tag with a rejected name. -/
theorem startTags_of_sitesOK (p : Bytes → Bool) (hp : NameClosed p) (html : Bytes) (h : sitesOK p html = true) :
    ∀ name ∈ Spec.startTags html, p name = false :=
  Proofs.startTags_of_sitesOK p hp html h

/-- The filter establishes that premise on every raw text. -/
theorem filterRaw_sitesOK (p : Bytes → Bool) (raw : Bytes) : sitesOK p (filterRaw p raw) = true :=
  Proofs.filterRaw_sitesOK p raw

/-- (b) for one raw text. -/
theorem no_rejected_start_tag (p : Bytes → Bool) (hp : NameClosed p) (raw : Bytes) :
    ∀ name ∈ Spec.startTags (filterRaw p raw), p name = false :=
  Proofs.no_rejected_start_tag p hp raw

/-- (b) for any number of raw nodes filtered one by one and concatenated (the lines of an HTML block; a tag,
    comment or quoted value may straddle them) — none of them ending in an unfinished `<name` candidate. -/
theorem no_rejected_start_tag_nodes (p : Bytes → Bool) (hp : NameClosed p) (raws : List Bytes)
    (h : ∀ r ∈ raws, endsInCandidate r = false) :
    ∀ name ∈ Spec.startTags ((raws.map (filterRaw p)).flatten), p name = false :=
  Proofs.no_rejected_start_tag_nodes p hp raws h

/-- `FilterTagGFM` is name-closed (kernel-checked over the names regenerated from html_renderer.go), hence: with the GFM
    predicate no raw-text element (script, style, title, textarea, xmp, iframe, noembed, noframes, plaintext) can be opened. -/
theorem filterTagGFM_nameClosed : NameClosed filterTagGFM := Proofs.filterTagGFM_nameClosed

theorem no_rejected_start_tag_gfm (raw : Bytes) :
    ∀ name ∈ Spec.startTags (filterRaw filterTagGFM raw), filterTagGFM name = false :=
  Proofs.no_rejected_start_tag_gfm raw

/-- Every predicate that is membership in a list of clean element names is name-closed. -/
theorem nameClosed_of_list (L : List Bytes) (h : L.all (fun n => n.all nameChar) = true) :
    NameClosed (fun n => L.contains n) :=
  Proofs.nameClosed_of_list L h

/-! ### The whole rendered page -/

/-- (a) for the whole page: rendering with a predicate differs from rendering without one only by `<` replaced with
    `&lt;` — for EVERY tree, source, SoftBreakBehavior, IgnoreRaw, reference map, entity decoder and predicate. -/
theorem render_only_lt (cx : RCtx) (p : Bytes → Bool) (t : Tree) :
    OnlyLt (appendBlock { cx with filter := none } [] t) (appendBlock { cx with filter := some p } [] t) :=
  Proofs.render_only_lt cx p t

/-- (a) a predicate that rejects nothing changes nothing, for the whole page. -/
theorem render_filter_none_id (cx : RCtx) (p : Bytes → Bool) (hp : ∀ n, p n = false) (t : Tree) :
    appendBlock { cx with filter := some p } [] t = appendBlock { cx with filter := none } [] t :=
  Proofs.render_filter_none_id cx p hp t

/-- (a) for `Render` of a list of root blocks. -/
theorem renderAll_only_lt (mk : Bytes → RCtx) (p : Bytes → Bool) (blocks : List (Bytes × Tree)) :
    OnlyLt (renderAll (fun s => { mk s with filter := none }) blocks 0)
           (renderAll (fun s => { mk s with filter := some p }) blocks 0) :=
  Proofs.renderAll_only_lt mk p blocks

theorem renderAll_filter_none_id (mk : Bytes → RCtx) (p : Bytes → Bool) (hp : ∀ n, p n = false)
    (blocks : List (Bytes × Tree)) :
    renderAll (fun s => { mk s with filter := some p }) blocks 0
      = renderAll (fun s => { mk s with filter := none }) blocks 0 :=
  Proofs.renderAll_filter_none_id mk p hp blocks

/-- (b) for everything `AppendBlock` writes with `FilterTag = p`: for EVERY tree, source, SoftBreakBehavior, IgnoreRaw,
    reference map and entity decoder. The renderer's own tags go through the predicate, text is escaped, raw HTML goes
    through `filterRaw`. `rawSeamsOK` (decidable) says that no name candidate straddles a boundary between a verbatim
    copied source slice (raw HTML, character reference, preserved soft break) and what is written next — without it the
    statement is false on synthetic trees (raw `<scr` followed by raw `ipt>`; see `render_no_rejected_start_tag_target`). -/
theorem render_no_rejected_start_tag (cx : RCtx) (p : Bytes → Bool) (hf : cx.filter = some p) (hp : NameClosed p) (t : Tree)
    (hseam : rawSeamsOK cx t = true) : ∀ name ∈ Spec.startTags (appendBlock cx [] t), p name = false :=
  Proofs.render_no_rejected_start_tag cx p hf hp t hseam

/-- … and for `Render` of a list of root blocks (joined by blank lines). -/
theorem renderAll_no_rejected_start_tag (mk : Bytes → RCtx) (p : Bytes → Bool) (hp : NameClosed p) (blocks : List (Bytes × Tree))
    (hf : ∀ b ∈ blocks, (mk b.1).filter = some p) (hseam : ∀ b ∈ blocks, rawSeamsOK (mk b.1) b.2 = true) :
    ∀ name ∈ Spec.startTags (renderAll mk blocks 0), p name = false :=
  Proofs.renderAll_no_rejected_start_tag mk p hp blocks hf hseam

/-- The seam condition follows from the parser contract `safePre` (character references span `&…;`, soft breaks span their
    line ending) when every raw HTML slice ends outside a name candidate (inline tags end in `>`, HTML block lines in their
    line ending). -/
theorem rawSeamsOK_of_safePre (cx : RCtx) (t : Tree) (hpre : Spec.safePre cx.src t = true) (hraw : rawClosed cx.src t = true) :
    rawSeamsOK cx t = true :=
  Proofs.rawSeamsOK_of_safePre cx t hpre hraw

/-- The statement without `NameClosed` is false: a predicate rejecting `s_x` but not `s` lets `<s_x>` through,
    because the filter shows the predicate the name `s` (letters, digits, `-`) where the tokenizer's name runs to
    the next white space, `/` or `>`. -/
def C17_unconditional_target : Prop := Proofs.no_rejected_start_tag_unconditional_target

-- Regression witnesses (kernel-evaluated): the inputs of the repaired defects.
private def rejectS (n : Bytes) : Bool := n == [0x73]
private def b (s : String) : Bytes := s.toUTF8.toList
example : Spec.startTags (filterRaw rejectS (b "<3 <s>")) = [] := by decide +kernel
example : Spec.startTags (filterRaw rejectS (b "<!--> <s>")) = [] := by decide +kernel
example : Spec.startTags (filterRaw rejectS (b "<![CDATA[ > <s>")) = [] := by decide +kernel
example : Spec.startTags (filterRaw rejectS (b "<s<s>")) = [] := by decide +kernel
example : Spec.startTags (filterRaw filterTagGFM (b "</x =\"><script>\">")) = [] := by decide +kernel
example : Spec.startTags (filterRaw filterTagGFM (b "<a x=\n") ++ filterRaw filterTagGFM (b "'><!--'><script>alert(1)</script>-->\n")) = [b "a"] := by
  decide +kernel
example : Spec.startTags (b "<a x=\n'><!--'><script>alert(1)</script>-->\n") = [b "a", b "script"] := by decide +kernel
example : Spec.startTags (b "<a title='>'><S x>") = [b "a", b "s"] := by decide +kernel
example : filterRaw rejectS (b "<a><S x>") = b "<a>&lt;S x>" := by decide +kernel

end CM.Props.C17
