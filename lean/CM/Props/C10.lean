import CM.Proofs.Render
import CM.Props.C18
/-
C10 — HTML output is the canonical serialisation of the tree, in every configuration.
`Model.appendBlock` is html_renderer.go's AppendBlock: the Walk loop with the pre/post callbacks
appending to `dst`. `Spec.renderSpec` reads the tree recursively: `open ++ children ++ close`.
Every statement holds for all trees, all sources, all configurations (`cx` is universally quantified:
SoftBreakBehavior, IgnoreRaw, an arbitrary FilterTag predicate, an arbitrary reference map,
an arbitrary entity decoder).
-/
namespace CM.Props.C10
open CM CM.Model CM.Spec CM.Proofs

/-- AppendBlock appends exactly the recursive reading of the tree to `dst`. -/
theorem render_eq_spec (cx : RCtx) (dst : Bytes) (root : Tree) :
    appendBlock cx dst root = dst ++ renderSpec cx root := by
  simp only [appendBlock, C18.walk_refines_spec, walkSpec, walkNode_render, renderSpec]

/-- Rendering a block list equals rendering each block separately, joined by blank lines. -/
theorem renderAll_join (mk : Bytes → RCtx) (blocks : List (Bytes × Tree)) :
    renderAll mk blocks 0 = renderAllSpec mk blocks := by
  have h : ∀ (bs : List (Bytes × Tree)) (i : Nat), i > 0 →
      renderAll mk bs i = (bs.flatMap fun b => [LF, LF] ++ renderSpec (mk b.1) b.2) := by
    intro bs
    induction bs with
    | nil => intro i _; simp [renderAll]
    | cons b bs ih =>
      intro i hi
      obtain ⟨src, t⟩ := b
      simp only [renderAll, hi, if_true, render_eq_spec, List.flatMap_cons]
      rw [ih (i + 1) (by omega)]
  have hspec : ∀ (b : Bytes × Tree) (bs : List (Bytes × Tree)),
      renderAllSpec mk (b :: bs) = renderSpec (mk b.1) b.2 ++ (bs.flatMap fun b => [LF, LF] ++ renderSpec (mk b.1) b.2) := by
    intro b bs
    induction bs generalizing b with
    | nil => obtain ⟨s, t⟩ := b; simp [renderAllSpec]
    | cons c cs ih =>
      obtain ⟨s, t⟩ := b
      simp only [renderAllSpec, List.flatMap_cons, ih c]
      simp [List.append_assoc]
  cases blocks with
  | nil => simp [renderAll, renderAllSpec]
  | cons b bs =>
    obtain ⟨src, t⟩ := b
    rw [hspec]
    simp only [renderAll, Nat.lt_irrefl, gt_iff_lt, if_false, render_eq_spec, List.nil_append]
    rw [h bs 1 (by omega)]

/-- Nothing is emitted for a link reference definition. -/
theorem refdef_renders_nothing (cx : RCtx) (l : Label) (cs : List Tree)
    (hb : l.isBlock = true) (hk : l.kind = BK.linkRefDef) :
    renderSpec cx (.node l cs) = [] := by
  simp [renderSpec, renderNode, openBytes, preBlock, Tree.label, hb, hk, BK.linkRefDef, BK.paragraph,
    BK.thematicBreak, BK.atxHeading, BK.setextHeading, BK.indentedCode, BK.fencedCode, BK.blockQuote, BK.list,
    BK.listItem, BK.htmlBlock]

end CM.Props.C10
