import CM.Proofs.ParseScanMain
import CM.Ops.TailHyp
import CM.Proofs.ParseScanTail
import CM.Proofs.ParseAsmCheck
/-
C02 / C04, inline halves, connected to the block phase (session 4, sixth wave; 40 proof files `ParseScan*`).

1. The scanner hypotheses of `rewrite_spans` / `rewrite_noPanic` (`Props/C02Inline.lean`) were stated too strongly to hold on parser
   output, and this file PROVES so: `LinkScan.inline` quantified over every `(` of the source rather than those of the container
   (`original_linkScan_false`, `original_contsOK_false_on_parse_output`: the document `> a⏎>⏎> ()`), and `TokScan.code` over every
   arena state rather than those with `parentMap.size = nodes.size` (`original_tokScan_code_false`: witness, the paragraph `a` in backticks; the argument applies to any container holding a code
   span). So those two theorems were true but applied to no container with a code span. `LinkScan2` / `TokScan2` add exactly the
   facts available where the tokenizer calls the scanners, and the span and no-panic developments were re-run under them
   (`rewrite_spans2`, `rewrite_noPanic2`: same conclusions, weaker hypotheses `ContsOK2`; the old forms imply the new ones).
2. The tree-shape hypotheses hold for every root the block phase delivers, no hypothesis (`blockphase_WFT`).
3. For every container of a block-phase tree the scanner facts themselves are theorems (`blockphase_contOK2`, `blockphase_tokNP`):
   the HTML-tag, code-span, link-label and inline-link scanners stay inside the container and keep their pieces ordered, because
   every non-last run ends with its line ending and the reader dies at the container's end. Two decidable tail facts remain as
   hypotheses - `TailNP` (the byte after a container's last run is not `)`; true of parser output because a line starting with `)`
   continues the paragraph, not yet a block-phase invariant) and `TailSafe` for ATX headings (the content run is followed by white
   space, `#` or the end; `parseATXHeading` cuts there) - and the content-less heading `# ` is excluded (the inline phase returns
   no child there: `PSh.parseInlines_empty`).
4. `parse_spans_of_tails`, `parse_noPanic_of_tails` (4 files `ParseAsm*`): the whole-`Parse` statements with ONLY the two tail facts
   as hypotheses - a decidable proposition about the document (`ParseTails`), evaluated by the op `tailhyp` for the documents of every
   C02 run (`tail_monitor_exact`), true of 1.5 million exhaustively enumerated short documents, and instantiated by `decide +kernel`
   on a five-root document (`ParseAsmCheck.lean`). Proving the two tail facts as block-phase invariants is what is still missing for
   a hypothesis-free theorem; `Spec.spansOK` and the totality oracle evaluated on the implementation's trees also decide these clauses.
-/
namespace CM.Props.C02
open CM CM.Model CM.Gen CM.Spec CM.Model.Inl
open CM.Proofs CM.Proofs.PW CM.Proofs.RK CM.Proofs.InlH CM.Proofs.InlH2 CM.Proofs.PS CM.Proofs.PSh CM.Proofs.PSc

/-- C02, inline half, under the repaired scanner hypotheses. -/
theorem rewrite_spans2 : type_of% @InlH2.rewriteE_spansOK_nodes := @InlH2.rewriteE_spansOK_nodes
/-- C04, inline half, under the repaired scanner hypotheses. -/
theorem rewrite_noPanic2 : type_of% @InlH2.rewriteE_noPanic := @InlH2.rewriteE_noPanic
/-- The old hypotheses imply the new ones (nothing proved before is lost). -/
theorem tokScan_weaker : type_of% @TokScan.to2 := @TokScan.to2
theorem linkScan_weaker : type_of% @LinkScan.to2 := @LinkScan.to2

/-- The original hypotheses were false on parser output. -/
theorem original_linkScan_false : type_of% @InlH2.Witness.linkScan_inline_false := @InlH2.Witness.linkScan_inline_false
theorem original_contsOK_false_on_parse_output : type_of% @InlH2.Witness.contsOK_false := @InlH2.Witness.contsOK_false
theorem original_tokScan_code_false : type_of% @InlH2.Witness.tokScan_code_false := @InlH2.Witness.tokScan_code_false

/-- Every root the block phase delivers has ordered, disjoint runs inside their containers, and lies inside its source. -/
theorem blockphase_WFT : type_of% @PSc.blockphase_WFT := @PSc.blockphase_WFT
/-- The scanner facts of a container of a block-phase tree (given the two tail facts; `# ` excluded). -/
theorem blockphase_contOK2 : type_of% @PSc.blockphase_contOK2 := @PSc.blockphase_contOK2
theorem blockphase_linkScan2 : type_of% @PSc.blockphase_linkScan2 := @PSc.blockphase_linkScan2
theorem blockphase_tokScan2 : type_of% @PSc.blockphase_tokScan2 := @PSc.blockphase_tokScan2
theorem blockphase_tokNP : type_of% @PSc.blockphase_tokNP := @PSc.blockphase_tokNP

/-- C02 / C04 inline halves for the whole of `Parse`, given the scanner facts of the roots' trees. -/
theorem parse_spans_of : type_of% @PSc.parse_spansOK_nodes_of := @PSc.parse_spansOK_nodes_of
theorem parse_noPanic_of : type_of% @PSc.parse_rewrite_noPanic_of := @PSc.parse_rewrite_noPanic_of

/-- **C02, inline half, for the whole of `Parse`, with only the two tail facts as hypotheses** (the assembly: `conts` and `rewriteE`
    share their recursion, so the per-container facts suffice; the content-less heading is handled by `parseInlines_empty`). -/
theorem parse_spans_of_tails : type_of% @PSc.parse_spansOK_nodes_of_tails := @PSc.parse_spansOK_nodes_of_tails
/-- **C04, inline half, for the whole of `Parse`**, same hypotheses: no root's inline phase reaches a Go panic site. -/
theorem parse_noPanic_of_tails : type_of% @PSc.parse_rewrite_noPanic_of_tails := @PSc.parse_rewrite_noPanic_of_tails
/-- The same with the hypothesis as one decidable proposition about the document (`ParseTails`). -/
theorem parse_spans_of_parseTails : type_of% @PSc.parse_spansOK_nodes_of_parseTails := @PSc.parse_spansOK_nodes_of_parseTails
theorem parse_noPanic_of_parseTails : type_of% @PSc.parse_rewrite_noPanic_of_parseTails := @PSc.parse_rewrite_noPanic_of_parseTails
/-- The span / no-panic theorems quantified over the containers the inline phase actually visits, empty runs allowed. -/
theorem rewrite_spans_E : type_of% @PSc.rewriteE_spansOK_nodes_E := @PSc.rewriteE_spansOK_nodes_E
theorem rewrite_noPanic_E : type_of% @PSc.rewriteE_noPanic_E := @PSc.rewriteE_noPanic_E
/-- `TokNP` side for every block-phase root, no hypothesis. -/
theorem blockphase_contsNPE : type_of% @PSc.blockphase_contsNPE := @PSc.blockphase_contsNPE

/-- Every container whose last child ends where the root's source ends has all its scanner facts, no tail hypothesis. -/
theorem blockphase_contOK2_atEnd : type_of% @PSc.blockphase_contOK2_atEnd := @PSc.blockphase_contOK2_atEnd
/-- Line-level core of `TailSafe` for ATX headings: the content `parseATXHeading` returns ends before white space, `#` or the end of
    the line (the block-phase invariant carrying this to the tree is the missing link; `tailhyp` evaluates it per document). -/
theorem parseATXHeading_after : type_of% @PSc.parseATXHeading_after := @PSc.parseATXHeading_after

/-- The run-time monitor `tailhyp` (asked for the documents of every C02 run) computes exactly the two tail facts. -/
theorem tail_monitor_exact : type_of% @CM.Ops.tailsOKb_iff := @CM.Ops.tailsOKb_iff
/-- … and its `ok` answer is the hypothesis `ParseTails` of `parse_spans_of_parseTails` / `parse_noPanic_of_parseTails`. -/
theorem tail_monitor_gives_parseTails : type_of% @CM.Ops.tailsOKb_parseTails := @CM.Ops.tailsOKb_parseTails

end CM.Props.C02
