import CM.Proofs.GrammarMarker
import CM.Proofs.GrammarLooseStream
import CM.Proofs.ParseWholeMain
/-
C05, continued (session 4, second wave).
Block phase (18 proof files `GrammarLoose*`, `GrammarMarker*`): a list and its items agree on looseness; the marker of an ordered
item is 1-9 digits followed by the item's delimiter and that of a bullet item is its bullet character (read off the SOURCE, so a
source-indexed invariant); together with the earlier grammar invariant this is the whole block half of `Spec.grammar`
(`drain_grammar_phase1`, where `phase1At` is `Spec.grammarAt` except that paragraphs and headings still hold unparsed runs).
Whole `Parse` (11 proof files `ParseWhole*`, connecting the block-phase theorems with the inline-phase theorems of
Props/C05Inline): for every input and every root on which the inline phase completes, NO Unparsed node is left and every inline
node has one of the documented kinds - with no other hypothesis.
-/
namespace CM.Props.C05
open CM CM.Model CM.Spec CM.Proofs CM.Proofs.PW CM.Proofs.BG CM.Proofs.GL CM.Proofs.GM

/-- Lists and their items agree on looseness, for every root of every input (`IsTightList` of a list = of each item). -/
theorem drain_list_items_loose (x : PExt) (fuel : Nat) (source : Bytes) :
    ∀ r ∈ (drain (blocksLP x) fuel (memParser source) []).1,
      ∀ c ∈ pbNodes r.block, c.kind = BK.list → ∀ i ∈ c.blocks, i.label.loose = c.label.loose :=
  Proofs.drain_list_items_loose x fuel source

/-- Ordered items: the marker text is 1-9 digits followed by the item's delimiter. -/
theorem drain_orderedItemOK (x : PExt) (fuel : Nat) (source : Bytes) (hz : ∀ c ∈ source, c ≠ 0) :
    ∀ r ∈ (drain (blocksLP x) fuel (memParser source) []).1,
      (Spec.T.nodes (pbToTree r.block)).all (Spec.orderedItemOK r.source) = true :=
  Proofs.drain_orderedItemOK x fuel source hz

/-- The block half of `Spec.grammar` in one statement (NUL-free inputs because of the marker clause). -/
theorem drain_grammar_phase1 (x : PExt) (fuel : Nat) (source : Bytes) (hz : ∀ c ∈ source, c ≠ 0) :
    ∀ r ∈ (drain (blocksLP x) fuel (memParser source) []).1, grammarPhase1 r.source (pbToTree r.block) = true :=
  Proofs.drain_grammar_phase1 x fuel source hz

/-- **Whole Parse**: no Unparsed node survives, every inline node has a documented kind (1..17). -/
theorem parse_no_unparsed (x : PExt) (ix : IExt) (inp : Bytes) :
    ∀ pr ∈ (parseDoc x ix inp).roots, ∀ t', pr.tree = .ok t' →
      (∀ u ∈ T.nodes t', T.isI u IK.unparsed = false) ∧
      (∀ u ∈ T.nodes t', u.label.isBlock = false → u.label.kind ≤ 17) :=
  PW.parse_no_unparsed x ix inp

end CM.Props.C05
