import CM.Proofs.Stream
import CM.Proofs.BlocksWell
/-
C08 — streaming parse equals in-memory parse under ANY read schedule and any reader fault.
`Model.nextBlock` / `drain` are parse.go's `NextBlock` called until it reports an error, over a scripted reader
(`Reader`: data, sizes of the next reads incl. empty reads, error with or after the last data, final error) and an
ABSTRACT line parser `L : LineParserI` (any state type, any functions); `memParser x` is the parser `Parse` builds.
The theorems therefore hold for the real block parser whatever it does line by line, as long as it is `LPWell`
(it closes its first block when fed the end-of-input line, and closed blocks end inside the bytes it was given) —
or, for EVERY line parser, under three decidable conditions on the two runs. `Small x` excludes the streaming
block-size limit (the property's side condition): the padded input plus 3 bytes fits in `maxBlockSize`.
The model (Stream.lean + the block-phase line parser) is tied to the code by the `blocks` correspondence op.
-/
namespace CM.Props.C08
open CM CM.Model CM.Proofs

/-- (A) Every schedule (chunk sizes, empty reads, end of input with or after the last data): the same list of root
    blocks — every field: Source, StartLine, StartOffset, EndOffset, the whole block — and the same outcome. -/
theorem stream_eq_mem {L : LineParserI} (W : LPWell L) (x : Bytes) (sched : List Nat) (eofWith : Bool) (hsmall : Small x) (f : Nat) :
    observe (drain L f (newBlockParser { data := x, sched := sched, eofWith := eofWith, fin := .eof }) []) =
    observe (drain L f (memParser x) []) :=
  stream_eq_mem_partial W x sched eofWith hsmall f

/-- (A) for EVERY line parser, under decidable conditions on the two runs (no panic site of the stream machine was
    reached in memory; neither run ran out of the model's per-line fuel). -/
theorem stream_eq_mem_every_parser (L : LineParserI) (x : Bytes) (sched : List Nat) (eofWith : Bool) (hsmall : Small x) (f : Nat)
    (hM : (drain L f (memParser x) []).2.2.panic = none)
    (hfS : isFuelPanic (drain L f (newBlockParser { data := x, sched := sched, eofWith := eofWith, fin := .eof }) []).2.1 = false)
    (hfM : isFuelPanic (drain L f (memParser x) []).2.1 = false) :
    observe (drain L f (newBlockParser { data := x, sched := sched, eofWith := eofWith, fin := .eof }) []) =
    observe (drain L f (memParser x) []) :=
  stream_eq_mem_run L x sched eofWith hsmall f hM hfS hfM

/-- The statement for every line parser without those conditions is false (a parser that returns a block ending
    beyond the bytes it was given; and a fuel artefact of the model). -/
theorem stream_eq_mem_unconditional_false : ¬ stream_eq_mem_target := stream_eq_mem_target_false'

/-- (B) The reader fails with `code` after delivering `x`: exactly the blocks of the in-memory parse of `x`, then
    that error (where the in-memory parse reports end of input). -/
theorem stream_fault {L : LineParserI} (W : LPWell L) (x : Bytes) (sched : List Nat) (eofWith : Bool) (code : Nat)
    (hsmall : Small x) (f : Nat) :
    (observe (drain L f (newBlockParser { data := x, sched := sched, eofWith := eofWith, fin := .fail code }) [])).1 =
      (observe (drain L f (memParser x) [])).1 ∧
    ((∃ m, (observe (drain L f (newBlockParser { data := x, sched := sched, eofWith := eofWith, fin := .fail code }) [])).2 = .panic m ∧
        (observe (drain L f (memParser x) [])).2 = .panic m) ∨
     ((observe (drain L f (newBlockParser { data := x, sched := sched, eofWith := eofWith, fin := .fail code }) [])).2 = .err (.reader code) ∧
        (observe (drain L f (memParser x) [])).2 = .err .eof)) :=
  Proofs.stream_fault W x sched eofWith code hsmall f

/-- (C) Once `NextBlock` has reported an error (end of input, a reader error, block too large), every further call
    reports the same error and delivers no block — for every line parser, reader and state. -/
theorem err_persistent (L : LineParserI) {f : Nat} {p0 : BP} {acc rs : List Root} {e : PErr} {p : BP}
    (h : drain L f p0 acc = (rs, .err e, p)) : ∀ n, (callN L n p).1 = .err e :=
  Proofs.err_persistent L h

/-- (D) Each block is delivered once, in order: the streaming list of roots IS the in-memory list, whatever the
    schedule and the reader's final error. -/
theorem stream_roots_eq {L : LineParserI} (W : LPWell L) (x : Bytes) (sched : List Nat) (eofWith : Bool) (fin : RErr)
    (hsmall : Small x) (f : Nat) :
    (drain L f (newBlockParser { data := x, sched := sched, eofWith := eofWith, fin := fin }) []).1 =
    (drain L f (memParser x) []).1 :=
  Proofs.stream_roots_eq W x sched eofWith fin hsmall f

/-- More fuel changes nothing once `drain` has ended (the Go loop has no fuel). -/
theorem drain_fuel_irrelevant (L : LineParserI) (f : Nat) (p : BP) (acc : List Root) (h : drainEnds L f p = true)
    (f' : Nat) (hf : f ≤ f') : drain L f' p acc = drain L f p acc :=
  drain_more_fuel L f p acc h f' hf

/-! ### The real block parser: no hypothesis on the line parser left -/

/-- `Model.blocksLP` — the Lean model of the block-phase line parser of blocks.go, tied to the code by the `blocks`
    correspondence op — meets the (source-indexed) contract `LPWellS`: the invariant "the root is the open document block; all
    children but the last are closed; closed ends are sorted and inside the bytes given; an open last paragraph has sorted,
    valid inline spans …" holds after every line, the end-of-input line closes everything, and the link reference
    definitions split off a paragraph end in increasing order inside it. (The simpler `LPWell` above is proved
    unsatisfiable by any real parser, `blocksLP_not_well`: it quantifies over sources the machine never feeds.) -/
def blocksLP_meets_contract (x : PExt) : LPWellS (blocksLP x) := blocksLP_wellS x

/-- (A) for the model of the real parser, unconditionally: every input below the block-size limit, every schedule. -/
theorem C08_blocks (x : PExt) (inp : Bytes) (sched : List Nat) (eofWith : Bool) (hsmall : Small inp) (f : Nat) :
    observe (drain (blocksLP x) f (newBlockParser { data := inp, sched := sched, eofWith := eofWith, fin := .eof }) []) =
    observe (drain (blocksLP x) f (memParser inp) []) :=
  Proofs.C08_blocks x inp sched eofWith hsmall f

/-- (B) for the model of the real parser. -/
theorem C08_blocks_fault (x : PExt) (inp : Bytes) (sched : List Nat) (eofWith : Bool) (code : Nat) (hsmall : Small inp) (f : Nat) :
    (observe (drain (blocksLP x) f (newBlockParser { data := inp, sched := sched, eofWith := eofWith, fin := .fail code }) [])).1 =
      (observe (drain (blocksLP x) f (memParser inp) [])).1 ∧
    ((∃ m, (observe (drain (blocksLP x) f (newBlockParser { data := inp, sched := sched, eofWith := eofWith, fin := .fail code }) [])).2 = .panic m ∧
        (observe (drain (blocksLP x) f (memParser inp) [])).2 = .panic m) ∨
     ((observe (drain (blocksLP x) f (newBlockParser { data := inp, sched := sched, eofWith := eofWith, fin := .fail code }) [])).2 = .err (.reader code) ∧
        (observe (drain (blocksLP x) f (memParser inp) [])).2 = .err .eof)) :=
  Proofs.C08_blocks_fault x inp sched eofWith code hsmall f

/-- (D) for the model of the real parser, any final reader error. -/
theorem C08_blocks_roots (x : PExt) (inp : Bytes) (sched : List Nat) (eofWith : Bool) (fin : RErr) (hsmall : Small inp) (f : Nat) :
    (drain (blocksLP x) f (newBlockParser { data := inp, sched := sched, eofWith := eofWith, fin := fin }) []).1 =
    (drain (blocksLP x) f (memParser inp) []).1 :=
  Proofs.C08_blocks_roots x inp sched eofWith fin hsmall f

-- Non-vacuity: `LPWell` is satisfiable (a toy paragraph parser), and the theorem applies to a run with a CRLF split
-- across reads, a NUL, an empty read and end of input delivered with the last data.
example : Nonempty (LPWell paraLP) := ⟨paraWell⟩
example : Small demoInput := by decide +kernel
example : observe (drain paraLP 20 (newBlockParser (demoReader .eof)) []) = observe (drain paraLP 20 (memParser demoInput) []) :=
  stream_eq_mem paraWell demoInput [2, 0, 1, 3, 1, 1] true (by decide +kernel) 20

end CM.Props.C08
