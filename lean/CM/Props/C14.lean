import CM.Proofs.BlankPrefix
import CM.Proofs.EolEnd
import CM.Proofs.EolInvariant
import CM.Proofs.EolLabel2
import CM.Proofs.EolFinal
import CM.Proofs.EolN4
import CM.Proofs.EolG13
import CM.Proofs.EolDoc
/-
C14 — clause (b): prepending blank lines changes nothing but offsets and line numbers, which shift by exactly the
prefix. Proved about the stream-machine model (`Model/Stream.lean`) for EVERY line parser `L : LineParserI`: the
blank-line skipping loop of `NextBlock` consumes the prefix before the line parser sees a byte, after which the two
runs are in lockstep. Also here: what holds (and what provably does not) for blank lines appended at the END, which is
the stream-level part of clause (c). Clause (a) (line-ending style) and the rest of (c) need simulations over the block
and inline models and are decided by relational oracles on the implementation.
-/
namespace CM.Props.C14
open CM CM.Model CM.Proofs CM.Proofs.EolN CM.Proofs.EolG

/-- (b) For every line parser, every input `x` and every prefix `p` of whole blank lines (spaces, tabs, line endings;
    ending in a line ending; not ending in a CR that would merge with an LF starting `x`): parsing `p ++ x` delivers
    exactly the roots of parsing `x` with `StartOffset`/`EndOffset` increased by `|p|` and `StartLine` by the number of
    lines of `p` — same Source, same block, same outcome. (`hf` excludes an artefact of the model's loop fuel; it
    follows from `LPWell` or `LPContract`, see below.) -/
theorem blank_prefix_shift (L : LineParserI) (p x : Bytes) (hp : blankLines p = true) (hj : ¬ CRLFSplit p x)
    (fuel : Nat) (hf : isFuelPanic (nextBlock L (memParser x)).1 = false) :
    observe (drain L fuel (memParser (p ++ x)) []) =
      ((drain L fuel (memParser x) []).1.map (shiftRoot p.length (lineCount p)), (drain L fuel (memParser x) []).2.1) :=
  blank_prefix_observe L p x hp hj fuel hf

/-- … with no fuel side condition for line parsers that meet the C08 contract … -/
theorem blank_prefix_shift_well {L : LineParserI} (W : LPWell L) (p x : Bytes) (hp : blankLines p = true)
    (hj : ¬ CRLFSplit p x) (fuel : Nat) (h0 : 0 < fuel) :
    drain L fuel (memParser (p ++ x)) [] = shiftRun p.length (lineCount p) (drain L fuel (memParser x) []) :=
  Proofs.blank_prefix_shift_well W p x hp hj fuel h0

/-- … or the C01 contract. -/
theorem blank_prefix_shift_contract {L : LineParserI} (C : LPContract L) (p x : Bytes) (hp : blankLines p = true)
    (hj : ¬ CRLFSplit p x) (fuel : Nat) (h0 : 0 < fuel) :
    drain L fuel (memParser (p ++ x)) [] = shiftRun p.length (lineCount p) (drain L fuel (memParser x) []) :=
  Proofs.blank_prefix_shift_contract C p x hp hj fuel h0

/-- The shift touches nothing but the three numbers. -/
example (d m : Nat) (r : Root) : (shiftRoot d m r).source = r.source ∧ (shiftRoot d m r).block = r.block := ⟨rfl, rfl⟩

/-- The junction condition is needed: a prefix ending in CR in front of an input starting with LF merges into one CRLF. -/
example : CRLFSplit [CR] [LF, 97, LF] := by decide

/-- Appended bytes (blank or not) do not change any root delivered before the parse position reaches the end of the
    original input — for every line parser. -/
theorem trailing_prefix_stable (L : LineParserI) (x t : Bytes) (hx : terminated x = true) (hj : ¬ CRLFSplit x t)
    (n : Nat)
    (hin : (callN L n (memParser x)).2.i < (callN L n (memParser x)).2.buf.length)
    (hM : (callN L n (memParser x)).2.panic = none)
    (hF : ∀ m, m ≤ n → isFuelPanic (callN L m (memParser x)).1 = false) :
    ∀ m, m ≤ n → (callN L m (memParser (x ++ t))).1 = (callN L m (memParser x)).1 :=
  Proofs.trailing_prefix_stable L x t hx hj n hin hM hF

/-- "Trailing blank lines never matter" is FALSE for an arbitrary line parser (it is fed the end-of-input line at a
    different position and can tell), and for the real one: an unclosed fenced code block absorbs them. -/
theorem trailing_blank_irrelevant_false : ¬ trailing_blank_irrelevant_target := trailing_blank_irrelevant_target_false

/-! ### Clause (a): line-ending style, and clause (c) at the level of lines (session 4; 31 proof files `Eol*`) -/

/-- Every line recognizer, the blank-line test, the indentation measure and six of the seven HTML-block start conditions
    return the SAME result (all fields, positions included) on a line with and without a line ending of any style:
    `e` = nothing, LF, CR LF or CR. (`e = []` against `[LF]` is clause (c) at this level.) -/
theorem recognizer_eol_invariant (l e : Bytes) (he : EolBytes e) :
    parseThematicBreak (l ++ e) = parseThematicBreak l ∧ parseATXHeading (l ++ e) = parseATXHeading l ∧
    parseSetextHeadingUnderline (l ++ e) = parseSetextHeadingUnderline l ∧ parseCodeFence (l ++ e) = parseCodeFence l ∧
    parseListMarker (l ++ e) = parseListMarker l ∧ isBlankLine (l ++ e) = isBlankLine l ∧
    indentLength (l ++ e) = indentLength l ∧ hasTabOrSpacePrefixOrEOL (l ++ e) = hasTabOrSpacePrefixOrEOL l ∧
    (∀ i, i ≠ 6 → htmlBlockStart i (l ++ e) = htmlBlockStart i l) :=
  Proofs.recognizer_eol_invariant l e he

/-- The seventh start condition (a complete open or closing tag) too. -/
theorem htmlStart7_eol (y : Bytes) (c : UInt8) (hc : isNL c = true) : htmlStart7 (y ++ [c]) = htmlStart7 y :=
  Proofs.htmlStart7_snoc y c hc

/-- The HTML-block END conditions agree between LF, CRLF and CR … -/
theorem htmlBlockEnd_eol_invariant (i : Nat) (l : Bytes) :
    htmlBlockEnd i (l ++ [CR, LF]) = htmlBlockEnd i (l ++ [LF]) ∧ htmlBlockEnd i (l ++ [CR]) = htmlBlockEnd i (l ++ [LF]) :=
  Proofs.htmlBlockEnd_eol_invariant i l

/-- … but NOT between "no line ending" and LF: `contains` never tests the last position, so `<!-- a -->` as the last line
    of an input without final newline does not end its block (the block then ends with the input; rendering differs only in
    insignificant white space). -/
theorem htmlBlockEnd_final_newline_false : ¬ htmlBlockEnd_final_newline_target := htmlBlockEnd_final_newline_target_false

/-- The stream machine's line splitting commutes with rewriting the line endings of a CR-free input. -/
theorem lines_crlf (x : Bytes) (hx : NoCR x) :
    lines (toCRLF x) = (lines x).map toCRLF ∧ lineCount (toCRLF x) = lineCount x :=
  Proofs.lines_crlf x hx

/-- **Clause (a), block phase.** For every CR-free, NUL-free input without `[` and each of the styles CRLF and CR, the block
    phase of the re-written input delivers exactly the images of the original roots under the position map (offsets, lines,
    Source with re-written endings, every span of every block and text run), and ends the same way — for every fuel. -/
theorem blocks_eol_sim_total (x : PExt) {e : Bytes} (he : StdEol e) (inp : Bytes) (hcr : NoCR inp) (hnul : NoNul inp)
    (hb : NoBracket inp) (n : Nat) :
    (drain (blocksLP x) n (memParser (toEol e inp)) []).1 =
      (drain (blocksLP x) n (memParser inp) []).1.map (mapRoot e inp) ∧
    (drain (blocksLP x) n (memParser (toEol e inp)) []).2.1 = (drain (blocksLP x) n (memParser inp) []).2.1 :=
  Proofs.blocks_eol_sim_total x he inp hcr hnul hb n

/-- Without the `[` restriction the statement is FALSE for the model (and the code): a 995-byte label spread over lines is
    a label with LF and too long with CRLF (the known finding KF-C14-label-limit-crlf, now a theorem). -/
theorem blocks_eol_sim_general_false : ¬ blocks_eol_sim_general_target := blocks_eol_sim_general_target_false

/-- Clause (c), lines: appending LF to an input without final line ending only completes the last line. -/
theorem lines_final_newline (pre last : Bytes) (hpre : terminated pre = true) (hlast : ∀ c ∈ last, c ≠ LF ∧ c ≠ CR)
    (hne : last ≠ []) :
    lines (pre ++ last) = lines pre ++ [last] ∧ lines (pre ++ last ++ [LF]) = lines pre ++ [last ++ [LF]] :=
  Proofs.lines_final_newline pre last hpre hlast hne

/-- Clause (c) read as "block trees equal up to the final position" is FALSE (the HTML end condition above). -/
theorem blocks_final_newline_false : ¬ blocks_final_newline_target := blocks_final_newline_target_false

/-! ### Clause (a) for ALL CR-free inputs (second wave: 48 further files `EolRd*`, `EolW1`, `EolX*`, `EolG*`, `EolN*`, `EolDoc`) -/

/-- **LF → CR, block phase, every CR-free input** - with link syntax, with NUL bytes, no other hypothesis: the roots of the
    re-written input are exactly the images of the original roots (offsets, lines, Source, every span) and the run ends the same
    way. The definition parser's reader is simulated under the position map; the C01 contract aligns cuts with NUL padding. -/
theorem blocks_cr_sim_all (x : PExt) (inp : Bytes) (hcr : NoCR inp) (n : Nat) (hn : inp.length + 1 ≤ n) :
    (drain (blocksLP x) n (memParser (toCR inp)) []).1 =
      (drain (blocksLP x) n (memParser inp) []).1.map (mapRootN [CR] inp) ∧
    (drain (blocksLP x) n (memParser (toCR inp)) []).2.1 = (drain (blocksLP x) n (memParser inp) []).2.1 :=
  EolN.blocks_cr_sim_all x inp hcr n hn

/-- **LF → CRLF (or CR), block phase, every CR-free input on which no accepted link label straddles the 999 limit** when each
    line ending counts two: `blocksLPq x 1` is the block parser that evaluates exactly that (decidable) condition at every line;
    the label byte count is proved to be the ONLY mechanism of the block phase that tells CRLF from LF (`labelW_eq`,
    `parseLinkLabelW_sim`: the CRLF scanner IS the scanner that counts a line feed as two bytes). -/
theorem blocks_eol_sim_nul (x : PExt) {e : Bytes} (he : StdEol e) (inp : Bytes) (hcr : NoCR inp) (n : Nat)
    (hend : ∃ er, (drain (blocksLPq x (e.length - 1)) n (memParser inp) []).2.1 = .err er) :
    (drain (blocksLP x) n (memParser (toEol e inp)) []).1 =
      (drain (blocksLP x) n (memParser inp) []).1.map (mapRootN e inp) ∧
    (drain (blocksLP x) n (memParser (toEol e inp)) []).2.1 = (drain (blocksLP x) n (memParser inp) []).2.1 :=
  EolN.blocks_eol_sim_nul x he inp hcr n hend

/-- The same at the level of `Parse`, for CR: roots and ending; and the reference matcher Rewrite is given is the SAME function
    for the re-written input (keys are invariant), so clause (a) is reduced to Rewrite on one root under the position map. -/
theorem parseDoc_blocks_cr_all (x : PExt) (ix : IExt) (inp : Bytes) (hcr : NoCR inp) :
    (parseDoc x ix (toCR inp)).roots.map (·.root) = (parseDoc x ix inp).roots.map (fun r => mapRootN [CR] inp r.root) ∧
    (parseDoc x ix (toCR inp)).ending = (parseDoc x ix inp).ending :=
  EolG.parseDoc_blocks_cr_all x ix inp hcr

theorem matchRef_eol (x : PExt) (ix : IExt) {e : Bytes} (he : StdEol e) (inp : Bytes) (hcr : NoCR inp)
    (hchk : ∃ er, (drain (blocksLPq x (e.length - 1)) (inp.length + 8) (memParser inp) []).2.1 = .err er) :
    keys (parseDoc x ix (toEol e inp)).refs = keys (parseDoc x ix inp).refs ∧
    matchRefOf (parseDoc x ix (toEol e inp)) = matchRefOf (parseDoc x ix inp) :=
  EolG.matchRef_eol x ix he inp hcr hchk

end CM.Props.C14
