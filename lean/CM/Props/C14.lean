import CM.Proofs.BlankPrefix
/-
C14 — clause (b): prepending blank lines changes nothing but offsets and line numbers, which shift by exactly the
prefix. Proved about the stream-machine model (`Model/Stream.lean`) for EVERY line parser `L : LineParserI`: the
blank-line skipping loop of `NextBlock` consumes the prefix before the line parser sees a byte, after which the two
runs are in lockstep. Also here: what holds (and what provably does not) for blank lines appended at the END, which is
the stream-level part of clause (c). Clause (a) (line-ending style) and the rest of (c) need simulations over the block
and inline models and are decided by relational oracles on the implementation.
-/
namespace CM.Props.C14
open CM CM.Model CM.Proofs

/-- (b) For every line parser, every input `x` and every prefix `p` of whole blank lines (spaces, tabs, line endings;
    ending in a line ending; not ending in a CR that would merge with an LF starting `x`): parsing `p ++ x` delivers
    exactly the roots of parsing `x` with `StartOffset`/`EndOffset` increased by `|p|` and `StartLine` by the number of
    lines of `p` — same Source, same block, same outcome. (`hf` excludes an artefact of the model's loop fuel; it
    follows from `LPWell` or `LPContract`, see below.) -/
theorem blank_prefix_shift (L : LineParserI) (p x : Bytes) (hp : blankLines p = true) (hj : ¬ CRLFSplit p x)
    (fuel : Nat) (hf : isFuelPanic (nextBlock L (memParser x)).1 = false) :
    observe (drain L fuel (memParser (p ++ x)) []) =
      ((drain L fuel (memParser x) []).1.map (shiftRoot p.length (lineCount p)), (drain L fuel (memParser x) []).2.1) :=
  blank_prefix_observe L p x hp hj fuel hf

/-- … with no fuel side condition for line parsers that meet the C08 contract … -/
theorem blank_prefix_shift_well {L : LineParserI} (W : LPWell L) (p x : Bytes) (hp : blankLines p = true)
    (hj : ¬ CRLFSplit p x) (fuel : Nat) (h0 : 0 < fuel) :
    drain L fuel (memParser (p ++ x)) [] = shiftRun p.length (lineCount p) (drain L fuel (memParser x) []) :=
  Proofs.blank_prefix_shift_well W p x hp hj fuel h0

/-- … or the C01 contract. -/
theorem blank_prefix_shift_contract {L : LineParserI} (C : LPContract L) (p x : Bytes) (hp : blankLines p = true)
    (hj : ¬ CRLFSplit p x) (fuel : Nat) (h0 : 0 < fuel) :
    drain L fuel (memParser (p ++ x)) [] = shiftRun p.length (lineCount p) (drain L fuel (memParser x) []) :=
  Proofs.blank_prefix_shift_contract C p x hp hj fuel h0

/-- The shift touches nothing but the three numbers. -/
example (d m : Nat) (r : Root) : (shiftRoot d m r).source = r.source ∧ (shiftRoot d m r).block = r.block := ⟨rfl, rfl⟩

/-- The junction condition is needed: a prefix ending in CR in front of an input starting with LF merges into one CRLF. -/
example : CRLFSplit [CR] [LF, 97, LF] := by decide

/-- Appended bytes (blank or not) do not change any root delivered before the parse position reaches the end of the
    original input — for every line parser. -/
theorem trailing_prefix_stable (L : LineParserI) (x t : Bytes) (hx : terminated x = true) (hj : ¬ CRLFSplit x t)
    (n : Nat)
    (hin : (callN L n (memParser x)).2.i < (callN L n (memParser x)).2.buf.length)
    (hM : (callN L n (memParser x)).2.panic = none)
    (hF : ∀ m, m ≤ n → isFuelPanic (callN L m (memParser x)).1 = false) :
    ∀ m, m ≤ n → (callN L m (memParser (x ++ t))).1 = (callN L m (memParser x)).1 :=
  Proofs.trailing_prefix_stable L x t hx hj n hin hM hF

/-- "Trailing blank lines never matter" is FALSE for an arbitrary line parser (it is fed the end-of-input line at a
    different position and can tell), and for the real one: an unclosed fenced code block absorbs them. -/
theorem trailing_blank_irrelevant_false : ¬ trailing_blank_irrelevant_target := trailing_blank_irrelevant_target_false

end CM.Props.C14
