import CM.Proofs.BlocksTotal
/-
C04 — totality, block phase. `Model/Lines.lean` + `Model/Blocks.lean` model the Go line parser with every panic site
explicit (`Advance` beyond the line, `ConsumeIndent` beyond the indentation, `OpenBlock`/`EndBlock`/`CollectInline`/
`SetContainerIndent` in the wrong state or on the wrong container, `openBlock` without a possible ancestor). Proved here:
none of them is reachable, for every sequence of lines; and the fuels that stand for the Go loops in the block model are
adequate. The model is tied to the code by the `blocks` correspondence op. The inline phase, rendering, formatting and
walking are covered by their own models/theorems (C18 `walk_refines_spec`, C10 `render_eq_spec`, C20Doc
`format_pop_never_panics`) and, like stack depth and wall-clock behaviour, by the totality oracle on the implementation.
-/
namespace CM.Props.C04
open CM CM.Model CM.Proofs

/-- One line through the block parser from any state meeting the start-of-line invariant: no panic, and the
    invariant needed for the next line holds again. -/
theorem processLine_no_panic (x : PExt) (p : LP) (hinv : LPInv p) :
    (processLine x p).panic = none ∧ LPInv' (processLine x p) :=
  Proofs.processLine_no_panic x p hinv

/-- The block-phase line parser never panics: for any pending blocks it is created from and ANY sequence of
    (source, line start) pairs fed to it. -/
theorem blocksLP_never_panics (x : PExt) (bs : List PB) (lines : List (Bytes × Nat)) :
    (blocksLP x).panicked (feedLines x ((blocksLP x).new bs) lines) = none :=
  Proofs.blocksLP_never_panics x bs lines

/-- Hence `NextBlock` over the block-phase parser can only "panic" at a site of the stream machine itself
    (`makeRoot`, excluded by C01's contract) or through the model's per-line fuel. -/
theorem nextBlock_no_lp_panic (x : PExt) (p p' : BP) (m : String)
    (h : nextBlock (blocksLP x) p = (NBOut.panic m, p')) : m = "parseLines: fuel" ∨ p'.panic = some m :=
  Proofs.nextBlock_no_lp_panic x p p' m h

/-- Fuel adequacy of the loops of the block model (the Go loops have no fuel): more fuel changes nothing. -/
theorem descend_fuel_adequate (x : PExt) (p : LP) (h : LPInv p) (fuel : Nat) (hf : spineLength p.root < fuel) :
    descendOpenBlocks x p = descendLoop x fuel p 0 :=
  descendOpenBlocks_fuel_adequate x p h fuel hf

theorem opening_fuel_adequate (x : PExt) (p : LP) (h : LPInv p) (fuel : Nat) (hf : p.line.length - p.i < fuel) :
    openingLoop x (p.line.length + 8) p = openingLoop x fuel p :=
  openingLoop_fuel_adequate' x p h fuel hf

end CM.Props.C04
