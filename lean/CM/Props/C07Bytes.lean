import CM.Proofs.RenderWFBytes
import CM.Proofs.RenderWFNeg
import CM.Proofs.RenderWFPage
/-
C07, continued: (1) at BYTE level — the recogniser `Spec.htmlWellFormed` (the grammar the implementation's output is run
through on every check) accepts everything the renderer model writes, block and page; (2) with a FilterTag predicate set
(outside the property's quantifier, which says "FilterTag unset", but the setting GFM users run): what still holds, and
what provably does not. A rejected renderer tag is written `&lt;name attr="v">`, so text runs may then contain `>` and `"`
(never `<` or `'`): the weakened language `htmlWellFormedW`. Nesting needs the predicate to treat `name` and `/name` alike
(`SlashClosed`); a predicate that rejects none of the renderer's own element names (`RejectsNoOwn`, e.g. FilterTagGFM) keeps
the full language.
-/
namespace CM.Props.C07
open CM CM.Model CM.Spec CM.Proofs CM.Proofs.RenderWF

/-- FilterTag unset, raw HTML ignored or absent, parser-shaped references: the bytes are in the language of the grammar. -/
theorem render_htmlWellFormed (cx : RCtx) (hf : cx.filter = none) (root : Tree)
    (hpre : safePre cx.src root = true) (hraw : cx.ignoreRaw = true ∨ noRaw root = true) :
    htmlWellFormed (appendBlock cx [] root) = true :=
  RenderWF.render_htmlWellFormed cx hf root hpre hraw

/-- The whole page (`Render`: blocks joined by blank lines). -/
theorem renderAll_htmlWellFormed (mk : Bytes → RCtx) (blocks : List (Bytes × Tree)) (h : PageHyp mk none blocks) :
    htmlWellFormed (renderAll mk blocks 0) = true :=
  RenderWF.renderAll_htmlWellFormed mk blocks h

/-- With FilterTagGFM set the same holds: it rejects none of the names the renderer writes (kernel-checked over the
    names regenerated from the source). -/
theorem render_htmlWellFormed_gfm (cx : RCtx) (hf : cx.filter = some filterTagGFM) (root : Tree)
    (hpre : safePre cx.src root = true) (hraw : cx.ignoreRaw = true ∨ noRaw root = true) :
    htmlWellFormed (appendBlock cx [] root) = true :=
  RenderWF.render_htmlWellFormed_gfm cx hf root hpre hraw

/-- Any configuration: unfiltered → the language; filtered → the weakened language if the predicate is slash-closed, the
    full language if it rejects none of the renderer's names. -/
theorem render_accepted (cx : RCtx) (root : Tree)
    (hpre : safePre cx.src root = true) (hraw : cx.ignoreRaw = true ∨ noRaw root = true) :
    AcceptUnder cx.filter (appendBlock cx [] root) :=
  RenderWF.render_accepted cx root hpre hraw

theorem renderAll_accepted (mk : Bytes → RCtx) (flt : Option (Bytes → Bool)) (blocks : List (Bytes × Tree))
    (h : PageHyp mk flt blocks) : AcceptUnder flt (renderAll mk blocks 0) :=
  RenderWF.renderAll_accepted mk flt blocks h

/-- The full conclusion is FALSE under an arbitrary slash-closed predicate (a rejected `<p>` leaves `>` in text) … -/
theorem filtered_full_language_false : ¬ render_wellformed_filtered_target := render_wellformed_filtered_target_false

/-- … and nesting is FALSE without slash-closedness (`em` rejected, `/em` kept: a stray end tag). -/
theorem filtered_nesting_false : ¬ render_wellformed_filtered_nesting_target :=
  render_wellformed_filtered_nesting_target_false

end CM.Props.C07
