import CM.Proofs.CodeVerbatim
/-
C06 — "code block contents come out verbatim": the block-phase piece of the canonical-documents property, as parser
correctness theorems about the model of the real block parser + stream machine (tied to the code by the `blocks`
correspondence op). For EVERY list of content lines (any bytes except LF/CR/NUL, of any length and number), every fence
character and length ≥ 3, every admissible info string: parsing the canonical fenced block delivers exactly one root — a
FencedCode block spanning the document, with the info string node iff the info string is non-empty, then exactly one Text
leaf per content line whose source slice is that line with its line ending — and end of input, no panic; the
concatenated leaf text is the content. The hypothesis "no content line closes the fence" is necessary and sufficient
(`lineClosing_eq_closesFence`). Likewise for indented code blocks. The rest of C06 (the full HTML denotation of arbitrary
canonical documents) needs the inline-phase model and is decided by the `Spec.Doc` oracle on the implementation.
-/
namespace CM.Props.C06
open CM CM.Model CM.Proofs

/-- Fenced code blocks: contents verbatim, one Text leaf per line. -/
theorem fenced_code_verbatim (x : PExt) (c : UInt8) (n : Nat) (info : Bytes) (ls : List Bytes) (fuel : Nat)
    (hc : isFenceChar c = true) (hn : 3 ≤ n) (hi : infoOK c info = true)
    (hls : ∀ l ∈ ls, plainLine l = true ∧ closesFence c n l = false) (hfuel : 2 ≤ fuel) :
    ∃ (blk : PB) (p' : BP),
      drain (blocksLP x) fuel (memParser (fencedDoc c n info ls)) [] =
        ([{ source := fencedDoc c n info ls, startLine := 1, startOffset := 0,
            endOffset := (fencedDoc c n info ls).length, block := blk }], .err .eof, p') ∧
      p'.panic = none ∧
      pbToTree blk = fencedTree x c n info ls ∧
      Node.infoString (fencedTree x c n info ls) =
        (if info = [] then none else some (infoNode x (fenceLine c n info) n info.length)) ∧
      (info ≠ [] → Node.slice (fencedDoc c n info ls) (infoNode x (fenceLine c n info) n info.length) = info) ∧
      (∀ t ∈ textNodes (n + info.length + 1) ls, Node.isI t IK.text = true ∧ t.children = []) ∧
      (textNodes (n + info.length + 1) ls).map (Node.slice (fencedDoc c n info ls)) = ls.map (· ++ [LF]) ∧
      (textNodes (n + info.length + 1) ls).flatMap (Node.text x.ext (fencedDoc c n info ls)) = (ls.map (· ++ [LF])).flatten :=
  Proofs.fenced_code_verbatim x c n info ls fuel hc hn hi hls hfuel

/-- Indented code blocks: contents verbatim (four columns of indentation removed; blank interior lines keep what lies
    beyond them), one Text leaf per line. -/
theorem indented_code_verbatim (x : PExt) (ls : List Bytes) (first last : Bytes) (fuel : Nat)
    (hok : ∀ l ∈ ls, plainLine l = true)
    (hfirst : ls.head? = some first) (hfnb : isBlankLine first = false)
    (hlast : ls.getLast? = some last) (hlnb : isBlankLine last = false) (hfuel : 2 ≤ fuel) :
    ∃ (blk : PB) (p' : BP),
      drain (blocksLP x) fuel (memParser (indentedDoc ls)) [] =
        ([{ source := indentedDoc ls, startLine := 1, startOffset := 0, endOffset := (indentedDoc ls).length, block := blk }],
         .err .eof, p') ∧
      p'.panic = none ∧
      pbToTree blk = indentedTree ls ∧
      (∀ t ∈ icTextNodes 0 (ls.map icItem), Node.isI t IK.text = true ∧ t.children = []) ∧
      (icTextNodes 0 (ls.map icItem)).map (Node.slice (indentedDoc ls)) = ls.map indentedText ∧
      (icTextNodes 0 (ls.map icItem)).flatMap (Node.text x.ext (indentedDoc ls)) = (ls.map indentedText).flatten :=
  Proofs.indented_code_verbatim x ls first last fuel hok hfirst hfnb hlast hlnb hfuel

end CM.Props.C06
