import CM.Proofs.InlSpanRewrite
import CM.Proofs.InlSpanScan
import CM.Proofs.InlSpanExamples
import CM.Proofs.InlNpRewrite
import CM.Proofs.InlNpExamples
/-
C02 (inline half) and C04 (inline half): the span discipline and the absence of Go panics in `Rewrite`, as theorems about the
inline-phase model (42 proof files `InlSpan*`, `InlNp*`: a relational arena invariant - the root's children form an ordered,
disjoint chain below the tokenizer position, delimiter-stack nodes are trailing text nodes, `wrap` takes a suffix - carried through
`processEmphasis`, `finishLink`, `parseEndBracket`, the tokenizer and the export; and a second, no-panic reading of the same
triples in which every index, slice and stack read of the model carries its bound as a precondition).

Both are proved for EVERY tree whose unparsed runs are ordered, disjoint and inside their container (`WFT`), modulo explicit
hypotheses about the four byte scanners that are pure functions of the source (`TokScan.html`, `TokScan.code`, `LinkScan`, `TokNP`:
their result spans start where the scan started and end inside the container, their text pieces are ordered) - and these are
NEEDED: `witness_link_beyond_container`, `witness_codespan_across_runs`, `witness_codespan_gap_panics` are kernel-checked inputs
(runs not ending in a line ending) on which the model - like the code - produces a link ending outside its container, overlapping
siblings, and a slice panic. The character-escape and autolink scanners are discharged (`TokScan.mk'`). Block-phase trees end every
non-last run with its line ending; deriving the scanner hypotheses from that is the remaining step, so on parser output these
clauses are additionally evaluated by `Spec.spansOK` and the totality oracle.

CORRECTION (sixth wave, `Props/C02Scan.lean`): `ContsOK` as stated here is FALSE on parser output: for a paragraph holding one code span and for
a two-paragraph block quote (kernel-checked witnesses there; the argument is general), so the theorems below apply to fewer trees than intended. They are
kept; `rewrite_spans2` / `rewrite_noPanic2` re-prove the same conclusions under the repaired hypotheses `ContsOK2`, which ARE derived
for the containers of block-phase trees.
-/
namespace CM.Props.C02
open CM CM.Model CM.Model.Inl CM.Spec CM.Proofs CM.Proofs.InlH

/-- C02, inline half: after Rewrite every node's span is valid, children lie inside their parent, siblings are ordered. -/
theorem rewrite_spans (x : IExt) (src : Bytes) (srcA : Array UInt8) (matchRef : Bytes → Bool) (t t' : Tree)
    (n : Nat) (hw : WFT t) (h0 : 0 ≤ t.label.start) (hn : t.label.stop ≤ n) (hc : ContsOK x src srcA matchRef t)
    (h : rewriteE x src srcA matchRef t = .ok t') :
    ∀ u ∈ T.nodes t', spanValid n u = true ∧ Spec.childrenInside u = true ∧ siblingsOrdered u.children = true :=
  rewriteE_spansOK_nodes x src srcA matchRef t t' n hw h0 hn hc h

/-- C04, inline half: Rewrite never takes a Go panic site (it may only exhaust the model's loop fuel). -/
theorem rewrite_noPanic (x : IExt) (src : Bytes) (srcA : Array UInt8) (matchRef : Bytes → Bool) (t : Tree)
    (hw : WFT t) (hs : t.label.stop ≤ srcA.size) (hc : ContsOK x src srcA matchRef t) (hn : ContsNP x src srcA matchRef t) :
    ∀ msg, rewriteE x src srcA matchRef t ≠ .error (.panic msg) :=
  rewriteE_noPanic x src srcA matchRef t hw hs hc hn

/-- The scanner hypotheses cannot be dropped: ordered, disjoint runs inside the container are not enough. -/
theorem spans_need_scanner_facts : ¬ Examples.parseInlines_spans_target := Examples.parseInlines_spans_target_false
theorem noPanic_needs_scanner_facts : ¬ Examples.parseInlines_noPanic_target := Examples.parseInlines_noPanic_target_false

end CM.Props.C02
