import CM.Proofs.HtmlWF2
import CM.Props.C10
/-
C07 — without raw HTML, the output is well-formed, fixed-vocabulary, fully escaped HTML.
`Spec.toksNode` is the documented mapping node kind → HTML tokens; `Spec.flat` writes tokens as bytes.
`tokOK`: element names ∈ the renderer's element set and attribute names ∈ its attribute set (both
regenerated from the Go source), every text run and attribute value free of `< > " '` with `&` only as the
start of one of the renderer's own escapes, copied character references of the form `&[#A-Za-z0-9]+;`,
no raw HTML. `wellNested`: start and end tags properly nested (void: hr, img).
-/
namespace CM.Props.C07
open CM CM.Model CM.Spec CM.Proofs

/-- AppendBlock writes exactly the flattened tokens of the documented mapping (every tree, every configuration). -/
theorem render_eq_tokens (cx : RCtx) (dst : Bytes) (root : Tree) :
    appendBlock cx dst root = dst ++ flat cx (toksNode cx none root) := by
  rw [C10.render_eq_spec, renderSpec, renderNode_eq_flat]

/-- With no tag filter set, tokens are written as plain tags. -/
theorem flat_plain (cx : RCtx) (hf : cx.filter = none) (n : Bytes) (attrs : List (Bytes × Bytes)) :
    flatTok cx (.stag n attrs) = [0x3C] ++ n ++ attrs.flatMap flatAttr ++ [0x3E] ∧
    flatTok cx (.etag n) = [0x3C, 0x2F] ++ n ++ [0x3E] := by
  have h1 : str "</" = [0x3C, 0x2F] := by decide +kernel
  simp [flatTok, openTagAttr, closeTag, hf, h1]

/-- C07: FilterTag unset; raw HTML ignored or absent; copied references are references (parser output).
    Then the output is the flattening of a token sequence that is in the fixed vocabulary, fully escaped,
    and properly nested. Holds for every tree, source, SoftBreakBehavior, reference map, entity decoder. -/
theorem render_wellformed (cx : RCtx) (hf : cx.filter = none) (root : Tree)
    (hpre : safePre cx.src root = true) (hraw : cx.ignoreRaw = true ∨ noRaw root = true) (dst : Bytes) :
    ∃ ts, appendBlock cx dst root = dst ++ flat cx ts ∧ ts.all tokOK = true ∧ wellNested ts = true := by
  refine ⟨toksNode cx none root, render_eq_tokens cx dst root, ?_⟩
  have h := toksNode_good cx hf none root ⟨hpre, hraw⟩
  exact ⟨h.1, by have := h.2; unfold WN at this; simp [wellNested, this]⟩

/-- The text-escaping function, as regenerated from the Go source, is safe for every byte string. -/
theorem escapeHTML_safe (s : Bytes) : safeData (escapeHTML s) = true := safeData_escapeHTML s

/-- Attribute escaping (`html.EscapeString`) is safe for every byte string. -/
theorem escapeString_safe (s : Bytes) : safeData (escapeString s) = true := safeData_escapeString s

-- Non-vacuity: an image whose description tries to inject an attribute (the F02 input) satisfies the
-- hypotheses, and its tokens are good.
private def src : Bytes := str "![\" onerror=\"alert(1)](x)"
private def img : Tree :=
  .node { kind := BK.paragraph, start := 0, stop := 25 }
    [.node { isBlock := false, kind := IK.image, start := 0, stop := 25 }
      [.node { isBlock := false, kind := IK.text, start := 2, stop := 21 } [],
       .node { isBlock := false, kind := IK.linkDest, start := 23, stop := 24 }
         [.node { isBlock := false, kind := IK.text, start := 23, stop := 24 } []]]]
private def cx0 : RCtx := { ext := { unescape := id }, src := src }

example : safePre cx0.src img = true ∧ noRaw img = true := by decide +kernel
example : (flat cx0 (toksNode cx0 none img)
    == str "<p><img src=\"x\" alt=\"&#34; onerror=&#34;alert(1)\"></p>") = true := by decide +kernel

end CM.Props.C07
