import CM.Basic.Forall
import CM.Gen.Preds
import CM.Spec.Classes
/-
C15 — line recognizers and byte classifiers match the spec's definitions.
This file holds property theorems only. The classifier theorems are about the
*generated* definitions in `CM.Gen.Preds` (regenerated from /repo on every run),
for all 256 byte values.
-/
namespace CM.Props.C15

theorem isSpaceTabOrLineEnding_eq_spec : ∀ c, Gen.isSpaceTabOrLineEnding c = Spec.isSpaceTabOrLineEnding c := by
  apply forall_uint8; decide +kernel

theorem isASCIILetter_eq_spec : ∀ c, Gen.isASCIILetter c = Spec.isASCIILetter c := by
  apply forall_uint8; decide +kernel

theorem isASCIIDigit_eq_spec : ∀ c, Gen.isASCIIDigit c = Spec.isASCIIDigit c := by
  apply forall_uint8; decide +kernel

theorem isASCIIPunctuation_eq_spec : ∀ c, Gen.isASCIIPunctuation c = Spec.isASCIIPunctuation c := by
  apply forall_uint8; decide +kernel

theorem isASCIIControl_eq_spec : ∀ c, Gen.isASCIIControl c = Spec.isASCIIControl c := by
  apply forall_uint8; decide +kernel

theorem isHex_eq_spec : ∀ c, Gen.isHex c = Spec.isHex c := by
  apply forall_uint8; decide +kernel

theorem toLowerASCII_eq_spec : ∀ c, Gen.toLowerASCII c = Spec.toLowerASCII c := by
  apply forall_uint8; decide +kernel

theorem isUnquotedAttributeValueChar_eq_spec :
    ∀ c, Gen.isUnquotedAttributeValueChar c = Spec.isUnquotedAttributeValueChar c := by
  apply forall_uint8; decide +kernel

theorem urlHexDigit_eq_spec : ∀ c, Gen.urlHexDigit c = Spec.urlHexDigit c := by
  apply forall_uint8; decide +kernel

/-- All byte classifiers agree with the spec for all 256 bytes. -/
theorem classifiers_eq_spec :
    (∀ c, Gen.isSpaceTabOrLineEnding c = Spec.isSpaceTabOrLineEnding c) ∧
    (∀ c, Gen.isASCIILetter c = Spec.isASCIILetter c) ∧
    (∀ c, Gen.isASCIIDigit c = Spec.isASCIIDigit c) ∧
    (∀ c, Gen.isASCIIPunctuation c = Spec.isASCIIPunctuation c) ∧
    (∀ c, Gen.isASCIIControl c = Spec.isASCIIControl c) ∧
    (∀ c, Gen.isHex c = Spec.isHex c) ∧
    (∀ c, Gen.toLowerASCII c = Spec.toLowerASCII c) ∧
    (∀ c, Gen.isUnquotedAttributeValueChar c = Spec.isUnquotedAttributeValueChar c) ∧
    (∀ c, Gen.urlHexDigit c = Spec.urlHexDigit c) :=
  ⟨isSpaceTabOrLineEnding_eq_spec, isASCIILetter_eq_spec, isASCIIDigit_eq_spec, isASCIIPunctuation_eq_spec,
   isASCIIControl_eq_spec, isHex_eq_spec, toLowerASCII_eq_spec, isUnquotedAttributeValueChar_eq_spec,
   urlHexDigit_eq_spec⟩

end CM.Props.C15
