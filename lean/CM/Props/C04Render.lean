import CM.Proofs.RenderTotal
import CM.Proofs.RenderTotalSound
/-
C04 — totality of the renderer. `Model.RenderP.appendBlockP` is `Model.appendBlock` (the model of AppendBlock that the
`render` correspondence op ties to the code byte for byte) with every slice and index expression of html_renderer.go made
PARTIAL: `source[span.Start:span.End]` fails outside `0 ≤ start ≤ end ≤ len(source)`, the autolink's `children[0]` fails
on an empty child list (the header of Proofs/RenderTotalDef.lean lists every site). Proved: on every tree meeting
`Spec.renderPre` (checked on every parser tree by the C02/C05 monitors; its span part is C02) it never fails and equals the
total model; and for EVERY tree it either fails or equals the total model — so the total model never invents output.
-/
namespace CM.Props.C04
open CM CM.Model CM.Model.RenderP CM.Spec CM.Proofs CM.Proofs.RenderTotal

/-- AppendBlock cannot panic on a tree whose spans lie inside the source and whose autolinks have their text child. -/
theorem render_total (cx : RCtx) (root : Tree) (dst : Bytes) (h : renderPre cx.src root = true) :
    appendBlockP cx dst root = .ok (appendBlock cx dst root) :=
  RenderTotal.render_total cx root dst h

/-- Render (all blocks). -/
theorem renderAll_total (mk : Bytes → RCtx) (blocks : List (Bytes × Tree))
    (h : ∀ b ∈ blocks, renderPre (mk b.1).src b.2 = true) (i : Nat) :
    renderAllP mk blocks i = .ok (renderAll mk blocks i) :=
  RenderTotal.renderAll_total mk blocks h i

/-- For every tree whatsoever: a panic, or exactly the bytes of the total model. -/
theorem render_panic_or_eq (cx : RCtx) (root : Tree) (dst : Bytes) :
    (∃ m, appendBlockP cx dst root = .error m) ∨ appendBlockP cx dst root = .ok (appendBlock cx dst root) :=
  RenderTotal.render_panic_or_eq cx root dst

end CM.Props.C04
