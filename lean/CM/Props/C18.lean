import CM.Proofs.WalkCursor
/-
C18 — Walk visits every node once, in order, honouring pruning and abort.
Property theorems only (helper lemmas live in CM/Proofs/Walk*.lean).
`Model.walk` is the explicit-stack loop of walk.go; `Spec.walkSpec` is the structural recursion
"Pre; if it returned true: children in order, then Post; stop everything when Post returns false".
All statements hold for every tree, every state type and every pair of (possibly absent) callbacks.
-/
namespace CM.Props.C18
open CM CM.Model CM.Spec CM.Proofs

/-- The loop of walk.go computes exactly the recursive specification: pre-order Pre, descent exactly
    when Pre returned true, Post after the children, immediate stop when Post returns false. -/
theorem walk_refines_spec {σ : Type} (root : Tree) (opts : WalkOpts σ) (s : σ) :
    walk root opts s = walkSpec root opts s := by
  simp only [walk, walkSpec, walkLoop_eq_specStack, specStack_cons, Bool.false_eq_true, if_false, walkCursor]
  rcases walkNode opts root none none (-1) s with ⟨ok, s1⟩
  cases ok <;> simp [andThen, specStack]

/-- Cursor invariant: callbacks are only ever invoked at cursors satisfying `Reach root`, i.e. the root
    cursor (no parent, index −1) or a cursor with `Parent.Child(Index) = Node` whose `ParentBlock` is the
    nearest enclosing block. Stated semantically: what the callbacks would do on any other cursor is
    irrelevant to the result. -/
theorem cursor_inv {σ : Type} (root : Tree) (o o' : WalkOpts σ) (h : AgreeOn (Reach root) o o') (s : σ) :
    walk root o s = walk root o' s := by
  rw [walk_refines_spec, walk_refines_spec]
  simp only [walkSpec]
  rw [walkNode_congr root o o' h root none none (-1) s Reach.root]

/-- Without pruning or abort, Pre is called on every node exactly once, in document order … -/
theorem each_node_once_pre (root : Tree) :
    walk root preLogger [] = cursorsNode root none none (-1) ∧ (walk root preLogger []).length = root.size := by
  rw [walk_refines_spec]
  simp [walkSpec, preLogger_node, cursorsNode_length]

/-- … and Post on every node exactly once, after its children. -/
theorem each_node_once_post (root : Tree) :
    walk root postLogger [] = cursorsNodePost root none none (-1) := by
  rw [walk_refines_spec]
  simp [walkSpec, postLogger_node]

/-- Pruning: when Pre returns false on the root nothing else is called. -/
theorem prune_root {σ : Type} (root : Tree) (pre : Cursor → σ → Bool × σ) (post : Option (Cursor → σ → Bool × σ)) (s : σ)
    (h : (pre { node := root } s).1 = false) :
    walk root { pre := some pre, post := post } s = (pre { node := root } s).2 := by
  rw [walk_refines_spec]
  cases root with
  | node l cs =>
    simp only [walkSpec, walkNode, callPre]
    rcases hp : pre { node := .node l cs } s with ⟨ok, s1⟩
    rw [hp] at h
    simp only at h
    subst h
    rfl

-- Non-vacuity: a concrete tree, a pruning and an aborting policy, evaluated.
private def leaf (k : Nat) : Tree := .node { isBlock := false, kind := k } []
private def sample : Tree := .node { kind := 9 } [.node { kind := 1 } [leaf 1, leaf 7], .node { kind := 1 } [leaf 2]]

example : (walk sample preLogger []).map (·.node.label.kind) = [9, 1, 1, 7, 1, 2] := by rw [walk_refines_spec]; decide
example : (walk sample postLogger []).map (·.node.label.kind) = [1, 7, 1, 2, 1, 9] := by rw [walk_refines_spec]; decide
example :
    walk sample { pre := some fun c l => (c.index != 0 || c.node.label.isBlock == false, l ++ [c.node.label.kind]),
                  post := some fun c l => (c.node.label.kind != 2, l ++ [100 + c.node.label.kind]) } []
      = [9, 1, 1, 2, 102] := by rw [walk_refines_spec]; decide

end CM.Props.C18
