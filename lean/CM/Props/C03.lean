import CM.Proofs.CoverageGeneric
import CM.Proofs.CoverageStream
import CM.Proofs.RefDefCoverMain
/-
C03 — no source text is lost or duplicated by the tree.

"Not duplicated" is a consequence of the span discipline of C02 for EVERY tree (`no_duplication`): if every node's span is
valid, children lie inside their parents, siblings are ordered, and list markers have no children (part of the node grammar,
C05), then no position is covered by two leaves. Without the last clause the statement is false (`no_duplication_target_false`:
a list marker with a text child makes both leaves).

"Nothing lost", block phase: `drain_coverage` — for every NUL-free input, every root block delivered by the model of the
block phase (where unparsed text runs are leaves) satisfies the executable statement `Spec.coverage` in full: every position
covered at most once, and every letter, digit and non-ASCII byte covered exactly once. Proved as an invariant of
`processLine` (17 proof files `Coverage*`: container prefixes, fence and heading syntax, thematic breaks and setext
underlines contain no such byte; the rest of every line goes into exactly one leaf). One decidable hypothesis: `RefDefCoverOK`
- the blocks `onCloseParagraph` splits a paragraph into cover what the paragraph's text runs covered - evaluated by the Lean
driver on every generated input (`coverhyp` op). The inline phase (Rewrite re-tiles each unparsed run) is monitored by
`Spec.coverage` on the implementation's final trees.
-/
namespace CM.Props.C03
open CM CM.Model CM.Spec CM.Spec.T CM.Proofs CM.Proofs.Cov

/-- No byte is covered by more than one leaf — for every tree meeting the span discipline. -/
theorem no_duplication (n : Nat) (root : Tree)
    (h : (nodes root).all (fun t => spanValid n t && childrenInside t && siblingsOrdered t.children) = true)
    (hm : (nodes root).all markerChildless = true) :
    ∀ j : Nat, coverCount (leaves root) j ≤ 1 :=
  Cov.no_duplication n root h hm

/-- In terms of the executable statements of C02 and C05: `spansOK` and `grammar` imply no duplication. -/
theorem no_duplication_of_spansOK_grammar (src : Bytes) (root : Tree) (h : spansOK src root = true)
    (hg : grammar src root = true) : ∀ j : Nat, coverCount (leaves root) j ≤ 1 :=
  Cov.no_duplication_of_spansOK_grammar src root h hg

/-- The clause about list markers is needed. -/
theorem no_duplication_needs_marker_clause : ¬ no_duplication_target := no_duplication_target_false

/-- **Block phase, nothing lost and nothing duplicated**: `Spec.coverage` holds for every root block of every NUL-free input,
    whenever the `RefDefCoverOK` check holds along the run. -/
theorem drain_coverage (x : PExt) (inp : Bytes) (fuel : Nat) (hz : ∀ c ∈ inp, c ≠ 0)
    (h : isCoverFail (drain (blocksLPk x) fuel (memParser inp) []).2.1 = false) :
    ∀ r ∈ (drain (blocksLP x) fuel (memParser inp) []).1, coverage r.source (pbToTree r.block) = true :=
  Cov.drain_coverage x inp fuel hz h

/-- With NUL bytes: the same about the padded buffer slice each Source was made from (a NUL counts as a byte to cover). -/
theorem drain_cover (x : PExt) (inp : Bytes) (fuel : Nat)
    (h : isCoverFail (drain (blocksLPk x) fuel (memParser inp) []).2.1 = false) :
    ∀ r ∈ (drain (blocksLP x) fuel (memParser inp) []).1, RootK (padNulls inp 0) r :=
  Cov.drain_cover x inp fuel h

/-! ### Unconditional (session 4, second wave: 23 proof files `RefDefCover*`) -/

/-- The `RefDefCoverOK` check never fails: what `onCloseParagraph` splits a paragraph into covers every letter, digit and
    non-ASCII byte its text runs covered (reader-level proof: the pieces between label, destination and title are
    punctuation, white space or container prefixes; `collectTextNodes` re-tiles the inner text). -/
theorem refDefCoverOK (x : PExt) (inp : Bytes) (fuel : Nat) :
    isCoverFail (drain (blocksLPk x) fuel (memParser inp) []).2.1 = false :=
  RDC.refDefCoverOK x inp fuel

/-- **Block phase of C03 with no hypothesis** but NUL-freeness: `Spec.coverage` holds for every root block of every input. -/
theorem drain_coverage_uncond (x : PExt) (inp : Bytes) (fuel : Nat) (hz : ∀ c ∈ inp, c ≠ 0) :
    ∀ r ∈ (drain (blocksLP x) fuel (memParser inp) []).1, coverage r.source (pbToTree r.block) = true :=
  RDC.drain_coverage_uncond x inp fuel hz

/-- Every input (NUL bytes counted as bytes to cover, on the padded buffer). -/
theorem drain_cover_uncond (x : PExt) (inp : Bytes) (fuel : Nat) :
    ∀ r ∈ (drain (blocksLP x) fuel (memParser inp) []).1, RootK (padNulls inp 0) r :=
  RDC.drain_cover_uncond x inp fuel

end CM.Props.C03
