import CM.Proofs.LeafBlocks
import CM.Proofs.LeafBlocksATXIff
/-
C06, continued — parser-correctness theorems for the other LEAF blocks of the canonical serialisation (10 proof files
`LeafBlocks*`, built on the machinery of the code-block theorems): for EVERY content meeting an explicit decidable side condition,
draining the model of the real block parser on the canonical spelling delivers exactly one root of the expected kind and
attributes spanning the document, with exactly the expected text runs (whose source slices are the content), then end of input,
no panic. The side conditions are the model's own "does this line start another block" tests, so they are exact for paragraphs;
for ATX headings the condition is proved necessary and sufficient (`atx_content_condition_exact`).
-/
namespace CM.Props.C06
open CM CM.Model CM.Proofs CM.Proofs.Leaf

/-- ATX heading `#`×n SP content (SP `#`×k)? LF. -/
theorem atx_heading_leaf (x : PExt) (n : Nat) (c : Bytes) (k : Nat) (fuel : Nat) (hn1 : 1 ≤ n) (hn6 : n ≤ 6)
    (hc : atxContentOK c k = true) (hfuel : 2 ≤ fuel) :
    ∃ (blk : PB) (p' : BP),
      drain (blocksLP x) fuel (memParser (atxLine n c k)) [] =
        ([{ source := atxLine n c k, startLine := 1, startOffset := 0, endOffset := (atxLine n c k).length, block := blk }],
         .err .eof, p') ∧
      p'.panic = none ∧
      pbToTree blk = leafTree BK.atxHeading n ((atxLine n c k).length : Nat)
        [mkInline IK.unparsed ((n + 1 : Nat) : Int) ((n + 1 + c.length : Nat) : Int)] ∧
      Node.slice (atxLine n c k) (mkInline IK.unparsed ((n + 1 : Nat) : Int) ((n + 1 + c.length : Nat) : Int)) = c :=
  Leaf.atx_heading_leaf x n c k fuel hn1 hn6 hc hfuel

/-- The side condition on the content is exact: the recognizer returns level n and exactly the content iff it holds. -/
theorem atx_content_condition_exact (n : Nat) (c : Bytes) (k : Nat) (hn1 : 1 ≤ n) (hn6 : n ≤ 6) (hb : atxBaseOK c = true) :
    parseATXHeading (atxLine n c k) = ⟨n, n + 1, n + 1 + c.length⟩ ↔ atxTailOK c k = true :=
  Leaf.parseATXHeading_atxLine_iff n c k hn1 hn6 hb

/-- Thematic break: a line of ≥ 3 equal marks `*`, `-` or `_` with interior spaces or tabs. -/
theorem thematic_break_leaf (x : PExt) (c : UInt8) (n : Nat) (l : Bytes) (fuel : Nat) (h : hrOK c n l = true) (hfuel : 2 ≤ fuel) :
    ∃ (blk : PB) (p' : BP),
      drain (blocksLP x) fuel (memParser (l ++ [LF])) [] =
        ([{ source := l ++ [LF], startLine := 1, startOffset := 0, endOffset := (l ++ [LF]).length, block := blk }],
         .err .eof, p') ∧
      p'.panic = none ∧
      pbToTree blk = leafTree BK.thematicBreak 0 ((l ++ [LF]).length : Nat) [] :=
  Leaf.thematic_break_leaf x c n l fuel h hfuel

/-- Paragraph of any number of lines none of which starts another block: one Unparsed run per line, no definition split off. -/
theorem paragraph_leaf (x : PExt) (l0 : Bytes) (ls : List Bytes) (fuel : Nat)
    (h0 : paraFirstOK l0 = true) (hb : l0.head? ≠ some 0x5B)
    (hls : ∀ l ∈ ls, plainLine l = true ∧ paraContOK l = true) (hfuel : 2 ≤ fuel) :
    ∃ (blk : PB) (p' : BP),
      drain (blocksLP x) fuel (memParser (leafDoc l0 ls [])) [] =
        ([{ source := leafDoc l0 ls [], startLine := 1, startOffset := 0, endOffset := (leafDoc l0 ls []).length, block := blk }],
         .err .eof, p') ∧
      p'.panic = none ∧
      pbToTree blk = leafTree BK.paragraph 0 ((leafDoc l0 ls []).length : Nat) (runNodes IK.unparsed 0 (l0 :: ls)) ∧
      (∀ t ∈ runNodes IK.unparsed 0 (l0 :: ls), Node.isI t IK.unparsed = true ∧ t.children = []) ∧
      (runNodes IK.unparsed 0 (l0 :: ls)).map (Node.slice (leafDoc l0 ls [])) = (l0 :: ls).map (· ++ [LF]) :=
  Leaf.paragraph_leaf x l0 ls fuel h0 hb hls hfuel

/-- Setext heading: the same lines followed by an underline of m ≥ 1 `=` (level 1) or `-` (level 2). -/
theorem setext_heading_leaf (x : PExt) (l0 : Bytes) (ls : List Bytes) (c : UInt8) (m : Nat) (fuel : Nat)
    (h0 : paraFirstOK l0 = true) (hb : l0.head? ≠ some 0x5B)
    (hls : ∀ l ∈ ls, plainLine l = true ∧ paraContOK l = true)
    (hu : isUnderlineChar c = true) (hm : 1 ≤ m) (hfuel : 2 ≤ fuel) :
    ∃ (blk : PB) (p' : BP),
      drain (blocksLP x) fuel (memParser (leafDoc l0 ls (List.replicate m c ++ [LF]))) [] =
        ([{ source := leafDoc l0 ls (List.replicate m c ++ [LF]), startLine := 1, startOffset := 0,
            endOffset := (leafDoc l0 ls (List.replicate m c ++ [LF])).length, block := blk }],
         .err .eof, p') ∧
      p'.panic = none ∧
      pbToTree blk = leafTree BK.setextHeading (setextLevel c) ((leafDoc l0 ls (List.replicate m c ++ [LF])).length : Nat)
        (runNodes IK.unparsed 0 (l0 :: ls)) ∧
      (∀ t ∈ runNodes IK.unparsed 0 (l0 :: ls), Node.isI t IK.unparsed = true ∧ t.children = []) ∧
      (runNodes IK.unparsed 0 (l0 :: ls)).map (Node.slice (leafDoc l0 ls (List.replicate m c ++ [LF]))) = (l0 :: ls).map (· ++ [LF]) :=
  Leaf.setext_heading_leaf x l0 ls c m fuel h0 hb hls hu hm hfuel

/-- HTML block (start condition i0 + 1 of CommonMark, unindented first line) ended by the end of input: one RawHTML run per line. -/
theorem html_block_leaf (x : PExt) (i0 : Nat) (l0 : Bytes) (ls : List Bytes) (fuel : Nat)
    (h0 : htmlFirstOK i0 l0 = true) (hls : ∀ l ∈ ls, plainLine l = true ∧ htmlContOK i0 l = true) (hfuel : 2 ≤ fuel) :
    ∃ (blk : PB) (p' : BP),
      drain (blocksLP x) fuel (memParser (leafDoc l0 ls [])) [] =
        ([{ source := leafDoc l0 ls [], startLine := 1, startOffset := 0, endOffset := (leafDoc l0 ls []).length, block := blk }],
         .err .eof, p') ∧
      p'.panic = none ∧
      pbToTree blk = leafTree BK.htmlBlock i0 ((leafDoc l0 ls []).length : Nat) (runNodes IK.rawHTML 0 (l0 :: ls)) ∧
      (∀ t ∈ runNodes IK.rawHTML 0 (l0 :: ls), Node.isI t IK.rawHTML = true ∧ t.children = []) ∧
      (runNodes IK.rawHTML 0 (l0 :: ls)).map (Node.slice (leafDoc l0 ls [])) = (l0 :: ls).map (· ++ [LF]) :=
  Leaf.html_block_leaf x i0 l0 ls fuel h0 hls hfuel

end CM.Props.C06
