import CM.Proofs.InlUnparsed
import CM.Proofs.InlNoMarker
import CM.Proofs.InlRefs
import CM.Proofs.InlShapes
/-
Inline phase: the first theorems about `Model/Inlines.lean` (the model of `(*InlineParser).Rewrite`, 860 lines of state-monad code
over an arena of nodes; tied to the code by the `inline` and `parse` ops). Proved with a Hoare-style layer over the model's monad
(`Proofs/InlHoare.lean`, on `Std.Do`/`mvcgen`) and ONE generic theorem `parseBody_spec`: every predicate `φ` on arena nodes that
holds at each of the 17 allocation sites and is kept by the 3 kinds of node modification is an invariant of the whole parser. The
four instances below are parts of C05, C12 and C07/C13/C17. Each speaks about `rewriteE` on ANY tree meeting explicit conditions
on the nodes that Rewrite takes over unchanged; that block-phase trees meet them is the connection proved separately (Props/ParseWhole).
-/
namespace CM.Props.C05
open CM CM.Model CM.Model.Inl CM.Spec CM.Proofs CM.Proofs.InlH

/-- C05 "no Unparsed node is left": if Unparsed nodes occur only as direct inline children of blocks, the rewritten tree has none. -/
theorem rewrite_no_unparsed (x : IExt) (src : Bytes) (srcA : Array UInt8) (matchRef : Bytes → Bool) (t t' : Tree)
    (hroot : T.isI t IK.unparsed = false)
    (hflat : ∀ u ∈ T.nodes t, u.label.isBlock = false → ∀ v ∈ T.nodesL u.children, T.isI v IK.unparsed = false)
    (h : rewriteE x src srcA matchRef t = .ok t') :
    ∀ u ∈ T.nodes t', T.isI u IK.unparsed = false :=
  rewriteE_no_unparsed x src srcA matchRef t t' hroot hflat h

/-- Every inline node of the rewritten tree has one of the documented inline kinds (1..17): in particular the arena is a
    forest and the export never meets a dangling or cyclic child index (the model's marker kinds 996/997 cannot occur). -/
theorem rewrite_inline_kinds (x : IExt) (src : Bytes) (srcA : Array UInt8) (matchRef : Bytes → Bool) (t t' : Tree)
    (hroot : T.isI t IK.unparsed = false)
    (hkinds : ∀ u ∈ T.nodes t, u.label.isBlock = false → T.isI u IK.unparsed = true ∨ u.label.kind ≤ 17)
    (hflat : ∀ u ∈ T.nodes t, u.label.isBlock = false → ∀ v ∈ T.nodesL u.children, T.isI v IK.unparsed = false)
    (h : rewriteE x src srcA matchRef t = .ok t') :
    ∀ u ∈ T.nodes t', u.label.isBlock = false → u.label.kind ≤ 17 :=
  rewriteE_inline_kinds x src srcA matchRef t t' hroot hkinds hflat h

/-- C12 "every reference node names a key": a `ref` attribute is only ever written behind a successful `MatchReference`. -/
theorem rewrite_refs {matchRef : Bytes → Bool} {K : Nat → Prop} (x : IExt) (src : Bytes) (srcA : Array UInt8) (t t' : Tree)
    (hpre : ∀ u ∈ T.nodes t, RefOK matchRef K u)
    (h : rewriteE x src srcA matchRef t = .ok t') :
    ∀ u ∈ T.nodes t', u.label.isBlock = false → K u.label.kind → u.label.ref ≠ [] → matchRef u.label.ref = true :=
  rewriteE_refs x src srcA t t' hpre h

/-- C07/C13/C17 parser contract: character-reference nodes span `&…;`, soft breaks span their line ending - preserved by Rewrite
    (also when the inline phase fails: the marker tree has no such node). -/
theorem rewrite_safePre (x : IExt) (src : Bytes) (matchRef : Bytes → Bool) (t : Tree)
    (hpre : safePre src t = true) : safePre src (CM.Model.rewrite x src t matchRef) = true :=
  InlH.rewrite_safePre x src matchRef t hpre

/-- The entity recogniser accepts only `&[#A-Za-z0-9]+;`-shaped prefixes, for every entity table. -/
theorem characterEscape_shape (ext : Ext) (text : Bytes) (e : Nat) (h : parseCharacterEscape ext text = Int.ofNat e) :
    e ≤ text.length ∧ Spec.charRefShape (text.take e) = true :=
  parseCharacterEscape_shape ext text e h

end CM.Props.C05
