import CM.Spec.Footprint
import CM.Gen.Footprint
/-
C19 — parsing and rendering share no mutable state.
A Lean model of this library cannot exhibit a data race: that is a fact about Go's memory model and
scheduler. What is logic is the discipline that makes the property true:
 * `disjoint_footprints_schedule_independent` — operations that write only what they own and read, besides
   that, only what nobody writes, are unaffected by interleaving (any schedule, any number of operations);
 * `footprint_ok` — the store footprint of the library's entry points, computed from go/ssa on /repo's
   current source on every run (`CM.Gen.footprint`), satisfies that discipline:
   no entry point stores to a package-level variable; rendering, formatting, walking and extraction
   store to no field of `Block`, `Inline`, `RootBlock`, `Span` or `HTMLRenderer`.
The runtime half (race detector over concurrent Parse / Render / Format / Walk) is the check's search.
-/
namespace CM.Props.C19
open CM.Spec.Footprint

theorem disjoint_footprints_schedule_independent {Loc Val : Type} {n : Nat} (S : Sys Loc Val n) (ok : StepOK S)
    (i : Fin n) (sched : List (Fin n)) (h : Heap Loc Val) :
    ∀ l, (S.owner l = some i ∨ S.owner l = none) → run S sched h l = runAlone S i sched h l :=
  schedule_independent S ok i sched h h (fun _ _ => rfl)

theorem shared_state_never_written {Loc Val : Type} {n : Nat} (S : Sys Loc Val n) (ok : StepOK S)
    (sched : List (Fin n)) (h : Heap Loc Val) (l : Loc) (hl : S.owner l = none) : run S sched h l = h l :=
  shared_untouched S ok sched h l hl

/-- Types whose memory is shared between concurrent readers of a parsed tree. -/
def sharedTypes : List String := ["Block", "Inline", "RootBlock", "Span", "HTMLRenderer"]

def readOnlyEntries : List String := ["Render", "AppendBlock", "RenderHTML", "Walk", "Format", "Extract", "NormalizeURI", "IsEmailAddress", "FilterTagGFM"]

def storesGlobal (fp : List (String × String)) : Bool :=
  fp.any fun p => p.1 == "global" || p.1.startsWith "elem:global" || p.1.startsWith "map:global" || p.1 == "missing" || p.1 == "unknown"

def storesShared (fp : List (String × String)) : Bool :=
  fp.any fun p => sharedTypes.any fun t => p.2.startsWith (t ++ ".")

/-- The store footprint regenerated from the source satisfies the discipline. -/
def footprintOK : Bool :=
  CM.Gen.footprint.all (fun e => !storesGlobal e.2) &&
  readOnlyEntries.all (fun name =>
    match CM.Gen.footprint.lookup name with
    | some fp => !storesShared fp
    | none => false)

theorem footprint_ok : footprintOK = true := by decide +kernel

end CM.Props.C19
