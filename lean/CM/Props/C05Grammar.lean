import CM.Proofs.ParseWholeGrammarNestMain
/-
C05 as ONE theorem about the whole of `Parse` (33 further proof files `ParseWholeGrammar*`: two more spec chains over the inline-phase
model - the child rules of every inline kind and the delimiter-stack discipline behind "no link inside a link" - connected with the
block half `drain_grammar_phase1`):

`parse_grammar`: for every NUL-free input and every root on which the inline phase completed, the executable statement
`Spec.grammar` holds of the final tree IN FULL: the root is a container child; at every node the children have the documented kinds
(lists hold items, items start with their marker, definitions are label, destination, optional title; paragraphs and headings hold
phrasing content; links and images end in [destination][title] or one label and reference links carry neither; code spans, autolinks,
HTML tags, info strings, destinations, titles, labels hold only their leaf kinds; no Unparsed node), attribute ranges (heading
levels, list/item agreement on delimiter and looseness, ordered marker text), and no link occurs inside a link at any depth.
Provisos, both explicit: `hz` (no NUL byte: only the marker-text clause needs it; NUL inputs are covered by `Spec.grammar` evaluated
on the implementation's trees) and `pr.tree = .ok t'` (a Go panic or the model's loop fuel is C04's matter).
-/
namespace CM.Props.C05
open CM CM.Model CM.Spec CM.Proofs CM.Proofs.PW

/-- **C05, whole Parse.** -/
theorem parse_grammar (x : PExt) (ix : IExt) (inp : Bytes) (hz : ∀ c ∈ inp, c ≠ 0) :
    ∀ pr ∈ (parseDoc x ix inp).roots, ∀ t', pr.tree = .ok t' → grammar pr.root.source t' = true :=
  PW.parse_grammar x ix inp hz

/-- No link inside a link, at any depth (from `finishLink` deactivating every earlier `[` opener). -/
theorem parse_noNestedLink (x : PExt) (ix : IExt) (inp : Bytes) (hz : ∀ c ∈ inp, c ≠ 0) :
    ∀ pr ∈ (parseDoc x ix inp).roots, ∀ t', pr.tree = .ok t' → noNestedLink t' = true :=
  PW.parse_noNestedLink x ix inp hz

/-- Per container, any input list of unparsed runs and indents: the inline parser returns phrasing content obeying the grammar. -/
theorem parseInlines_grammar (x : IExt) (src : Bytes) (srcA : Array UInt8) (matchRef : Bytes → Bool)
    (cstart cstop : Int) (unparsed kids : List Tree) (hU : InlH.UOK unparsed)
    (h : Inl.parseInlines x src srcA matchRef cstart cstop unparsed = .ok kids) :
    kids.all isPhrasing = true ∧ ∀ u ∈ T.nodesL kids, grammarAt u = true :=
  InlH.parseInlines_grammar x src srcA matchRef cstart cstop unparsed kids hU h

end CM.Props.C05
