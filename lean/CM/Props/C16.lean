import CM.Proofs.ReparseC16
/-
C16 — a root block can be re-parsed on its own: first theorems (21 proof files `Reparse*`).

Layer U (every line parser meeting an explicit contract `CloseIndep`: a top-level child closed by the lines that follow it is
the child closed by the end-of-input line at the same position): re-parsing the Source of a root delivered by a `NextBlock` call
that started with no pending blocks yields exactly one root with the same tree (`reparse_fresh_call`). Layer B: `closeIndepB` -
the model of the real block parser meets that contract for the LEAF root kinds (paragraph, setext heading, fenced and indented
code, HTML block, ATX heading, thematic break); `paraCloseLocal` (closing a paragraph does not look at the following line: the
reader of the definition parser sees the same on `s ++ u` as on `s`; 8 further proof files) removed the hypothesis the first
version carried for paragraphs beginning with `[`. Lifted to the model of `Parse` (`C16_parse`): the re-parsed root
has the same FINAL tree under the document's reference map, because Rewrite is a function of (Source, block-phase tree, matcher).
Observable forms of "no pending blocks": the first root, and any root that does not start where the previous one ends.
Not covered by a theorem (relational oracle on the implementation): container roots (block quotes, lists), roots that start
exactly where the previous root ends (outside the property's stated exception), inputs with NUL. The literal record equality is
FALSE (`record_equality_false`: a blank line after a paragraph sets a flag the re-parse does not; the exported trees agree).
-/
namespace CM.Props.C16
open CM CM.Model CM.Proofs CM.Proofs.Rp

/-- A root delivered by the n-th call, which started with no pending blocks: re-parsing its Source alone gives exactly one
    root - offsets 0..len(Source), line 1, the same tree - and then end of input. -/
theorem C16_blocks_drain (x : PExt) {inp : Bytes} (hnn : NoNul inp) (F n : Nat) (r : Root)
    (hr : (drain (blocksLP x) F (memParser inp) []).1[n]? = some r)
    (hbl : (stateBefore (blocksLP x) inp n).blocks = []) (hgood : Good x r.block) (f : Nat) :
    ∃ r' pB, drain (blocksLP x) (f + 2) (memParser r.source) [] = ([r'], .err .eof, pB) ∧ Reparsed r r' :=
  Rp.C16_blocks_drain x hnn F n r hr hbl hgood f

/-- The first root of every document. -/
theorem C16_blocks_first (x : PExt) {inp : Bytes} (hnn : NoNul inp) (F : Nat) (r : Root)
    (hr : (drain (blocksLP x) F (memParser inp) []).1[0]? = some r) (hgood : Good x r.block) (f : Nat) :
    ∃ r' pB, drain (blocksLP x) (f + 2) (memParser r.source) [] = ([r'], .err .eof, pB) ∧ Reparsed r r' :=
  Rp.C16_blocks_first x hnn F r hr hgood f

/-- Every root separated from the previous one by blank lines. -/
theorem C16_blocks_gap (x : PExt) {inp : Bytes} (hnn : NoNul inp) (F n : Nat) (rp r : Root)
    (hrp : (drain (blocksLP x) F (memParser inp) []).1[n]? = some rp)
    (hr : (drain (blocksLP x) F (memParser inp) []).1[n + 1]? = some r) (hgap : r.startOffset ≠ rp.endOffset)
    (hgood : Good x r.block) (f : Nat) :
    ∃ r' pB, drain (blocksLP x) (f + 2) (memParser r.source) [] = ([r'], .err .eof, pB) ∧ Reparsed r r' :=
  Rp.C16_blocks_gap x hnn F n rp r hrp hr hgap hgood f

/-- The same for the model of `Parse`, including the inline phase: the re-parsed root rewrites to the same final tree. -/
theorem C16_parse (x : PExt) (ix : IExt) {inp : Bytes} (hnn : NoNul inp) (n : Nat) (pr : ParsedRoot)
    (hpr : (parseDoc x ix inp).roots[n]? = some pr)
    (hbl : (stateBefore (blocksLP x) inp n).blocks = []) (hgood : Good x pr.root.block) (f : Nat) :
    ∃ r' pB, drain (blocksLP x) (f + 2) (memParser pr.root.source) [] = ([r'], .err .eof, pB) ∧ Reparsed pr.root r' ∧
      Inl.rewriteE ix r'.source r'.source.toArray (fun k => ((parseDoc x ix inp).refs.lookup k).isSome) (pbToTree r'.block) =
        pr.tree :=
  Rp.C16_parse x ix hnn n pr hpr hbl hgood f

/-- The model of the real block parser meets the layer-U contract for the leaf kinds. -/
theorem closeIndepB (x : PExt) : CloseIndep (blocksLP x) (sessB x) (Good x) (Good2 x) SameTree := Rp.closeIndepB x

/-- Closing a top-level paragraph does not look at the line after it (the definition parser peeks at most at the first byte
    after the text, and the outcome does not depend on it): the hypothesis the first version of these theorems carried for
    paragraphs beginning with `[` is a theorem. -/
theorem paraCloseLocal (x : PExt) : ParaCloseLocal x := Rp.paraCloseLocal x

/-- Equality of the internal records (rather than of the exported trees) is false. -/
theorem record_equality_false : ¬ C16_blocks_record_target := C16_blocks_record_target_false

end CM.Props.C16
