import CM.Proofs.QuoteNoBracket
import CM.Proofs.QuoteGFinal
import CM.Proofs.ItemClose
import CM.Proofs.ItemEof
import CM.Proofs.ItemFirstLine
import CM.Proofs.ItemFinal
import CM.Proofs.RefDefSpansMain
import CM.Props.C01Blocks
/-
C09 — quoting a document nests its blocks unchanged: the BLOCK-PHASE half for block quotes, as theorems about the model of the
real block parser under the stream machine (27 proof files `Quote*`: a relation between the cursor on a bare line and the cursor
behind `> ` on the quoted line, respected by every line-parser primitive, all eight block starts, the match rules, the close
hooks and `addLineText`; then by the stream machine, where the bare document is cut into roots while the quote stays one root).

`blocks_quote_sim_nobracket`: for every document D without tab, CR, NUL and without `[`, `quote D` (every line prefixed with
`> `) parses (block phase) to exactly ONE root, a block quote spanning the whole input, whose children are related one by one to
the root blocks of D: same kinds and attributes, positions mapped through the prefix insertion, every per-line text run with the
same bytes. The hypothesis "the run on D ends with end of input" of the proof files is discharged here from C01 and C02's
theorems. For documents WITH `[` the same holds under `CloseParaSim` (that `onCloseParagraph`'s definition parser respects the
relation): `blocks_quote_sim_partial`; the exact position-mapped equality is proved FALSE there (`exact_statement_false`, witness
`[a]: /u⏎===`: the paragraph synthesised for an orphaned setext underline starts before the `> `). The inline half and the
list-item half are decided by the relational oracle on the implementation.
-/
namespace CM.Props.C09
open CM CM.Model CM.Proofs CM.Proofs.Quote

/-- The run of the (checked) block parser on any input ends with end of input. -/
theorem run_ends_eof (x : PExt) (D : Bytes) :
    isEof (drain (BSp.blocksLPc x) (D.length + 8) (memParser D) []).2.1 = true := by
  rw [← RDS.drain_checked_eq_uncond x D (D.length + 8)]
  obtain ⟨rs, p', h, -, -⟩ := C01.C01_tiling_blocks x D (D.length + 8) (by omega)
  rw [h]; rfl

/-- **Block-phase C09 for block quotes**, every clean document without `[`. -/
theorem blocks_quote_sim_nobracket (x : PExt) (D : Bytes) (hc : Clean D) (hne : D ≠ []) (hnb : ∀ b ∈ D, b ≠ 0x5B) :
    ∃ (rq : Root) (pQ : BP),
      drain (blocksLP x) ((quote D).length + 8) (memParser (quote D)) [] = ([rq], .err .eof, pQ) ∧
      rq.source = quote D ∧ rq.startOffset = 0 ∧ rq.endOffset = (quote D).length ∧
      QuoteRelated DRtriv D (drain (blocksLP x) (D.length + 8) (memParser D) []).1 rq.block :=
  Quote.blocks_quote_sim_nobracket x D hc hne hnb (run_ends_eof x D)

/-- … and every clean document, given that closing a paragraph (link reference definitions) respects the relation. -/
theorem blocks_quote_sim_partial {x : PExt} {DR : List Tree → List Tree → Prop} {D : Bytes} (S : Setup x DR D) :
    ∃ (rq : Root) (pQ : BP),
      drain (blocksLP x) ((quote D).length + 8) (memParser (quote D)) [] = ([rq], .err .eof, pQ) ∧
      rq.source = quote D ∧ rq.startOffset = 0 ∧ rq.endOffset = (quote D).length ∧
      QuoteRelated DR D (drain (blocksLP x) (D.length + 8) (memParser D) []).1 rq.block :=
  Quote.blocks_quote_sim_partial S (run_ends_eof x D)

/-- The exact position-mapped tree equality is false (link reference definition followed by an orphaned underline). -/
theorem exact_statement_false : ¬ blocks_quote_sim_target := blocks_quote_sim_target_false

/-- On a tab-free line the indentation does not depend on the column (why tabs are excluded by the property). -/
theorem indent_notab (p : LP) (h : NoTab (p.line.drop p.i)) : p.indent = indentLength (p.line.drop p.i) :=
  Quote.indent_notab p h

/-! ### Documents with `[` (second wave: 25 further files `QuoteRd*`, `Nest*`, `QuoteG*`) -/

/-- **Block-phase C09 for block quotes, documents WITH link syntax**: the reader of `onCloseParagraph`'s definition parser is
    simulated in lockstep between the bare paragraph and the quoted one (same byte stream, positions corresponding; a multi-line
    title is one Text node bare and one per line quoted - `DRq` relates label, destination and title nodes by kind, normalised
    label and concatenated text). One restriction: no line of D is a setext underline (`NoULD`, decidable by `noULB`): the
    paragraph synthesised for an orphaned underline after definitions is where the exact statement fails. -/
theorem blocks_quote_sim_bracket (x : PExt) (D : Bytes) (hc : Clean D) (hne : D ≠ []) (hul : NoULD D) :
    ∃ (rq : Root) (pQ : BP),
      drain (blocksLP x) ((quote D).length + 8) (memParser (quote D)) [] = ([rq], .err .eof, pQ) ∧
      rq.source = quote D ∧ rq.startOffset = 0 ∧ rq.endOffset = (quote D).length ∧
      QuoteRelated (DRq D) D (drain (blocksLP x) (D.length + 8) (memParser D) []).1 rq.block :=
  Quote.blocks_quote_sim_bracket x D hc hne hul

theorem noULD_of_check (D : Bytes) (h : noULB D = true) : NoULD D := Quote.noULD_of_check h

/-! ### List items, per line (8 files `Item*`): the first line behind the marker, later lines behind the indentation, and the
    end of input are simulated; the stream-level assembly (`blocks_item_rel_target`) is open. -/

/-- A later line of D and the same line indented by the item's content offset go through the two parsers in lockstep. -/
theorem item_line_sim : type_of% @Item.processLine_simI := @Item.processLine_simI

/-- The first line of D and the same line behind a list marker of width |m| and N in 1..4 spaces. -/
theorem item_first_line_sim : type_of% @Item.processLine_first_simI := @Item.processLine_first_simI

/-- The end of input closes document > list > item around the related blocks. -/
theorem item_eof_sim : type_of% @Item.processLine_eof_simI := @Item.processLine_eof_simI

/-- The thematic-break exception of the property is needed: `* ` in front of `* *` is a thematic break. -/
theorem item_thematic_break : type_of% @Item.item_thematic_break := @Item.item_thematic_break

/-- **Block-phase C09 for list items, stream level** (8 further files): for every clean document D without whitespace-only
    lines, starting with a non-space, without setext underlines, and every marker `I` (a structure: marker bytes of width ≥ 1,
    N in 1..4 spaces, recognised by `parseListMarker` whatever follows; instances for `-`, `+`, `*` and `12)` are provided),
    unless the first line of the result is a thematic break: the block phase of `item m N D` delivers exactly one root, a list
    with one item (both spanning the input, delimiter and content offset as expected) whose children are the marker followed by
    blocks related one by one to the root blocks of D. -/
theorem blocks_item_sim (x : PExt) (I : Item.IP) (D : Bytes) (hc : Clean D) (hne : D ≠ []) (hul : NoULD D)
    (hnb : Item.NoBlankD D) (h0 : D.getD 0 0 ≠ SP)
    (htb : parseThematicBreak (I.m ++ (Item.spaces I.N ++ D.take (lineLen D))) < 0) :
    ∃ (rq : Root) (pQ : BP),
      drain (blocksLP x) ((Item.item I.m I.N D).length + 8) (memParser (Item.item I.m I.N D)) [] = ([rq], .err .eof, pQ) ∧
      rq.source = Item.item I.m I.N D ∧ rq.startOffset = 0 ∧ rq.endOffset = (Item.item I.m I.N D).length ∧
      Item.ItemRelatedS (Item.DRi I.m I.N D) I D (drain (blocksLP x) (D.length + 8) (memParser D) []).1 rq.block :=
  Item.blocks_item_sim x I D hc hne hul hnb h0 htb

end CM.Props.C09
