import CM.Proofs.ParseSeamsFinal
/-
C17(b) for the whole pipeline Parse → Render, EVERY configuration, with NO open contract: the seam condition `rawSeamsOK` of the
page-level theorem is a theorem about parser output (18 proof files `ParseSeams*`, on top of `InlShapeSite*`/`InlShapeHtml`):
(1) block phase: every RawHTML node of an HTML block ends right after its line ending, except the last node of a root that ends the
input; (2) inline phase: the raw pieces of an inline HTML tag end with `>` or at the end of a line that continues; (3) nothing that
starts with a name character is written after the last raw node (closing tags start with `<`). Hence: for every input, every root on
which the inline phase completes, every SoftBreakBehavior/IgnoreRaw and every name-closed predicate (FilterTagGFM included), the
tokenizer finds no start tag with a rejected name in what `AppendBlock` / `Render` write.
-/
namespace CM.Props.C17
open CM CM.Model CM.Spec CM.Proofs CM.Proofs.PS

theorem parse_rawSeamsOK (x : PExt) (ix : IExt) (inp : Bytes) :
    ∀ pr ∈ (parseDoc x ix inp).roots, ∀ t', pr.tree = .ok t' →
      ∀ cx : RCtx, cx.src = pr.root.source → rawSeamsOK cx t' = true :=
  PS.parse_rawSeamsOK x ix inp

/-- **C17(b), whole pipeline, every configuration.** -/
theorem parse_render_no_rejected_start_tag (x : PExt) (ix : IExt) (inp : Bytes) :
    ∀ pr ∈ (parseDoc x ix inp).roots, ∀ t', pr.tree = .ok t' →
      ∀ (cx : RCtx) (p : Bytes → Bool), cx.src = pr.root.source → cx.filter = some p → NameClosed p →
        ∀ name ∈ Spec.startTags (appendBlock cx [] t'), p name = false :=
  PS.parse_render_no_rejected_start_tag x ix inp

/-- Block phase: raw HTML lines end with their line ending (all but the last node of a root). -/
theorem blockphase_rawEol (x : PExt) (fuel : Nat) (inp : Bytes) :
    ∀ r ∈ (drain (blocksLP x) fuel (memParser inp) []).1,
      ∀ n ∈ (T.nodes (pbToTree r.block)).dropLast, T.isI n IK.rawHTML = true → EolEnd r.source n.label.stop :=
  PS.blockphase_rawEol x fuel inp

end CM.Props.C17
