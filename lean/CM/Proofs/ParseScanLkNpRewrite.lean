import CM.Proofs.InlNpRewrite
import CM.Proofs.ParseScanLkNpBody

/-
C04, inline half, with `LinkScan2` / `TokScan2` — `rewriteE` does not panic.
(Generated from `InlNpRewrite.lean`: the same proofs with `LinkScan2` in the place of `LinkScan`.)
-/

namespace CM.Proofs.InlH2
open CM CM.Model CM.Model.Inl CM.Gen CM.Spec CM.Proofs CM.Proofs.InlH
open Std.Do

set_option mvcgen.warning false

mutual
/-- **The inline phase on a block tree does not panic** (C04, inline half). -/
theorem rewriteE_noPanic (x : IExt) (src : Bytes) (srcA : Array UInt8) (matchRef : Bytes → Bool) :
    (t : Tree) → WFT t → t.label.stop ≤ srcA.size → ContsOK2 x src srcA matchRef t → ContsNP x src srcA matchRef t →
      ∀ msg, rewriteE x src srcA matchRef t ≠ .error (.panic msg)
  | .node l cs, hw, hn, hc, hp, msg, h => by
    rw [rewriteE] at h
    split at h
    · cases h
    · rename_i hb
      have hb' : l.isBlock = true := by simpa using hb
      split at h
      · rename_i hu
        split at h
        · cases h
        · rename_i e hk
          cases h
          have hmem : Tree.node l cs ∈ T.nodes (.node l cs) := by rw [T.nodes]; exact List.mem_cons_self ..
          obtain ⟨c0, cT, cS⟩ := hc (.node l cs) hmem hb' hu
          rw [WFT_iff] at hw
          exact parseInlines_noPanic x src srcA matchRef l.start l.stop cs c0 hn hw.2 cT cS (hp _ hmem hb' hu) msg hk
      · split at h
        · cases h
        · rename_i e hk
          cases h
          rw [WFT_iff] at hw
          exact rewriteForestE_noPanic x src srcA matchRef cs l.start l.stop hw.2 hn (fun c hc' => hc.child hc')
            (fun c hc' => hp.child hc') msg hk
theorem rewriteForestE_noPanic (x : IExt) (src : Bytes) (srcA : Array UInt8) (matchRef : Bytes → Bool) :
    (ts : List Tree) → ∀ lo hi, WFL lo hi ts → hi ≤ srcA.size → (∀ t ∈ ts, ContsOK2 x src srcA matchRef t) →
      (∀ t ∈ ts, ContsNP x src srcA matchRef t) → ∀ msg, rewriteForestE x src srcA matchRef ts ≠ .error (.panic msg)
  | [], lo, hi, hw, _, _, _, msg, h => by
    rw [rewriteForestE] at h
    cases h
  | t :: ts, lo, hi, hw, hn, hc, hp, msg, h => by
    rw [rewriteForestE] at h
    rw [WFL_cons] at hw
    obtain ⟨h1, h2, h3⟩ := hw
    have hle := h3.le
    split at h
    · rename_i e ht
      cases h
      exact rewriteE_noPanic x src srcA matchRef t h2 (by omega) (hc t (List.mem_cons_self ..))
        (hp t (List.mem_cons_self ..)) msg ht
    · split at h
      · rename_i e hts
        cases h
        exact rewriteForestE_noPanic x src srcA matchRef ts _ _ h3 hn (fun c hc' => hc c (List.mem_cons_of_mem _ hc'))
          (fun c hc' => hp c (List.mem_cons_of_mem _ hc')) msg hts
      · cases h
end

end CM.Proofs.InlH2
