import CM.Proofs.ReparseLeafDescend
/-
C16, Layer B, part 7: `addLineText` on a line whose only top-level block is an open leaf block:
* the container is that block (the line continues it): it stays the only child, open, of the same kind (`SL`);
* the container is the document and all its children are closed (the block has just been closed at the start of the
  line): the first child stays what it is, up to the `lastLineBlank` flag.
-/
namespace CM.Proofs.Rp
open CM CM.Model CM.Gen CM.Proofs

/-! ### The container is the open leaf block -/

/-- The document has exactly one child: open/closed and of the kind of `k0`, without block children; the container is
    that child. -/
def SL (k0 : PB) (p : LP) : Prop :=
  p.depth = 1 ∧ ∃ k', p.root.blocks = [k'] ∧ k'.label.stop = k0.label.stop ∧ k'.label.kind = k0.label.kind ∧ k'.blocks = []

theorem SL.of_cur {k0 : PB} {p q : LP} (h : SL k0 p) (f : CurFrame p q) : SL k0 q := by
  obtain ⟨hd, k', hb, h1, h2, h3⟩ := h
  exact ⟨by rw [f.depth]; exact hd, k', by rw [f.root]; exact hb, h1, h2, h3⟩

theorem spineModify_one_single (f : PB → PB) (l : PLabel) (k : PB) (is : List Tree) :
    spineModify f (.mk l [k] is) 1 = .mk l [f k] is := by
  rw [spineModify_succ]; simp [spineModify_zero]

/-- A modification of the container that keeps `stop`, `kind` and "no block children". -/
theorem SL.modify {k0 : PB} {p : LP} (h : SL k0 p) (f : PB → PB)
    (hf : ∀ b, (f b).label.stop = b.label.stop ∧ (f b).label.kind = b.label.kind ∧ (b.blocks = [] → (f b).blocks = [])) :
    SL k0 { p with root := spineModify f p.root p.depth } := by
  obtain ⟨hd, k', hb, h1, h2, h3⟩ := h
  obtain ⟨l, is, hr⟩ := root_single hb
  refine ⟨hd, f k', ?_, ?_, ?_, (hf k').2.2 h3⟩
  · show (spineModify f p.root p.depth).blocks = _
    rw [hd, hr, spineModify_one_single]; rfl
  · rw [(hf k').1]; exact h1
  · rw [(hf k').2.1]; exact h2

theorem SL.containerKind {k0 : PB} {p : LP} (h : SL k0 p) : p.containerKind = k0.kind := by
  obtain ⟨hd, k', hb, _, h2, _⟩ := h
  rw [containerKind_of_last hd (c := k') (by rw [hb]; rfl)]; exact h2

theorem SL.appendInline {k0 : PB} {p : LP} (h : SL k0 p) (t : Tree) : SL k0 (p.appendInline t) := by
  rw [appendInline_eq]
  exact h.modify _ (fun b => by cases b; exact ⟨rfl, rfl, fun h => h⟩)

theorem setBlankFlags_zero (v : Bool) (b : PB) :
    (setBlankFlags v b 0).label.stop = b.label.stop ∧ (setBlankFlags v b 0).label.kind = b.label.kind ∧
    (setBlankFlags v b 0).blocks = b.blocks := by
  cases b; exact ⟨rfl, rfl, rfl⟩

theorem SL.flags {k0 : PB} {p : LP} (h : SL k0 p) (v : Bool) :
    SL k0 { p with root := setBlankFlags v p.root p.depth } := by
  obtain ⟨hd, k', hb, h1, h2, h3⟩ := h
  obtain ⟨l, is, hr⟩ := root_single hb
  refine ⟨hd, setBlankFlags v k' 0, ?_, ?_, ?_, ?_⟩
  · show (setBlankFlags v p.root p.depth).blocks = _
    rw [hd, hr]; simp [setBlankFlags, PB.blocks]
  · rw [(setBlankFlags_zero v k').1]; exact h1
  · rw [(setBlankFlags_zero v k').2.1]; exact h2
  · rw [(setBlankFlags_zero v k').2.2]; exact h3

theorem flagLast_no_kids (b : PB) (h : b.blocks = []) : flagLast b = b := by
  cases b with
  | mk l bs is => simp only [PB.blocks] at h; subst h; rfl

theorem SL.altPrep {k0 : PB} {p : LP} (h : SL k0 p) : SL k0 (altPrep p) := by
  unfold CM.Proofs.altPrep
  simp only []
  have hflag : SL k0 { p with root := spineModify flagLast p.root p.depth } :=
    h.modify flagLast (fun b => ⟨by rw [flagLast_label], by rw [flagLast_label], fun hb => by rw [flagLast_no_kids b hb]; exact hb⟩)
  split
  · exact SL.flags hflag _
  · exact SL.flags h _

theorem LeafK.acceptsLines {k : Nat} (h : LeafK k) : acceptsLines k = true := by
  rcases h with rfl | rfl | rfl | rfl <;> rfl

theorem SL.altCont {k0 : PB} {p : LP} (x : PExt) (b : Bool) (h : SL k0 p) (hleaf : LeafK k0.kind) :
    ∃ q, CM.Proofs.altCont x b p = some q ∧ SL k0 q := by
  unfold CM.Proofs.altCont
  simp only []
  rw [h.containerKind, hleaf.acceptsLines]
  simp only [if_true]
  split
  · exact ⟨_, rfl, (h.appendInline _).of_cur (consumeIndentN_frame _ _).1⟩
  · exact ⟨_, rfl, h⟩

theorem SL.altFinish {k0 : PB} {p : LP} (h : SL k0 p) : SL k0 (altFinish p) := by
  unfold CM.Proofs.altFinish
  simp only []
  repeat' split
  all_goals first
    | exact (h.appendInline _).appendInline _
    | exact h.appendInline _

/-- The line continues the leaf block: it stays the only child of the document, with the same `stop` and kind. -/
theorem SL.addLineText {k0 : PB} {p : LP} (x : PExt) (h : SL k0 p) (hleaf : LeafK k0.kind) : SL k0 (addLineText x p) := by
  rw [addLineText_eq]
  obtain ⟨q, e, hq⟩ := (SL.altPrep h).altCont x p.isRestBlank hleaf
  rw [e]
  exact hq.altFinish

/-! ### The same, with the inline children: what `addLineText` appends lies inside the line -/

/-- An inline node inside the line `[ls, ls + len]`. -/
def InLine (ls len : Nat) (t : Tree) : Prop :=
  (ls : Int) ≤ t.label.start ∧ t.label.start ≤ t.label.stop ∧ t.label.stop ≤ ((ls + len : Nat) : Int)

/-- `SL` plus: the cursor is inside the line `[ls, ls + len]`, and every inline child of the block is one of `k0`'s
    or lies inside the line. -/
def SLI (k0 : PB) (ls len : Nat) (p : LP) : Prop :=
  p.depth = 1 ∧ p.lineStart = ls ∧ p.line.length = len ∧ p.i ≤ len ∧
  ∃ k', p.root.blocks = [k'] ∧ k'.label.stop = k0.label.stop ∧ k'.label.kind = k0.label.kind ∧ k'.blocks = [] ∧
    ∀ t ∈ k'.inlines, t ∈ k0.inlines ∨ InLine ls len t

theorem SLI.toSL {k0 : PB} {ls len : Nat} {p : LP} (h : SLI k0 ls len p) : SL k0 p := by
  obtain ⟨hd, _, _, _, k', hb, h1, h2, h3, _⟩ := h
  exact ⟨hd, k', hb, h1, h2, h3⟩

theorem SLI.of_cur {k0 : PB} {ls len : Nat} {p q : LP} (h : SLI k0 ls len p) (f : CurFrame p q) : SLI k0 ls len q := by
  obtain ⟨hd, e1, e2, e3, k', hb, h1, h2, h3, h4⟩ := h
  refine ⟨by rw [f.depth]; exact hd, by rw [f.lineStart]; exact e1, by rw [f.line]; exact e2, ?_, k',
    by rw [f.root]; exact hb, h1, h2, h3, h4⟩
  have := f.ile (by rw [e2]; exact e3)
  rw [f.line, e2] at this; exact this

/-- A modification of the container that keeps `stop`, `kind`, "no block children" and the inline children. -/
theorem SLI.modify {k0 : PB} {ls len : Nat} {p : LP} (h : SLI k0 ls len p) (f : PB → PB)
    (hf : ∀ b, (f b).label.stop = b.label.stop ∧ (f b).label.kind = b.label.kind ∧ (b.blocks = [] → (f b).blocks = []) ∧
      (f b).inlines = b.inlines) :
    SLI k0 ls len { p with root := spineModify f p.root p.depth } := by
  obtain ⟨hd, e1, e2, e3, k', hb, h1, h2, h3, h4⟩ := h
  obtain ⟨l, is, hr⟩ := root_single hb
  refine ⟨hd, e1, e2, e3, f k', ?_, ?_, ?_, (hf k').2.2.1 h3, ?_⟩
  · show (spineModify f p.root p.depth).blocks = _
    rw [hd, hr, spineModify_one_single]; rfl
  · rw [(hf k').1]; exact h1
  · rw [(hf k').2.1]; exact h2
  · rw [(hf k').2.2.2]; exact h4

theorem SLI.appendInline {k0 : PB} {ls len : Nat} {p : LP} (h : SLI k0 ls len p) (t : Tree) (ht : InLine ls len t) :
    SLI k0 ls len (p.appendInline t) := by
  rw [appendInline_eq]
  obtain ⟨hd, e1, e2, e3, k', hb, h1, h2, h3, h4⟩ := h
  obtain ⟨l, is, hr⟩ := root_single hb
  refine ⟨hd, e1, e2, e3, appendInl t k', ?_, ?_, ?_, ?_, ?_⟩
  · show (spineModify (appendInl t) p.root p.depth).blocks = _
    rw [hd, hr, spineModify_one_single]; rfl
  · cases k'; exact h1
  · cases k'; exact h2
  · cases k'; exact h3
  · intro u hu
    cases k' with
    | mk lk bk ik =>
      simp only [appendInl, PB.inlines, List.mem_append, List.mem_singleton] at hu
      rcases hu with hu | hu
      · exact h4 u hu
      · right; rw [hu]; exact ht

theorem setBlankFlags_zero_inl (v : Bool) (b : PB) : (setBlankFlags v b 0).inlines = b.inlines := by
  cases b; rfl

theorem SLI.flags {k0 : PB} {ls len : Nat} {p : LP} (h : SLI k0 ls len p) (v : Bool) :
    SLI k0 ls len { p with root := setBlankFlags v p.root p.depth } := by
  obtain ⟨hd, e1, e2, e3, k', hb, h1, h2, h3, h4⟩ := h
  obtain ⟨l, is, hr⟩ := root_single hb
  refine ⟨hd, e1, e2, e3, setBlankFlags v k' 0, ?_, ?_, ?_, ?_, ?_⟩
  · show (setBlankFlags v p.root p.depth).blocks = _
    rw [hd, hr]; simp [setBlankFlags, PB.blocks]
  · rw [(setBlankFlags_zero v k').1]; exact h1
  · rw [(setBlankFlags_zero v k').2.1]; exact h2
  · rw [(setBlankFlags_zero v k').2.2]; exact h3
  · rw [setBlankFlags_zero_inl]; exact h4

theorem flagLast_inl (b : PB) : (flagLast b).inlines = b.inlines := by
  rw [flagLast_eq]; exact (replLast_same _ b).2.1

theorem SLI.altPrep {k0 : PB} {ls len : Nat} {p : LP} (h : SLI k0 ls len p) : SLI k0 ls len (altPrep p) := by
  unfold CM.Proofs.altPrep
  simp only []
  have hflag : SLI k0 ls len { p with root := spineModify flagLast p.root p.depth } :=
    h.modify flagLast (fun b => ⟨by rw [flagLast_label], by rw [flagLast_label],
      fun hb => by rw [flagLast_no_kids b hb]; exact hb, flagLast_inl b⟩)
  split
  · exact SLI.flags hflag _
  · exact SLI.flags h _

theorem SLI.altCont {k0 : PB} {ls len : Nat} {p : LP} (x : PExt) (b : Bool) (h : SLI k0 ls len p) (hleaf : LeafK k0.kind) :
    ∃ q, CM.Proofs.altCont x b p = some q ∧ SLI k0 ls len q := by
  unfold CM.Proofs.altCont
  simp only []
  rw [h.toSL.containerKind, hleaf.acceptsLines]
  simp only [if_true]
  split
  · rename_i hc
    simp only [Bool.and_eq_true, decide_eq_true_eq] at hc
    have hil : p.i < len := by rw [← h.2.2.1]; exact hc.1.1.1
    refine ⟨_, rfl, (h.appendInline _ ?_).of_cur (consumeIndentN_frame _ _).1⟩
    refine ⟨?_, ?_, ?_⟩
    · show (ls : Int) ≤ (p.lineStart : Int) + (p.i : Int); rw [h.2.1]; omega
    · show (p.lineStart : Int) + (p.i : Int) ≤ (p.lineStart : Int) + (p.i : Int) + 1; omega
    · show (p.lineStart : Int) + (p.i : Int) + 1 ≤ ((ls + len : Nat) : Int); rw [h.2.1]; omega
  · exact ⟨_, rfl, h⟩

theorem SLI.altFinish {k0 : PB} {ls len : Nat} {p : LP} (h : SLI k0 ls len p) : SLI k0 ls len (altFinish p) := by
  unfold CM.Proofs.altFinish
  simp only []
  have hi := h.2.2.2.1
  have hls := h.2.1
  have hlen := h.2.2.1
  have ht : ∀ k : Nat, InLine ls len (mkInline k ((p.lineStart : Int) + (p.i : Int)) ((p.lineStart : Int) + (p.line.length : Int))) := by
    intro k
    refine ⟨?_, ?_, ?_⟩
    · show (ls : Int) ≤ (p.lineStart : Int) + (p.i : Int); rw [hls]; omega
    · show (p.lineStart : Int) + (p.i : Int) ≤ (p.lineStart : Int) + (p.line.length : Int); rw [hlen]; omega
    · show (p.lineStart : Int) + (p.line.length : Int) ≤ ((ls + len : Nat) : Int); rw [hls, hlen]; omega
  have hb : ∀ q : LP, q.lineStart = ls → q.line.length = len →
      InLine ls len (mkInline IK.softBreak ((q.lineStart : Int) + (q.line.length : Int)) ((q.lineStart : Int) + (q.line.length : Int))) := by
    intro q h1 h2
    refine ⟨?_, Int.le_refl _, ?_⟩
    · show (ls : Int) ≤ (q.lineStart : Int) + (q.line.length : Int); rw [h1]; omega
    · show (q.lineStart : Int) + (q.line.length : Int) ≤ ((ls + len : Nat) : Int); rw [h1, h2]; omega
  repeat' split
  all_goals first
    | exact (h.appendInline _ (ht _)).appendInline _ (hb _ hls hlen)
    | exact h.appendInline _ (ht _)

/-- The line continues the leaf block: the inline children appended lie inside the line. -/
theorem SLI.addLineText {k0 : PB} {ls len : Nat} {p : LP} (x : PExt) (h : SLI k0 ls len p) (hleaf : LeafK k0.kind) :
    SLI k0 ls len (addLineText x p) := by
  rw [addLineText_eq]
  obtain ⟨q, e, hq⟩ := (SLI.altPrep h).altCont x p.isRestBlank hleaf
  rw [e]
  exact hq.altFinish

/-! ### `openBlock` when the container is the document -/

theorem openBlock_depth0 (x : PExt) (q : LP) (kind : Nat) (attrs : PLabel → PLabel) (hdoc : q.root.label.kind = BK.document)
    (hst : InOpen q.state) (hk : kind ≠ BK.listItem) (hd : q.depth = 0) :
    ∃ child, (q.openBlock x kind attrs).root.blocks = (replLast (closeBlock x q.source q.lineStart) q.root).blocks ++ [child] := by
  rw [openBlock_eq x q kind attrs (notDesc_of_inOpen hst)]
  obtain ⟨m1, _, _⟩ := markMatched_frame q
  have hcdoc : canContain BK.document kind = true := by
    unfold canContain; simp only [BK.document, BK.listItem] at hk ⊢; simpa using hk
  have hck : q.markMatched.containerKind = BK.document := by
    rw [containerKind_of_cur m1, containerKind_depth0 hd]; exact hdoc
  have hloop : LP.openBlockLoop x kind (q.markMatched.depth + 1) q.markMatched = q.markMatched := by
    unfold LP.openBlockLoop; rw [hck, if_pos hcdoc]
  simp only [hloop]
  rw [m1.depth, hd, spineModify_zero, m1.root, m1.source, m1.lineStart]
  refine ⟨?_, ?_⟩
  case refine_2 =>
    rw [(closeAppend_blocks x _ _ _ _).1]

/-! ### The container is the document and every child is closed -/

/-- `b` is `a`, possibly with the `lastLineBlank` flag set. -/
def FlagRel (a b : PB) : Prop := b = a ∨ b = a.setLabel (fun l => { l with lastLineBlank := true })

theorem FlagRel.refl (a : PB) : FlagRel a a := Or.inl rfl

theorem flagLast_blocks (l : PLabel) (h : PB) (tl : List PB) (is : List Tree) :
    ∃ h' m', (flagLast (.mk l (h :: tl) is)).blocks = h' :: m' ∧ FlagRel h h' ∧ (flagLast (.mk l (h :: tl) is)).label = l ∧
      (LastClosed (.mk l (h :: tl) is) → LastClosed (flagLast (.mk l (h :: tl) is))) := by
  obtain ⟨c, hc⟩ := cons_getLast? h tl
  have hlc : LastClosed (.mk l (h :: tl) is) → LastClosed (flagLast (.mk l (h :: tl) is)) := by
    intro hl c' hc'
    simp only [flagLast, hc, PB.blocks, List.getLast?_concat, Option.some.injEq] at hc'
    subst hc'
    have := hl c hc
    unfold PBClosed at this ⊢
    cases c; exact this
  rcases replaceLast_head h tl c hc [c.setLabel fun cl => { cl with lastLineBlank := true }] with ⟨hm, hch, e1⟩ | ⟨hm, e1⟩
  · refine ⟨h.setLabel fun cl => { cl with lastLineBlank := true }, [], ?_, Or.inr rfl, flagLast_label _, hlc⟩
    simp only [flagLast, hc, PB.blocks]
    rw [e1, hch]
  · refine ⟨h, tl.dropLast ++ [c.setLabel fun cl => { cl with lastLineBlank := true }], ?_, FlagRel.refl h,
      flagLast_label _, hlc⟩
    simp only [flagLast, hc, PB.blocks]
    rw [e1]

theorem setBlankFlags_zero_root (v : Bool) (b : PB) : (setBlankFlags v b 0).blocks = b.blocks ∧
    (setBlankFlags v b 0).label.kind = b.label.kind := by
  cases b; exact ⟨rfl, rfl⟩

theorem altPrep_shape (p : LP) :
    (p.isRestBlank = true → ∃ v, (altPrep p).root = setBlankFlags v (spineModify flagLast p.root p.depth) p.depth) ∧
    (¬ p.isRestBlank = true → ∃ v, (altPrep p).root = setBlankFlags v p.root p.depth) ∧
    (altPrep p).depth = p.depth ∧ (altPrep p).state = p.state := by
  unfold CM.Proofs.altPrep
  simp only []
  split
  · rename_i hbl
    exact ⟨fun _ => ⟨_, rfl⟩, fun h => absurd hbl h, rfl, rfl⟩
  · rename_i hbl
    exact ⟨fun h => absurd h hbl, fun _ => ⟨_, rfl⟩, rfl, rfl⟩

/-- The block has just been closed at the start of the line (`closeLastChild` on the document): the text of the line
    goes into a new paragraph (or nowhere, if the line is blank); the first child keeps everything but the flag. -/
theorem addLineText_closed (x : PExt) (p : LP) (h : PB) (tl : List PB) (hdoc : p.root.label.kind = BK.document)
    (hd : p.depth = 0) (hst : InOpen p.state) (hb : p.root.blocks = h :: tl) (hlc : LastClosed p.root) :
    ∃ h' m', (addLineText x p).root.blocks = h' :: m' ∧ FlagRel h h' := by
  rw [addLineText_eq]
  -- after the flags
  have hprep : ∃ h' m', (altPrep p).root.blocks = h' :: m' ∧ FlagRel h h' ∧ (altPrep p).root.label.kind = BK.document ∧
      LastClosed (altPrep p).root ∧ (altPrep p).depth = 0 ∧ (altPrep p).state = p.state := by
    obtain ⟨hA, hB, hdep, hsta⟩ := altPrep_shape p
    rw [hd] at hA hB hdep
    rw [spineModify_zero] at hA
    generalize hr : p.root = r at hA hB hb hdoc hlc
    obtain ⟨l, bs, is⟩ := r
    simp only [PB.blocks] at hb
    subst hb
    by_cases hbl : p.isRestBlank = true
    · obtain ⟨v, hroot⟩ := hA hbl
      obtain ⟨h', m', e1, e2, e3, e4⟩ := flagLast_blocks l h tl is
      refine ⟨h', m', ?_, e2, ?_, ?_, hdep, hsta⟩
      · rw [hroot, (setBlankFlags_zero_root _ _).1]; exact e1
      · rw [hroot, (setBlankFlags_zero_root _ _).2, e3]; exact hdoc
      · rw [hroot]
        intro c hc
        rw [(setBlankFlags_zero_root _ _).1] at hc
        exact e4 hlc c hc
    · obtain ⟨v, hroot⟩ := hB hbl
      refine ⟨h, tl, ?_, FlagRel.refl h, ?_, ?_, hdep, hsta⟩
      · rw [hroot, (setBlankFlags_zero_root _ _).1]; rfl
      · rw [hroot, (setBlankFlags_zero_root _ _).2]; exact hdoc
      · rw [hroot]
        intro c hc
        rw [(setBlankFlags_zero_root _ _).1] at hc
        exact hlc c hc
  obtain ⟨h', m', e1, e2, e3, e4, e5, e6⟩ := hprep
  generalize altPrep p = p1 at e1 e3 e4 e5 e6
  cases hc : CM.Proofs.altCont x p.isRestBlank p1 with
  | none => exact ⟨h', m', e1, e2⟩
  | some q =>
    simp only []
    -- the container is the document: a paragraph is opened for the text
    unfold CM.Proofs.altCont at hc
    simp only [] at hc
    have hck : p1.containerKind = BK.document := by rw [containerKind_depth0 e5]; exact e3
    rw [hck, acceptsLines_document] at hc
    simp only [Bool.false_eq_true, if_false] at hc
    split at hc
    · simp only [Option.some.injEq] at hc
      subst hc
      obtain ⟨child, hob⟩ := openBlock_depth0 x p1 BK.paragraph id e3 (by rw [e6]; exact hst) (by decide) e5
      rw [replLast_closed_id x _ _ _ e4, e1] at hob
      have hdoc2 : (p1.openBlock x BK.paragraph).root.label.kind = BK.document := by
        have := (lf_openBlock x BK.paragraph id (LF.refl p1)) e3
        rw [this.kind]; exact e3
      have hlf : LF (p1.openBlock x BK.paragraph) (altFinish ((p1.openBlock x BK.paragraph).consumeIndentN (p1.openBlock x BK.paragraph).indent)) :=
        (lf_consumeIndentN _ (LF.refl _)).trans (lf_altFinish _)
      obtain ⟨h'', m'', e'', f'', _⟩ := (hlf hdoc2).head h' (m' ++ [child]) hob
      obtain ⟨a1, _⟩ := f'' (by simp)
      exact ⟨h'', m'', e'', by rw [a1]; exact e2⟩
    · cases hc

end CM.Proofs.Rp
