import CM.Proofs.QuoteRun2
/-
C09 (block-quote half), the block-phase theorem.

`blocks_quote_sim_partial`: for every document `D` without tab, carriage return and NUL, not empty: if the block phase of
`D` ends normally (monitored on the checked parser `blocksLPc`, which also evaluates the span hypothesis
`RefDefSpansOK` of C02 before every line), then the block phase of `quote D` delivers exactly one root, the whole of
`quote D`, whose block is a block quote `QuoteRelated` to the roots of `D` — under the hypothesis `CloseParaSim` on
`onCloseParagraph` (the link-reference-definition scanner, which reads through the line-jumping reader).

`blocks_quote_sim_nobracket`: the hypothesis on `onCloseParagraph` is discharged for documents without `[`.
-/
namespace CM.Proofs.Quote
open CM CM.Model CM.Gen CM.Proofs.BT CM.Proofs.BSp

/-- The outcome `io.EOF` of a run, as a Boolean. -/
def isEof : NBOut → Bool
  | .err .eof => true
  | _ => false

theorem isEof_iff {o : NBOut} : isEof o = true ↔ o = .err .eof := by
  constructor
  · intro h
    cases o with
    | block r => cases h
    | err e => cases e <;> first | rfl | cases h
    | panic m => cases h
  · intro h; subst h; rfl

section
variable {x : PExt} {DR : List Tree → List Tree → Prop} {D : Bytes} (S : Setup x DR D)
include S

/-- The three statements, for every bound on the length of the rest of the document. -/
theorem all_stmts : ∀ n, LinesStmt x DR D n ∧ SkipStmt x DR D n ∧ IdleStmt x DR D n := by
  intro n
  induction n with
  | zero =>
    have hL : LinesStmt x DR D 0 := by
      intro a b qa c lpD lpQ pD pQ bsD done acc fD gD fQ hbn hL
      have : b = [] := List.length_eq_zero_iff.mp (by omega)
      exact absurd this hL.bne
    have hS : SkipStmt x DR D 0 := by
      intro a b qa lpQ p pQ done acc fs fp gD fQ hbn hpos dD dQ hq hdone hfQ
      have hb : b = [] := List.length_eq_zero_iff.mp (by omega)
      subst hb
      exact skip_end S a qa lpQ p pQ done acc fs fp gD fQ hpos dD dQ hq hdone (by omega)
    exact ⟨hL, hS, idle_of S 0 hL hS⟩
  | succ n ih =>
    obtain ⟨hL, hS, hI⟩ := ih
    have hL' := lines_succ S n hL hI
    have hS' := skip_succ S n hS hL hI
    exact ⟨hL', hS', idle_of S (n + 1) hL' hS'⟩

omit S in
theorem length_qgo_ge : ∀ (l : Bytes), l.length ≤ (qgo l).length := by
  intro l
  induction l with
  | nil => exact Nat.le_refl _
  | cons a rest ih =>
    simp only [qgo]
    split
    · split
      · rename_i hr; subst hr; simp
      · simp only [List.length_cons]; omega
    · simp only [List.length_cons]; omega

omit S in
theorem length_quote_ge (D : Bytes) (h : D ≠ []) : D.length + 2 ≤ (quote D).length := by
  unfold quote
  rw [if_neg h]
  have := length_qgo_ge D
  simp only [List.length_cons]
  omega

omit S in
theorem memParser_dst (D : Bytes) (h : ∀ b ∈ D, b ≠ 0) : DSt D 0 0 [] (memParser D) :=
  ⟨by show padNulls D 0 = D.drop 0; rw [padNulls_eq_self h]; rfl, rfl, rfl, rfl, rfl, rfl, rfl, rfl, Nat.zero_le _⟩

omit S in
theorem freshLine_dst {D : Bytes} {p : BP} (h : DSt D 0 0 [] p) : DSt D 0 0 [] (freshLine p) := by
  refine ⟨?_, ?_, rfl, h.err, h.rdd, h.rds, h.blocks, h.panic, Nat.zero_le _⟩
  · show p.buf.drop p.i = _; rw [h.ieq, h.buf]; rfl
  · show p.offset + unpaddedNullLength (p.buf.take p.i) = 0
    rw [h.ieq, h.offset]
    simp [unpaddedNullLength, nullCount]

omit S in
/-- At the end of the input with nothing pending, `NextBlock` reports `io.EOF` (any line parser). -/
theorem nextBlock_done' (L : LineParserI) (D : Bytes) (c i : Nat) (p : BP) (h : DSt D c i [] p) (hend : c + i = D.length) :
    ∃ p', nextBlock L p = (.err .eof, p') := by
  rw [nextBlock_eq_F]
  have hmr : makeRoot p p.blocks = none := by rw [h.blocks]; rfl
  rw [nextBlockF_fresh L hmr (by rw [h.blocks]; simp)]
  have hbuf : (freshLine p).buf = [] := by
    show p.buf.drop p.i = []
    rw [h.buf, h.ieq, List.drop_drop]
    apply List.drop_eq_nil_of_le; omega
  have hfl : skipBlank (bpFuel p) (freshLine p) = (none, (freshLine p)) := by
    have hf : bpFuel p = (bpFuel p - 1) + 1 := by unfold bpFuel; omega
    rw [hf]
    exact skipBlank_nil _ (freshLine p) hbuf rfl (by show p.err.isSome = true; rw [h.err]; rfl)
  rw [hfl]
  simp only [afterSkip]
  have hp : (freshLine p).panic = none := h.panic
  have he : (freshLine p).err = some .eof := h.err
  rw [hp, he]
  exact ⟨_, rfl⟩

/-- **C09, block-quote half, block phase.** -/
theorem blocks_quote_sim_partial
    (hout' : isEof (drain (blocksLPc x) (D.length + 8) (memParser D) []).2.1 = true) :
    ∃ (rq : Root) (pQ : BP),
      drain (blocksLP x) ((quote D).length + 8) (memParser (quote D)) [] = ([rq], .err .eof, pQ) ∧
      rq.source = quote D ∧ rq.startOffset = 0 ∧ rq.endOffset = (quote D).length ∧
      QuoteRelated DR D (drain (blocksLP x) (D.length + 8) (memParser D) []).1 rq.block := by
  have hout : (drain (blocksLPc x) (D.length + 8) (memParser D) []).2.1 = .err .eof := isEof_iff.mp hout'
  obtain ⟨_, hS, _⟩ := all_stmts S D.length
  -- the bare run: its first `NextBlock` call
  have hdD := memParser_dst D S.clean.noNul
  have hD1 : drain (blocksLPc x) (D.length + 8) (memParser D) [] =
      contD x (D.length + 7) [] (afterSkip (blocksLPc x) (bpFuel (memParser D))
        (skipBlank (bpFuel (memParser D)) (freshLine (memParser D)))) := by
    rw [drain_succ, nextBlock_eq_F, nextBlockF_fresh (blocksLPc x) rfl (by simp [memParser])]
  -- the prefixed run: its first `NextBlock` call reaches the per-line loop
  have hqne : quote D ≠ [] := quote_ne_nil S.ne
  have hdQ := memParser_dst (quote D) (clean_quote_noNul S.clean)
  have hfQ := freshLine_dst hdQ
  obtain ⟨r1, r2⟩ := hfQ.readline_eq
  simp only [Nat.zero_add, List.drop_zero] at r1 r2
  have hcrD : NoCR D := S.clean.noCR
  have hllq := lineLen_quote D hcrD S.ne
  have hposq := lineLen_pos hqne
  have hfirstq : ({ freshLine (memParser (quote D)) with i := lineLen (quote D) } : BP).buf.take
      ({ freshLine (memParser (quote D)) with i := lineLen (quote D) } : BP).i = GT :: SP :: D.take (lineLen D) := by
    rw [r2.source, List.drop_zero]
    exact take_line_quote D hcrD S.ne
  have hskQ : skipBlank (bpFuel (memParser (quote D))) (freshLine (memParser (quote D))) =
      (some ({ freshLine (memParser (quote D)) with i := lineLen (quote D) } : BP),
        ({ freshLine (memParser (quote D)) with i := lineLen (quote D) } : BP)) := by
    have hf : bpFuel (memParser (quote D)) = (bpFuel (memParser (quote D)) - 1) + 1 := by unfold bpFuel; omega
    rw [hf]
    conv => lhs; unfold skipBlank
    rw [r1]
    simp only [hposq, decide_true, Bool.not_true, Bool.false_eq_true, if_false]
    rw [hfirstq]
    rfl
  have hQ1 : nextBlock (blocksLP x) (memParser (quote D)) =
      parseLines (blocksLP x) (bpFuel (memParser (quote D))) (newOf []) 0
        ({ freshLine (memParser (quote D)) with i := lineLen (quote D) } : BP) := by
    rw [nextBlock_eq_F, nextBlockF_fresh (blocksLP x) rfl (by simp [memParser]), hskQ]
    rfl
  -- the induction
  have hpos : PosAt D [] D [] ([] : Bytes).length :=
    ⟨rfl, rfl, S.clean, S.ne, Nat.le_refl _, fun _ => ⟨Or.inl rfl, rfl⟩, fun h => absurd h S.ne⟩
  have hfuel : D.length + 2 ≤ bpFuel (memParser (quote D)) := by
    unfold bpFuel
    have : (memParser (quote D)).buf = quote D := by rw [hdQ.buf]; rfl
    rw [this]
    have := length_quote_ge D S.ne
    omega
  have hdQ2 : DSt (quote D) 0 (([] : Bytes).length + lineLen (quote D)) []
      ({ freshLine (memParser (quote D)) with i := lineLen (quote D) } : BP) := by
    show DSt (quote D) 0 (0 + lineLen (quote D)) [] _
    rw [Nat.zero_add]; exact r2
  have hgoal := hS [] D [] (newOf []) (freshLine (memParser D)) _ [] [] (bpFuel (memParser D)) (bpFuel (memParser D))
    (D.length + 7) (bpFuel (memParser (quote D))) (Nat.le_refl _) hpos (freshLine_dst hdD) hdQ2
    (Or.inl ⟨rfl, rfl, rfl, rfl⟩) (Done.nil DR D) hfuel
  rw [← hD1] at hgoal
  obtain ⟨rq, pQ', hq1, hfin⟩ := hgoal hout
  -- the prefixed run ends at its second `NextBlock` call
  obtain ⟨p'', hq2⟩ := nextBlock_done' (blocksLP x) (quote D) (quote D).length 0 pQ' hfin.st (by omega)
  have hQrun : drain (blocksLP x) ((quote D).length + 8) (memParser (quote D)) [] = ([rq], .err .eof, p'') := by
    have e8 : (quote D).length + 8 = ((quote D).length + 6) + 1 + 1 := by omega
    rw [e8]
    conv => lhs; unfold drain
    rw [hQ1]
    have : parseLines (blocksLP x) (bpFuel (memParser (quote D))) (newOf []) 0
        ({ freshLine (memParser (quote D)) with i := lineLen (quote D) } : BP) = (.block rq, pQ') := hq1
    rw [this]
    simp only []
    conv => lhs; unfold drain
    rw [hq2]
    rfl
  refine ⟨rq, p'', hQrun, hfin.src, hfin.so, hfin.eo, ?_⟩
  have hne : isRefDefFail (drain (blocksLPc x) (D.length + 8) (memParser D) []).2.1 = false := by rw [hout]; rfl
  rw [drain_checked_eq x _ _ _ hne]
  exact hfin.rel

end

end CM.Proofs.Quote
