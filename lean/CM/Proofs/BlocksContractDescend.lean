import CM.Proofs.BlocksContractLoop
/-
C01 contract for the real block parser — `ruleMatch` and `descendOpenBlocks` under the invariant `TopA`.
-/
namespace CM.Proofs
open CM CM.Model CM.Gen

/-- The children of the document at the start of a line: none, or one open child (whose paragraph text ends at the
    start of the line). -/
def TopO (p : LP) : Prop :=
  p.root.blocks = [] ∨ ∃ k, p.root.blocks = [k] ∧ k.label.stop < 0 ∧ 0 < p.lineStart ∧ ParaT p.lineStart k

theorem TopO.toA {Q : Nat → Prop} {p : LP} (h : TopO p) : TopA Q p := by
  rcases h with h | ⟨k, h1, h2, h3, h4⟩
  · exact .empty h
  · exact .old k h1 h2 h3 h4

theorem TopO.of_eq {p p' : LP} (h : TopO p) (h1 : p'.root = p.root) (h2 : p'.lineStart = p.lineStart) : TopO p' := by
  rcases h with h | ⟨k, k1, k2, k3, k4⟩
  · exact Or.inl (by rw [h1]; exact h)
  · exact Or.inr ⟨k, by rw [h1]; exact k1, k2, by rw [h2]; exact k3, by rw [h2]; exact k4⟩

/-- What a `match` function returns: the parser unchanged up to the cursor (unchanged altogether when it did not match,
    or for a paragraph), or the line has been consumed by a fenced code block or an HTML block. -/
structure MatchT (Q : Nat → Prop) (N : Nat) (kind : Nat) (ok : Bool) (q q' : LP) : Prop where
  lt : LT Q true N q'
  st : (q'.state = stateDescending ∧ q'.root = q.root ∧ (ok = false → q' = q) ∧ (kind = BK.paragraph → q' = q)) ∨
    (q'.state = stateDescendTerminated ∧ (kind = BK.fencedCode ∨ kind = BK.htmlBlock) ∧ q'.i = q'.line.length)

theorem MatchT.self {Q : Nat → Prop} {N : Nat} {kind : Nat} {ok : Bool} {q : LP} (h : LT Q true N q)
    (hst : q.state = stateDescending) : MatchT Q N kind ok q q :=
  ⟨h, Or.inl ⟨hst, rfl, fun _ => rfl, fun _ => rfl⟩⟩

theorem MatchT.cur {Q : Nat → Prop} {N : Nat} {kind : Nat} {q q' : LP} (h : LT Q true N q) (hst : q.state = stateDescending)
    (f : CurFrame q q') (s : StateStep q.state q'.state) (hk : kind ≠ BK.paragraph) : MatchT Q N kind true q q' :=
  ⟨h.of_frame f, Or.inl ⟨by rw [s.eq_of_ne (by rw [hst]; decide)]; exact hst, f.root, fun h' => (by cases h'),
    fun h' => absurd h' hk⟩⟩

theorem ruleMatch_T {Q : Nat → Prop} {N : Nat} (x : PExt) (kind : Nat) (p : LP) (h : LT Q true N p)
    (hst : p.state = stateDescending) (hk : p.containerKind = kind) {ok : Bool} {p' : LP}
    (e : ruleMatch x kind p = some (ok, p')) : MatchT Q N kind ok p p' := by
  unfold ruleMatch at e
  split at e
  · cases e; exact MatchT.self h hst
  · split at e
    · -- list item
      rename_i hk1
      have hkp : kind ≠ BK.paragraph := by
        have : kind = BK.listItem := by simpa using hk1
        rw [this]; decide
      split at e
      · split at e
        · cases e; exact MatchT.self h hst
        · cases e; exact MatchT.cur h hst (consumeIndentN_frame p _).1 (consumeIndentN_frame p _).2 hkp
      · split at e
        · split at e
          · cases e; exact MatchT.cur h hst (consumeIndentN_frame p _).1 (consumeIndentN_frame p _).2 hkp
          · cases e; exact MatchT.self h hst
        · cases e; exact MatchT.self h hst
    · split at e
      · -- block quote
        rename_i hk1
        have hkp : kind ≠ BK.paragraph := by
          have : kind = BK.blockQuote := by simpa using hk1
          rw [this]; decide
        simp only at e
        split at e
        · cases e; exact MatchT.self h hst
        · split at e
          · cases e; exact MatchT.self h hst
          · cases e
            obtain ⟨c1, c2⟩ := consumeIndentN_frame p p.indent
            obtain ⟨a1, a2⟩ := advance_frame (p.consumeIndentN p.indent) blockQuotePrefix.length
            split
            · obtain ⟨d1, d2⟩ := consumeIndentN_frame ((p.consumeIndentN p.indent).advance blockQuotePrefix.length) 1
              exact MatchT.cur h hst ((c1.trans a1).trans d1) ((c2.trans a2).trans d2) hkp
            · exact MatchT.cur h hst (c1.trans a1) (c2.trans a2) hkp
      · split at e
        · -- fenced code
          rename_i hk1
          have hkf : kind = BK.fencedCode := by simpa using hk1
          have hkp : kind ≠ BK.paragraph := by rw [hkf]; decide
          simp only at e
          split at e
          · cases e
            obtain ⟨l1, _, l3, _⟩ := consumeLine_frame p
            exact ⟨h.of_frame l1, Or.inr ⟨l3 hst, Or.inl hkf, by rw [consumeLine_i p h.la.ile, l1.line]⟩⟩
          · cases e
            split
            · exact MatchT.cur h hst (consumeIndentN_frame p _).1 (consumeIndentN_frame p _).2 hkp
            · exact MatchT.cur h hst (consumeIndentN_frame p _).1 (consumeIndentN_frame p _).2 hkp
        · split at e
          · -- indented code
            rename_i hk1
            have hkp : kind ≠ BK.paragraph := by
              have : kind = BK.indentedCode := by simpa using hk1
              rw [this]; decide
            simp only at e
            split at e
            · split at e
              · cases e; exact MatchT.self h hst
              · cases e; exact MatchT.cur h hst (consumeIndentN_frame p _).1 (consumeIndentN_frame p _).2 hkp
            · cases e; exact MatchT.cur h hst (consumeIndentN_frame p _).1 (consumeIndentN_frame p _).2 hkp
          · split at e
            · -- HTML block
              rename_i hkh
              have hkh' : kind = BK.htmlBlock := by simpa using hkh
              split at e
              · split at e
                · cases e; exact MatchT.self h hst
                · cases e
                  have hk' : p.depth = 1 → p.containerKind ≠ BK.paragraph := fun _ => by rw [hk, hkh']; decide
                  obtain ⟨c1, _, _, c4⟩ := collectInline_LA x IK.rawHTML p.bytesAfterIndent.length h.la hk'
                  have ct := collectInline_T x IK.rawHTML p.bytesAfterIndent.length h hk'
                  obtain ⟨l1, _, l3, _⟩ := consumeLine_frame (p.collectInline x IK.rawHTML p.bytesAfterIndent.length)
                  have hst2 : (p.collectInline x IK.rawHTML p.bytesAfterIndent.length).state = stateDescending := by
                    rw [c4.eq_of_ne (by rw [hst]; decide)]; exact hst
                  exact ⟨ct.of_frame l1, Or.inr ⟨l3 hst2, Or.inr hkh', by rw [consumeLine_i _ c1.ile, l1.line]⟩⟩
              · cases e
                refine ⟨h, Or.inl ⟨hst, rfl, fun h' => (by cases h'), fun h' => ?_⟩⟩
                exact absurd (hkh'.symm.trans h') (by decide)
            · split at e
              · cases e; exact MatchT.self h hst
              · cases e

/-! ### descendLoop -/

/-- The result of `descendOpenBlocks` (from depth `parent`). -/
structure DescT (N : Nat) (fuel : Nat) (p : LP) (parent : Nat) (b : Bool) (p' : LP) : Prop where
  res : (p'.state = stateDescendTerminated ∧ SrcOK N p' ∧ (TopB N p' ∨ (TopA QB p' ∧ NoOpenPara p' ∧ 1 ≤ p'.depth))) ∨
    (p'.state ≠ stateDescendTerminated ∧ SrcOK N p' ∧ p'.root = p.root ∧ parent ≤ p'.depth ∧
      (p'.depth = parent → p'.i = p.i ∧ p'.tabPartial = p.tabPartial) ∧
      (p'.depth = parent + 1 → (∀ c, spineGet p.root (parent + 1) = some c → c.label.kind = BK.paragraph) →
        p'.i = p.i ∧ p'.tabPartial = p.tabPartial) ∧
      (b = true → fuel = 0 ∨ parent + 1 ≤ p'.depth ∨
        ¬ ∃ c, spineGet p.root (parent + 1) = some c ∧ c.isOpen = true ∧ hasMatch c.kind))

theorem DescT.stop {N : Nat} {fuel : Nat} {p : LP} {b : Bool} (hs : SrcOK N p) (hT : p.state ≠ stateDescendTerminated) (parent : Nat)
    (ham : fuel = 0 ∨ ¬ ∃ c, spineGet p.root (parent + 1) = some c ∧ c.isOpen = true ∧ hasMatch c.kind) :
    DescT N fuel p parent b { p with depth := parent } :=
  ⟨Or.inr ⟨hT, hs.of_eq rfl rfl rfl, rfl, Nat.le_refl _, fun _ => ⟨rfl, rfl⟩, fun _ _ => ⟨rfl, rfl⟩,
    fun _ => ham.elim Or.inl (fun h => Or.inr (Or.inr h))⟩⟩

theorem descendLoop_T {N : Nat} (x : PExt) : ∀ (fuel : Nat) (p : LP) (parent : Nat), LA true N p → SrcOK N p → TopO p →
    (∃ y, spineGet p.root parent = some y) →
    (p.state = stateDescendTerminated → 0 < fuel ∧ ∃ c, spineGet p.root (parent + 1) = some c ∧ c.isOpen = true ∧ hasMatch c.kind) →
    DescT N fuel p parent (descendLoop x fuel p parent).1 (descendLoop x fuel p parent).2 := by
  intro fuel
  induction fuel with
  | zero =>
    intro p parent _ hs _ _ hT
    refine DescT.stop hs (fun h' => ?_) parent (Or.inl rfl)
    have := (hT h').1; omega
  | succ fuel ih =>
    intro p parent h hs hto hd hT
    unfold descendLoop
    cases hc : spineGet p.root (parent + 1) with
    | none =>
      refine DescT.stop hs (fun h' => ?_) parent (Or.inr (fun ⟨c, hc', _⟩ => by rw [hc] at hc'; cases hc'))
      obtain ⟨_, c, hc', _⟩ := hT h'
      rw [hc] at hc'; cases hc'
    | some c =>
      simp only
      split
      · rename_i hopen
        refine DescT.stop hs (fun h' => ?_) parent (Or.inr (fun ⟨c', hc', ho', _⟩ => by
          rw [hc] at hc'; cases hc'
          rw [ho'] at hopen; cases hopen))
        obtain ⟨_, c', hc', ho', _⟩ := hT h'
        rw [hc] at hc'; cases hc'
        rw [ho'] at hopen; cases hopen
      · have h1 : LA true N { p with depth := parent + 1, state := stateDescending } :=
          ⟨h.cur, h.ile, ⟨c, hc⟩, h.root, fun h' => (by cases h')⟩
        have hk1 : ({ p with depth := parent + 1, state := stateDescending } : LP).containerKind = c.kind := by
          unfold LP.containerKind
          rw [container_eq (b := c) hc]
        have ht1 : LT QB true N { p with depth := parent + 1, state := stateDescending } :=
          ⟨h1, hs.of_eq rfl rfl rfl, (hto.of_eq (p' := { p with depth := parent + 1, state := stateDescending }) rfl rfl).toA⟩
        cases hr : ruleMatch x c.kind { p with depth := parent + 1, state := stateDescending } with
        | none =>
          refine DescT.stop hs (fun h' => ?_) parent (Or.inr (fun ⟨c', hc', _, hm'⟩ => by
            rw [hc] at hc'; cases hc'
            exact ruleMatch_none x c.kind _ hr hm'))
          obtain ⟨_, c', hc', _, hm'⟩ := hT h'
          rw [hc] at hc'; cases hc'
          obtain ⟨r, hr'⟩ := ruleMatch_some_of_hasMatch x c.kind { p with depth := parent + 1, state := stateDescending } hm'
          rw [hr'] at hr; cases hr
        | some r =>
          obtain ⟨ok, p2⟩ := r
          have hm := ruleMatch_ok x c.kind _ h1 rfl hk1 hr
          have hmt := ruleMatch_T x c.kind _ ht1 rfl hk1 hr
          have hd2 : p2.depth = parent + 1 := hm.fr.cont.depth
          simp only
          split
          · -- the rule consumed the line: close the container
            rename_i hterm
            have hterm' : p2.state = stateDescendTerminated := by simpa using hterm
            obtain ⟨hkind, hi2⟩ : (c.kind = BK.fencedCode ∨ c.kind = BK.htmlBlock) ∧ p2.i = p2.line.length := by
              rcases hmt.st with ⟨h', _⟩ | ⟨_, h'⟩
              · rw [hterm'] at h'; exact absurd h' (by decide)
              · exact h'
            have hck2 : p2.containerKind = c.kind := by rw [hm.fr.cont.kind]; exact hk1
            have hd0 : p2.depth ≠ 0 := by rw [hd2]; omega
            have tf := closeContainer_tframe x p2 (p2.lineStart + p2.i) hd0
            have hq := closeContainer_eq x p2 (p2.lineStart + p2.i) hd0
            generalize p2.closeContainer x (p2.lineStart + p2.i) = q at tf hq
            have hqs : q.state = stateDescendTerminated := by rw [hq]; exact hterm'
            have hqr : q.root = spineModify (replLast (closeBlock x p2.source (p2.lineStart + p2.i))) p2.root (p2.depth - 1) := by
              rw [hq]
            have hN : ((p2.lineStart : Int) + p2.i) = (N : Int) := by
              rw [hi2]; have := hmt.lt.src.lineLen; omega
            refine ⟨Or.inl ⟨hqs, (hmt.lt.src.of_tframe tf).of_eq rfl rfl rfl, ?_⟩⟩
            by_cases hp0 : parent = 0
            · left
              have hk1' : p2.containerKind ≠ BK.paragraph := by
                rw [hck2]; rcases hkind with h' | h' <;> rw [h'] <;> decide
              have hk2' : p2.containerKind ≠ BK.setextHeading := by
                rw [hck2]; rcases hkind with h' | h' <;> rw [h'] <;> decide
              have := hmt.lt.top.closeN x (N := N) (by rw [hd2, hp0]) hm.la.dv hk1' hk2' hmt.lt.src.lt
              refine this.of_eq ?_ tf.source tf.lineStart
              show q.root = _
              rw [hqr, hd2, hp0, hN]
              simp only [Nat.sub_self, spineModify_zero]
            · right
              have hd22 : 2 ≤ p2.depth := by rw [hd2]; omega
              have hnu : Univ p2.containerKind = false := by
                rw [hck2]; rcases hkind with h' | h' <;> rw [h'] <;> decide
              have t1 := (hmt.lt.top.closeDeep x (p2.lineStart + p2.i) hd22 hnu).mono qu_qb
              have t2 := noOpenPara_replDeep (closeBlock x p2.source (p2.lineStart + p2.i))
                (noOpenPara_depth2 hm.la hd22) hd22
              refine ⟨t1.of_eq hqr ?_ tf.source tf.lineStart, ?_, by simp only; omega⟩
              · show parent = p2.depth - 1
                omega
              · intro c hc
                apply t2 c
                show (spineModify _ p2.root (p2.depth - 1)).blocks.getLast? = some c
                rw [← hqr]; exact hc
          · rename_i hterm
            have hterm' : p2.state ≠ stateDescendTerminated := by simpa using hterm
            obtain ⟨hst2, hroot2, hno, hpara⟩ : p2.state = stateDescending ∧
                p2.root = ({ p with depth := parent + 1, state := stateDescending } : LP).root ∧
                (ok = false → p2 = { p with depth := parent + 1, state := stateDescending }) ∧
                (c.kind = BK.paragraph → p2 = { p with depth := parent + 1, state := stateDescending }) := by
              rcases hmt.st with h' | ⟨h', _⟩
              · exact h'
              · exact absurd h' hterm'
            have hroot2' : p2.root = p.root := hroot2
            split
            · -- not matched
              rename_i hok
              have hok' : ok = false := by simpa using hok
              have he := hno hok'
              refine ⟨Or.inr ⟨hterm', hmt.lt.src.of_eq rfl rfl rfl, hroot2', Nat.le_refl _, fun _ => ?_, fun h' => ?_,
                fun h' => (by cases h')⟩⟩
              · rw [he]; exact ⟨rfl, rfl⟩
              · simp only at h'; omega
            · -- matched: go down
              have hto2 : TopO p2 := hto.of_eq hroot2' hm.fr.lineStart
              have ih' := ih p2 (parent + 1) hm.la hmt.lt.src hto2 ⟨c, by rw [hroot2']; exact hc⟩
                (fun h' => absurd h' hterm')
              rcases ih'.res with h' | ⟨r1, r2, r3, r4, r5, r6, _⟩
              · exact ⟨Or.inl h'⟩
              · refine ⟨Or.inr ⟨r1, r2, r3.trans hroot2', by omega, fun h' => by omega, fun h' hk => ?_,
                  fun _ => Or.inr (Or.inl r4)⟩⟩
                have hk' : c.kind = BK.paragraph := hk c hc
                have he := hpara hk'
                obtain ⟨r51, r52⟩ := r5 h'
                exact ⟨r51.trans (by rw [he]), r52.trans (by rw [he])⟩

theorem descendOpenBlocks_T {N : Nat} (x : PExt) (p : LP) (h : LA true N p) (hs : SrcOK N p) (hto : TopO p)
    (hT : p.state = stateDescendTerminated → ∃ c, spineGet p.root 1 = some c ∧ c.isOpen = true ∧ hasMatch c.kind) :
    DescT N (spineLength p.root + 1) p 0 (descendOpenBlocks x p).1 (descendOpenBlocks x p).2 :=
  descendLoop_T x _ p 0 h hs hto ⟨p.root, spineGet_zero _⟩ (fun h' => ⟨Nat.succ_pos _, hT h'⟩)

end CM.Proofs
