import CM.Proofs.ParseWholeGrammarRewrite3
/-
C05 for the whole of `Parse`: the node grammar `Spec.grammar` of the tree of every root on which the inline phase
completed (inputs without NUL bytes, because of the marker clause of the block half).

* `parse_grammar_nodes`: the root kind, `Spec.grammarAt` and `Spec.orderedItemOK` at EVERY node — block and inline
  clauses — with no further hypothesis;
* `parse_grammar_partial`: `Spec.grammar`, given the one clause that is left, `Spec.noNestedLink` of the final tree
  (decidable); `parse_grammar_iff`: `Spec.grammar` holds exactly when `noNestedLink` does.
-/
namespace CM.Proofs.PW
open CM CM.Model CM.Gen CM.Spec
open CM.Proofs.BT CM.Proofs.BG CM.Proofs.RK CM.Proofs.InlH

/-- The block-phase tree of a parsed root satisfies the preconditions of `InlH.rewriteE_grammar`. -/
theorem parse_pre1 (x : PExt) (ix : IExt) (inp : Bytes) (hz : ∀ c ∈ inp, c ≠ 0) :
    ∀ pr ∈ (parseDoc x ix inp).roots,
      Pre1 pr.root.source (pbToTree pr.root.block) ∧ rootKindOK (pbToTree pr.root.block) = true := by
  intro pr hpr
  have hg := drain_grammar_phase1 x _ inp hz pr.root (root_mem_drain x ix inp pr hpr)
  unfold grammarPhase1 at hg
  simp only [Bool.and_eq_true, List.all_eq_true] at hg
  have hp := parse_inlinePre x ix inp pr hpr
  exact ⟨⟨fun u hu => hg.1.2 u hu, hp.hflat⟩, hg.1.1⟩

/-- **C05, clauses (i) and (ii) and the block half, for the whole of `Parse`**: the root is a container child and every
    node of the final tree — block or inline, at any depth — satisfies `Spec.grammarAt` and `Spec.orderedItemOK`. -/
theorem parse_grammar_nodes (x : PExt) (ix : IExt) (inp : Bytes) (hz : ∀ c ∈ inp, c ≠ 0) :
    ∀ pr ∈ (parseDoc x ix inp).roots, ∀ t', pr.tree = .ok t' →
      rootKindOK t' = true ∧
      (T.nodes t').all (fun t => grammarAt t && orderedItemOK pr.root.source t) = true := by
  intro pr hpr t' ht
  rw [parseDoc_tree x ix inp pr hpr] at ht
  obtain ⟨hP, hroot⟩ := parse_pre1 x ix inp hz pr hpr
  have hp := parse_inlinePre x ix inp pr hpr
  obtain ⟨hl, hn⟩ := rewriteE_grammar ix _ _ _ pr.root.source _ t' hP hp.hroot ht
  refine ⟨?_, ?_⟩
  · unfold rootKindOK isContainerChild T.isBlock T.kind at hroot ⊢
    rw [hl]; exact hroot
  · rw [List.all_eq_true]
    intro u hu
    rw [Bool.and_eq_true]
    exact hn u hu

/-- In particular: every top-level inline child of a paragraph / heading is phrasing content, links and images have
    the children `Spec.linkTail` allows, reference links have no destination or title, … (`Spec.grammarAt` at the
    inline nodes). -/
theorem parse_grammarAt (x : PExt) (ix : IExt) (inp : Bytes) (hz : ∀ c ∈ inp, c ≠ 0) :
    ∀ pr ∈ (parseDoc x ix inp).roots, ∀ t', pr.tree = .ok t' → ∀ u ∈ T.nodes t', grammarAt u = true := by
  intro pr hpr t' ht u hu
  have := (parse_grammar_nodes x ix inp hz pr hpr t' ht).2
  rw [List.all_eq_true] at this
  have := this u hu
  rw [Bool.and_eq_true] at this
  exact this.1

/-- **C05 as one theorem, up to the no-nested-link clause.** -/
theorem parse_grammar_partial (x : PExt) (ix : IExt) (inp : Bytes) (hz : ∀ c ∈ inp, c ≠ 0) :
    ∀ pr ∈ (parseDoc x ix inp).roots, ∀ t', pr.tree = .ok t' → noNestedLink t' = true →
      grammar pr.root.source t' = true := by
  intro pr hpr t' ht hn
  obtain ⟨h1, h2⟩ := parse_grammar_nodes x ix inp hz pr hpr t' ht
  unfold grammar
  rw [h1, h2, hn]; rfl

/-- `Spec.grammar` of a parsed root is exactly `Spec.noNestedLink`. -/
theorem parse_grammar_iff (x : PExt) (ix : IExt) (inp : Bytes) (hz : ∀ c ∈ inp, c ≠ 0) :
    ∀ pr ∈ (parseDoc x ix inp).roots, ∀ t', pr.tree = .ok t' →
      grammar pr.root.source t' = noNestedLink t' := by
  intro pr hpr t' ht
  obtain ⟨h1, h2⟩ := parse_grammar_nodes x ix inp hz pr hpr t' ht
  unfold grammar
  rw [h1, h2]; rfl

/-- The full statement (the coordinator's target); `parse_grammar_partial` proves it from `noNestedLink`. -/
def parse_grammar_target : Prop :=
  ∀ (x : PExt) (ix : IExt) (inp : Bytes), (∀ c ∈ inp, c ≠ 0) →
    ∀ pr ∈ (parseDoc x ix inp).roots, ∀ t', pr.tree = .ok t' → grammar pr.root.source t' = true

/-! ### Non-vacuity -/

section Examples

/-- A heading with emphasis and strong emphasis, a list (bullet item with a code span and an autolink, then an ordered
    list), a block quote with a hard line break.  (No link destination / definition: `decide +kernel` does not evaluate
    `collectTextNodes`.) -/
def pwGrDoc : Bytes := Bytes.ofString "# H *a* **b _c_**\n\n- x `c` <http://e.f>\n\n1. y\\\n   z\n\n> q\n"

example : ∀ c ∈ pwGrDoc, c ≠ 0 := by decide +kernel
example : (parseDoc exX exIX pwGrDoc).roots.length = 4 := by decide +kernel
example : ∀ pr ∈ (parseDoc exX exIX pwGrDoc).roots, treeOk pr = true := by decide +kernel

-- the inline kinds in the final trees: Text 1, HardBreak 3, Emphasis 7, Strong 8, CodeSpan 14, Autolink 15
example : (parseDoc exX exIX pwGrDoc).roots.map (fun pr =>
    ((T.nodes (finalTree pr)).filter (fun u => !u.label.isBlock)).map (fun u => u.label.kind)) =
    [[1, 7, 1, 1, 8, 1, 7, 1], [1, 14, 1, 1, 15, 1], [1, 3, 1], [1]] := by decide +kernel

-- the theorem, on that document: `grammarAt` and `orderedItemOK` at every node of every root
example : ∀ pr ∈ (parseDoc exX exIX pwGrDoc).roots,
    rootKindOK (finalTree pr) = true ∧
    (T.nodes (finalTree pr)).all (fun t => grammarAt t && orderedItemOK pr.root.source t) = true :=
  fun pr hpr => parse_grammar_nodes exX exIX pwGrDoc (by decide +kernel) pr hpr _
    (tree_of_treeOk ((by decide +kernel : ∀ pr ∈ (parseDoc exX exIX pwGrDoc).roots, treeOk pr = true) pr hpr))

-- … and the whole of `Spec.grammar`, the last clause by evaluation
example : ∀ pr ∈ (parseDoc exX exIX pwGrDoc).roots, grammar pr.root.source (finalTree pr) = true :=
  fun pr hpr => parse_grammar_partial exX exIX pwGrDoc (by decide +kernel) pr hpr _
    (tree_of_treeOk ((by decide +kernel : ∀ pr ∈ (parseDoc exX exIX pwGrDoc).roots, treeOk pr = true) pr hpr))
    ((by decide +kernel : ∀ pr ∈ (parseDoc exX exIX pwGrDoc).roots, noNestedLink (finalTree pr) = true) pr hpr)

example : ∀ pr ∈ (parseDoc exX exIX pwGrDoc).roots,
    grammar pr.root.source (finalTree pr) = noNestedLink (finalTree pr) :=
  fun pr hpr => parse_grammar_iff exX exIX pwGrDoc (by decide +kernel) pr hpr _
    (tree_of_treeOk ((by decide +kernel : ∀ pr ∈ (parseDoc exX exIX pwGrDoc).roots, treeOk pr = true) pr hpr))

-- reference links and images (`pwMainDoc`, `ParseWholeMain.lean`): the rule holds at the Link (9) and the Image (10)
example : ∀ c ∈ pwMainDoc, c ≠ 0 := by decide +kernel
example : ∀ pr ∈ (parseDoc exX exIX pwMainDoc).roots, ∀ u ∈ T.nodes (finalTree pr), grammarAt u = true :=
  fun pr hpr => parse_grammarAt exX exIX pwMainDoc (by decide +kernel) pr hpr _
    (tree_of_treeOk ((by decide +kernel : ∀ pr ∈ (parseDoc exX exIX pwMainDoc).roots, treeOk pr = true) pr hpr))

end Examples

end CM.Proofs.PW
