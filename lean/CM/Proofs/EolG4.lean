import CM.Proofs.EolG3
import CM.Proofs.RefDefSpansSetext
import CM.Proofs.EolStarts3
/-
C14 (a), block phase with link reference definitions — part 4: the orphan paragraph of a setext heading starts with the
underline character (so it is `ParaFineB`), and closing the container of `startSetext`.
-/
namespace CM.Proofs.EolG
open CM CM.Model CM.Gen CM.Proofs CM.Proofs.RDS CM.Proofs.BSp CM.Proofs.ERd CM.Proofs.BG CM.Proofs.BT

/-- The orphan paragraph of a setext heading whose lines end at or before the start `ls` of the underline line: its text is
    one node that does not begin with `[` (it begins with the underline character). -/
theorem orphan_noBracket {src : Bytes} {bd : Int} (l : PLabel) (is : List Tree) (ls : Nat)
    (hN : ∀ t ∈ is, NodeOK src t ∧ t.label.stop ≤ bd) (hbd : bd ≤ (ls : Int)) (hstop : l.stop = (src.length : Int))
    (A bai : Bytes) (hsrc : src = A ++ bai) (hA : ls ≤ A.length) (hbai : parseSetextHeadingUnderline bai ≠ 0) :
    ∃ (s : Int) (node : Tree), orphanOf src l is = mkPB BK.paragraph s (-1) [node] ∧ RDS.NoBracket src [node] := by
  obtain ⟨c, m, w, hcws, hcb, hm, hbaie, hw⟩ := underline_shape bai hbai
  have hbs : ((is.getLast?.map (fun t : Tree => t.label.stop)).getD 0).toNat ≤ ls := by
    cases hgl : is.getLast? with
    | none => simp
    | some t =>
      have := (hN t (List.mem_of_getLast? hgl)).2
      simp only [Option.map_some, Option.getD_some]
      omega
  generalize hbsd : (is.getLast?.map (fun t : Tree => t.label.stop)).getD 0 = bs at hbs
  have hstopN : l.stop.toNat = src.length := by rw [hstop]; simp
  have hbody : (src.take l.stop.toNat).drop bs.toNat = A.drop bs.toNat ++ (List.replicate m c ++ w) := by
    rw [hstopN, List.take_length, hsrc, List.drop_append_of_le_length (by omega), hbaie]
  obtain ⟨rest', h1, h2, h3⟩ := scanBack c hcws (A.drop bs.toNat) w m hm hw _ hbody
  have horph : orphanOf src l is = mkPB BK.paragraph bs (-1)
      [mkInline IK.unparsed ((bs.toNat + (((((src.take l.stop.toNat).drop bs.toNat).reverse.dropWhile isSpaceTabOrLineEnding).dropWhile (· == c)).length : Nat) : Nat)) l.stop] := by
    unfold orphanOf
    simp only [hbsd]
    rw [h1]
  refine ⟨bs, _, horph, ?_⟩
  generalize hk : ((((src.take l.stop.toNat).drop bs.toNat).reverse.dropWhile isSpaceTabOrLineEnding).dropWhile (· == c)).length = kk at h2 h3
  have hlen : ((src.take l.stop.toNat).drop bs.toNat).length = src.length - bs.toNat := by
    rw [hstopN, List.take_length, List.length_drop]
  rw [hlen] at h2
  have hget : src.getD (bs.toNat + kk) 0 = c := by
    rw [← h3, hstopN, List.take_length, getD_drop_add]
  refine ⟨_, [], rfl, rfl, ?_, ?_, ?_, ?_⟩
  · show (0 : Int) ≤ ((bs.toNat + kk : Nat) : Int)
    exact Int.natCast_nonneg _
  · show ((bs.toNat + kk : Nat) : Int) < l.stop
    rw [hstop]; omega
  · show ((bs.toNat + kk : Nat) : Int) < (src.length : Int)
    omega
  · show src.getD ((bs.toNat + kk : Nat) : Int).toNat 0 ≠ 0x5B
    rw [Int.toNat_natCast, hget]
    exact hcb

section
variable {e X body nl : Bytes} {k : Nat} {bd : Int} {p : LP}

/-- The blocks `close` returns for the (open) setext heading of `startSetext`: closed blocks, and possibly the orphan
    paragraph, which is fine. -/
theorem closeSetext_fine (x : PExt) (l : PLabel) (bs : List PB) (is : List Tree) (ho : l.stop < 0)
    (hkS : l.kind = BK.setextHeading) (hbs : ∀ c ∈ bs, FineT e X k bd c) (hP : ParaFineB e X k bd is) (ls : Nat)
    (hbd : bd ≤ (ls : Int)) (A bai : Bytes) (hsrc : X.take k = A ++ bai) (hA : ls ≤ A.length)
    (hbai : parseSetextHeadingUnderline bai ≠ 0) :
    FineAll e X k bd (closeBlock x (X.take k) ((X.take k).length : Int) (.mk l bs is)) := by
  rw [closeBlock_setext x _ _ l bs is ho hkS]
  have h0 : (0 : Int) ≤ ((X.take k).length : Int) := Int.natCast_nonneg _
  cases is with
  | nil =>
    unfold onCloseParagraph
    exact FineAll.single (fineT_of _ _ _ (Or.inl h0) hbs)
  | cons first rest =>
    rw [onCloseParagraph_cons]
    rcases hP with hnb | ⟨hc, _, _, hstops⟩
    · have c1 := current_of_noBracket hnb first rest rfl
      simp only [List.length_cons]
      rw [refDefLoop_no_bracket x _ _ _ _ _ _ c1]
      exact fine_closed_leaf _ _ h0
    · apply refDefLoop_fine x _ _ _ _ _ _ [] _ h0 (fun _ h => absurd h List.not_mem_nil)
      intro o hoo
      have hks : ({ l with stop := ((X.take k).length : Int) } : PLabel).kind == BK.setextHeading := by
        show (l.kind == BK.setextHeading) = true
        rw [hkS]; rfl
      rw [if_pos hks] at hoo
      simp only [Option.some.injEq] at hoo
      subst hoo
      obtain ⟨s, node, h1, h2⟩ := orphan_noBracket (src := X.take k) (bd := bd) { l with stop := ((X.take k).length : Int) }
        (first :: rest) ls (fun t ht => ⟨hc.ok t ht, hstops t ht⟩) hbd rfl A bai hsrc hA hbai
      rw [h1]
      apply FineAll.single
      rw [mkPB, FineT_mk]
      exact ⟨⟨fun _ _ => Or.inl h2, fun _ => show BK.paragraph ≠ BK.setextHeading by decide⟩, fun _ h => absurd h List.not_mem_nil⟩

/-- The tree operation of `startSetext` on a fine tree whose container (depth `d + 1`) is a paragraph. -/
theorem setext_fine (x : PExt) (root : PB) (d : Nat) (n : Int) (ls : Nat) (hg : FineT e X k bd root)
    (P : PB) (hP : spineGet root (d + 1) = some P) (hkP : P.kind = BK.paragraph) (hbd : bd ≤ (ls : Int))
    (A bai : Bytes) (hsrc : X.take k = A ++ bai) (hA : ls ≤ A.length) (hbai : parseSetextHeadingUnderline bai ≠ 0) :
    FineT e X k bd (spineReplaceLast (closeBlock x (X.take k) ((X.take k).length : Int))
      (spineModify (PB.setLabel fun l => { l with kind := BK.setextHeading, n := n }) root (d + 1)) d) := by
  rw [spineReplaceLast_eq, BSp.spineModify_comp]
  apply fineT_spineModify_at _ d root hg
  intro b hb hbg
  obtain ⟨l, bs, is⟩ := b
  have hgl : bs.getLast? = some P := by
    have := spineGet_succ_eq root d
    rw [hP, hb] at this
    simpa [PB.blocks] using this.symm
  obtain ⟨lP, bsP, isP⟩ := P
  simp only [PB.kind, PB.label] at hkP
  rw [FineT_mk] at hbg
  have hPg := hbg.2 _ (List.mem_of_getLast? hgl)
  rw [FineT_mk] at hPg
  have hnew : replaceLastFn (closeBlock x (X.take k) ((X.take k).length : Int))
      (spineModify (PB.setLabel fun l => { l with kind := BK.setextHeading, n := n }) (PB.mk l bs is) 1)
      = PB.mk l (bs.dropLast ++ closeBlock x (X.take k) ((X.take k).length : Int)
          (.mk { lP with kind := BK.setextHeading, n := n } bsP isP)) is := by
    rw [spineModify_succ, hgl]
    simp only [spineModify_zero, replaceLastFn, List.getLast?_append, List.getLast?_singleton, Option.some_or,
      List.dropLast_concat, PB.setLabel]
  show FineT e X k bd (replaceLastFn _ _)
  rw [hnew, FineT_mk]
  refine ⟨hbg.1, ?_⟩
  have hcl : FineAll e X k bd (closeBlock x (X.take k) ((X.take k).length : Int)
      (.mk { lP with kind := BK.setextHeading, n := n } bsP isP)) := by
    by_cases ho : lP.stop < 0
    · exact closeSetext_fine x _ bsP isP ho rfl hPg.2 (hPg.1.1 ho hkP) ls hbd A bai hsrc hA hbai
    · rw [closeBlock, if_pos (by show lP.stop ≥ 0; omega)]
      exact FineAll.single (fineT_of _ _ _ (Or.inl (by show 0 ≤ lP.stop; omega)) hPg.2)
  intro c hc
  rcases List.mem_append.mp hc with h' | h'
  · exact hbg.2 c ((List.dropLast_sublist bs).subset h')
  · exact hcl c h'

/-- The weaker invariant after the relabelling of `startSetext`. -/
theorem fineS_relabel (root : PB) (d : Nat) (n : Int) (hg : FineT e X k bd root) (P : PB) (hP : spineGet root d = some P)
    (hkP : P.kind = BK.paragraph) :
    FineS e X k bd (spineModify (PB.setLabel fun l => { l with kind := BK.setextHeading, n := n }) root d) := by
  have key : ∀ (d : Nat) (b : PB), FineT e X k bd b → spineGet b d = some P →
      FineS e X k bd (spineModify (PB.setLabel fun l => { l with kind := BK.setextHeading, n := n }) b d) := by
    intro d
    induction d with
    | zero =>
      intro b hb hg0
      simp only [spineGet, Option.some.injEq] at hg0
      subst hg0
      obtain ⟨l, bs, is⟩ := b
      simp only [PB.kind, PB.label] at hkP
      rw [spineModify_zero, PB.setLabel, FineS_mk]
      rw [FineT_mk] at hb
      refine ⟨fun ho _ => hb.1.1 ho hkP, fun c hc => (hb.2 c hc).toS⟩
    | succ d ih =>
      intro b hb hg0
      obtain ⟨l, bs, is⟩ := b
      simp only [spineGet] at hg0
      cases hgl : bs.getLast? with
      | none => rw [hgl] at hg0; cases hg0
      | some c =>
        rw [hgl] at hg0
        rw [spineModify_succ, hgl]
        simp only []
        have hbT := (FineT.toS _ hb)
        rw [FineT_mk] at hb
        rw [FineS_mk] at hbT ⊢
        refine ⟨hbT.1, ?_⟩
        intro b' hb'
        rcases mem_dropLast_append hb' with h1 | h1
        · exact hbT.2 b' h1
        · simp only [List.mem_singleton] at h1
          subst h1
          exact ih c (hb.2 c (List.mem_of_getLast? hgl)) hg0
  exact key d root hg hP

end

end CM.Proofs.EolG
