import CM.Proofs.InlForestRun
import CM.Proofs.InlSpanDefs
/-
C02, inline half — the exact effect of `wrap` on the state (independent of any invariant): with
`kids(P) = A ++ sn :: (M ++ T)` (`P` the parent of `sn`, `M` the children up to the end node), the new node gets the
children `M`, `P` gets `A ++ [sn, new] ++ T`, and `parentMap` is updated for `M` and the new node.
-/
namespace CM.Proofs.InlH
open CM CM.Model CM.Model.Inl
open Std.Do

set_option mvcgen.warning false

theorem arr_get_lt (A R : List Nat) (j : Nat) (hj : j < A.length) : ((A ++ R).toArray)[j]! ∈ A := by
  rw [List.getElem!_toArray, getElem!_pos (A ++ R) j (by simp; omega), List.getElem_append_left hj]
  exact List.getElem_mem hj

theorem arr_get_mid (A R : List Nat) (x : Nat) : ((A ++ x :: R).toArray)[A.length]! = x := by
  rw [List.getElem!_toArray, getElem!_pos (A ++ x :: R) A.length (by simp)]
  simp

theorem wrap_si (A R : List Nat) (sn r : Nat) (hA : sn ∉ A) (h1 : 1 ≤ r) (h2 : r ≤ A.length + 1)
    (h : ¬((A ++ sn :: R).toArray.size == 0 || (A ++ sn :: R).toArray[r - 1]! != sn) = true) : r = A.length + 1 := by
  rcases Nat.lt_or_eq_of_le h2 with h3 | h3
  · exfalso
    simp only [Bool.or_eq_true, beq_iff_eq, bne_iff_ne, ne_eq, not_or, Decidable.not_not] at h
    have := arr_get_lt A (sn :: R) (r - 1) (by omega)
    rw [h.2] at this
    exact hA this
  · exact h3

theorem wrap_kids_new (A M T : List Nat) (sn : Nat) :
    (A ++ sn :: (M ++ T)).toArray.extract (A.length + 1) (A.length + 1 + M.length) = M.toArray := by
  have : A ++ sn :: (M ++ T) = (A ++ [sn]) ++ M ++ T := by simp
  rw [this]
  have h2 : A.length + 1 = (A ++ [sn]).length := by simp
  rw [h2]
  simp [List.extract_toArray, List.extract_eq_take_drop]

theorem arr_get_add (A R : List Nat) (j : Nat) : ((A ++ R).toArray)[A.length + j]! = (R.toArray)[j]! := by
  simp only [List.getElem!_toArray]
  by_cases hj : j < R.length
  · rw [getElem!_pos (A ++ R) _ (by simp; omega), getElem!_pos R j hj, List.getElem_append_right (by omega)]
    simp
  · rw [getElem!_neg (A ++ R) _ (by simp; omega), getElem!_neg R j hj]

theorem wrap_kids_par (A M T : List Nat) (sn x : Nat) :
    ((A ++ sn :: (M ++ T)).toArray.extract 0 (A.length + 1)).push x ++
      (A ++ sn :: (M ++ T)).toArray.extract (A.length + 1 + M.length) (A ++ sn :: (M ++ T)).toArray.size =
    (A ++ [sn, x] ++ T).toArray := by
  have e1 : List.take (A.length + 1) (A ++ sn :: (M ++ T)) = A ++ [sn] := by
    rw [show A ++ sn :: (M ++ T) = (A ++ [sn]) ++ (M ++ T) by simp]
    exact List.take_left' (by simp)
  have e2 : List.drop (A.length + 1 + M.length) (A ++ sn :: (M ++ T)) = T := by
    rw [show A ++ sn :: (M ++ T) = (A ++ [sn] ++ M) ++ T by simp]
    exact List.drop_left' (by simp; omega)
  simp only [List.extract_toArray, List.extract_eq_take_drop, List.size_toArray, List.drop_zero, Nat.sub_zero, e1, e2,
    List.push_toArray, List.append_toArray]
  rw [List.take_of_length_le (by simp; omega)]
  simp

/-- index `|A| + 1 + j` of `A ++ sn :: (M ++ T)` -/
theorem arr_get_M (A M T : List Nat) (sn j : Nat) (hj : j < M.length) :
    ((A ++ sn :: (M ++ T)).toArray)[A.length + 1 + j]! ∈ M := by
  have e : A ++ sn :: (M ++ T) = (A ++ [sn]) ++ (M ++ T) := by simp
  have h2 : A.length + 1 + j = (A ++ [sn]).length + j := by simp
  rw [e, h2, arr_get_add]
  exact arr_get_lt M T j hj

theorem arr_get_T (A M B : List Nat) (sn c : Nat) :
    ((A ++ sn :: (M ++ c :: B)).toArray)[A.length + 1 + M.length]! = c := by
  have e : A ++ sn :: (M ++ c :: B) = (A ++ [sn] ++ M) ++ c :: B := by simp
  have h2 : A.length + 1 + M.length = (A ++ [sn] ++ M).length := by simp; omega
  rw [e, h2]
  exact arr_get_mid _ _ _

theorem join_set! (pm : Array (Option Nat)) (j v i : Nat) (hj : j < pm.size) :
    ((pm.set! j (some v))[i]?).join = if i = j then some v else (pm[i]?).join := by
  rw [Array.set!_eq_setIfInBounds, Array.getElem?_setIfInBounds]
  by_cases h : j = i
  · subst h; simp [hj]
  · rw [if_neg h, if_neg (fun h' => h h'.symm)]

theorem join_push_none (pm : Array (Option Nat)) (i : Nat) : (((pm.push none))[i]?).join = (pm[i]?).join := by
  rw [Array.getElem?_push]
  split
  · rename_i h; subst h; simp
  · rfl

theorem range_len (n : Nat) : ([:n] : Std.Legacy.Range).toList.length = n := by
  simp

/-- `parentMap` as a function. -/
def pmOf (s : IState) (i : Nat) : Option Nat := (s.parentMap[i]?).join

/-- The node `wrap` allocates. -/
def wrapNode (s0 : IState) (kind sn : Nat) (en : Option Nat) (P : Nat) : INode :=
  { kind := kind, start := (s0.nodes[sn]!).stop,
    stop := match en with
      | some e => (s0.nodes[e]!).start
      | none => (s0.nodes[P]!).stop }

/-- The arena after `wrap`. -/
def wrapNodes (s0 : IState) (kind sn : Nat) (en : Option Nat) (P : Nat) (A M T : List Nat) : Array INode :=
  ((s0.nodes.push (wrapNode s0 kind sn en P)).modify s0.nodes.size (fun n => { n with kids := M.toArray })).modify P
    (fun n => { n with kids := (A ++ [sn, s0.nodes.size] ++ T).toArray })

/-- The state of `wrap` after `alloc` and `setParent`, during the two index searches. -/
def wrapMid (s0 : IState) (kind sn : Nat) (en : Option Nat) (P : Nat) : IState :=
  { s0 with nodes := s0.nodes.push (wrapNode s0 kind sn en P),
            parentMap := (s0.parentMap.push none).set! s0.nodes.size (some P) }

theorem wrap_exact (kind sn : Nat) (en : Option Nat) (s0 : IState) (P : Nat) (A M T : List Nat)
    (hP : pmOf s0 sn = some P)
    (hk : (s0.nodes[P]!).kids = (A ++ sn :: (M ++ T)).toArray)
    (hA : sn ∉ A)
    (hen : match en with | some c => ((∃ B, T = c :: B) ∨ T = []) ∧ c ∉ M | none => T = [])
    (hsz : s0.parentMap.size = s0.nodes.size)
    (hM : ∀ k ∈ M, k < s0.nodes.size) :
    ⦃fun s => ⌜s = s0⌝⦄ wrap kind sn en
    ⦃⇓? r s => ⌜r = s0.nodes.size ∧
        s.nodes = wrapNodes s0 kind sn en P A M T ∧
        s.stack = s0.stack ∧ s.unparsedPos = s0.unparsedPos ∧ s.ignoreNextIndent = s0.ignoreNextIndent ∧
        s.parentMap.size = s0.nodes.size + 1 ∧
        (∀ i, pmOf s i = if i ∈ M then some s0.nodes.size else if i = s0.nodes.size then some P else pmOf s0 i)⌝⦄ := by
  mvcgen [wrap, alloc, setParent, modifyNode, -wrap_spec, -wrap_specS]
  case inv1 =>
    exact PostCond.mayThrow (fun (p : _ × Nat) s =>
      ⌜s = wrapMid s0 kind sn en P ∧ 1 ≤ p.2 ∧ p.2 ≤ A.length + 1⌝)
  case inv3 => exact PostCond.mayThrow (fun (_ : _ × PUnit) _ => ⌜True⌝)
  case inv4 =>
    exact PostCond.mayThrow (fun (p : _ × Nat) s =>
      ⌜s = wrapMid s0 kind sn en P ∧ A.length + 1 ≤ p.2 ∧ p.2 ≤ A.length + 1 + M.length ∧
        (p.1.suffix = [] → p.2 = A.length + 1 + M.length) ∧
        (p.1.suffix ≠ [] → p.2 = A.length + 1 + p.1.prefix.length)⌝)
  case inv5 =>
    exact PostCond.mayThrow (fun (p : _ × PUnit) s =>
      ⌜s.nodes = wrapNodes s0 kind sn en P A M T ∧ s.stack = s0.stack ∧ s.unparsedPos = s0.unparsedPos ∧
        s.ignoreNextIndent = s0.ignoreNextIndent ∧ s.parentMap.size = s0.nodes.size + 1 ∧
        (∀ i, pmOf s i = if i ∈ p.1.prefix then some s0.nodes.size
                         else if i = s0.nodes.size then some P else pmOf s0 i)⌝)
  inl_norm
  -- facts used by all conditions: the parent is `P`, its children are `A ++ sn :: M ++ T`
  all_goals (try (have hx := ‹Option.join _ = some _›))
  all_goals (try subst_vars)
  all_goals (try (have hpar : _ = P := Option.some.inj (Eq.trans (Eq.symm hx) hP)))
  all_goals (try subst hpar)
  all_goals (try simp -failIfUnchanged +zetaDelta only [] at *)
  case vc1 => assumption
  case vc2 => assumption
  case vc3 =>
    obtain ⟨h1, h2, h3⟩ := ‹_ ∧ 1 ≤ _ ∧ _›
    refine ⟨h1, by omega, ?_⟩
    have hne := ‹¬(_ == sn) = true›
    rw [hk] at hne
    rcases Nat.lt_or_eq_of_le h3 with hb | hb
    · omega
    · exfalso; apply hne
      rw [hb, Nat.add_sub_cancel, arr_get_mid]; simp
  case vc4 => exact ⟨rfl, by omega, by omega⟩
  case vc12 =>
    obtain ⟨h1, h2, h3, h4, h5⟩ := ‹_ ∧ _ ≤ _ ∧ _ ≤ _ ∧ _ ∧ _›
    have hb := ‹(!decide (_ < _)) = true›
    simp only [hk, Bool.not_eq_true', decide_eq_false_iff_not, List.size_toArray, List.length_append,
      List.length_cons] at hb
    exact ⟨h1, h2, h3, fun _ => by omega, fun h => absurd rfl h⟩
  case vc13 =>
    obtain ⟨h1, h2, h3, h4, h5⟩ := ‹_ ∧ _ ≤ _ ∧ _ ≤ _ ∧ _ ∧ _›
    have he := ‹(some _ == en) = true›
    simp only [hk, beq_iff_eq] at he
    obtain ⟨j, hj⟩ := Nat.exists_eq_add_of_le h2
    subst hj
    refine ⟨h1, h2, h3, fun _ => ?_, fun h => absurd rfl h⟩
    rcases Nat.lt_or_eq_of_le h3 with hb | hb
    · exfalso
      cases en with
      | none => cases he
      | some c =>
        have hm := arr_get_M A M T sn j (by omega)
        rw [Option.some.inj he] at hm
        exact hen.2 hm
    · exact hb
  case vc14 =>
    obtain ⟨h1, h2, h3, h4, h5⟩ := ‹_ ∧ _ ≤ _ ∧ _ ≤ _ ∧ _ ∧ _›
    have he := ‹¬(some _ == en) = true›
    have hlt := ‹¬(!decide (_ < _)) = true›
    have hrange := ‹_ = _ ++ _ :: _›
    have hlen := congrArg List.length hrange
    simp only [hk, range_len, List.size_toArray, List.length_append, List.length_cons] at hlen hlt he
    simp only [Bool.not_eq_true', decide_eq_false_iff_not, Decidable.not_not] at hlt
    obtain ⟨j, hj⟩ := Nat.exists_eq_add_of_le h2
    subst hj
    have h5' := h5 (by simp)
    refine ⟨h1, by omega, ?_, ?_, ?_⟩
    · rcases Nat.lt_or_eq_of_le h3 with hb | hb
      · omega
      · exfalso
        have hjm : j = M.length := by omega
        subst hjm
        cases hen' : en with
        | none => rw [hen'] at hen; simp only [] at hen; rw [hen] at hlt; simp at hlt; omega
        | some c =>
          rw [hen'] at hen he
          obtain ⟨⟨B, rfl⟩ | rfl, _⟩ := hen
          · apply he
            rw [arr_get_T]; simp
          · simp at hlt; omega
    · intro hs; subst hs; simp at hlen; omega
    · intro _; simp only [List.length_append, List.length_cons, List.length_nil]; omega
  case vc15 =>
    obtain ⟨h1, h2, h3⟩ := ‹_ ∧ 1 ≤ _ ∧ _›
    have hchk := ‹¬(_ == 0 || _ != sn) = true›
    simp only [hk] at hchk
    have hr := wrap_si A (M ++ T) sn _ hA h2 h3 hchk
    refine ⟨h1, by omega, by omega, fun he => ?_, fun _ => by simp only [List.length_nil]; omega⟩
    have := congrArg List.length he
    simp only [hk, range_len, List.size_toArray, List.length_append, List.length_cons, List.length_nil] at this
    omega
  case vc19 => intro h; exact h.elim
  -- the remaining conditions: both searches have ended, `si = |A| + 1`, `ei = |A| + 1 + |M|`
  all_goals
    obtain ⟨_, _, _, hr2, _⟩ := ‹_ ∧ _ ≤ _ ∧ _ ≤ _ ∧ (True → _) ∧ _›
    have hr2 := hr2 trivial
    obtain ⟨_, hr1a, hr1b⟩ := ‹_ ∧ 1 ≤ _ ∧ _ ≤ _›
    have hchk := ‹¬(_ == 0 || _ != sn) = true›
    simp only [hk] at hchk
    have hr1 := wrap_si A (M ++ T) sn _ hA hr1a hr1b hchk
    subst hr1 hr2
    simp -failIfUnchanged only [hk, wrap_kids_new, wrap_kids_par]
    subst_vars
  case vc16 =>
    have hcur := ‹Array.toList _ = _ ++ _ :: _›
    simp -failIfUnchanged +zetaDelta only [hk, wrap_kids_new] at hcur
    obtain ⟨i1, i2, i3, i4, i5, i6⟩ := ‹_ = wrapNodes _ _ _ _ _ _ _ _ ∧ _›
    subst hcur
    have hclt := hM _ (List.mem_append_right _ (List.mem_cons_self ..))
    refine ⟨i1, i2, i3, i4, by simp [i5], fun i => ?_⟩
    have h6 := i6 i
    unfold pmOf at h6 ⊢
    simp only []
    rw [join_set! _ _ _ _ (by omega), h6]
    simp only [List.mem_append, List.mem_singleton]
    split
    · rename_i hic; simp [hic]
    · rename_i hic; simp [hic]
  case vc17 =>
    refine ⟨rfl, rfl, rfl, rfl, by simp [wrapMid, hsz], fun i => ?_⟩
    unfold pmOf wrapMid
    simp only []
    rw [join_set! _ _ _ _ (by simp [hsz]), join_push_none]
    simp
  case vc18 =>
    obtain ⟨i1, i2, i3, i4, i5, i6⟩ := ‹_ = wrapNodes _ _ _ _ _ _ _ _ ∧ _›
    simp -failIfUnchanged +zetaDelta only [hk, wrap_kids_new] at i6
    exact ⟨trivial, i1, i2, i3, i4, i5, i6⟩

/-! ### the same with the three lists computed from the state (no ghost data: usable as a `@[spec]`) -/

theorem mem_takeWhile_true {α} {p : α → Bool} {x : α} : ∀ {l : List α}, x ∈ l.takeWhile p → p x = true := by
  intro l
  induction l with
  | nil => intro h; cases h
  | cons a rest ih =>
    intro h
    rw [List.takeWhile_cons] at h
    split at h
    · rcases List.mem_cons.1 h with rfl | h'
      · assumption
      · exact ih h'
    · cases h

theorem dropWhile_head_false {α} {p : α → Bool} {a : α} {B : List α} : ∀ {l : List α}, l.dropWhile p = a :: B → p a = false := by
  intro l
  induction l with
  | nil => intro h; cases h
  | cons c rest ih =>
    intro h
    rw [List.dropWhile_cons] at h
    split at h
    · exact ih h
    · rename_i hc
      cases h
      simpa using hc

/-- children of `P` before the first occurrence of `k` -/
def cutA (l : List Nat) (k : Nat) : List Nat := l.takeWhile (· != k)
/-- children of `P` after the first occurrence of `k` -/
def cutR (l : List Nat) (k : Nat) : List Nat := (l.dropWhile (· != k)).drop 1

theorem cut_eq {l : List Nat} {k : Nat} (h : k ∈ l) : l = cutA l k ++ k :: cutR l k := by
  unfold cutA cutR
  induction l with
  | nil => cases h
  | cons a rest ih =>
    by_cases hak : a = k
    · subst hak; simp
    · have hk' : k ∈ rest := by
        rcases List.mem_cons.1 h with h' | h'
        · exact absurd h'.symm hak
        · exact h'
      have hne : (a != k) = true := by simpa using hak
      simp only [List.takeWhile_cons, List.dropWhile_cons, hne, if_true]
      rw [List.cons_append, ← ih hk']

theorem cutA_not_mem (l : List Nat) (k : Nat) : k ∉ cutA l k := by
  unfold cutA
  intro h
  have := mem_takeWhile_true h
  simp at this

theorem cut_unique {l A R : List Nat} {k : Nat} (h : l = A ++ k :: R) (hA : k ∉ A) : cutA l k = A ∧ cutR l k = R := by
  subst h
  unfold cutA cutR
  induction A with
  | nil => simp
  | cons a rest ih =>
    have hak : (a != k) = true := by
      simp only [List.mem_cons, not_or] at hA
      simpa using fun h => hA.1 h.symm
    simp only [List.cons_append, List.takeWhile_cons, List.dropWhile_cons, hak, if_true]
    have := ih (fun h => hA (List.mem_cons_of_mem _ h))
    exact ⟨by rw [this.1], this.2⟩

/-- the children up to the end node / from the end node on (everything / nothing when there is none) -/
def cutM (l : List Nat) (en : Option Nat) : List Nat := l.takeWhile (fun k => some k != en)
def cutT (l : List Nat) (en : Option Nat) : List Nat := l.dropWhile (fun k => some k != en)

theorem cutMT (l : List Nat) (en : Option Nat) : l = cutM l en ++ cutT l en := by
  unfold cutM cutT; exact (List.takeWhile_append_dropWhile).symm

theorem cutMT_spec (l : List Nat) (en : Option Nat) :
    match en with
    | some c => ((∃ B, cutT l en = c :: B) ∨ cutT l en = []) ∧ c ∉ cutM l en
    | none => cutT l en = [] := by
  cases en with
  | none =>
    show cutT l none = []
    unfold cutT
    induction l with
    | nil => rfl
    | cons a rest ih => rw [List.dropWhile_cons]; simpa using ih
  | some c =>
    show ((∃ B, cutT l (some c) = c :: B) ∨ cutT l (some c) = []) ∧ c ∉ cutM l (some c)
    constructor
    · unfold cutT
      cases hd : l.dropWhile (fun k => some k != some c) with
      | nil => exact Or.inr rfl
      | cons a B =>
        left
        have := dropWhile_head_false hd
        have hac : a = c := by simpa using this
        exact ⟨B, by rw [hac]⟩
    · unfold cutM
      intro h
      have := mem_takeWhile_true h
      simp at this

/-- `wrap` when the start node is a child of its parent: the exact new state, in terms of the old one only. -/
@[spec 20000]
theorem wrap_exact' (kind sn : Nat) (en : Option Nat) (s0 : IState)
    (hP : (pmOf s0 sn).isSome = true)
    (hmem : sn ∈ (s0.nodes[(pmOf s0 sn).getD 0]!).kids.toList)
    (hsz : s0.parentMap.size = s0.nodes.size)
    (hlt : ∀ k ∈ (s0.nodes[(pmOf s0 sn).getD 0]!).kids.toList, k < s0.nodes.size) :
    ⦃fun s => ⌜s = s0⌝⦄ wrap kind sn en
    ⦃⇓? r s => ⌜r = s0.nodes.size ∧
        s.nodes = wrapNodes s0 kind sn en ((pmOf s0 sn).getD 0)
          (cutA (s0.nodes[(pmOf s0 sn).getD 0]!).kids.toList sn)
          (cutM (cutR (s0.nodes[(pmOf s0 sn).getD 0]!).kids.toList sn) en)
          (cutT (cutR (s0.nodes[(pmOf s0 sn).getD 0]!).kids.toList sn) en) ∧
        s.stack = s0.stack ∧ s.unparsedPos = s0.unparsedPos ∧ s.ignoreNextIndent = s0.ignoreNextIndent ∧
        s.parentMap.size = s0.nodes.size + 1 ∧
        (∀ i, pmOf s i = if i ∈ cutM (cutR (s0.nodes[(pmOf s0 sn).getD 0]!).kids.toList sn) en then some s0.nodes.size
                         else if i = s0.nodes.size then some ((pmOf s0 sn).getD 0) else pmOf s0 i)⌝⦄ := by
  obtain ⟨P, hP'⟩ := Option.isSome_iff_exists.1 hP
  rw [hP'] at hmem hlt ⊢
  simp only [Option.getD_some] at hmem hlt ⊢
  have h1 := cut_eq hmem
  have h2 := cutMT (cutR (s0.nodes[P]!).kids.toList sn) en
  refine wrap_exact kind sn en s0 P _ _ _ hP' ?_ (cutA_not_mem _ _) (cutMT_spec _ en) hsz ?_
  · rw [← h2, ← h1]
  · intro k hk
    refine hlt k ?_
    rw [h1, h2]
    exact List.mem_append_right _ (List.mem_cons_of_mem _ (List.mem_append_left _ hk))

end CM.Proofs.InlH
