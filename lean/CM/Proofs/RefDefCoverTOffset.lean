import CM.Proofs.RefDefCoverTLine3
import CM.Proofs.RefDefSpansStream
/-
C03, block half — `GoodT2` at the stream level: the translation `makeRoot` applies to the pending blocks
(`GoodL2_offset`), the root of a new session (`docRoot_good2`), a longer source for a tree with valid spans
(`GoodT2_mono_spans`), the refutation of `GoodT2_mono` with `src = []` as an unconditional alternative, and a
non-vacuity example for `processLine_st2` (two lines, a link reference definition and a setext underline).
-/
namespace CM.Proofs.RDC
open CM CM.Model CM.Gen CM.Proofs.BSp CM.Proofs.BT CM.Proofs.BG CM.Proofs.RDS

/-! ### translation -/

theorem NodeX_offset {src : Bytes} (n : Nat) {t : Tree} (h : NodeOK src t) (hx : NodeX src t) (hn : (n : Int) ≤ t.label.start) :
    NodeX (src.drop n) (offsetTree (-(n : Int)) t) := by
  obtain ⟨h1, h2, h3, h4⟩ := h
  obtain ⟨x1, x2⟩ := hx
  obtain ⟨e1, e2, e3⟩ := offsetTree_label' n t (by omega)
  refine ⟨fun hi => ?_, fun hi => ?_⟩
  · rw [e3] at hi
    rw [e1, getD_drop']
    have : n + (t.label.start - ↑n).toNat = t.label.start.toNat := by omega
    rw [this]; exact x1 hi
  · rw [e3] at hi
    rw [e2, List.length_drop]
    rcases x2 hi with x | x
    · left; omega
    · right
      rw [getD_drop']
      have : n + ((t.label.stop - ↑n).toNat - 1) = t.label.stop.toNat - 1 := by omega
      rw [this]; exact x

theorem NodeOK2_offset {src : Bytes} (n : Nat) {t : Tree} (h : NodeOK2 src t) (hn : (n : Int) ≤ t.label.start) :
    NodeOK2 (src.drop n) (offsetTree (-(n : Int)) t) :=
  ⟨NodeOK_offset n h.1 hn, NodeX_offset n h.1 h.2 hn⟩

theorem GoodT2_offset {src : Bytes} {bd : Int} (n : Nat) : ∀ b : PB, ∀ lo hi : Int, (n : Int) ≤ lo → PBSpans QT lo hi b →
    GoodT2 src bd b → GoodT2 (src.drop n) (bd - n) (offsetPB (-(n : Int)) b) := by
  apply PB.ind
  intro l bs is ih lo hi hlo hsp hg
  rw [GoodT2_mk] at hg
  have hsp' := hsp
  rw [PBSpans_mk] at hsp
  obtain ⟨a1, a2, a3, a4, a5, a6, a7⟩ := hsp
  have hin := inls_bounds a4
  simp only [offsetPB]
  rw [offsetTrees_eq_map, offsetPBs_eq_map, GoodT2_mk]
  refine ⟨⟨fun hk => ?_, fun hs => ?_⟩, ?_⟩
  · have hP := hg.1.1 hk
    show ParaGood2 (src.drop n) (bd - n) (is.map (offsetTree (-(n : Int))))
    rcases hP with hN | hNB
    · left
      intro t ht
      rw [List.mem_map] at ht
      obtain ⟨t0, ht0, rfl⟩ := ht
      have hb := hin t0 ht0
      have hN0 := hN t0 ht0
      refine ⟨NodeOK2_offset n hN0.1 (by omega), ?_⟩
      rw [(offsetTree_label' n t0 (by omega)).2.1]
      omega
    · right
      exact NoBracket_offset n hNB (fun t ht => by have := (hin t ht).1; omega)
  · simp only [PB.label] at hs
    simp only [PB.kind, PB.label]
    by_cases hc : 0 ≤ l.stop
    · exfalso
      have := PBSpans_closed_bounds hsp' hc
      simp only [PB.label] at this
      rw [if_pos hc] at hs
      omega
    · exact hg.1.2 (show l.stop < 0 by omega)
  · intro c hc
    rw [List.mem_map] at hc
    obtain ⟨c0, hc0, rfl⟩ := hc
    obtain ⟨lo', hlo', hsp0⟩ := PBSpansL_mem a5 c0 hc0
    exact ih c0 hc0 lo' _ (by omega) hsp0 (hg.2 c0 hc0)

/-- **The pending blocks after `makeRoot`** (translated by `-n`) are good for the rest of the source. -/
theorem GoodL2_offset {src : Bytes} {bd : Int} (n : Nat) {bs : List PB} {po : Bool} {lo hi : Int} (hlo : (n : Int) ≤ lo)
    (hsp : PBSpansL QT po lo hi bs) (hg : ∀ b ∈ bs, GoodT2 src bd b) :
    ∀ b ∈ offsetPBs (-(n : Int)) bs, GoodT2 (src.drop n) (bd - n) b := by
  intro b hb
  rw [offsetPBs_eq_map, List.mem_map] at hb
  obtain ⟨b0, hb0, rfl⟩ := hb
  obtain ⟨lo', hlo', hsp0⟩ := PBSpansL_mem hsp b0 hb0
  exact GoodT2_offset n b0 lo' hi (by omega) hsp0 (hg b0 hb0)

/-! ### the root of a session -/

theorem docRoot_good2 {src : Bytes} {bd : Int} (bs : List PB) (h : ∀ b ∈ bs, GoodT2 src bd b) : GoodT2 src bd (docRoot bs) := by
  unfold docRoot
  rw [GoodT2_mk]
  exact ⟨BlockOK2_of_kind (show BK.document ≠ BK.paragraph by decide) (show BK.document ≠ BK.setextHeading by decide), h⟩

/-! ### a longer source, for a tree with valid spans -/

/-- **`GoodT2` under a longer source, for a tree with valid spans** (`PBSpans QT lo hi b`, `0 ≤ lo`): if the source really
    grows, the old source is empty or ends with a line ending. -/
theorem GoodT2_mono_spans {src src' : Bytes} {bd bd' : Int} (hp : src <+: src') (hb : bd ≤ bd')
    (hE : src' = src ∨ src = [] ∨ isEolB (src.getD (src.length - 1) 0) = true) :
    ∀ b : PB, ∀ lo hi : Int, 0 ≤ lo → PBSpans QT lo hi b → GoodT2 src bd b → GoodT2 src' bd' b := by
  apply PB.ind
  intro l bs is ih lo hi hlo hsp hg
  rw [GoodT2_mk] at hg ⊢
  rw [PBSpans_mk] at hsp
  obtain ⟨a1, a2, a3, a4, a5, a6, a7⟩ := hsp
  have hin := inls_bounds a4
  refine ⟨BlockOK2_mono hp hb ?_ hg.1, ?_⟩
  · rcases hE with hE | hE | hE
    · exact Or.inl hE
    · exact Or.inr (Or.inl ⟨hE, fun t ht => by have := (hin t ht).1; omega⟩)
    · exact Or.inr (Or.inr hE)
  · intro c hc
    obtain ⟨lo', hlo', hsp0⟩ := PBSpansL_mem a5 c hc
    exact ih c hc lo' _ (by omega) hsp0 (hg.2 c hc)

/-! ### `GoodT2_mono` with `src = []` as an unconditional alternative is false -/

/-- The statement of `GoodT2_mono` with `src = []` as an alternative of `hE`, without a hypothesis on the spans. -/
def GoodT2_mono_target : Prop :=
  ∀ {src src' : Bytes} {bd bd' : Int}, src <+: src' → bd ≤ bd' →
    (src' = src ∨ src = [] ∨ isEolB (src.getD (src.length - 1) 0) = true) → ∀ b : PB, GoodT2 src bd b → GoodT2 src' bd' b

/-- A paragraph with one text node over `[-1, 0)`: `NodeOK []` and `NodeX []` hold for it (`NodeOK` does not say that a
    node begins at or after 0), but for the source `a` neither `NodeX` (the node ends neither at the end of the source nor
    with a line ending) nor `NoBracket` (`0 ≤ start`). -/
def cexPB : PB := mkPB BK.paragraph 0 (-1) [mkInline IK.text (-1) 0]

theorem cexPB_good : GoodT2 [] 0 cexPB := by
  rw [cexPB, mkPB, GoodT2_mk]
  refine ⟨⟨fun _ => Or.inl ?_, fun _ => by decide⟩, fun _ h => by cases h⟩
  intro t ht
  simp only [PB.inlines, List.mem_singleton] at ht
  subst ht
  have hi : isIndent (mkInline IK.text (-1) 0) = false := by decide
  have hok : NodeOK [] (mkInline IK.text (-1) 0) := by
    refine ⟨by decide, by decide, fun h => ?_, fun _ j h1 h2 => ?_⟩
    · rw [hi] at h; cases h
    · simp only [mkInline, Tree.label] at h2
      omega
  have hx : NodeX [] (mkInline IK.text (-1) 0) := by
    refine ⟨fun h => ?_, fun _ => Or.inl rfl⟩
    rw [hi] at h; cases h
  exact ⟨⟨hok, hx⟩, by decide⟩

theorem cexPB_bad : ¬ GoodT2 [0x61] 0 cexPB := by
  rw [cexPB, mkPB, GoodT2_mk]
  rintro ⟨⟨h, _⟩, _⟩
  rcases h rfl with h | ⟨first, rest, e, _, h0, _⟩
  · have := (h (mkInline IK.text (-1) 0) (by simp [PB.inlines])).1.2.2 rfl
    rcases this with h | h
    · exact absurd h (by decide)
    · exact absurd h (by decide)
  · simp only [PB.inlines, List.cons.injEq] at e
    rw [← e.1] at h0
    exact absurd h0 (by decide)

theorem GoodT2_mono_target_false : ¬ GoodT2_mono_target :=
  fun h => cexPB_bad (h (src := []) (src' := [0x61]) (List.nil_prefix) (Int.le_refl 0) (Or.inr (Or.inl rfl)) cexPB cexPB_good)

/-! ### non-vacuity: `processLine_st2`, `GoodT2_mono`, `GoodL2_offset` on `[a]: /u⏎===⏎` -/

namespace Examples

def sxSrc1 : Bytes := Bytes.ofString "[a]: /u\n"
def sxSrc2 : Bytes := Bytes.ofString "[a]: /u\n===\n"

theorem sx_line1 : LineOK (sxSrc1.drop 0) := by
  have h : sxSrc1.take (lineLen sxSrc1) = sxSrc1.drop 0 := by decide +kernel
  rw [← h]; exact lineOK_take _

/-- The first line: the hypotheses of `processLine_st2` hold at the start of the document (a `GI2` for the empty tree) … -/
theorem sx_good1 : GoodT2 sxSrc1 (sxSrc1.length : Int) (processLine exX (exLP sxSrc1)).root :=
  processLine_st2 exX (exLP sxSrc1) (exLP_inv _ (by decide +kernel)) sx_line1 (Nat.zero_le _) (Int.le_refl _) (exLP_GI2 _)
-- … and the result is an open paragraph with one line
example : (processLine exX (exLP sxSrc1)).root.blocks.map (fun b => (b.kind, b.label.stop, b.inlines.map (fun t => (t.label.start, t.label.stop))))
    = [(BK.paragraph, -1, [(0, 8)])] := by decide +kernel

/-- The second line: the tree of the first line, for the longer source (`GoodT2_mono`: the old source ends with LF). -/
def sxP2 : LP := (processLine exX (exLP sxSrc1)).reset sxSrc2 8

theorem sxP2_inv : BT.Inv sxP2 :=
  ⟨by decide +kernel, ⟨by decide +kernel, fun _ h => absurd h (by decide +kernel)⟩, ⟨by decide +kernel, by decide +kernel⟩⟩

theorem sxP2_GI : GI2 sxSrc2 8 8 sxP2 := by
  obtain ⟨r1, r2, r3, r4⟩ := BSp.reset_fields (processLine exX (exLP sxSrc1)) sxSrc2 8
  refine ⟨r2, r3, r4, ?_⟩
  show GoodT2 sxSrc2 8 ((processLine exX (exLP sxSrc1)).reset sxSrc2 8).root
  rw [r1]
  exact GoodT2_mono (show sxSrc1 <+: sxSrc2 from ⟨Bytes.ofString "===\n", by decide +kernel⟩) (by decide +kernel)
    (Or.inr (by decide +kernel)) _ sx_good1

theorem sx_line2 : LineOK (sxSrc2.drop 8) := by
  have h : (sxSrc2.drop 8).take (lineLen (sxSrc2.drop 8)) = sxSrc2.drop 8 := by decide +kernel
  rw [← h]; exact lineOK_take _

theorem sx_good2 : GoodT2 sxSrc2 (sxSrc2.length : Int) (processLine exX sxP2).root :=
  processLine_st2 exX sxP2 sxP2_inv sx_line2 (by decide +kernel) (Int.le_refl _) sxP2_GI
-- the paragraph is replaced by the definition and the (open) orphan paragraph of the underline
example : (processLine exX sxP2).root.blocks.map (fun b => (b.kind, b.label.start, b.label.stop, b.inlines.map (fun t => (t.label.start, t.label.stop))))
    = [(BK.linkRefDef, 0, 8, [(1, 2), (5, 7)]), (BK.paragraph, 8, -1, [(8, 12)])] := by
  decide +kernel

/-- `GoodL2_offset`: the orphan paragraph (the pending block after the definition `[0, 8)` has been delivered),
    translated by `-8`, is good for the source `===⏎`. -/
example : ∀ b ∈ offsetPBs (-((8 : Nat) : Int)) (processLine exX sxP2).root.blocks.tail, GoodT2 (sxSrc2.drop 8) ((sxSrc2.length : Int) - (8 : Nat)) b :=
  GoodL2_offset 8 (po := true) (lo := 8) (hi := 12) (Int.le_refl _)
    (show pbSpansL QT true 8 12 (processLine exX sxP2).root.blocks.tail = true by decide +kernel)
    (fun b hb => sx_good2.kids b (List.mem_of_mem_tail hb))
example : (offsetPBs (-((8 : Nat) : Int)) (processLine exX sxP2).root.blocks.tail).map
    (fun b => (b.kind, b.label.start, b.label.stop, b.inlines.map (fun t => (t.label.start, t.label.stop))))
    = [(BK.paragraph, 0, -1, [(0, 4)])] := by decide +kernel

/-- `GoodT2_mono_spans` from the empty source: the root of a new session. -/
example : GoodT2 sxSrc1 0 (docRoot []) :=
  GoodT2_mono_spans (List.nil_prefix) (Int.le_refl 0) (Or.inr (Or.inl rfl)) (docRoot []) 0 0 (Int.le_refl 0) (by decide +kernel)
    (docRoot_good2 (src := []) [] (fun _ h => by cases h))

end Examples

end CM.Proofs.RDC

#print axioms CM.Proofs.RDC.processLine_st2
#print axioms CM.Proofs.RDC.GoodT2_mono
#print axioms CM.Proofs.RDC.GoodT2_mono_bd
#print axioms CM.Proofs.RDC.GoodT2_mono_spans
#print axioms CM.Proofs.RDC.GoodL2_offset
#print axioms CM.Proofs.RDC.docRoot_good2
#print axioms CM.Proofs.RDC.GoodT2_mono_target_false
