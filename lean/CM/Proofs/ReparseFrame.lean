import CM.Proofs.BlocksWell
/-
C16, Layer B, part 1: a frame property of the tree operations of the block parser, for ARBITRARY trees.

`RF r r'` (on document blocks): the first child of `r` is still the first child of `r'` — unchanged once it has a
sibling after it; and while it is the only child its kind does not change, unless it is a paragraph (which may become a
setext heading, or be replaced by the link reference definitions split off it). `RF` is reflexive, transitive, and holds
for every root transformation the block phase uses (`spineModify`, `spineReplaceLast closeBlock`, `setBlankFlags`).
-/
namespace CM.Proofs.Rp
open CM CM.Model CM.Gen CM.Proofs

/-- Paragraph or setext heading. -/
def ParaK (k : Nat) : Prop := k = BK.paragraph ∨ k = BK.setextHeading

/-- The kind of `b'` is that of `b`, unless `b` is a paragraph / setext heading. -/
def KF (b b' : PB) : Prop := b'.kind = b.kind ∨ ParaK b.kind

theorem KF.refl (b : PB) : KF b b := Or.inl rfl

theorem KF.trans {a b c : PB} (h1 : KF a b) (h2 : KF b c) : KF a c := by
  rcases h1 with h1 | h1
  · rcases h2 with h2 | h2
    · exact Or.inl (h2.trans h1)
    · exact Or.inr (by rw [← h1]; exact h2)
  · exact Or.inr h1

theorem KF.of_label {b b' : PB} (h : b'.label = b.label) : KF b b' := Or.inl (by unfold PB.kind; rw [h])

structure RF (r r' : PB) : Prop where
  kind : r'.label.kind = r.label.kind
  head : ∀ h m, r.blocks = h :: m → ∃ h' m', r'.blocks = h' :: m' ∧ (m ≠ [] → h' = h ∧ m' ≠ []) ∧ KF h h'

theorem RF.refl (r : PB) : RF r r := ⟨rfl, fun h m e => ⟨h, m, e, fun hm => ⟨rfl, hm⟩, KF.refl h⟩⟩

theorem RF.trans {a b c : PB} (h1 : RF a b) (h2 : RF b c) : RF a c := by
  refine ⟨h2.kind.trans h1.kind, ?_⟩
  intro h m e
  obtain ⟨h', m', e', f', k'⟩ := h1.head h m e
  obtain ⟨h'', m'', e'', f'', k''⟩ := h2.head h' m' e'
  refine ⟨h'', m'', e'', ?_, k'.trans k''⟩
  intro hm
  obtain ⟨a1, a2⟩ := f' hm
  obtain ⟨b1, b2⟩ := f'' a2
  exact ⟨b1.trans a1, b2⟩

theorem RF.of_blocks {r r' : PB} (hk : r'.label.kind = r.label.kind) (hb : r'.blocks = r.blocks) : RF r r' :=
  ⟨hk, fun h m e => ⟨h, m, by rw [hb]; exact e, fun hm => ⟨rfl, hm⟩, KF.refl h⟩⟩

/-! ### List helpers -/

theorem cons_getLast? {α} (h : α) (m : List α) : ∃ c, (h :: m).getLast? = some c :=
  ⟨(h :: m).getLast (by simp), List.getLast?_eq_some_getLast (by simp)⟩

theorem dropLast_cons_of_ne {α} (h : α) {m : List α} (hm : m ≠ []) : (h :: m).dropLast = h :: m.dropLast := by
  cases m with
  | nil => exact absurd rfl hm
  | cons a t => rfl

/-- Replacing the last element of `h :: m` by a list `new`. -/
theorem replaceLast_head {α} (h : α) (m : List α) (c : α) (hc : (h :: m).getLast? = some c) (new : List α) :
    (m = [] ∧ c = h ∧ (h :: m).dropLast ++ new = new) ∨
    (m ≠ [] ∧ (h :: m).dropLast ++ new = h :: (m.dropLast ++ new)) := by
  cases m with
  | nil =>
    left
    simp only [List.getLast?_singleton, Option.some.injEq] at hc
    exact ⟨rfl, hc.symm, rfl⟩
  | cons a t => right; exact ⟨by simp, rfl⟩

/-! ### `closeBlock` never returns the empty list, and keeps the kind of a non-paragraph -/

theorem q_ite {Q : List PB → Prop} {c : Prop} [Decidable c] {a b : List PB} (h1 : c → Q a) (h2 : ¬ c → Q b) :
    Q (if c then a else b) := by
  split
  · exact h1 ‹_›
  · exact h2 ‹_›

/-- The blocks a paragraph is replaced by when it is closed: what `refDefLoop` has accumulated so far (`result`), then
    * `giveUp`: the (rest of the) paragraph; or
    * `defs`: one more definition `nb` and possibly the orphan; or
    * `rem`: one more definition and the rest of the paragraph; or
    * `step`: one more definition, then whatever the loop returns from there. -/
theorem refDefLoop_ind (x : PExt) (src : Bytes) (orphan : Option PB)
    (Q : PLabel → List Tree → List PB → List PB → Prop)
    (giveUp : ∀ l is result, Q l is result (result ++ [PB.mk l [] is]))
    (defs : ∀ l is result (nb : PB), nb.kind = BK.linkRefDef →
      Q l is result (match orphan with | some o => (result ++ [nb]) ++ [o] | none => result ++ [nb]))
    (rem : ∀ l is result (nb : PB) l' is', nb.kind = BK.linkRefDef →
      Q l is result ((result ++ [nb]) ++ [PB.mk l' [] is']))
    (step : ∀ l is result (nb : PB) l' is' out, nb.kind = BK.linkRefDef → Q l' is' (result ++ [nb]) out →
      Q l is result out) :
    ∀ (fuel : Nat) (r : Rd) (l : PLabel) (is : List Tree) (result : List PB),
      Q l is result (refDefLoop x src orphan fuel r l is result) := by
  intro fuel
  induction fuel with
  | zero => intro r l is result; exact giveUp l is result
  | succ fuel ih =>
    intro r l is result
    have hgive := giveUp l is result
    rcases e1 : parseLinkLabel src (rdFuel src is) r with ⟨label, r1⟩
    rcases e2 : r1.current src with ⟨c2, r2⟩
    rcases e3 : r2.next src with ⟨ok3, r3⟩
    rcases e4 : skipLinkSpace src (rdFuel src is) r3 with ⟨ok4, r4⟩
    rcases e5 : parseLinkDestination src (rdFuel src is) r4 with ⟨dest, r5⟩
    rcases e6 : readEOL src (rdFuel src is) r5 with ⟨destEOL, r6⟩
    rcases e7 : r6.current src with ⟨c7, r7⟩
    rcases e8 : skipLinkSpace src (rdFuel src is) r7 with ⟨ok8, r8⟩
    rcases e9 : parseLinkTitle src (rdFuel src is) r8 with ⟨title, r9⟩
    rcases e10 : readEOL src (rdFuel src is) r9 with ⟨titleEOL, r10⟩
    rw [refDefLoop]
    simp only [e1]
    simp only [e2]
    simp only [e3]
    simp only [e4]
    simp only [e5]
    simp only [e6]
    simp only [e7]
    simp only [e8]
    simp only [e9]
    simp only [e10]
    refine q_ite (Q := Q l is result) (fun _ => hgive) (fun _ => ?_)
    refine q_ite (Q := Q l is result) (fun _ => hgive) (fun _ => ?_)
    refine q_ite (Q := Q l is result) (fun _ => hgive) (fun _ => ?_)
    refine q_ite (Q := Q l is result) (fun _ => hgive) (fun _ => ?_)
    refine q_ite (Q := Q l is result) (fun _ => hgive) (fun hnd => ?_)
    refine q_ite (Q := Q l is result) (fun _ => defs l is result _ rfl) (fun _ => ?_)
    refine q_ite (Q := Q l is result) (fun _ => ?_) (fun _ => ?_)
    · refine q_ite (Q := Q l is result) (fun _ => hgive) (fun _ => ?_)
      generalize nodeIndexForPosition is r6.pos 0 = ni
      cases ni with
      | none => exact defs l is result _ rfl
      | some fc => exact step l is result _ _ _ _ rfl (ih _ _ _ _)
    · refine q_ite (Q := Q l is result) (fun _ => ?_) (fun _ => ?_)
      · refine q_ite (Q := Q l is result) (fun _ => hgive) (fun _ => ?_)
        generalize nodeIndexForPosition is r6.pos 0 = ni
        cases ni with
        | none => exact defs l is result _ rfl
        | some fc => exact rem l is result _ _ _ rfl
      · generalize nodeIndexForPosition is r10.pos 0 = ni
        cases ni with
        | none => exact defs l is result _ rfl
        | some fc => exact step l is result _ _ _ _ rfl (ih _ _ _ _)

theorem refDefLoop_ne_nil (x : PExt) (src : Bytes) (orphan : Option PB) (fuel : Nat) (r : Rd) (l : PLabel)
    (is : List Tree) (result : List PB) : refDefLoop x src orphan fuel r l is result ≠ [] := by
  refine refDefLoop_ind x src orphan (fun _ _ _ out => out ≠ []) ?_ ?_ ?_ ?_ fuel r l is result
  · intro l is result; simp
  · intro l is result nb _; cases orphan <;> simp
  · intro l is result nb l' is' _; simp
  · intro l is result nb l' is' out _ h; exact h

/-- The first block: the paragraph itself (nothing was split off), or a link reference definition. -/
theorem refDefLoop_head (x : PExt) (src : Bytes) (orphan : Option PB) (fuel : Nat) (r : Rd) (l : PLabel)
    (is : List Tree) :
    refDefLoop x src orphan fuel r l is [] = [PB.mk l [] is] ∨
    ∃ h m, refDefLoop x src orphan fuel r l is [] = h :: m ∧ h.kind = BK.linkRefDef := by
  have key := refDefLoop_ind x src orphan
    (fun l is result out => (∀ a t, result = a :: t → ∃ m, out = a :: m) ∧
      (result = [] → out = [PB.mk l [] is] ∨ ∃ h m, out = h :: m ∧ h.kind = BK.linkRefDef))
    ?_ ?_ ?_ ?_ fuel r l is []
  · exact key.2 rfl
  · intro l is result
    refine ⟨fun a t e => ⟨t ++ [PB.mk l [] is], by rw [e]; rfl⟩, fun e => Or.inl (by rw [e]; rfl)⟩
  · intro l is result nb hk
    refine ⟨fun a t e => ?_, fun e => Or.inr ?_⟩
    · subst e; cases orphan <;> exact ⟨_, rfl⟩
    · subst e; cases orphan <;> exact ⟨nb, _, rfl, hk⟩
  · intro l is result nb l' is' hk
    refine ⟨fun a t e => ⟨_, by rw [e]; rfl⟩, fun e => Or.inr ⟨nb, _, by rw [e]; rfl, hk⟩⟩
  · intro l is result nb l' is' out hk h
    refine ⟨fun a t e => ?_, fun e => Or.inr ?_⟩
    · exact h.1 a (t ++ [nb]) (by rw [e]; rfl)
    · obtain ⟨m, hm⟩ := h.1 nb [] (by rw [e]; rfl)
      exact ⟨nb, m, hm, hk⟩

theorem onCloseParagraph_ne_nil (x : PExt) (src : Bytes) (b : PB) : onCloseParagraph x src b ≠ [] := by
  cases b with
  | mk l bs is =>
    unfold onCloseParagraph
    cases is with
    | nil => simp
    | cons first rest => exact refDefLoop_ne_nil x src _ _ _ _ _ _

/-- The first block of `closeBlock`: the block itself (closed), or — for a paragraph — whatever comes first. -/
theorem closeBlock_head (x : PExt) (src : Bytes) (e : Int) (b : PB) :
    ∃ h' m', closeBlock x src e b = h' :: m' ∧ KF b h' := by
  cases b with
  | mk l bs is =>
    rw [closeBlock]
    by_cases hcl : l.stop ≥ 0
    · simp only [hcl, if_true]
      exact ⟨_, [], rfl, KF.refl _⟩
    · simp only [hcl, if_false]
      split
      · split
        · exact ⟨_, [], rfl, Or.inl rfl⟩
        · exact ⟨_, [], rfl, Or.inl rfl⟩
      · split
        · rename_i hk
          have hk' : ParaK l.kind := by simpa [ParaK] using hk
          cases ho : onCloseParagraph x src (.mk { l with stop := e } bs is) with
          | nil => exact absurd ho (onCloseParagraph_ne_nil x src _)
          | cons h' m' => exact ⟨h', m', rfl, Or.inr hk'⟩
        · split
          · refine ⟨_, [], rfl, Or.inl ?_⟩
            unfold PB.kind; rw [indentedOnClose_label]; rfl
          · exact ⟨_, [], rfl, Or.inl rfl⟩

/-! ### The root transformations -/

/-- Replacing the last child of the document by the result of closing it. -/
theorem rf_replLast_close (x : PExt) (src : Bytes) (e : Int) (r : PB) : RF r (replLast (closeBlock x src e) r) := by
  cases r with
  | mk l bs is =>
    refine ⟨by simp only [replLast]; cases bs.getLast? <;> rfl, ?_⟩
    intro h m hb
    simp only [PB.blocks] at hb
    subst hb
    obtain ⟨c, hc⟩ := cons_getLast? h m
    simp only [replLast, hc, PB.blocks]
    rcases replaceLast_head h m c hc (closeBlock x src e c) with ⟨hm, hch, e1⟩ | ⟨hm, e1⟩
    · rw [e1, hch]
      obtain ⟨h', m', e2, k2⟩ := closeBlock_head x src e h
      exact ⟨h', m', e2, fun h0 => absurd hm h0, k2⟩
    · rw [e1]
      refine ⟨h, _, rfl, fun _ => ⟨rfl, ?_⟩, KF.refl h⟩
      obtain ⟨h', m', e2, _⟩ := closeBlock_head x src e c
      rw [e2]; simp

/-- A modification of the last child of the document that keeps its kind (unless it is a paragraph). -/
theorem rf_modLast (r : PB) (F : PB → PB) (hF : ∀ c, r.blocks.getLast? = some c → KF c (F c)) :
    RF r (replLast (fun c => [F c]) r) := by
  cases r with
  | mk l bs is =>
    refine ⟨by simp only [replLast]; cases bs.getLast? <;> rfl, ?_⟩
    intro h m hb
    simp only [PB.blocks] at hb
    subst hb
    obtain ⟨c, hc⟩ := cons_getLast? h m
    simp only [replLast, hc, PB.blocks]
    rcases replaceLast_head h m c hc [F c] with ⟨hm, hch, e1⟩ | ⟨hm, e1⟩
    · rw [e1]
      refine ⟨F c, [], rfl, fun h0 => absurd hm h0, ?_⟩
      rw [← hch]; exact hF c hc
    · rw [e1]
      exact ⟨h, _, rfl, fun _ => ⟨rfl, by simp⟩, KF.refl h⟩

theorem rf_appendChild (child : PB) (r : PB) : RF r (appendChild child r) := by
  cases r with
  | mk l bs is =>
    refine ⟨rfl, ?_⟩
    intro h m hb
    simp only [PB.blocks] at hb
    subst hb
    exact ⟨h, m ++ [child], rfl, fun _ => ⟨rfl, by simp⟩, KF.refl h⟩

theorem rf_appendInl (t : Tree) (r : PB) : RF r (appendInl t r) := by
  cases r with
  | mk l bs is => exact RF.of_blocks rfl rfl

theorem rf_setLabel (g : PLabel → PLabel) (hg : ∀ l, (g l).kind = l.kind) (r : PB) : RF r (r.setLabel g) := by
  cases r with
  | mk l bs is => exact RF.of_blocks (hg l) rfl

/-- A modification along the last-child spine, at depth `d`: at depth 0 it must be one of the transformations above,
    at depth 1 it must keep the kind of the (last) child of the document, deeper down anything goes. -/
theorem rf_spineModify (f : PB → PB) (r : PB) (d : Nat) (h0 : d = 0 → RF r (f r))
    (h1 : d = 1 → ∀ c, r.blocks.getLast? = some c → KF c (f c)) : RF r (spineModify f r d) := by
  cases d with
  | zero => rw [spineModify_zero]; exact h0 rfl
  | succ d =>
    rw [spineModify_succ_eq]
    apply rf_modLast
    intro c hc
    cases d with
    | zero => rw [spineModify_zero]; exact h1 rfl c hc
    | succ d => exact KF.of_label (spineModify_succ_same f c d).1

theorem setBlankFlags_label_kind (v : Bool) : ∀ (d : Nat) (b : PB), (setBlankFlags v b d).label.kind = b.label.kind := by
  intro d b
  cases b with
  | mk l bs is =>
    cases d with
    | zero => rfl
    | succ d => simp only [setBlankFlags]; cases bs.getLast? <;> rfl

theorem rf_setBlankFlags (v : Bool) (r : PB) (d : Nat) : RF r (setBlankFlags v r d) := by
  cases r with
  | mk l bs is =>
    cases d with
    | zero => exact RF.of_blocks rfl rfl
    | succ d =>
      have hrf := rf_modLast (.mk { l with lastLineBlank := v } bs is) (fun c => setBlankFlags v c d)
        (fun c _ => Or.inl (by unfold PB.kind; exact setBlankFlags_label_kind v d c))
      have e : setBlankFlags v (.mk l bs is) (d + 1) =
          replLast (fun c => [setBlankFlags v c d]) (.mk { l with lastLineBlank := v } bs is) := by
        simp only [setBlankFlags, replLast]
        cases bs.getLast? <;> rfl
      rw [e]
      exact RF.trans (b := .mk { l with lastLineBlank := v } bs is) (RF.of_blocks rfl rfl) hrf

/-- The blank-line flag on the last child of the container (`addLineText`). -/
def flagLast : PB → PB := fun b => match b with
  | .mk l bs is => match bs.getLast? with
    | some c => .mk l (bs.dropLast ++ [c.setLabel fun cl => { cl with lastLineBlank := true }]) is
    | none => .mk l bs is

theorem flagLast_eq (b : PB) : flagLast b = replLast (fun c => [c.setLabel fun cl => { cl with lastLineBlank := true }]) b := by
  cases b with
  | mk l bs is => simp only [flagLast, replLast]; cases bs.getLast? <;> rfl

theorem setLabel_kind_of (g : PLabel → PLabel) (hg : ∀ l, (g l).kind = l.kind) (c : PB) : (c.setLabel g).kind = c.kind := by
  cases c with
  | mk l bs is => exact hg l

theorem rf_flagLast (r : PB) : RF r (flagLast r) := by
  rw [flagLast_eq]
  exact rf_modLast r _ (fun c _ => Or.inl (setLabel_kind_of (fun cl => { cl with lastLineBlank := true }) (fun _ => rfl) c))

theorem flagLast_label (b : PB) : (flagLast b).label = b.label := by
  rw [flagLast_eq]; exact (replLast_same _ b).1

end CM.Proofs.Rp
