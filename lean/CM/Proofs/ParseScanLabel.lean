import CM.Proofs.ParseScanCollect
/-
C02 / C04, inline halves, for the whole of `Parse` — **`parseLinkLabel`** over the inline children of a container
(`label_scan`): a valid label starts where the reader started, ends inside the container right after a `]` that a LIVE reader
saw (so its last byte lies in one of the children), and its inner span lies inside it.
Also: closure of the container facts under `List.drop`, and `nodeIndexForPosition` at a position inside a child.
-/
namespace CM.Proofs.PSc
open CM CM.Model CM.Gen CM.Proofs CM.Proofs.PS CM.Proofs.InlH

variable {src : Bytes} {L : List Tree} {N : Nat}

/-! ### suffixes -/

theorem tail_drop_sub {α} (l : List α) (u : Nat) : ∀ t ∈ (l.drop u).tail, t ∈ l.tail := by
  intro t ht
  rw [List.tail_drop] at ht
  cases l with
  | nil => simp at ht
  | cons a l =>
    simp only [List.tail_cons, List.drop_succ_cons] at ht ⊢
    exact List.mem_of_mem_drop ht

theorem RC.drop (hc : RC src L N) (u : Nat) : RC src (L.drop u) N where
  sorted := hc.sorted.drop u
  nn := fun t ht => hc.nn t (List.mem_of_mem_drop ht)
  le := fun t ht => hc.le t (List.mem_of_mem_drop ht)
  bound := fun t ht => hc.bound t (List.mem_of_mem_drop ht)
  kind := fun t ht => hc.kind t (List.mem_of_mem_drop ht)
  tailNE := fun t ht => hc.tailNE t (tail_drop_sub L u t ht)
  ind1 := fun t ht => hc.ind1 t (List.mem_of_mem_drop ht)
  indWS := fun t ht => hc.indWS t (List.mem_of_mem_drop ht)
  len := hc.len

theorem RC2.drop (hc : RC2 src L N) (u : Nat) : RC2 src (L.drop u) N where
  toRC := hc.toRC.drop u
  leaf := fun t ht => hc.leaf t (List.mem_of_mem_drop ht)
  lines := fun k t v rest e hi => hc.lines (u + k) t v rest (by rw [← List.drop_drop]; exact e) hi

theorem getLast?_drop {α} (l : List α) (u : Nat) {t : α} (h : (l.drop u).getLast? = some t) : l.getLast? = some t := by
  have e : l = l.take u ++ l.drop u := (List.take_append_drop u l).symm
  rw [e, List.getLast?_append, h]
  rfl

theorem TailSafe.drop (h : TailSafe src L) (u : Nat) : TailSafe src (L.drop u) :=
  fun t ht hi => h t (getLast?_drop L u ht) hi

theorem TailNP.drop (h : TailNP src L) (u : Nat) : TailNP src (L.drop u) :=
  fun t ht => h t (getLast?_drop L u ht)

/-! ### `nodeIndexForPosition` inside a child -/

theorem nodeIndex_some_of_mem : ∀ (l : List Tree) (q k : Nat), SortedSpans l → (∀ t ∈ l, t.label.start ≤ t.label.stop) →
    (∀ t ∈ l, 0 ≤ t.label.start) →
    ∀ t ∈ l, t.label.start ≤ (q : Int) → (q : Int) < t.label.stop → ∃ i, nodeIndexForPosition l q k = some i
  | [], _, _, _, _, _, t, ht, _, _ => by cases ht
  | s :: rest, q, k, hs, hle, hnn, t, ht, h1, h2 => by
    have h0 := hnn t ht
    simp only [nodeIndexForPosition]
    rcases List.mem_cons.1 ht with rfl | ht'
    · rw [if_neg (by omega)]
      split
      · exact ⟨k, rfl⟩
      · exact absurd (by
          simp only [spanContains, Node.spanValid, Bool.and_eq_true, decide_eq_true_eq]
          omega) ‹¬ spanContains t q = true›
    · have hst : s.label.stop ≤ t.label.start := List.rel_of_pairwise_cons hs ht'
      have := hle s (List.mem_cons_self ..)
      rw [if_neg (by omega)]
      split
      · exact ⟨k, rfl⟩
      · exact nodeIndex_some_of_mem rest q (k + 1) (List.Pairwise.of_cons hs)
          (fun v hv => hle v (List.mem_cons_of_mem _ hv)) (fun v hv => hnn v (List.mem_cons_of_mem _ hv)) t ht' h1 h2

theorem Live.nodeIndex (hc : RC src L N) {r : Rd} (h : Live L r) : ∃ i, nodeIndexForPosition L r.pos 0 = some i := by
  obtain ⟨t, rest, _, htm, h1, h2, _⟩ := h.currentNode hc
  exact nodeIndex_some_of_mem L r.pos 0 hc.sorted hc.le hc.nn t htm h1 h2

/-! ### the loops of `parseLinkLabel` -/

variable {m : Nat}

theorem labelSkip_scan (hc : RC src L N) : ∀ (f : Nat) (r : Rd) (chars : Nat) (r' : Rd) (ch : Nat),
    SI src L m N r → labelSkip src f r chars = some (r', ch) → SI src L m N r' ∧ Live L r' := by
  intro f
  induction f with
  | zero => intro r chars r' ch _ h; simp [labelSkip] at h
  | succ f ih =>
    intro r chars r' ch hs h
    rw [labelSkip] at h
    rcases hnx : r.next src with ⟨ok, r1⟩
    rw [hnx] at h
    simp only [] at h
    cases ok with
    | false => simp at h
    | true =>
      have hs1 : SI src L m N r1 := by have := hs.next_ok hc (by rw [hnx]); rwa [hnx] at this
      have hl1 : Live L r1 := by
        rcases hs.st with h' | h'
        · have := (h'.next (src := src) hc).2.1 (by rw [hnx]); rwa [hnx] at this
        · rw [dead_next h'.1] at hnx; cases hnx
      simp only [Bool.not_true, Bool.false_eq_true, if_false] at h
      rw [hs1.current_eq hc] at h
      simp only [] at h
      split at h
      · cases h
      · split at h
        · cases h; exact ⟨hs1, hl1⟩
        · exact ih r1 _ r' ch hs1 h

theorem Live.strict_of_byte (hc : RC src L N) {r : Rd} (h : Live L r) (hb : (r.current src).1 ≠ SP)
    (ht : (r.next src).1 = true) : r.pos + 1 ≤ (r.next src).2.pos := by
  obtain ⟨t, rest, hs, _, _, e⟩ := h.current (src := src) hc
  refine (h.next_ok_pos hc ht).2.2 t rest hs ?_
  cases hi : isIndent t with
  | false => rfl
  | true =>
    rw [e] at hb
    simp only [liveByte, hi, if_true] at hb
    exact absurd rfl hb

theorem notWs_of_not_space {c : UInt8} (h : isSpaceTabOrLineEnding c = false) : c ≠ SP := by
  intro e; rw [e] at h; revert h; decide

theorem labelBody_scan (hc : RC src L N) : ∀ (f : Nat) (r : Rd) (chars : Nat) (ie : Int) (r' : Rd) (ie' : Int),
    SI src L m N r → Live L r → -1 ≤ ie → ie ≤ (r.pos : Int) → labelBody src f r chars ie = some (r', ie') →
    SI src L m N r' ∧ Live L r' ∧ -1 ≤ ie' ∧ ie' ≤ (r'.pos : Int) := by
  intro f
  induction f with
  | zero => intro r chars ie r' ie' _ _ _ _ h; simp [labelBody] at h
  | succ f ih =>
    intro r chars ie r' ie' hs hl h1 h2 h
    rw [labelBody, hs.current_eq hc] at h
    simp only [] at h
    split at h
    · cases h; exact ⟨hs, hl, h1, h2⟩
    · -- one more byte
      have step : ∀ (r0 : Rd) (c0 : UInt8), SI src L m N r0 → Live L r0 → (r0.current src).1 = c0 → ∀ r1,
          r0.next src = (true, r1) → SI src L m N r1 ∧ Live L r1 ∧ r0.pos ≤ r1.pos ∧
            (c0 ≠ SP → r0.pos + 1 ≤ r1.pos) := by
        intro r0 c0 hs0 hl0 hc0 r1 hnx
        have a1 := hs0.next_ok hc (by rw [hnx])
        have a2 := (hl0.next (src := src) hc).2.1 (by rw [hnx])
        have a3 := (hl0.next_ok_pos (src := src) hc (by rw [hnx])).1
        have a4 := fun hb => hl0.strict_of_byte (src := src) hc hb (by rw [hnx])
        rw [hnx] at a1 a2 a3 a4
        exact ⟨a1, a2, a3, fun hb => a4 (by rw [hc0]; exact hb)⟩
      split at h
      · -- backslash
        rename_i hbs
        have hbs' : (r.current src).1 = 0x5C := by simpa using hbs
        split at h
        · cases h
        · rcases hnx : r.next src with ⟨ok, r1⟩
          rw [hnx] at h
          simp only [] at h
          cases ok with
          | false => simp at h
          | true =>
            obtain ⟨s1, l1, p1, p1'⟩ := step r _ hs hl hbs' r1 hnx
            have p1s := p1' (by decide)
            simp only [Bool.not_true, Bool.false_eq_true, if_false] at h
            rw [s1.current_eq hc] at h
            simp only [] at h
            rcases hnx2 : r1.next src with ⟨ok2, r2⟩
            rw [hnx2] at h
            simp only [] at h
            cases ok2 with
            | false => simp at h
            | true =>
              obtain ⟨s2, l2, p2, p2'⟩ := step r1 _ s1 l1 rfl r2 hnx2
              simp only [Bool.not_true, Bool.false_eq_true, if_false] at h
              refine ih r2 _ _ r' ie' s2 l2 ?_ ?_ h
              · split <;> omega
              · split
                · rename_i hws
                  have := p2' (notWs_of_not_space (by simpa using hws))
                  omega
                · omega
      · rcases hnx : r.next src with ⟨ok, r1⟩
        rw [hnx] at h
        simp only [] at h
        cases ok with
        | false => simp at h
        | true =>
          obtain ⟨s1, l1, p1, p1'⟩ := step r _ hs hl rfl r1 hnx
          simp only [Bool.not_true, Bool.false_eq_true, if_false] at h
          refine ih r1 _ _ r' ie' s1 l1 ?_ ?_ h
          · split <;> omega
          · split
            · rename_i hws
              have := p1' (notWs_of_not_space (by simpa using hws))
              omega
            · omega

/-- **`parseLinkLabel`**: a valid label starts at the reader's position `p`, ends right after a `]` seen by a live reader
    (inside the container, in one of the children), and the inner span lies between. -/
theorem label_scan (hc : RC src L N) (p : Nat) (hp : p < src.length) (fl : Nat) (lab : LinkLabel) (r' : Rd)
    (h : parseLinkLabel src fl (newReader L p) = (lab, r')) (hv : lab.span.isValid = true) :
    lab.span.start = (p : Int) ∧ (p : Int) < lab.span.stop ∧ lab.span.stop ≤ (N : Int) ∧
    (∃ i, nodeIndexForPosition L (lab.span.stop - 1).toNat 0 = some i) ∧
    (p : Int) ≤ lab.inner.start ∧ -1 ≤ lab.inner.stop ∧ lab.inner.stop < lab.span.stop := by
  have hnr : newReader L p = newReader (L.drop 0) p := by simp
  obtain ⟨q1, q2, q3, hst⟩ := newReader_cn (L := L) 0 p
  rw [parseLinkLabel, hnr, newReader_current (L := L) 0 p hp] at h
  rw [← hnr] at h hst q1 q2 q3
  generalize (newReader L p).currentNode.2 = r1 at h hst q1 q2 q3
  simp only [] at h
  split at h
  · cases h; exact absurd hv (by decide)
  · rcases hst with hl | ⟨hd, _⟩
    · have hs1 : SI src L p N r1 := by
        refine ⟨⟨false, ?_⟩, Or.inl hl⟩
        obtain ⟨t, rest, hs, htm, h1, h2, _⟩ := hl.currentNode hc
        obtain ⟨k, hk⟩ := hl.1
        have hb := hc.bound t htm
        refine ⟨?_, ?_, by omega, by omega, by omega, by omega, (fun hh => by cases hh), Or.inl (by omega)⟩
        · intro v hv'
          rw [hk] at hv'
          have hvm := List.mem_of_mem_drop hv'
          have := hc.bound v hvm; have := hc.le v hvm
          unfold TB; omega
        · rw [hk]; exact hc.sorted.drop k
      split at h
      · cases h; exact absurd hv (by decide)
      · rename_i r2 chars hsk
        obtain ⟨s2, l2⟩ := labelSkip_scan hc _ _ _ _ _ hs1 hsk
        split at h
        · cases h; exact absurd hv (by decide)
        · rename_i r3 ie hbd
          obtain ⟨s3, l3, i1, i2⟩ := labelBody_scan hc _ _ _ _ _ _ s2 l2 (Int.le_refl _) (by omega) hbd
          rw [s3.current_eq hc] at h
          simp only [] at h
          split at h
          · cases h; exact absurd hv (by decide)
          · cases h
            have hlt := l3.pos_lt hc
            have hlo := s3.lo
            have hlo2 := s2.lo
            refine ⟨by simp only []; omega, by simp only []; omega, by simp only []; omega, ?_, by simp only []; omega, i1,
              by simp only []; omega⟩
            obtain ⟨i, hi⟩ := l3.nodeIndex hc
            refine ⟨i, ?_⟩
            have : (((r3.pos + 1 : Nat) : Int) - 1).toNat = r3.pos := by omega
            rw [this]; exact hi
    · -- dead from the start: `labelSkip` fails at once
      split at h
      · cases h; exact absurd hv (by decide)
      · rename_i r2 chars hsk
        exfalso
        obtain ⟨f, hf⟩ : ∃ f, fl = f + 1 ∨ fl = 0 := ⟨fl - 1, by omega⟩
        cases fl with
        | zero => simp [labelSkip] at hsk
        | succ f' =>
          rw [labelSkip, dead_next hd] at hsk
          simp at hsk

end CM.Proofs.PSc
