import CM.Proofs.BlocksSpansStarts
/-
C02, block half — the remaining block starts: fenced code, HTML block, setext heading, list item, indented code.
-/
namespace CM.Proofs.BSp
open CM CM.Model CM.Gen CM.Proofs.BT

/-! ### fenced code -/

theorem startFenced_sp {Q : ParaPred} (x : PExt) (p : LP) (h : Inv p) (hs : p.state = 0) (pre : SPre Q x p) :
    StartPost Q p (startFenced x p) := by
  unfold startFenced
  simp only []
  split
  · exact StartPost.refl pre
  split
  · exact StartPost.refl pre
  have hb := parseCodeFence_bound p.bytesAfterIndent
  generalize parseCodeFence p.bytesAfterIndent = fc at hb ⊢
  obtain ⟨ci, hdrop, hil⟩ := consumeAll p h
  have w1 := pre.w.ci ci
  have hat1 : ChainAt (p.consumeIndentN p.indent) := ChainAt.of_tree ci.tree pre.at_
  generalize p.consumeIndentN p.indent = p1 at ci hdrop hil w1 hat1 ⊢
  have i1 := ci.inv h
  have s1 := ci.st (by omega)
  have ob := openBlock_inv x p1 BK.fencedCode (fun l => { l with char := fc.char, n := fc.n }) (fun _ => rfl) i1 s1.2
    (Or.inl (by decide))
  obtain ⟨w2, t2, _⟩ := w1.openBlock (x := x) BK.fencedCode (fun l => { l with char := fc.char, n := fc.n })
    (fun _ => ⟨rfl, rfl, rfl⟩) i1 s1.2 pre.closeL (Or.inl ⟨by decide, hat1⟩) (by decide) (by decide)
  generalize p1.openBlock x BK.fencedCode (fun l => { l with char := fc.char, n := fc.n }) = p2 at ob w2 t2
  have i2 := ob.inv i1
  have s2 := ob.st s1.2
  have sc := setContainerIndent_post p2 (↑p.indent) i2.tree s2.2.2 s2.2.1 (Or.inr ob.ckind)
  obtain ⟨w3, _⟩ := w2.setIndent (↑p.indent) s2.2.2 s2.2.1 (Or.inr ob.ckind)
  generalize p2.setContainerIndent (↑p.indent) = p3 at sc w3
  have i3 := sc.inv i2
  have e3i : p3.i = p1.i := by rw [cur_i sc.cur, cur_i ob.cur]
  have e3l : p3.line = p1.line := by rw [cur_line sc.cur, cur_line ob.cur]
  have s3 : 1 ≤ p3.state ∧ p3.state ≤ 2 := by rw [sc.state]; omega
  have k3 : p3.containerKind = BK.fencedCode := by rw [sc.kind, ob.ckind]
  have key : ∀ p4 : LP, Inv p4 → p4.state ≤ 2 → W Q p p4 → StartPost Q p p4.consumeLine := by
    intro p4 i4 s4 w4
    have cl := consumeLine_post p4 i4.cur
    exact StartPost.of_consumed (w4.cl cl i4.cur) (cl.st s4)
  split
  · rename_i hcond
    simp only [Bool.and_eq_true, decide_eq_true_eq] at hcond
    obtain ⟨⟨hc1, hc2⟩, hc3⟩ := hcond
    obtain ⟨hb1, hb2, hb3⟩ := hb hc1 hc2
    have ad := advance_post p3 fc.infoStart.toNat i3.cur (by rw [e3i, e3l, ci.line]; omega)
    have w4 := w3.adv ad
    generalize p3.advance fc.infoStart.toNat = p4 at ad w4
    have i4 := ad.inv i3
    have s4 := ad.st s3.2
    have hdrop4 : p4.line.getD p4.i 0 = p.bytesAfterIndent.getD fc.infoStart.toNat 0 := by
      rw [ad.i, ad.line, e3i, e3l]; exact getD_of_drop p1 _ _ hdrop
    have hind4 : p4.indent = 0 := indent_zero_of_getD p4 (by rw [hdrop4]; exact hb2) (by rw [hdrop4]; exact hb3)
    have hb5 : p4.i + ciSkip p4 + (fc.infoEnd - fc.infoStart).toNat ≤ p4.line.length := by
      rw [ciSkip_zero p4 hind4, ad.i, ad.line, e3i, e3l, ci.line]; omega
    have co := collectInline_post x p4 IK.infoString (fc.infoEnd - fc.infoStart).toNat i4 (by omega) hb5
    obtain ⟨w5, _⟩ := w4.collectInline x IK.infoString (fc.infoEnd - fc.infoStart).toNat i4 (by omega) hb5
      (by rw [ad.ckind, k3]; decide)
    have s5 := co.st s4.2
    exact key _ co.inv s5.2.1 w5
  · exact key p3 i3 s3.2 w3

/-! ### HTML block -/

theorem htmlStartLoop_sp {Q : ParaPred} (x : PExt) (line : Bytes) : ∀ (fuel i : Nat) (p : LP), Inv p → p.state = 0 →
    SPre Q x p → StartPost Q p (htmlStartLoop x line fuel i p) := by
  intro fuel
  induction fuel with
  | zero => intro i p _ _ pre; exact StartPost.refl pre
  | succ fuel ih =>
    intro i p h hs pre
    unfold htmlStartLoop
    split
    · exact StartPost.refl pre
    split
    · split
      · exact StartPost.refl pre
      have ob := openBlock_inv x p BK.htmlBlock (fun l => { l with n := i }) (fun _ => rfl) h (by omega) (Or.inl (by decide))
      obtain ⟨w2, t2, _⟩ := pre.w.openBlock (x := x) BK.htmlBlock (fun l => { l with n := i }) (fun _ => ⟨rfl, rfl, rfl⟩) h (by omega)
        pre.closeL (Or.inl ⟨by decide, pre.at_⟩) (by decide) (by decide)
      simp only []
      generalize p.openBlock x BK.htmlBlock (fun l => { l with n := i }) = p2 at ob w2 t2
      have i2 := ob.inv h
      have s2 : p2.state = 1 := by rw [ob.state, hs]; rfl
      split
      · have hb4 : p2.i + ciSkip p2 + p2.bytesAfterIndent.length ≤ p2.line.length := by
          rw [ciSkip_bai p2 i2.cur]; exact Nat.le_refl _
        have co := collectInline_post x p2 IK.rawHTML p2.bytesAfterIndent.length i2 (by omega) hb4
        obtain ⟨w4, _⟩ := w2.collectInline x IK.rawHTML p2.bytesAfterIndent.length i2 (by omega) hb4 (by rw [ob.ckind]; decide)
        generalize p2.collectInline x IK.rawHTML p2.bytesAfterIndent.length = p4 at co w4
        have s4 := co.st (by omega)
        have cl := consumeLine_post p4 co.inv.cur
        have w5 := w4.cl cl co.inv.cur
        generalize p4.consumeLine = p5 at cl w5
        have i5 := cl.inv co.inv
        have s5 := cl.st s4.2.1
        have k5 : p5.containerKind = BK.htmlBlock := by rw [cl.ckind, co.ckind, ob.ckind]
        have eb := endBlock_inv x p5 i5 (by omega)
        obtain ⟨w6, _⟩ := w5.endBlock_leaf (x := x) i5 (by omega) (by rw [k5]; exact leaf_html) (by rw [k5]; decide)
        generalize p5.endBlock x = p6 at eb w6
        have s6 : p6.state = 2 := by rw [eb.state, s5]; rfl
        exact StartPost.of_consumed w6 s6
      · exact StartPost.of_w w2 (Or.inr ⟨by rw [ob.ckind]; decide, by rw [ob.ckind]; decide⟩) (fun h0 => by omega)
          (by rw [ob.ckind]; decide)
    · exact ih (i + 1) p h hs pre

theorem startHTML_sp {Q : ParaPred} (x : PExt) (p : LP) (h : Inv p) (hs : p.state = 0) (pre : SPre Q x p) :
    StartPost Q p (startHTML x p) := by
  unfold startHTML
  simp only []
  split
  · exact StartPost.refl pre
  split
  · exact StartPost.refl pre
  exact htmlStartLoop_sp x _ 8 0 p h hs pre

/-! ### setext heading -/

theorem setextLevel_cases (l : Bytes) : parseSetextHeadingUnderline l = 0 ∨ parseSetextHeadingUnderline l = 1 ∨
    parseSetextHeadingUnderline l = 2 := by
  unfold parseSetextHeadingUnderline
  split
  · left; rfl
  · split
    · split
      · right; left; rfl
      · left; rfl
    · split
      · split
        · right; right; rfl
        · left; rfl
      · left; rfl

theorem startSetext_sp {Q : ParaPred} (x : PExt) (p : LP) (h : Inv p) (hs : p.state = 0) (pre : SPre Q x p) :
    StartPost Q p (startSetext x p) := by
  unfold startSetext
  simp only []
  split
  · exact StartPost.refl pre
  rename_i hck
  split
  · exact StartPost.refl pre
  split
  · exact StartPost.refl pre
  rename_i hlev
  have hck' : p.containerKind = BK.paragraph := by simpa using hck
  have hd : 0 < p.depth := by
    rcases Nat.eq_zero_or_pos p.depth with h0 | h0
    · rw [containerKind_zero p h0, h.tree.root] at hck'; cases hck'
    · exact h0
  have hn : ((parseSetextHeadingUnderline p.bytesAfterIndent : Nat) : Int) = 1 ∨
      ((parseSetextHeadingUnderline p.bytesAfterIndent : Nat) : Int) = 2 := by
    rcases setextLevel_cases p.bytesAfterIndent with h0 | h0 | h0
    · rw [h0] at hlev; simp at hlev
    · left; rw [h0]; rfl
    · right; rw [h0]; rfl
  generalize hf : (PB.setLabel fun l => { l with kind := BK.setextHeading, n := ↑(parseSetextHeadingUnderline p.bytesAfterIndent) }) = f
  have i1 : Inv (p.modifyContainer f) := h.of_treeOp rfl rfl (modifyContainer_ok_pos p f h.tree hd)
  have e1s : (p.modifyContainer f).state = p.state := rfl
  have e1c : cur (p.modifyContainer f) = cur p := rfl
  have e1src : (p.modifyContainer f).source = p.source := rfl
  have e1ls : (p.modifyContainer f).lineStart = p.lineStart := rfl
  have cl := consumeLine_post (p.modifyContainer f) i1.cur
  have i5 := cl.inv i1
  have s5 := cl.st (by rw [e1s]; omega)
  have key := setext_close (x := x) p (p.modifyContainer f).consumeLine _ hn h pre.mi hck' pre.setext
    (by rw [cl.tree, ← hf]) (by rw [cl.line]; exact cur_line e1c) (by rw [cl.i]; exact congrArg List.length (cur_line e1c)) (by omega)
  have eb := endBlock_inv x _ i5 (by omega)
  obtain ⟨r1, r2, r3, _⟩ := endBlock_src x (p.modifyContainer f).consumeLine (by omega)
  have t5 := cl.tree
  simp only [BT.tree, Prod.mk.injEq] at t5
  have s6 : ((p.modifyContainer f).consumeLine.endBlock x).state = 2 := by rw [eb.state, s5]; rfl
  refine ⟨key, by rw [r1, t5.1, e1src], by rw [r2, t5.2.2.2, e1ls], by rw [r3, cl.line]; exact cur_line e1c, ?_, ?_, ?_, ?_⟩
  · intro hh
    rcases hh with hh | hh
    · exact absurd hck' hh
    · omega
  · intro hh; omega
  · intro hh; omega
  · intro _ hh; omega

/-! ### indented code -/

theorem startIndentedCode_sp {Q : ParaPred} (x : PExt) (p : LP) (h : Inv p) (hs : p.state = 0) (pre : SPre Q x p) :
    StartPost Q p (startIndentedCode x p) := by
  unfold startIndentedCode
  split
  · exact StartPost.refl pre
  rename_i hc
  simp only [Bool.or_eq_true, decide_eq_true_eq, not_or, Nat.not_lt] at hc
  have hind : codeBlockIndentLimit ≤ p.indent := hc.1.1
  simp only []
  have ci := consumeIndentN_post p codeBlockIndentLimit h.cur hind
  have w1 := pre.w.ci ci
  have hat1 : ChainAt (p.consumeIndentN codeBlockIndentLimit) := ChainAt.of_tree ci.tree pre.at_
  generalize p.consumeIndentN codeBlockIndentLimit = p1 at ci w1 hat1
  have i1 := ci.inv h
  have s1 : p1.state = 1 := by rw [ci.state, hs]; rfl
  have ob := openBlock_inv x p1 BK.indentedCode id id_kind i1 (by omega) (Or.inl (by decide))
  obtain ⟨w2, t2, _⟩ := w1.openBlock (x := x) BK.indentedCode id attr_id i1 (by omega)
    pre.closeL (Or.inl ⟨by decide, hat1⟩) (by decide) (by decide)
  have s2 : (p1.openBlock x BK.indentedCode).state = 1 := by rw [ob.state, s1]; rfl
  exact StartPost.of_w w2 (Or.inr ⟨by rw [ob.ckind]; decide, by rw [ob.ckind]; decide⟩) (fun h0 => by omega)
    (by rw [ob.ckind]; decide)

/-! ### list items -/

theorem listItemTail_w {Q : ParaPred} (x : PExt) (p0 p : LP) (delim : UInt8) (stop ind : Nat) (h : Inv p) (w : W Q p0 p)
    (hL : CloseParaOK Q x p0.source p0.lineStart)
    (hk : p.containerKind = BK.list) (hs : p.state ≤ 2) (hstop : 1 ≤ stop) (hb : p.i + stop ≤ p.line.length) :
    W Q p0 (listItemTail x delim stop ind p) ∧ (listItemTail x delim stop ind p).containerKind = BK.listItem := by
  unfold listItemTail
  simp only []
  have cc1 : canContain p.containerKind BK.listItem = true := by rw [hk]; decide
  have ob1 := openBlock_inv x p BK.listItem (fun l => { l with char := delim }) (fun _ => rfl) h hs (Or.inr cc1)
  obtain ⟨w1, _, _⟩ := w.openBlock (x := x) BK.listItem (fun l => { l with char := delim }) (fun _ => ⟨rfl, rfl, rfl⟩) h hs hL
    (Or.inr cc1) (by decide) (by decide)
  generalize p.openBlock x BK.listItem (fun l => { l with char := delim }) = q1 at ob1 w1
  have i1 := ob1.inv h
  have s1 := ob1.st hs
  have k1 := ob1.ckind
  have cc2 : canContain q1.containerKind BK.listMarker = true := by rw [k1]; decide
  have ob2 := openBlock_inv x q1 BK.listMarker id id_kind i1 s1.2.1 (Or.inl (by decide))
  obtain ⟨w2, _, _⟩ := w1.openBlock (x := x) BK.listMarker id attr_id i1 s1.2.1 hL (Or.inr cc2) (by decide) (by decide)
  generalize q1.openBlock x BK.listMarker = q2 at ob2 w2
  have i2 := ob2.inv i1
  have s2 := ob2.st s1.2.1
  have d2 := ob2.depth cc2
  have lab2 := ob2.label cc2
  have e2i : q2.i = p.i := by rw [cur_i ob2.cur, cur_i ob1.cur]
  have e2l : q2.line = p.line := by rw [cur_line ob2.cur, cur_line ob1.cur]
  have ad := advance_post q2 stop i2.cur (by rw [e2i, e2l]; exact hb)
  have w3 := w2.adv ad
  generalize q2.advance stop = q3 at ad w3
  have i3 := ad.inv i2
  have s3 := ad.st s2.2.1
  have k3 : q3.containerKind = BK.listMarker := by rw [ad.ckind, ob2.ckind]
  have eb := endBlock_inv x q3 i3 s3.2
  obtain ⟨w4, _⟩ := w3.endBlock_leaf (x := x) i3 s3.2 (by rw [k3]; exact leaf_marker) (by rw [k3]; decide)
  generalize q3.endBlock x = q4 at eb w4
  have i4 := eb.inv i3
  have s4 := eb.st s3.2
  have d3 : q3.depth = q1.depth + 1 := by rw [tree_depth ad.tree, d2]
  have k4 : q4.containerKind = BK.listItem := by
    have l4 := eb.label (by omega)
    rw [d3, tree_root ad.tree, Nat.add_sub_cancel, lab2, labelAt_container q1 i1.tree.valid] at l4
    rw [containerKind_of_labelAt q4 _ l4]
    exact k1
  -- the endings
  have fin : ∀ (q5 : LP) (n : Int), Inv q5 → q5.containerKind = BK.listItem → 1 ≤ q5.state → q5.state ≤ 2 → W Q p0 q5 →
      W Q p0 (q5.setContainerIndent n) ∧ (q5.setContainerIndent n).containerKind = BK.listItem ∧
        Inv (q5.setContainerIndent n) ∧ (q5.setContainerIndent n).state = q5.state := by
    intro q5 n i5 k5 s5a s5b w5
    have sc := setContainerIndent_post q5 n i5.tree s5a s5b (Or.inl k5)
    obtain ⟨w6, _⟩ := w5.setIndent n s5a s5b (Or.inl k5)
    exact ⟨w6, by rw [sc.kind, k5], sc.inv i5, sc.state⟩
  split
  · obtain ⟨w5, k5, i5, _⟩ := fin q4 (↑ind + ↑stop + 1) i4 k4 s4.2.2 s4.2.1 w4
    have cl := consumeLine_post _ i5.cur
    exact ⟨w5.cl cl i5.cur, by rw [cl.ckind, k5]⟩
  · split
    · obtain ⟨w5, k5, _, _⟩ := fin q4 (↑ind + ↑stop + 1) i4 k4 s4.2.2 s4.2.1 w4
      exact ⟨w5, k5⟩
    · split
      · have c5 := consumeIndentN_post q4 1 i4.cur (by omega)
        have s5 := c5.st s4.2.1
        obtain ⟨w6, k6, _, _⟩ := fin _ (↑ind + ↑stop + 1) (c5.inv i4) (by rw [c5.ckind, k4]) (by omega) s5.2 (w4.ci c5)
        exact ⟨w6, k6⟩
      · have c5 := consumeIndentN_post q4 q4.indent i4.cur (Nat.le_refl _)
        have s5 := c5.st s4.2.1
        obtain ⟨w6, k6, _, _⟩ := fin _ (↑ind + ↑stop + ↑q4.indent) (c5.inv i4) (by rw [c5.ckind, k4]) (by omega) s5.2 (w4.ci c5)
        exact ⟨w6, k6⟩

theorem univ_listItem : Univ BK.listItem = true := by decide

theorem startListItem_sp {Q : ParaPred} (x : PExt) (p : LP) (h : Inv p) (hs : p.state = 0) (pre : SPre Q x p) :
    StartPost Q p (startListItem x p) := by
  unfold startListItem
  simp only []
  split
  · exact StartPost.refl pre
  split
  · exact StartPost.refl pre
  rename_i _ hc1
  split
  · exact StartPost.refl pre
  have hb := parseListMarker_toNat_le p.bytesAfterIndent
  have hpos := parseListMarker_pos p.bytesAfterIndent
  generalize parseListMarker p.bytesAfterIndent = m at hb hpos hc1 ⊢
  have hm : 1 ≤ m.stop := by
    rcases hpos with h' | h'
    · rw [h'] at hc1; simp at hc1
    · exact h'
  obtain ⟨ci, hdrop, hil⟩ := consumeAll p h
  have w1 := pre.w.ci ci
  have hat1 : ChainAt (p.consumeIndentN p.indent) := ChainAt.of_tree ci.tree pre.at_
  generalize p.consumeIndentN p.indent = p1 at ci hdrop hil w1 hat1 ⊢
  have i1 := ci.inv h
  have s1 := ci.st (by omega)
  generalize hcond : (p1.containerKind != BK.list || (if (p1.containerKind != BK.list && p1.containerKind != BK.listItem) = true
      then (0 : UInt8) else p1.container.label.char) != m.delim) = c
  have hcf : c = false → p1.containerKind = BK.list := by
    intro hc; rw [hc] at hcond
    simp only [Bool.or_eq_false_iff] at hcond
    simpa using hcond.1
  have key : ∀ p2 : LP, Inv p2 → p2.containerKind = BK.list → p2.state ≤ 2 → cur p2 = cur p1 → W Q p p2 →
      StartPost Q p (listItemTail x m.delim m.stop.toNat p.indent p2) := by
    intro p2 i2 k2 s2 c2 w2
    obtain ⟨w3, k3⟩ := listItemTail_w x p p2 m.delim m.stop.toNat p.indent i2 w2 pre.closeL k2 s2 (by omega)
      (by rw [cur_i c2, cur_line c2, ci.line]; omega)
    exact StartPost.of_w w3 (Or.inl (ChainAt.of_univ (by rw [k3]; exact univ_listItem)))
      (fun _ => ChainAt.of_univ (by rw [k3]; exact univ_listItem)) (by rw [k3]; decide)
  cases c with
  | true =>
    have ob := openBlock_inv x p1 BK.list (fun l => { l with char := m.delim }) (fun _ => rfl) i1 s1.2 (Or.inl (by decide))
    obtain ⟨w2, _, _⟩ := w1.openBlock (x := x) BK.list (fun l => { l with char := m.delim }) (fun _ => ⟨rfl, rfl, rfl⟩) i1 s1.2
      pre.closeL (Or.inl ⟨by decide, hat1⟩) (by decide) (by decide)
    exact key _ (ob.inv i1) ob.ckind (ob.st s1.2).2.1 ob.cur w2
  | false => exact key p1 i1 (hcf rfl) s1.2 rfl w1

/-! ### all starts -/

theorem blockStartFns_sp {Q : ParaPred} (x : PExt) : ∀ f ∈ blockStartFns x, ∀ q : LP, BT.Inv q → q.state = 0 → SPre Q x q → StartPost Q q (f q) := by
  intro f hf q h hs pre
  simp only [blockStartFns, List.mem_cons, List.mem_nil_iff, or_false] at hf
  rcases hf with rfl | rfl | rfl | rfl | rfl | rfl | rfl | rfl
  · exact startBlockQuote_sp x q h hs pre
  · exact startATX_sp x q h hs pre
  · exact startFenced_sp x q h hs pre
  · exact startHTML_sp x q h hs pre
  · exact startSetext_sp x q h hs pre
  · exact startThematicBreak_sp x q h hs pre
  · exact startListItem_sp x q h hs pre
  · exact startIndentedCode_sp x q h hs pre

end CM.Proofs.BSp
