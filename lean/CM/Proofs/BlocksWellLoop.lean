import CM.Proofs.BlocksWellStarts2
/-
`tryStarts` and the `openingLoop`.
-/
namespace CM.Proofs
open CM CM.Model CM.Gen

theorem allStarts_ok {am : Bool} {N : Nat} (x : PExt) : ∀ f ∈ blockStartFns x, ∀ p : LP, LA am N p → InOpen p.state →
    StartOK am N p (f p) := by
  intro f hf p h hs
  simp only [blockStartFns, List.mem_cons, List.mem_nil_iff, or_false] at hf
  rcases hf with rfl | rfl | rfl | rfl | rfl | rfl | rfl | rfl
  · exact startBlockQuote_ok x h hs
  · exact startATX_ok x h hs
  · exact startFenced_ok x h hs
  · exact startHTML_ok x h hs
  · exact startSetext_ok x h hs
  · exact startThematicBreak_ok x h hs
  · exact startListItem_ok x h hs
  · exact startIndentedCode_ok x h hs

/-- `p'` is `p` except for the state. -/
def SameButState (p p' : LP) : Prop := p' = { p with state := p'.state }

theorem SameButState.refl (p : LP) : SameButState p p := rfl

theorem la_setState {am : Bool} {N : Nat} {p : LP} (h : LA am N p) (s : Nat) : LA am N { p with state := s } :=
  ⟨h.cur, h.ile, h.dv, h.root, h.rp⟩

/-- The result of one pass over the block starts. -/
structure TryOK (am : Bool) (N : Nat) (p p' : LP) : Prop where
  res : (LA am N p' ∧ (InOpen p'.state ∨ p'.state = stateLineConsumed)) ∨ LB am N p'
  ne : NE p.root → NE p'.root
  fresh : p' = { p with state := stateOpening } ∨ NE p'.root

theorem tryStarts_ok {am : Bool} {N : Nat} (x : PExt) : ∀ (fs : List (LP → LP)), (∀ f ∈ fs, f ∈ blockStartFns x) →
    ∀ p : LP, LA am N p → TryOK am N p (tryStarts fs { p with state := stateOpening }) := by
  intro fs
  induction fs with
  | nil =>
    intro _ p h
    exact ⟨Or.inl ⟨la_setState h _, Or.inl (Or.inl rfl)⟩, fun h => h, Or.inl rfl⟩
  | cons f rest ih =>
    intro hfs p h
    have hf := allStarts_ok (am := am) (N := N) x f (hfs f (by simp)) { p with state := stateOpening }
      (la_setState h _) (Or.inl rfl)
    simp only [tryStarts]
    generalize f { p with state := stateOpening } = p' at hf
    split
    · -- the start did something
      rename_i hst
      refine ⟨?_, hf.ne, ?_⟩
      · rcases hf.res with h' | h'
        · exact Or.inl h'
        · exact Or.inr h'
      · rcases hf.fresh with h' | h'
        · exact Or.inl h'
        · exact Or.inr h'
    · rename_i hst
      -- the start returned with the state "opening": go on
      rcases hf.res with ⟨hla, hs'⟩ | hlb
      · have ih' := ih (fun g hg => hfs g (by simp [hg])) p' hla
        have hstate : p'.state = stateOpening := by
          rcases hs' with (h1 | h1) | h1
          · exact h1
          · rw [h1] at hst; exact (hst (by decide)).elim
          · rw [h1] at hst; exact (hst (by decide)).elim
        have hsame : ({ p' with state := stateOpening } : LP) = p' := by
          cases p'; simp only at hstate; subst hstate; rfl
        rw [hsame] at ih'
        refine ⟨ih'.res, fun hn => ih'.ne (hf.ne hn), ?_⟩
        rcases ih'.fresh with h1 | h1
        · rcases hf.fresh with h2 | h2
          · left; rw [h1, hsame, h2]
          · right; rw [h1, hsame]; exact h2
        · exact Or.inr h1
      · have := hlb.state
        rw [this] at hst
        exact (hst (by decide)).elim

/-- The result of the opening loop. -/
structure OLoopOK (am : Bool) (N : Nat) (p : LP) (ht : Bool) (p' : LP) : Prop where
  res : LA am N p' ∨ (LB am N p' ∧ ht = false)
  ne : NE p.root → NE p'.root
  fresh : (SameButState p p' ∧ ht = true ∧ (p' = p ∨ p'.state = stateOpening)) ∨ NE p'.root
  st : p'.state = p.state ∨ InOpen p'.state ∨ p'.state = stateLineConsumed

theorem openingLoop_ok {am : Bool} {N : Nat} (x : PExt) : ∀ (fuel : Nat) (p : LP), LA am N p →
    OLoopOK am N p (openingLoop x fuel p).1 (openingLoop x fuel p).2 := by
  intro fuel
  induction fuel with
  | zero =>
    intro p h
    exact ⟨Or.inl h, fun h => h, Or.inl ⟨rfl, rfl, Or.inl rfl⟩, Or.inl rfl⟩
  | succ fuel ih =>
    intro p h
    unfold openingLoop
    split
    · exact ⟨Or.inl h, fun h => h, Or.inl ⟨rfl, rfl, Or.inl rfl⟩, Or.inl rfl⟩
    · have ht := tryStarts_ok (am := am) (N := N) x (blockStartFns x) (fun f hf => hf) p h
      -- `tryStarts` sets the state itself
      have heq : tryStarts (blockStartFns x) p = tryStarts (blockStartFns x) { p with state := stateOpening } := by
        unfold blockStartFns
        simp only [tryStarts]
      simp only
      rw [heq]
      generalize tryStarts (blockStartFns x) { p with state := stateOpening } = p' at ht
      split
      · rename_i hst
        have hst' : p'.state = stateOpenMatched := by simpa using hst
        rcases ht.res with ⟨hla, _⟩ | hlb
        · have ih' := ih p' hla
          refine ⟨ih'.res, fun hn => ih'.ne (ht.ne hn), ?_, ?_⟩
          · rcases ht.fresh with h1 | h1
            · rw [h1] at hst'; exact absurd hst' (show stateOpening ≠ stateOpenMatched by decide)
            · rcases ih'.fresh with ⟨h2, _⟩ | h2
              · right
                rw [h2]; exact h1
              · exact Or.inr h2
          · rcases ih'.st with h1 | h1
            · exact Or.inr (Or.inl (by rw [h1, hst']; exact Or.inr rfl))
            · exact Or.inr h1
        · rw [hlb.state] at hst'; exact absurd hst' (by decide)
      · rename_i hst
        split
        · rename_i hst2
          have hst' : p'.state = stateLineConsumed := by simpa using hst2
          refine ⟨?_, ht.ne, ?_, Or.inr (Or.inr hst')⟩
          · rcases ht.res with ⟨hla, _⟩ | hlb
            · exact Or.inl hla
            · exact Or.inr ⟨hlb, rfl⟩
          · rcases ht.fresh with h1 | h1
            · rw [h1] at hst'; exact absurd hst' (show stateOpening ≠ stateLineConsumed by decide)
            · exact Or.inr h1
        · rename_i hst2
          have hst' : p'.state ≠ stateLineConsumed := by simpa using hst2
          refine ⟨?_, ht.ne, ?_, ?_⟩
          · rcases ht.res with ⟨hla, _⟩ | hlb
            · exact Or.inl hla
            · exact absurd hlb.state hst'
          · rcases ht.fresh with h1 | h1
            · left
              refine ⟨?_, rfl, Or.inr (by rw [h1])⟩
              unfold SameButState
              rw [h1]
            · exact Or.inr h1
          · rcases ht.res with ⟨_, hs2⟩ | hlb
            · exact Or.inr hs2
            · exact absurd hlb.state hst'

end CM.Proofs
