import CM.Proofs.BlocksSpansProcess
import CM.Proofs.BlocksTotal
/-
C02 — block half: **the trees of the block phase have valid, nested, ordered spans.**

* `PBSpans Q lo hi b` (file `BlocksSpansDef`): the block `b` under construction has its span inside `[lo, hi]` (an open
  block is read as `[start, hi)`), `lo ≤ start ≤ stop ≤ hi`; its block children are in order, pairwise non-overlapping
  (`childᵢ.stop ≤ childᵢ₊₁.start`), each inside the block's span; only the last block child may be open, and only if
  the block itself is; its inline children (`Tree` labels) are in order, valid, inside the block's span. (Hence every
  closed descendant has `0 ≤ start ≤ stop` when `0 ≤ lo`.) Shape facts carried along: only container kinds have block
  children, no open block is a setext heading, every open paragraph satisfies the Boolean parameter `Q`.
  `QT` is the trivial parameter; everything is Boolean, so `PBSpans` on a concrete tree is decidable by evaluation.

* `RefDefSpansOK x src L E` — the parameter `Q` of a line: "`onCloseParagraph` on this open paragraph, closed at the
  start `L` of the line (or turned into a setext heading closed at the end `E` of the line), returns blocks that tile a
  sub-range of the paragraph's span: valid, ordered spans inside `[start, L]` (resp. `[start, E]`, the last one — the
  orphan underline paragraph — possibly open)". This is the one fact about the link-reference-definition scanner
  (`parseLinkLabel` / `parseLinkDestination` / `parseLinkTitle` / `readEOL`, `Model/LinkParse.lean`) that the block phase
  needs; it is a *decidable* property of the state at the start of the line and is isolated as a hypothesis.
  Everything else is proved unconditionally.

* `processLine_spans` — one line (`reset` + `processLine`) preserves "the document root satisfies `PBSpans 0 |source|`".
-/
namespace CM.Proofs.BSp
open CM CM.Model CM.Gen CM.Proofs.BT

/-! ### The hypothesis about `onCloseParagraph` -/

/-- The open paragraph `(l, is)` can be split by `onCloseParagraph` with valid spans: when closed at `L` (all resulting
    blocks closed, inside `[l.start, L]`, in order), and when turned into a setext heading (level 1 or 2) closed at `E`
    (inside `[l.start, E]`, in order, only the last block — the orphan paragraph — may be open). -/
def RefDefSpansOK (x : PExt) (src : Bytes) (L E : Int) : ParaPred := fun l is =>
  pbSpansL QT false l.start L (onCloseParagraph x src (.mk { l with stop := L } [] is)) &&
  pbSpansL QT true l.start E (onCloseParagraph x src (.mk { l with kind := BK.setextHeading, n := 1, stop := E } [] is)) &&
  pbSpansL QT true l.start E (onCloseParagraph x src (.mk { l with kind := BK.setextHeading, n := 2, stop := E } [] is))

theorem refDef_closeParaOK (x : PExt) (src : Bytes) (L E : Int) : CloseParaOK (RefDefSpansOK x src L E) x src L := by
  intro l is h _ _
  simp only [RefDefSpansOK, Bool.and_eq_true] at h
  exact h.1.1

theorem refDef_setextOK (x : PExt) (src : Bytes) (L E : Int) : SetextOK (RefDefSpansOK x src L E) x src E := by
  intro l is n h _ _ hn
  simp only [RefDefSpansOK, Bool.and_eq_true] at h
  rcases hn with rfl | rfl
  · exact h.1.2
  · exact h.2

/-! ### One line -/

theorem reset_fields (p : LP) (source : Bytes) (lineStart : Nat) :
    (p.reset source lineStart).root = p.root ∧ (p.reset source lineStart).source = source ∧
    (p.reset source lineStart).lineStart = lineStart ∧ (p.reset source lineStart).line = source.drop lineStart := by
  unfold LP.reset
  have ht := updateTab_tree { p with lineStart := lineStart, source := source, line := source.drop lineStart, i := 0, col := 0, depth := 0 }
  simp only [BT.tree, Prod.mk.injEq] at ht
  exact ⟨ht.2.1, ht.1, ht.2.2.2, updateTab_line _⟩

/-- **`processLine_spans`.** The line parser `lp` (any state that has not panicked, root = the document block, still
    open) whose tree has valid spans inside `[0, lineStart]`; the new source `source` (`lineStart ≤ |source|`, the line is
    `source[lineStart:]`); the open paragraph (if any) splits with valid spans (`RefDefSpansOK`, decidable). Then after
    `reset` + `processLine` the tree has valid spans inside `[0, |source|]`, and the root is still open unless the line was
    empty (end of input). -/
theorem processLine_spans (x : PExt) (lp : LP) (source : Bytes) (lineStart : Nat) (hinv : LPInv' lp)
    (hls : lineStart ≤ source.length) (hopen : lp.root.label.stop < 0)
    (h : PBSpans (RefDefSpansOK x source lineStart source.length) 0 lineStart lp.root) :
    PBSpans QT 0 source.length (processLine x (lp.reset source lineStart)).root ∧
    (lineStart < source.length → (processLine x (lp.reset source lineStart)).root.label.stop < 0) := by
  have hi := reset_LPInv lp hinv source lineStart
  obtain ⟨r1, r2, r3, r4⟩ := reset_fields lp source lineStart
  have hle : lineEnd (lp.reset source lineStart) = source.length := by
    simp only [lineEnd, r3, r4, List.length_drop]; omega
  have key := processLine_spans_core (Q := RefDefSpansOK x source lineStart source.length) x (lp.reset source lineStart) hi.toInv
    (by rw [r1, r3]; exact h) (by rw [r1]; exact hopen) (by rw [r2, r3]; exact refDef_closeParaOK x _ _ _)
    (by rw [r2, hle]; exact refDef_setextOK x _ _ _)
  rw [hle] at key
  refine ⟨key.1, fun hlt => key.2 ?_⟩
  rw [r4]
  simp only [List.isEmpty_eq_false_iff]
  intro e
  have := congrArg List.length e
  simp at this
  omega

/-- The same in the words of the task: the new source extends the old one by the line. -/
theorem processLine_spans' (x : PExt) (lp : LP) (source line : Bytes) (hinv : LPInv' lp) (hopen : lp.root.label.stop < 0)
    (h : PBSpans (RefDefSpansOK x (source ++ line) source.length (source ++ line).length) 0 source.length lp.root) :
    PBSpans QT 0 (source ++ line).length ((blocksLP x).line lp (source ++ line) source.length).root :=
  (processLine_spans x lp (source ++ line) source.length hinv (by simp) hopen h).1

/-- Without an open paragraph nothing has to be assumed: `PBSpans QF` ("no open paragraph") implies every instance. -/
theorem PBSpans_of_QF {Q : ParaPred} {lo hi : Int} {b : PB} (h : PBSpans QF lo hi b) : PBSpans Q lo hi b :=
  PBSpans_mono (fun _ _ h => by cases h) b (Int.le_refl _) (Int.le_refl _) h

/-! ### `RefDefSpansOK` holds outright for a paragraph that does not begin with `[`

`onCloseParagraph` gives up at once (`parseLinkLabel` needs a `[`) and returns the paragraph itself. -/

theorem refDefLoop_no_bracket (x : PExt) (src : Bytes) (orphan : Option PB) (fuel : Nat) (r : Rd) (l : PLabel) (is : List Tree)
    (h : (r.current src).1 ≠ 0x5B) : refDefLoop x src orphan (fuel + 1) r l is [] = [.mk l [] is] := by
  have hl : (parseLinkLabel src (rdFuel src is) r).1 = noLabel := by
    unfold parseLinkLabel
    simp only []
    rw [if_pos (by simpa using h)]
  have hv : (parseLinkLabel src (rdFuel src is) r).1.span.isValid = false := by rw [hl]; rfl
  unfold refDefLoop
  simp only [hv, Bool.not_false, if_true, List.nil_append]

theorem onCloseParagraph_no_bracket (x : PExt) (src : Bytes) (l : PLabel) (is : List Tree)
    (h : ∀ first rest, is = first :: rest → ((newReader is first.label.start.toNat).current src).1 ≠ 0x5B) :
    onCloseParagraph x src (.mk l [] is) = [.mk l [] is] := by
  unfold onCloseParagraph
  cases is with
  | nil => rfl
  | cons first rest =>
    simp only []
    exact refDefLoop_no_bracket x src _ _ _ l _ (h first rest rfl)

/-- For an (open) paragraph with valid inline children that does not begin with `[`, the hypothesis holds. -/
theorem refDefSpansOK_of_no_bracket (x : PExt) (src : Bytes) (L E : Int) (l : PLabel) (is : List Tree)
    (h : ∀ first rest, is = first :: rest → ((newReader is first.label.start.toNat).current src).1 ≠ 0x5B)
    (h0 : 0 ≤ L) (hLE : L ≤ E) (hs : l.start ≤ L) (hi : InlsOK l.start L is) : RefDefSpansOK x src L E l is = true := by
  have hE : 0 ≤ E := by omega
  have one : ∀ (l' : PLabel) (e : Int), l'.start = l.start → l'.stop = e → 0 ≤ e → l.start ≤ e → InlsOK l.start e is →
      ∀ po, PBSpansL QT po l.start e [.mk l' [] is] := by
    intro l' e h1 h2 h3 h4 h5 po
    rw [PBSpansL_cons]
    refine ⟨?_, fun ho => ?_, PBSpansL_nil _ _ _ _⟩
    · rw [PBSpans_mk, endOf_closed (by rw [h2]; exact h3), h1, h2]
      refine ⟨Int.le_refl _, h4, Int.le_refl _, h5, PBSpansL_nil _ _ _ _, Or.inr rfl, fun ho => ?_⟩
      rw [h2] at ho; omega
    · rw [isOpen_mk, h2] at ho
      simp at ho; omega
  simp only [RefDefSpansOK, Bool.and_eq_true]
  refine ⟨⟨?_, ?_⟩, ?_⟩
  · show PBSpansL QT false l.start L _
    rw [onCloseParagraph_no_bracket x src _ is h]
    exact one { l with stop := L } L rfl rfl h0 hs hi false
  · show PBSpansL QT true l.start E _
    rw [onCloseParagraph_no_bracket x src _ is h]
    exact one { l with kind := BK.setextHeading, n := 1, stop := E } E rfl rfl hE (by omega)
      (InlsOK_mono (Int.le_refl _) hLE hi) true
  · show PBSpansL QT true l.start E _
    rw [onCloseParagraph_no_bracket x src _ is h]
    exact one { l with kind := BK.setextHeading, n := 2, stop := E } E rfl rfl hE (by omega)
      (InlsOK_mono (Int.le_refl _) hLE hi) true

/-! ### Non-vacuity and concrete evaluations -/

section Examples

/-- A link reference definition followed by paragraph text, a blank line, a block quote with nested lists. -/
def spDoc : Bytes := Bytes.ofString "[foo]: /url \"t\"\nrest\n\n> - a\n>   - b\n> 1. c\n"

/-- The line parser after the first two lines (`source = buf[:i]`, `lineStart` = start of the line): an open paragraph
    `[foo]: /url "t"⏎rest⏎`. -/
def spLP : LP := feedLines btX ((blocksLP btX).new []) [(spDoc.take 16, 0), (spDoc.take 21, 16)]

-- the hypotheses of `processLine_spans` hold for the third (blank) line, which closes the paragraph …
example : LPInv' spLP := feedLines_LPInv' btX _ _ (new_LPInv' btX [])
example : spLP.root.label.stop < 0 := by decide +kernel
example : PBSpans (RefDefSpansOK btX (spDoc.take 22) 21 22) 0 21 spLP.root := by decide +kernel
-- … so the theorem applies:
example : PBSpans QT 0 (spDoc.take 22).length ((blocksLP btX).line spLP (spDoc.take 22) 21).root :=
  (processLine_spans btX spLP (spDoc.take 22) 21 (feedLines_LPInv' btX _ _ (new_LPInv' btX [])) (by decide +kernel)
    (by decide +kernel) (by decide +kernel)).1
-- and the reference definition `[0, 16)` has been split off the paragraph `[16, 21)`:
example : ((blocksLP btX).line spLP (spDoc.take 22) 21).root.blocks.map (fun b => (b.kind, b.label.start, b.label.stop))
    = [(BK.linkRefDef, 0, 16), (BK.paragraph, 16, 21)] := by decide +kernel
example : (((blocksLP btX).line spLP (spDoc.take 22) 21).root.blocks.headD default).inlines.map
    (fun t => (t.label.kind, t.label.start, t.label.stop)) = [(IK.linkLabel, 1, 4), (IK.linkDest, 7, 11), (IK.linkTitle, 12, 15)] := by
  decide +kernel

/-- The block children of a block, as `(kind, start, stop)`. -/
def spKids (b : PB) : List (Nat × Int × Int) := b.blocks.map (fun c => (c.kind, c.label.start, c.label.stop))

/-- Nested lists in a block quote. -/
def spQuote : Bytes := Bytes.ofString "> - a\n>   - b\n> 1. c\n"

/-- The first two lines (the third closes the bullet list at the start of the line and opens an ordered list) … -/
def spMid : LP := feedLines btX ((blocksLP btX).new []) [(spQuote.take 6, 0), (spQuote.take 14, 6)]
/-- … the third line, and the end of input. -/
def spEnd : LP := feedLines btX ((blocksLP btX).new []) [(spQuote.take 6, 0), (spQuote.take 14, 6), (spQuote.take 21, 14), (spQuote.take 21, 21)]

-- the hypotheses hold before the third line (the open paragraph `b` is closed at the start of that line)
example : PBSpans (RefDefSpansOK btX (spQuote.take 21) 14 (spQuote.take 21).length) 0 14 spMid.root := by decide +kernel
example : spMid.root.label.stop < 0 := by decide +kernel
example : PBSpans QT 0 (spQuote.take 21).length ((blocksLP btX).line spMid (spQuote.take 21) 14).root :=
  (processLine_spans btX spMid (spQuote.take 21) 14 (feedLines_LPInv' btX _ _ (new_LPInv' btX [])) (by decide +kernel)
    (by decide +kernel) (by decide +kernel)).1
-- at the end: block quote > (list > list item > (marker, paragraph, list > …), ordered list > list item > …)
example : PBSpans QT 0 21 spEnd.root := by decide +kernel
example : spKids spEnd.root = [(BK.blockQuote, 0, 21)] := by decide +kernel
example : spEnd.root.blocks.flatMap spKids = [(BK.list, 2, 14), (BK.list, 16, 21)] := by decide +kernel
example : (spEnd.root.blocks.flatMap PB.blocks).flatMap spKids = [(BK.listItem, 2, 14), (BK.listItem, 16, 21)] := by decide +kernel
example : ((spEnd.root.blocks.flatMap PB.blocks).flatMap PB.blocks).flatMap spKids =
    [(BK.listMarker, 2, 3), (BK.paragraph, 4, 6), (BK.list, 10, 14), (BK.listMarker, 16, 18), (BK.paragraph, 19, 21)] := by
  decide +kernel

/- `PBSpans` is not vacuous: overlapping siblings, a child outside its parent, an open block that is not last are
   rejected. -/
example : ¬ PBSpans QT 0 10 (docRoot [mkPB BK.paragraph 0 5 [], mkPB BK.paragraph 4 8 []]) := by decide +kernel
example : ¬ PBSpans QT 0 10 (docRoot [.mk { kind := BK.blockQuote, start := 0, stop := 5 } [mkPB BK.paragraph 2 6 []] []]) := by
  decide +kernel
example : ¬ PBSpans QT 0 10 (docRoot [mkPB BK.paragraph 0 (-1) [], mkPB BK.paragraph 4 8 []]) := by decide +kernel
example : ¬ PBSpans QT 0 10 (docRoot [mkPB BK.paragraph 0 5 [mkInline IK.text 3 6]]) := by decide +kernel

end Examples

end CM.Proofs.BSp
