import CM.Proofs.EolRd7
/-
C14 (a), the paragraph hook under the position map — part 8: `labelBody` and `parseLinkLabel`.
-/
namespace CM.Proofs.ERd
open CM CM.Model CM.Gen CM.Proofs CM.Proofs.RDS CM.Proofs.BSp

/-- The end of every branch of `labelBody`: one more `next`, then the loop. -/
def lbFin (src : Bytes) (f : Nat) (q : Rd) (cnt : Nat) (ie : Int) : Option (Rd × Int) :=
  if (!(q.next src).1) = true then none else labelBody src f (q.next src).2 cnt ie

section
variable {e X : Bytes} {k : Nat} {is : List Tree} {r : Rd}

theorem lbFin_dead (hc : Ctx (X.take k) is) (h : RI (X.take k) is r) (hz : (r.current (X.take k)).1 = 0) (f : Nat) (cnt : Nat)
    (ie : Int) : lbFin (X.take k) f r cnt ie = none := by
  have hs := current_zero_dead hc h hz
  unfold lbFin
  rw [next_dead hc h hs]
  rfl

theorem lbFin_dead' (he : StdEol e) (hcr : NoCR X) (hc : Ctx (X.take k) is) (htab : TabsOK (X.take k) is)
    (h : RI (X.take k) is r) (hz : (r.current (X.take k)).1 = 0) (f : Nat) (cnt : Nat) (ie : Int) :
    lbFin (toEol e (X.take k)) f (mapRd e X r) cnt ie = none := by
  have hs := current_zero_dead hc h hz
  unfold lbFin
  rw [next_dead (ctx_map he hcr hc htab) (ri_map h) (by show mapTrees _ r.spans = []; rw [hs]; rfl)]
  rfl

/-- The end of every branch of `labelBodyW`. -/
def lbFinW (w : Nat) (src : Bytes) (f : Nat) (q : Rd) (c0 : UInt8) (cnt : Nat) (ie : Int) : Option (Rd × Int) :=
  if (!(q.next src).1) = true then none
  else if (decide (wAdd w c0 > 0) && !decide (cnt < maxChars)) = true then none
  else labelBodyW w src f (q.next src).2 (cnt + wAdd w c0) ie

/-- The label fails: the body scanner returns nothing, or stops on the LF of a CR LF pair. -/
def LabFail (src : Bytes) (o : Option (Rd × Int)) : Prop :=
  o = none ∨ ∃ q ie, o = some (q, ie) ∧ Rd.current src q = (LF, q)

theorem labelBodyW_sim (he : StdEol e) (hcr : NoCR X) (hc : Ctx (X.take k) is) (htab : TabsOK (X.take k) is) :
    ∀ (f f' : Nat) (r : Rd) (chars : Nat) (ie : Int), RJ (X.take k) is r → mu (X.take k) r < f →
      mu (toEol e (X.take k)) (mapRd e X r) < f' →
      match labelBodyW (e.length - 1) (X.take k) f r chars ie with
      | none => LabFail (toEol e (X.take k)) (labelBody (toEol e (X.take k)) f' (mapRd e X r) chars (eolPosZ e X ie))
      | some (r3, ie3) => labelBody (toEol e (X.take k)) f' (mapRd e X r) chars (eolPosZ e X ie) =
          some (mapRd e X r3, eolPosZ e X ie3) ∧ RJ (X.take k) is r3 := by
  intro f
  induction f with
  | zero => intro f' r _ _ _ hm; omega
  | succ f ih =>
    intro f' r chars ie h hm hm'
    obtain ⟨g, rfl⟩ : ∃ g, f' = g + 1 := ⟨f' - 1, by omega⟩
    -- the end of a branch
    have fin : ∀ (q : Rd) (cnt : Nat) (ie : Int), RJ (X.take k) is q → mu (X.take k) q ≤ mu (X.take k) r →
        mu (toEol e (X.take k)) (mapRd e X q) ≤ mu (toEol e (X.take k)) (mapRd e X r) →
        match lbFinW (e.length - 1) (X.take k) f q (q.current (X.take k)).1 cnt ie with
        | none => LabFail (toEol e (X.take k)) (lbFin (toEol e (X.take k)) g (mapRd e X q) cnt (eolPosZ e X ie))
        | some (r3, ie3) => lbFin (toEol e (X.take k)) g (mapRd e X q) cnt (eolPosZ e X ie) =
            some (mapRd e X r3, eolPosZ e X ie3) ∧ RJ (X.take k) is r3 := by
      intro q cnt ie hq hq1 hq2
      obtain ⟨j1, m1, st⟩ := step_full he hcr hc htab hq
      unfold lbFinW lbFin
      rcases hn : q.next (X.take k) with ⟨ok, q1⟩
      rw [hn] at j1 m1 st
      simp only [] at j1 m1 st ⊢
      rcases st with ⟨s, ms⟩ | ⟨s1, s2, s3, s4, s5, s6, ms1, ms2, _hat⟩
      · rw [s]
        simp only []
        cases ok with
        | false => exact Or.inl rfl
        | true =>
          simp only [Bool.not_true, Bool.false_eq_true, if_false]
          have hw0 : wAdd (e.length - 1) (q.current (X.take k)).1 = 0 :=
            wadd_plain he hcr hc htab hq (by rw [hn]; exact s)
          rw [hw0]
          simp only [Nat.lt_irrefl, decide_false, Bool.false_and, Bool.false_eq_true, if_false, Nat.add_zero]
          have := m1 rfl
          have := ms rfl
          exact ih g q1 cnt ie j1 (by omega) (by omega)
      · subst s2
        have hw1 : wAdd ([CR, LF].length - 1) (q.current (X.take k)).1 = 1 := by rw [s1]; rfl
        rw [s3, hw1]
        simp only [Bool.not_true, Bool.false_eq_true, if_false]
        obtain ⟨g2, rfl⟩ : ∃ g2, g = g2 + 1 := ⟨g - 1, by omega⟩
        rw [labelBody, s5]
        simp only []
        by_cases l1 : cnt < maxChars
        · have l1' : decide (cnt < maxChars) = true := by rw [decide_eq_true_eq]; exact l1
          rw [l1']
          simp only [Bool.true_and, show (LF != (91 : UInt8)) = true by decide, show (LF != (93 : UInt8)) = true by decide,
            Bool.not_true, Bool.false_eq_true, if_false, show (LF == (92 : UInt8)) = false by decide,
            show isSpaceTabOrLineEnding LF = true by decide, Bool.and_false]
          rw [s6]
          simp only []
          cases ok with
          | false => exact Or.inl rfl
          | true =>
            simp only [Bool.not_true, Bool.false_eq_true, if_false]
            have := m1 rfl
            have := ms2 rfl
            exact ih g2 q1 (cnt + 1) ie j1 (by omega) (by omega)
        · have l1' : decide (cnt < maxChars) = false := by rw [decide_eq_false_iff_not]; exact l1
          rw [l1']
          simp only [Bool.false_and, Bool.not_false, if_true]
          have hres : (if (!ok) = true then (none : Option (Rd × Int)) else
              if (decide (1 > 0) && true) = true then none else labelBodyW ([CR, LF].length - 1) (X.take k) f q1 (cnt + 1) ie) = none := by
            cases ok <;> simp
          rw [hres]
          exact Or.inr ⟨_, _, rfl, s5⟩
    have hcur := h.cur hc
    have hcur' := current_map_eq (e := e) he hcr hc htab h.1
    rw [labelBodyW, labelBody, hcur, hcur']
    simp only []
    generalize hcv : (r.current (X.take k)).1 = c at hcur hcur'
    rw [trB_bne he c 91 (by decide) (by decide), trB_bne he c 93 (by decide) (by decide),
      trB_beq he c 92 (by decide) (by decide), trB_ws he]
    by_cases c0 : (!(decide (chars < maxChars) && c != 91 && c != 93)) = true
    · rw [if_pos c0, if_pos c0]
      exact ⟨rfl, h⟩
    · rw [if_neg c0, if_neg c0]
      by_cases c1 : (c == 92) = true
      · rw [if_pos c1, if_pos c1]
        have hc92 : c = 92 := by simpa using c1
        by_cases l3 : chars + 1 ≥ maxChars
        · rw [if_pos l3, if_pos l3]; exact Or.inl rfl
        rw [if_neg l3, if_neg l3]
        have hps := pos_succ (e := e) he hc h.1 (by rw [hcv, hc92]; decide) (by rw [hcv, hc92]; decide) (by rw [hcv, hc92]; decide)
        obtain ⟨j1, m1, st⟩ := step_full he hcr hc htab h
        rcases hn : r.next (X.take k) with ⟨ok, r2⟩
        rw [hn] at j1 m1 st
        simp only [] at j1 m1 st ⊢
        rcases st with ⟨s, ms⟩ | ⟨s1, _⟩
        · rw [s]
          simp only []
          cases ok with
          | false => exact Or.inl rfl
          | true =>
            simp only [Bool.not_true, Bool.false_eq_true, if_false]
            have hm1 := m1 rfl
            have hms := ms rfl
            have hcur2 := j1.cur hc
            have hcur2' := current_map_eq (e := e) he hcr hc htab j1.1
            rw [hcur2, hcur2']
            simp only []
            rw [trB_ws he]
            by_cases hz : (r2.current (X.take k)).1 = 0
            · have hs2 := current_zero_dead hc j1.1 hz
              have hc' := ctx_map (e := e) he hcr hc htab
              rw [next_dead hc j1.1 hs2, next_dead hc' (ri_map j1.1) (by show mapTrees _ r2.spans = []; rw [hs2]; rfl)]
              exact Or.inl rfl
            · have hie : (if (!isSpaceTabOrLineEnding (r2.current (X.take k)).1) = true then ((mapRd e X r2).pos : Int) + 1
                  else ((mapRd e X r).pos : Int) + 1) =
                  eolPosZ e X (if (!isSpaceTabOrLineEnding (r2.current (X.take k)).1) = true then (r2.pos : Int) + 1
                    else (r.pos : Int) + 1) := by
                split
                · rename_i hw
                  have hw' : isSpaceTabOrLineEnding (r2.current (X.take k)).1 = false := by simpa using hw
                  exact pos_succ he hc j1.1 hz (ws_of_sp_lf hw').1 (ws_of_sp_lf hw').2
                · exact hps
              rw [hie]
              exact fin r2 (chars + 1 + 1) _ j1 (by omega) (by omega)
        · rw [hcv, hc92] at s1; exact absurd s1 (by decide)
      · rw [if_neg c1, if_neg c1]
        by_cases hz : c = 0
        · have hs2 := current_zero_dead hc h.1 (by rw [hcv]; exact hz)
          have hc' := ctx_map (e := e) he hcr hc htab
          rw [next_dead hc h.1 hs2, next_dead hc' (ri_map h.1) (by show mapTrees _ r.spans = []; rw [hs2]; rfl)]
          exact Or.inl rfl
        · have hie : (if (!isSpaceTabOrLineEnding c) = true then ((mapRd e X r).pos : Int) + 1 else eolPosZ e X ie) =
              eolPosZ e X (if (!isSpaceTabOrLineEnding c) = true then (r.pos : Int) + 1 else ie) := by
            split
            · rename_i hw
              have hw' : isSpaceTabOrLineEnding c = false := by simpa using hw
              exact pos_succ he hc h.1 (by rw [hcv]; exact hz) (by rw [hcv]; exact (ws_of_sp_lf hw').1)
                (by rw [hcv]; exact (ws_of_sp_lf hw').2)
            · rfl
          rw [hie]
          have := fin r (chars + 1) (if (!isSpaceTabOrLineEnding c) = true then (r.pos : Int) + 1 else ie) h (Nat.le_refl _)
            (Nat.le_refl _)
          rw [hcv] at this
          exact this

/-! ### `parseLinkLabel` -/

theorem noLabel_invalid : noLabel.span.isValid = false := by decide

/-- **The label scanner on the re-written side is the `W` scanner on the original side.** -/
theorem parseLinkLabelW_sim (he : StdEol e) (hcr : NoCR X) (hc : Ctx (X.take k) is) (htab : TabsOK (X.take k) is)
    (f f' : Nat) (r : Rd) (h : RJ (X.take k) is r) (hm : mu (X.take k) r < f)
    (hm' : mu (toEol e (X.take k)) (mapRd e X r) < f') :
    (parseLinkLabel (toEol e (X.take k)) f' (mapRd e X r)).1 =
      mapLabel e X (parseLinkLabelW (e.length - 1) (X.take k) f r).1 ∧
    ((parseLinkLabelW (e.length - 1) (X.take k) f r).1.span.isValid = true →
      (parseLinkLabel (toEol e (X.take k)) f' (mapRd e X r)).2 = mapRd e X (parseLinkLabelW (e.length - 1) (X.take k) f r).2 ∧
      RJ (X.take k) is (parseLinkLabelW (e.length - 1) (X.take k) f r).2) := by
  have hcur := h.cur hc
  have hcur' := current_map_eq (e := e) he hcr hc htab h.1
  have hno : ∀ q q' : Rd, ((noLabel, q') : LinkLabel × Rd).1 = mapLabel e X ((noLabel, q) : LinkLabel × Rd).1 ∧
      (((noLabel, q) : LinkLabel × Rd).1.span.isValid = true →
        ((noLabel, q') : LinkLabel × Rd).2 = mapRd e X ((noLabel, q) : LinkLabel × Rd).2 ∧
          RJ (X.take k) is ((noLabel, q) : LinkLabel × Rd).2) := by
    intro q q'
    refine ⟨by rw [mapLabel_no], fun hv => ?_⟩
    rw [noLabel_invalid] at hv; cases hv
  unfold parseLinkLabelW parseLinkLabel
  rw [hcur, hcur']
  simp only []
  rw [trB_bne he _ 0x5B (by decide) (by decide)]
  by_cases c0 : ((r.current (X.take k)).1 != 0x5B) = true
  · rw [if_pos c0, if_pos c0]
    exact hno _ _
  · rw [if_neg c0, if_neg c0]
    have hsk := labelSkipW_sim he hcr hc htab f f' r 0 h hm hm'
    cases hls : labelSkipW (e.length - 1) (X.take k) f r 0 with
    | none =>
      rw [hls] at hsk
      simp only [] at hsk ⊢
      rw [hsk]
      exact hno _ _
    | some pr =>
      obtain ⟨r1, n⟩ := pr
      rw [hls] at hsk
      obtain ⟨a1, a4, a5, a6⟩ := hsk
      simp only [] at ⊢
      rw [a1]
      simp only []
      have hbd := labelBodyW_sim he hcr hc htab f f' r1 n (-1) a4 (by omega) (by omega)
      have hm1 : eolPosZ e X (-1) = -1 := eolPosZ_neg e X (by omega)
      rw [hm1] at hbd
      cases hlb : labelBodyW (e.length - 1) (X.take k) f r1 n (-1) with
      | none =>
        rw [hlb] at hbd
        simp only [] at hbd ⊢
        rcases hbd with hb0 | ⟨q, ie, hb1, hb2⟩
        · rw [hb0]; exact hno _ _
        · rw [hb1]
          simp only []
          rw [hb2]
          simp only [show (LF != (0x5D : UInt8)) = true by decide, if_true]
          exact hno _ _
      | some pr2 =>
        obtain ⟨r3, ie3⟩ := pr2
        rw [hlb] at hbd
        obtain ⟨b1, b2⟩ := hbd
        simp only [] at ⊢
        rw [b1]
        simp only []
        have hcur3 := b2.cur hc
        have hcur3' := current_map_eq (e := e) he hcr hc htab b2.1
        rw [hcur3, hcur3']
        simp only []
        rw [trB_bne he _ 0x5D (by decide) (by decide)]
        by_cases c3 : ((r3.current (X.take k)).1 != 0x5D) = true
        · rw [if_pos c3, if_pos c3]
          exact hno _ _
        · rw [if_neg c3, if_neg c3]
          have hc5d : (r3.current (X.take k)).1 = 0x5D := by simpa using c3
          have hps := pos_succ (e := e) he hc b2.1 (by rw [hc5d]; decide) (by rw [hc5d]; decide) (by rw [hc5d]; decide)
          have hstep := step_plain he hcr hc htab b2 (by rw [hc5d]; decide)
          rw [hstep]
          refine ⟨?_, fun _ => ⟨rfl, b2.next hc⟩⟩
          show (⟨⟨((mapRd e X r).pos : Int), ((mapRd e X r3).pos : Int) + 1⟩, ⟨((mapRd e X r1).pos : Int), eolPosZ e X ie3⟩⟩ : LinkLabel) =
            mapLabel e X ⟨⟨(r.pos : Int), (r3.pos : Int) + 1⟩, ⟨(r1.pos : Int), ie3⟩⟩
          unfold mapLabel mapSpanI
          simp only []
          rw [← hps, eolPosZ_ofNat, eolPosZ_ofNat]
          rfl

end

end CM.Proofs.ERd
