import CM.Proofs.ParseWholeGrammarNest4
/-
C05, clause (iii) — the ghost invariant on states, part 3: the end of `finishLink`; the combined invariant `OmN`.
-/
namespace CM.Proofs.InlH
open CM CM.Model CM.Model.Inl CM.Spec
open Std

theorem range_cur {n : Nat} {pref suff : List Nat} {cur : Nat} (h : [:n].toList = pref ++ cur :: suff) :
    cur = pref.length ∧ cur < n := by
  have e : [:n].toList = List.range' 0 n := by
    simp [Std.Legacy.Range.toList]
  rw [e] at h
  have hlen : (List.range' 0 n).length = (pref ++ cur :: suff).length := by rw [h]
  simp only [List.length_range', List.length_append, List.length_cons] at hlen
  have hg : (List.range' 0 n)[pref.length]? = some cur := by
    rw [h, List.getElem?_append_right (Nat.le_refl _), Nat.sub_self]; rfl
  rw [List.getElem?_range' (by omega)] at hg
  have := Option.some.inj hg
  omega

/-- the arena and the clean set: the invariant of the inline phase for the whole node grammar -/
def OmN (s : IState) (b P0 b3 : Nat) : Prop := Om s b P0 ∧ CLE s b3

theorem actN_nil {st : Array DelimE} {b3 : Nat} (h : ∀ j, b3 ≤ j → j < st.size → ¬ Act3 (st[j]!)) : actN st b3 = [] := by
  unfold actN
  rw [List.map_eq_nil_iff, List.filter_eq_nil_iff]
  intro e he
  obtain ⟨k, hk, hke⟩ := List.mem_iff_getElem.1 he
  rw [List.getElem_drop] at hke
  rw [List.length_drop] at hk
  have hlt : b3 + k < st.size := by simpa using (by omega : b3 + k < st.toList.length)
  have := h (b3 + k) (by omega) hlt
  rw [getElem!_pos st _ hlt] at this
  have e' : st[b3 + k] = e := by rw [← hke]; simp
  rw [e'] at this
  simpa using this

/-- `removeNode` of a stack node, then `delStack` of its entry -/
theorem CLE.removeG {s : IState} {b P0 b3 b3' : Nat} (hO : Om s b P0) (h : CLE s b3) {idx x P : Nat}
    (hact : ∀ y ∈ actN (s.stack.extract 0 idx ++ s.stack.extract (idx + 1) s.stack.size) b3', y ∈ actN s.stack b3) :
    CLE (delState (removeState s x P) idx (idx + 1)) b3' := by
  refine h.shrink hO (by simp [delState, removeState]) (fun i _ => kindOf_modify (by intro _; rfl)) ?_
    (fun i h1 h2 => by simp [delState, removeState] at h2; omega) ?_
  · intro i hi
    show (kidsL (s.nodes.modify P _) i).Sublist _
    unfold kidsL
    by_cases hiP : P = i
    · subst hiP
      rw [kids_modify_self _ hi]
      simp only [Array.toList_filter]
      exact List.filter_sublist
    · rw [kids_modify_other _ hiP]; exact List.Sublist.refl _
  · intro y hy
    exact ⟨hact y hy, fun Q hQ => pm_set_none _ _ _ _ hQ⟩

/-- the end of `finishLink`, before the flags are cleared -/
theorem CLE.finish {s s3 s2 : IState} {odi L kind : Nat} {e : DelimE} (hO : Om s (odi + 1) L) (hC : CLE s (bk kind odi))
    (hsz : s.stack.size = odi + 1)
    (hR : ∃ P, (s.parentMap[e.node]?).join = some P ∧ s3 = removeState s e.node P)
    (hd : s2 = delState s3 odi (odi + 1)) :
    CLE s2 (if kind = IK.link then odi else 0) ∧ s2.stack.size = odi := by
  obtain ⟨P, _, rfl⟩ := hR
  subst hd
  have hsize : (delState (removeState s e.node P) odi (odi + 1)).stack.size = odi := by
    show (s.stack.extract 0 odi ++ s.stack.extract (odi + 1) s.stack.size).size = odi
    simp [hsz]
  refine ⟨hC.removeG hO ?_, hsize⟩
  by_cases hk : kind = IK.link
  · rw [if_pos hk]
    rw [actN_nil (fun j h1 h2 => by
      have : (s.stack.extract 0 odi ++ s.stack.extract (odi + 1) s.stack.size).size = odi := by simp [hsz]
      omega)]
    intro y hy; cases hy
  · rw [if_neg hk]
    have : bk kind odi = 0 := by unfold bk; rw [if_neg hk]
    rw [this]
    exact actN_del _ (Nat.zero_le _) (Nat.le_succ _)

/-- clearing the "active" flag -/
theorem deact_not_act3 (e : DelimE) :
    ¬ Act3 { e with elem := { e.elem with flags := e.elem.flags &&& ~~~(1 : UInt8) } } := by
  intro h
  apply h.2
  show (e.elem.flags &&& ~~~(1 : UInt8)) &&& 1 = 0
  rw [UInt8.and_assoc]
  have : (~~~(1 : UInt8)) &&& 1 = 0 := by decide
  rw [this, UInt8.and_zero]

/-- all `[` openers are inactive: nothing is asked of the clean set -/
theorem CLE.cleared {s : IState} {b P0 b3 : Nat} (hO : Om s b P0) (hC : CLE s b3) (st : Array DelimE)
    (h : ∀ j, j < st.size → ¬ Act3 (st[j]!)) : CLE { s with stack := st } 0 := by
  refine hC.setStack hO st ?_
  rw [actN_nil (fun j _ hj => h j hj)]
  intro x hx; cases hx

/-! ### the steps of `processEmphasis` for `OmN` -/

theorem OmN.modify_same {s : IState} {b P0 b3 : Nat} (h : OmN s b P0 b3) (id : Nat) (f : INode → INode)
    (hk : ∀ m, (f m).kind = m.kind) (hr : ∀ m, (f m).ref = m.ref) (hc : ∀ m, (f m).kids = m.kids) :
    OmN { s with nodes := s.nodes.modify id f } b P0 b3 :=
  ⟨h.1.modify_same id f hk hr hc, h.2.modify h.1 id f hk hc⟩

theorem OmN.del {s : IState} {b P0 b3 : Nat} (h : OmN s b P0 b3) {i j : Nat} (hbi : b ≤ i) (hb3 : b3 ≤ i) (hij : i ≤ j)
    (hi : i ≤ s.stack.size) : OmN (delState s i j) b P0 b3 :=
  ⟨h.1.del hbi hij hi, h.2.del h.1 hb3 hij⟩

theorem OmN.congr {s s' : IState} {b P0 b3 : Nat} (h : OmN s b P0 b3) (hn : s'.nodes = s.nodes)
    (hp : s'.parentMap = s.parentMap) (hs : s'.stack = s.stack) : OmN s' b P0 b3 :=
  ⟨h.1.congr hn hp (by rw [hs]), h.2.congr hn hp hs⟩

theorem pe_wrapN {s s5 s4 : IState} {b P0 b3 kind o c r oi cur : Nat} (h : OmN s b P0 b3)
    (hW : WrapPost s s5 kind o (some c) r) (hkind : kind = IK.emphasis ∨ kind = IK.strong)
    (hb : b ≤ oi) (hb3 : b3 ≤ oi) (hoc : oi < cur) (ho : (stN s.stack)[oi]? = some o)
    (hc : (stN s.stack)[cur]? = some c) (hd : s4 = delState s5 (oi + 1) cur) :
    OmN s4 b P0 b3 ∧ (stN s4.stack)[oi]? = some o ∧ (stN s4.stack)[oi + 1]? = some c := by
  obtain ⟨h1, h2, h3⟩ := pe_wrap h.1 hW hkind hb hoc ho hc hd
  exact ⟨⟨h1, h.2.wrapEmph h.1 hW hkind hb hoc ho hc hd (by omega)⟩, h2, h3⟩

theorem pe_removeN {s s3 s2 : IState} {b P0 b3 idx x : Nat} (h : OmN s b P0 b3) (hb : b ≤ idx) (hb3 : b3 ≤ idx)
    (hx : (stN s.stack)[idx]? = some x)
    (hR : ∃ P, (s.parentMap[x]?).join = some P ∧ s3 = removeState s x P) (hd : s2 = delState s3 idx (idx + 1)) :
    OmN s2 b P0 b3 ∧ ∀ y, (stN s.stack)[idx + 1]? = some y → (stN s2.stack)[idx]? = some y := by
  obtain ⟨h1, h2⟩ := pe_remove h.1 hb hx hR hd
  refine ⟨⟨h1, ?_⟩, h2⟩
  obtain ⟨P, _, rfl⟩ := hR
  subst hd
  exact h.2.remove h.1 hb3

end CM.Proofs.InlH
