import CM.Proofs.BlocksWellContract
/-
The C08 theorems from the source-indexed contract `LPWellS` (the `LPWell` proofs of StreamDrain.lean / Stream.lean,
with `BlocksOK` replaced by the contract's own invariant of the pending blocks), and `LPWell → LPWellS`.
-/
namespace CM.Proofs
open CM CM.Model CM.Gen

section
variable {L : LineParserI} (W : LPWellS L)
include W

theorem nextBlock_simS (fin : RErr) (ps pm : BP) (hs : Sim fin ps pm) (hp : pm.panic = none) (hb : BlocksJ W pm) :
    ∃ os ps' om pm', nextBlock L ps = (os, ps') ∧ nextBlock L pm = (om, pm') ∧ ORel fin os om ∧
      Sim fin ps' pm' ∧ pm'.panic = none ∧ (∀ r, om = .block r → BlocksJ W pm') := by
  have herr : pm.err.isSome = true := by rw [hs.merr]; rfl
  have g1 := bpFuel_mem_ge pm
  have g2 := bpFuel_stream_ge hs
  obtain ⟨os, ps', om, pm', h1, h2, h3⟩ := nextBlockF_sim L fin (bpFuel ps) (bpFuel ps) ps pm hs hp
  obtain ⟨e1, e2⟩ := nextBlockF_memS W pm herr hs.mile hb (bpFuel ps) (bpFuel ps) (bpFuel pm) (bpFuel pm)
    (by omega) (by omega) (by omega) (by omega)
  rw [h2] at e1 e2
  have hp' : pm'.panic = none := by rw [← hp]; exact e2.panic
  obtain ⟨h4, h5⟩ := h3 hp'
  refine ⟨os, ps', om, pm', ?_, ?_, h4, h5, hp', fun r hr => (e2.good r hr).2⟩
  · rw [nextBlock_eq_F]; exact h1
  · rw [nextBlock_eq_F]; exact e1.symm

theorem drain_simS (fin : RErr) : ∀ (f : Nat) (ps pm : BP) (acc : List Root), Sim fin ps pm → pm.panic = none →
    BlocksJ W pm →
    ∃ rs os ps' om pm', drain L f ps acc = (rs, os, ps') ∧ drain L f pm acc = (rs, om, pm') ∧ FRel fin os om := by
  intro f
  induction f with
  | zero =>
    intro ps pm acc _ _ _
    exact ⟨_, _, _, _, _, rfl, rfl, FRel.panic _⟩
  | succ f ih =>
    intro ps pm acc hs hp hb
    obtain ⟨os, ps', om, pm', h1, h2, h3, h4, h5, h6⟩ := nextBlock_simS W fin ps pm hs hp hb
    cases h3 with
    | block r =>
      simp only [drain, h1, h2]
      exact ih ps' pm' (r :: acc) h4 h5 (h6 r rfl)
    | err =>
      simp only [drain, h1, h2]
      exact ⟨_, _, _, _, _, rfl, rfl, FRel.err⟩
    | panic m =>
      simp only [drain, h1, h2]
      exact ⟨_, _, _, _, _, rfl, rfl, FRel.panic m⟩

theorem drainEnds_simS (fin : RErr) : ∀ (f : Nat) (ps pm : BP), Sim fin ps pm → pm.panic = none → BlocksJ W pm →
    drainEnds L f ps = drainEnds L f pm := by
  intro f
  induction f with
  | zero => intro ps pm _ _ _; rfl
  | succ f ih =>
    intro ps pm hs hp hb
    obtain ⟨os, ps', om, pm', h1, h2, h3, h4, h5, h6⟩ := nextBlock_simS W fin ps pm hs hp hb
    cases h3 with
    | block r =>
      simp only [drainEnds, h1, h2]
      exact ih ps' pm' h4 h5 (h6 r rfl)
    | err => simp only [drainEnds, h1, h2]
    | panic m => simp only [drainEnds, h1, h2]

theorem blocksJ_init (x : Bytes) : BlocksJ W (memParser x) := W.pend_nil _

/-- Streaming parse vs. in-memory parse, any final reader error: same roots, corresponding outcomes. -/
theorem stream_runS (x : Bytes) (sched : List Nat) (eofWith : Bool) (fin : RErr) (hsmall : Small x) (f : Nat) :
    ∃ rs os ps' om pm',
      drain L f (newBlockParser { data := x, sched := sched, eofWith := eofWith, fin := fin }) [] = (rs, os, ps') ∧
      drain L f (memParser x) [] = (rs, om, pm') ∧ FRel fin os om :=
  drain_simS W fin f _ _ [] (sim_init x sched eofWith fin hsmall) rfl (blocksJ_init W x)

/-- (A) from the source-indexed contract. -/
theorem stream_eq_mem_S (x : Bytes) (sched : List Nat) (eofWith : Bool) (hsmall : Small x) (f : Nat) :
    observe (drain L f (newBlockParser { data := x, sched := sched, eofWith := eofWith, fin := .eof }) []) =
    observe (drain L f (memParser x) []) := by
  obtain ⟨rs, os, ps', om, pm', h1, h2, h3⟩ := stream_runS W x sched eofWith .eof hsmall f
  rw [h1, h2]
  cases h3 <;> rfl

/-- (A), any two fuels at which the in-memory `drain` ends. -/
theorem stream_eq_mem_fuels_S (x : Bytes) (sched : List Nat) (eofWith : Bool) (hsmall : Small x) (fuelS fuelM f : Nat)
    (hf : drainEnds L f (memParser x) = true) (hS : f ≤ fuelS) (hM : f ≤ fuelM) :
    observe (drain L fuelS (newBlockParser { data := x, sched := sched, eofWith := eofWith, fin := .eof }) []) =
    observe (drain L fuelM (memParser x) []) := by
  have hs := drainEnds_simS W .eof f _ _ (sim_init x sched eofWith .eof hsmall) rfl (blocksJ_init W x)
  rw [hf] at hs
  rw [drain_more_fuel L f _ [] hs fuelS hS, drain_more_fuel L f _ [] hf fuelM hM]
  exact stream_eq_mem_S W x sched eofWith hsmall f

/-- (B) from the source-indexed contract. -/
theorem stream_fault_S (x : Bytes) (sched : List Nat) (eofWith : Bool) (code : Nat) (hsmall : Small x) (f : Nat) :
    (observe (drain L f (newBlockParser { data := x, sched := sched, eofWith := eofWith, fin := .fail code }) [])).1 =
      (observe (drain L f (memParser x) [])).1 ∧
    ((∃ m, (observe (drain L f (newBlockParser { data := x, sched := sched, eofWith := eofWith, fin := .fail code }) [])).2 = .panic m ∧
        (observe (drain L f (memParser x) [])).2 = .panic m) ∨
     ((observe (drain L f (newBlockParser { data := x, sched := sched, eofWith := eofWith, fin := .fail code }) [])).2 = .err (.reader code) ∧
        (observe (drain L f (memParser x) [])).2 = .err .eof)) := by
  obtain ⟨rs, os, ps', om, pm', h1, h2, h3⟩ := stream_runS W x sched eofWith (.fail code) hsmall f
  rw [h1, h2]
  refine ⟨rfl, ?_⟩
  cases h3 with
  | err => right; exact ⟨rfl, rfl⟩
  | panic m => left; exact ⟨m, rfl, rfl⟩

/-- (D) from the source-indexed contract. -/
theorem stream_roots_eq_S (x : Bytes) (sched : List Nat) (eofWith : Bool) (fin : RErr) (hsmall : Small x) (f : Nat) :
    (drain L f (newBlockParser { data := x, sched := sched, eofWith := eofWith, fin := fin }) []).1 =
    (drain L f (memParser x) []).1 := by
  obtain ⟨rs, os, ps', om, pm', h1, h2, _⟩ := stream_runS W x sched eofWith fin hsmall f
  rw [h1, h2]

theorem stream_ends_iff_S (x : Bytes) (sched : List Nat) (eofWith : Bool) (fin : RErr) (hsmall : Small x) (f : Nat) :
    drainEnds L f (newBlockParser { data := x, sched := sched, eofWith := eofWith, fin := fin }) =
    drainEnds L f (memParser x) :=
  drainEnds_simS W fin f _ _ (sim_init x sched eofWith fin hsmall) rfl (blocksJ_init W x)
end

/-! ### `LPWell` implies `LPWellS` (the new contract is weaker) -/

theorem offset_closed_le {n N : Nat} {k0 : PB} (hn : n ≤ N)
    (h : k0.isOpen = false → k0.label.stop.toNat ≤ N)
    (hc : (offsetPB (-(n : Int)) k0).isOpen = false) :
    (offsetPB (-(n : Int)) k0).label.stop.toNat ≤ N - n := by
  have hs := offsetPB_stop (-(n : Int)) k0
  simp only [PB.isOpen] at hc h
  by_cases h0 : k0.label.stop ≥ 0
  · rw [if_pos h0] at hs
    have := h (by simp; omega)
    rw [hs]; omega
  · rw [if_neg h0] at hs
    rw [hs] at hc
    simp at hc; omega

/-- PBClosed pending blocks end inside the bytes before the parse position. -/
def PendOK (src : Bytes) (bs : List PB) : Prop := ∀ k ∈ bs, k.isOpen = false → k.label.stop.toNat ≤ src.length

theorem pendOK_cut {src : Bytes} {k : PB} {rest : List PB} (h : PendOK src (k :: rest)) (hc : k.isOpen = false) :
    k.label.stop.toNat ≤ src.length ∧
      PendOK (src.drop k.label.stop.toNat) (offsetPBs (-(k.label.stop.toNat : Int)) rest) := by
  have hn := h k (by simp) hc
  refine ⟨hn, ?_⟩
  intro k' hk' hc'
  obtain ⟨k0, hk0, e⟩ := mem_offsetPBs hk'
  subst e
  simp only [List.length_drop]
  exact offset_closed_le hn (h k0 (by simp [hk0])) hc'

def LPWell.toS {L : LineParserI} (W : LPWell L) : LPWellS L where
  I := fun src s => W.I s ∧ PendOK src (L.kids s)
  J := PendOK
  fresh := fun src hb => ⟨W.step _ _ _ (Or.inr ⟨rfl, rfl, hb⟩), W.ends _ _ _ (Or.inr ⟨rfl, rfl, hb⟩)⟩
  step := fun s src0 src hI _ _ => ⟨W.step _ _ _ (Or.inl hI.1), W.ends _ _ _ (Or.inl hI.1)⟩
  pstep := fun src0 src k rest _ _ _ _ =>
    ⟨W.step _ _ _ (Or.inl (W.new_pending _ (by simp))), W.ends _ _ _ (Or.inl (W.new_pending _ (by simp)))⟩
  ends := fun s src hI => hI.2
  pend := fun s src k rest hI hk hc => (pendOK_cut (by rw [← hk]; exact hI.2) hc).2
  pend_nil := fun src k hk => by cases hk
  pend_cut := fun src k rest h hc => pendOK_cut h hc
  eof := fun s src hI => by
    rcases W.eof s src src.length hI.1 (Nat.le_refl _) with hm | ⟨k, rest, hk, hc⟩
    · exact Or.inl hm
    · have he : PendOK src (L.kids (L.line s src src.length)) := W.ends _ _ _ (Or.inl hI.1)
      rw [hk] at he
      exact Or.inr ⟨k, rest, hk, hc, (pendOK_cut he hc).1, (pendOK_cut he hc).2⟩
  peof := fun src k rest _ _ => by
    have hI := W.new_pending (k :: rest) (by simp)
    rcases W.eof _ src src.length hI (Nat.le_refl _) with hm | ⟨k', rest', hk, hc⟩
    · exact Or.inl hm
    · have he : PendOK src (L.kids (L.line (L.new (k :: rest)) src src.length)) := W.ends _ _ _ (Or.inl hI)
      rw [hk] at he
      exact Or.inr ⟨k', rest', hk, hc, (pendOK_cut he hc).1, (pendOK_cut he hc).2⟩

/-- The toy paragraph parser satisfies the new contract too (non-vacuity of `LPWellS`). -/
example : Nonempty (LPWellS paraLP) := ⟨paraWell.toS⟩

end CM.Proofs
