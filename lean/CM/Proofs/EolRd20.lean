import CM.Proofs.EolRd19
/-
C14 (a), the paragraph hook under the position map — part 20: what the loop of `onCloseParagraph` needs between two
definitions: after a successful `readEOL` the reader is at a node boundary and normalised for the remaining inline children;
and the condition on the link labels, `labelsAgree`.
-/
namespace CM.Proofs.ERd
open CM CM.Model CM.Gen CM.Proofs CM.Proofs.RDS CM.Proofs.BSp

section
variable {e X : Bytes} {k : Nat} {is : List Tree} {r : Rd}

/-- After a successful `readEOL` (CR-free source) the reader is at a node boundary. -/
theorem readEOL_bdry (hcr : NoCR X) (hc : Ctx (X.take k) is) (htab : TabsOK (X.take k) is) (f : Nat)
    (h : RJ (X.take k) is r) (hm : mu (X.take k) r < f)
    (h0 : 0 ≤ (readEOL (X.take k) f r).1) : Bdry is (readEOL (X.take k) f r).2.pos := by
  obtain ⟨_, a2⟩ := skipSpacesAndTabs_sim (e := [LF]) (Or.inl rfl) hcr hc htab f
    (mu (toEol [LF] (X.take k)) (mapRd [LF] X r) + 1) r h hm (by omega)
  revert h0
  unfold readEOL
  rcases hsst : skipSpacesAndTabs (X.take k) f r with ⟨ok, r0⟩
  rw [hsst] at a2
  simp only [] at a2 ⊢
  cases ok with
  | false =>
    simp only [Bool.not_false, if_true]
    intro _
    have hd := skipSpacesAndTabs_false hc f r r0 h.1 hm hsst
    exact (a2.1.dead hd).2
  | true =>
    simp only [Bool.not_true, Bool.false_eq_true, if_false]
    have hcur := a2.cur hc
    have hnecr := cur_ne_CR hcr hc a2.1
    rw [hcur]
    simp only []
    have hccr : ((r0.current (X.take k)).1 == CR) = false := by simpa using hnecr
    rw [hccr]
    simp only [Bool.false_eq_true, if_false]
    by_cases hlf : ((r0.current (X.take k)).1 == LF) = true
    · rw [if_pos hlf]
      intro _
      rcases hn : r0.next (X.take k) with ⟨ok1, r1⟩
      exact (lf_step hc a2.1 (by simpa using hlf) hn).2.2
    · rw [if_neg hlf]
      intro h0
      exact absurd h0 (by show ¬ (0 : Int) ≤ -1; omega)

/-- The reader is normalised for the remaining inline children. -/
theorem drop_ri {src : Bytes} (hc : Ctx src is) (h : RI src is r) {fc : Nat}
    (hfc : nodeIndexForPosition is r.pos 0 = some fc) : RI src (is.drop fc) r := by
  refine ⟨?_, h.norm, h.vp, fun hs => ⟨(h.dead hs).1, (h.dead hs).2.drop fc⟩⟩
  cases hs : r.spans with
  | nil => exact ⟨(is.drop fc).length, by simp; omega⟩
  | cons t' rest' =>
    obtain ⟨n, hn⟩ := h.suf
    have hnm := h.norm t' rest' hs
    have := nodeIndex_of_drop hc n (by rw [← hn, hs]) hnm.1 hnm.2
    rw [this] at hfc
    simp only [Option.some.injEq] at hfc
    subst hfc
    exact ⟨0, by rw [← hs, hn]; rfl⟩

theorem tabsOK_drop {src : Bytes} (h : TabsOK src is) (n : Nat) : TabsOK src (is.drop n) :=
  fun t ht => h t (List.mem_of_mem_drop ht)

/-! ### The labels of the definition candidates -/

/-- **The condition on the link labels** of a paragraph: at every definition candidate the loop of `onCloseParagraph` looks
    at (following exactly the iteration of `refDefLoop`), a label that the scanner accepts is also accepted by the scanner
    that counts every line feed as `1 + w` bytes — the label does not straddle the byte limit `maxChars`. -/
def labelsAgree (w : Nat) (src : Bytes) : Nat → Rd → List Tree → Bool
  | 0, _, _ => true
  | fuel + 1, r0, is =>
    let fl := rdFuel src is
    let (label, r) := parseLinkLabel src fl r0
    if !label.span.isValid then true else
    (parseLinkLabelW w src fl r0).1.span.isValid &&
    (let (c, r) := r.current src
    if c != 0x3A then true else
    let (_, r) := r.next src
    let (ok, r) := skipLinkSpace src fl r
    if !ok then true else
    let (dest, r) := parseLinkDestination src fl r
    if !dest.span.isValid then true else
    let sepPoint := r.pos
    let (destEOL, r) := readEOL src fl r
    let cloned := r
    let (c, r) := r.current src
    if destEOL < 0 && r.pos == sepPoint && c != 0 then true else
    let (ok, r) := skipLinkSpace src fl r
    if !ok then true else
    let (title, r) := parseLinkTitle src fl r
    if !title.span.isValid then
      if destEOL < 0 then true else
      match nodeIndexForPosition is cloned.pos 0 with
      | none => true
      | some fc => labelsAgree w src fuel cloned (is.drop fc)
    else
    let (titleEOL, r) := readEOL src fl r
    if titleEOL < 0 then true else
    match nodeIndexForPosition is r.pos 0 with
    | none => true
    | some fc => labelsAgree w src fuel r (is.drop fc))

/-- For `w = 0` (CR, or LF itself) the condition always holds. -/
theorem labelsAgree_zero (src : Bytes) : ∀ (fuel : Nat) (r : Rd) (is : List Tree), labelsAgree 0 src fuel r is = true := by
  intro fuel
  induction fuel with
  | zero => intro r is; rfl
  | succ fuel ih =>
    intro r is
    rw [labelsAgree]
    simp only [parseLinkLabelW_zero, ih]
    repeat' split
    all_goals first | rfl | simp_all

/-! ### the blocks under the map -/

theorem mapPB_mkPB (g : Int → Int) (kd : Nat) (a b : Int) (kids : List Tree) :
    mapPB g (mkPB kd a b kids) = mkPB kd (g a) (g b) (mapTrees g kids) := by
  unfold mkPB; rw [mapPB]; rfl

theorem mapTree_mkInlineRef (g : Int → Int) (kd : Nat) (a b : Int) (ref : Bytes) (kids : List Tree) :
    mapTree g (mkInlineRef kd a b ref kids) = mkInlineRef kd (g a) (g b) ref (mapTrees g kids) := by
  unfold mkInlineRef; rw [mapTree]

theorem mapTree_mkInline' (g : Int → Int) (kd : Nat) (a b : Int) (kids : List Tree) :
    mapTree g (mkInline kd a b kids) = mkInline kd (g a) (g b) (mapTrees g kids) := by
  unfold mkInline; rw [mapTree]

end

end CM.Proofs.ERd
