import CM.Basic.Forall
import CM.Model.Refs
import CM.Spec.Label
/-
Link-label normalisation: the model (`collapseWs`, `trimSpaces`, transliterated from Go) equals the
CommonMark specification (`words`, `joinWords`) for every label and every fold function.

The whole content is `trimSpaces (collapseWs label false) = wsNormal label`.
-/
namespace CM.Proofs
open CM CM.Model CM.Spec

/-! ## Byte facts (checked over all 256 bytes, so they re-check when `CM.Gen` is regenerated) -/

theorem gen_ws_eq_spec : ∀ c, Gen.isSpaceTabOrLineEnding c = Spec.isSpaceTabOrLineEnding c := by
  apply forall_uint8; decide +kernel

theorem ws_SP : Spec.isSpaceTabOrLineEnding SP = true := by decide

theorem not_ws_ne_SP : ∀ c, Spec.isSpaceTabOrLineEnding c = false → (c == SP) = false := by
  apply forall_uint8; decide +kernel

/-! ## `collapseWs` step lemmas phrased with the spec classifier -/

theorem collapseWs_nil (b : Bool) : collapseWs [] b = [] := by
  simp [collapseWs]

theorem collapseWs_ws {c : UInt8} (h : Spec.isSpaceTabOrLineEnding c = true) (rest : Bytes) (inWs : Bool) :
    collapseWs (c :: rest) inWs = if inWs then collapseWs rest true else SP :: collapseWs rest true := by
  simp [collapseWs, gen_ws_eq_spec, h]

theorem collapseWs_nonws {c : UInt8} (h : Spec.isSpaceTabOrLineEnding c = false) (rest : Bytes) (inWs : Bool) :
    collapseWs (c :: rest) inWs = c :: collapseWs rest false := by
  simp [collapseWs, gen_ws_eq_spec, h]

/-! ## `trimSpaces` = trim the end of (drop the leading spaces) -/

/-- `strings.TrimRight(s, " ")`. -/
def trimEnd (b : Bytes) : Bytes := ((b.reverse).dropWhile (· == SP)).reverse

theorem trimSpaces_eq (b : Bytes) : trimSpaces b = trimEnd (b.dropWhile (· == SP)) := rfl

theorem trimEnd_nil : trimEnd [] = [] := by simp [trimEnd]

theorem trimEnd_cons (c : UInt8) (x : Bytes) :
    trimEnd (c :: x) = if (c == SP) && (trimEnd x).isEmpty then [] else c :: trimEnd x := by
  unfold trimEnd
  rw [List.reverse_cons, List.dropWhile_append]
  by_cases he : (List.dropWhile (· == SP) x.reverse).isEmpty = true
  · have he' : List.dropWhile (· == SP) x.reverse = [] := by simpa using he
    by_cases hc : (c == SP) = true
    · simp [he', hc]
    · simp [he', hc]
  · have he' : List.dropWhile (· == SP) x.reverse ≠ [] := by simpa using he
    simp [he']

theorem trimEnd_cons_ne {c : UInt8} (h : (c == SP) = false) (x : Bytes) : trimEnd (c :: x) = c :: trimEnd x := by
  rw [trimEnd_cons]; simp [h]

/-- Dropping leading spaces forgets the `inWs` flag. -/
theorem dropWhile_collapseWs (l : Bytes) (b : Bool) :
    (collapseWs l b).dropWhile (· == SP) = collapseWs l true := by
  induction l generalizing b with
  | nil => simp [collapseWs_nil]
  | cons c rest ih =>
    by_cases h : Spec.isSpaceTabOrLineEnding c = true
    · rw [collapseWs_ws h, collapseWs_ws h]
      cases b
      · simp [ih]
      · simp [ih]
    · have h' : Spec.isSpaceTabOrLineEnding c = false := by simpa using h
      rw [collapseWs_nonws h', collapseWs_nonws h']
      simp [not_ws_ne_SP c h']

/-! ## Words -/

theorem joinWords_cons_cons (w w' : Bytes) (ws : List Bytes) :
    joinWords (w :: w' :: ws) = w ++ [0x20] ++ joinWords (w' :: ws) := by
  simp [joinWords]

theorem joinWords_single (w : Bytes) : joinWords [w] = w := by simp [joinWords]

theorem wordsAux_nil (cur : Bytes) : wordsAux [] cur = if cur.isEmpty then [] else [cur.reverse] := by
  simp [wordsAux]

theorem wordsAux_ws {c : UInt8} (h : Spec.isSpaceTabOrLineEnding c = true) (rest cur : Bytes) :
    wordsAux (c :: rest) cur = if cur.isEmpty then wordsAux rest [] else cur.reverse :: wordsAux rest [] := by
  simp [wordsAux, h]

theorem wordsAux_nonws {c : UInt8} (h : Spec.isSpaceTabOrLineEnding c = false) (rest cur : Bytes) :
    wordsAux (c :: rest) cur = wordsAux rest (c :: cur) := by
  simp [wordsAux, h]

/-- Every word is non-empty. -/
theorem wordsAux_ne_nil (l cur : Bytes) : ∀ w ∈ wordsAux l cur, w ≠ [] := by
  induction l generalizing cur with
  | nil =>
    intro w hw
    rw [wordsAux_nil] at hw
    cases cur with
    | nil => simp at hw
    | cons a t => simp at hw; simp [hw]
  | cons c rest ih =>
    intro w hw
    by_cases h : Spec.isSpaceTabOrLineEnding c = true
    · rw [wordsAux_ws h] at hw
      cases cur with
      | nil => simp at hw; exact ih [] w hw
      | cons a t =>
        simp at hw
        rcases hw with hw | hw
        · simp [hw]
        · exact ih [] w hw
    · have h' : Spec.isSpaceTabOrLineEnding c = false := by simpa using h
      rw [wordsAux_nonws h'] at hw
      exact ih _ w hw

theorem joinWords_eq_nil {ws : List Bytes} (hne : ∀ w ∈ ws, w ≠ []) (h : joinWords ws = []) : ws = [] := by
  match ws, hne, h with
  | [], _, _ => rfl
  | [w], hne, h => rw [joinWords_single] at h; exact absurd h (hne w (by simp))
  | w :: w' :: ws, _, h => rw [joinWords_cons_cons] at h; simp at h

/-- The collapse loop, right-trimmed, is the joined word list — for both accumulators. -/
theorem joinWords_wordsAux (l : Bytes) :
    joinWords (wordsAux l []) = trimEnd (collapseWs l true) ∧
    ∀ cur : Bytes, cur ≠ [] → joinWords (wordsAux l cur) = cur.reverse ++ trimEnd (collapseWs l false) := by
  induction l with
  | nil =>
    refine ⟨by simp [wordsAux_nil, collapseWs_nil, trimEnd_nil, joinWords], ?_⟩
    intro cur hc
    rw [wordsAux_nil]
    simp [hc, collapseWs_nil, trimEnd_nil, joinWords_single]
  | cons c rest ih =>
    obtain ⟨ih1, ih2⟩ := ih
    by_cases h : Spec.isSpaceTabOrLineEnding c = true
    · refine ⟨?_, ?_⟩
      · rw [wordsAux_ws h, collapseWs_ws h]; simpa using ih1
      · intro cur hc
        rw [wordsAux_ws h, collapseWs_ws h]
        simp only [List.isEmpty_iff, hc, if_false, Bool.false_eq_true]
        rw [trimEnd_cons, ← ih1]
        cases hw : wordsAux rest [] with
        | nil => simp [joinWords]
        | cons w' ws' =>
          rw [joinWords_cons_cons]
          have hne : ∀ w ∈ wordsAux rest [], w ≠ [] := wordsAux_ne_nil rest []
          have : joinWords (w' :: ws') ≠ [] := by
            intro hj
            rw [hw] at hne
            have := joinWords_eq_nil hne hj
            simp at this
          simp [this]
    · have h' : Spec.isSpaceTabOrLineEnding c = false := by simpa using h
      have hsp := not_ws_ne_SP c h'
      refine ⟨?_, ?_⟩
      · rw [wordsAux_nonws h', collapseWs_nonws h', trimEnd_cons_ne hsp, ih2 [c] (by simp)]
        simp
      · intro cur _
        rw [wordsAux_nonws h', collapseWs_nonws h', trimEnd_cons_ne hsp, ih2 (c :: cur) (by simp)]
        simp

/-- The whole content: trim ∘ collapse = join ∘ words. -/
theorem trim_collapse_eq_wsNormal (label : Bytes) :
    trimSpaces (collapseWs label false) = wsNormal label := by
  rw [trimSpaces_eq, dropWhile_collapseWs, wsNormal, words, (joinWords_wordsAux label).1]

theorem normalize_eq_spec (fold : Bytes → Bytes) (label : Bytes) :
    Model.normalizeLabel fold label = Spec.normalizeLabelSpec fold label := by
  rw [normalizeLabel, normalizeLabelSpec, trim_collapse_eq_wsNormal]


/-! ## Good word lists and `words ∘ joinWords` -/

/-- Every word is non-empty and free of white space. -/
def GoodWords (ws : List Bytes) : Prop :=
  ∀ w ∈ ws, w ≠ [] ∧ ∀ c ∈ w, Spec.isSpaceTabOrLineEnding c = false

theorem wordsAux_good (l cur : Bytes) (hcur : ∀ c ∈ cur, Spec.isSpaceTabOrLineEnding c = false) :
    GoodWords (wordsAux l cur) := by
  induction l generalizing cur with
  | nil =>
    intro w hw
    rw [wordsAux_nil] at hw
    cases cur with
    | nil => simp at hw
    | cons a t =>
      simp at hw
      subst hw
      refine ⟨by simp, ?_⟩
      intro c hc
      apply hcur
      simpa [or_comm] using hc
  | cons c rest ih =>
    by_cases h : Spec.isSpaceTabOrLineEnding c = true
    · rw [wordsAux_ws h]
      cases cur with
      | nil => simpa using ih [] (by simp)
      | cons a t =>
        intro w hw
        simp at hw
        rcases hw with hw | hw
        · subst hw
          refine ⟨by simp, ?_⟩
          intro c hc
          apply hcur
          simpa [or_comm] using hc
        · exact ih [] (by simp) w hw
    · have h' : Spec.isSpaceTabOrLineEnding c = false := by simpa using h
      rw [wordsAux_nonws h']
      apply ih
      intro d hd
      rcases List.mem_cons.mp hd with hd | hd
      · subst hd; exact h'
      · exact hcur d hd

theorem words_good (l : Bytes) : GoodWords (words l) := wordsAux_good l [] (by simp)

theorem wordsAux_append_nonws (w rest cur : Bytes) (hw : ∀ c ∈ w, Spec.isSpaceTabOrLineEnding c = false) :
    wordsAux (w ++ rest) cur = wordsAux rest (w.reverse ++ cur) := by
  induction w generalizing cur with
  | nil => simp
  | cons a t ih =>
    rw [List.cons_append, wordsAux_nonws (hw a (by simp)), ih _ (fun c hc => hw c (by simp [hc]))]
    simp

theorem GoodWords.tail {w : Bytes} {ws : List Bytes} (h : GoodWords (w :: ws)) : GoodWords ws :=
  fun x hx => h x (by simp [hx])

/-- Splitting a joined good word list gives the list back. -/
theorem words_joinWords : ∀ (ws : List Bytes), GoodWords ws → words (joinWords ws) = ws
  | [], _ => by simp [joinWords, words, wordsAux_nil]
  | [w], h => by
    obtain ⟨hne, hns⟩ := h w (by simp)
    rw [joinWords_single, words]
    have := wordsAux_append_nonws w [] [] hns
    simp only [List.append_nil] at this
    rw [this, wordsAux_nil]
    simp [hne]
  | w :: w' :: ws, h => by
    obtain ⟨hne, hns⟩ := h w (by simp)
    have ih := words_joinWords (w' :: ws) h.tail
    rw [joinWords_cons_cons, words, List.append_assoc, wordsAux_append_nonws w _ [] hns]
    have hsp : Spec.isSpaceTabOrLineEnding (0x20 : UInt8) = true := ws_SP
    rw [List.singleton_append, wordsAux_ws hsp]
    simp only [List.append_nil, List.isEmpty_reverse, List.isEmpty_iff, hne, if_false, List.reverse_reverse]
    rw [words] at ih
    rw [ih]

theorem wsNormal_idem (label : Bytes) : Spec.wsNormal (Spec.wsNormal label) = Spec.wsNormal label := by
  unfold wsNormal
  rw [words_joinWords _ (words_good label)]

/-! ## The shape of a white-space-normal label -/

/-- No two adjacent white-space bytes. -/
def noAdjWs : Bytes → Bool
  | a :: b :: rest => !(Spec.isSpaceTabOrLineEnding a && Spec.isSpaceTabOrLineEnding b) && noAdjWs (b :: rest)
  | _ => true

/-- White-space-normal: the first and the last byte are not white space, every white-space byte is a
    single 0x20 (no tab / LF / CR survives, and no two white-space bytes are adjacent). -/
def isWsNormal (l : Bytes) : Bool :=
  l.head?.all (fun c => !Spec.isSpaceTabOrLineEnding c) &&
  l.getLast?.all (fun c => !Spec.isSpaceTabOrLineEnding c) &&
  l.all (fun c => !Spec.isSpaceTabOrLineEnding c || c == SP) &&
  noAdjWs l

theorem isWsNormal_iff (l : Bytes) :
    isWsNormal l = true ↔
      (∀ c, l.head? = some c → Spec.isSpaceTabOrLineEnding c = false) ∧
      (∀ c, l.getLast? = some c → Spec.isSpaceTabOrLineEnding c = false) ∧
      (∀ c ∈ l, Spec.isSpaceTabOrLineEnding c = true → c = SP) ∧
      noAdjWs l = true := by
  unfold isWsNormal
  simp only [Bool.and_eq_true, and_assoc]
  refine and_congr ?_ (and_congr ?_ (and_congr ?_ Iff.rfl))
  · cases l.head? <;> simp
  · cases l.getLast? <;> simp
  · simp only [List.all_eq_true, Bool.or_eq_true, Bool.not_eq_true', beq_iff_eq]
    constructor
    · intro h c hc hw
      rcases h c hc with h | h
      · rw [h] at hw; exact absurd hw (by simp)
      · exact h
    · intro h c hc
      by_cases hw : Spec.isSpaceTabOrLineEnding c = true
      · exact Or.inr (h c hc hw)
      · exact Or.inl (by simpa using hw)

theorem noAdjWs_cons_nonws {a : UInt8} (h : Spec.isSpaceTabOrLineEnding a = false) (x : Bytes) :
    noAdjWs (a :: x) = noAdjWs x := by
  cases x with
  | nil => simp [noAdjWs]
  | cons b r => simp [noAdjWs, h]

theorem noAdjWs_append_nonws (w x : Bytes) (hw : ∀ c ∈ w, Spec.isSpaceTabOrLineEnding c = false) :
    noAdjWs (w ++ x) = noAdjWs x := by
  induction w with
  | nil => simp
  | cons a t ih =>
    rw [List.cons_append, noAdjWs_cons_nonws (hw a (by simp)), ih (fun c hc => hw c (by simp [hc]))]

theorem joinWords_ne_nil {w : Bytes} {ws : List Bytes} (h : GoodWords (w :: ws)) : joinWords (w :: ws) ≠ [] := by
  intro hj
  have := joinWords_eq_nil (fun x hx => (h x hx).1) hj
  simp at this

theorem joinWords_head (ws : List Bytes) (h : GoodWords ws) :
    ∀ c, (joinWords ws).head? = some c → Spec.isSpaceTabOrLineEnding c = false := by
  intro c hc
  match ws, h, hc with
  | [], _, hc => simp [joinWords] at hc
  | [w], h, hc =>
    rw [joinWords_single] at hc
    exact (h w (by simp)).2 c (List.mem_of_head? hc)
  | w :: w' :: ws, h, hc =>
    obtain ⟨hne, hns⟩ := h w (by simp)
    rw [joinWords_cons_cons, List.append_assoc] at hc
    cases w with
    | nil => exact absurd rfl hne
    | cons a t =>
      simp at hc
      subst hc
      exact hns a (by simp)

theorem joinWords_last : ∀ (ws : List Bytes), GoodWords ws →
    ∀ c, (joinWords ws).getLast? = some c → Spec.isSpaceTabOrLineEnding c = false
  | [], _, c, hc => by simp [joinWords] at hc
  | [w], h, c, hc => by
    rw [joinWords_single] at hc
    exact (h w (by simp)).2 c (List.mem_of_getLast? hc)
  | w :: w' :: ws, h, c, hc => by
    rw [joinWords_cons_cons, List.getLast?_append] at hc
    have hne := joinWords_ne_nil h.tail
    cases hl : (joinWords (w' :: ws)).getLast? with
    | none => exact absurd (List.getLast?_eq_none_iff.mp hl) hne
    | some d =>
      rw [hl] at hc
      simp at hc
      subst hc
      exact joinWords_last (w' :: ws) h.tail d hl

theorem joinWords_all : ∀ (ws : List Bytes), GoodWords ws →
    ∀ c ∈ joinWords ws, Spec.isSpaceTabOrLineEnding c = true → c = SP
  | [], _, c, hc, _ => by simp [joinWords] at hc
  | [w], h, c, hc, hw => by
    rw [joinWords_single] at hc
    have := (h w (by simp)).2 c hc
    rw [this] at hw; exact absurd hw (by simp)
  | w :: w' :: ws, h, c, hc, hw => by
    rw [joinWords_cons_cons] at hc
    simp only [List.mem_append, List.mem_singleton] at hc
    rcases hc with (hc | hc) | hc
    · have := (h w (by simp)).2 c hc
      rw [this] at hw; exact absurd hw (by simp)
    · exact hc
    · exact joinWords_all (w' :: ws) h.tail c hc hw

theorem joinWords_noAdj : ∀ (ws : List Bytes), GoodWords ws → noAdjWs (joinWords ws) = true
  | [], _ => by simp [joinWords, noAdjWs]
  | [w], h => by
    rw [joinWords_single]
    have := noAdjWs_append_nonws w [] (h w (by simp)).2
    simpa [noAdjWs] using this
  | w :: w' :: ws, h => by
    rw [joinWords_cons_cons, List.append_assoc, noAdjWs_append_nonws w _ (h w (by simp)).2]
    have ih := joinWords_noAdj (w' :: ws) h.tail
    have hd := joinWords_head (w' :: ws) h.tail
    have hne := joinWords_ne_nil h.tail
    cases hj : joinWords (w' :: ws) with
    | nil => exact absurd hj hne
    | cons d r =>
      rw [hj] at ih hd
      have hdn : Spec.isSpaceTabOrLineEnding d = false := hd d (by simp)
      simp [noAdjWs, hdn]
      exact ih

theorem isWsNormal_joinWords (ws : List Bytes) (h : GoodWords ws) : isWsNormal (joinWords ws) = true :=
  (isWsNormal_iff _).mpr ⟨joinWords_head ws h, joinWords_last ws h, joinWords_all ws h, joinWords_noAdj ws h⟩

/-- The normal form has no leading/trailing white space, no two adjacent white-space bytes, and every
    white-space byte in it is a single 0x20. -/
theorem wsNormal_shape (label : Bytes) : isWsNormal (Spec.wsNormal label) = true :=
  isWsNormal_joinWords _ (words_good label)

/-- On a label of that shape the collapsing loop is the identity. -/
theorem collapseWs_of_shape (l : Bytes) (inWs : Bool)
    (hall : ∀ c ∈ l, Spec.isSpaceTabOrLineEnding c = true → c = SP)
    (hadj : noAdjWs l = true)
    (hhd : inWs = true → ∀ c, l.head? = some c → Spec.isSpaceTabOrLineEnding c = false) :
    collapseWs l inWs = l := by
  induction l generalizing inWs with
  | nil => exact collapseWs_nil _
  | cons c rest ih =>
    have hall' : ∀ d ∈ rest, Spec.isSpaceTabOrLineEnding d = true → d = SP :=
      fun d hd => hall d (by simp [hd])
    by_cases h : Spec.isSpaceTabOrLineEnding c = true
    · have hc : c = SP := hall c (by simp) h
      have hin : inWs = false := by
        cases inWs with
        | false => rfl
        | true => have := hhd rfl c (by simp); rw [this] at h; exact absurd h (by simp)
      subst hin
      rw [collapseWs_ws h]
      simp only [Bool.false_eq_true, if_false]
      rw [ih true hall' ?_ ?_, hc]
      · cases rest with
        | nil => simp [noAdjWs]
        | cons b r => simp [noAdjWs] at hadj; exact hadj.2
      · intro _ d hd
        cases rest with
        | nil => simp at hd
        | cons b r =>
          simp at hd; subst hd
          simp [noAdjWs, h] at hadj
          exact hadj.1
    · have h' : Spec.isSpaceTabOrLineEnding c = false := by simpa using h
      rw [collapseWs_nonws h', ih false hall' ?_ (by simp)]
      rw [noAdjWs_cons_nonws h'] at hadj
      exact hadj

theorem trimEnd_of_last (l : Bytes) (h : ∀ c, l.getLast? = some c → (c == SP) = false) : trimEnd l = l := by
  unfold trimEnd
  cases hr : l.reverse with
  | nil => simpa using hr
  | cons a t =>
    have : l.getLast? = some a := by rw [← List.head?_reverse, hr]; rfl
    have ha := h a this
    rw [List.dropWhile_cons]
    simp only [ha, Bool.false_eq_true, if_false]
    rw [← hr, List.reverse_reverse]

theorem trimSpaces_of_shape (l : Bytes)
    (hhd : ∀ c, l.head? = some c → Spec.isSpaceTabOrLineEnding c = false)
    (hlast : ∀ c, l.getLast? = some c → Spec.isSpaceTabOrLineEnding c = false) :
    trimSpaces l = l := by
  rw [trimSpaces_eq]
  have hd : l.dropWhile (· == SP) = l := by
    cases l with
    | nil => rfl
    | cons a t =>
      rw [List.dropWhile_cons]
      simp [not_ws_ne_SP a (hhd a (by simp))]
  rw [hd]
  exact trimEnd_of_last l (fun c hc => not_ws_ne_SP c (hlast c hc))

/-- Labels of the normal shape are fixed points of `wsNormal`. -/
theorem wsNormal_of_isWsNormal (l : Bytes) (h : isWsNormal l = true) : Spec.wsNormal l = l := by
  obtain ⟨hhd, hlast, hall, hadj⟩ := (isWsNormal_iff l).mp h
  rw [← trim_collapse_eq_wsNormal, collapseWs_of_shape l false hall hadj (by simp)]
  exact trimSpaces_of_shape l hhd hlast

/-- `isWsNormal` decides exactly the image (= the fixed points) of `wsNormal`. -/
theorem isWsNormal_iff_fixed (l : Bytes) : isWsNormal l = true ↔ Spec.wsNormal l = l :=
  ⟨wsNormal_of_isWsNormal l, fun h => by rw [← h]; exact wsNormal_shape l⟩

/-- Labels that differ only in the amount/kind of white space normalise equally. -/
theorem normalize_ws_variants (fold : Bytes → Bytes) (a b : Bytes) (h : Spec.words a = Spec.words b) :
    Model.normalizeLabel fold a = Model.normalizeLabel fold b := by
  rw [normalize_eq_spec, normalize_eq_spec, normalizeLabelSpec, normalizeLabelSpec, wsNormal, wsNormal, h]

/-- Conversely (for the identity fold, hence for any injective fold): equal normal forms ⇒ equal words. -/
theorem words_eq_of_wsNormal_eq (a b : Bytes) (h : Spec.wsNormal a = Spec.wsNormal b) :
    Spec.words a = Spec.words b := by
  have ha := words_joinWords _ (words_good a)
  have hb := words_joinWords _ (words_good b)
  unfold wsNormal at h
  rw [← ha, ← hb, h]

/-! ## Non-vacuity and concrete evaluations -/

/-- " \tFoo \r\n  bar\t" -/
def exLabel : Bytes := [0x20, 0x09, 0x46, 0x6F, 0x6F, 0x20, 0x0D, 0x0A, 0x20, 0x20, 0x62, 0x61, 0x72, 0x09]
/-- "Foo bar" -/
def exNormal : Bytes := [0x46, 0x6F, 0x6F, 0x20, 0x62, 0x61, 0x72]

example : Spec.words exLabel = [[0x46, 0x6F, 0x6F], [0x62, 0x61, 0x72]] := by decide +kernel
example : Spec.wsNormal exLabel = exNormal := by decide +kernel
example : Model.collapseWs exLabel false = [0x20, 0x46, 0x6F, 0x6F, 0x20, 0x62, 0x61, 0x72, 0x20] := by decide +kernel
example : Model.normalizeLabel id exLabel = exNormal := by decide +kernel
example : Model.normalizeLabel id exLabel = Spec.normalizeLabelSpec id exLabel := normalize_eq_spec id exLabel
example : Model.normalizeLabel id [0x20, 0x09, 0x0A] = [] := by decide +kernel
example : Model.normalizeLabel id [] = [] := by decide +kernel
-- the shape predicate accepts the normal form and rejects the raw label and its near misses
example : isWsNormal exNormal = true := by decide +kernel
example : isWsNormal exLabel = false := by decide +kernel
example : isWsNormal [0x46, 0x20, 0x20, 0x62] = false := by decide +kernel   -- two adjacent spaces
example : isWsNormal [0x46, 0x09, 0x62] = false := by decide +kernel         -- a tab is not 0x20
example : isWsNormal [0x46, 0x20] = false := by decide +kernel               -- trailing space
example : isWsNormal [0x20, 0x46] = false := by decide +kernel               -- leading space
example : Spec.wsNormal exNormal = exNormal := wsNormal_of_isWsNormal exNormal (by decide +kernel)
-- `normalize_ws_variants`: the hypothesis is satisfiable by two different labels
example : Spec.words exLabel = Spec.words exNormal ∧ exLabel ≠ exNormal := by decide +kernel
example (fold : Bytes → Bytes) : Model.normalizeLabel fold exLabel = Model.normalizeLabel fold exNormal :=
  normalize_ws_variants fold exLabel exNormal (by decide +kernel)

end CM.Proofs
