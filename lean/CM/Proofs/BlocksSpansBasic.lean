import CM.Proofs.BlocksSpansDef
/-
C02, block half — generic lemmas about `InlsOK` / `PBSpans` / `PBSpansL`: monotonicity in the bounds and in the
paragraph predicate, appending, the end of the last element, closed blocks, translation invariance.
-/
namespace CM.Proofs.BSp
open CM CM.Model CM.Gen

/-! ### Inline children -/

/-- The end of the last inline (or `lo` if there is none). -/
def inlLast : Int → List Tree → Int
  | lo, [] => lo
  | _, t :: rest => inlLast t.label.stop rest

theorem InlsOK_mono {lo lo' hi hi' : Int} (h1 : lo' ≤ lo) (h2 : hi ≤ hi') :
    ∀ {is : List Tree}, InlsOK lo hi is → InlsOK lo' hi' is := by
  intro is
  induction is generalizing lo lo' with
  | nil => intro _; exact InlsOK_nil _ _
  | cons t rest ih =>
    intro h
    rw [InlsOK_cons] at h ⊢
    exact ⟨by omega, h.2.1, by omega, ih (Int.le_refl _) h.2.2.2⟩

theorem inlLast_ge {lo hi : Int} : ∀ {is : List Tree}, InlsOK lo hi is → lo ≤ inlLast lo is := by
  intro is
  induction is generalizing lo with
  | nil => intro _; exact Int.le_refl _
  | cons t rest ih =>
    intro h
    rw [InlsOK_cons] at h
    have := ih h.2.2.2
    simp only [inlLast]; omega

theorem inlLast_le {lo hi : Int} (hlo : lo ≤ hi) : ∀ {is : List Tree}, InlsOK lo hi is → inlLast lo is ≤ hi := by
  intro is
  induction is generalizing lo with
  | nil => intro _; exact hlo
  | cons t rest ih =>
    intro h
    rw [InlsOK_cons] at h
    exact ih h.2.2.1 h.2.2.2

/-- Lowering the upper bound to (at least) the end of the last inline. -/
theorem InlsOK_lower {lo hi hi' : Int} : ∀ {is : List Tree}, InlsOK lo hi is → inlLast lo is ≤ hi' → InlsOK lo hi' is := by
  intro is
  induction is generalizing lo with
  | nil => intro _ _; exact InlsOK_nil _ _
  | cons t rest ih =>
    intro h hl
    rw [InlsOK_cons] at h ⊢
    simp only [inlLast] at hl
    have := inlLast_ge h.2.2.2
    exact ⟨h.1, h.2.1, by omega, ih h.2.2.2 hl⟩

theorem InlsOK_append {lo hi : Int} {a b : List Tree} :
    InlsOK lo hi (a ++ b) ↔ InlsOK lo hi a ∧ InlsOK (inlLast lo a) hi b := by
  induction a generalizing lo with
  | nil => simp [InlsOK_nil, inlLast]
  | cons t rest ih =>
    simp only [List.cons_append, InlsOK_cons, inlLast, ih, and_assoc]

theorem inlLast_append (lo : Int) (a b : List Tree) : inlLast lo (a ++ b) = inlLast (inlLast lo a) b := by
  induction a generalizing lo with
  | nil => rfl
  | cons t rest ih => simp only [List.cons_append, inlLast, ih]

/-- Appending one inline at the end. -/
theorem InlsOK_snoc {lo hi : Int} {is : List Tree} {t : Tree} (h : InlsOK lo hi is)
    (h1 : inlLast lo is ≤ t.label.start) (h2 : t.label.start ≤ t.label.stop) (hi' : Int) (h3 : t.label.stop ≤ hi')
    (h4 : hi ≤ hi') : InlsOK lo hi' (is ++ [t]) := by
  rw [InlsOK_append]
  refine ⟨InlsOK_mono (Int.le_refl _) h4 h, ?_⟩
  rw [InlsOK_cons]
  exact ⟨h1, h2, h3, InlsOK_nil _ _⟩

theorem InlsOK_prefix {lo hi : Int} {a b : List Tree} (h : InlsOK lo hi (a ++ b)) : InlsOK lo hi a :=
  (InlsOK_append.mp h).1

/-! ### Monotonicity of `PBSpans` -/

mutual
theorem PBSpans_mono {Q Q' : ParaPred} (hq : ∀ l is, Q l is = true → Q' l is = true) :
    ∀ (b : PB) {lo lo' hi hi' : Int}, lo' ≤ lo → hi ≤ hi' → PBSpans Q lo hi b → PBSpans Q' lo' hi' b
  | .mk l bs is, lo, lo', hi, hi', h1, h2, h => by
    rw [PBSpans_mk] at h ⊢
    obtain ⟨a1, a2, a3, a4, a5, a6, a7⟩ := h
    by_cases ho : l.stop < 0
    · rw [endOf_open ho] at a2 a3 a4 a5 ⊢
      refine ⟨by omega, by omega, Int.le_refl _, InlsOK_mono (Int.le_refl _) h2 a4,
        PBSpansL_mono hq bs (Int.le_refl _) h2 a5, a6, fun ho' => ⟨(a7 ho').1, fun hk => hq _ _ ((a7 ho').2 hk)⟩⟩
    · have hc : 0 ≤ l.stop := by omega
      rw [endOf_closed hc] at a2 a3 a4 a5 ⊢
      refine ⟨by omega, a2, by omega, a4, PBSpansL_mono hq bs (Int.le_refl _) (Int.le_refl _) a5, a6,
        fun ho' => absurd ho' ho⟩
theorem PBSpansL_mono {Q Q' : ParaPred} (hq : ∀ l is, Q l is = true → Q' l is = true) :
    ∀ (bs : List PB) {po : Bool} {lo lo' hi hi' : Int}, lo' ≤ lo → hi ≤ hi' → PBSpansL Q po lo hi bs → PBSpansL Q' po lo' hi' bs
  | [], _, _, _, _, _, _, _, _ => PBSpansL_nil _ _ _ _
  | b :: rest, po, lo, lo', hi, hi', h1, h2, h => by
    rw [PBSpansL_cons] at h ⊢
    exact ⟨PBSpans_mono hq b h1 h2 h.1, h.2.1, PBSpansL_mono hq rest (Int.le_refl _) h2 h.2.2⟩
end

theorem PBSpans_mono' {Q : ParaPred} {b : PB} {lo lo' hi hi' : Int} (h1 : lo' ≤ lo) (h2 : hi ≤ hi')
    (h : PBSpans Q lo hi b) : PBSpans Q lo' hi' b := PBSpans_mono (fun _ _ h => h) b h1 h2 h

theorem PBSpansL_mono' {Q : ParaPred} {bs : List PB} {po : Bool} {lo lo' hi hi' : Int} (h1 : lo' ≤ lo) (h2 : hi ≤ hi')
    (h : PBSpansL Q po lo hi bs) : PBSpansL Q po lo' hi' bs := PBSpansL_mono (fun _ _ h => h) bs h1 h2 h

/-- Forgetting the paragraph predicate. -/
theorem PBSpans_toQT {Q : ParaPred} {b : PB} {lo hi : Int} (h : PBSpans Q lo hi b) : PBSpans QT lo hi b :=
  PBSpans_mono (fun _ _ _ => rfl) b (Int.le_refl _) (Int.le_refl _) h

theorem PBSpansL_toQT {Q : ParaPred} {bs : List PB} {po : Bool} {lo hi : Int} (h : PBSpansL Q po lo hi bs) :
    PBSpansL QT po lo hi bs :=
  PBSpansL_mono (fun _ _ _ => rfl) bs (Int.le_refl _) (Int.le_refl _) h

/-- Allowing the last child to be open. -/
theorem PBSpansL_po {Q : ParaPred} {hi : Int} : ∀ {bs : List PB} {lo : Int} {po : Bool},
    PBSpansL Q false lo hi bs → PBSpansL Q po lo hi bs := by
  intro bs
  induction bs with
  | nil => intro _ _ _; exact PBSpansL_nil _ _ _ _
  | cons b rest ih =>
    intro lo po h
    rw [PBSpansL_cons] at h ⊢
    refine ⟨h.1, fun ho => ?_, ih h.2.2⟩
    have := (h.2.1 ho).2
    cases this

/-! ### Basic bounds -/

theorem PBSpans_start_ge {Q : ParaPred} {lo hi : Int} {b : PB} (h : PBSpans Q lo hi b) : lo ≤ b.label.start := by
  obtain ⟨l, bs, is⟩ := b
  rw [PBSpans_mk] at h
  exact h.1

theorem PBSpans_lo_le_hi {Q : ParaPred} {lo hi : Int} {b : PB} (h : PBSpans Q lo hi b) : lo ≤ hi := by
  obtain ⟨l, bs, is⟩ := b
  rw [PBSpans_mk] at h
  omega

theorem PBSpans_closed_bounds {Q : ParaPred} {lo hi : Int} {b : PB} (h : PBSpans Q lo hi b) (hc : 0 ≤ b.label.stop) :
    lo ≤ b.label.start ∧ b.label.start ≤ b.label.stop ∧ b.label.stop ≤ hi := by
  obtain ⟨l, bs, is⟩ := b
  rw [PBSpans_mk] at h
  simp only [PB.label] at hc ⊢
  rw [endOf_closed hc] at h
  exact ⟨h.1, h.2.1, h.2.2.1⟩

theorem PBSpans_open_start_le {Q : ParaPred} {lo hi : Int} {b : PB} (h : PBSpans Q lo hi b) (ho : b.label.stop < 0) :
    b.label.start ≤ hi := by
  obtain ⟨l, bs, is⟩ := b
  rw [PBSpans_mk] at h
  simp only [PB.label] at ho ⊢
  rw [endOf_open ho] at h
  exact h.2.1

/-- A closed block only depends on the upper bound through `stop ≤ hi`. -/
theorem PBSpans_closed_iff {Q : ParaPred} {lo hi : Int} {b : PB} (hc : 0 ≤ b.label.stop) :
    PBSpans Q lo hi b ↔ PBSpans Q lo b.label.stop b ∧ b.label.stop ≤ hi := by
  obtain ⟨l, bs, is⟩ := b
  simp only [PB.label] at hc ⊢
  rw [PBSpans_mk, PBSpans_mk, endOf_closed hc, endOf_closed hc]
  constructor
  · rintro ⟨a1, a2, a3, a4, a5, a6⟩
    exact ⟨⟨a1, a2, Int.le_refl _, a4, a5, a6⟩, a3⟩
  · rintro ⟨⟨a1, a2, _, a4, a5, a6⟩, a3⟩
    exact ⟨a1, a2, a3, a4, a5, a6⟩

theorem PBSpans_closed_hi {Q : ParaPred} {lo hi hi' : Int} {b : PB} (hc : 0 ≤ b.label.stop)
    (h : PBSpans Q lo hi b) (h' : b.label.stop ≤ hi') : PBSpans Q lo hi' b :=
  (PBSpans_closed_iff hc).mpr ⟨((PBSpans_closed_iff hc).mp h).1, h'⟩

/-- A closed block does not mention the paragraph predicate at its top; if all its descendants are closed neither
    below. We only need: a closed block's `Q` can be changed when its children list is all-closed — which `PBSpansL`
    with `parentOpen = false` guarantees recursively. -/
theorem PBSpans_closed_Q_aux {Q Q' : ParaPred} :
    ∀ (n : Nat) (b : PB) {lo hi : Int}, sizeOf b ≤ n → 0 ≤ b.label.stop → PBSpans Q lo hi b → PBSpans Q' lo hi b := by
  intro n
  induction n with
  | zero =>
    intro b lo hi hs
    obtain ⟨l, bs, is⟩ := b
    simp at hs
  | succ n ih =>
    intro b lo hi hs hc h
    obtain ⟨l, bs, is⟩ := b
    simp only [PB.label] at hc
    rw [PBSpans_mk] at h ⊢
    obtain ⟨a1, a2, a3, a4, a5, a6, a7⟩ := h
    have hno : ¬ l.stop < 0 := by omega
    refine ⟨a1, a2, a3, a4, ?_, a6, fun ho => absurd ho hno⟩
    simp only [hno, decide_false] at a5 ⊢
    -- all children closed
    have key : ∀ (cs : List PB) (lo' : Int), (∀ c ∈ cs, sizeOf c ≤ n) → PBSpansL Q false lo' (endOf hi l) cs →
        PBSpansL Q' false lo' (endOf hi l) cs := by
      intro cs
      induction cs with
      | nil => intro _ _ _; exact PBSpansL_nil _ _ _ _
      | cons c rest ihc =>
        intro lo' hsz hL
        rw [PBSpansL_cons] at hL ⊢
        have hcc : 0 ≤ c.label.stop := by
          cases hco : c.isOpen
          · exact (isOpen_false_iff c).mp hco
          · have := (hL.2.1 hco).2; cases this
        refine ⟨ih c (hsz c (by simp)) hcc hL.1, hL.2.1, ihc _ (fun c' hc' => hsz c' (by simp [hc'])) hL.2.2⟩
    apply key bs _ _ a5
    intro c hcm
    have := List.sizeOf_lt_of_mem hcm
    simp at hs
    omega

theorem PBSpans_closed_Q {Q Q' : ParaPred} {b : PB} {lo hi : Int} (hc : 0 ≤ b.label.stop) (h : PBSpans Q lo hi b) :
    PBSpans Q' lo hi b := PBSpans_closed_Q_aux (sizeOf b) b (Nat.le_refl _) hc h

/-! ### The end of the last block child -/

/-- The end of the last block (or `lo` if there is none). -/
def pbLast : Int → List PB → Int
  | lo, [] => lo
  | _, b :: rest => pbLast b.label.stop rest

theorem pbLast_append (lo : Int) (a b : List PB) : pbLast lo (a ++ b) = pbLast (pbLast lo a) b := by
  induction a generalizing lo with
  | nil => rfl
  | cons t rest ih => simp only [List.cons_append, pbLast, ih]

/-- All blocks of the list are closed. -/
def allClosed (bs : List PB) : Prop := ∀ b ∈ bs, 0 ≤ b.label.stop

theorem allClosed_of_false {Q : ParaPred} {hi : Int} : ∀ {bs : List PB} {lo : Int}, PBSpansL Q false lo hi bs → allClosed bs := by
  intro bs
  induction bs with
  | nil => intro _ _ b hb; cases hb
  | cons c rest ih =>
    intro lo h b hb
    rw [PBSpansL_cons] at h
    rcases List.mem_cons.mp hb with rfl | hb
    · cases hco : b.isOpen
      · exact (isOpen_false_iff b).mp hco
      · have := (h.2.1 hco).2; cases this
    · exact ih h.2.2 b hb

theorem PBSpansL_false_of_allClosed {Q : ParaPred} {hi : Int} {po : Bool} : ∀ {bs : List PB} {lo : Int},
    PBSpansL Q po lo hi bs → allClosed bs → PBSpansL Q false lo hi bs := by
  intro bs
  induction bs with
  | nil => intro _ _ _; exact PBSpansL_nil _ _ _ _
  | cons c rest ih =>
    intro lo h hc
    rw [PBSpansL_cons] at h ⊢
    refine ⟨h.1, fun ho => ?_, ih h.2.2 (fun b hb => hc b (by simp [hb]))⟩
    have := hc c (by simp)
    rw [isOpen_iff] at ho
    omega

theorem pbLast_ge {Q : ParaPred} {hi : Int} {po : Bool} : ∀ {bs : List PB} {lo : Int},
    PBSpansL Q po lo hi bs → allClosed bs → lo ≤ pbLast lo bs := by
  intro bs
  induction bs with
  | nil => intro _ _ _; exact Int.le_refl _
  | cons c rest ih =>
    intro lo h hc
    rw [PBSpansL_cons] at h
    have hcc := hc c (by simp)
    have hb := PBSpans_closed_bounds h.1 hcc
    have := ih h.2.2 (fun b hb => hc b (by simp [hb]))
    simp only [pbLast]; omega

theorem pbLast_le {Q : ParaPred} {hi : Int} {po : Bool} : ∀ {bs : List PB} {lo : Int}, lo ≤ hi →
    PBSpansL Q po lo hi bs → allClosed bs → pbLast lo bs ≤ hi := by
  intro bs
  induction bs with
  | nil => intro _ h _ _; exact h
  | cons c rest ih =>
    intro lo hlo h hc
    rw [PBSpansL_cons] at h
    have hcc := hc c (by simp)
    have hb := PBSpans_closed_bounds h.1 hcc
    exact ih hb.2.2 h.2.2 (fun b hb => hc b (by simp [hb]))

/-- Appending block lists. -/
theorem PBSpansL_append {Q : ParaPred} {hi : Int} {po : Bool} {b : List PB} : ∀ {a : List PB} {lo : Int},
    PBSpansL Q po lo hi (a ++ b) ↔ PBSpansL Q (po && b.isEmpty) lo hi a ∧ PBSpansL Q po (pbLast lo a) hi b := by
  intro a
  induction a with
  | nil => intro lo; simp [PBSpansL_nil, pbLast]
  | cons c rest ih =>
    intro lo
    simp only [List.cons_append, PBSpansL_cons, pbLast, ih, and_assoc]
    constructor
    · rintro ⟨h1, h2, h3, h4⟩
      refine ⟨h1, fun ho => ?_, h3, h4⟩
      obtain ⟨e, hp⟩ := h2 ho
      have e1 : rest = [] := (List.append_eq_nil_iff.mp e).1
      have e2 : b = [] := (List.append_eq_nil_iff.mp e).2
      exact ⟨e1, by simp [hp, e2]⟩
    · rintro ⟨h1, h2, h3, h4⟩
      refine ⟨h1, fun ho => ?_, h3, h4⟩
      obtain ⟨e, hp⟩ := h2 ho
      simp only [Bool.and_eq_true, List.isEmpty_iff] at hp
      exact ⟨by rw [e, hp.2]; rfl, hp.1⟩

/-- Closed blocks followed by more blocks. -/
theorem PBSpansL_append_closed {Q : ParaPred} {hi : Int} {po : Bool} {a b : List PB} {lo : Int}
    (ha : PBSpansL Q false lo hi a) (hb : PBSpansL Q po (pbLast lo a) hi b) : PBSpansL Q po lo hi (a ++ b) := by
  rw [PBSpansL_append]
  exact ⟨PBSpansL_po ha, hb⟩

/-- Splitting off the last block. -/
theorem PBSpansL_snoc {Q : ParaPred} {hi : Int} {po : Bool} {a : List PB} {c : PB} {lo : Int} :
    PBSpansL Q po lo hi (a ++ [c]) ↔
      PBSpansL Q false lo hi a ∧ PBSpans Q (pbLast lo a) hi c ∧ (c.isOpen = true → po = true) := by
  rw [PBSpansL_append, PBSpansL_cons]
  simp only [List.isEmpty_cons, Bool.and_false, PBSpansL_nil, and_true, true_and]

theorem dropLast_append_getLast {α} {l : List α} {c : α} (h : l.getLast? = some c) : l = l.dropLast ++ [c] := by
  have hne : l ≠ [] := by intro e; rw [e] at h; cases h
  have := List.dropLast_concat_getLast hne
  rw [List.getLast?_eq_some_getLast hne] at h
  simp only [Option.some.injEq] at h
  rw [h] at this
  exact this.symm

end CM.Proofs.BSp
