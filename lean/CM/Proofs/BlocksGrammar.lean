import CM.Proofs.BGLine
import CM.Proofs.BlocksTotal
import CM.Proofs.StreamErr
/-
C05, block half: **the trees the block phase builds obey the node grammar.**

`PBGrammar : PB → Prop` (`pbGrammar : PB → Bool`, defined in `BGDefs.lean`) says, for a block and — recursively — all
its descendants (`BG.localOK` = `BG.blocksOK` ∧ `BG.inlinesOK`):

* a block has block children or inline children, never both (`grammar_xor`);
* a document and a block quote contain only container content (`BG.cck`: paragraph, thematic break, ATX / setext heading,
  indented / fenced code, HTML block, link reference definition, block quote, list), a list only list items (at least
  one) with the list's delimiter, a list item its list marker first and then container content; a list marker has no
  children and occurs only as the first child of a list item (`grammar_marker_parent`, `grammar_item_shape`);
* paragraph, ATX heading, setext heading: Unparsed / Indent leaves; thematic break and list marker: nothing;
  indented code: Text / Indent / SoftLineBreak leaves; fenced code: an optional InfoString first (whose children are
  Text / CharacterReference leaves), then Text / Indent / SoftLineBreak leaves; HTML block: RawHTML / Indent leaves;
  link reference definition: LinkLabel (children: Text / Indent leaves), LinkDestination, optional LinkTitle
  (children: Text / CharacterReference / Indent leaves), in this order;
* ATX level 1..6, setext level 1..2, fence length ≥ 3 and fence character `` ` `` or `~`, HTML condition 0..6, the
  delimiter of a list and of its items is one of `- + * . )`;
* every child kind is allowed by the generated `canContain` (`grammar_canContain`).

Main theorems:
* `processLine_grammar` — one line keeps `PBGrammar` of the root (under the start-of-line invariant `LPInv`);
* `blocksLP_grammar` — along any sequence of lines from the empty document;
* `drain_grammar` — every `Root` delivered by `drain (blocksLP x) fuel p []` (from any parser state whose pending
  blocks satisfy the grammar, in particular `memParser source` and `newBlockParser r`) satisfies the grammar and is of a
  container-content kind.

Helper files: `BGDefs` (the predicate), `BGLocal` (the local rule under edits of one block), `BGSpine` (edits along the
last-child spine, `offsetPB`), `BGCollect` (`collectTextNodes`), `BGClose` (`closeBlock`, `onCloseParagraph`,
`refDefLoop`), `BGOps` (`openBlock`, `closeContainer`, `appendInline`, `collectInline`, …), `BGRecog` (ranges of the
recognizer results; `parseListMarker_n_le`: list numbers ≤ 999999999), `BGStarts` (the eight block starts), `BGLine`
(`ruleMatch` … `processLine`). `BlocksGrammarSpec`: relation to `Spec.grammar` (`spec_grammarAt_nodes`,
`drain_spec_grammarAt`). `BlocksGrammarExamples`: evaluations.
-/
namespace CM.Proofs
open CM CM.Model CM.Gen
open CM.Proofs.BT CM.Proofs.BG

instance (b : PB) : Decidable (PBGrammar b) := inferInstanceAs (Decidable (pbGrammar b = true))

/-! ### readable consequences of the local rule -/

namespace BG

theorem localOK_iff (l : PLabel) (bs : List PB) (is : List Tree) :
    localOK l bs is = true ↔ blocksOK l bs = true ∧ inlinesOK l is = true := by
  unfold localOK; rw [Bool.and_eq_true]

/-- Every child kind is allowed by the generated `canContain` of the parent kind. -/
theorem grammar_canContain {l : PLabel} {bs : List PB} {is : List Tree} (h : localOK l bs is = true) :
    ∀ c ∈ bs, canContain l.kind c.kind = true := by
  intro c hc
  have hb := ((localOK_iff l bs is).1 h).1
  unfold blocksOK at hb
  have cckDoc : ∀ k, cck k = true → canContain BK.document k = true ∧ canContain BK.blockQuote k = true ∧
      canContain BK.listItem k = true := by
    intro k hk
    simp only [cck, List.contains_cons, List.contains_nil, Bool.or_false, Bool.or_eq_true, beq_iff_eq] at hk
    rcases hk with hk | hk | hk | hk | hk | hk | hk | hk | hk | hk <;> subst hk <;> decide
  split at hb
  · rename_i hk
    rw [List.all_eq_true] at hb
    have := cckDoc _ (hb c hc)
    simp only [Bool.or_eq_true, beq_iff_eq] at hk
    rcases hk with hk | hk <;> rw [hk]
    · exact this.1
    · exact this.2.1
  · split at hb
    · rename_i hk
      have hk : l.kind = BK.listItem := by simpa using hk
      rw [hk]
      simp only [Bool.and_eq_true] at hb
      cases bs with
      | nil => cases hc
      | cons m rest =>
        simp only [itemKids, Bool.and_eq_true, beq_iff_eq, List.all_eq_true] at hb
        rcases List.mem_cons.1 hc with rfl | hc
        · rw [hb.2.1]; decide
        · exact (cckDoc _ (hb.2.2 c hc)).2.2
    · split at hb
      · rename_i hk
        have hk : l.kind = BK.list := by simpa using hk
        rw [hk]
        simp only [Bool.and_eq_true, List.all_eq_true, beq_iff_eq] at hb
        rw [(hb.2 c hc).1]; decide
      · have : bs = [] := by simpa using hb
        subst this; cases hc

/-- A block has block children or inline children, never both. -/
theorem grammar_xor {l : PLabel} {bs : List PB} {is : List Tree} (h : localOK l bs is = true) : bs = [] ∨ is = [] :=
  localOK_xor h

/-- A list marker occurs only as a child of a list item … -/
theorem grammar_marker_parent {l : PLabel} {bs : List PB} {is : List Tree} (h : localOK l bs is = true) :
    ∀ c ∈ bs, c.kind = BK.listMarker → l.kind = BK.listItem := by
  intro c hc hm
  have hb := ((localOK_iff l bs is).1 h).1
  unfold blocksOK at hb
  split at hb
  · rw [List.all_eq_true] at hb
    have := hb c hc
    rw [hm] at this; exact absurd this (by decide)
  · split at hb
    · rename_i hk; simpa using hk
    · split at hb
      · simp only [Bool.and_eq_true, List.all_eq_true, beq_iff_eq] at hb
        have := (hb.2 c hc).1
        rw [hm] at this; exact absurd this (by decide)
      · have : bs = [] := by simpa using hb
        subst this; cases hc

/-- … namely as its first child, and nowhere else among its children; the other children are container content. -/
theorem grammar_item_shape {l : PLabel} {bs : List PB} {is : List Tree} (hk : l.kind = BK.listItem)
    (h : localOK l bs is = true) :
    is = [] ∧ isDelimChar l.char = true ∧
    ∃ m rest, bs = m :: rest ∧ m.kind = BK.listMarker ∧ ∀ c ∈ rest, cck c.kind = true ∧ c.kind ≠ BK.listMarker := by
  obtain ⟨hb, hi⟩ := (localOK_iff l bs is).1 h
  unfold blocksOK at hb
  unfold inlinesOK at hi
  rw [hk] at hb hi
  simp only [BK.listItem, BK.document, BK.blockQuote, Nat.reduceBEq, Bool.or_self, Bool.false_eq_true, if_false, if_true,
    Bool.and_eq_true, Bool.or_true, Bool.true_or] at hb hi
  refine ⟨by simpa using hi, hb.1, ?_⟩
  cases bs with
  | nil => simp [itemKids] at hb
  | cons m rest =>
    refine ⟨m, rest, rfl, ?_, ?_⟩
    · have := hb.2; simp only [itemKids, Bool.and_eq_true, beq_iff_eq] at this; exact this.1
    · intro c hc
      have := hb.2; simp only [itemKids, Bool.and_eq_true, beq_iff_eq, List.all_eq_true] at this
      have hcc := this.2 c hc
      refine ⟨hcc, ?_⟩
      intro hm; rw [hm] at hcc; revert hcc; decide

/-- A list contains only list items (at least one) with the list's delimiter, one of `- + * . )`. -/
theorem grammar_list_shape {l : PLabel} {bs : List PB} {is : List Tree} (hk : l.kind = BK.list)
    (h : localOK l bs is = true) :
    is = [] ∧ isDelimChar l.char = true ∧ bs ≠ [] ∧ ∀ c ∈ bs, c.kind = BK.listItem ∧ c.label.char = l.char := by
  obtain ⟨hb, hi⟩ := (localOK_iff l bs is).1 h
  unfold blocksOK at hb
  unfold inlinesOK at hi
  rw [hk] at hb hi
  simp only [BK.listItem, BK.list, BK.document, BK.blockQuote, Nat.reduceBEq, Bool.or_self, Bool.false_eq_true, if_false, if_true,
    Bool.and_eq_true, Bool.or_true, Bool.true_or, List.all_eq_true, beq_iff_eq] at hb hi
  refine ⟨by simpa using hi, hb.1.1, ?_, hb.2⟩
  intro hnil; rw [hnil] at hb; simp at hb

/-- Documents and block quotes contain only container content. -/
theorem grammar_container_shape {l : PLabel} {bs : List PB} {is : List Tree}
    (hk : l.kind = BK.document ∨ l.kind = BK.blockQuote) (h : localOK l bs is = true) :
    is = [] ∧ ∀ c ∈ bs, cck c.kind = true := by
  obtain ⟨hb, hi⟩ := (localOK_iff l bs is).1 h
  unfold blocksOK at hb
  unfold inlinesOK at hi
  rcases hk with hk | hk <;> rw [hk] at hb hi <;>
    simp only [BK.listItem, BK.list, BK.document, BK.blockQuote, Nat.reduceBEq, Bool.or_self, Bool.false_eq_true, if_false, if_true,
      Bool.and_eq_true, Bool.or_true, Bool.true_or, Bool.or_false, List.all_eq_true, beq_iff_eq] at hb hi <;>
    exact ⟨by simpa using hi, hb⟩

/-- Attribute ranges. -/
theorem grammar_attrs {l : PLabel} {bs : List PB} {is : List Tree} (h : localOK l bs is = true) :
    (l.kind = BK.atxHeading → 1 ≤ l.n ∧ l.n ≤ 6) ∧
    (l.kind = BK.setextHeading → 1 ≤ l.n ∧ l.n ≤ 2) ∧
    (l.kind = BK.fencedCode → 3 ≤ l.n ∧ (l.char = 0x60 ∨ l.char = 0x7E)) ∧
    (l.kind = BK.htmlBlock → 0 ≤ l.n ∧ l.n ≤ 6) := by
  have hi := ((localOK_iff l bs is).1 h).2
  unfold inlinesOK at hi
  refine ⟨?_, ?_, ?_, ?_⟩ <;> intro hk <;> rw [hk] at hi <;>
    simp only [BK.paragraph, BK.thematicBreak, BK.atxHeading, BK.setextHeading, BK.indentedCode, BK.fencedCode, BK.htmlBlock,
      BK.listItem, BK.list, BK.listMarker, BK.document, BK.blockQuote, Nat.reduceBEq, Bool.or_self, Bool.false_eq_true,
      if_false, if_true, Bool.and_eq_true, decide_eq_true_eq, Bool.or_eq_true, beq_iff_eq] at hi
  · exact ⟨hi.1.2, hi.2⟩
  · exact ⟨hi.1.2, hi.2⟩
  · exact ⟨hi.1.2, hi.2⟩
  · exact ⟨hi.1.2, hi.2⟩

/-- Inline children of the leaf blocks. -/
theorem grammar_leaf_inlines {l : PLabel} {bs : List PB} {is : List Tree} (h : localOK l bs is = true) :
    ((l.kind = BK.paragraph ∨ l.kind = BK.atxHeading ∨ l.kind = BK.setextHeading) → ∀ t ∈ is, inl [IK.unparsed, IK.indent] t = true) ∧
    ((l.kind = BK.thematicBreak ∨ l.kind = BK.listMarker) → bs = [] ∧ is = []) ∧
    (l.kind = BK.indentedCode → ∀ t ∈ is, inl [IK.text, IK.indent, IK.softBreak] t = true) ∧
    (l.kind = BK.fencedCode → fencedKids is = true) ∧
    (l.kind = BK.htmlBlock → ∀ t ∈ is, inl [IK.rawHTML, IK.indent] t = true) ∧
    (l.kind = BK.linkRefDef → refDefKids is = true) := by
  obtain ⟨hb, hi⟩ := (localOK_iff l bs is).1 h
  unfold inlinesOK at hi
  unfold blocksOK at hb
  refine ⟨?_, ?_, ?_, ?_, ?_, ?_⟩
  · intro hk
    rcases hk with hk | hk | hk <;> rw [hk] at hi <;>
      simp only [BK.paragraph, BK.thematicBreak, BK.atxHeading, BK.setextHeading, BK.indentedCode, BK.fencedCode, BK.htmlBlock,
        BK.listItem, BK.list, BK.listMarker, BK.document, BK.blockQuote, Nat.reduceBEq, Bool.or_self, Bool.false_eq_true,
        if_false, if_true, Bool.and_eq_true, List.all_eq_true] at hi
    · exact hi
    · exact hi.1.1
    · exact hi.1.1
  · intro hk
    rcases hk with hk | hk <;> rw [hk] at hi hb <;>
      simp only [BK.paragraph, BK.thematicBreak, BK.atxHeading, BK.setextHeading, BK.indentedCode, BK.fencedCode, BK.htmlBlock,
        BK.listItem, BK.list, BK.listMarker, BK.document, BK.blockQuote, Nat.reduceBEq, Bool.or_self, Bool.false_eq_true,
        if_false, if_true, Bool.or_true, Bool.true_or] at hi hb <;>
      exact ⟨by simpa using hb, by simpa using hi⟩
  · intro hk; rw [hk] at hi
    simp only [BK.paragraph, BK.thematicBreak, BK.atxHeading, BK.setextHeading, BK.indentedCode, BK.fencedCode, BK.htmlBlock,
      BK.listItem, BK.list, BK.listMarker, BK.document, BK.blockQuote, Nat.reduceBEq, Bool.or_self, Bool.false_eq_true,
      if_false, if_true, List.all_eq_true] at hi
    exact hi
  · intro hk; rw [hk] at hi
    simp only [BK.paragraph, BK.thematicBreak, BK.atxHeading, BK.setextHeading, BK.indentedCode, BK.fencedCode, BK.htmlBlock,
      BK.listItem, BK.list, BK.listMarker, BK.document, BK.blockQuote, Nat.reduceBEq, Bool.or_self, Bool.false_eq_true,
      if_false, if_true, Bool.and_eq_true] at hi
    exact hi.1.1
  · intro hk; rw [hk] at hi
    simp only [BK.paragraph, BK.thematicBreak, BK.atxHeading, BK.setextHeading, BK.indentedCode, BK.fencedCode, BK.htmlBlock,
      BK.listItem, BK.list, BK.listMarker, BK.document, BK.blockQuote, Nat.reduceBEq, Bool.or_self, Bool.false_eq_true,
      if_false, if_true, Bool.and_eq_true, List.all_eq_true] at hi
    exact hi.1.1
  · intro hk; rw [hk] at hi
    simp only [BK.paragraph, BK.thematicBreak, BK.atxHeading, BK.setextHeading, BK.indentedCode, BK.fencedCode, BK.htmlBlock,
      BK.linkRefDef, BK.listItem, BK.list, BK.listMarker, BK.document, BK.blockQuote, Nat.reduceBEq, Bool.or_self, Bool.false_eq_true,
      if_false, if_true] at hi
    exact hi

/-- All blocks of a tree (pre-order). -/
def pbNodes : PB → List PB
  | .mk l bs is => .mk l bs is :: pbNodesL bs
where
  pbNodesL : List PB → List PB
    | [] => []
    | b :: bs => pbNodes b ++ pbNodesL bs

theorem mem_pbNodesL {c : PB} : ∀ {bs : List PB}, c ∈ pbNodes.pbNodesL bs → ∃ b ∈ bs, c ∈ pbNodes b := by
  intro bs
  induction bs with
  | nil => intro h; simp [pbNodes.pbNodesL] at h
  | cons b rest ih =>
    intro h
    rw [pbNodes.pbNodesL, List.mem_append] at h
    rcases h with h | h
    · exact ⟨b, List.mem_cons_self .., h⟩
    · obtain ⟨b', hb', hc⟩ := ih h
      exact ⟨b', List.mem_cons_of_mem _ hb', hc⟩

/-- **The grammar holds at every block of the tree.** -/
theorem PBGrammar_nodes : ∀ b : PB, PBGrammar b → ∀ c ∈ pbNodes b, localOK c.label c.blocks c.inlines = true := by
  apply PB.ind
  intro l bs is ih h c hc
  rw [pbNodes, List.mem_cons] at hc
  rcases hc with rfl | hc
  · exact ((PBGrammar_mk l bs is).1 h).1
  · obtain ⟨b, hb, hcb⟩ := mem_pbNodesL hc
    exact ih b hb (((PBGrammar_mk l bs is).1 h).2 b hb) c hcb

end BG

/-! ### the invariant from line to line -/

/-- What is preserved from one line to the next: no panic, the root is the document block, **the grammar**. -/
structure LPG (p : LP) : Prop where
  panic : p.panic = none
  root : p.root.kind = BK.document
  g : PBGrammar p.root

theorem LPG.toLPInv' {p : LP} (h : LPG p) : LPInv' p := ⟨h.panic, h.root⟩

theorem reset_root (p : LP) (source : Bytes) (lineStart : Nat) : (p.reset source lineStart).root = p.root := by
  unfold LP.reset
  exact (updateTab_root _).1

theorem reset_GI (p : LP) (h : LPG p) (source : Bytes) (lineStart : Nat) : GI (p.reset source lineStart) :=
  ⟨(reset_LPInv p h.toLPInv' source lineStart).toInv, by rw [reset_root]; exact h.g⟩

/-- **`PBGrammar` is an invariant of `processLine`.** -/
theorem processLine_grammar (x : PExt) (p : LP) (hinv : LPInv p) (hg : PBGrammar p.root) :
    PBGrammar (processLine x p).root :=
  (processLine_G x p ⟨hinv.toInv, hg⟩).g

theorem blocksLP_line_LPG (x : PExt) (lp : LP) (h : LPG lp) (source : Bytes) (lineStart : Nat) :
    LPG ((blocksLP x).line lp source lineStart) := by
  have r := processLine_G x _ (reset_GI lp h source lineStart)
  exact ⟨r.inv.panic, r.inv.tree.root, r.g⟩

/-- Pending blocks: each satisfies the grammar and may be a child of the document. -/
def KidsOK (bs : List PB) : Prop := ∀ b ∈ bs, PBGrammar b ∧ cck b.kind = true

theorem docRoot_G (bs : List PB) (h : KidsOK bs) : PBGrammar (docRoot bs) := by
  unfold docRoot
  rw [PBGrammar_mk]
  refine ⟨?_, fun b hb => (h b hb).1⟩
  rw [localOK_iff]
  refine ⟨?_, rfl⟩
  unfold blocksOK
  rw [if_pos (by rfl), List.all_eq_true]
  exact fun b hb => (h b hb).2

theorem kids_of_doc (b : PB) (hk : b.kind = BK.document) (h : PBGrammar b) : KidsOK b.blocks := by
  obtain ⟨l, bs, is⟩ := b
  intro c hc
  have hloc := ((PBGrammar_mk l bs is).1 h)
  exact ⟨hloc.2 c hc, (grammar_container_shape (Or.inl hk) hloc.1).2 c hc⟩

theorem new_LPG (x : PExt) (bs : List PB) (h : KidsOK bs) : LPG ((blocksLP x).new bs) := ⟨rfl, rfl, docRoot_G bs h⟩

theorem feedLines_LPG (x : PExt) (lines : List (Bytes × Nat)) : ∀ lp : LP, LPG lp → LPG (feedLines x lp lines) := by
  induction lines with
  | nil => intro lp h; exact h
  | cons l rest ih => intro lp h; exact ih _ (blocksLP_line_LPG x lp h l.1 l.2)

/-- **Along any sequence of lines from the empty document the tree obeys the grammar** (any sources, any line starts). -/
theorem blocksLP_grammar (x : PExt) (lines : List (Bytes × Nat)) :
    PBGrammar (feedLines x ((blocksLP x).new []) lines).root :=
  (feedLines_LPG x lines _ (new_LPG x [] (fun _ h => by cases h))).g

/-! ### the stream machine -/

theorem KidsOK_offsetPBs (n : Int) (bs : List PB) (h : KidsOK bs) : KidsOK (offsetPBs n bs) := by
  intro b hb
  rw [offsetPBs_eq_map, List.mem_map] at hb
  obtain ⟨c, hc, rfl⟩ := hb
  exact ⟨PBG_offsetPB n c (h c hc).1, by rw [(offsetPB_label n c).1]; exact (h c hc).2⟩

theorem makeRoot_G {p : BP} {kids : List PB} {r : Root} {p' : BP} (h : makeRoot p kids = some (r, p'))
    (hk : KidsOK kids) : (PBGrammar r.block ∧ cck r.block.kind = true) ∧ KidsOK p'.blocks := by
  unfold makeRoot at h
  split at h
  · cases h
  · rename_i k rest
    split at h
    · cases h
    · simp only [Option.some.injEq, Prod.mk.injEq] at h
      obtain ⟨rfl, rfl⟩ := h
      exact ⟨hk k (List.mem_cons_self ..), KidsOK_offsetPBs _ rest (fun b hb => hk b (List.mem_cons_of_mem _ hb))⟩

theorem parseLines_G (x : PExt) : ∀ (fuel : Nat) (lp : LP) (ls : Nat) (p : BP) (r : Root) (p' : BP), LPG lp →
    parseLines (blocksLP x) fuel lp ls p = (.block r, p') →
    (PBGrammar r.block ∧ cck r.block.kind = true) ∧ KidsOK p'.blocks := by
  intro fuel
  induction fuel with
  | zero => intro lp ls p r p' _ h; simp [parseLines] at h
  | succ fuel ih =>
    intro lp ls p r p' hlp h
    have hl := blocksLP_line_LPG x lp hlp (p.buf.take p.i) ls
    have hpan : (blocksLP x).panicked ((blocksLP x).line lp (p.buf.take p.i) ls) = none := hl.panic
    have hkids : KidsOK ((blocksLP x).kids ((blocksLP x).line lp (p.buf.take p.i) ls)) := kids_of_doc _ hl.root hl.g
    cases hmr : makeRoot p ((blocksLP x).kids ((blocksLP x).line lp (p.buf.take p.i) ls)) with
    | some rp =>
      obtain ⟨r0, p0⟩ := rp
      simp only [parseLines, hpan, hmr, Prod.mk.injEq, NBOut.block.injEq] at h
      obtain ⟨rfl, rfl⟩ := h
      exact makeRoot_G hmr hkids
    | none =>
      simp only [parseLines, hpan, hmr] at h
      exact ih _ _ _ r p' hl h

theorem skipBlank_blocks : ∀ (f : Nat) (p q rest : BP), skipBlank f p = (some q, rest) → q.blocks = p.blocks := by
  intro f
  induction f with
  | zero => intro p q rest h; simp [skipBlank] at h
  | succ f ih =>
    intro p q rest h
    unfold skipBlank at h
    have hb := readline_blocks (p.rd.data.length + p.rd.sched.length + 2) p
    generalize readline (p.rd.data.length + p.rd.sched.length + 2) p = rl at h hb
    obtain ⟨ok, p1⟩ := rl
    simp only [] at h hb
    split at h
    · simp at h
    · split at h
      · simp only [Prod.mk.injEq, Option.some.injEq] at h
        rw [← h.1]; exact hb
      · have := ih _ q rest h
        rw [this]; exact hb

/-- One `NextBlock`: the delivered root satisfies the grammar, and so do the blocks left pending. -/
theorem nextBlock_G (x : PExt) (p : BP) (r : Root) (p' : BP) (hk : KidsOK p.blocks)
    (h : nextBlock (blocksLP x) p = (.block r, p')) :
    (PBGrammar r.block ∧ cck r.block.kind = true) ∧ KidsOK p'.blocks := by
  unfold nextBlock at h
  split at h
  · rename_i r0 p0 hmr
    simp only [Prod.mk.injEq, NBOut.block.injEq] at h
    obtain ⟨rfl, rfl⟩ := h
    exact makeRoot_G hmr hk
  · simp only [] at h
    split at h
    · have hb := readline_blocks (p.rd.data.length + p.rd.sched.length + 2) p
      generalize readline (p.rd.data.length + p.rd.sched.length + 2) p = rl at h hb
      obtain ⟨ok, p1⟩ := rl
      simp only [] at h hb
      exact parseLines_G x _ _ _ _ r p' (new_LPG x _ (by rw [hb]; exact hk)) h
    · split at h
      · split at h
        · simp at h
        · simp at h
      · rename_i q _ hsb
        have hq := skipBlank_blocks _ _ q _ hsb
        exact parseLines_G x _ _ _ _ r p' (new_LPG x _ (by rw [hq]; exact hk)) h

theorem drain_G (x : PExt) : ∀ (fuel : Nat) (p : BP) (acc : List Root), KidsOK p.blocks →
    (∀ r ∈ acc, PBGrammar r.block ∧ cck r.block.kind = true) →
    ∀ r ∈ (drain (blocksLP x) fuel p acc).1, PBGrammar r.block ∧ cck r.block.kind = true := by
  intro fuel
  induction fuel with
  | zero =>
    intro p acc _ hacc r hr
    simp only [drain, List.mem_reverse] at hr
    exact hacc r hr
  | succ fuel ih =>
    intro p acc hk hacc r hr
    unfold drain at hr
    split at hr
    · rename_i r0 p0 hnb
      have g := nextBlock_G x p r0 p0 hk hnb
      apply ih p0 (r0 :: acc) g.2 _ r hr
      intro r' hr'
      rcases List.mem_cons.1 hr' with rfl | hr'
      · exact g.1
      · exact hacc r' hr'
    · simp only [List.mem_reverse] at hr
      exact hacc r hr

/-- **Every block of every `Root` delivered by the stream machine over the block-phase line parser obeys the node
    grammar**, and every root is of a container-content kind — from any parser state whose pending blocks do. -/
theorem drain_grammar (x : PExt) (fuel : Nat) (p : BP) (hp : KidsOK p.blocks) :
    ∀ r ∈ (drain (blocksLP x) fuel p []).1, PBGrammar r.block ∧ cck r.block.kind = true :=
  drain_G x fuel p [] hp (fun _ h => by cases h)

/-- `Parse` (the whole input in the buffer). -/
theorem drain_grammar_mem (x : PExt) (fuel : Nat) (source : Bytes) :
    ∀ r ∈ (drain (blocksLP x) fuel (memParser source) []).1, PBGrammar r.block ∧ cck r.block.kind = true :=
  drain_grammar x fuel _ (fun _ h => by cases h)

/-- `NewBlockParser(r)` (streaming, any reader script). -/
theorem drain_grammar_stream (x : PExt) (fuel : Nat) (rd : Reader) :
    ∀ r ∈ (drain (blocksLP x) fuel (newBlockParser rd) []).1, PBGrammar r.block ∧ cck r.block.kind = true :=
  drain_grammar x fuel _ (fun _ h => by cases h)

/-- … spelled out: the local rule holds at every block of every delivered root. -/
theorem drain_grammar_nodes (x : PExt) (fuel : Nat) (p : BP) (hp : KidsOK p.blocks) :
    ∀ r ∈ (drain (blocksLP x) fuel p []).1, ∀ c ∈ pbNodes r.block, localOK c.label c.blocks c.inlines = true :=
  fun r hr => PBGrammar_nodes r.block (drain_grammar x fuel p hp r hr).1

/-- `IsOrderedList` of the delivered tree is a function of the delimiter: a list (item) is ordered iff its delimiter is
    `.` or `)`; a list and its items agree (same `char`, `grammar_list_shape`). -/
theorem isOrderedList_pbToTree (b : PB) :
    Node.isOrderedList (some (pbToTree b)) = (b.label.char == 0x2E || b.label.char == 0x29) := by
  obtain ⟨l, bs, is⟩ := b
  rfl

/-! ### Non-vacuity (more evaluations: `BlocksGrammarExamples.lean`) -/

section Examples

/-- The hypotheses of `processLine_grammar` are satisfiable on a non-trivial input (`btP`: the first line of `btSrc`). -/
example : LPInv btP ∧ PBGrammar btP.root := ⟨reset_LPInv _ (new_LPInv' btX []) _ _, by decide +kernel⟩
example : PBGrammar (processLine btX btP).root := processLine_grammar btX btP (reset_LPInv _ (new_LPInv' btX []) _ _) (by decide +kernel)
-- after five lines (open fenced code block at the end)
example : PBGrammar btEnd.root := blocksLP_grammar btX _
example : pbGrammar btEnd.root = true := by decide +kernel

/- The predicate is not trivially true: a list marker directly in the document, a list item without marker, a
   paragraph with a block child, an ATX heading of level 7 are rejected. -/
example : pbGrammar (docRoot [.mk { kind := BK.listMarker, start := 0 } [] []]) = false := by decide +kernel
example : pbGrammar (.mk { kind := BK.listItem, start := 0, char := 0x2D } [.mk { kind := BK.paragraph, start := 0 } [] []] []) = false := by
  decide +kernel
example : pbGrammar (.mk { kind := BK.paragraph, start := 0 } [.mk { kind := BK.paragraph, start := 0 } [] []] []) = false := by
  decide +kernel
example : pbGrammar (.mk { kind := BK.atxHeading, start := 0, n := 7 } [] []) = false := by decide +kernel

end Examples

end CM.Proofs
