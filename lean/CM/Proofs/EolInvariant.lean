import CM.Proofs.EolHtml
import CM.Proofs.EolLines
/-
C14 (a)/(c), recognizer and stream level — the two summary theorems.

* `recognizer_eol_invariant`: the five line recognizers, `isBlankLine`, `indentLength`, `hasTabOrSpacePrefixOrEOL`
  and the HTML block start conditions 1–6 return EXACTLY the same value on `l`, `l ++ [LF]`, `l ++ [CR, LF]`,
  `l ++ [CR]` (on `l ++ e` for every `e` made of CR/LF bytes): no result field is a position in or after the line
  ending (an ATX heading's content end precedes the trailing blanks, a fence's info string is trimmed, a thematic
  break's end is after its last marker, a list marker's end is after the delimiter).
  The HTML block end conditions agree on the three non-empty endings (`htmlBlockEnd_eol_invariant`); on a line WITHOUT
  a line ending they can miss a match at the very end of the line (`htmlBlockEnd_final_newline_target_false`).
* `lines_crlf`, `lines_cr`: the stream machine splits the re-written input into the re-written lines; `lineCount` is
  unchanged.
-/
namespace CM.Proofs
open CM CM.Model CM.Gen

/-- **`recognizer_eol_invariant`.** -/
theorem recognizer_eol_invariant (l e : Bytes) (he : EolBytes e) :
    parseThematicBreak (l ++ e) = parseThematicBreak l ∧
    parseATXHeading (l ++ e) = parseATXHeading l ∧
    parseSetextHeadingUnderline (l ++ e) = parseSetextHeadingUnderline l ∧
    parseCodeFence (l ++ e) = parseCodeFence l ∧
    parseListMarker (l ++ e) = parseListMarker l ∧
    isBlankLine (l ++ e) = isBlankLine l ∧
    indentLength (l ++ e) = indentLength l ∧
    hasTabOrSpacePrefixOrEOL (l ++ e) = hasTabOrSpacePrefixOrEOL l ∧
    (∀ i, i ≠ 6 → htmlBlockStart i (l ++ e) = htmlBlockStart i l) :=
  ⟨parseThematicBreak_append_eol l he, parseATXHeading_append_eol l he, parseSetextHeadingUnderline_append_eol l he,
    parseCodeFence_append_eol l he, parseListMarker_append_eol l he, isBlankLine_append_eol l he,
    indentLength_append_eol l he, hasTabOrSpacePrefixOrEOL_append_eol l he,
    fun i hi => htmlBlockStart_append_eol i hi l he⟩

/-- The four forms of a line: no ending (last line of an input without final newline), LF, CRLF, CR. -/
theorem eolBytes_forms : EolBytes [] ∧ EolBytes [LF] ∧ EolBytes [CR, LF] ∧ EolBytes [CR] :=
  ⟨eolBytes_nil, eolBytes_LF, eolBytes_CRLF, eolBytes_CR⟩

/-- Clause (a) for the HTML block end conditions: the three line endings give the same answer. -/
theorem htmlBlockEnd_eol_invariant (i : Nat) (l : Bytes) :
    htmlBlockEnd i (l ++ [CR, LF]) = htmlBlockEnd i (l ++ [LF]) ∧ htmlBlockEnd i (l ++ [CR]) = htmlBlockEnd i (l ++ [LF]) := by
  rw [htmlBlockEnd_append_eol i l eolBytes_CRLF (by simp), htmlBlockEnd_append_eol i l eolBytes_LF (by simp),
    htmlBlockEnd_append_eol i l eolBytes_CR (by simp)]
  exact ⟨rfl, rfl⟩

/-- **`lines_crlf`** (and CR-only): line splitting and line counting commute with re-writing the line endings. -/
theorem lines_crlf (x : Bytes) (hx : NoCR x) :
    lines (toCRLF x) = (lines x).map toCRLF ∧ lineCount (toCRLF x) = lineCount x :=
  ⟨lines_toCRLF x hx, lineCount_toEol (Or.inr (Or.inr rfl)) x hx⟩

theorem lines_cr (x : Bytes) (hx : NoCR x) :
    lines (toCR x) = (lines x).map toCR ∧ lineCount (toCR x) = lineCount x :=
  ⟨lines_toCR x hx, lineCount_toEol (Or.inr (Or.inl rfl)) x hx⟩

/-! ### Non-vacuity -/

/-- `## foo ## ` + CRLF: an ATX heading with a closing sequence and trailing blanks; content `[3, 6)` in all four forms. -/
example : parseATXHeading [0x23, 0x23, 0x20, 0x66, 0x6F, 0x6F, 0x20, 0x23, 0x23, 0x20] = ⟨2, 3, 6⟩ ∧
    parseATXHeading [0x23, 0x23, 0x20, 0x66, 0x6F, 0x6F, 0x20, 0x23, 0x23, 0x20, CR, LF] = ⟨2, 3, 6⟩ := by decide +kernel

/-- "```` go ```` " with an info string: `[4, 6)` whatever the ending. -/
example : parseCodeFence [0x60, 0x60, 0x60, 0x20, 0x67, 0x6F, 0x20, CR] = ⟨0x60, 3, 4, 6⟩ ∧
    parseCodeFence [0x60, 0x60, 0x60, 0x20, 0x67, 0x6F, 0x20] = ⟨0x60, 3, 4, 6⟩ := by decide +kernel

example : NoCR [0x61, LF, LF, 0x62] ∧ lines (toCRLF [0x61, LF, LF, 0x62]) = [[0x61, CR, LF], [CR, LF], [0x62]] := by
  decide +kernel

end CM.Proofs
