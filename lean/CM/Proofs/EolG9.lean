import CM.Proofs.EolG8
/-
C14 (a), block phase with link reference definitions — part 9: `openNewBlocks`, `addLineText`, and **one line through the
line parser** under the invariant `LG` (`processLineG`).
-/
namespace CM.Proofs.EolG
open CM CM.Model CM.Gen CM.Proofs CM.Proofs.RDS CM.Proofs.BSp CM.Proofs.ERd CM.Proofs.BG CM.Proofs.BT CM.Proofs.EolX

section
variable {x : PExt} {e X body nl : Bytes} {k : Nat} {bd : Int} {p : LP}

theorem openNewBlocksG (he : StdEol e) (hbd : bd ≤ (((X.take k).length - (body ++ nl).length : Nat) : Int)) (h : BT.Inv p)
    (hg : LG e X body nl k bd p) (allMatched : Bool) :
    openNewBlocks x (mapLP e X p) allMatched =
      ((openNewBlocks x p allMatched).1, mapLP e X (openNewBlocks x p allMatched).2) ∧
      LG e X body nl k bd (openNewBlocks x p allMatched).2 := by
  have hl := hg.ok
  unfold openNewBlocks
  rw [mapLP_line, isEmpty_toEol he]
  by_cases c0 : p.line.isEmpty = true
  · rw [if_pos c0, if_pos c0]
    have hg0 : LG e X body nl k bd { p with depth := 0 } := hg.setDepth 0
    obtain ⟨this, hg1⟩ := closeContainerG x hg0 he (p.lineStart : Int) (Int.natCast_nonneg _)
    rw [eolPosZ_ofNat] at this
    exact ⟨by rw [← this]; rfl, hg1⟩
  · rw [if_neg c0, if_neg c0]
    have hfuel : openingLoop x ((toEol e p.line).length + 8) p = openingLoop x (p.line.length + 8) p := by
      have := length_toEol_ge e (stdEol_ne_nil he) p.line
      exact (openingLoop_fuel_adequate x p h _ (by omega)).symm
    obtain ⟨a1, a2⟩ := openingLoopG (x := x) he hbd ((toEol e p.line).length + 8) p h hg
    rw [hfuel] at a1 a2
    rw [a1]
    generalize openingLoop x (p.line.length + 8) p = r at a2
    obtain ⟨hasText, q⟩ := r
    simp only [] at a2 ⊢
    cases allMatched with
    | true => exact ⟨rfl, a2⟩
    | false =>
      simp only [Bool.false_eq_true, if_false]
      have htip : tipDepth (mapLP e X q).root 0 = tipDepth q.root 0 := by
        rw [mapLP_root, tipDepth_map (signOK_eolPosZ e X)]
      have hcond : (!(mapLP e X q).isRestBlank &&
          ((spineGet (mapLP e X q).root (tipDepth (mapLP e X q).root 0)).getD (mapLP e X q).root).kind == BK.paragraph) =
          (!q.isRestBlank && ((spineGet q.root (tipDepth q.root 0)).getD q.root).kind == BK.paragraph) := by
        rw [htip, mapLP_isRestBlank a2.ok he, mapLP_root, spineGet_map]
        cases spineGet q.root (tipDepth q.root 0) <;> simp [mapPB_kind]
      by_cases c1 : (!q.isRestBlank && ((spineGet q.root (tipDepth q.root 0)).getD q.root).kind == BK.paragraph) = true
      · have c1' := c1; rw [← hcond] at c1'
        rw [if_pos c1', if_pos c1, htip]
        exact ⟨rfl, a2.setDepth _⟩
      · have c1' := c1; rw [← hcond] at c1'
        rw [if_neg c1', if_neg c1]
        obtain ⟨this, hg1⟩ := closeLastChildG x a2 he (q.lineStart : Int) (Int.natCast_nonneg _)
        rw [eolPosZ_ofNat] at this
        exact ⟨by rw [← this]; rfl, hg1⟩

/-! ### addLineText -/

theorem consumeIndentN_root (p : LP) (n : Nat) : (p.consumeIndentN n).root = p.root :=
  (consumeIndent_root_source (n + 1) p n).1

theorem LG.altBlank (hg : LG e X body nl k bd p) : LG e X body nl k bd (BT.altBlank p) := by
  unfold CM.Proofs.BT.altBlank
  split
  · refine ⟨hg.ok.frame rfl rfl rfl hg.ok.hi, hg.src, ?_, ?_⟩
    · show FineT e X k bd (spineModify _ p.root p.depth)
      apply fineT_spineModify _ _ _ _ hg.fine
      intro c hc
      obtain ⟨l, bs, is⟩ := c
      simp only []
      cases hgl : bs.getLast? with
      | none => exact hc
      | some c' =>
        simp only []
        rw [FineT_mk] at hc ⊢
        refine ⟨hc.1, ?_⟩
        intro b' hb'
        rcases mem_dropLast_append hb' with h1 | h1
        · exact hc.2 b' h1
        · simp only [List.mem_singleton] at h1
          subst h1
          exact FineT_setLabel (f := fun cl => { cl with lastLineBlank := true }) (fun _ => rfl) (fun _ => rfl)
            (hc.2 c' (List.mem_of_getLast? hgl))
    · show XT (X.take k) (spineModify _ p.root p.depth)
      apply xt_spineModify _ _ _ _ hg.xt
      intro c hc
      obtain ⟨l, bs, is⟩ := c
      simp only []
      cases hgl : bs.getLast? with
      | none => exact hc
      | some c' =>
        simp only []
        rw [XT_mk] at hc ⊢
        refine ⟨hc.1, ?_⟩
        intro b' hb'
        rcases mem_dropLast_append hb' with h1 | h1
        · exact hc.2 b' h1
        · simp only [List.mem_singleton] at h1
          subst h1
          exact XT_setLabel (f := fun cl => { cl with lastLineBlank := true }) (fun _ => Or.inl rfl)
            (hc.2 c' (List.mem_of_getLast? hgl))
  · exact hg

theorem LG.altFlags (hg : LG e X body nl k bd p) (b : Bool) : LG e X body nl k bd (BT.altFlags b p) := by
  unfold CM.Proofs.BT.altFlags
  exact ⟨hg.ok.frame rfl rfl rfl hg.ok.hi, hg.src, fineT_setBlankFlags _ _ _ hg.fine, xt_setBlankFlags _ _ _ hg.xt⟩

/-- Where the text of the line goes: only the branch that opens a paragraph closes blocks. -/
theorem altContG (hg : LG e X body nl k bd p) (he : StdEol e) (b : Bool) :
    BT.altCont x b (mapLP e X p) = (BT.altCont x b p).map (mapLP e X) ∧
      ∀ q, BT.altCont x b p = some q → LineOK X body nl q ∧ XT (X.take k) q.root := by
  have hl := hg.ok
  unfold BT.altCont
  simp only []
  rw [mapLP_containerKind]
  by_cases c1 : acceptsLines p.containerKind = true
  · rw [if_pos c1, if_pos c1, tabPartial_cond hl he]
    by_cases c2 : (decide (p.i < p.line.length) && p.line.getD p.i 0 == TAB && decide (p.tabRem > 0) && p.tabPartial) = true
    · rw [if_pos c2, if_pos c2]
      simp only [Bool.and_eq_true, decide_eq_true_eq, beq_iff_eq] at c2
      obtain ⟨⟨⟨hlt, htab⟩, _⟩, _⟩ := c2
      have hb := hl.lt_body_of_tab hlt htab
      have h2 : eolPosZ e X ((p.lineStart : Int) + (p.i : Int) + 1) =
          ((mapLP e X p).lineStart : Int) + ((mapLP e X p).i : Int) + 1 := by
        have h1 : ((p.lineStart : Int) + (p.i : Int) + 1) = ((p.lineStart + (p.i + 1) : Nat) : Int) := by omega
        rw [h1, eolPosZ_ofNat, hl.abs_pos (by omega), hl.pos_body (by omega)]
        simp only [mapLP_lineStart, mapLP_i, hl.pos_body (e := e) (j := p.i) (by omega)]
        omega
      have hl2 := hl.appendInline (collectIndentNode p)
      refine ⟨?_, ?_⟩
      · show some (LP.consumeIndentN ((mapLP e X p).appendInline _) (mapLP e X p).tabRem) =
          some (mapLP e X (LP.consumeIndentN (p.appendInline (collectIndentNode p)) p.tabRem))
        rw [mapLP_tabRem, ← mapLP_consumeIndentN hl2 he, ← mapLP_appendInline]
        congr 3
        rw [collectIndentNode, mapTree, mapLP_cursor_cast hl, h2]; rfl
      · intro q hq
        simp only [Option.some.injEq] at hq
        rw [← hq]
        refine ⟨hl2.consumeIndentN he _, ?_⟩
        rw [consumeIndentN_root]
        apply xt_appendInline _ (inlOK_leaf _ (by show (p.lineStart : Int) + (p.i : Int) ≤ (p.lineStart : Int) + (p.i : Int) + 1; omega))
          _ _ hg.xt
        intro _
        right
        show (X.take k).getD ((p.lineStart : Int) + (p.i : Int)).toNat 0 = TAB
        have h1 : ((p.lineStart : Int) + (p.i : Int)).toNat = p.lineStart + p.i := by omega
        rw [h1, ← hg.src, ← htab, hl.line]
        simp only [List.getD_eq_getElem?_getD, List.getElem?_drop]
    · rw [if_neg c2, if_neg c2]
      refine ⟨rfl, ?_⟩
      intro q hq; simp only [Option.some.injEq] at hq; rw [← hq]; exact ⟨hl, hg.xt⟩
  · rw [if_neg c1, if_neg c1]
    by_cases c3 : (!b) = true
    · rw [if_pos c3, if_pos c3]
      obtain ⟨o1, hg2⟩ := openBlockG x hg he BK.paragraph id posFree_id (fun _ => rfl) (by decide)
      rw [o1]
      have hl2 := hg2.ok
      have hx2 := hg2.xt
      generalize p.openBlock x BK.paragraph id = p2 at hl2 hx2 ⊢
      rw [mapLP_indent hl2 he, mapLP_consumeIndentN hl2 he]
      refine ⟨rfl, ?_⟩
      intro q hq; simp only [Option.some.injEq] at hq; rw [← hq]
      exact ⟨hl2.consumeIndentN he _, by rw [consumeIndentN_root]; exact hx2⟩
    · rw [if_neg c3, if_neg c3]
      refine ⟨rfl, ?_⟩
      intro q hq; cases hq

theorem isIndent_mkInline_ne (kd : Nat) (a b : Int) (h : kd ≠ IK.indent) : isIndent (mkInline kd a b) = false := by
  simp [isIndent, Node.isI, mkInline, Tree.label, h]

theorem tailKind_ne (p : LP) : tailKind p ≠ IK.indent := by
  unfold tailKind
  split
  · decide
  · split <;> decide

theorem altTail_xt {src : Bytes} (hi : p.i ≤ p.line.length) (hx : XT src p.root) : XT src (BT.altTail p).root := by
  rw [altTail_eq']
  unfold altTail'
  simp only []
  have h1 : XT src (p.appendInline (mkInline (tailKind p) ((p.lineStart : Int) + (p.i : Int))
      ((p.lineStart : Int) + (p.line.length : Int)))).root := by
    apply xt_appendInline _ (inlOK_mkInline _ _ _ _ (by omega) rfl) _ _ hx
    intro hind
    rw [isIndent_mkInline_ne _ _ _ (tailKind_ne p)] at hind
    cases hind
  split
  · apply xt_appendInline _ (inlOK_mkInline _ _ _ _ (Int.le_refl _) rfl) _ _ h1
    intro hind
    rw [isIndent_mkInline_ne _ _ _ (by decide)] at hind
    cases hind
  · exact h1

theorem addLineTextG (hg : LG e X body nl k bd p) (he : StdEol e) :
    addLineText x (mapLP e X p) = mapLP e X (addLineText x p) ∧ LineOK X body nl (addLineText x p) ∧
      XT (X.take k) (addLineText x p).root := by
  have hl := hg.ok
  rw [BT.addLineText_eq, BT.addLineText_eq, mapLP_isRestBlank hl he]
  obtain ⟨a1, a2⟩ := mapLP_altBlank (e := e) hl he
  rw [a1]
  obtain ⟨b1, b2⟩ := mapLP_altFlags (e := e) a2 p.isRestBlank
  rw [b1]
  have hgB := hg.altBlank.altFlags p.isRestBlank
  generalize BT.altFlags p.isRestBlank (BT.altBlank p) = pB at b2 hgB ⊢
  obtain ⟨c1, c2⟩ := altContG (x := x) hgB he p.isRestBlank
  rw [c1]
  cases hq : BT.altCont x p.isRestBlank pB with
  | none => exact ⟨rfl, b2, hgB.xt⟩
  | some q =>
    obtain ⟨t1, t2⟩ := mapLP_altTail (e := e) (c2 q hq).1 he
    exact ⟨t1, t2, altTail_xt (c2 q hq).1.hi (c2 q hq).2⟩

/-! ### processLine -/

/-- **One line through the line parser**, for a tree in which every open paragraph is `ParaFineB` (and no open block is a
    setext heading): on the re-written state `processLine` gives the re-written result. -/
theorem processLineG (he : StdEol e) (hbd : bd ≤ (((X.take k).length - (body ++ nl).length : Nat) : Int)) (h : BT.Inv p)
    (hg : LG e X body nl k bd p) :
    processLine x (mapLP e X p) = mapLP e X (processLine x p) ∧ LineOK X body nl (processLine x p) ∧
      XT (X.take k) (processLine x p).root := by
  unfold processLine
  obtain ⟨d1, d2⟩ := descendOpenBlocksG (x := x) he p (h.setDepth 0 (Nat.zero_le _)) hg
  have dinv := descendOpenBlocks_inv x p h
  rw [d1]
  generalize descendOpenBlocks x p = r at d2 dinv
  obtain ⟨allMatched, p1⟩ := r
  simp only [] at d2 dinv ⊢
  by_cases c : (p1.state == stateDescendTerminated) = true
  · have c' : ((mapLP e X p1).state == stateDescendTerminated) = true := c
    rw [if_pos c', if_pos c]; exact ⟨rfl, d2.ok, d2.xt⟩
  · have c' : ¬ ((mapLP e X p1).state == stateDescendTerminated) = true := c
    rw [if_neg c', if_neg c]
    obtain ⟨o1, o2⟩ := openNewBlocksG (x := x) he hbd dinv d2 allMatched
    rw [o1]
    generalize openNewBlocks x p1 allMatched = r at o2
    obtain ⟨hasText, p2⟩ := r
    simp only [] at o2 ⊢
    cases hasText with
    | true => exact addLineTextG o2 he
    | false => exact ⟨rfl, o2.ok, o2.xt⟩

end

end CM.Proofs.EolG
