import CM.Model.FormatDoc
import CM.Proofs.Format
import CM.Spec.WalkSpec
/-
Format(w, blocks): the writer's error discipline lifted through the callbacks and the Walk.
Every byte the callbacks emit goes through `Prog.s/push/pop`, i.e. through `fwS/fwPush/fwPop`; the lemmas are
therefore proved once for `Prog.run` (by induction on the program) and once for `walkLoop`.
-/
namespace CM.Proofs.FormatDoc
open CM CM.Model CM.Model.Fmt CM.Proofs

/-! ## A. Scripted writer: `failAt` is constant, the log only grows -/

theorem write_failAt (w : ScriptW) (s : Bytes) : (w.write s).1.failAt = w.failAt := rfl

theorem write_log (w : ScriptW) (s : Bytes) : (w.write s).1.log = w.log ++ [s] := rfl

theorem writeStrings_failAt (w : ScriptW) (l : List Bytes) : (writeStrings w l).1.failAt = w.failAt := by
  induction l generalizing w with
  | nil => rfl
  | cons x xs ih =>
    simp only [writeStrings]
    split
    · rfl
    · rw [ih]; rfl

theorem writeTrimmedIndent_failAt (w : ScriptW) (ind : List Bytes) :
    (writeTrimmedIndent w ind).1.failAt = w.failAt := by
  unfold writeTrimmedIndent
  split
  · rfl
  · simp only
    split
    · exact writeStrings_failAt _ _
    · simp only [ScriptW.write]; exact writeStrings_failAt _ _

theorem writeStrings_mono (w : ScriptW) (l : List Bytes) : w.log <+: (writeStrings w l).1.log := by
  induction l generalizing w with
  | nil => exact List.prefix_refl _
  | cons x xs ih =>
    simp only [writeStrings]
    split
    · exact List.prefix_append _ _
    · exact List.IsPrefix.trans (List.prefix_append _ _) (ih (w.write x).1)

theorem writeTrimmedIndent_mono (w : ScriptW) (ind : List Bytes) :
    w.log <+: (writeTrimmedIndent w ind).1.log := by
  unfold writeTrimmedIndent
  split
  · exact List.prefix_refl _
  · simp only
    split
    · exact writeStrings_mono _ _
    · exact List.IsPrefix.trans (writeStrings_mono _ _) (List.prefix_append _ _)

/-- The optional indent of a non-blank line. -/
def optIndent (fw : FW) : ScriptW × Bool :=
  if (!fw.startedLine) = true then writeStrings fw.w fw.indents else (fw.w, false)

theorem optIndent_mono (fw : FW) : fw.w.log <+: (optIndent fw).1.log := by
  unfold optIndent; split
  · exact writeStrings_mono _ _
  · exact List.prefix_refl _

theorem optIndent_failAt (fw : FW) : (optIndent fw).1.failAt = fw.w.failAt := by
  unfold optIndent; split
  · exact writeStrings_failAt _ _
  · rfl

set_option linter.unusedSimpArgs false in
theorem fwLoop_failAt (fuel : Nat) (fw : FW) (s : Bytes) : (fwLoop fuel fw s).w.failAt = fw.w.failAt := by
  fun_induction fwLoop fuel fw s <;> (try simp_all +zetaDelta [ScriptW.write, writeTrimmedIndent_failAt, writeStrings_failAt]) <;> (try split) <;> (try simp_all +zetaDelta [ScriptW.write, writeStrings_failAt])

theorem fwLoop_mono (fuel : Nat) (fw : FW) (s : Bytes) : fw.w.log <+: (fwLoop fuel fw s).w.log := by
  induction fuel generalizing fw s with
  | zero => exact List.prefix_refl _
  | succ f ih =>
    simp only [fwLoop]
    split
    · rename_i ln rest _
      split
      · have h1 := writeTrimmedIndent_mono fw.w fw.indents
        split
        · exact h1
        · have h2 : (writeTrimmedIndent fw.w fw.indents).1.log <+: ((writeTrimmedIndent fw.w fw.indents).1.write [LF]).1.log :=
            List.prefix_append _ _
          split
          · exact h1.trans h2
          · exact (h1.trans h2).trans (ih { fw with hasWritten := true, w := ((writeTrimmedIndent fw.w fw.indents).1.write [LF]).1 } rest)
      · have h1 : fw.w.log <+: (optIndent { fw with hasWritten := true }).1.log := optIndent_mono { fw with hasWritten := true }
        simp only [optIndent] at h1
        generalize (if (!fw.startedLine) = true then writeStrings fw.w fw.indents else (fw.w, false)) = r at h1 ⊢
        split
        · exact h1
        · have h2 : r.1.log <+: (r.1.write ln).1.log := List.prefix_append _ _
          split
          · exact h1.trans h2
          · exact (h1.trans h2).trans (ih { fw with hasWritten := true, w := (r.1.write ln).1, startedLine := false } rest)
    · split
      · exact List.prefix_refl _
      · have h1 : fw.w.log <+: (optIndent { fw with hasWritten := true }).1.log := optIndent_mono { fw with hasWritten := true }
        simp only [optIndent] at h1
        generalize (if (!fw.startedLine) = true then writeStrings fw.w fw.indents else (fw.w, false)) = r at h1 ⊢
        split
        · exact h1
        · exact h1.trans (List.prefix_append _ _)

theorem fwS_failAt (fw : FW) (s : Bytes) : (fwS fw s).w.failAt = fw.w.failAt := by
  unfold fwS; split
  · rfl
  · exact fwLoop_failAt _ _ _

theorem fwS_mono (fw : FW) (s : Bytes) : fw.w.log <+: (fwS fw s).w.log := by
  unfold fwS; split
  · exact List.prefix_refl _
  · exact fwLoop_mono _ _ _

theorem fwS_frozen (fw : FW) (s : Bytes) (h : fw.err = true) : fwS fw s = fw := by simp [fwS, h]


/-! ## B. A writer failing at write `k` against the healthy writer -/

/-- Before the failure: same log, fewer than `k+1` writes issued. -/
structure LockW (k : Nat) (a h : ScriptW) : Prop where
  fa : a.failAt = some k
  fh : h.failAt = none
  log : a.log = h.log
  len : h.log.length ≤ k

/-- After the failure: the failing writer saw exactly the first `k+1` writes of the healthy one. -/
structure DoneW (k : Nat) (a h : ScriptW) : Prop where
  log : a.log = h.log.take (k + 1)
  len : k + 1 ≤ h.log.length

theorem DoneW.extend {k : Nat} {a h : ScriptW} (hd : DoneW k a h) {l : List Bytes} (hp : h.log <+: l)
    {h' : ScriptW} (he : h'.log = l) : DoneW k a h' := by
  obtain ⟨t, ht⟩ := hp
  constructor
  · rw [he, ← ht, List.take_append_of_le_length hd.len]; exact hd.log
  · rw [he, ← ht, List.length_append]; have := hd.len; omega

/-- Outcome of the same sequence of writes on both writers. -/
def RelO (k : Nat) (ra rh : ScriptW × Bool) : Prop :=
  rh.2 = false ∧ rh.1.failAt = none ∧
    ((ra.2 = false ∧ LockW k ra.1 rh.1) ∨ (ra.2 = true ∧ DoneW k ra.1 rh.1))

theorem write_healthy (w : ScriptW) (hf : w.failAt = none) (s : Bytes) : (w.write s).2 = false := by
  simp [ScriptW.write, hf]

theorem writeStrings_healthy (w : ScriptW) (hf : w.failAt = none) (l : List Bytes) :
    (writeStrings w l).2 = false := by
  induction l generalizing w with
  | nil => rfl
  | cons x xs ih =>
    simp only [writeStrings, write_healthy w hf x, Bool.false_eq_true, if_false]
    exact ih _ hf

theorem write_rel {k : Nat} {a h : ScriptW} (hl : LockW k a h) (s : Bytes) : RelO k (a.write s) (h.write s) := by
  refine ⟨write_healthy h hl.fh s, hl.fh, ?_⟩
  by_cases hk : k = a.log.length
  · right
    refine ⟨by simp [ScriptW.write, hl.fa, hk], ?_, ?_⟩
    · simp only [ScriptW.write]
      rw [hl.log, List.take_of_length_le]
      simp only [List.length_append, List.length_cons, List.length_nil]
      rw [hl.log] at hk; omega
    · simp only [ScriptW.write, List.length_append, List.length_cons, List.length_nil]
      rw [hl.log] at hk; omega
  · left
    refine ⟨?_, hl.fa, hl.fh, ?_, ?_⟩
    · simp only [ScriptW.write, hl.fa]
      simpa using hk
    · simp only [ScriptW.write, hl.log]
    · simp only [ScriptW.write, List.length_append, List.length_cons, List.length_nil]
      have := hl.len; rw [hl.log] at hk; omega

theorem writeStrings_rel {k : Nat} {a h : ScriptW} (hl : LockW k a h) (l : List Bytes) :
    RelO k (writeStrings a l) (writeStrings h l) := by
  induction l generalizing a h with
  | nil => exact ⟨rfl, hl.fh, Or.inl ⟨rfl, hl⟩⟩
  | cons x xs ih =>
    obtain ⟨hh, _, hc⟩ := write_rel hl x
    simp only [writeStrings, hh, Bool.false_eq_true, if_false]
    rcases hc with ⟨hfa, hlock⟩ | ⟨hfa, hdone⟩
    · simp only [hfa, Bool.false_eq_true, if_false]
      exact ih hlock
    · simp only [hfa, if_true]
      refine ⟨writeStrings_healthy (h.write x).1 hl.fh xs, ?_, Or.inr ⟨rfl, hdone.extend (writeStrings_mono (h.write x).1 xs) rfl⟩⟩
      rw [writeStrings_failAt]; exact hl.fh

theorem writeTrimmedIndent_rel {k : Nat} {a h : ScriptW} (hl : LockW k a h) (ind : List Bytes) :
    RelO k (writeTrimmedIndent a ind) (writeTrimmedIndent h ind) := by
  unfold writeTrimmedIndent
  split
  · exact ⟨rfl, hl.fh, Or.inl ⟨rfl, hl⟩⟩
  · rename_i front last _
    obtain ⟨hh, hfh, hc⟩ := writeStrings_rel hl front
    simp only [hh, Bool.false_eq_true, if_false]
    rcases hc with ⟨hfa, hlock⟩ | ⟨hfa, hdone⟩
    · simp only [hfa, Bool.false_eq_true, if_false]
      exact write_rel hlock last
    · simp only [hfa, if_true]
      exact ⟨write_healthy _ hfh last, hfh, Or.inr ⟨hfa, hdone.extend (List.prefix_append _ _) rfl⟩⟩

/-- Writer states in lock step (before the failure). -/
structure LockF (k : Nat) (a h : FW) : Prop where
  ea : a.err = false
  eh : h.err = false
  w : LockW k a.w h.w
  ind : a.indents = h.indents
  sl : a.startedLine = h.startedLine
  hw : a.hasWritten = h.hasWritten

/-- After the failure. -/
structure DoneF (k : Nat) (a h : FW) : Prop where
  ea : a.err = true
  w : DoneW k a.w h.w

theorem optIndent_rel {k : Nat} {a h : FW} (hl : LockF k a h) : RelO k (optIndent a) (optIndent h) := by
  unfold optIndent
  rw [hl.sl, hl.ind]
  split
  · exact writeStrings_rel hl.w _
  · exact ⟨rfl, hl.w.fh, Or.inl ⟨rfl, hl.w⟩⟩

theorem fwLoop_mono' (fuel : Nat) (fw : FW) (s : Bytes) (l : List Bytes) (hl : fw.w.log = l) :
    l <+: (fwLoop fuel fw s).w.log := hl ▸ fwLoop_mono fuel fw s

def Goal (k : Nat) (a h : FW) : Prop := LockF k a h ∨ DoneF k a h

theorem fwLoop_rel {k : Nat} (fuel : Nat) {a h : FW} (hl : LockF k a h) (s : Bytes) :
    Goal k (fwLoop fuel a s) (fwLoop fuel h s) := by
  induction fuel generalizing a h s with
  | zero => exact Or.inl hl
  | succ f ih =>
    simp only [fwLoop]
    split
    · rename_i ln rest _
      simp only [hl.sl, hl.ind]
      split
      · -- blank line
        obtain ⟨hh, hfh, hc⟩ := writeTrimmedIndent_rel hl.w h.indents
        simp only [hh, Bool.false_eq_true, if_false]
        rcases hc with ⟨hfa, hlock⟩ | ⟨hfa, hdone⟩
        · simp only [hfa, Bool.false_eq_true, if_false]
          obtain ⟨hh2, hfh2, hc2⟩ := write_rel hlock [LF]
          simp only [hh2, Bool.false_eq_true, if_false]
          rcases hc2 with ⟨hfa2, hlock2⟩ | ⟨hfa2, hdone2⟩
          · simp only [hfa2, Bool.false_eq_true, if_false]
            refine ih ?_ rest
            exact ⟨hl.ea, hl.eh, hlock2, rfl, rfl, rfl⟩
          · simp only [hfa2, if_true]
            refine Or.inr ⟨rfl, hdone2.extend ?_ rfl⟩
            exact fwLoop_mono' f _ rest _ rfl
        · simp only [hfa, if_true, write_healthy _ hfh, Bool.false_eq_true, if_false]
          exact Or.inr ⟨rfl, hdone.extend ((List.prefix_append _ _).trans (fwLoop_mono f { h with hasWritten := true, w := ((writeTrimmedIndent h.w h.indents).1.write [LF]).1 } rest)) rfl⟩
      · -- ordinary line
        have hr : RelO k (optIndent { a with hasWritten := true, indents := h.indents, startedLine := h.startedLine })
            (optIndent { h with hasWritten := true }) := by
          have := optIndent_rel (a := { a with hasWritten := true }) (h := { h with hasWritten := true })
            ⟨hl.ea, hl.eh, hl.w, hl.ind, hl.sl, rfl⟩
          simpa only [optIndent, hl.sl, hl.ind] using this
        simp only [optIndent] at hr
        generalize (if (!h.startedLine) = true then writeStrings a.w h.indents else (a.w, false)) = ra at hr ⊢
        generalize (if (!h.startedLine) = true then writeStrings h.w h.indents else (h.w, false)) = rh at hr ⊢
        obtain ⟨hh, hfh, hc⟩ := hr
        simp only [hh, Bool.false_eq_true, if_false]
        rcases hc with ⟨hfa, hlock⟩ | ⟨hfa, hdone⟩
        · simp only [hfa, Bool.false_eq_true, if_false]
          obtain ⟨hh2, hfh2, hc2⟩ := write_rel hlock ln
          simp only [hh2, Bool.false_eq_true, if_false]
          rcases hc2 with ⟨hfa2, hlock2⟩ | ⟨hfa2, hdone2⟩
          · simp only [hfa2, Bool.false_eq_true, if_false]
            refine ih ?_ rest
            exact ⟨hl.ea, hl.eh, hlock2, rfl, rfl, rfl⟩
          · simp only [hfa2, if_true]
            refine Or.inr ⟨rfl, hdone2.extend ?_ rfl⟩
            exact fwLoop_mono' f _ rest _ rfl
        · simp only [hfa, if_true, write_healthy _ hfh, Bool.false_eq_true, if_false]
          refine Or.inr ⟨rfl, hdone.extend ((List.prefix_append _ [ln]).trans ?_) rfl⟩
          exact fwLoop_mono' f _ rest _ rfl
    · split
      · exact Or.inl hl
      · simp only [hl.sl, hl.ind]
        have hr : RelO k (optIndent { a with hasWritten := true, indents := h.indents, startedLine := h.startedLine })
            (optIndent { h with hasWritten := true }) := by
          have := optIndent_rel (a := { a with hasWritten := true }) (h := { h with hasWritten := true })
            ⟨hl.ea, hl.eh, hl.w, hl.ind, hl.sl, rfl⟩
          simpa only [optIndent, hl.sl, hl.ind] using this
        simp only [optIndent] at hr
        generalize (if (!h.startedLine) = true then writeStrings a.w h.indents else (a.w, false)) = ra at hr ⊢
        generalize (if (!h.startedLine) = true then writeStrings h.w h.indents else (h.w, false)) = rh at hr ⊢
        obtain ⟨hh, hfh, hc⟩ := hr
        simp only [hh, Bool.false_eq_true, if_false]
        rcases hc with ⟨hfa, hlock⟩ | ⟨hfa, hdone⟩
        · simp only [hfa, Bool.false_eq_true, if_false]
          obtain ⟨hh2, hfh2, hc2⟩ := write_rel hlock s
          rcases hc2 with ⟨hfa2, hlock2⟩ | ⟨hfa2, hdone2⟩
          · exact Or.inl ⟨hfa2, hh2, hlock2, rfl, rfl, rfl⟩
          · exact Or.inr ⟨hfa2, hdone2⟩
        · simp only [hfa, if_true]
          exact Or.inr ⟨rfl, hdone.extend (List.prefix_append _ [s]) rfl⟩


theorem fwS_rel {k : Nat} {a h : FW} (hl : LockF k a h) (s : Bytes) : Goal k (fwS a s) (fwS h s) := by
  unfold fwS
  simp only [hl.ea, hl.eh, Bool.false_eq_true, if_false]
  exact fwLoop_rel _ hl s

theorem fwPush_rel {k : Nat} {a h : FW} (hl : LockF k a h) (b : Bytes) : LockF k (fwPush a b) (fwPush h b) :=
  ⟨hl.ea, hl.eh, hl.w, by simp [fwPush, hl.ind], hl.sl, hl.hw⟩

theorem fwPop_rel {k : Nat} {a h : FW} (hl : LockF k a h) : LockF k (fwPop a) (fwPop h) :=
  ⟨hl.ea, hl.eh, hl.w, by simp [fwPop, hl.ind], hl.sl, hl.hw⟩

/-- Once the failing writer has failed it is frozen and the healthy one only appends. -/
theorem DoneF.step {k : Nat} {a h a' h' : FW} (hd : DoneF k a h) (ha : a'.err = true ∧ a'.w = a.w)
    (hh : h.w.log <+: h'.w.log) : DoneF k a' h' :=
  ⟨ha.1, by rw [ha.2]; exact hd.w.extend hh rfl⟩

/-! ## C. Programs -/

/-- A property of the writer that every writer operation preserves is preserved by every program. -/
theorem run_preserves {α : Type} {P : FW → Prop} (hs : ∀ fw b, P fw → P (fwS fw b))
    (hpush : ∀ fw b, P fw → P (fwPush fw b)) (hpop : ∀ fw, P fw → P (fwPop fw))
    (p : Prog α) (fw : FW) (h : P fw) : P (p.run fw).2 := by
  induction p generalizing fw with
  | ret a => exact h
  | s b k ih => exact ih _ (hs fw b h)
  | push b k ih => exact ih _ (hpush fw b h)
  | pop k ih =>
    simp only [Prog.run]
    split
    · exact h
    · exact ih _ (hpop fw h)
  | hasWritten k ih => exact ih _ fw h
  | panic m => exact h

/-- The same program on the failing and on the healthy writer: lock step with equal results, or the failing
    writer has failed. -/
theorem run_rel {α : Type} {k : Nat} (p : Prog α) {a h : FW} (hl : LockF k a h) :
    (LockF k (p.run a).2 (p.run h).2 ∧ (p.run a).1 = (p.run h).1) ∨ DoneF k (p.run a).2 (p.run h).2 := by
  induction p generalizing a h with
  | ret x => exact Or.inl ⟨hl, rfl⟩
  | s b kk ih =>
    simp only [Prog.run]
    rcases fwS_rel hl b with hl' | hd
    · exact ih hl'
    · right
      refine hd.step ?_ ?_
      · exact run_preserves (P := fun fw => fw.err = true ∧ fw.w = (fwS a b).w)
          (fun fw b hp => by rw [fwS_frozen fw b hp.1]; exact hp) (fun fw b hp => hp) (fun fw hp => hp) kk _ ⟨hd.ea, rfl⟩
      · exact run_preserves (P := fun fw => (fwS h b).w.log <+: fw.w.log)
          (fun fw b hp => hp.trans (fwS_mono fw b)) (fun fw b hp => hp) (fun fw hp => hp) kk _ (List.prefix_refl _)
  | push b kk ih => exact ih (fwPush_rel hl b)
  | pop kk ih =>
    simp only [Prog.run, hl.ind]
    split
    · exact Or.inl ⟨hl, rfl⟩
    · exact ih (fwPop_rel hl)
  | hasWritten kk ih =>
    simp only [Prog.run, hl.hw]
    exact ih _ hl
  | panic m => exact Or.inl ⟨hl, rfl⟩

/-! ## D. The closures and the Walk -/

/-- Writer operations preserve `P`. -/
structure OpsPreserve (P : FW → Prop) : Prop where
  s : ∀ fw b, P fw → P (fwS fw b)
  push : ∀ fw b, P fw → P (fwPush fw b)
  pop : ∀ fw, P fw → P (fwPop fw)

theorem exec_preserves {P : FW → Prop} (hP : OpsPreserve P) (st : FmtSt) (p : Prog Bool) (h : P st.fw) :
    P (st.exec p).2.fw := by
  have := run_preserves hP.s hP.push hP.pop p st.fw h
  unfold FmtSt.exec
  split <;> simp_all

theorem formatPre_preserves {P : FW → Prop} (hP : OpsPreserve P) (ext : Ext) (blocks : Roots) (cur : Cursor)
    (st : FmtSt) (h : P st.fw) : P (formatPre ext blocks cur st).2.fw := by
  unfold formatPre
  split
  · exact h
  · split
    · apply exec_preserves hP
      unfold lookupSource
      split
      · split <;> exact h
      · exact h
    · split
      · exact exec_preserves hP _ _ h
      · exact h

theorem formatPost_preserves {P : FW → Prop} (hP : OpsPreserve P) (ext : Ext) (cur : Cursor)
    (st : FmtSt) (h : P st.fw) : P (formatPost ext cur st).2.fw := by
  unfold formatPost
  split
  · exact h
  · exact exec_preserves hP _ _ h

variable {σ : Type}

theorem walkLoop_post_eq (opts : WalkOpts σ) (f : Frame) (rest : List Frame) (s : σ) (hp : f.post = true) :
    walkLoop opts (f :: rest) s =
      (if (CM.Spec.callPost opts f.cur s).1 then walkLoop opts rest (CM.Spec.callPost opts f.cur s).2
       else (CM.Spec.callPost opts f.cur s).2) := by
  obtain ⟨pre, post⟩ := opts
  rw [walkLoop]; simp only [hp, CM.Spec.callPost]; cases post <;> simp <;> (split <;> simp [*])

theorem walkLoop_pre_eq (opts : WalkOpts σ) (f : Frame) (rest : List Frame) (s : σ) (hp : f.post = false) :
    walkLoop opts (f :: rest) s =
      (if (CM.Spec.callPre opts f.cur s).1 then
         walkLoop opts (childFrames f.cur ++ ({ cur := f.cur, post := true } : Frame) :: rest) (CM.Spec.callPre opts f.cur s).2
       else walkLoop opts rest (CM.Spec.callPre opts f.cur s).2) := by
  obtain ⟨pre, post⟩ := opts
  rw [walkLoop]; simp only [hp, CM.Spec.callPre]; cases pre <;> simp <;> (split <;> simp [*])

/-- An invariant of both callbacks is an invariant of the Walk. -/
theorem walkLoop_preserves (opts : WalkOpts σ) (Q : σ → Prop)
    (hpre : ∀ cur s, Q s → Q (CM.Spec.callPre opts cur s).2)
    (hpost : ∀ cur s, Q s → Q (CM.Spec.callPost opts cur s).2)
    (st : List Frame) (s : σ) (h : Q s) : Q (walkLoop opts st s) := by
  induction hn : stackCost st using Nat.strongRecOn generalizing st s with
  | _ n ih =>
    match st with
    | [] => rw [walkLoop]; exact h
    | f :: rest =>
      by_cases hp : f.post = true
      · rw [walkLoop_post_eq opts f rest s hp]
        split
        · exact ih _ (by subst hn; simp [stackCost, frameCost, hp]) rest _ (hpost _ _ h) rfl
        · exact hpost _ _ h
      · have hp : f.post = false := by simpa using hp
        rw [walkLoop_pre_eq opts f rest s hp]
        split
        · refine ih _ ?_ _ _ (hpre _ _ h) rfl
          subst hn
          simp only [stackCost, frameCost, hp, stackCost_append, childFrames, childFramesFrom_cost]
          have := Tree.size_eq f.cur.node
          simp; omega
        · refine ih _ ?_ rest _ (hpre _ _ h) rfl
          subst hn
          simp only [stackCost, frameCost, hp]
          have := Tree.size_eq f.cur.node
          simp; omega


/-- Two runs of the same Walk from related states: they stay in lock step (`L`) until they reach `D`, which
    must be stable under arbitrary further walking on both sides. -/
theorem walkLoop_rel (opts : WalkOpts σ) (L D : σ → σ → Prop)
    (hpre : ∀ cur a h, L a h →
      (L (CM.Spec.callPre opts cur a).2 (CM.Spec.callPre opts cur h).2 ∧
        (CM.Spec.callPre opts cur a).1 = (CM.Spec.callPre opts cur h).1) ∨
      D (CM.Spec.callPre opts cur a).2 (CM.Spec.callPre opts cur h).2)
    (hpost : ∀ cur a h, L a h →
      (L (CM.Spec.callPost opts cur a).2 (CM.Spec.callPost opts cur h).2 ∧
        (CM.Spec.callPost opts cur a).1 = (CM.Spec.callPost opts cur h).1) ∨
      D (CM.Spec.callPost opts cur a).2 (CM.Spec.callPost opts cur h).2)
    (hD : ∀ sa sh a h, D a h → D (walkLoop opts sa a) (walkLoop opts sh h))
    (st : List Frame) (a h : σ) (hl : L a h) :
    L (walkLoop opts st a) (walkLoop opts st h) ∨ D (walkLoop opts st a) (walkLoop opts st h) := by
  induction hn : stackCost st using Nat.strongRecOn generalizing st a h with
  | _ n ih =>
    match st with
    | [] => rw [walkLoop, walkLoop]; exact Or.inl hl
    | f :: rest =>
      by_cases hp : f.post = true
      · rw [walkLoop_post_eq opts f rest a hp, walkLoop_post_eq opts f rest h hp]
        rcases hpost f.cur a h hl with ⟨hl', he⟩ | hd
        · rw [he]
          split
          · exact ih _ (by subst hn; simp [stackCost, frameCost, hp]) rest _ _ hl' rfl
          · exact Or.inl hl'
        · right
          have e1 : ∀ s : σ, (if (CM.Spec.callPost opts f.cur a).1 = true then walkLoop opts rest s else s)
              = walkLoop opts (if (CM.Spec.callPost opts f.cur a).1 = true then rest else []) s := by
            intro s; split
            · rfl
            · rw [walkLoop]
          have e2 : ∀ s : σ, (if (CM.Spec.callPost opts f.cur h).1 = true then walkLoop opts rest s else s)
              = walkLoop opts (if (CM.Spec.callPost opts f.cur h).1 = true then rest else []) s := by
            intro s; split
            · rfl
            · rw [walkLoop]
          rw [e1, e2]
          exact hD _ _ _ _ hd
      · have hp : f.post = false := by simpa using hp
        rw [walkLoop_pre_eq opts f rest a hp, walkLoop_pre_eq opts f rest h hp]
        rcases hpre f.cur a h hl with ⟨hl', he⟩ | hd
        · rw [he]
          split
          · refine ih _ ?_ _ _ _ hl' rfl
            subst hn
            simp only [stackCost, frameCost, hp, stackCost_append, childFrames, childFramesFrom_cost]
            have := Tree.size_eq f.cur.node
            simp; omega
          · refine ih _ ?_ rest _ _ hl' rfl
            subst hn
            simp only [stackCost, frameCost, hp]
            have := Tree.size_eq f.cur.node
            simp; omega
        · right
          split <;> split <;> exact hD _ _ _ _ hd


/-- Closure states in lock step. -/
structure LockS (k : Nat) (A H : FmtSt) : Prop where
  fw : LockF k A.fw H.fw
  src : A.source = H.source
  pan : A.panic = H.panic

def DoneS (k : Nat) (A H : FmtSt) : Prop := DoneF k A.fw H.fw

theorem exec_fw (st : FmtSt) (p : Prog Bool) : (st.exec p).2.fw = (p.run st.fw).2 := by
  unfold FmtSt.exec; split <;> simp_all

theorem exec_rel {k : Nat} {A H : FmtSt} (hl : LockS k A H) (p : Prog Bool) :
    (LockS k (A.exec p).2 (H.exec p).2 ∧ (A.exec p).1 = (H.exec p).1) ∨ DoneS k (A.exec p).2 (H.exec p).2 := by
  rcases run_rel p hl.fw with ⟨hl', he⟩ | hd
  · left
    unfold FmtSt.exec
    generalize p.run A.fw = ra at hl' he
    generalize p.run H.fw = rh at hl' he
    obtain ⟨ea, fa⟩ := ra
    obtain ⟨eh, fh⟩ := rh
    simp only at he hl'
    subst he
    cases ea with
    | ok r => exact ⟨⟨hl', hl.src, hl.pan⟩, rfl⟩
    | error m => exact ⟨⟨hl', hl.src, rfl⟩, rfl⟩
  · right
    unfold DoneS
    rw [exec_fw, exec_fw]
    exact hd

theorem lookupSource_rel {k : Nat} (blocks : Roots) (cur : Cursor) {A H : FmtSt} (hl : LockS k A H) :
    LockS k (lookupSource blocks cur A) (lookupSource blocks cur H) := by
  unfold lookupSource
  split
  · split
    · exact ⟨hl.fw, rfl, hl.pan⟩
    · exact hl
  · exact hl

theorem formatPre_rel {k : Nat} (ext : Ext) (blocks : Roots) (cur : Cursor) {A H : FmtSt} (hl : LockS k A H) :
    (LockS k (formatPre ext blocks cur A).2 (formatPre ext blocks cur H).2 ∧
      (formatPre ext blocks cur A).1 = (formatPre ext blocks cur H).1) ∨
    DoneS k (formatPre ext blocks cur A).2 (formatPre ext blocks cur H).2 := by
  unfold formatPre
  rw [hl.pan]
  split
  · exact Or.inl ⟨hl, rfl⟩
  · split
    · have hl2 := lookupSource_rel blocks cur hl
      simp only
      rw [hl2.src]
      exact exec_rel hl2 _
    · split
      · rw [hl.src]; exact exec_rel hl _
      · exact Or.inl ⟨hl, rfl⟩

theorem formatPost_rel {k : Nat} (ext : Ext) (cur : Cursor) {A H : FmtSt} (hl : LockS k A H) :
    (LockS k (formatPost ext cur A).2 (formatPost ext cur H).2 ∧
      (formatPost ext cur A).1 = (formatPost ext cur H).1) ∨
    DoneS k (formatPost ext cur A).2 (formatPost ext cur H).2 := by
  unfold formatPost
  rw [hl.pan]
  split
  · exact Or.inl ⟨hl, rfl⟩
  · simp only
    rw [hl.src]
    rcases exec_rel hl (postBody ext H.source cur) with ⟨hl', _⟩ | hd
    · exact Or.inl ⟨hl', by rw [hl'.pan]⟩
    · exact Or.inr hd


/-! ## E. `Format` -/

theorem callPre_formatOpts (ext : Ext) (blocks : Roots) (cur : Cursor) (s : FmtSt) :
    CM.Spec.callPre (formatOpts ext blocks) cur s = formatPre ext blocks cur s := rfl

theorem callPost_formatOpts (ext : Ext) (blocks : Roots) (cur : Cursor) (s : FmtSt) :
    CM.Spec.callPost (formatOpts ext blocks) cur s = formatPost ext cur s := rfl

/-- Whatever every writer operation preserves, the whole traversal preserves (from any stack and state). -/
theorem formatLoop_preserves {P : FW → Prop} (hP : OpsPreserve P) (ext : Ext) (blocks : Roots)
    (st : List Frame) (s : FmtSt) (h : P s.fw) : P (walkLoop (formatOpts ext blocks) st s).fw :=
  walkLoop_preserves (formatOpts ext blocks) (fun s => P s.fw)
    (fun cur s h => by rw [callPre_formatOpts]; exact formatPre_preserves hP ext blocks cur s h)
    (fun cur s h => by rw [callPost_formatOpts]; exact formatPost_preserves hP ext cur s h) st s h

theorem format_preserves {P : FW → Prop} (hP : OpsPreserve P) (ext : Ext) (failAt : Option Nat) (blocks : Roots)
    (h : P { w := { failAt := failAt } }) : P (format ext failAt blocks).fw :=
  formatLoop_preserves hP ext blocks _ _ h

theorem opsPreserve_inv : OpsPreserve FwInv :=
  ⟨fun fw b h => fwS_inv fw b h, fun _ _ h => h, fun _ h => h⟩

theorem opsPreserve_failAt (fa : Option Nat) : OpsPreserve (fun fw => fw.w.failAt = fa) :=
  ⟨fun fw b h => by rw [fwS_failAt]; exact h, fun _ _ h => h, fun _ h => h⟩

theorem opsPreserve_frozen (w0 : ScriptW) : OpsPreserve (fun fw => fw.err = true ∧ fw.w = w0) :=
  ⟨fun fw b h => by rw [fwS_frozen fw b h.1]; exact h, fun _ _ h => h, fun _ h => h⟩

theorem opsPreserve_mono (l : List Bytes) : OpsPreserve (fun fw => l <+: fw.w.log) :=
  ⟨fun fw b h => h.trans (fwS_mono fw b), fun _ _ h => h, fun _ h => h⟩

theorem format_inv (ext : Ext) (failAt : Option Nat) (blocks : Roots) : FwInv (format ext failAt blocks).fw :=
  format_preserves opsPreserve_inv ext failAt blocks
    ⟨fun _ i hi => by simp at hi, fun hf => by simp at hf⟩

theorem format_failAt (ext : Ext) (failAt : Option Nat) (blocks : Roots) :
    (format ext failAt blocks).fw.w.failAt = failAt :=
  format_preserves (opsPreserve_failAt failAt) ext failAt blocks rfl

/-- After the failure nothing changes for the failing writer, and the healthy one only appends. -/
theorem doneS_stable {k : Nat} (ext : Ext) (blocks : Roots) (sa sh : List Frame) (A H : FmtSt) (hd : DoneS k A H) :
    DoneS k (walkLoop (formatOpts ext blocks) sa A) (walkLoop (formatOpts ext blocks) sh H) := by
  have ha := formatLoop_preserves (opsPreserve_frozen A.fw.w) ext blocks sa A ⟨hd.ea, rfl⟩
  have hh := formatLoop_preserves (opsPreserve_mono H.fw.w.log) ext blocks sh H (List.prefix_refl _)
  exact DoneF.step hd ha hh

/-- The failing run against the healthy run: in lock step to the end, or the failing run stopped writing
    after exactly the first `k+1` writes of the healthy run. -/
theorem format_rel (ext : Ext) (k : Nat) (blocks : Roots) :
    LockS k (format ext (some k) blocks) (format ext none blocks) ∨
    DoneS k (format ext (some k) blocks) (format ext none blocks) := by
  unfold format walk
  refine walkLoop_rel (formatOpts ext blocks) (LockS k) (DoneS k) ?_ ?_ (doneS_stable ext blocks) _ _ _ ?_
  · intro cur a h hl
    rw [callPre_formatOpts, callPre_formatOpts]
    exact formatPre_rel ext blocks cur hl
  · intro cur a h hl
    rw [callPost_formatOpts, callPost_formatOpts]
    exact formatPost_rel ext cur hl
  · exact ⟨⟨rfl, rfl, ⟨rfl, rfl, rfl, Nat.zero_le _⟩, rfl, rfl, rfl⟩, rfl, rfl⟩

end CM.Proofs.FormatDoc
