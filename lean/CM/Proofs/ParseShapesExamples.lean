import CM.Proofs.ParseShapesAll
/-
C13 for the whole of `Parse`, part 15: non-vacuity — a concrete document through `parseDoc` and the theorems of
`ParseShapesFinal` / `ParseShapesAll`.
-/
namespace CM.Proofs.PSh
open CM CM.Model CM.Gen CM.Spec CM.Model.Inl
open CM.Proofs.PW CM.Proofs.InlH CM.Proofs.RK

section Examples

/-- A block quote whose paragraph has a hard line break (two spaces) before a LAZY continuation line that begins with a
    code span; an ATX heading without content; a list item whose paragraph has a backslash hard break, a continuation
    line behind a partially consumed tab (an Indent node) with a character reference and an autolink, and a lazy
    continuation line `===`. -/
def psDoc : Bytes := Bytes.ofString "> a  \n`b` *c*\n\n#\n\n- x\\\n\t y &#65; <http://e.f>\n===\n"

example : (parseDoc exX exIX psDoc).roots.length = 3 := by decide +kernel
example : ∀ pr ∈ (parseDoc exX exIX psDoc).roots, treeOk pr = true := by decide +kernel

-- the containers of the block-phase trees: two runs (the second one lazy), one EMPTY run, run - Indent - run - run
example : (parseDoc exX exIX psDoc).roots.map (fun pr =>
    (conts (pbToTree pr.root.block)).map fun p => p.2.map fun t => (t.label.kind, t.label.start, t.label.stop)) =
    [[[(18, 2, 6), (18, 6, 14)]], [[(18, 1, 1)]], [[(18, 2, 5), (4, 5, 6), (18, 6, 28), (18, 28, 32)]]] := by
  decide +kernel

-- the inline kinds of the final trees: Text, HardLineBreak, CodeSpan, Emphasis; none; Text, HardLineBreak,
-- CharacterReference, Autolink, SoftLineBreak
example : (parseDoc exX exIX psDoc).roots.map (fun pr =>
    ((T.nodes (finalTree pr)).filter (fun u => !u.label.isBlock)).map fun u => u.label.kind) =
    [[1, 3, 14, 1, 1, 7, 1], [], [1, 3, 1, 5, 1, 15, 1, 2, 1]] := by
  decide +kernel

/-- `parse_shapes_partial_all` applies to every root of the document … -/
example : ∀ pr ∈ (parseDoc exX exIX psDoc).roots, ∀ u ∈ T.nodes (finalTree pr),
    (u.label.isBlock = true → shapeAt pr.root.source u = true) ∧
    (u.label.isBlock = false → InlineShapesPartial pr.root.source u) :=
  fun pr hpr => parse_shapes_partial_all_final exX exIX psDoc pr hpr (by revert pr; decide +kernel)

/-- … and what it says of the hard breaks, the code span, the character reference and the autolink is the full clause. -/
example : ∀ pr ∈ (parseDoc exX exIX psDoc).roots, ∀ u ∈ T.nodes (finalTree pr),
    (u.label.isBlock = true ∨ u.label.kind = IK.hardBreak ∨ u.label.kind = IK.autolink ∨ u.label.kind = IK.charRef ∨
      u.label.kind = IK.codeSpan) → shapeAt pr.root.source u = true :=
  fun pr hpr => parse_shapes_unconditional exX exIX psDoc pr hpr _
    (tree_of_treeOk ((by revert pr; decide +kernel : ∀ pr ∈ (parseDoc exX exIX psDoc).roots, treeOk pr = true) pr hpr))

/-- The containers of the block-phase trees meet `ContReady` (`HBreakOK ∧ CSHyp`, or one empty run). -/
example : ∀ pr ∈ (parseDoc exX exIX psDoc).roots, ∀ p ∈ conts (pbToTree pr.root.block), ContReady pr.root.source p.2 :=
  fun pr hpr => blockphase_contReady_all exX _ psDoc pr.root (root_mem_drain exX exIX psDoc pr hpr)

-- `NodeQ` is not vacuous: a run that holds white space only is rejected, and so is a run with a line ending inside
example : ¬ NodeQ [0x20, 0x0A] (mkInline IK.unparsed 0 2) := by
  intro h
  obtain ⟨_, _, j, _, hj, c, hc, c1, _, c3, _⟩ := h.run rfl
  have : j = 0 ∨ j = 1 := by
    have : (j : Int) < 2 := hj
    omega
  rcases this with rfl | rfl
  · simp at hc; exact c1 hc.symm
  · simp at hc; exact c3 hc.symm

example : ¬ NodeQ [0x61, 0x0A, 0x62, 0x0A] (mkInline IK.unparsed 0 4) := by
  intro h
  have := ((h.run rfl).2.1 1 (by decide) (by decide)).1 rfl
  revert this
  decide

end Examples

end CM.Proofs.PSh
