import CM.Proofs.ParseWholeGrammarRun
import CM.Proofs.BGCollect
import CM.Proofs.InlNoMarker
/-
C05, inline half — the finished sub-trees (`INode.sub`): what `collectTextNodes`, `collectCodeSpan`, autolinks and the
imported block-phase leaves put below an arena node, by kind.  An instance `φS` of the generic arena invariant
(`NodeInv`, `InlInv*.lean`).
-/
namespace CM.Proofs.InlH
open CM CM.Model CM.Model.Inl CM.Spec

/-- the finished children of an arena node of kind `k` -/
def subOK (k : Nat) (sub : List Tree) : Bool :=
  if k == 0 || k == IK.text || k == IK.softBreak || k == IK.hardBreak || k == IK.indent || k == IK.charRef
      || k == IK.emphasis || k == IK.strong || k == IK.link || k == IK.image then sub.isEmpty
  else if k == IK.linkDest || k == IK.linkTitle then sub.all (BG.inl [IK.text, IK.charRef, IK.indent])
  else if k == IK.linkLabel || k == IK.codeSpan then sub.all (BG.inl [IK.text, IK.indent])
  else if k == IK.autolink then (match sub with | [t] => BG.inl [IK.text] t | _ => false)
  else if k == IK.htmlTag then sub.all (BG.inl [IK.rawHTML, IK.indent])
  else false

def φS (m : INode) : Prop := subOK m.kind m.sub = true

/-- The inline children of a paragraph / heading after the block phase: `Unparsed` runs and `Indent` leaves
    (`phase1At`, `GrammarLooseSpec.lean`). -/
def UOK (unparsed : List Tree) : Prop :=
  ∀ t ∈ unparsed, t.label.isBlock = false ∧ (t.label.kind = IK.unparsed ∨ t.label.kind = IK.indent) ∧ t.children = []

theorem UOK.spLeaf {us : List Tree} (h : UOK us) (k : Nat) : BG.SpLeaf (us.drop k) :=
  fun t ht => (h t (List.mem_of_mem_drop ht)).2.2

theorem nodeInv_S (x : IExt) (src : Bytes) (srcA : Array UInt8) (matchRef : Bytes → Bool) (unparsed : List Tree)
    (hU : UOK unparsed) : NodeInv (inlCtx x src srcA matchRef unparsed) φS where
  text a b := rfl
  hardBreak a b := rfl
  charRef pos _ e _ _ _ _ _ := rfl
  softBreak1 pos _ _ _ := rfl
  softBreak2 pos _ _ _ _ := rfl
  wrapped k a b hk := by rcases hk with rfl | rfl | rfl | rfl <;> rfl
  imported t ht hb _ hk := by
    obtain ⟨_, hki, hc⟩ := hU t (by simpa [inlCtx] using ht)
    rcases hki with h | h
    · exact absurd h hk
    · show subOK t.label.kind t.children = true
      rw [h, hc]; rfl
  codeSpan a b ks hks := by
    show (ks.toList.map CSN.toTree).all (BG.inl [IK.text, IK.indent]) = true
    rw [List.all_eq_true]
    intro t ht
    obtain ⟨k, hk, rfl⟩ := List.mem_map.1 ht
    rcases hks k (Array.mem_toList_iff.1 hk) with h | h
    · simp [BG.inl, CSN.toTree, h, Tree.label, Tree.children]
    · simp [BG.inl, CSN.toTree, h, Tree.label, Tree.children]
  autolink a b a' b' := rfl
  htmlTag a b stop fuel k p ps :=
    BG.collectTextNodes_ok x.ext src stop IK.rawHTML false [IK.rawHTML, IK.indent] rfl rfl (fun h => by cases h) fuel _ _ _
      (hU.spLeaf k) rfl
  linkDest a b stop fuel k p ps :=
    BG.collectTextNodes_ok x.ext src stop IK.text true [IK.text, IK.charRef, IK.indent] rfl rfl (fun _ => rfl) fuel _ _ _
      (hU.spLeaf k) rfl
  linkDestEmpty a b := rfl
  linkTitle a b stop fuel k p ps :=
    BG.collectTextNodes_ok x.ext src stop IK.text true [IK.text, IK.charRef, IK.indent] rfl rfl (fun _ => rfl) fuel _ _ _
      (hU.spLeaf k) rfl
  linkTitleEmpty a b := rfl
  linkLabel a b stop fuel k p ps ref _ :=
    BG.collectTextNodes_ok x.ext src stop IK.text false [IK.text, IK.indent] rfl rfl (fun h => by cases h) fuel _ _ _
      (hU.spLeaf k) rfl
  modKids n ks h := h
  modSpan n a b h _ := h
  modLink n a b r h _ _ := h

end CM.Proofs.InlH
