import CM.Proofs.BlocksContractRdFns
/-
C01 contract for the real block parser — `skipSpacesAndTabs`, `readEOL`, `skipLinkSpace`, `parseLinkLabel` over the text
of a paragraph child of the document: where `readEOL` can end, which bytes `skipLinkSpace` walks over.
-/
namespace CM.Proofs
open CM CM.Model CM.Gen

/-! ### The byte `current` returns -/

theorem CurB.ne_zero {src : Bytes} {pos : Nat} {c : UInt8} (h : CurB src pos c) : c ≠ 0 := by
  rcases h with ⟨h1, h2⟩ | ⟨_, h2 | h2 | h2⟩
  · rw [h2]; exact h1
  all_goals (rw [h2]; decide)

/-- A byte of U+FFFD is not a blank, a bracket, … -/
theorem CurB.eq_of_ascii {src : Bytes} {pos : Nat} {c : UInt8} (h : CurB src pos c) (hc : c ≠ 239 ∧ c ≠ 191 ∧ c ≠ 189) :
    src.getD pos 0 = c := by
  rcases h with ⟨_, h2⟩ | ⟨_, h2 | h2 | h2⟩
  · exact h2.symm
  · exact absurd h2 hc.1
  · exact absurd h2 hc.2.1
  · exact absurd h2 hc.2.2

theorem stle_ascii : ∀ c : UInt8, isSpaceTabOrLineEnding c = true → c ≠ 239 ∧ c ≠ 191 ∧ c ≠ 189 := by
  apply forall_uint8; decide +kernel

theorem CurB.src_ne_LF {src : Bytes} {pos : Nat} {c : UInt8} (h : CurB src pos c) (hc : c ≠ LF) : src.getD pos 0 ≠ LF := by
  rcases h with ⟨_, h2⟩ | ⟨h1, _⟩
  · rw [← h2]; exact hc
  · rw [h1]; decide

theorem LF_stle : isSpaceTabOrLineEnding LF = true := by decide
theorem CR_stle : isSpaceTabOrLineEnding CR = true := by decide
theorem SP_stle : isSpaceTabOrLineEnding SP = true := by decide
theorem TAB_stle : isSpaceTabOrLineEnding TAB = true := by decide

/-! ### skipSpacesAndTabs -/

theorem sst_spec {src : Bytes} {b : Nat} (hb : b ≤ src.length) : ∀ (f : Nat) (r : Rd) (ok : Bool) (r0 : Rd), RW b r →
    b - r.pos < f → skipSpacesAndTabs src f r = (ok, r0) →
    RW b r0 ∧ r.pos ≤ r0.pos ∧ (ok = false → r0.pos = b) := by
  intro f
  induction f with
  | zero => intro r ok r0 _ hf _; omega
  | succ f ih =>
    intro r ok r0 h hf e
    rcases hc : r.current src with ⟨c, r1⟩
    obtain ⟨c1, c2, c3, c4, c5⟩ := h.current src hb
    rw [hc] at c1 c2 c3 c4 c5
    simp only at c1 c2 c3 c4 c5
    rcases hn : r1.next src with ⟨ok1, r2⟩
    obtain ⟨n1, n2, n3⟩ := c1.next src
    rw [hn] at n1 n2 n3
    simp only at n1 n2 n3
    simp only [skipSpacesAndTabs, hc, hn] at e
    split at e
    · split at e
      · rename_i hok
        have hok' : ok1 = false := by simpa using hok
        simp only [Prod.mk.injEq] at e
        obtain ⟨rfl, rfl⟩ := e
        obtain ⟨f1, _, _, _⟩ := n3 hok'
        have hle : r.pos ≤ b := by
          rcases h.sp with ⟨_, _, _, hlt⟩ | ⟨_, hp⟩ <;> omega
        exact ⟨n1, by rw [f1]; exact hle, fun _ => f1⟩
      · rename_i hok
        have hok' : ok1 = true := by simpa using hok
        obtain ⟨g1, g2, _, _⟩ := n2 hok'
        obtain ⟨i1, i2, i3⟩ := ih r2 ok r0 n1 (by rw [g2, c2]; rw [c2] at g1; omega) e
        exact ⟨i1, by rw [g2, c2] at i2; omega, i3⟩
    · simp only [Prod.mk.injEq] at e
      obtain ⟨rfl, rfl⟩ := e
      refine ⟨c1, by rw [c2]; exact Nat.le_refl _, fun hz => ?_⟩
      have hz' : c = 0 := by simpa using hz
      rw [c2]
      rcases h.sp with ⟨_, _, _, hlt⟩ | ⟨_, hp⟩
      · exact absurd hz' (c4 hlt).ne_zero
      · exact hp

/-! ### readEOL -/

/-- Where `readEOL` ends: `-1` in front of a byte that is neither blank nor the end, or the position of the reader
    afterwards, which is a `LocalCut`. -/
theorem readEOL_spec {src : Bytes} {b : Nat} (hb : b ≤ src.length) (f : Nat) (r : Rd) (h : RW b r) (hf : b - r.pos < f)
    {e : Int} {r' : Rd} (he : readEOL src f r = (e, r')) :
    RW b r' ∧ r.pos ≤ r'.pos ∧
    ((e = -1 ∧ ∃ c, r'.current src = (c, r') ∧ c ≠ 0 ∧ isSpaceTabOrLineEnding c = false) ∨
     (e = (r'.pos : Int) ∧ LocalCut src b e)) := by
  rcases hs : skipSpacesAndTabs src f r with ⟨ok, r0⟩
  obtain ⟨s1, s2, s3⟩ := sst_spec hb f r ok r0 h hf hs
  have hr0b : r0.pos ≤ b := by
    rcases s1.sp with ⟨_, _, _, hlt⟩ | ⟨_, hp⟩ <;> omega
  rcases hc : r0.current src with ⟨c, r1⟩
  obtain ⟨c1, c2, c3, c4, c5⟩ := s1.current src hb
  rw [hc] at c1 c2 c3 c4 c5
  simp only at c1 c2 c3 c4 c5
  rcases hn : r1.next src with ⟨ok1, r2⟩
  obtain ⟨n1, n2, n3⟩ := c1.next src
  rw [hn] at n1 n2 n3
  simp only at n1 n2 n3
  rcases hc2 : r2.current src with ⟨c2', r3⟩
  obtain ⟨d1, d2, d3, d4, d5⟩ := n1.current src hb
  rw [hc2] at d1 d2 d3 d4 d5
  simp only at d1 d2 d3 d4 d5
  rcases hn3 : r3.next src with ⟨ok3, r4⟩
  obtain ⟨m1, m2, m3⟩ := d1.next src
  rw [hn3] at m1 m2 m3
  simp only at m1 m2 m3
  -- after a `next` from `q` (the reader at an end-of-line byte) the previous position + 1 is the position
  have after : ∀ (q q' : Rd) (okq : Bool), RW b q → q.next src = (okq, q') → RW b q' →
      (okq = true → q.pos < b ∧ q'.pos = q.pos + 1 ∧ q'.prev = (q.pos : Int) ∧ q'.pos < b) →
      (okq = false → q'.pos = b ∧ q'.spans = [] ∧ (q.pos < b → q.pos + 1 = b ∧ q'.prev = (q.pos : Int)) ∧ (q.pos = b → q' = q)) →
      q'.prev + 1 = (q'.pos : Int) ∧ q.pos ≤ q'.pos := by
    intro q q' okq hq _ hq' a1 a2
    cases okq with
    | true => obtain ⟨_, g2, g3, _⟩ := a1 rfl; exact ⟨by rw [g3, g2]; omega, by omega⟩
    | false =>
      obtain ⟨f1, _, f3, f4⟩ := a2 rfl
      rcases hq.sp with ⟨_, _, _, hlt⟩ | ⟨_, hp⟩
      · obtain ⟨g1, g2⟩ := f3 hlt
        exact ⟨by rw [g2, f1]; omega, by omega⟩
      · rw [f4 hp]; exact ⟨by rw [hp]; exact hq.pe hp, Nat.le_refl _⟩
  simp only [readEOL, hs, hc, hn, hc2, hn3] at he
  split at he
  · -- the reader hit the end while skipping blanks
    rename_i hok
    have hok' : ok = false := by simpa using hok
    simp only [Prod.mk.injEq] at he
    obtain ⟨rfl, rfl⟩ := he
    have := s3 hok'
    exact ⟨s1, s2, Or.inr ⟨rfl, Or.inl (by rw [this])⟩⟩
  · split at he
    · -- CR
      rename_i hcr
      have hcr' : c = CR := by simpa using hcr
      obtain ⟨a1, a2⟩ := after r1 r2 ok1 c1 hn n1 n2 n3
      split at he
      · -- the text ends with the CR
        rename_i hok
        have hok' : ok1 = false := by simpa using hok
        simp only [Prod.mk.injEq] at he
        obtain ⟨rfl, rfl⟩ := he
        obtain ⟨f1, _, _, _⟩ := n3 hok'
        exact ⟨n1, by rw [c2] at a2; omega, Or.inr ⟨a1, Or.inl (by rw [a1, f1])⟩⟩
      · rename_i hok
        have hok' : ok1 = true := by simpa using hok
        obtain ⟨g1, g2, g3, g4⟩ := n2 hok'
        have hsrcCR : src.getD r1.pos 0 = CR := by
          rw [c2]; rw [c2] at g1
          have := (c4 g1).eq_of_ascii (by rw [hcr']; decide)
          rw [this, hcr']
        split at he
        · -- CR LF
          rename_i hlf
          have hlf' : c2' = LF := by simpa using hlf
          obtain ⟨b1, b2⟩ := after r3 r4 ok3 d1 hn3 m1 m2 m3
          simp only [Prod.mk.injEq] at he
          obtain ⟨rfl, rfl⟩ := he
          refine ⟨m1, by rw [d2, g2, c2] at b2; omega, Or.inr ⟨b1, ?_⟩⟩
          rw [b1]
          cases ok3 with
          | false => obtain ⟨f1, _, _, _⟩ := m3 rfl; exact Or.inl (by rw [f1])
          | true =>
            obtain ⟨q1, q2, q3, q4⟩ := m2 rfl
            have hsrcLF : src.getD r2.pos 0 = LF := by
              have := (d4 g4).eq_of_ascii (by rw [hlf']; decide)
              rw [this, hlf']
            right
            refine ⟨by omega, by omega, ?_, ?_⟩
            · rw [Int.toNat_natCast, q2, d2, Nat.add_sub_cancel, hsrcLF]; decide
            · rw [Int.toNat_natCast, q2, d2, Nat.add_sub_cancel, hsrcLF]
              intro hh; exact absurd hh.1 (by decide)
        · -- CR followed by something else
          rename_i hlf
          have hlf' : c2' ≠ LF := by simpa using hlf
          simp only [Prod.mk.injEq] at he
          obtain ⟨rfl, rfl⟩ := he
          refine ⟨d1, by rw [d2, g2, c2]; omega, Or.inr ⟨by rw [d3, d2]; exact a1, ?_⟩⟩
          rw [d3, a1]
          right
          refine ⟨by omega, by omega, ?_, ?_⟩
          · rw [Int.toNat_natCast, g2, Nat.add_sub_cancel, hsrcCR]; decide
          · rw [Int.toNat_natCast, g2, Nat.add_sub_cancel]
            intro hh
            exact (d4 g4).src_ne_LF hlf' (by rw [g2]; exact hh.2)
    · split at he
      · -- LF
        rename_i hlf
        have hlf' : c = LF := by simpa using hlf
        obtain ⟨a1, a2⟩ := after r1 r2 ok1 c1 hn n1 n2 n3
        simp only [Prod.mk.injEq] at he
        obtain ⟨rfl, rfl⟩ := he
        refine ⟨n1, by rw [c2] at a2; omega, Or.inr ⟨a1, ?_⟩⟩
        rw [a1]
        cases ok1 with
        | false => obtain ⟨f1, _, _, _⟩ := n3 rfl; exact Or.inl (by rw [f1])
        | true =>
          obtain ⟨g1, g2, g3, g4⟩ := n2 rfl
          have hsrcLF : src.getD r1.pos 0 = LF := by
            rw [c2]; rw [c2] at g1
            have := (c4 g1).eq_of_ascii (by rw [hlf']; decide)
            rw [this, hlf']
          right
          refine ⟨by omega, by omega, ?_, ?_⟩
          · rw [Int.toNat_natCast, g2, Nat.add_sub_cancel, hsrcLF]; decide
          · rw [Int.toNat_natCast, g2, Nat.add_sub_cancel, hsrcLF]
            intro hh; exact absurd hh.1 (by decide)
      · -- neither: `-1`
        rename_i hok hcr hlf
        have hok' : ok = true := by simpa using hok
        subst hok'
        obtain ⟨c', hc', n0, nsp, ntab⟩ := skipSpacesAndTabs_true f r r0 hs
        rw [hc] at hc'
        simp only [Prod.mk.injEq] at hc'
        obtain ⟨rfl, rfl⟩ := hc'
        simp only [Prod.mk.injEq] at he
        obtain ⟨rfl, rfl⟩ := he
        refine ⟨c1, by rw [c2]; exact s2, Or.inl ⟨rfl, c, hc, n0, isSTLE_false c nsp ntab ?_ ?_⟩⟩
        · intro hh; apply hcr; simp [hh]
        · intro hh; apply hlf; simp [hh]

end CM.Proofs
