import CM.Proofs.Emphasis
/-
The fuel of the emphasis loop model is adequate: the `fuel = 0` branch of `procLoop` is unreachable from the
state `processEmphasis` starts in, i.e. the Go `processEmphasis` loop terminates, and within
`2 * totalLen stack + 2 * stack.length + 2` iterations.

Measure: `totalLen stack + stack.length + (stack.length - cur)`; it strictly decreases at every iteration
(`procStep_measure_lt`), for `useBounds = true` and `false` alike, and for *every* state (no invariant needed).
-/
namespace CM.Proofs
open CM CM.Model CM.Gen

/-! ### `totalLen` algebra -/

theorem totalLen_nil : totalLen [] = 0 := rfl

theorem totalLen_cons (d : Delim) (l : List Delim) : totalLen (d :: l) = d.len + totalLen l := by
  simp [totalLen]

theorem totalLen_append (a b : List Delim) : totalLen (a ++ b) = totalLen a + totalLen b := by
  simp [totalLen, List.sum_append]

theorem totalLen_take_drop (a : List Delim) (i : Nat) :
    totalLen (a.take i) + totalLen (a.drop i) = totalLen a := by
  rw [← totalLen_append, List.take_append_drop]

theorem totalLen_drop_get (a : List Delim) (i : Nat) (x : Delim) (h : a[i]? = some x) :
    totalLen (a.drop i) = x.len + totalLen (a.drop (i + 1)) := by
  have hlt : i < a.length := getElem?_lt _ _ _ h
  rw [List.getElem?_eq_getElem hlt] at h
  simp only [Option.some.injEq] at h
  rw [List.drop_eq_getElem_cons hlt, totalLen_cons, h]

theorem totalLen_drop_le (a : List Delim) (i j : Nat) (h : i ≤ j) :
    totalLen (a.drop j) ≤ totalLen (a.drop i) := by
  have e : a.drop j = (a.drop i).drop (j - i) := by
    rw [List.drop_drop]; congr 1; omega
  have := totalLen_take_drop (a.drop i) (j - i)
  rw [e]; omega

theorem totalLen_deleteRange_le (a : List Delim) (i j : Nat) (h : i ≤ j) :
    totalLen (deleteRange a i j) ≤ totalLen a := by
  unfold deleteRange
  rw [totalLen_append]
  have h1 := totalLen_take_drop a i
  have h2 := totalLen_drop_le a i j h
  omega

/-- The opener, the closer, what is below the opener and what is above the closer are disjoint parts of
    the stack. -/
theorem totalLen_split (a : List Delim) (i j : Nat) (x y : Delim) (hij : i < j)
    (hx : a[i]? = some x) (hy : a[j]? = some y) :
    totalLen (a.take i) + x.len + y.len + totalLen (a.drop (j + 1)) ≤ totalLen a := by
  have h1 := totalLen_take_drop a i
  have h2 := totalLen_drop_get a i x hx
  have h3 := totalLen_drop_le a (i + 1) j (by omega)
  have h4 := totalLen_drop_get a j y hy
  omega

theorem totalLen_st1 (a : List Delim) (i j : Nat) (x y : Delim) :
    totalLen (a.take i ++ [x, y] ++ a.drop (j + 1))
      = totalLen (a.take i) + x.len + y.len + totalLen (a.drop (j + 1)) := by
  simp only [totalLen_append, totalLen_cons, totalLen_nil]; omega

/-! ### The measure -/

/-- Remaining delimiter characters + stack entries + distance of the current position from the top. -/
def procMeasure (s : ProcState) : Nat :=
  totalLen s.stack + s.stack.length + (s.stack.length - s.cur)

/-- The match branch, abstractly: `st2`/`st3` are obtained from `st1` by the two optional deletions. -/
theorem match_measure (stack : List Delim) (scur oi cur w : Nat) (opener d : Delim)
    (hop : stack[oi]? = some opener) (hd : stack[cur]? = some d) (hoi : oi < cur) (hcur : scur ≤ cur)
    (hw : (w = 2 ∧ 2 ≤ opener.len ∧ 2 ≤ d.len) ∨ w = 1)
    (o' c' : Delim) (ho' : o'.len = opener.len - w) (hc' : c'.len = d.len - w)
    (st1 st2 st3 : List Delim) (cur2 : Nat)
    (h1 : st1 = stack.take oi ++ [o', c'] ++ stack.drop (cur + 1))
    (hcur2 : cur2 = if o'.len == 0 then oi else oi + 1)
    (h2 : st2 = if o'.len == 0 then deleteRange st1 oi (oi + 1) else st1)
    (h3 : st3 = if c'.len == 0 then deleteRange st2 cur2 (cur2 + 1) else st2) :
    totalLen st3 + st3.length + (st3.length - cur2)
      < totalLen stack + stack.length + (stack.length - scur) := by
  have hlen : cur < stack.length := getElem?_lt _ _ _ hd
  have hT := totalLen_split stack oi cur opener d hoi hop hd
  have hT1 : totalLen st1 = totalLen (stack.take oi) + o'.len + c'.len + totalLen (stack.drop (cur + 1)) := by
    rw [h1]; exact totalLen_st1 _ _ _ _ _
  have hL1 : st1.length = oi + 2 + (stack.length - (cur + 1)) := by
    rw [h1]; exact length_st1 stack oi cur o' c' hoi hlen
  -- second stage
  have hT2 : totalLen st2 ≤ totalLen st1 := by
    rw [h2]; split
    · exact totalLen_deleteRange_le _ _ _ (by omega)
    · exact Nat.le_refl _
  have hL2 : st2.length = if o'.len == 0 then st1.length - 1 else st1.length := by
    rw [h2]; split
    · exact length_deleteRange _ _ (by omega)
    · rfl
  -- third stage
  have hc2lt : cur2 < st2.length := by
    rw [hcur2, hL2]; split <;> omega
  have hT3 : totalLen st3 ≤ totalLen st2 := by
    rw [h3]; split
    · exact totalLen_deleteRange_le _ _ _ (by omega)
    · exact Nat.le_refl _
  have hL3 : st3.length = if c'.len == 0 then st2.length - 1 else st2.length := by
    rw [h3]; split
    · exact length_deleteRange _ _ hc2lt
    · rfl
  by_cases hz : o'.len = 0 <;> by_cases hzc : c'.len = 0 <;>
    simp only [hz, hzc, beq_self_eq_true, if_true, beq_iff_eq, if_false] at hcur2 hL2 hL3 <;>
    omega

/-- Every iteration of the loop strictly decreases the measure. -/
theorem procStep_measure_lt (b : Bool) (sb : Nat) (s s' : ProcState) (hs : procStep b sb s = some s') :
    procMeasure s' < procMeasure s := by
  unfold procStep at hs
  cases hn : nextCloser s.stack s.cur (s.stack.length + 1) with
  | none => rw [hn] at hs; simp at hs
  | some cur =>
    obtain ⟨hcur, d, hd, _, _⟩ := nextCloser_spec _ _ _ _ hn
    have hlen : cur < s.stack.length := getElem?_lt _ _ _ hd
    rw [hn] at hs
    simp only [hd] at hs
    generalize (openersBottomIndex d.elem).getD 0 = k at hs
    cases hf : findOpener s.stack d (if b = true then s.bot k else sb) cur with
    | none =>
      rw [hf] at hs
      simp only at hs
      split at hs
      · simp only [Option.some.injEq] at hs; subst hs
        have hT := totalLen_deleteRange_le s.stack cur (cur + 1) (by omega)
        have hL := length_deleteRange s.stack cur hlen
        simp only [procMeasure]
        omega
      · simp only [Option.some.injEq] at hs; subst hs
        simp only [procMeasure]
        omega
    | some oi =>
      obtain ⟨_, hoi, opener, hop⟩ := findOpener_some _ _ _ _ _ hf
      rw [hf] at hs
      simp only [hop, Option.some.injEq] at hs
      subst hs
      simp only [procMeasure]
      generalize hw : (if (decide (opener.len ≥ 2) && decide (d.len ≥ 2)) = true then 2 else 1) = w
      refine match_measure s.stack s.cur oi cur w opener d hop hd hoi hcur ?_
        { opener with len := opener.len - w } { d with len := d.len - w } rfl rfl _ _ _ _ rfl rfl rfl rfl
      subst hw
      by_cases h2 : (decide (opener.len ≥ 2) && decide (d.len ≥ 2)) = true
      · left
        simp only [h2, if_true, true_and]
        simpa using h2
      · right
        simp only [h2, Bool.false_eq_true, if_false]

/-- Hence a state of measure 0 is final. -/
theorem procStep_none_of_measure_zero (b : Bool) (sb : Nat) (s : ProcState) (h : procMeasure s = 0) :
    procStep b sb s = none := by
  cases hs : procStep b sb s with
  | none => rfl
  | some s' => have := procStep_measure_lt b sb s s' hs; omega

/-! ### Fuel adequacy -/

/-- Fuel at least the measure is as good as any larger fuel. -/
theorem procLoop_fuel_mono (b : Bool) (sb : Nat) (fuel extra : Nat) (s : ProcState)
    (h : procMeasure s ≤ fuel) :
    procLoop b sb (fuel + extra) s = procLoop b sb fuel s := by
  induction fuel generalizing s with
  | zero =>
    cases extra with
    | zero => rfl
    | succ e =>
      simp only [procLoop]
      rw [procStep_none_of_measure_zero b sb s (by omega)]
  | succ f ih =>
    have e : f + 1 + extra = (f + extra) + 1 := by omega
    rw [e]
    simp only [procLoop]
    cases hs : procStep b sb s with
    | none => rfl
    | some s' =>
      have := procStep_measure_lt b sb s s' hs
      exact ih s' (by omega)

/-- With adequate fuel the loop ends in a final state (the Go loop has reached its `break`), not by running
    out of fuel. -/
theorem procLoop_final (b : Bool) (sb : Nat) (fuel : Nat) (s : ProcState) (h : procMeasure s ≤ fuel) :
    procStep b sb (procLoop b sb fuel s) = none := by
  induction fuel generalizing s with
  | zero => exact procStep_none_of_measure_zero b sb s (by omega)
  | succ f ih =>
    simp only [procLoop]
    cases hs : procStep b sb s with
    | none => exact hs
    | some s' =>
      have := procStep_measure_lt b sb s s' hs
      exact ih s' (by omega)

/-- The initial state of `processEmphasis`. -/
def procInit (stack : List Delim) (stackBottom : Nat) : ProcState :=
  { stack := stack, cur := stackBottom, bot := fun _ => stackBottom, events := [] }

/-- The fuel `processEmphasis` passes. -/
def procFuel (stack : List Delim) : Nat := 2 * totalLen stack + 2 * stack.length + 2

theorem procMeasure_init_le (stack : List Delim) (stackBottom : Nat) :
    procMeasure (procInit stack stackBottom) ≤ procFuel stack := by
  simp only [procMeasure, procInit, procFuel]; omega

/-- **Fuel adequacy**: from the initial state, the fuel `processEmphasis` passes is as good as any larger one —
    for the Go loop (`useBounds = true`) and for the specification's procedure (`false`). -/
theorem procLoop_fuel_adequate (useBounds : Bool) (stack : List Delim) (stackBottom : Nat) :
    ∀ extra, procLoop useBounds stackBottom (procFuel stack + extra) (procInit stack stackBottom)
      = procLoop useBounds stackBottom (procFuel stack) (procInit stack stackBottom) :=
  fun extra => procLoop_fuel_mono useBounds stackBottom _ extra _ (procMeasure_init_le stack stackBottom)

/-- The state `processEmphasis` reads its events from is final: the loop stopped because there is no further
    closer (`break`), the `fuel = 0` branch was not taken. -/
theorem procLoop_fuel_final (useBounds : Bool) (stack : List Delim) (stackBottom : Nat) :
    procStep useBounds stackBottom
      (procLoop useBounds stackBottom (procFuel stack) (procInit stack stackBottom)) = none :=
  procLoop_final useBounds stackBottom _ _ (procMeasure_init_le stack stackBottom)

/-- `processEmphasis` with an explicit fuel. -/
def processEmphasisFuel (fuel : Nat) (useBounds : Bool) (stack : List Delim) (stackBottom : Nat) : List EmEvent :=
  (procLoop useBounds stackBottom fuel
    { stack := stack, cur := stackBottom, bot := fun _ => stackBottom, events := [] }).events

theorem processEmphasisFuel_eq (useBounds : Bool) (stack : List Delim) (stackBottom : Nat) :
    processEmphasisFuel (2 * totalLen stack + 2 * stack.length + 2) useBounds stack stackBottom
      = processEmphasis useBounds stack stackBottom := rfl

/-- The result of `processEmphasis` is unchanged if its fuel expression is replaced by any larger number. -/
theorem processEmphasis_fuel_irrelevant (useBounds : Bool) (stack : List Delim) (stackBottom : Nat) (fuel : Nat)
    (h : 2 * totalLen stack + 2 * stack.length + 2 ≤ fuel) :
    processEmphasisFuel fuel useBounds stack stackBottom = processEmphasis useBounds stack stackBottom := by
  obtain ⟨extra, rfl⟩ := Nat.exists_eq_add_of_le h
  exact congrArg ProcState.events (procLoop_fuel_adequate useBounds stack stackBottom extra)

/-- Sharper: any fuel ≥ `totalLen stack + 2 * stack.length - stackBottom` already gives the same result. -/
theorem processEmphasis_fuel_sharp (useBounds : Bool) (stack : List Delim) (stackBottom : Nat) (fuel : Nat)
    (h : totalLen stack + stack.length + (stack.length - stackBottom) ≤ fuel) :
    processEmphasisFuel fuel useBounds stack stackBottom = processEmphasis useBounds stack stackBottom := by
  have hm : procMeasure (procInit stack stackBottom) = totalLen stack + stack.length + (stack.length - stackBottom) := rfl
  have h1 : procLoop useBounds stackBottom (fuel + procFuel stack) (procInit stack stackBottom)
      = procLoop useBounds stackBottom fuel (procInit stack stackBottom) :=
    procLoop_fuel_mono useBounds stackBottom fuel _ _ (by omega)
  have h2 := procLoop_fuel_adequate useBounds stack stackBottom fuel
  rw [Nat.add_comm] at h2
  unfold processEmphasisFuel processEmphasis
  exact congrArg ProcState.events (h1.symm.trans h2)

/-! ### Non-vacuity and concrete evaluations -/

private def mk (id : Nat) (typ : Int) (o c : Bool) (n : Nat) : Delim :=
  { elem := { typ := typ, flags := 1 ||| (if o then 2 else 0) ||| (if c then 4 else 0), n := n }, id := id, len := n }
/-- `x*_*_*a*ax` (findings F14/F15). -/
private def f14 : List Delim :=
  [mk 0 1 false true 1, mk 1 2 true true 1, mk 2 1 true true 1, mk 3 2 true true 1, mk 4 1 true false 1, mk 5 1 true true 1]
/-- A stack with an entry of current length 0 and an unmatched closer. -/
private def g : List Delim :=
  [mk 0 1 true false 3, mk 1 1 true true 2, { mk 2 2 true true 1 with len := 0 }, mk 3 1 false true 1, mk 4 2 false true 2]

example : procFuel f14 = 26 := by decide +kernel
example : procMeasure (procInit f14 0) = 18 := by decide +kernel
example : 2 * totalLen f14 + 2 * f14.length + 2 ≤ 1000 := by decide +kernel
example : processEmphasisFuel 1000 true f14 0 = [⟨1, 3, false⟩, ⟨4, 5, false⟩] := by decide +kernel
example : processEmphasisFuel 26 true f14 0 = [⟨1, 3, false⟩, ⟨4, 5, false⟩] := by decide +kernel
example : processEmphasisFuel 1000 false f14 0 = processEmphasis false f14 0 := by decide +kernel
-- the loop really needs several iterations here: fuel 3 is not enough, so the theorem's hypothesis matters
example : processEmphasisFuel 3 true f14 0 ≠ processEmphasis true f14 0 := by decide +kernel
example : processEmphasisFuel 500 true g 0 = processEmphasis true g 0 := by decide +kernel
example : processEmphasis true g 0 = [⟨0, 1, true⟩, ⟨0, 3, false⟩] := by decide +kernel
example : procFuel g = 28 ∧ procMeasure (procInit g 0) = 18 := by decide +kernel
-- a step that decreases the measure, concretely
example : (procStep true 0 (procInit f14 0)).map procMeasure = some 15 := by decide +kernel

end CM.Proofs

