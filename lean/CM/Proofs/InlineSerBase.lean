import CM.Proofs.EscapedTextDoc
/-
Compositional parser correctness for the inline part of the canonical serialisation (`Spec/Doc.lean`) — part 1, the
sequencing framework.

* `Reaches f j v st v' st'`: `j` iterations of the tokenizer loop (body `f`) lead from the loop variables `v` and the
  state `st` to `v'`, `st'` — whatever the index and the remaining fuel.  Reflexive, transitive: finished pieces compose.
* State transformers: `pushP n` (`alloc n` + `addToRoot`), `addLeafP` (from `EscapedTextState`), `setIgnP`, `pushStkP`.
* `mkF cs ce up ign L K`: the FLAT arena — the dummy root, its children `L` (finished nodes: their children, if any, are
  finished trees in `sub`), the delimiter stack `K`; `export_mkF`: what `exportNode` returns for it.
-/
namespace CM.Proofs.InlSer
open CM CM.Gen CM.Model CM.Model.Inl CM.Proofs.EscText

/-! ### iterations of the loop -/

/-- `j` iterations of the loop with body `f` lead from `(v, st)` to `(v', st')`. -/
def Reaches (f : Nat → LS → IM (ForInStep LS)) (j : Nat) (v : LS) (st : IState) (v' : LS) (st' : IState) : Prop :=
  ∀ i fuel, (forIn (List.range' i (j + fuel)) v f).run st = (forIn (List.range' (i + j) fuel) v' f).run st'

theorem Reaches.refl (f : Nat → LS → IM (ForInStep LS)) (v : LS) (st : IState) : Reaches f 0 v st v st := by
  intro i fuel; simp

theorem Reaches.trans {f : Nat → LS → IM (ForInStep LS)} {j1 j2 : Nat} {v1 v2 v3 : LS} {s1 s2 s3 : IState}
    (h1 : Reaches f j1 v1 s1 v2 s2) (h2 : Reaches f j2 v2 s2 v3 s3) : Reaches f (j1 + j2) v1 s1 v3 s3 := by
  intro i fuel
  rw [Nat.add_assoc, h1 i (j2 + fuel), h2 (i + j1) fuel, Nat.add_assoc]

theorem Reaches.step {f : Nat → LS → IM (ForInStep LS)} {v v' : LS} {s s' : IState}
    (h : ∀ i, (f i v).run s = pure (.yield v', s')) : Reaches f 1 v s v' s' := by
  intro i fuel
  rw [Nat.add_comm 1 fuel]
  exact forIn_step_yield (h i)

/-! ### state transformers -/

/-- The state after `alloc n` + `addToRoot` for a node of positive length. -/
def pushP (n : INode) (s : IState) : IState :=
  { s with
    nodes := (s.nodes.push n).modify 0 fun r => { r with kids := r.kids.push s.nodes.size },
    parentMap := (s.parentMap.push none).set! s.nodes.size (some 0) }

def setIgnP (b : Bool) (s : IState) : IState := { s with ignoreNextIndent := b }
def pushStkP (e : DelimE) (s : IState) : IState := { s with stack := s.stack.push e }

theorem alloc_addToRoot_run (n : INode) (s : IState) (h : spanLenI n.start n.stop ≠ 0) :
    (do let id ← alloc n; addToRoot id : IM Unit).run s = pure ((), pushP n s) := by
  simp [h, alloc, addToRoot, nodeLen, getNode, setParent, modifyNode, StateT.run_bind, pushP]

theorem addLeafP_eq (k : Nat) (a b : Int) (s : IState) :
    addLeafP k a b s = if spanLenI a b = 0 then s else pushP { kind := k, start := a, stop := b } s := by
  unfold addLeafP pushP
  by_cases h : spanLenI a b = 0 <;> simp [h]

theorem setIgn_run (b : Bool) (s : IState) : (setIgnoreNextIndent b).run s = pure ((), setIgnP b s) := rfl
theorem pushStack_run (e : DelimE) (s : IState) : (pushStack e).run s = pure ((), pushStkP e s) := rfl

@[simp] theorem pushP_unparsedPos (n : INode) (s : IState) : (pushP n s).unparsedPos = s.unparsedPos := rfl
@[simp] theorem setIgnP_unparsedPos (b : Bool) (s : IState) : (setIgnP b s).unparsedPos = s.unparsedPos := rfl
@[simp] theorem pushStkP_unparsedPos (e : DelimE) (s : IState) : (pushStkP e s).unparsedPos = s.unparsedPos := rfl
@[simp] theorem addLeafP_unparsedPos' (k : Nat) (a b : Int) (s : IState) :
    (addLeafP k a b s).unparsedPos = s.unparsedPos := addLeafP_unparsedPos k a b s

/-! ### the flat arena -/

/-- The dummy root `[cs, ce)` with the finished children `L`; delimiter stack `K`. -/
def mkF (cs ce : Int) (up : Nat) (ign : Bool) (L : List INode) (K : Array DelimE) : IState :=
  { nodes := ({ kind := 0, start := cs, stop := ce, kids := (List.range' 1 L.length).toArray } :: L).toArray,
    parentMap := (none :: List.replicate L.length (some 0)).toArray,
    unparsedPos := up, stack := K, ignoreNextIndent := ign }

theorem pushP_mkF (cs ce : Int) (up : Nat) (ign : Bool) (L : List INode) (K : Array DelimE) (n : INode) :
    pushP n (mkF cs ce up ign L K) = mkF cs ce up ign (L ++ [n]) K := by
  simp [pushP, mkF]
  refine ⟨?_, ?_⟩
  · apply Array.ext'
    simp [List.range'_concat]; omega
  · rw [List.replicate_succ']

theorem setIgnP_mkF (cs ce : Int) (up : Nat) (ign b : Bool) (L : List INode) (K : Array DelimE) :
    setIgnP b (mkF cs ce up ign L K) = mkF cs ce up b L K := rfl

theorem pushStkP_mkF (cs ce : Int) (up : Nat) (ign : Bool) (L : List INode) (K : Array DelimE) (e : DelimE) :
    pushStkP e (mkF cs ce up ign L K) = mkF cs ce up ign L (K.push e) := rfl

theorem addLeafP_mkF (cs ce : Int) (up : Nat) (ign : Bool) (L : List INode) (K : Array DelimE) (k : Nat) (a b : Int) :
    addLeafP k a b (mkF cs ce up ign L K) =
      mkF cs ce up ign (L ++ (if spanLenI a b = 0 then [] else [{ kind := k, start := a, stop := b }])) K := by
  rw [addLeafP_eq]
  split
  · simp
  · rw [pushP_mkF]

/-- The tree of a finished node. -/
def nodeTree (n : INode) : Tree :=
  .node { isBlock := false, kind := n.kind, start := n.start, stop := n.stop, indent := n.indent, ref := n.ref } n.sub

theorem export_mkF (cs ce : Int) (up : Nat) (ign : Bool) (L : List INode) (K : Array DelimE)
    (hL : ∀ n ∈ L, n.kids = #[]) :
    (exportNode (mkF cs ce up ign L K).nodes ((mkF cs ce up ign L K).nodes.size + 1) 0).children = L.map nodeTree := by
  simp only [mkF, exportNode, List.size_toArray, List.length_cons]
  simp [Tree.children]
  apply List.ext_getElem
  · simp
  · intro i h1 h2
    simp only [List.length_map, List.length_range'] at h1
    have hk := hL L[i] (List.getElem_mem _)
    simp [Nat.add_comm 1 i, h1, nodeTree, hk]

end CM.Proofs.InlSer
