import CM.Proofs.EolRd1
/-
C14 (a), the paragraph hook under the position map — part 2: the byte reader.

`mapRd e X r`: the reader `r` over the mapped inline children, at the mapped position.  For a normalised reader (`RDS.RI`)
over a paragraph made of lines: `current` returns the translated byte (`current_map`: LF ↦ the first byte of `e`), and
`next` commutes with the map (`next_map`) — except at a line feed when `e = CR LF`: there the mapped reader first steps
from the CR to the LF (`mid`), and the next step arrives at the image (`next_stutter`).
-/
namespace CM.Proofs.ERd
open CM CM.Model CM.Gen CM.Proofs CM.Proofs.RDS CM.Proofs.BSp

/-- The previous position: `prev + 1` is mapped (the last byte of a CR LF pair is the previous position). -/
def mapPrev (e X : Bytes) (p : Int) : Int := if p < 0 then p else (eolPos e X (p + 1).toNat : Int) - 1

def mapRd (e X : Bytes) (r : Rd) : Rd :=
  { spans := mapTrees (eolPosZ e X) r.spans, pos := eolPos e X r.pos, vpos := r.vpos, prev := mapPrev e X r.prev }

/-- The byte the re-written source has for `c`. -/
def trB (e : Bytes) (c : UInt8) : UInt8 := if c = LF then e.getD 0 0 else c

theorem mapPrev_nat (e X : Bytes) (n : Nat) : mapPrev e X (n : Int) = (eolPos e X (n + 1) : Int) - 1 := by
  unfold mapPrev
  rw [if_neg (by omega)]
  have : ((n : Int) + 1).toNat = n + 1 := by omega
  rw [this]

theorem mapPrev_neg (e X : Bytes) {p : Int} (h : p < 0) : mapPrev e X p = p := by unfold mapPrev; rw [if_pos h]

theorem mapTrees_nil_iff {g : Int → Int} {ts : List Tree} : mapTrees g ts = [] ↔ ts = [] := by
  cases ts with
  | nil => simp [mapTrees]
  | cons a t => simp [mapTrees]

theorem mapTrees_cons_inv {g : Int → Int} {ts : List Tree} {t' : Tree} {rest' : List Tree}
    (h : mapTrees g ts = t' :: rest') : ∃ t rest, ts = t :: rest ∧ t' = mapTree g t ∧ rest' = mapTrees g rest := by
  cases ts with
  | nil => simp [mapTrees] at h
  | cons a t =>
    simp only [mapTrees, List.cons.injEq] at h
    exact ⟨a, t, rfl, h.1.symm, h.2.symm⟩

theorem nextTextNode_map (g : Int → Int) : ∀ (l : List Tree),
    nextTextNode (mapTrees g l) = (nextTextNode l).map (fun p => (mapTree g p.1, mapTrees g p.2)) := by
  intro l
  induction l with
  | nil => rfl
  | cons t rest ih =>
    simp only [mapTrees, nextTextNode, isI_map]
    split
    · rfl
    · exact ih

section
variable {e X : Bytes} {k : Nat} {is : List Tree} {r : Rd}

/-! ### The invariant is kept by the map -/

theorem ri_map (h : RI (X.take k) is r) : RI (toEol e (X.take k)) (mapTrees (eolPosZ e X) is) (mapRd e X r) := by
  refine ⟨?_, ?_, ?_, ?_⟩
  · obtain ⟨n, hn⟩ := h.suf
    exact ⟨n, by show mapTrees _ r.spans = _; rw [hn, mapTrees_drop]⟩
  · intro t' rest' hs
    obtain ⟨t, rest, h1, rfl, rfl⟩ := mapTrees_cons_inv (show mapTrees _ r.spans = _ from hs)
    have := h.norm t rest h1
    rw [map_start, map_stop]
    show eolPosZ e X t.label.start ≤ ((eolPos e X r.pos : Nat) : Int) ∧ ((eolPos e X r.pos : Nat) : Int) < _
    rw [← eolPosZ_ofNat, eolPosZ_le_iff, eolPosZ_lt_iff]
    exact this
  · intro t' rest' hs hi
    obtain ⟨t, rest, h1, rfl, rfl⟩ := mapTrees_cons_inv (show mapTrees _ r.spans = _ from hs)
    rw [isIndent_map] at hi
    exact h.vp t rest h1 hi
  · intro hs
    have hs0 : r.spans = [] := mapTrees_nil_iff.1 (show mapTrees _ r.spans = [] from hs)
    obtain ⟨d1, d2⟩ := h.dead hs0
    constructor
    · show mapPrev e X r.prev + 1 = ((eolPos e X r.pos : Nat) : Int)
      by_cases hp : r.prev < 0
      · rw [mapPrev_neg e X hp]
        have : r.pos = 0 := by omega
        rw [this, eolPos_zero]; omega
      · have : r.prev = ((r.pos - 1 : Nat) : Int) := by omega
        rw [this, mapPrev_nat]
        have : r.pos - 1 + 1 = r.pos := by omega
        rw [this]; omega
    · intro t' ht' a b
      obtain ⟨t, h1, rfl⟩ := mem_mapTrees ht'
      rw [map_start] at a ⊢
      rw [map_stop] at b
      have hp : ((mapRd e X r).pos : Int) = eolPosZ e X (r.pos : Int) := by rw [eolPosZ_ofNat]; rfl
      rw [hp] at a b ⊢
      rw [eolPosZ_le_iff] at a
      rw [eolPosZ_lt_iff] at b
      rw [d2 t h1 a b]

/-! ### `current` -/

/-- The byte at the reader's position outside an Indent node. -/
def raw (src : Bytes) (r : Rd) : UInt8 :=
  if src.getD r.pos 0 == 0 then nullReplacementString.getD r.vpos 0 else src.getD r.pos 0

theorem current_val {src : Bytes} (hc : Ctx src is) (h : RI src is r) :
    (r.current src).1 = if r.pos ≥ src.length then 0 else
      match r.spans.head? with
      | some t => if isIndent t then SP else raw src r
      | none => raw src r := by
  unfold Rd.current
  by_cases hp : r.pos ≥ src.length
  · rw [if_pos hp, if_pos hp]
  · rw [if_neg hp, if_neg hp, currentNode_eq hc h]
    cases r.spans.head? with
    | none => simp only [raw]; split <;> rfl
    | some t =>
      simp only [raw]
      split
      · rfl
      · split <;> rfl

theorem nullRepl_ne_LF (v : Nat) : nullReplacementString.getD v 0 ≠ LF := by
  rcases Nat.lt_or_ge v 3 with h | h
  · exact (nullRepl_ne_zero h).2.1
  · rw [nullRepl_ge h]; decide

theorem e_head (he : StdEol e) : e.getD 0 0 ≠ 0 ∧ (e.getD 0 0 = LF ∨ e.getD 0 0 = CR) := by
  rcases he with h | h | h <;> subst h <;> decide

/-- The raw byte of the mapped reader. -/
theorem raw_map (he : StdEol e) (hp : r.pos < (X.take k).length) :
    raw (toEol e (X.take k)) (mapRd e X r) = trB e (raw (X.take k) r) := by
  unfold raw trB
  show (if (toEol e (X.take k)).getD (eolPos e X r.pos) 0 == 0 then nullReplacementString.getD r.vpos 0
    else (toEol e (X.take k)).getD (eolPos e X r.pos) 0) = _
  by_cases hb : (X.take k).getD r.pos 0 = LF
  · have := byte_lf (e := e) he hp hb (i := 0) (by rcases stdEol_len he with h | h <;> omega)
    rw [Nat.add_zero] at this
    rw [this, hb]
    have h1 : (LF == (0 : UInt8)) = false := by decide
    have h2 : (e.getD 0 0 == 0) = false := by simpa using (e_head he).1
    rw [h1, h2]
    simp
  · rw [byte_ne he hp hb]
    by_cases hz : ((X.take k).getD r.pos 0 == 0) = true
    · rw [if_pos hz, if_neg (nullRepl_ne_LF _)]
    · rw [if_neg hz, if_neg hb]

theorem current_map (he : StdEol e) (hcr : NoCR X) (hc : Ctx (X.take k) is) (htab : TabsOK (X.take k) is)
    (h : RI (X.take k) is r) :
    (Rd.current (toEol e (X.take k)) (mapRd e X r)).1 = trB e ((r.current (X.take k)).1) := by
  rw [current_val (ctx_map he hcr hc htab) (ri_map h), current_val hc h]
  have hlen : (mapRd e X r).pos ≥ (toEol e (X.take k)).length ↔ r.pos ≥ (X.take k).length := by
    have := pos_lt_iff (e := e) (X := X) (k := k) he r.pos
    show eolPos e X r.pos ≥ _ ↔ _
    omega
  by_cases hp : r.pos ≥ (X.take k).length
  · rw [if_pos hp, if_pos (hlen.2 hp)]; rfl
  · rw [if_neg hp, if_neg (fun hh => hp (hlen.1 hh))]
    have hraw := raw_map (e := e) (X := X) (k := k) (r := r) he (by omega)
    show (match (mapTrees (eolPosZ e X) r.spans).head? with
      | some t => if isIndent t then SP else raw _ (mapRd e X r)
      | none => raw _ (mapRd e X r)) = _
    cases hs : r.spans with
    | nil => simp only [mapTrees, List.head?_nil]; exact hraw
    | cons t rest =>
      simp only [mapTrees, List.head?_cons, isIndent_map]
      split
      · rfl
      · exact hraw

/-- `current` does not move either reader. -/
theorem current_map_eq (he : StdEol e) (hcr : NoCR X) (hc : Ctx (X.take k) is) (htab : TabsOK (X.take k) is)
    (h : RI (X.take k) is r) :
    Rd.current (toEol e (X.take k)) (mapRd e X r) = (trB e ((r.current (X.take k)).1), mapRd e X r) := by
  rw [current_eq (ctx_map he hcr hc htab) (ri_map h), current_map he hcr hc htab h]

end

end CM.Proofs.ERd
