import CM.Proofs.GrammarLooseLine
import CM.Proofs.BlocksGrammarSpec
/-
C05, block half — **a list and its items agree on looseness** (`Spec.grammarAt`, `BK.list` branch:
`c.label.loose == l.loose`; the public accessor `IsTightList` of a list and of each of its items).

`PBLoose b` (file `GrammarLooseDefs`): at every list block of `b` every block child carries the list's `loose` flag, and a
loose list is closed. Theorems here:

* `processLine_loose` — one line keeps `PBLoose` of the root (under the start-of-line invariant and the grammar);
* `blocksLP_loose` — along ANY sequence of lines from the empty document (any sources, any line starts);
* `pbToTree_list_loose`, `spec_grammarAt_list` — what `PBGrammar` and `PBLoose` say about the exported tree `pbToTree b`:
  `Spec.grammarAt` holds at every list node;
* the stream machine: `drain_loose_of` (generic, with the side condition `CutOK` at every `makeRoot`: no loose list of the
  blocks left pending is closed before the end of the root that is cut off), discharged for `Parse` and for the
  streaming parser in `GrammarLooseStream.lean` (through the span theorems of C02).
-/
namespace CM.Proofs
open CM CM.Model CM.Gen
open CM.Proofs.BT CM.Proofs.BG CM.Proofs.GL

/-- What is preserved from one line to the next: `LPG` (no panic, document root, grammar) and looseness. -/
structure LPL (p : LP) : Prop where
  lpg : LPG p
  l : PBLoose p.root

namespace GL

theorem processLine_LI' (x : PExt) (p : LP) (h : GI p) (hl : PBLoose p.root) : LI (processLine x p) := by
  refine ⟨processLine_G x p h, ?_⟩
  unfold processLine
  have d : LI (descendOpenBlocks x p).2 := descendLoop_LI x _ p 0 ⟨h.setDepth 0 (Nat.zero_le _), ⟨hl, SO.zero _⟩⟩
  generalize descendOpenBlocks x p = r at d
  obtain ⟨allMatched, p1⟩ := r
  simp only [] at d ⊢
  split
  · exact d.lt
  · have o := openNewBlocks_post x p1 allMatched d.gi.inv
    have oG := openNewBlocks_G x p1 allMatched d.gi
    have oL := openNewBlocks_LT x p1 allMatched d
    generalize openNewBlocks x p1 allMatched = r2 at o oG oL
    obtain ⟨hasText, p2⟩ := r2
    simp only [] at o oG oL ⊢
    split
    · rename_i ht
      exact addLineText_LT x p2 ⟨⟨o.inv, oG⟩, oL⟩ (o.st ht)
    · exact oL

end GL

/-- **`PBLoose` is an invariant of `processLine`.** -/
theorem processLine_loose (x : PExt) (p : LP) (hinv : LPInv p) (hg : PBGrammar p.root) (hl : PBLoose p.root) :
    PBLoose (processLine x p).root :=
  (processLine_LI' x p ⟨hinv.toInv, hg⟩ hl).lt.1

theorem blocksLP_line_LPL (x : PExt) (lp : LP) (h : LPL lp) (source : Bytes) (lineStart : Nat) :
    LPL ((blocksLP x).line lp source lineStart) := by
  refine ⟨blocksLP_line_LPG x lp h.lpg source lineStart, ?_⟩
  exact (processLine_LI' x _ (reset_GI lp h.lpg source lineStart) (by rw [reset_root]; exact h.l)).lt.1

/-- Pending blocks: each satisfies `PBLoose`. -/
def KidsL (bs : List PB) : Prop := ∀ b ∈ bs, PBLoose b

theorem docRoot_L (bs : List PB) (h : KidsL bs) : PBLoose (docRoot bs) := by
  unfold docRoot
  rw [PBLoose_mk]
  exact ⟨looseLocal_of_ne _ (by decide), h⟩

theorem kidsL_of_root (b : PB) (h : PBLoose b) : KidsL b.blocks := by
  obtain ⟨l, bs, is⟩ := b
  exact ((PBLoose_mk l bs is).1 h).2

theorem new_LPL (x : PExt) (bs : List PB) (h : KidsOK bs) (hl : KidsL bs) : LPL ((blocksLP x).new bs) :=
  ⟨new_LPG x bs h, docRoot_L bs hl⟩

theorem feedLines_LPL (x : PExt) (lines : List (Bytes × Nat)) : ∀ lp : LP, LPL lp → LPL (feedLines x lp lines) := by
  induction lines with
  | nil => intro lp h; exact h
  | cons l rest ih => intro lp h; exact ih _ (blocksLP_line_LPL x lp h l.1 l.2)

/-- **Along any sequence of lines from the empty document, every list of the tree agrees with its items on `loose`**
    (any sources, any line starts). -/
theorem blocksLP_loose (x : PExt) (lines : List (Bytes × Nat)) :
    PBLoose (feedLines x ((blocksLP x).new []) lines).root :=
  (feedLines_LPL x lines _ (new_LPL x [] (fun _ h => by cases h) (fun _ h => by cases h))).l

/-! ### every list block; the exported tree -/

namespace GL

/-- `PBLoose` holds at every block of the tree. -/
theorem PBLoose_nodes : ∀ b : PB, PBLoose b → ∀ c ∈ pbNodes b, looseLocal c.label c.blocks = true := by
  apply PB.ind
  intro l bs is ih h c hc
  rw [pbNodes, List.mem_cons] at hc
  rcases hc with rfl | hc
  · exact ((PBLoose_mk l bs is).1 h).1
  · obtain ⟨b, hb, hcb⟩ := mem_pbNodesL hc
    exact ih b hb (((PBLoose_mk l bs is).1 h).2 b hb) c hcb

/-- The statement in plain words: every item of every list block of the tree has the list's flag. -/
theorem PBLoose_items {b : PB} (h : PBLoose b) : ∀ c ∈ pbNodes b, c.kind = BK.list → ∀ i ∈ c.blocks, i.label.loose = c.label.loose :=
  fun c hc hk => ((looseLocal_iff c.label c.blocks).1 (PBLoose_nodes b h c hc) hk).1

theorem pbToTree_loose (b : PB) : (pbToTree b).label.loose = b.label.loose := by
  obtain ⟨l, bs, is⟩ := b; rfl

theorem pbToTree_char (b : PB) : (pbToTree b).label.char = b.label.char := by
  obtain ⟨l, bs, is⟩ := b; rfl

/-- **`Spec.grammarAt` holds at an exported list block**: non-empty, only list items, the same kind of delimiter, and the
    same looseness (`IsTightList` of the list = `IsTightList` of every item). -/
theorem spec_grammarAt_list (b : PB) (hG : PBGrammar b) (hL : PBLoose b) (hk : b.kind = BK.list) :
    Spec.grammarAt (pbToTree b) = true := by
  obtain ⟨l, bs, is⟩ := b
  have hk' : l.kind = BK.list := hk
  have hloc := ((PBGrammar_mk l bs is).1 hG).1
  obtain ⟨_, _, hne, hitems⟩ := grammar_list_shape hk' hloc
  have hlo := ((looseLocal_iff l bs).1 ((PBLoose_mk l bs is).1 hL).1 hk').1
  unfold Spec.grammarAt
  simp only []
  rw [pbToTree_children]
  have hlab : (pbToTree (.mk l bs is)).label.isBlock = true ∧ (pbToTree (.mk l bs is)).label.kind = l.kind ∧
      (pbToTree (.mk l bs is)).label.char = l.char ∧ (pbToTree (.mk l bs is)).label.loose = l.loose := ⟨rfl, rfl, rfl, rfl⟩
  rw [hlab.1, hlab.2.1, hlab.2.2.1, hlab.2.2.2, hk']
  have hbe : bs.isEmpty = false := by
    cases bs with
    | nil => exact absurd rfl hne
    | cons a t => rfl
  simp only [BK.list, BK.paragraph, BK.thematicBreak, BK.atxHeading, BK.setextHeading, BK.indentedCode, BK.fencedCode,
    BK.htmlBlock, BK.linkRefDef, BK.blockQuote, BK.listItem, Nat.reduceBEq, Bool.false_eq_true, if_false, if_true, hbe,
    Bool.and_eq_true, Bool.not_eq_true', List.isEmpty_eq_false_iff, List.all_eq_true, beq_iff_eq]
  refine ⟨?_, ?_⟩
  · intro hnil
    have : bs = [] := by simpa using hnil
    exact hne this
  · intro t ht
    rw [List.mem_map] at ht
    obtain ⟨c, hc, rfl⟩ := ht
    refine ⟨⟨?_, ?_⟩, ?_⟩
    · unfold Spec.T.isB
      rw [(pbToTree_label c).1, (pbToTree_label c).2, (hitems c hc).1]
      rfl
    · rw [pbToTree_char, (hitems c hc).2]
    · rw [pbToTree_loose, hlo c hc]

end GL

/-! ### the stream machine, generically -/

/-- The side condition at a cut: no loose list of the blocks left pending is closed before the end of the block cut off
    (so that re-basing does not make a closed list look open). It follows from the span discipline of C02. -/
def CutOK (k : PB) (rest : List PB) : Prop := ∀ b ∈ rest, LooseAfter (k.label.stop.toNat : Int) b

theorem KidsL_offsetPBs (n : Int) (bs : List PB) (h : KidsL bs) (hc : ∀ b ∈ bs, LooseAfter (-n) b) : KidsL (offsetPBs n bs) := by
  intro b hb
  rw [offsetPBs_eq_map, List.mem_map] at hb
  obtain ⟨c, hc', rfl⟩ := hb
  exact PBL_offsetPB n c (hc c hc') (h c hc')

theorem makeRoot_L {p : BP} {kids : List PB} {r : Root} {p' : BP} (h : makeRoot p kids = some (r, p'))
    (hk : KidsL kids) (hcut : ∀ k rest, kids = k :: rest → CutOK k rest) : PBLoose r.block ∧ KidsL p'.blocks := by
  unfold makeRoot at h
  split at h
  · cases h
  · rename_i k rest
    split at h
    · cases h
    · simp only [Option.some.injEq, Prod.mk.injEq] at h
      obtain ⟨rfl, rfl⟩ := h
      refine ⟨hk k (List.mem_cons_self ..), ?_⟩
      apply KidsL_offsetPBs _ rest (fun b hb => hk b (List.mem_cons_of_mem _ hb))
      intro b hb
      have := hcut k rest rfl b hb
      simpa using this

/-! ### Non-vacuity -/

section Examples

/-- `PBLoose` is satisfiable and not trivially true. -/
example : PBLoose btEnd.root := blocksLP_loose btX _
example : pbLoose btEnd.root = true := by decide +kernel
-- a loose list with a tight item, and an open loose list, are rejected
example : pbLoose (.mk { kind := BK.list, start := 0, stop := 5, loose := true }
    [.mk { kind := BK.listItem, start := 0, stop := 5 } [] []] []) = false := by decide +kernel
example : pbLoose (.mk { kind := BK.list, start := 0, loose := true }
    [.mk { kind := BK.listItem, start := 0, loose := true } [] []] []) = false := by decide +kernel
example : pbLoose (.mk { kind := BK.list, start := 0, stop := 5, loose := true }
    [.mk { kind := BK.listItem, start := 0, stop := 5, loose := true } [] []] []) = true := by decide +kernel

-- the hypotheses of `processLine_loose` on a non-trivial input
example : PBLoose (processLine btX btP).root :=
  processLine_loose btX btP (reset_LPInv _ (new_LPInv' btX []) _ _) (by decide +kernel) (by decide +kernel)

end Examples

end CM.Proofs
