import CM.Proofs.ItemEof
import CM.Proofs.QuoteGRun
/-
C09 (list-item half), the statement.  `item m N D`: the first line of `D` is prefixed with the list marker `m` and `N`
spaces, every other line with `|m| + N` spaces.  `psiSk` / `psiEk` map the offsets of `D` to offsets of `item m N D`
(as `psiS` / `psiE` for block quotes, with prefixes of width `k = |m| + N`).

* `blocks_item_sim_target` — the exact statement: the block phase of `item m N D` delivers one list with one item whose
  children are the list marker and the blocks of `D` with every span mapped through `psiSk` / `psiEk`.  Hypotheses: `D`
  is clean, not empty, begins with a non-space, has no blank line; `1 ≤ N ≤ 4`; the first line of `item m N D` is not
  a thematic break.
* it fails, for the same reason as the block-quote statement (a link reference definition followed by a setext
  underline: the synthetic paragraph starts at the line start on both sides); by evaluation only, see the comment below.
* `item_thematic_break` — the hypothesis about thematic breaks is needed: `* ` in front of `* *` is a thematic break.
* `ItemRelated`, `blocks_item_rel_target` — the relational statement (the analogue of `QuoteRelated`).  It is **not
  proved** at the level of the stream machine; what is proved are the three line-level theorems from which it follows
  in the same way as for block quotes: `processLine_first_simI` (first line), `processLine_simI` (the other lines),
  `processLine_eof_simI` (the end of the input).
-/
namespace CM.Proofs.Item
open CM CM.Model CM.Gen CM.Proofs.Quote

/-- `item`, behind the prefix of the current line. -/
def igo (pre : Bytes) : Bytes → Bytes
  | [] => []
  | c :: rest => if c = LF then (if rest = [] then [LF] else LF :: (pre ++ igo pre rest)) else c :: igo pre rest

/-- The first line prefixed with the marker and `N` spaces, the others with `|m| + N` spaces. -/
def item (m : Bytes) (N : Nat) (D : Bytes) : Bytes :=
  if D = [] then [] else m ++ spaces N ++ igo (spaces (m.length + N)) D

/-- Position map for starts, prefixes of width `k`. -/
def psiSk (k : Nat) (D : Bytes) (j : Nat) : Nat := j + k * (1 + nLF D j)
/-- Position map for ends, prefixes of width `k`. -/
def psiEk (k : Nat) (D : Bytes) (j : Nat) : Nat := if j = 0 then 0 else j + k * (1 + nLF D (j - 1))

mutual
def mapTreeK (k : Nat) (D : Bytes) (off : Nat) : Tree → Tree
  | .node l cs => .node { l with start := psiSk k D (l.start.toNat + off), stop := psiEk k D (l.stop.toNat + off) } (mapTreesK k D off cs)
def mapTreesK (k : Nat) (D : Bytes) (off : Nat) : List Tree → List Tree
  | [] => []
  | t :: ts => mapTreeK k D off t :: mapTreesK k D off ts
end

/-- What the exact statement predicts for `item m N D`. -/
def itemExpected (x : PExt) (m : Bytes) (N : Nat) (D : Bytes) : List Tree :=
  let Q := item m N D
  let dl := (parseListMarker m).delim
  [.node { isBlock := true, kind := BK.list, start := 0, stop := Q.length, char := dl }
    [.node { isBlock := true, kind := BK.listItem, start := 0, stop := Q.length, char := dl, indent := (m.length + N : Nat) }
      (.node { isBlock := true, kind := BK.listMarker, start := 0, stop := m.length } [] ::
        (runBlocks x D).1.map fun r => mapTreeK (m.length + N) D r.startOffset (pbToTree r.block))]]

def itemActual (x : PExt) (m : Bytes) (N : Nat) (D : Bytes) : List Tree :=
  (runBlocks x (item m N D)).1.map fun r => pbToTree r.block

def itemExact (x : PExt) (m : Bytes) (N : Nat) (D : Bytes) : Bool := eqTs (itemExpected x m N D) (itemActual x m N D)

/-- `m` is a list marker (followed by a space, it is recognised in full). -/
def markerOK (m : Bytes) : Bool :=
  decide (1 ≤ m.length) && decide ((parseListMarker (m ++ [SP, 0x61])).stop = (m.length : Int))

/-- Every line satisfies `f`. -/
def allLines (f : Bytes → Bool) : Nat → Bytes → Bool
  | 0, _ => true
  | n + 1, b => if b = [] then true else f (b.take (lineLen b)) && allLines f n (b.drop (lineLen b))

/-- No line is blank. -/
def noBlankB (D : Bytes) : Bool := allLines (fun l => !isBlankLine l) D.length D

/-- **The exact block-phase statement of C09 (list items).** -/
def blocks_item_sim_target : Prop :=
  ∀ (x : PExt) (m : Bytes) (N : Nat) (D : Bytes), markerOK m = true → 1 ≤ N → N ≤ 4 → Clean D → D ≠ [] →
    D.head? ≠ some SP → noBlankB D = true →
    parseThematicBreak ((item m N D).take (lineLen (item m N D))) < 0 → itemExact x m N D = true

def dash : Bytes := Bytes.ofString "-"
def star : Bytes := Bytes.ofString "*"

-- `#eval itemExact qX dash 1 qW1` is `false` (`qW1` = `[a]: /u` + setext underline): the synthetic paragraph of the
-- underline starts at 12 = `psiSk 2 qW1 8` according to the exact statement, but at 10 (the line start, before the
-- indentation) in the parse of `item "-" 1 qW1` — the same defect as for block quotes (`qW1_fails`).  So
-- `blocks_item_sim_target` is false.  This stays a comment: the kernel does not reduce the parse of this input
-- (`decide +kernel` gets stuck, as it does for `collectTextNodes`) and no other evaluation is allowed.

/-- Without the hypothesis on thematic breaks: `* ` in front of `* *` is a thematic break, not a list item. -/
theorem item_thematic_break :
    itemExact qX star 1 (Bytes.ofString "* *\n") = false ∧
    0 ≤ parseThematicBreak ((item star 1 (Bytes.ofString "* *\n")).take (lineLen (item star 1 (Bytes.ofString "* *\n")))) := by
  constructor <;> decide +kernel

-- the statement holds on ordinary documents, for bullet and ordered markers and every padding
example : itemExact qX dash 1 (Bytes.ofString "a\n===\n# h\n- b\n  c\n> q\n```\nx") = true := by decide +kernel
example : itemExact qX (Bytes.ofString "12)") 3 (Bytes.ofString "para\nmore\n    code\n<div>\nx\n") = true := by decide +kernel
example : itemExact qX (Bytes.ofString "+") 4 (Bytes.ofString "para (a)\n1. one\n2. two\n***\n") = true := by decide +kernel

/-! ### an instance of `startListItem_fresh` -/

/-- The line parser in front of the first line `12)  foo` of a fresh document. -/
def lp0 : LP :=
  { source := Bytes.ofString "12)  foo\n", root := docRoot [], lineStart := 0, line := Bytes.ofString "12)  foo\n", state := stateOpening }

-- marker `12)` of width 3, two spaces of padding: the tree becomes document > list > item (content offset 5) > marker
example : Snap lp0 (startListItem qX lp0)
    (firstRoot (docRoot []).label [] lp0.lineStart (Bytes.ofString "12)").length 0x29
      (((0 : Nat) : Int) + (((Bytes.ofString "12)").length : Nat) : Int) + ((2 : Nat) : Int)))
    2 ((Bytes.ofString "12)").length + 2) stateOpenMatched :=
  startListItem_fresh qX lp0 (docRoot []).label [] (Bytes.ofString "12)") (Bytes.ofString "foo\n") 2 12 0x29 rfl rfl rfl rfl rfl
    ⟨by decide +kernel, fun _ h => absurd h (by decide +kernel)⟩ (by decide +kernel) (by decide +kernel) (by decide +kernel)
    (by decide +kernel) (by decide) (by decide) (by decide +kernel) (by decide +kernel) (by decide +kernel)

/-! ### the relational statement -/

/-- Corresponding positions: `a` (relative to offset `c` of `D`) and `a'` in `item m N D`. -/
def PRabsK (k : Nat) (D : Bytes) (c : Nat) (a a' : Int) : Prop :=
  0 ≤ a ∧ (a' = (psiSk k D (a.toNat + c) : Nat) ∨ a' = (psiEk k D (a.toNat + c) : Nat))

/-- The environment in which a root block of `D` that starts at offset `c` is compared with its image. -/
def envAtI (DR : List Tree → List Tree → Prop) (m : Bytes) (N : Nat) (D : Bytes) (c : Nat) : Env :=
  { PR := PRabsK (m.length + N) D c, src := D.drop c, src' := item m N D, DR := DR }

/-- `L` is the list with one item around the blocks of the roots `rs` of `D`. -/
structure ItemRelated (DR : List Tree → List Tree → Prop) (m : Bytes) (N : Nat) (dl : UInt8) (D : Bytes) (rs : List Root)
    (L : PB) : Prop where
  shape : ∃ ll il kids, L = .mk ll [.mk il kids []] [] ∧
    (ll.kind = BK.list ∧ ll.start = 0 ∧ ll.stop = (item m N D).length ∧ ll.n = 0 ∧ ll.char = dl ∧ ll.indent = 0) ∧
    (il.kind = BK.listItem ∧ il.start = 0 ∧ il.stop = (item m N D).length ∧ il.n = 0 ∧ il.char = dl ∧
      il.indent = ((m.length + N : Nat) : Int) ∧ il.loose = ll.loose) ∧
    ∃ ks : List PB, kids.map pbToTree = markerTree m.length :: ks.map pbToTree ∧
      L2 (fun (r : Root) k => BR (envAtI DR m N D r.startOffset) r.block k) rs ks

/-- The relational block-phase statement (not proved at the level of the stream machine). -/
def blocks_item_rel_target (DR : Bytes → Nat → Bytes → List Tree → List Tree → Prop) : Prop :=
  ∀ (x : PExt) (m : Bytes) (N : Nat) (D : Bytes), markerOK m = true → 1 ≤ N → N ≤ 4 → Clean D → D ≠ [] →
    D.head? ≠ some SP → noBlankB D = true → NoULD D →
    parseThematicBreak ((item m N D).take (lineLen (item m N D))) < 0 →
    ∃ (rq : Root) (pQ : BP),
      drain (blocksLP x) ((item m N D).length + 8) (memParser (item m N D)) [] = ([rq], .err .eof, pQ) ∧
      rq.source = item m N D ∧ rq.startOffset = 0 ∧ rq.endOffset = (item m N D).length ∧
      ItemRelated (DR m N D) m N (parseListMarker m).delim D (drain (blocksLP x) (D.length + 8) (memParser D) []).1 rq.block

end CM.Proofs.Item
