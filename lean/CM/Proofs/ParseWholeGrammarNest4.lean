import CM.Proofs.ParseWholeGrammarNest3
/-
C05, clause (iii) — the ghost invariant on states, part 2: the two kinds of `wrap`.
-/
namespace CM.Proofs.InlH
open CM CM.Model CM.Model.Inl CM.Spec

theorem actN_sub_drop (st : Array DelimE) (b3 : Nat) : ∀ x ∈ actN st b3, x ∈ (stN st).drop b3 := by
  intro x hx
  unfold actN at hx
  unfold stN
  obtain ⟨e, he, rfl⟩ := List.mem_map.1 hx
  rw [← List.map_drop]
  exact List.mem_map_of_mem (List.mem_filter.1 he).1

/-- **an emphasis `wrap` between the upper entries `oi < cur`, then `delStack (oi+1) cur`** keeps the clean set -/
theorem CLE.wrapEmph {s s5 s4 : IState} {b P0 b3 : Nat} (h : Om s b P0) (hC : CLE s b3) {kind o c r oi cur : Nat}
    (hW : WrapPost s s5 kind o (some c) r) (hkind : kind = IK.emphasis ∨ kind = IK.strong)
    (hb : b ≤ oi) (hoc : oi < cur) (ho : (stN s.stack)[oi]? = some o) (hc : (stN s.stack)[cur]? = some c)
    (hd : s4 = delState s5 (oi + 1) cur) (hb3 : b3 ≤ oi + 1) : CLE s4 b3 := by
  have hO4 : Om s4 b P0 := (pe_wrap h hW hkind hb hoc ho hc hd).1
  subst hd
  obtain ⟨P, si, ei, nd, hj, hk, _, _, hsi, _, hso, hse, hne, _, hn, hst, hpm⟩ := hW
  have hol := getElem?_lt ho
  have hoU : o ∈ (stN s.stack).drop b := by
    have := list_split_at ho
    rw [this, List.append_assoc, List.drop_append_of_le_length (by rw [List.length_take]; omega)]
    simp
  have hPe : P = P0 := by
    have := h.2.upperP o hoU
    rw [hj] at this; exact Option.some.inj this
  subst hPe
  obtain ⟨C, hCL⟩ := hC
  refine ⟨fun i => C i ∨ (i = s.nodes.size ∧ ∀ m ∈ mvL (kidsL s.nodes P) si ei, C m), ?_⟩
  show CL s5.nodes s5.parentMap (actN (s5.stack.extract 0 (oi + 1) ++ s5.stack.extract cur s5.stack.size) b3) _
  rw [hn]
  refine hCL.wrapEmph h.2.p0 hse (by rw [hk]; exact hkind) hpm ?_
  intro x hx
  have hxA : x ∈ actN s.stack b3 := by
    rw [hst] at hx
    exact actN_del _ hb3 (by omega) x hx
  obtain ⟨hxl, hxQ⟩ := h.actv b3 x hxA
  refine ⟨hxA, hxl, ?_, hxQ⟩
  intro hmv
  have hxN4 := actN_sub _ _ x hx
  have hpm' := hpm.moved x (by unfold wrapMoved; rw [extract_toList]; exact hmv) hxl
  rcases hO4.2.parent hxN4 with e | e
  · rw [show (delState s5 (oi + 1) cur).parentMap = s5.parentMap from rfl, hpm'] at e
    have := Option.some.inj e; have := h.1.pos; omega
  · rw [show (delState s5 (oi + 1) cur).parentMap = s5.parentMap from rfl, hpm'] at e
    have := Option.some.inj e; have := h.2.p0; omega

/-- from which stack index on the clean-set clause for active openers holds after the `wrap` of a link / image -/
def bk (kind odi : Nat) : Nat := if kind = IK.link then odi + 1 else 0

/-- **the `wrap` that makes a link / image**: for a link, the opener has to be an active `[` -/
theorem CLE.wrapLink {s s5 : IState} (h : Om s 0 0) (hC : CLE s 0) {kind o r odi : Nat}
    (hW : WrapPost s s5 kind o none r) (hkind : isLinkKind kind) (ho : (stN s.stack)[odi]? = some o)
    (hact : kind = IK.link → o ∈ actN s.stack 0) : CLE s5 (bk kind odi) := by
  have hO5 := (Om.wrapLink h hW hkind ho).1
  obtain ⟨P, si, ei, nd, hj, hk, hnr, hr, hsi, _, hso, hse, _, hei, hn, hst, hpm⟩ := hW
  have hoN : o ∈ stN s.stack := List.mem_of_getElem? ho
  have hPe : P = 0 := by
    have := h.2.upperP o (by rw [List.drop_zero]; exact hoN)
    rw [hj] at this; exact Option.some.inj this
  subst hPe
  have ho0 : o ≠ 0 := by
    intro e
    have := (h.2.stk o hoN).2
    rw [e, h.1.root] at this
    revert this; decide
  have hso' : (kidsL s.nodes 0)[si - 1]? = some o := getElem!_toList hso ho0
  have hsplit := list_split_at hso'
  have e1 : si - 1 + 1 = si := by omega
  rw [e1] at hsplit
  obtain ⟨C, hCL⟩ := hC
  refine ⟨fun i => C i ∨ (i = s.nodes.size ∧ nd.kind ≠ IK.link ∧ ∀ m ∈ mvL (kidsL s.nodes 0) si ei, C m), ?_⟩
  show CL s5.nodes s5.parentMap (actN s5.stack (bk kind odi)) _
  rw [hn, hst]
  refine hCL.wrapTop h.1.root h.1.pos hse hpm ?_ ?_
  · intro hl m hm
    rw [hk] at hl
    refine hCL.c3 o (hact hl) 0 hj m ?_
    refine ⟨(kidsL s.nodes 0).take (si - 1), (kidsL s.nodes 0).drop si, by rw [List.append_assoc] at hsplit; exact hsplit, ?_⟩
    exact (List.take_sublist _ _).subset hm
  · intro x hx
    have hxA : x ∈ actN s.stack 0 := actN_mono _ (Nat.zero_le _) x hx
    have hxN := actN_sub _ _ x hxA
    refine ⟨hxA, (h.2.stk x hxN).1, h.2.upperP x (by rw [List.drop_zero]; exact hxN), ?_⟩
    intro hl
    rw [hk] at hl
    have hbk : bk kind odi = odi + 1 := by unfold bk; rw [if_pos hl]
    rw [hbk] at hx
    have hxU := actN_sub_drop _ _ x hx
    have hup := hO5.2.upperP x (by rw [hst]; exact hxU)
    rw [hr] at hup
    have hxl := (h.2.stk x hxN).1
    refine Classical.byContradiction fun hmv => ?_
    rw [hpm.other x hxl (by unfold wrapMoved; rw [extract_toList]; exact hmv),
      h.2.upperP x (by rw [List.drop_zero]; exact hxN)] at hup
    have := Option.some.inj hup; have := h.1.pos; omega

end CM.Proofs.InlH
