import CM.Proofs.QuoteStep
/-
C09 (block-quote half), step (4): the stream machine. Definitions and the two bookkeeping lemmas — a root block is cut
off on the bare side (`rootR_cut`), and the roots already delivered (`Done`).
-/
namespace CM.Proofs.Quote
open CM CM.Model CM.Gen CM.Proofs.BT CM.Proofs.BSp

/-- Re-basing does not affect the relation between the inline children of link reference definitions. -/
def DRShift (DR : List Tree → List Tree → Prop) : Prop :=
  ∀ (n : Nat) (is is' : List Tree), DR is is' → DR (offsetTrees (-(n : Int)) is) is'

theorem take_drop_comm (l : Bytes) (i n : Nat) : (l.take i).drop n = (l.drop n).take (i - n) := by
  rw [List.drop_take]

theorem prabs_shift (D : Bytes) (c n : Nat) (a a' : Int) (hn : (n : Int) ≤ a) (h : PRabs D c a a') :
    PRabs D (c + n) (a - n) a' := by
  obtain ⟨h0, hx⟩ := h
  refine ⟨by omega, ?_⟩
  have e : (a - (n : Int)).toNat + (c + n) = a.toNat + c := by omega
  rw [e]
  exact hx

theorem envOf_shift (DR : List Tree → List Tree → Prop) (hDR : DRShift DR) (D : Bytes) (c i s' n : Nat) (done done2 : List Tree) :
    Env.Shift (envOf DR D c i s' done) (envOf DR D (c + n) (i - n) s' done2) n :=
  ⟨fun a a' hn h => prabs_shift D c n a a' hn h,
   by show (D.drop (c + n)).take (i - n) = ((D.drop c).take i).drop n
      rw [take_drop_comm, List.drop_drop],
   rfl, fun is is' h => hDR n is is' h⟩

theorem pbToTree_setBlank (b : PB) (v : Bool) :
    pbToTree (b.setLabel fun l => { l with lastLineBlank := v }) = pbToTree b := by
  obtain ⟨l, bs, is⟩ := b
  simp only [PB.setLabel, pbToTree]

/-- **A root block is cut off on the bare side.** Its image moves to the delivered part of the block quote; the pending
    blocks are re-based. -/
theorem rootR_cut (DR : List Tree → List Tree → Prop) (hDR : DRShift DR) (D : Bytes) (c i s' : Nat) (done : List Tree)
    (k : PB) (rest : List PB) (P Q : PB) (hP : P.blocks = k :: rest) (h : RootR (envOf DR D c i s' done) P Q)
    (hk : 0 ≤ k.label.stop) {po : Bool} {lo e : Int} (hsp : PBSpansL QT po lo e (k :: rest)) :
    ∃ k', BR (envOf DR D c i s' done) k k' ∧
      RootR (envOf DR D (c + k.label.stop.toNat) (i - k.label.stop.toNat) s' (done ++ [pbToTree k']))
        (docRoot (offsetPBs (-(k.label.stop.toNat : Int)) rest)) Q := by
  obtain ⟨lq, isQ, Qb, rfl, h1, h2, ht⟩ := h
  obtain ⟨pre, bs', e1, hpre, hr⟩ := ht.kids
  rw [hP] at hr
  cases hr with
  | cons rk rrest =>
    rename_i k' rest'
    refine ⟨k', rk, lq, isQ, Qb, rfl, h1, h2, ?_⟩
    rw [PBSpansL_cons] at hsp
    obtain ⟨s1, s2, s3⟩ := hsp
    have hb := PBSpans_closed_bounds s1 hk
    have hn : ((k.label.stop.toNat : Nat) : Int) = k.label.stop := Int.toNat_of_nonneg hk
    have hsh := envOf_shift DR hDR D c i s' k.label.stop.toNat done (done ++ [pbToTree k'])
    refine ⟨rfl, by show (-1 : Int) < 0; decide, ht.qlab, ht.qinl, pre ++ [k'], rest', ?_, ⟨?_, ?_⟩, ?_⟩
    · rw [e1]; simp
    · intro b hb'
      rcases List.mem_append.mp hb' with hb' | hb'
      · exact hpre.1 b hb'
      · simp only [List.mem_singleton] at hb'
        subst hb'
        have := rk.label.openIff
        by_cases h0 : b.label.stop < 0
        · have := this.mp h0; omega
        · omega
    · show (pre ++ [k']).map pbToTree = done ++ [pbToTree k']
      rw [List.map_append, hpre.2]
      rfl
    · show L2 (BR _) (offsetPBs (-(k.label.stop.toNat : Int)) rest) rest'
      exact BRs.offset hsh rest rest' rrest s3 (by omega)

/-! ### the roots already delivered -/

/-- The trees `done` of the delivered part of the block quote belong to blocks related to the delivered roots. -/
def Done (DR : List Tree → List Tree → Prop) (D : Bytes) (acc : List Root) (done : List Tree) : Prop :=
  ∃ ks : List PB, ks.map pbToTree = done ∧ L2 (fun (r : Root) k => BR (envAt DR D r.startOffset) r.block k) acc.reverse ks

theorem Done.nil (DR : List Tree → List Tree → Prop) (D : Bytes) : Done DR D [] [] := ⟨[], rfl, .nil⟩

theorem Done.snoc {DR : List Tree → List Tree → Prop} {D : Bytes} {acc : List Root} {done : List Tree} (h : Done DR D acc done)
    (r : Root) (k' : PB) (hr : BR (envAt DR D r.startOffset) r.block k') : Done DR D (r :: acc) (done ++ [pbToTree k']) := by
  obtain ⟨ks, e, hl⟩ := h
  refine ⟨ks ++ [k'], by rw [List.map_append, e]; rfl, ?_⟩
  rw [List.reverse_cons]
  exact hl.concat hr

end CM.Proofs.Quote
