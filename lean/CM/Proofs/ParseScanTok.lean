import CM.Proofs.ParseScanHtml2
import CM.Proofs.ParseScanLink
/-
C02 / C04, inline halves, for the whole of `Parse` — **the field `TokScan.html`** for a container whose inline children
satisfy `RC2` and `TailSafe` (`tokScan_html`).
-/
namespace CM.Proofs.PSc
open CM CM.Model CM.Model.Inl CM.Gen CM.Proofs CM.Proofs.PS CM.Proofs.InlH CM.Proofs.InlH2

variable {src : Bytes} {Lf : List Tree} {N : Nat}

/-- The statement of `TokScan.html`. -/
def HtmlField (c : ICtx) (hi : Int) : Prop :=
  ∀ (u : Nat) (pos : Int) (span : SpanI) (r' : Rd),
    0 ≤ pos → pos < c.srcA.size → c.srcA[pos.toNat]! = 0x3C →
    parseHTMLTag c.src c.fl (newReader (c.unparsedL.drop u) pos.toNat) = (span, r') → span.isValid = true →
    span.start = pos ∧ pos < span.stop ∧ span.stop ≤ hi ∧
    WFL span.start span.stop
      (collectTextNodes c.x.ext c.src span.stop.toNat IK.rawHTML false c.fl
        (newReader (c.unparsedL.drop u) span.start.toNat) span.start.toNat [])

/-- The statement of `TokScan2.code`. -/
def CodeField (c : ICtx) (hi : Int) : Prop :=
  ∀ (s s' : IState) (pos : Int) (cs : CodeSpan),
    0 ≤ pos → pos < c.srcA.size → c.srcA[pos.toNat]! = 0x60 →
    (parseCodeSpan c pos).run s = .ok (cs, s') → s.unparsedPos < c.unparsed.size → pos < spanEndOf c s →
    (cs.span.isValid = true →
      cs.span.start = pos ∧ pos < cs.span.stop ∧ cs.span.stop ≤ hi ∧
      ∀ t t' : IState, t.unparsedPos = s.unparsedPos → t.parentMap.size = t.nodes.size →
        (collectCodeSpan c cs).run t = .ok ((), t') →
        ∃ n : INode, n.kids = #[] ∧ n.start = cs.span.start ∧ n.stop = cs.span.stop ∧ WFL n.start n.stop n.sub ∧
          t'.nodes = addRootA t.nodes n ∧ t'.stack = t.stack ∧ t'.parentMap.size = t.parentMap.size + 1 ∧
          (∀ i, i < t.parentMap.size → t'.parentMap[i]? = t.parentMap[i]?) ∧ PosOK c t' cs.span.stop) ∧
    (cs.span.isValid = false → pos ≤ cs.content.start)

theorem tokScan_of {c : ICtx} {hi : Int} (h1 : HtmlField c hi) (h2 : CodeField c hi) : TokScan2 c hi :=
  ⟨fun l => charEsc_bound c.x.ext l, fun l h => autolink_bound l h, h1, h2⟩

theorem tokScan_html (x : IExt) (matchRef : Bytes → Bool) (hc : RC2 src Lf N) (hT : TailSafe src Lf) :
    HtmlField (inlCtx x src src.toArray matchRef Lf) (N : Int) := by
  intro u pos span r' h0 h1 _ hparse hvalid
  simp only [inlCtx] at hparse h1 ⊢
  have hp : pos.toNat < src.length := by
    have : (src.toArray.size : Int) = src.length := by simp
    omega
  have hcu := hc.drop u
  obtain ⟨g1, g2, g3⟩ := html_scan hcu.toRC (hT.drop u) pos.toNat hp _ span r' hparse hvalid
  refine ⟨by omega, by omega, g3, ?_⟩
  have e1 : span.start.toNat = pos.toNat := by omega
  have hw := collect_WFL hcu x.ext pos.toNat span.stop.toNat IK.rawHTML false (rdFuel src Lf)
    (rdFuel_drop_le src Lf u) (fun h => by cases h) (by omega)
  rw [e1]
  exact hw.mono (by omega) (by omega)

end CM.Proofs.PSc
