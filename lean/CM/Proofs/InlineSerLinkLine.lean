import CM.Proofs.InlineSerLinkFlat
import CM.Proofs.InlineSerEmLine
/-
Inline serialisation — links, part 3: the line `P1 [ P2 ]` + LF as the only run of a container
(`parseInlines_linkline`): if the normalised label of `[P2]` matches a definition, the inline phase returns the nodes of
`P1` and ONE Link node carrying the label, whose children are the nodes of `P2`.
-/
namespace CM.Proofs.InlSer
open CM CM.Gen CM.Model CM.Model.Inl CM.Proofs.EscText

/-- `parseRun` from a chain of iterations that reaches the end of the run. -/
theorem parseRun_of_reaches {c : ICtx} {src : Bytes} (hA : c.srcA = src.toArray) {f : Nat → LS → IM (ForInStep LS)}
    (hf : Steps c src f)
    (heq : ∀ s t (p a E : Nat) (last : Bool) (b : UInt8), c.unparsed[s.unparsedPos]? = some t → t.label.start = (p : Int) →
      At c a E last s → p < E → src[p]? = some b → b ≠ SP → b ≠ TAB → (parseRun c).run s = (tokLoop c f).run s)
    {E : Nat} {last : Bool} {a ps' j : Nat} {s' : IState} (s : IState)
    (hreach : Reaches f j ((a : Int), (a : Int), false) (setIgnP false s) ((E : Int), (ps' : Int), false) s')
    (hj : j + 1 ≤ src.length + 2) (hs' : At c a E last s')
    (t : Tree) (b : UInt8) (ht : c.unparsed[s.unparsedPos]? = some t) (hta : t.label.start = (a : Int))
    (hs : At c a E last s) (haE : a < E) (hb : src[a]? = some b) (hsp : b ≠ SP) (htab : b ≠ TAB) :
    (parseRun c).run s = pure ((), addLeafP IK.text (ps' : Int) (E : Int) s') := by
  rw [heq s t a a E last b ht hta hs haE hb hsp htab]
  unfold tokLoop
  simp only [StateT.run_bind, unparsedAt_run c s t ht, pure_bind, setIgn_run]
  have hrange : Std.Legacy.Range.size [:c.srcA.size + 2] = c.srcA.size + 2 := by simp [Std.Legacy.Range.size]
  rw [Std.Legacy.Range.forIn_eq_forIn_range']
  simp only [hrange, hta]
  have hsz : c.srcA.size = src.length := by rw [hA]; simp
  rw [forIn_fuel_done hreach (fun i => hf.done i E a E last _ _ hs' (Nat.le_refl _)) _ (by omega)]
  simp only [pure_bind, Bool.not_true, Bool.false_eq_true, if_false, spanEnd, StateT.run_bind, StateT.run_get, StateT.run_pure,
    addText, addLeaf_run, hs'.se]

/-- `parseBody` on a container with one Unparsed run, from ONE given state. -/
theorem parseBody_one (c : ICtx) (hsz : c.unparsed.size = 1)
    (hk : ∀ h : 0 < c.unparsed.size, (c.unparsed[0]).label.isBlock = false ∧ (c.unparsed[0]).label.kind = IK.unparsed)
    (s s' : IState) (h0 : s.unparsedPos = 0) (hrun : (parseRun c).run s = pure ((), s')) (hup : s'.unparsedPos = 0) :
    (parseBody c).run s = (Inl.processEmphasis 0).run (setUpP 1 s') := by
  unfold parseBody
  rw [StateT.run_bind, Std.Legacy.Range.forIn_eq_forIn_range']
  have hrange : Std.Legacy.Range.size [:c.unparsed.size + 1] = 2 := by simp [Std.Legacy.Range.size, hsz]
  simp only [hrange]
  generalize hg : (fun (x : Nat) (r : PUnit) => (_ : IM (ForInStep PUnit))) = g
  have h1 : (g 0 ⟨⟩).run s = pure (.yield ⟨⟩, setUpP 1 s') := by
    subst hg
    obtain ⟨hb, hkind⟩ := hk (by omega)
    simp [StateT.run_bind, h0, hsz, hb, hkind, IK.unparsed, IK.indent, hrun, hup, setUnparsedPos, setUpP]
  have h2 : (g 1 ⟨⟩).run (setUpP 1 s') = pure (.done ⟨⟩, setUpP 1 s') := by
    subst hg
    simp [StateT.run_bind, hsz, setUpP]
  rw [show (2 : Nat) = 1 + 1 from rfl, forInU_step_yield h1, forInU_step_done h2, pure_bind]

/-- What the opening bracket does: flush, one Text node `[`, one stack entry. -/
def openT (ps p : Nat) (s : IState) : IState :=
  pushStkP { elem := { typ := 3, flags := 1, n := 0 }, node := (pushAll (flushN ps p) s).nodes.size }
    (pushP (leafN IK.text p (p + 1)) (pushAll (flushN ps p) s))

theorem open_seg {c : ICtx} {src : Bytes} {f : Nat → LS → IM (ForInStep LS)} (hf : Steps c src f)
    {a E : Nat} {last : Bool} (p : Nat) (hlt : p < E) (hb : src[p]? = some 0x5B) (ps : Nat) :
    Seg c f a E last p ps (p + 1) (p + 1) (openT ps p) :=
  Seg.ofStep (by omega) (fun s => by simp [openT, pushAll_up]) (fun s hs i => by
    have := hf.openB i p a E last (ps : Int) s hs hlt hb
    rw [this, addText_flush]
    rfl)

theorem openT_mkF (ps p : Nat) (cs ce : Int) (up : Nat) (ign : Bool) (L : List INode) (K : Array DelimE) :
    openT ps p (mkF cs ce up ign L K) =
      mkF cs ce up ign (L ++ flushN ps p ++ [leafN IK.text p (p + 1)])
        (K.push { elem := { typ := 3, flags := 1, n := 0 }, node := (L ++ flushN ps p).length + 1 }) := by
  unfold openT
  rw [pushAll_mkF, pushP_mkF, pushStkP_mkF]
  congr 2

/-- The line `P1 [ P2 ]` + LF. -/
structure LinkLine where
  P1 : List SPiece
  P2 : List SPiece

def LinkLine.t2 (l : LinkLine) : Bytes := pbytes l.P2 ++ [0x5D, LF]
def LinkLine.bytes (l : LinkLine) : Bytes := pbytes l.P1 ++ (0x5B :: l.t2)
def LinkLine.p (l : LinkLine) : Nat := (pbytes l.P1).length
def LinkLine.q (l : LinkLine) : Nat := l.p + 1 + (pbytes l.P2).length

/-- The normalised label of `[P2]`. -/
def LinkLine.label (x : IExt) (l : LinkLine) : Bytes :=
  transformLinkReferenceSpan x.fold l.bytes [mkInline IK.unparsed 0 (l.bytes.length : Int)] (l.p + 1) l.q

structure LinkLineOK (x : IExt) (l : LinkLine) : Prop where
  p1 : POK x.ext l.P1 (0x5B :: l.t2)
  p2 : POK x.ext l.P2 [0x5D, LF]
  first : ∃ b, l.bytes.head? = some b ∧ b ≠ SP ∧ b ≠ TAB

def LinkLine.A (l : LinkLine) (src : Bytes) : List INode :=
  (outP 0 0 (l.P1.map (SPiece.toPiece src))).1 ++ flushN (outP 0 0 (l.P1.map (SPiece.toPiece src))).2 l.p
def LinkLine.B (l : LinkLine) (src : Bytes) : List INode :=
  (outP (l.p + 1) (l.p + 1) (l.P2.map (SPiece.toPiece src))).1 ++
    flushN (outP (l.p + 1) (l.p + 1) (l.P2.map (SPiece.toPiece src))).2 l.q

def LinkLine.tree (x : IExt) (l : LinkLine) : Tree :=
  .node { isBlock := false, kind := IK.link, start := (l.p : Int), stop := ((l.q + 1 : Nat) : Int), ref := l.label x }
    ((l.B l.bytes).map nodeTree)

/-- **The inline phase on a line that ends in a shortcut reference link whose label is defined.** -/
theorem parseInlines_linkline (x : IExt) (matchRef : Bytes → Bool) (cs ce : Int) (l : LinkLine) (hok : LinkLineOK x l)
    (hm : matchRef (l.label x) = true) :
    parseInlines x l.bytes l.bytes.toArray matchRef cs ce [mkInline IK.unparsed 0 (l.bytes.length : Int)] =
      .ok ((l.A l.bytes).map nodeTree ++ [l.tree x]) := by
  unfold LinkLine.tree LinkLine.label at *
  generalize hsrc : l.bytes = src at *
  have hE : src.length = l.q + 2 := by
    rw [← hsrc]; simp [LinkLine.bytes, LinkLine.t2, LinkLine.q, LinkLine.p]; omega
  unfold parseInlines
  show (match (parseBody (ctxOf x src matchRef [mkInline IK.unparsed 0 (src.length : Int)])).run (mkF cs ce 0 false [] #[]) with
    | Except.error e => Except.error e
    | Except.ok (_, s) => Except.ok (exportNode s.nodes (s.nodes.size + 1) 0).children) = _
  generalize hc : ctxOf x src matchRef [mkInline IK.unparsed 0 (src.length : Int)] = c
  have hA : c.srcA = src.toArray := by rw [← hc]; rfl
  have hcs : c.src = src := by rw [← hc]; rfl
  have hcx : c.x = x := by rw [← hc]; rfl
  have hcm : c.matchRef = matchRef := by rw [← hc]; rfl
  have hU : c.unparsed = #[mkInline IK.unparsed 0 (src.length : Int)] := by rw [← hc]; rfl
  have hUL : c.unparsedL = [mkInline IK.unparsed 0 (src.length : Int)] := by rw [← hc]; rfl
  have hfl : src.length + 1 ≤ c.fl := by rw [← hc]; show _ ≤ rdFuel _ _; unfold rdFuel; omega
  obtain ⟨f, _, heq, hf⟩ := parseRun_steps c src hA
  have hp : l.p = (pbytes l.P1).length := rfl
  have hq : l.q = l.p + 1 + (pbytes l.P2).length := rfl
  have ht2len : l.t2.length = (pbytes l.P2).length + 2 := by simp [LinkLine.t2]
  have hd0 : src.drop 0 = pbytes l.P1 ++ (0x5B :: l.t2) ++ [] := by rw [← hsrc]; simp [LinkLine.bytes]
  have hdp : src.drop l.p = 0x5B :: l.t2 := by
    have := drop_shift (show src.drop 0 = pbytes l.P1 ++ (0x5B :: l.t2) by rw [← hsrc]; rfl)
    simpa [LinkLine.p] using this
  have hdp1 : src.drop (l.p + 1) = pbytes l.P2 ++ [0x5D, LF] ++ [] := by
    have := drop_shift (show src.drop l.p = [0x5B] ++ l.t2 from hdp)
    simpa [LinkLine.t2] using this
  have hdq : src.drop l.q = [0x5D, LF] := by
    have := drop_shift (show src.drop (l.p + 1) = pbytes l.P2 ++ [0x5D, LF] by simpa using hdp1)
    rw [show l.p + 1 + (pbytes l.P2).length = l.q from rfl] at this
    exact this
  have hEle : src.length ≤ src.length := Nat.le_refl _
  have hx := hok.p1; rw [← hcx] at hx
  have hP1 := piecesAt_of hA hcs hfl hf (a := 0) (last := true) hEle (0x5B :: l.t2) [] l.P1 0 (Nat.le_refl _) hd0
    (by simp [ht2len]; omega) hx
  have hx2 := hok.p2; rw [← hcx] at hx2
  have hP2 := piecesAt_of hA hcs hfl hf (a := 0) (last := true) hEle [0x5D, LF] [] l.P2 (l.p + 1) (Nat.zero_le _) hdp1
    (by simp; omega) hx2
  have hbO : src[l.p]? = some 0x5B := by have := drop_get hdp 0; simpa using this
  have hbC : src[l.q]? = some 0x5D := by have := drop_get hdq 0; simpa using this
  have hbL : src[l.q + 1]? = some LF := by have := drop_get hdq 1; simpa using this
  have g1 := pieces_seg hf hEle _ 0 0 hP1
  rw [plen_toPiece, Nat.zero_add] at g1
  have g2 := open_seg hf (a := 0) (E := src.length) (last := true) l.p (by omega) hbO (outP 0 0 (l.P1.map (SPiece.toPiece src))).2
  have g3 := pieces_seg hf hEle _ (l.p + 1) (l.p + 1) hP2
  rw [plen_toPiece] at g3
  have hseg := (g1.trans g2).trans g3
  obtain ⟨b0, hb0, hsp, htab⟩ := hok.first
  have hb0' : src[0]? = some b0 := by rw [← hsrc, ← List.head?_eq_getElem?]; exact hb0
  have hpos : 0 < src.length := lt_of_get hb0'
  have hAt : ∀ s : IState, s.unparsedPos = 0 → At c 0 src.length true s := by
    intro s hs
    refine ⟨by rw [hs, hU]; simp, ?_, by rw [hs, hU]; rfl, ⟨[], by rw [hs, hUL]; rfl⟩⟩
    unfold spanEndOf
    rw [hs, hU]; rfl
  -- the state before `]`
  obtain ⟨j, hj, hreach⟩ := hseg.2.2 (setIgnP false (mkF cs ce 0 false [] #[])) (hAt _ rfl)
  have hS2 : (pushAll (outP (l.p + 1) (l.p + 1) (l.P2.map (SPiece.toPiece src))).1 ∘
      (openT (outP 0 0 (l.P1.map (SPiece.toPiece src))).2 l.p ∘ pushAll (outP 0 0 (l.P1.map (SPiece.toPiece src))).1))
      (setIgnP false (mkF cs ce 0 false [] #[])) =
      mkF cs ce 0 false (l.A src ++ leafN IK.text l.p (l.p + 1) :: (outP (l.p + 1) (l.p + 1) (l.P2.map (SPiece.toPiece src))).1)
        #[{ elem := { typ := 3, flags := 1, n := 0 }, node := (l.A src).length + 1 }] := by
    simp only [Function.comp, setIgnP_mkF, pushAll_mkF, openT_mkF, List.nil_append]
    simp [LinkLine.A, List.append_assoc]
  rw [hS2] at hreach
  generalize hS2d : mkF cs ce 0 false (l.A src ++ leafN IK.text l.p (l.p + 1) :: (outP (l.p + 1) (l.p + 1) (l.P2.map (SPiece.toPiece src))).1)
        #[{ elem := { typ := 3, flags := 1, n := 0 }, node := (l.A src).length + 1 }] = S2 at hreach
  have hS3 : addLeafP IK.text ((outP (l.p + 1) (l.p + 1) (l.P2.map (SPiece.toPiece src))).2 : Int) (l.q : Int) S2 =
      mkF cs ce 0 false (l.A src ++ leafN IK.text l.p (l.p + 1) :: l.B src)
        #[{ elem := { typ := 3, flags := 1, n := 0 }, node := (l.A src).length + 1 }] := by
    rw [← hS2d, addText_flush, pushAll_mkF]
    simp [LinkLine.B, List.append_assoc]
  generalize hS3d : addLeafP IK.text ((outP (l.p + 1) (l.p + 1) (l.P2.map (SPiece.toPiece src))).2 : Int) (l.q : Int) S2 = S3 at hS3
  have hAt2 : At c 0 src.length true S2 := hAt S2 (by rw [← hS2d]; rfl)
  have hAt3 : At c 0 src.length true S3 := hAt S3 (by rw [hS3]; rfl)
  -- `]`
  have hkA : ∀ y ∈ l.A src, y.kids = #[] := by
    intro y hy
    rcases List.mem_append.1 hy with h | h
    · exact outP_kids _ _ _ hP1 y h
    · exact flushN_kids _ _ y h
  have hkB : ∀ y ∈ l.B src, y.kids = #[] := by
    intro y hy
    rcases List.mem_append.1 hy with h | h
    · exact outP_kids _ _ _ hP2 y h
    · exact flushN_kids _ _ y h
  have hmem : ∀ (z st len : Nat), z ∈ List.range' st len ↔ st ≤ z ∧ z < st + len := by
    intro z st len; rw [List.mem_range'_1]
  have hLlen : (l.A src ++ leafN IK.text l.p (l.p + 1) :: l.B src).length = (l.A src).length + (l.B src).length + 1 := by
    simp; omega
  have hso : S3.nodes[(l.A src).length + 1]! = leafN IK.text l.p (l.p + 1) := by
    apply get!_of_get?
    rw [hS3]; simp [mkF]
  have hlab : labelOf c S3 ((l.A src).length + 1) l.q =
      transformLinkReferenceSpan x.fold src [mkInline IK.unparsed 0 (src.length : Int)] (l.p + 1) l.q := by
    unfold labelOf
    rw [hso, hcx, hcs, hUL]
    simp [leafN]
  have hsc := shortcut_run hA S3 hAt3 l.q LF (by omega) hbL (by decide) (by decide)
    { elem := { typ := 3, flags := 1, n := 0 }, node := (l.A src).length + 1 } (by rw [hS3]; rfl) rfl (by show (1 : UInt8) &&& 1 ≠ 0; decide)
    (List.range' 1 (l.A src).length) (List.range' ((l.A src).length + 2) (l.B src).length)
    (by rw [hS3]; simp [mkF])
    (by rw [hS3]; show (List.range' 1 _).toArray = _
        rw [hLlen, show (l.A src).length + (l.B src).length + 1 = (l.A src).length + (1 + (l.B src).length) by omega,
          ← List.range'_append_1, ← List.range'_append_1]
        simp [List.range', Nat.add_comm 1, Nat.add_assoc])
    (by show (l.A src).length + 1 ∉ _; rw [hmem]; omega) (by show (l.A src).length + 1 ∉ _; rw [hmem]; omega)
    (by rw [hS3]; simp [mkF]) (by rw [hS3]; simp [mkF])
    (by rw [hlab, hcm]; exact hm)
  rw [hlab] at hsc
  generalize hFd : linkFinal (transformLinkReferenceSpan x.fold src [mkInline IK.unparsed 0 (src.length : Int)] (l.p + 1) l.q)
    ((l.A src).length + 1) ((l.q : Int) + 1) (List.range' 1 (l.A src).length)
    (List.range' ((l.A src).length + 2) (l.B src).length) S3 = F at hsc
  have hFup : F.unparsedPos = 0 := by rw [← hFd, linkFinal_up, hS3]; rfl
  have hAtF : At c 0 src.length true F := hAt F hFup
  have e1 : ((l.q : Nat) : Int) + 1 = ((l.q + 1 : Nat) : Int) := by simp
  have e2 : ((l.q + 1 : Nat) : Int) + 1 = ((src.length : Nat) : Int) := by rw [hE]; simp; omega
  have hstepC : ∀ i, (f i ((l.q : Int), ((outP (l.p + 1) (l.p + 1) (l.P2.map (SPiece.toPiece src))).2 : Int), false)).run S2 =
      pure (.yield (((l.q + 1 : Nat) : Int), ((l.q + 1 : Nat) : Int), false), F) := by
    intro i
    have := hf.closeB i l.q 0 src.length true ((outP (l.p + 1) (l.p + 1) (l.P2.map (SPiece.toPiece src))).2 : Int) S2
      ((l.q : Int) + 1) (fun _ => F) hAt2 (by omega) hbC (by rw [hS3d]; exact hsc)
    rw [this, e1]
  have hemp : addLeafP IK.text ((l.q + 1 : Nat) : Int) ((l.q + 1 : Nat) : Int) F = F := by
    unfold addLeafP
    rw [spanLenI_cast, if_pos (by simp)]
  have hstepL : ∀ i, (f i (((l.q + 1 : Nat) : Int), ((l.q + 1 : Nat) : Int), false)).run F =
      pure (.yield ((src.length : Int), (src.length : Int), false), F) := by
    intro i
    have := hf.lf i (l.q + 1) 0 src.length true ((l.q + 1 : Nat) : Int) F hAtF (by omega) hbL
    rw [this, e2, hemp]
    rfl
  have hreach2 := (hreach.trans (Reaches.step hstepC)).trans (Reaches.step hstepL)
  have hrunP := parseRun_of_reaches hA hf heq (mkF cs ce 0 false [] #[]) hreach2 (by omega) hAtF
    (mkInline IK.unparsed 0 (src.length : Int)) b0 (by rw [hU]; rfl) rfl (hAt _ rfl) hpos hb0' hsp htab
  have hemp2 : addLeafP IK.text ((src.length : Nat) : Int) ((src.length : Nat) : Int) F = F := by
    unfold addLeafP
    rw [spanLenI_cast, if_pos (by simp)]
  rw [hemp2] at hrunP
  have hrun := parseBody_one c (by rw [hU]; rfl) (by intro h; simp only [hU]; exact ⟨rfl, rfl⟩) (mkF cs ce 0 false [] #[]) F rfl hrunP hFup
  rw [hrun]
  obtain ⟨hF1, hF2, hF3⟩ := link_flat cs ce 0 false (l.A src) (l.B src) l.p ((l.q : Int) + 1)
    (transformLinkReferenceSpan x.fold src [mkInline IK.unparsed 0 (src.length : Int)] (l.p + 1) l.q) _ hkA hkB S3 hS3 F hFd.symm
  have hst : (setUpP 1 F).stack = #[] := hF1
  rw [processEmphasis_empty _ hst]
  show Except.ok (exportNode F.nodes (F.nodes.size + 1) 0).children = _
  rw [hF3, e1]

/-- … and when the label is NOT defined: the brackets are literal text. -/
theorem parseInlines_linkline_neg (x : IExt) (matchRef : Bytes → Bool) (cs ce : Int) (l : LinkLine) (hok : LinkLineOK x l)
    (hm : matchRef (l.label x) = false) :
    parseInlines x l.bytes l.bytes.toArray matchRef cs ce [mkInline IK.unparsed 0 (l.bytes.length : Int)] =
      .ok ((l.A l.bytes ++ leafN IK.text l.p (l.p + 1) :: (l.B l.bytes ++ [leafN IK.text l.q (l.q + 1)])).map nodeTree) := by
  unfold LinkLine.label at *
  generalize hsrc : l.bytes = src at *
  have hE : src.length = l.q + 2 := by
    rw [← hsrc]; simp [LinkLine.bytes, LinkLine.t2, LinkLine.q, LinkLine.p]; omega
  unfold parseInlines
  show (match (parseBody (ctxOf x src matchRef [mkInline IK.unparsed 0 (src.length : Int)])).run (mkF cs ce 0 false [] #[]) with
    | Except.error e => Except.error e
    | Except.ok (_, s) => Except.ok (exportNode s.nodes (s.nodes.size + 1) 0).children) = _
  generalize hc : ctxOf x src matchRef [mkInline IK.unparsed 0 (src.length : Int)] = c
  have hA : c.srcA = src.toArray := by rw [← hc]; rfl
  have hcs : c.src = src := by rw [← hc]; rfl
  have hcx : c.x = x := by rw [← hc]; rfl
  have hcm : c.matchRef = matchRef := by rw [← hc]; rfl
  have hU : c.unparsed = #[mkInline IK.unparsed 0 (src.length : Int)] := by rw [← hc]; rfl
  have hUL : c.unparsedL = [mkInline IK.unparsed 0 (src.length : Int)] := by rw [← hc]; rfl
  have hfl : src.length + 1 ≤ c.fl := by rw [← hc]; show _ ≤ rdFuel _ _; unfold rdFuel; omega
  obtain ⟨f, _, heq, hf⟩ := parseRun_steps c src hA
  have hp : l.p = (pbytes l.P1).length := rfl
  have hq : l.q = l.p + 1 + (pbytes l.P2).length := rfl
  have ht2len : l.t2.length = (pbytes l.P2).length + 2 := by simp [LinkLine.t2]
  have hd0 : src.drop 0 = pbytes l.P1 ++ (0x5B :: l.t2) ++ [] := by rw [← hsrc]; simp [LinkLine.bytes]
  have hdp : src.drop l.p = 0x5B :: l.t2 := by
    have := drop_shift (show src.drop 0 = pbytes l.P1 ++ (0x5B :: l.t2) by rw [← hsrc]; rfl)
    simpa [LinkLine.p] using this
  have hdp1 : src.drop (l.p + 1) = pbytes l.P2 ++ [0x5D, LF] ++ [] := by
    have := drop_shift (show src.drop l.p = [0x5B] ++ l.t2 from hdp)
    simpa [LinkLine.t2] using this
  have hdq : src.drop l.q = [0x5D, LF] := by
    have := drop_shift (show src.drop (l.p + 1) = pbytes l.P2 ++ [0x5D, LF] by simpa using hdp1)
    rw [show l.p + 1 + (pbytes l.P2).length = l.q from rfl] at this
    exact this
  have hEle : src.length ≤ src.length := Nat.le_refl _
  have hx := hok.p1; rw [← hcx] at hx
  have hP1 := piecesAt_of hA hcs hfl hf (a := 0) (last := true) hEle (0x5B :: l.t2) [] l.P1 0 (Nat.le_refl _) hd0
    (by simp [ht2len]; omega) hx
  have hx2 := hok.p2; rw [← hcx] at hx2
  have hP2 := piecesAt_of hA hcs hfl hf (a := 0) (last := true) hEle [0x5D, LF] [] l.P2 (l.p + 1) (Nat.zero_le _) hdp1
    (by simp; omega) hx2
  have hbO : src[l.p]? = some 0x5B := by have := drop_get hdp 0; simpa using this
  have hbC : src[l.q]? = some 0x5D := by have := drop_get hdq 0; simpa using this
  have hbL : src[l.q + 1]? = some LF := by have := drop_get hdq 1; simpa using this
  have g1 := pieces_seg hf hEle _ 0 0 hP1
  rw [plen_toPiece, Nat.zero_add] at g1
  have g2 := open_seg hf (a := 0) (E := src.length) (last := true) l.p (by omega) hbO (outP 0 0 (l.P1.map (SPiece.toPiece src))).2
  have g3 := pieces_seg hf hEle _ (l.p + 1) (l.p + 1) hP2
  rw [plen_toPiece] at g3
  have hseg := (g1.trans g2).trans g3
  obtain ⟨b0, hb0, hsp, htab⟩ := hok.first
  have hb0' : src[0]? = some b0 := by rw [← hsrc, ← List.head?_eq_getElem?]; exact hb0
  have hpos : 0 < src.length := lt_of_get hb0'
  have hAt : ∀ s : IState, s.unparsedPos = 0 → At c 0 src.length true s := by
    intro s hs
    refine ⟨by rw [hs, hU]; simp, ?_, by rw [hs, hU]; rfl, ⟨[], by rw [hs, hUL]; rfl⟩⟩
    unfold spanEndOf
    rw [hs, hU]; rfl
  -- the state before `]`
  obtain ⟨j, hj, hreach⟩ := hseg.2.2 (setIgnP false (mkF cs ce 0 false [] #[])) (hAt _ rfl)
  have hS2 : (pushAll (outP (l.p + 1) (l.p + 1) (l.P2.map (SPiece.toPiece src))).1 ∘
      (openT (outP 0 0 (l.P1.map (SPiece.toPiece src))).2 l.p ∘ pushAll (outP 0 0 (l.P1.map (SPiece.toPiece src))).1))
      (setIgnP false (mkF cs ce 0 false [] #[])) =
      mkF cs ce 0 false (l.A src ++ leafN IK.text l.p (l.p + 1) :: (outP (l.p + 1) (l.p + 1) (l.P2.map (SPiece.toPiece src))).1)
        #[{ elem := { typ := 3, flags := 1, n := 0 }, node := (l.A src).length + 1 }] := by
    simp only [Function.comp, setIgnP_mkF, pushAll_mkF, openT_mkF, List.nil_append]
    simp [LinkLine.A, List.append_assoc]
  rw [hS2] at hreach
  generalize hS2d : mkF cs ce 0 false (l.A src ++ leafN IK.text l.p (l.p + 1) :: (outP (l.p + 1) (l.p + 1) (l.P2.map (SPiece.toPiece src))).1)
        #[{ elem := { typ := 3, flags := 1, n := 0 }, node := (l.A src).length + 1 }] = S2 at hreach
  have hS3 : addLeafP IK.text ((outP (l.p + 1) (l.p + 1) (l.P2.map (SPiece.toPiece src))).2 : Int) (l.q : Int) S2 =
      mkF cs ce 0 false (l.A src ++ leafN IK.text l.p (l.p + 1) :: l.B src)
        #[{ elem := { typ := 3, flags := 1, n := 0 }, node := (l.A src).length + 1 }] := by
    rw [← hS2d, addText_flush, pushAll_mkF]
    simp [LinkLine.B, List.append_assoc]
  generalize hS3d : addLeafP IK.text ((outP (l.p + 1) (l.p + 1) (l.P2.map (SPiece.toPiece src))).2 : Int) (l.q : Int) S2 = S3 at hS3
  have hAt2 : At c 0 src.length true S2 := hAt S2 (by rw [← hS2d]; rfl)
  have hAt3 : At c 0 src.length true S3 := hAt S3 (by rw [hS3]; rfl)
  -- `]`
  have hkA : ∀ y ∈ l.A src, y.kids = #[] := by
    intro y hy
    rcases List.mem_append.1 hy with h | h
    · exact outP_kids _ _ _ hP1 y h
    · exact flushN_kids _ _ y h
  have hkB : ∀ y ∈ l.B src, y.kids = #[] := by
    intro y hy
    rcases List.mem_append.1 hy with h | h
    · exact outP_kids _ _ _ hP2 y h
    · exact flushN_kids _ _ y h
  have hmem : ∀ (z st len : Nat), z ∈ List.range' st len ↔ st ≤ z ∧ z < st + len := by
    intro z st len; rw [List.mem_range'_1]
  have hLlen : (l.A src ++ leafN IK.text l.p (l.p + 1) :: l.B src).length = (l.A src).length + (l.B src).length + 1 := by
    simp; omega
  have hso : S3.nodes[(l.A src).length + 1]! = leafN IK.text l.p (l.p + 1) := by
    apply get!_of_get?
    rw [hS3]; simp [mkF]
  have hlab : labelOf c S3 ((l.A src).length + 1) l.q =
      transformLinkReferenceSpan x.fold src [mkInline IK.unparsed 0 (src.length : Int)] (l.p + 1) l.q := by
    unfold labelOf
    rw [hso, hcx, hcs, hUL]
    simp [leafN]
  have hsc := shortcut_neg_run hA S3 hAt3 l.q LF (by omega) hbL (by decide) (by decide)
    { elem := { typ := 3, flags := 1, n := 0 }, node := (l.A src).length + 1 } (by rw [hS3]; rfl) rfl
    (by show (1 : UInt8) &&& 1 ≠ 0; decide) (by rw [hlab, hcm]; exact hm)
  have e1 : ((l.q : Nat) : Int) + 1 = ((l.q + 1 : Nat) : Int) := by simp
  have e2 : ((l.q + 1 : Nat) : Int) + 1 = ((src.length : Nat) : Int) := by rw [hE]; simp; omega
  have hFd : setStkP #[] (addLeafP IK.text (l.q : Int) ((l.q : Int) + 1) S3) =
      mkF cs ce 0 false (l.A src ++ leafN IK.text l.p (l.p + 1) :: (l.B src ++ [leafN IK.text l.q (l.q + 1)])) #[] := by
    rw [hS3, e1, addLeafP_cast, if_pos (by omega), pushAll_mkF]
    simp [setStkP, mkF]
  rw [hFd] at hsc
  generalize hFg : mkF cs ce 0 false (l.A src ++ leafN IK.text l.p (l.p + 1) :: (l.B src ++ [leafN IK.text l.q (l.q + 1)])) #[] = F at hsc
  have hFup : F.unparsedPos = 0 := by rw [← hFg]; rfl
  have hAtF : At c 0 src.length true F := hAt F hFup
  have hstepC : ∀ i, (f i ((l.q : Int), ((outP (l.p + 1) (l.p + 1) (l.P2.map (SPiece.toPiece src))).2 : Int), false)).run S2 =
      pure (.yield (((l.q + 1 : Nat) : Int), ((l.q + 1 : Nat) : Int), false), F) := by
    intro i
    have := hf.closeB i l.q 0 src.length true ((outP (l.p + 1) (l.p + 1) (l.P2.map (SPiece.toPiece src))).2 : Int) S2
      ((l.q : Int) + 1) (fun _ => F) hAt2 (by omega) hbC (by rw [hS3d]; exact hsc)
    rw [this, e1]
  have hemp : addLeafP IK.text ((l.q + 1 : Nat) : Int) ((l.q + 1 : Nat) : Int) F = F := by
    unfold addLeafP
    rw [spanLenI_cast, if_pos (by simp)]
  have hstepL : ∀ i, (f i (((l.q + 1 : Nat) : Int), ((l.q + 1 : Nat) : Int), false)).run F =
      pure (.yield ((src.length : Int), (src.length : Int), false), F) := by
    intro i
    have := hf.lf i (l.q + 1) 0 src.length true ((l.q + 1 : Nat) : Int) F hAtF (by omega) hbL
    rw [this, e2, hemp]
    rfl
  have hreach2 := (hreach.trans (Reaches.step hstepC)).trans (Reaches.step hstepL)
  have hrunP := parseRun_of_reaches hA hf heq (mkF cs ce 0 false [] #[]) hreach2 (by omega) hAtF
    (mkInline IK.unparsed 0 (src.length : Int)) b0 (by rw [hU]; rfl) rfl (hAt _ rfl) hpos hb0' hsp htab
  have hemp2 : addLeafP IK.text ((src.length : Nat) : Int) ((src.length : Nat) : Int) F = F := by
    unfold addLeafP
    rw [spanLenI_cast, if_pos (by simp)]
  rw [hemp2] at hrunP
  have hrun := parseBody_one c (by rw [hU]; rfl) (by intro h; simp only [hU]; exact ⟨rfl, rfl⟩) (mkF cs ce 0 false [] #[]) F rfl hrunP hFup
  rw [hrun, ← hFg]
  have hup : ∀ (L : List INode) (K : Array DelimE), setUpP 1 (mkF cs ce 0 false L K) = mkF cs ce 1 false L K := fun _ _ => rfl
  rw [hup, processEmphasis_empty _ rfl]
  show Except.ok _ = _
  rw [export_mkF]
  intro n hn
  simp only [List.mem_append, List.mem_cons, List.mem_singleton, List.mem_nil_iff, or_false] at hn
  rcases hn with h | rfl | h | rfl
  · exact hkA n h
  · rfl
  · exact hkB n h
  · rfl

end CM.Proofs.InlSer
