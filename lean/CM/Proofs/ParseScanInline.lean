import CM.Proofs.ParseScanLabel
import CM.Proofs.InlSpanBracket
import CM.Proofs.InlShapeHtml
/-
C02 / C04, inline halves, for the whole of `Parse` — **`parseInlineLink`** over the inline children of a container.

`inlLinkPure`: the result of `parseInlineLink` as a pure function of the source and the reader's nodes
(`parseInlineLink_pure`).  The sub-scanners `skipLinkSpace`, `parseLinkDestination`, `parseLinkTitle` keep the invariant
`SN` ("live, or dead at a byte other than `)`", given `TailNP`: the container is not followed by `)`): every `next`, failing or
not, keeps it.  So the final `)` of a valid link was read by a live reader: the link ends inside the container
(`inline_scan_live`).  A reader that is dead from the start accepts exactly `()` (`inline_scan_dead`).
-/
namespace CM.Proofs.PSc
open CM CM.Model CM.Model.Inl CM.Gen CM.Proofs CM.Proofs.PS CM.Proofs.InlH
open Std.Do

set_option mvcgen.warning false

/-- `parseInlineLink` without the state. -/
def inlLinkPure (src : Bytes) (fl : Nat) (spans : List Tree) (start : Int) : InlineLinkInfo :=
  let r := newReader spans (start + 1).toNat
  let p1 := skipLinkSpace src fl r
  if !p1.1 then noInlineLink else
  let p2 := parseLinkDestination src fl p1.2
  let p3 := if p2.1.span.isValid then skipLinkSpace src fl p2.2 else (true, p2.2)
  if !p3.1 then noInlineLink else
  let p4 := parseLinkTitle src fl p3.2
  let p5 := if p4.1.span.isValid then skipLinkSpace src fl p4.2 else (true, p4.2)
  if !p5.1 then noInlineLink else
  let p6 := p5.2.current src
  if p6.1 != 0x29 then noInlineLink else
  { span := ⟨start, p6.2.pos + 1⟩, destination := p2.1, title := p4.1 }

theorem parseInlineLink_pure (c : ICtx) (start : Int) (s0 : IState) :
    ⦃fun s => ⌜s = s0⌝⦄ parseInlineLink c start
    ⦃⇓? r _ => ⌜r = inlLinkPure c.src c.fl (c.unparsedL.drop s0.unparsedPos) start⌝⦄ := by
  mvcgen [parseInlineLink, setUnparsedPos, -parseInlineLink_spec, -parseInlineLink_specS, -parseInlineLink_specP]
  all_goals (try (exact ExceptConds.entails.refl _))
  all_goals (
    have hx := ‹(_ : IState) = _ ∧ (_ : List Tree) = _›
    obtain ⟨hs, hr⟩ := hx
    subst hr
    subst_vars
    unfold inlLinkPure
    simp -failIfUnchanged +zetaDelta only [] at *
    simp_all)

theorem parseInlineLink_run (c : ICtx) (start : Int) (s s' : IState) (info : InlineLinkInfo)
    (h : (parseInlineLink c start).run s = .ok (info, s')) :
    info = inlLinkPure c.src c.fl (c.unparsedL.drop s.unparsedPos) start :=
  triple_run (parseInlineLink_pure c start s) rfl h

variable {src : Bytes} {L : List Tree} {N m : Nat}

/-! ### the invariant -/

theorem SN.rebase {r : Rd} (h : SN src L m N r) : SN src L r.pos N r := ⟨h.ok.rebase, h.st, h.out⟩

theorem SN.cur (hc : RC src L N) {r : Rd} (h : SN src L m N r) : SN src L m N (r.current src).2 := by
  rw [h.current_snd hc]; exact h

/-- the position of a reader that sees a byte that is not an entity byte does not cut a character reference -/
theorem SN.stopOK (hc : RC src L N) {r : Rd} (h : SN src L m N r) (he : RDC.entChar (r.current src).1 = false) :
    RDC.StopOK src L r.pos := by
  intro t ht hi h1 h2
  rcases h.st with hl | hd
  · obtain ⟨t', rest, hs, ht'm, hlt, hcur⟩ := hl.current (src := src) hc
    obtain ⟨_, _, hs', _, hge, _, _⟩ := hl.currentNode hc
    rw [hs] at hs'; cases hs'
    have ett : t' = t := by
      rcases sorted_rel' hc.sorted ht'm ht with e | e | e
      · exact e
      · omega
      · omega
    subst ett
    rw [hcur] at he
    simp only [liveByte, hi, Bool.false_eq_true, if_false] at he
    split at he
    · rename_i hz
      have : src.getD r.pos 0 = 0 := by simpa using hz
      rw [this]; exact RDC.entChar_zero
    · exact he
  · exact absurd ⟨h1, h2⟩ (h.out hd.1 t ht)

/-- after a `next` from a live reader at a byte that is not a column of an Indent node: strictly forward -/
theorem Live.next_fwd (hc : RC src L N) {r : Rd} (h : Live L r) (hb : (r.current src).1 ≠ SP) :
    r.pos + 1 ≤ (r.next src).2.pos ∧ (r.next src).2.prev = r.pos := by
  refine ⟨?_, (h.next hc).1⟩
  cases hok : (r.next src).1 with
  | true => exact h.strict_of_byte hc hb hok
  | false =>
    have := ((h.next (src := src) hc).2.2 hok).2.1
    omega

/-! ### the sub-scanners -/

theorem skipLinkSpace_N (hc : RC src L N) (hT : TailNP src L) : ∀ (f : Nat) (r : Rd), SN src L m N r →
    SN src L m N (skipLinkSpace src f r).2 := by
  intro f
  induction f with
  | zero => intro r h; exact h
  | succ f ih =>
    intro r h
    rw [skipLinkSpace, h.current_eq hc]
    simp only []
    split
    · exact h
    · split
      · have hn := h.next_any hc hT
        generalize r.next src = nx at hn
        obtain ⟨ok, r1⟩ := nx
        simp only [] at hn ⊢
        split
        · exact hn
        · exact ih r1 hn
      · exact h

theorem destBare_N (hc : RC src L N) (hT : TailNP src L) : ∀ (f : Nat) (r : Rd) (parens : Int), SN src L m N r →
    SN src L m N (destBare src f r parens) := by
  intro f
  induction f with
  | zero => intro r _ h; exact h
  | succ f ih =>
    intro r parens h
    rw [destBare, h.current_eq hc]
    simp only []
    have step : ∀ (r0 : Rd) (pp : Int), SN src L m N r0 →
        SN src L m N (if (!(r0.next src).1) = true then (r0.next src).2 else destBare src f (r0.next src).2 pp) := by
      intro r0 pp h0
      have hn := h0.next_any hc hT
      split
      · exact hn
      · exact ih _ pp hn
    split
    · exact h
    · split
      · have hn := h.next_any hc hT
        rcases hnx : r.next src with ⟨ok, r1⟩
        rw [hnx] at hn
        simp only [] at hn ⊢
        split
        · exact hn
        · rw [hn.current_eq hc]
          simp only []
          split
          · exact hn
          · have := step r1 parens hn
            generalize r1.next src = nx at this
            obtain ⟨ok2, r2⟩ := nx
            exact this
      · split
        · have := step r (parens + 1) h
          generalize r.next src = nx at this
          obtain ⟨ok2, r2⟩ := nx
          exact this
        · split
          · split
            · exact h
            · have := step r (parens - 1) h
              generalize r.next src = nx at this
              obtain ⟨ok2, r2⟩ := nx
              exact this
          · have := step r parens h
            generalize r.next src = nx at this
            obtain ⟨ok2, r2⟩ := nx
            exact this

/-- what a `<…>` destination or a title is: nothing, or `[start, e)` with text `[start + 1, e − 1)`, ending right after the
    closing byte `q`, read by a live reader -/
def Closed (src : Bytes) (N : Nat) (p0 : Nat) (q : UInt8) (start : Nat) (span text : SpanI) (r' : Rd) : Prop :=
  span.isValid = false ∨ ∃ e : Nat, span = ⟨start, e⟩ ∧ text = ⟨(start : Int) + 1, (e : Int) - 1⟩ ∧ p0 + 1 ≤ e ∧ e ≤ N ∧
    e ≤ r'.pos ∧ src[e - 1]? = some q

theorem closed_of_live (hc : RC src L N) {r1 : Rd} (hl : Live L r1) {q : UInt8} (hq : (r1.current src).1 = q)
    (hq0 : q ≠ 0) (hqs : q ≠ SP) (hqr : q ≠ 239 ∧ q ≠ 191 ∧ q ≠ 189) (start p0 : Nat) (hp : p0 ≤ r1.pos) :
    Closed src N p0 q start ⟨start, (r1.next src).2.prev + 1⟩ ⟨(start : Int) + 1, (r1.next src).2.prev⟩ (r1.next src).2 := by
  right
  obtain ⟨f1, f2⟩ := hl.next_fwd (src := src) hc (by rw [hq]; exact hqs)
  have hlt := hl.pos_lt hc
  obtain ⟨_, hb⟩ := current_byte (src := src) (r := r1) (r1 := (r1.current src).2) (c := q) (Prod.ext hq rfl) hq0 hqs hqr
  refine ⟨r1.pos + 1, ?_, ?_, by omega, by omega, f1, by simpa using hb⟩
  · rw [f2]; rfl
  · rw [f2]; simp

theorem destAngle_N (hc : RC src L N) (hT : TailNP src L) (start : Nat) : ∀ (f : Nat) (r : Rd) (p0 : Nat),
    SN src L m N r → p0 ≤ r.pos →
    SN src L m N (destAngle src start f r).2 ∧
      Closed src N p0 0x3E start (destAngle src start f r).1.span (destAngle src start f r).1.text (destAngle src start f r).2 := by
  intro f
  induction f with
  | zero => intro r p0 h _; exact ⟨h, Or.inl rfl⟩
  | succ f ih =>
    intro r p0 h hp
    rw [destAngle]
    have hn := h.next_any hc hT
    have hmono : r.pos ≤ (r.next src).2.pos := by
      have := (h.rebase.next_any hc hT).lo; exact this
    cases hok : (r.next src).1 with
    | false =>
      rcases hnx : r.next src with ⟨ok, r1⟩
      rw [hnx] at hok hn; simp only [] at hok; subst hok
      simp only [Bool.not_false, if_true]
      exact ⟨hn, Or.inl rfl⟩
    | true =>
      have hl1 : Live L (r.next src).2 := by
        rcases h.st with h' | h'
        · exact (h'.next hc).2.1 hok
        · rw [dead_next h'.1] at hok; cases hok
      rcases hnx : r.next src with ⟨ok, r1⟩
      rw [hnx] at hok hn hl1 hmono; simp only [] at hok hn hl1 hmono; subst hok
      simp only [Bool.not_true, Bool.false_eq_true, if_false]
      rw [hn.current_eq hc]
      simp only []
      split
      · exact ⟨hn, Or.inl rfl⟩
      · split
        · have hn2 := hn.next_any hc hT
          have hmono2 : r1.pos ≤ (r1.next src).2.pos := (hn.rebase.next_any hc hT).lo
          rcases hnx2 : r1.next src with ⟨ok2, r2⟩
          rw [hnx2] at hn2 hmono2; simp only [] at hn2 hmono2 ⊢
          split
          · exact ⟨hn2, Or.inl rfl⟩
          · rw [hn2.current_eq hc]
            simp only []
            split
            · exact ⟨hn2, Or.inl rfl⟩
            · exact ih r2 p0 hn2 (by omega)
        · split
          · rename_i hgt
            have hq : (r1.current src).1 = 0x3E := by simpa using hgt
            have := closed_of_live hc hl1 hq (by decide) (by decide) (by decide) start p0 (by omega)
            have hn2 := hn.next_any hc hT
            generalize r1.next src = nx at this hn2
            obtain ⟨ok2, r2⟩ := nx
            exact ⟨hn2, this⟩
          · exact ih r1 p0 hn (by omega)

theorem titleLoop_N (hc : RC src L N) (hT : TailNP src L) (start : Nat) (term : UInt8)
    (ht0 : term ≠ 0) (hts : term ≠ SP) (htr : term ≠ 239 ∧ term ≠ 191 ∧ term ≠ 189) :
    ∀ (f : Nat) (r : Rd) (p0 : Nat), SN src L m N r → p0 ≤ r.pos →
    SN src L m N (titleLoop src start term f r).2 ∧
      Closed src N p0 term start (titleLoop src start term f r).1.span (titleLoop src start term f r).1.text
        (titleLoop src start term f r).2 := by
  intro f
  induction f with
  | zero => intro r p0 h _; exact ⟨h, Or.inl rfl⟩
  | succ f ih =>
    intro r p0 h hp
    rw [titleLoop]
    have hn := h.next_any hc hT
    have hmono : r.pos ≤ (r.next src).2.pos := (h.rebase.next_any hc hT).lo
    cases hok : (r.next src).1 with
    | false =>
      rcases hnx : r.next src with ⟨ok, r1⟩
      rw [hnx] at hok hn; simp only [] at hok; subst hok
      simp only [Bool.not_false, if_true]
      exact ⟨hn, Or.inl rfl⟩
    | true =>
      have hl1 : Live L (r.next src).2 := by
        rcases h.st with h' | h'
        · exact (h'.next hc).2.1 hok
        · rw [dead_next h'.1] at hok; cases hok
      rcases hnx : r.next src with ⟨ok, r1⟩
      rw [hnx] at hok hn hl1 hmono; simp only [] at hok hn hl1 hmono; subst hok
      simp only [Bool.not_true, Bool.false_eq_true, if_false]
      rw [hn.current_eq hc]
      simp only []
      split
      · have hn2 := hn.next_any hc hT
        have hmono2 : r1.pos ≤ (r1.next src).2.pos := (hn.rebase.next_any hc hT).lo
        rcases hnx2 : r1.next src with ⟨ok2, r2⟩
        rw [hnx2] at hn2 hmono2; simp only [] at hn2 hmono2 ⊢
        split
        · exact ⟨hn2, Or.inl rfl⟩
        · exact ih r2 p0 hn2 (by omega)
      · split
        · rename_i hgt
          have hq : (r1.current src).1 = term := by simpa using hgt
          have := closed_of_live hc hl1 hq ht0 hts htr start p0 (by omega)
          have hn2 := hn.next_any hc hT
          generalize r1.next src = nx at this hn2
          obtain ⟨ok2, r2⟩ := nx
          exact ⟨hn2, this⟩
        · exact ih r1 p0 hn (by omega)

end CM.Proofs.PSc
