import CM.Proofs.StreamFuel
/-
The in-memory parser under the line-parser hypotheses `LPWell`: it never reaches a panic site of the stream
machine, its per-line loop terminates within the fuel, and its result does not depend on the fuels.
-/
namespace CM.Proofs
open CM CM.Model CM.Gen

/-- What the stream machine must know about a line parser for its per-line loop to terminate and for the blocks it
    cuts off to lie inside the bytes parsed so far. `I` is an invariant of the line-parser states that occur
    (`fun _ => True` if the three properties hold for all states). -/
structure LPWell (L : LineParserI) where
  I : L.σ → Prop
  /-- a parser created from pending blocks satisfies the invariant -/
  new_pending : ∀ bs, bs ≠ [] → I (L.new bs)
  /-- the invariant is established by the first (non-blank) line of a fresh parser and preserved by every line -/
  step : ∀ s src ls, (I s ∨ (s = L.new [] ∧ ls = 0 ∧ isBlankLine src = false)) → I (L.line s src ls)
  /-- fed the empty line at the end of input, the parser panics or closes its first block -/
  eof : ∀ s src ls, I s → src.length ≤ ls →
    (∃ m, L.panicked (L.line s src ls) = some m) ∨ ∃ k rest, L.kids (L.line s src ls) = k :: rest ∧ k.isOpen = false
  /-- closed blocks end inside the bytes the parser has been given -/
  ends : ∀ s src ls, (I s ∨ (s = L.new [] ∧ ls = 0 ∧ isBlankLine src = false)) →
    ∀ k ∈ L.kids (L.line s src ls), k.isOpen = false → k.label.stop.toNat ≤ src.length

/-- What the loops of `NextBlock` guarantee about the state they return, on the in-memory parser. -/
structure MemPost (p : BP) (res : NBOut × BP) : Prop where
  panic : res.2.panic = p.panic
  err : res.2.err = p.err
  good : ∀ r, res.1 = .block r → res.2.i ≤ res.2.buf.length ∧ BlocksOK res.2

section
variable {L : LineParserI} (W : LPWell L)

/-- One iteration of the per-line loop that ends the loop (panic or closed first block), or not. -/
theorem parseLines_step (lp : L.σ) (ls : Nat) (p : BP) (hi : p.i ≤ p.buf.length)
    (hpre : W.I lp ∨ (lp = L.new [] ∧ ls = 0 ∧ isBlankLine (p.buf.take p.i) = false)) :
    (∃ res, (∀ a, parseLines L (a + 1) lp ls p = res) ∧ MemPost p res) ∨
    (L.panicked (L.line lp (p.buf.take p.i) ls) = none ∧
      makeRoot p (L.kids (L.line lp (p.buf.take p.i) ls)) = none) := by
  cases hpan : L.panicked (L.line lp (p.buf.take p.i) ls) with
  | some m =>
    left
    exact ⟨(.panic m, p), fun a => parseLines_panicked L hpan, rfl, rfl, fun r h => by cases h⟩
  | none =>
    cases hk : L.kids (L.line lp (p.buf.take p.i) ls) with
    | nil => right; exact ⟨rfl, rfl⟩
    | cons k rest =>
      cases ho : k.isOpen with
      | true => right; exact ⟨rfl, makeRoot_open _ _ _ ho⟩
      | false =>
        left
        have hends := W.ends lp (p.buf.take p.i) ls hpre
        rw [hk] at hends
        have hlen : (p.buf.take p.i).length = p.i := by simp; omega
        rw [hlen] at hends
        obtain ⟨i1, i2, i3, i4⟩ := afterRoot_inv hends ho hi
        refine ⟨(.block (rootOf p k), afterRoot p k rest), fun a => ?_, i1, i2, fun _ _ => ⟨i3, i4⟩⟩
        apply parseLines_root L hpan
        rw [hk]
        exact makeRoot_closed _ _ _ ho

theorem parseLines_mem : ∀ (f1 f2 : Nat) (lp : L.σ) (ls : Nat) (p : BP), p.err.isSome = true →
    p.i ≤ p.buf.length → (W.I lp ∨ (lp = L.new [] ∧ ls = 0 ∧ isBlankLine (p.buf.take p.i) = false)) →
    linesLeft p.buf p.i + 2 ≤ f1 → linesLeft p.buf p.i + 2 ≤ f2 →
    parseLines L f1 lp ls p = parseLines L f2 lp ls p ∧ MemPost p (parseLines L f1 lp ls p) := by
  intro f1
  induction f1 with
  | zero => intro f2 lp ls p _ _ _ h; omega
  | succ f1 ih =>
    intro f2 lp ls p herr hi hpre h1 h2
    cases f2 with
    | zero => omega
    | succ f2 =>
      rcases parseLines_step W lp ls p hi hpre with ⟨res, hres, hpost⟩ | ⟨hpan, hmr⟩
      · rw [hres f1, hres f2]; exact ⟨rfl, hpost⟩
      · rw [parseLines_next L hpan hmr, parseLines_next L hpan hmr]
        obtain ⟨e, he, hr⟩ := readline_site_mem herr
        have hb := eolEndB_bounds he
        rw [hr]
        simp only
        have hI' := W.step lp (p.buf.take p.i) ls hpre
        by_cases hlt : p.i < e
        · have hll := linesLeft_lt he hlt
          obtain ⟨a1, a2⟩ := ih f2 (L.line lp (p.buf.take p.i) ls) p.i { p with i := e } herr hb.1 (Or.inl hI')
            (by simp only; omega) (by simp only; omega)
          exact ⟨a1, a2.panic, a2.err, a2.good⟩
        · have hee : e = p.buf.length := by
            rcases hb.2 with h | ⟨_, h⟩
            · exact absurd h hlt
            · exact h
          subst hee
          obtain ⟨a, rfl⟩ : ∃ a, f1 = a + 1 := ⟨f1 - 1, by omega⟩
          obtain ⟨b, rfl⟩ : ∃ b, f2 = b + 1 := ⟨f2 - 1, by omega⟩
          rcases parseLines_step W (L.line lp (p.buf.take p.i) ls) p.i { p with i := p.buf.length } (Nat.le_refl _)
            (Or.inl hI') with ⟨res, hres, hpost⟩ | ⟨hpan2, hmr2⟩
          · rw [hres a, hres b]
            exact ⟨rfl, hpost.panic, hpost.err, hpost.good⟩
          · exfalso
            have hlen : (List.take p.buf.length p.buf).length ≤ p.i := by simp; omega
            rcases W.eof (L.line lp (p.buf.take p.i) ls) (List.take p.buf.length p.buf) p.i hI' hlen with
              ⟨m, hm⟩ | ⟨k, rest, hk, ho⟩
            · simp only at hpan2; rw [hm] at hpan2; cases hpan2
            · simp only at hmr2; rw [hk, makeRoot_closed _ _ _ ho] at hmr2; cases hmr2
end

section
variable {L : LineParserI} (W : LPWell L)

theorem linesLeft_readline_le {b : Bytes} {i e : Nat} (he : eolEndB b i true = some e) :
    linesLeft b e ≤ linesLeft b i := by
  have hb := eolEndB_bounds he
  by_cases hlt : i < e
  · exact Nat.le_of_lt (linesLeft_lt he hlt)
  · rcases hb.2 with h | ⟨_, h⟩
    · exact absurd h hlt
    · rw [h, linesLeft_length]; exact Nat.zero_le _

include W in
theorem nextBlockF_mem (p : BP) (herr : p.err.isSome = true) (hi : p.i ≤ p.buf.length) (hb : BlocksOK p)
    (fs1 fp1 fs2 fp2 : Nat)
    (hs1 : linesLeft p.buf p.i + 1 ≤ fs1) (hs2 : linesLeft p.buf p.i + 1 ≤ fs2)
    (hp1 : linesLeft p.buf p.i + 2 ≤ fp1) (hp2 : linesLeft p.buf p.i + 2 ≤ fp2) :
    nextBlockF L fs1 fp1 p = nextBlockF L fs2 fp2 p ∧ MemPost p (nextBlockF L fs1 fp1 p) := by
  cases hbl : p.blocks with
  | nil =>
    have hmr : makeRoot p p.blocks = none := by rw [hbl]; rfl
    have hlen : ¬ p.blocks.length > 0 := by rw [hbl]; simp
    rw [nextBlockF_fresh L hmr hlen, nextBlockF_fresh L hmr hlen]
    have hfl : linesLeft (freshLine p).buf (freshLine p).i = linesLeft p.buf p.i := linesLeft_drop p.buf p.i
    obtain ⟨a1, a2, a3⟩ := skipBlank_mem fs1 fs2 (freshLine p) herr (by omega) (by omega)
    rw [← a1]
    rcases hr : skipBlank fs1 (freshLine p) with ⟨_ | q, q2⟩
    · rw [hr] at a2
      simp only [afterSkip]
      refine ⟨by trivial, ?_⟩
      cases hq : q2.panic with
      | some m => exact ⟨a2.panic, a2.err, fun r h => by cases h⟩
      | none => exact ⟨a2.panic, a2.err, fun r h => by cases h⟩
    · rw [hr] at a2 a3
      obtain ⟨b1, b2, b3, b4⟩ := a3 q rfl
      simp only at b1
      subst b1
      simp only [afterSkip]
      have hqb : q.blocks = [] := by rw [a2.blocks]; exact hbl
      rw [hqb]
      have herr' : q.err.isSome = true := by rw [a2.err]; exact herr
      obtain ⟨c1, c2⟩ := parseLines_mem W fp1 fp2 (L.new []) 0 q herr' b3 (Or.inr ⟨rfl, rfl, b4⟩) (by omega) (by omega)
      refine ⟨c1, ?_, ?_, c2.good⟩
      · rw [c2.panic]; exact a2.panic
      · rw [c2.err]; exact a2.err
  | cons k rest =>
    cases ho : k.isOpen with
    | false =>
      have hmr : makeRoot p p.blocks = some (rootOf p k, afterRoot p k rest) := by
        rw [hbl]; exact makeRoot_closed _ _ _ ho
      rw [nextBlockF_root L hmr, nextBlockF_root L hmr]
      have hb' : ∀ k' ∈ k :: rest, k'.isOpen = false → k'.label.stop.toNat ≤ p.i := by
        intro k' hk'; rw [← hbl] at hk'; exact hb k' hk'
      obtain ⟨i1, i2, i3, i4⟩ := afterRoot_inv hb' ho hi
      exact ⟨rfl, i1, i2, fun _ _ => ⟨i3, i4⟩⟩
    | true =>
      have hmr : makeRoot p p.blocks = none := by rw [hbl]; exact makeRoot_open _ _ _ ho
      have hlen : p.blocks.length > 0 := by rw [hbl]; simp
      rw [nextBlockF_pending L hmr hlen, nextBlockF_pending L hmr hlen]
      obtain ⟨e, he, hr⟩ := readline_site_mem herr
      have hbd := eolEndB_bounds he
      have hle := linesLeft_readline_le he
      rw [hr]
      simp only
      have hI : W.I (L.new p.blocks) := W.new_pending _ (by rw [hbl]; simp)
      obtain ⟨c1, c2⟩ := parseLines_mem W fp1 fp2 (L.new p.blocks) p.i { p with i := e } herr hbd.1 (Or.inl hI)
        (by simp only; omega) (by simp only; omega)
      exact ⟨c1, c2.panic, c2.err, c2.good⟩
end

end CM.Proofs
