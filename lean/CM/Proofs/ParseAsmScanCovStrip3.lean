import CM.Proofs.ParseAsmScanCovStrip2
import CM.Proofs.ParseAsmScanCovMain
/-
C03, inline half, the field `TokCover.code` — **`StripCov`**, by hand: `stripCodeSpanSpace` is the loop, the two byte tests
(`firstOKM`, `lastOKM`) and a tail (`stripTail`) that does not read the source; the tail is verified with `mvcgen` (the two
byte facts as Lean hypotheses), the rest with `Post.bind`.
-/
namespace CM.Proofs.PSc
open CM CM.Model CM.Model.Inl CM.Gen CM.Spec CM.Proofs CM.Proofs.InlH
open Std.Do

set_option mvcgen.warning false

/-- the test `firstOK` of `stripCodeSpanSpace` -/
def firstOKM (c : ICtx) (first : CSN) : IM Bool :=
  if first.kind == IK.indent then pure true else srcIs c first.start SP

/-- the part of `stripCodeSpanSpace` after the two tests -/
def stripTail (slice : Array CSN) (firstOK lastOK : Bool) : IM (Array CSN) := do
  let first := slice[0]!
  if !firstOK || !lastOK then return slice
  let single := slice.size == 1
  let mut sl := slice
  let first' : CSN := if first.kind == IK.indent then { first with indent := first.indent - 1 } else { first with start := first.start + 1 }
  sl := sl.set! 0 first'
  let firstGone := if first.kind == IK.indent then first'.indent == 0 else first'.len == 0
  if firstGone then sl := sl.extract 1 sl.size
  if single && firstGone then goPanic "stripCodeSpanSpace: slice bounds out of range [-1:]"
  let li := sl.size - 1
  let lastNow := sl[li]!
  let last' : CSN := if lastNow.kind == IK.indent then { lastNow with indent := lastNow.indent - 1 } else { lastNow with stop := lastNow.stop - 1 }
  sl := sl.set! li last'
  let lastGone := if lastNow.kind == IK.indent then last'.indent == 0 else last'.len == 0
  if lastGone then sl := sl.extract 0 li
  pure sl

/-- `stripCodeSpanSpace`, with the three parts named -/
def strip3 (c : ICtx) (slice : Array CSN) : IM (Array CSN) := do
  let mut foundNonSpace := false
  for n in slice do
    if n.kind != IK.indent then
      if !isOnlySpaces (← srcSlice c n.start n.stop) then
        foundNonSpace := true
        break
  if !foundNonSpace then return slice
  let firstOK ← firstOKM c slice[0]!
  let lastOK ← lastOKM c firstOK slice[slice.size - 1]!
  stripTail slice firstOK lastOK

theorem strip3_eq (c : ICtx) (slice : Array CSN) : stripCodeSpanSpace c slice = strip3 c slice := rfl

theorem firstOKM_post (c : ICtx) (first : CSN) :
    Post (fun _ => True) (firstOKM c first)
      (fun r _ => r = true → first.kind ≠ IK.indent → c.srcA[first.start.toNat]! = SP) := by
  intro s _
  unfold firstOKM
  by_cases hk : (first.kind == IK.indent) = true
  · rw [if_pos hk]
    exact fun _ hne => absurd (by simpa using hk) hne
  · rw [if_neg hk]
    have hp := srcIs_post c first.start SP s s rfl
    cases hr : (srcIs c first.start SP).run s with
    | error e => trivial
    | ok p =>
      rw [hr] at hp
      obtain ⟨_, _, _, a4⟩ := hp
      intro hr' _
      rw [hr'] at a4
      simpa using a4.symm

theorem lastOKM_post (c : ICtx) (firstOK : Bool) (last : CSN) :
    Post (fun _ => True) (lastOKM c firstOK last)
      (fun r _ => r = true → last.kind ≠ IK.indent → c.srcA[(last.stop - 1).toNat]! = SP) := by
  intro s _
  have := Post.of_triple (lastOKM_spec c firstOK last s) s rfl
  cases hr : (lastOKM c firstOK last).run s with
  | error e => trivial
  | ok p =>
    rw [hr] at this
    exact this.2

theorem stripTail_cov (c : ICtx) (slice : Array CSN) (lo hi : Int) (f l : Bool) (hch : CsCovA c lo hi slice)
    (hF : f = true → (slice[0]!).kind ≠ IK.indent → c.srcA[(slice[0]!).start.toNat]! = SP)
    (hL : l = true → (slice[slice.size - 1]!).kind ≠ IK.indent → c.srcA[((slice[slice.size - 1]!).stop - 1).toNat]! = SP) :
    ⦃fun _ => ⌜True⌝⦄ stripTail slice f l ⦃⇓? r _ => ⌜CsCovA c lo hi r⌝⦄ := by
  mvcgen +jp [stripTail, -goPanic_np]
  all_goals (try (exact (PostCond.mayThrow (fun _ _ => ⌜True⌝))))
  all_goals (try (exact fun h => h))
  all_goals (try (exact ExceptConds.entails.refl _))
  have hn := ‹¬(!f || !l) = true›
  simp only [Bool.or_eq_true, Bool.not_eq_true', not_or, Bool.not_eq_false] at hn
  exact strip_result_cov hch _ _ (by assumption) (by assumption) (hF hn.1) (hL hn.2)

theorem Post.any {α} (m : IM α) (A : Prop) (h : A) : Post (fun _ => True) m (fun _ _ => A) := by
  intro s _
  cases m.run s <;> trivial

theorem strip3_post (c : ICtx) (slice : Array CSN) (lo hi : Int) (hch : CsCovA c lo hi slice) :
    Post (fun _ => True) (strip3 c slice) (fun r _ => CsCovA c lo hi r) := by
  unfold strip3
  refine Post.bind (Q := fun _ _ => True) (Post.any _ True trivial) (fun found => ?_)
  refine Post.ite (fun _ => Post.pure fun _ _ => hch) (fun _ => ?_)
  refine Post.bind (Q := fun r _ => r = true → (slice[0]!).kind ≠ IK.indent → c.srcA[(slice[0]!).start.toNat]! = SP)
    (firstOKM_post c _) (fun f => ?_)
  refine Post.bind (Q := fun r _ => (f = true → (slice[0]!).kind ≠ IK.indent → c.srcA[(slice[0]!).start.toNat]! = SP) ∧
      (r = true → (slice[slice.size - 1]!).kind ≠ IK.indent →
        c.srcA[((slice[slice.size - 1]!).stop - 1).toNat]! = SP)) ?_ (fun l => ?_)
  · intro s hs
    have := lastOKM_post c f slice[slice.size - 1]! s trivial
    cases hr : (lastOKM c f slice[slice.size - 1]!).run s with
    | error e => trivial
    | ok p =>
      rw [hr] at this
      exact ⟨hs, this⟩
  · intro s hs
    exact Post.of_triple (stripTail_cov c slice lo hi f l hch hs.1 hs.2) s trivial

/-- **`stripCodeSpanSpace` keeps every needed byte of the runs in a piece that is not an Indent piece.** -/
theorem stripCov : stripCov_target := by
  intro c lo hi slice s0
  apply Post.triple
  intro s hs
  obtain ⟨rfl, hch⟩ := hs
  have h1 := (stripCodeSpanSpace_ro c slice).post s s rfl
  have h2 := strip3_post c slice lo hi hch s trivial
  rw [← strip3_eq] at h2
  cases hr : (stripCodeSpanSpace c slice).run s with
  | error e => trivial
  | ok p =>
    rw [hr] at h1 h2
    exact ⟨h1, h2⟩

open CM.Proofs.PW CM.Proofs.RK in
/-- **The field `TokCover.code` for every container with content of every root the block phase delivers.** -/
theorem blockphase_code : blockphase_code_target := blockphase_code_of_strip stripCov

open CM.Proofs.PW CM.Proofs.RK in
/-- C03, inline half, for `Parse`, with `ParseTails` as the only hypothesis — given the three open fields (`LinkCover.label`,
    `TokCover.html`, `LinkCover.inline` for the containers of block-phase trees). -/
theorem parse_cover_of_parseTails_of_three (h2 : blockphase_label_target)
    (h3 : blockphase_html_target) (h4 : blockphase_inline_target)
    (x : PExt) (ix : IExt) (inp : Bytes) (hT : ParseTails x ix inp) :
    ∀ pr ∈ (parseDoc x ix inp).roots, ∀ t', pr.tree = .ok t' →
      ∀ j : Int, 0 ≤ j → needsCover (pr.root.source.toArray[j.toNat]!) = true →
        CovTs [pbToTree pr.root.block] j → CovTs [t'] j :=
  parse_cover_of_parseTails_of_strip stripCov h2 h3 h4 x ix inp hT

end CM.Proofs.PSc

#print axioms CM.Proofs.PSc.strip3_eq
#print axioms CM.Proofs.PSc.stripCov
#print axioms CM.Proofs.PSc.blockphase_code
#print axioms CM.Proofs.PSc.parse_cover_of_parseTails_of_three
