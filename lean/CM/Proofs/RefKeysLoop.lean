import CM.Proofs.Label
import CM.Model.Inlines
/-
C12 — keys are normal forms, part 1: the pure functions.

`refTextLoop` (the collapsing loop of `transformLinkReferenceSpan` over the multi-node byte reader), started with
`inWs = false`, `acc = []`, returns a byte list in which every white-space byte (space, tab, LF, CR) is a single `0x20`
not adjacent to another (`WsShape`). After `trimSp` the list is white-space normal (`isWsNormal`), i.e. a fixed point
of the specification's `wsNormal`. Hence every result of `transformLinkReferenceSpan fold …` is `fold w` for a
white-space-normal `w` (`KeyNormal fold`), and so is every non-empty result of `Inl.transformLinkReference`.

`FoldOK fold` lists exactly what is needed of the external fold function (`cases.Fold().String`) to turn `KeyNormal`
into "a fixed point of `normalizeLabel fold`": on white-space-normal input `fold` is idempotent and keeps the input
white-space normal. `FoldOKAt fold w` is the same for one input `w` (decidable, so it can be checked per key at run
time).
-/
namespace CM.Proofs.RK
open CM CM.Model CM.Spec CM.Proofs

/-! ## the shape that the collapsing loop maintains -/

/-- Every white-space byte is `0x20`, and no two white-space bytes are adjacent. -/
def WsShape (l : Bytes) : Prop :=
  (∀ c ∈ l, Spec.isSpaceTabOrLineEnding c = true → c = SP) ∧ noAdjWs l = true

/-- The last byte (if any) is not white space. -/
def LastNonWs (l : Bytes) : Prop := ∀ c, l.getLast? = some c → Spec.isSpaceTabOrLineEnding c = false

theorem WsShape.nil : WsShape [] := ⟨fun _ h => (by cases h), rfl⟩
theorem LastNonWs.nil : LastNonWs [] := fun _ h => by cases h

/-- `noAdjWs` of a list with one more byte at the end. -/
theorem noAdjWs_snoc (l : Bytes) (c : UInt8) :
    noAdjWs (l ++ [c]) = (noAdjWs l && !((l.getLast?.any Spec.isSpaceTabOrLineEnding) && Spec.isSpaceTabOrLineEnding c)) := by
  induction l with
  | nil => simp [noAdjWs]
  | cons a t ih =>
    cases t with
    | nil => simp [noAdjWs]
    | cons b r =>
      have e : (a :: b :: r) ++ [c] = a :: b :: (r ++ [c]) := rfl
      have e' : (b :: r) ++ [c] = b :: (r ++ [c]) := rfl
      rw [e, noAdjWs, ← e', ih, noAdjWs]
      simp [List.getLast?_cons_cons, Bool.and_assoc]

theorem WsShape.snoc_nonws {l : Bytes} {c : UInt8} (h : WsShape l) (hc : Spec.isSpaceTabOrLineEnding c = false) :
    WsShape (l ++ [c]) ∧ LastNonWs (l ++ [c]) := by
  refine ⟨⟨?_, ?_⟩, ?_⟩
  · intro d hd hw
    rcases List.mem_append.1 hd with hd | hd
    · exact h.1 d hd hw
    · simp only [List.mem_singleton] at hd
      subst hd; rw [hc] at hw; cases hw
  · rw [noAdjWs_snoc, h.2, hc]; simp
  · intro d hd
    simp only [List.getLast?_append, List.getLast?_singleton, Option.some_or, Option.some.injEq] at hd
    subst hd; exact hc

theorem WsShape.snoc_sp {l : Bytes} (h : WsShape l) (hl : LastNonWs l) : WsShape (l ++ [SP]) := by
  refine ⟨?_, ?_⟩
  · intro d hd hw
    rcases List.mem_append.1 hd with hd | hd
    · exact h.1 d hd hw
    · simpa using hd
  · rw [noAdjWs_snoc, h.2]
    cases hg : l.getLast? with
    | none => simp
    | some d => simp [hl d hg]

/-- **The collapsing loop keeps the shape**: started on an accumulator of that shape whose last byte is not white
    space unless `inWs`, it returns a list of that shape. -/
theorem refTextLoop_shape (src : Bytes) (stop : Nat) : ∀ (fuel : Nat) (r : Rd) (inWs : Bool) (acc : Bytes),
    WsShape acc → (inWs = false → LastNonWs acc) → WsShape (refTextLoop src stop fuel r inWs acc) := by
  intro fuel
  induction fuel with
  | zero => intro r inWs acc h _; simpa [refTextLoop] using h
  | succ fuel ih =>
    intro r inWs acc h hl
    rw [refTextLoop]
    split
    · exact h
    · simp only []
      split
      · -- a white-space byte
        have hacc : WsShape (if inWs = true then acc else acc ++ [SP]) := by
          cases inWs with
          | true => simpa using h
          | false => simpa using h.snoc_sp (hl rfl)
        split
        · exact hacc
        · exact ih _ true _ hacc (fun hh => by cases hh)
      · -- any other byte
        rename_i hws
        have hc : Spec.isSpaceTabOrLineEnding (r.current src).1 = false := by
          rw [← gen_ws_eq_spec]; simpa using hws
        have hacc := h.snoc_nonws hc
        split
        · exact hacc.1
        · exact ih _ false _ hacc.1 (fun _ => hacc.2)

/-- On a list of that shape the model's collapsing function does nothing … -/
theorem collapseWs_of_WsShape {l : Bytes} (h : WsShape l) : collapseWs l false = l :=
  collapseWs_of_shape l false h.1 h.2 (fun hh => by cases hh)

/-- … so trimming it gives the specification's white-space normal form, which is white-space normal. -/
theorem trimSp_eq_wsNormal {l : Bytes} (h : WsShape l) : trimSp l = Spec.wsNormal l := by
  have : trimSp l = trimSpaces (collapseWs l false) := by rw [collapseWs_of_WsShape h]; rfl
  rw [this, trim_collapse_eq_wsNormal]

theorem trimSp_isWsNormal {l : Bytes} (h : WsShape l) : isWsNormal (trimSp l) = true := by
  rw [trimSp_eq_wsNormal h]; exact wsNormal_shape l

/-- The unfolded key: the text `transformLinkReferenceSpan` hands to `cases.Fold`. -/
def rawKey (src : Bytes) (nodes : List Tree) (start stop : Nat) : Bytes :=
  trimSp (refTextLoop src stop (rdFuel src nodes) (newReader nodes start) false [])

theorem refTextLoop_shape0 (src : Bytes) (nodes : List Tree) (start stop : Nat) :
    WsShape (refTextLoop src stop (rdFuel src nodes) (newReader nodes start) false []) :=
  refTextLoop_shape src stop _ _ false [] WsShape.nil (fun _ => LastNonWs.nil)

/-- **The text handed to the fold is white-space normal**: no leading / trailing white space, every white-space byte
    a single `0x20` … -/
theorem rawKey_isWsNormal (src : Bytes) (nodes : List Tree) (start stop : Nat) :
    isWsNormal (rawKey src nodes start stop) = true :=
  trimSp_isWsNormal (refTextLoop_shape0 src nodes start stop)

/-- … i.e. a fixed point of the specification's normal form. -/
theorem rawKey_wsNormal_fixed (src : Bytes) (nodes : List Tree) (start stop : Nat) :
    Spec.wsNormal (rawKey src nodes start stop) = rawKey src nodes start stop :=
  wsNormal_of_isWsNormal _ (rawKey_isWsNormal src nodes start stop)

theorem transformLinkReferenceSpan_eq (fold : Bytes → Bytes) (src : Bytes) (nodes : List Tree) (start stop : Nat) :
    transformLinkReferenceSpan fold src nodes start stop = fold (rawKey src nodes start stop) := rfl

/-- `transformLinkReferenceSpan` is the specification's label normalisation of the bytes the reader loop collected. -/
theorem transformLinkReferenceSpan_eq_spec (fold : Bytes → Bytes) (src : Bytes) (nodes : List Tree) (start stop : Nat) :
    transformLinkReferenceSpan fold src nodes start stop =
      Spec.normalizeLabelSpec fold (refTextLoop src stop (rdFuel src nodes) (newReader nodes start) false []) := by
  rw [transformLinkReferenceSpan_eq, rawKey, trimSp_eq_wsNormal (refTextLoop_shape0 src nodes start stop)]
  rfl

/-! ## `KeyNormal` -/

/-- A reference key of the normal shape: the fold of a white-space-normal label. -/
def KeyNormal (fold : Bytes → Bytes) (k : Bytes) : Prop := ∃ w, isWsNormal w = true ∧ k = fold w

/-- What `Inline.ref` fields hold: nothing, or a key of the normal shape. -/
def RefNormal (fold : Bytes → Bytes) (k : Bytes) : Prop := k = [] ∨ KeyNormal fold k

/-- **Definitions and uses**: every result of `transformLinkReferenceSpan` is of the normal shape. -/
theorem transformLinkReferenceSpan_keyNormal (fold : Bytes → Bytes) (src : Bytes) (nodes : List Tree) (start stop : Nat) :
    KeyNormal fold (transformLinkReferenceSpan fold src nodes start stop) :=
  ⟨rawKey src nodes start stop, rawKey_isWsNormal src nodes start stop, rfl⟩

/-- **Uses (full reference links)**: `transformLinkReference` returns nothing (no label nodes; not a key) or a key of
    the normal shape. -/
theorem transformLinkReference_refNormal (c : Inl.ICtx) (nodes : List Tree) :
    RefNormal c.x.fold (Inl.transformLinkReference c nodes) := by
  unfold Inl.transformLinkReference
  split
  · exact Or.inr (transformLinkReferenceSpan_keyNormal _ _ _ _ _)
  · exact Or.inl rfl

theorem transformLinkReference_keyNormal (c : Inl.ICtx) (nodes : List Tree) (hne : nodes ≠ []) :
    KeyNormal c.x.fold (Inl.transformLinkReference c nodes) := by
  unfold Inl.transformLinkReference
  cases nodes with
  | nil => exact absurd rfl hne
  | cons a t =>
    have : (a :: t).getLast? = some ((a :: t).getLast (by simp)) := List.getLast?_eq_some_getLast _
    simp only [List.head?_cons, this]
    exact transformLinkReferenceSpan_keyNormal _ _ _ _ _

/-! ## what is needed of the fold -/

/-- The two facts about the external `cases.Fold().String` that make keys fixed points, for one input. -/
def FoldOKAt (fold : Bytes → Bytes) (w : Bytes) : Prop :=
  fold (fold w) = fold w ∧ isWsNormal (fold w) = true

instance (fold : Bytes → Bytes) (w : Bytes) : Decidable (FoldOKAt fold w) := by unfold FoldOKAt; infer_instance

/-- … for every white-space-normal input: folding is idempotent and keeps the label white-space normal (it neither
    creates nor removes white space at the ends, creates no tab / line ending and no two adjacent spaces). -/
structure FoldOK (fold : Bytes → Bytes) : Prop where
  idem : ∀ w, isWsNormal w = true → fold (fold w) = fold w
  ws : ∀ w, isWsNormal w = true → isWsNormal (fold w) = true

theorem FoldOK.at {fold : Bytes → Bytes} (h : FoldOK fold) {w : Bytes} (hw : isWsNormal w = true) : FoldOKAt fold w :=
  ⟨h.idem w hw, h.ws w hw⟩

/-- A key `fold w` whose `w` passes the two checks is a fixed point of the label normalisation. -/
theorem normalizeLabel_fold_fixed {fold : Bytes → Bytes} {w : Bytes} (h : FoldOKAt fold w) :
    normalizeLabel fold (fold w) = fold w := by
  rw [normalize_eq_spec, normalizeLabelSpec, wsNormal_of_isWsNormal _ h.2, h.1]

/-- **A key of the normal shape is in normalized form** (given the fold facts). -/
theorem KeyNormal.fixed {fold : Bytes → Bytes} (hf : FoldOK fold) {k : Bytes} (hk : KeyNormal fold k) :
    normalizeLabel fold k = k := by
  obtain ⟨w, hw, rfl⟩ := hk
  exact normalizeLabel_fold_fixed (hf.at hw)

/-- … and white-space normal, and a fixed point of the fold. -/
theorem KeyNormal.isWsNormal {fold : Bytes → Bytes} (hf : FoldOK fold) {k : Bytes} (hk : KeyNormal fold k) :
    isWsNormal k = true ∧ fold k = k := by
  obtain ⟨w, hw, rfl⟩ := hk
  exact ⟨hf.ws w hw, hf.idem w hw⟩

/-- The identity fold satisfies the hypotheses (so they are consistent); so does ASCII lower-casing (below). -/
theorem FoldOK_id : FoldOK id := ⟨fun _ _ => rfl, fun _ h => h⟩

/-- The label of a use, normalised, is a key of the normal shape that matches itself: looking it up is looking up a
    normal form. -/
theorem use_label_fixed {fold : Bytes → Bytes} (hf : FoldOK fold) (src : Bytes) (nodes : List Tree) (start stop : Nat) :
    normalizeLabel fold (transformLinkReferenceSpan fold src nodes start stop) =
      transformLinkReferenceSpan fold src nodes start stop :=
  (transformLinkReferenceSpan_keyNormal fold src nodes start stop).fixed hf

/-! ## Non-vacuity -/

section Examples

/-- ASCII lower-casing, a non-trivial fold. -/
def asciiLower (b : Bytes) : Bytes := b.map fun c => if 0x41 ≤ c ∧ c ≤ 0x5A then c + 0x20 else c

/-- "[ Foo \t\n  BAR ]" as one Unparsed node: label text between positions 1 and 14. -/
def exSrc : Bytes := [0x5B, 0x20, 0x46, 0x6F, 0x6F, 0x20, 0x09, 0x0A, 0x20, 0x20, 0x42, 0x41, 0x52, 0x20, 0x5D]
def exNodes : List Tree := [mkInline IK.unparsed 0 15]

example : refTextLoop exSrc 14 (rdFuel exSrc exNodes) (newReader exNodes 1) false []
    = [0x20, 0x46, 0x6F, 0x6F, 0x20, 0x42, 0x41, 0x52, 0x20] := by decide +kernel
example : rawKey exSrc exNodes 1 14 = [0x46, 0x6F, 0x6F, 0x20, 0x42, 0x41, 0x52] := by decide +kernel
example : transformLinkReferenceSpan asciiLower exSrc exNodes 1 14 = [0x66, 0x6F, 0x6F, 0x20, 0x62, 0x61, 0x72] := by
  decide +kernel
example : KeyNormal asciiLower [0x66, 0x6F, 0x6F, 0x20, 0x62, 0x61, 0x72] :=
  ⟨[0x46, 0x6F, 0x6F, 0x20, 0x42, 0x41, 0x52], by decide +kernel, by decide +kernel⟩
example : FoldOKAt asciiLower (rawKey exSrc exNodes 1 14) := by decide +kernel
example : normalizeLabel asciiLower (transformLinkReferenceSpan asciiLower exSrc exNodes 1 14)
    = transformLinkReferenceSpan asciiLower exSrc exNodes 1 14 :=
  normalizeLabel_fold_fixed (by decide +kernel)
-- the raw label itself is *not* a fixed point, and not of the shape
example : normalizeLabel asciiLower (exSrc.drop 1 |>.take 13) ≠ (exSrc.drop 1 |>.take 13) := by decide +kernel
example : ¬ WsShape [0x46, 0x20, 0x20] := by
  intro h; have := h.2; revert this; decide +kernel
-- a fold that is not idempotent on a normal label fails the check (so the hypothesis is not vacuous)
example : ¬ FoldOKAt (fun b => b ++ [0x61]) [0x62] := by decide +kernel

end Examples

end CM.Proofs.RK
