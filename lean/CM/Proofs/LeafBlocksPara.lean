import CM.Proofs.LeafBlocksMulti
/-
C06 (block piece, leaf blocks): paragraphs and setext headings.
The first line of a paragraph on the empty document, a continuation line, the end of input, the setext underline; the
runs of the stream machine.
-/
namespace CM.Proofs.Leaf
open CM CM.Model CM.Gen
open CM.Proofs CM.Proofs.BT

/-! ### side conditions -/

/-- The line is not empty and does not begin with a space or a tab. -/
def lineStartOK : Bytes → Bool
  | [] => false
  | c :: _ => c != SP && c != TAB

/-- The first line of a paragraph: no LF/CR/NUL, begins with a byte other than space and tab, starts no block. -/
def paraFirstOK (l : Bytes) : Bool := plainLine l && lineStartOK l && noBlockStart false (l ++ [LF])

/-- A further line of a paragraph: begins with a byte other than space and tab, and does not interrupt the paragraph. -/
def paraContOK (l : Bytes) : Bool := lineStartOK l && noBlockStart true (l ++ [LF])

theorem lineStartOK_elim {l : Bytes} (h : lineStartOK l = true) : ∃ c rest, l = c :: rest ∧ c ≠ SP ∧ c ≠ TAB := by
  cases l with
  | nil => cases h
  | cons c rest =>
    simp only [lineStartOK, Bool.and_eq_true, bne_iff_ne, ne_eq] at h
    exact ⟨c, rest, rfl, h.1, h.2⟩

theorem not_blank_of_start {c : UInt8} {rest : Bytes} (h1 : c ≠ SP) (h2 : c ≠ TAB) (hp : plainLine (c :: rest) = true) (t : Bytes) :
    isBlankLine (c :: rest ++ t) = false := by
  have := plainLine_mem hp (List.mem_cons_self (a := c) (l := rest))
  have hws := not_ws_of c h1 h2 this.1 this.2.1
  simp [isBlankLine, hws]

/-! ### the match rule -/

theorem ruleMatch_para (x : PExt) (p : LP) : ruleMatch x BK.paragraph p = some (!p.isRestBlank, p) := by
  unfold ruleMatch
  simp [BK.paragraph, BK.document, BK.list, BK.listItem, BK.blockQuote, BK.fencedCode, BK.indentedCode, BK.htmlBlock]

theorem tryStarts_state (f : LP → LP) (rest : List (LP → LP)) (p : LP) :
    tryStarts (f :: rest) p = tryStarts (f :: rest) { p with state := stateOpening } := by
  simp only [tryStarts]

/-! ### the first line -/

theorem processLine_para_first (x : PExt) (p : LP) (c : UInt8) (rest : Bytes)
    (hroot : p.root = docRoot []) (hd : p.depth = 0) (hi : p.i = 0) (hls : p.lineStart = 0)
    (hst : p.state = stateOpening) (hc : CurOK p) (hline : p.line = c :: rest) (h1 : c ≠ SP) (h2 : c ≠ TAB)
    (hnb : isBlankLine p.line = false) (hns : noBlockStart false p.line = true) :
    (processLine x p).root = doc1 (leafOpen BK.paragraph 0 [mkInline IK.unparsed (0 : Nat) (p.line.length : Nat)]) ∧
    (processLine x p).panic = p.panic := by
  obtain ⟨hind, hbai⟩ := noIndent p c rest hc hi hline h1 h2
  have hk := containerKind_doc0 p hroot hd
  have hts : tryStarts (blockStartFns x) p = p := tryStarts_none x p hst hind (by
    rw [hk, hbai]; exact hns)
  rw [processLine_doc0 x p hroot hd hst (by rw [hline]; simp),
    show p.line.length + 8 = (p.line.length + 7) + 1 from rfl,
    openingLoop_step x _ p (Or.inr (by rw [hk]; decide)), hts]
  simp only [hst, show (stateOpening == stateOpenMatched) = false from rfl, show (stateOpening == stateLineConsumed) = false from rfl,
    Bool.false_eq_true, if_false, if_true]
  rw [addLineText_doc0 x p hroot hd hi hls hst hind (by simp only [LP.isRestBlank, hi, List.drop_zero, hnb])]
  exact ⟨rfl, rfl⟩

/-! ### a continuation line -/

theorem processLine_para_cont (x : PExt) (p : LP) (inl : List Tree) (c : UInt8) (rest : Bytes)
    (hroot : p.root = doc1 (leafOpen BK.paragraph 0 inl)) (hi : p.i = 0) (hc : CurOK p) (htp : p.tabPartial = false)
    (hline : p.line = c :: rest) (h1 : c ≠ SP) (h2 : c ≠ TAB)
    (hnb : isBlankLine p.line = false) (hns : noBlockStart true p.line = true) :
    (processLine x p).root = doc1 (leafOpen BK.paragraph 0
      (inl ++ [mkInline IK.unparsed ((p.lineStart : Nat) : Int) ((p.lineStart + p.line.length : Nat) : Int)])) ∧
    (processLine x p).panic = p.panic := by
  obtain ⟨hind, hbai⟩ := noIndent p c rest hc hi hline h1 h2
  have hrb : ∀ q : LP, cur q = cur p → q.isRestBlank = false := by
    intro q hq
    rw [isRestBlank_of_cur hq]; simp only [LP.isRestBlank, hi, List.drop_zero, hnb]
  have hrm : ruleMatch x BK.paragraph { p with depth := 1, state := stateDescending } =
      some (true, { p with depth := 1, state := stateDescending }) := by
    rw [ruleMatch_para, hrb { p with depth := 1, state := stateDescending } rfl]; rfl
  unfold processLine
  rw [descend_doc1 x p BK.paragraph 0 inl true hroot hrm]
  simp only [if_true, show (stateDescending == stateDescendTerminated) = false from rfl, Bool.false_eq_true, if_false]
  have hemp : p.line.isEmpty = false := by rw [hline]; rfl
  unfold openNewBlocks
  simp only [hemp, Bool.false_eq_true, if_false, if_true]
  have hkq : ({ p with depth := 1, state := stateDescending } : LP).containerKind = BK.paragraph :=
    containerKind_doc1 _ BK.paragraph 0 inl hroot rfl
  have hkq0 : ({ p with depth := 1, state := stateOpening } : LP).containerKind = BK.paragraph :=
    containerKind_doc1 _ BK.paragraph 0 inl hroot rfl
  have hts : tryStarts (blockStartFns x) { p with depth := 1, state := stateDescending } =
      { p with depth := 1, state := stateOpening } := by
    unfold blockStartFns
    rw [tryStarts_state]
    exact tryStarts_none x { p with depth := 1, state := stateOpening } rfl (by rw [← hind]; exact indent_of_cur rfl) (by
      rw [hkq0, show ({ p with depth := 1, state := stateOpening } : LP).bytesAfterIndent = p.bytesAfterIndent from bai_of_cur rfl,
        hbai]
      exact hns)
  rw [show p.line.length + 8 = (p.line.length + 7) + 1 from rfl, openingLoop_step x _ _ (Or.inl hkq), hts]
  simp only [show (stateOpening == stateOpenMatched) = false from rfl, show (stateOpening == stateLineConsumed) = false from rfl,
    Bool.false_eq_true, if_false, if_true]
  rw [addLineText_doc1 x { p with depth := 1, state := stateOpening } BK.paragraph 0 inl IK.unparsed hroot rfl htp
    (hrb { p with depth := 1, state := stateOpening } rfl) (Or.inl ⟨rfl, rfl⟩)]
  refine ⟨?_, rfl⟩
  show doc1 _ = doc1 _
  rw [hi, Nat.add_zero]

theorem para_stepOK (x : PExt) : StepOK x BK.paragraph 0 IK.unparsed (fun l => paraContOK l = true) := by
  intro lp inl src s l hroot hsrc hpl hok
  simp only [paraContOK, Bool.and_eq_true] at hok
  obtain ⟨c, rest, rfl, h1, h2⟩ := lineStartOK_elim hok.1
  rw [blocksLP_line]
  have r := reset_facts lp src s
  generalize lp.reset src s = p at r
  have hline : p.line = c :: (rest ++ [LF]) := by rw [r.line, hsrc]; rfl
  have h := processLine_para_cont x p inl c (rest ++ [LF]) (by rw [r.root, hroot]) r.i r.cur r.tabPartial hline h1 h2
    (by rw [hline]; exact not_blank_of_start h1 h2 hpl [LF]) (by rw [hline]; exact hok.2)
  rw [r.lineStart, hline, r.panic] at h
  simpa using h

theorem para_first (x : PExt) (l0 : Bytes) (h : paraFirstOK l0 = true) :
    ((blocksLP x).line ((blocksLP x).new []) (l0 ++ [LF]) 0).root =
        doc1 (leafOpen BK.paragraph 0 [mkInline IK.unparsed (0 : Nat) ((0 + (l0.length + 1) : Nat) : Int)]) ∧
    ((blocksLP x).line ((blocksLP x).new []) (l0 ++ [LF]) 0).panic = none := by
  simp only [paraFirstOK, Bool.and_eq_true] at h
  obtain ⟨⟨hpl, hs⟩, hns⟩ := h
  obtain ⟨c, rest, rfl, h1, h2⟩ := lineStartOK_elim hs
  show (processLine x (newLP.reset _ 0)).root = _ ∧ (processLine x (newLP.reset _ 0)).panic = none
  obtain ⟨r1, r2, r3, r4, r5, r6, r7, r8, _, _, _⟩ := reset_first (c :: rest ++ [LF]) _ rfl
  generalize newLP.reset (c :: rest ++ [LF]) 0 = p at *
  have := processLine_para_first x p c (rest ++ [LF]) r1 r2 r3 r4 r5 r7 r8 h1 h2
    (by rw [r8]; exact not_blank_of_start h1 h2 hpl [LF]) (by rw [r8]; exact hns)
  rw [r6, r8] at this
  simpa using this

/-! ### the end of input -/

theorem para_eof (x : PExt) (lp : LP) (first : Tree) (rest : List Tree) (src : Bytes) (s : Nat)
    (hroot : lp.root = doc1 (leafOpen BK.paragraph 0 (first :: rest))) (hsrc : src.drop s = [])
    (hb : src.getD first.label.start.toNat 0 ≠ 0x5B) :
    ((blocksLP x).line lp src s).root = .mk { kind := BK.document, start := 0, stop := (s : Nat) }
        [leafClosed BK.paragraph 0 (s : Nat) (first :: rest)] [] ∧
    ((blocksLP x).line lp src s).panic = lp.panic := by
  rw [blocksLP_line]
  have r := reset_facts lp src s
  generalize lp.reset src s = p at r
  have hline : p.line = [] := by rw [r.line, hsrc]
  have hrm : ruleMatch x BK.paragraph { p with depth := 1, state := stateDescending } =
      some (false, { p with depth := 1, state := stateDescending }) := by
    rw [ruleMatch_para]
    have : ({ p with depth := 1, state := stateDescending } : LP).isRestBlank = true := by
      simp only [LP.isRestBlank, hline, List.drop_nil]; rfl
    rw [this]; rfl
  have h := processLine_eof x p BK.paragraph 0 (first :: rest) false (by rw [r.root, hroot]) hline hrm
  rw [r.lineStart, r.source, r.panic, closeBlock_doc1_para x src _ BK.paragraph 0 first rest (Or.inl rfl) hb] at h
  exact h

/-! ### the paragraph run -/

/-- **Paragraph** (the run of the stream machine): lines `l0, l1, …` without LF/CR/NUL, none beginning with a space or a
    tab, the first starting no block (`paraFirstOK`) and not beginning with `[`, the others not interrupting a paragraph
    (`paraContOK`): exactly one root, a Paragraph block spanning the document with ONE Unparsed child per line, spanning
    the line and its line ending; no link reference definition is split off; then the end of input. -/
theorem paragraph_run (x : PExt) (l0 : Bytes) (ls : List Bytes) (fuel : Nat)
    (h0 : paraFirstOK l0 = true) (hb : l0.head? ≠ some 0x5B)
    (hls : ∀ l ∈ ls, plainLine l = true ∧ paraContOK l = true) (hfuel : 2 ≤ fuel) :
    drain (blocksLP x) fuel (memParser (leafDoc l0 ls [])) [] =
      ([{ source := leafDoc l0 ls [], startLine := 1, startOffset := 0, endOffset := (leafDoc l0 ls []).length,
          block := leafClosed BK.paragraph 0 ((leafDoc l0 ls []).length : Nat) (runNodes IK.unparsed 0 (l0 :: ls)) }],
       .err .eof, doneBP (leafDoc l0 ls []).length (1 + lineCount (leafDoc l0 ls []))) := by
  have h0' := h0
  simp only [paraFirstOK, Bool.and_eq_true] at h0'
  obtain ⟨⟨hpl, hs⟩, _⟩ := h0'
  obtain ⟨c, rest, rfl, h1, h2⟩ := lineStartOK_elim hs
  have hlen : (leafDoc (c :: rest) ls []).length = (c :: rest).length + 1 + (body ls).length := by
    simp [leafDoc]; omega
  have hnb0 : isBlankLine (c :: rest) = false := by
    have := not_blank_of_start h1 h2 hpl []; rwa [List.append_nil] at this
  refine leaf_run x BK.paragraph 0 IK.unparsed (fun l => paraContOK l = true) (c :: rest) ls [] fuel
    [mkInline IK.unparsed (0 : Nat) ((0 + ((c :: rest).length + 1) : Nat) : Int)]
    { kind := BK.document, start := 0, stop := ((leafDoc (c :: rest) ls []).length : Nat) }
    (leafClosed BK.paragraph 0 ((leafDoc (c :: rest) ls []).length : Nat) (runNodes IK.unparsed 0 ((c :: rest) :: ls)))
    hpl hnb0 hls rfl (by simp) (para_first x _ h0) (para_stepOK x) ?_ rfl hfuel
  intro lp hroot hpanic
  have hroot' : lp.root = doc1 (leafOpen BK.paragraph 0
      (mkInline IK.unparsed (0 : Nat) ((0 + ((c :: rest).length + 1) : Nat) : Int) :: runNodes IK.unparsed ((c :: rest).length + 1) ls)) := hroot
  have := para_eof x lp _ _ (leafDoc (c :: rest) ls []) ((c :: rest).length + 1 + (body ls).length) hroot'
    (by rw [← hlen]; simp)
    (by
      show (leafDoc (c :: rest) ls []).getD 0 0 ≠ 0x5B
      intro h; apply hb; rw [← h]; rfl)
  refine ⟨?_, this.2.trans hpanic⟩
  rw [this.1, hlen]
  simp [runNodes]

end CM.Proofs.Leaf
