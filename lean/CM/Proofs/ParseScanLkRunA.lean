import CM.Proofs.InlSpanRunA
import CM.Proofs.ParseScanLkRun

/-
C02, inline half, with `LinkScan2` / `TokScan2` — the first group of cases of the tokenizer.
(Generated from `InlSpanRunA.lean`: the same proofs with `LinkScan2` in the place of `LinkScan`.)
-/

namespace CM.Proofs.InlH2
open CM CM.Model CM.Model.Inl CM.Gen CM.Spec CM.Proofs CM.Proofs.InlH
open Std.Do

set_option mvcgen.warning false

@[spec 21000]
theorem tokA_specP (L : Lims) (c : ICtx) (hU : UnpOK c L) (hT : TokScan2 c L.hi) (hS : LinkScan2 c L.hi) (s : IState)
    (b : UInt8) (pos plainStart : Int) (done : Bool)
    (hB : ∀ s,
      ⦃fun st => ⌜st = s ∧ RunInv L c (pos, plainStart, done) s ∧ s.unparsedPos < c.unparsed.size ∧
          pos < spanEndOf c s⌝⦄
      tokB c s b pos plainStart done
      ⦃⇓? r st => ⌜RunInv L c r.value st⌝⦄) :
    ⦃fun st => ⌜st = s ∧ RunInv L c (pos, plainStart, done) s ∧ s.unparsedPos < c.unparsed.size ∧
        pos < spanEndOf c s⌝⦄
    tokA c s b pos plainStart done
    ⦃⇓? r st => ⌜RunInv L c r.value st⌝⦄ := by
  mvcgen [tokA, addText, alloc, addToRoot, nodeLen, getNode, setParent, modifyNode, pushStack, hB, -addToRoot_spec, 
    -addToRoot_specS, -CM.Proofs.InlH.refPart_specP, -CM.Proofs.InlH.parseEndBracket_specP, 
    -CM.Proofs.InlH.tokC_specP, -CM.Proofs.InlH.tokA_specP]
  all_goals (try (exact fun h => h))
  all_goals (try (exact ExceptConds.entails.refl _))
  all_goals (try (exact hU.arr))
  all_goals (try assumption)
  all_goals tok_setup
  -- the dead branch of `addToRoot` (the new node is not empty)
  all_goals (try (
    exfalso
    have h2 := ‹(spanLenI _ _ == 0) = true›
    rw [get!_push_eq] at h2
    dsimp only at h2
    have := spanLen_zero h2 (by omega)
    omega))
  all_goals unp_norm
  all_goals (first
    | (refine ⟨trivial, ?_, ?_⟩
       · first | assumption | (apply SP.mono; assumption; omega; omega)
       · omega)
    | (refine ⟨trivial, ?_, ?_, ?_⟩
       · first | assumption | (apply SP.mono; assumption; omega; omega)
       · omega
       · omega)
    | (refine ⟨trivial, ?_, ?_, ?_, ?_⟩
       · first | assumption | (apply SP.mono; assumption; omega; omega)
       · omega
       · omega
       · omega)
    | (refine ⟨?_, ?_, ?_⟩
       · first | assumption | (apply SP.mono; assumption; omega; omega)
       · omega
       · intro _; omega)
    | (refine ⟨?_, by omega, ?_⟩
       · exact SP.congr (SP.pushLeaf (SP.mono (F' := pos) ‹SPT _ _ (max _ _) _› (by omega) (by omega))
           { kind := IK.text, start := pos, stop := _ } rfl (Int.le_refl _) (by dsimp only; omega)
           (by dsimp only; omega) rfl _) rfl rfl rfl
       · intro _; omega)
    )

end CM.Proofs.InlH2
