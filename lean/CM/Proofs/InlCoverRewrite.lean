import CM.Proofs.InlCoverMain
/-
C03, inline half — `rewriteE` (the inline phase on a whole block tree) loses nothing: a needed byte that lies in a leaf
of the block tree lies in a leaf of the rewritten tree.
-/
namespace CM.Proofs.InlH
open CM CM.Model CM.Model.Inl CM.Gen CM.Spec

/-- What coverage needs to know about a container `u` with Unparsed children: the facts about what the scanners'
    pieces cover, and that the needed bytes its inline children cover lie in Unparsed runs (the other inline children
    of such a container - Indent nodes - cover white space only; it has no block children). -/
def ContCov (x : IExt) (src : Bytes) (srcA : Array UInt8) (matchRef : Bytes → Bool) (u : Tree) : Prop :=
  LinkCover (inlCtx x src srcA matchRef u.children) ∧ TokCover (inlCtx x src srcA matchRef u.children) ∧
  ∀ j : Int, 0 ≤ j → needsCover (srcA[j.toNat]!) = true → CovTs u.children j →
    ∃ r ∈ u.children, r.label.isBlock = false ∧ r.label.kind = IK.unparsed ∧ r.label.start ≤ j ∧ j < r.label.stop

/-- every container with Unparsed children in `t` is `ContCov` -/
def ContsCov (x : IExt) (src : Bytes) (srcA : Array UInt8) (matchRef : Bytes → Bool) (t : Tree) : Prop :=
  ∀ u ∈ T.nodes t, u.label.isBlock = true → hasUnparsed u.children = true → ContCov x src srcA matchRef u

theorem ContsCov.child {x : IExt} {src : Bytes} {srcA : Array UInt8} {matchRef : Bytes → Bool} {l : Label}
    {cs : List Tree} (h : ContsCov x src srcA matchRef (.node l cs)) {c : Tree} (hc : c ∈ cs) :
    ContsCov x src srcA matchRef c := by
  intro u hu
  exact h u (by rw [T.nodes]; exact List.mem_cons_of_mem _ (nodesL_of_mem hc hu))

/-- coverage by a node: the node itself, or a leaf among its children -/
theorem covTs_node {l : Label} {cs : List Tree} {j : Int} :
    CovTs [.node l cs] j ↔ (isLeaf (.node l cs) = true ∧ l.start ≤ j ∧ j < l.stop) ∨ CovTs cs j := by
  constructor
  · rintro ⟨t, ht, h1⟩
    simp only [T.nodesL, T.nodes, List.append_nil, List.mem_cons] at ht
    rcases ht with rfl | ht
    · exact Or.inl h1
    · exact Or.inr ⟨t, ht, h1⟩
  · rintro (h | ⟨t, ht, h1⟩)
    · exact ⟨.node l cs, by simp [T.nodesL, T.nodes], h⟩
    · exact ⟨t, by simp only [T.nodesL, T.nodes, List.append_nil, List.mem_cons]; exact Or.inr ht, h1⟩

theorem covTs_consC {t : Tree} {ts : List Tree} {j : Int} : CovTs (t :: ts) j ↔ CovTs [t] j ∨ CovTs ts j := by
  constructor
  · rintro ⟨l, hl, h1⟩
    rw [T.nodesL, List.mem_append] at hl
    rcases hl with hl | hl
    · exact Or.inl ⟨l, by simpa [T.nodesL] using hl, h1⟩
    · exact Or.inr ⟨l, hl, h1⟩
  · rintro (⟨l, hl, h1⟩ | ⟨l, hl, h1⟩)
    · exact ⟨l, by rw [T.nodesL, List.mem_append]; exact Or.inl (by simpa [T.nodesL] using hl), h1⟩
    · exact ⟨l, by rw [T.nodesL, List.mem_append]; exact Or.inr hl, h1⟩

/-- a block that is a leaf stays one whatever its children are -/
theorem isLeaf_block {l : Label} {cs cs' : List Tree} (hb : l.isBlock = true) (h : isLeaf (.node l cs) = true) :
    isLeaf (.node l cs') = true := by
  unfold isLeaf T.isBlock T.isB at *
  have e1 : (Tree.node l cs).label = l := rfl
  have e2 : (Tree.node l cs').label = l := rfl
  rw [e1, hb] at h
  rw [e2, hb]
  simpa using h

mutual
/-- **The inline phase on a block tree loses nothing** (C03, inline half). -/
theorem rewriteE_cover (x : IExt) (src : Bytes) (srcA : Array UInt8) (matchRef : Bytes → Bool) :
    (t : Tree) → WFT t → ContsOK x src srcA matchRef t → ContsCov x src srcA matchRef t →
      ∀ t', rewriteE x src srcA matchRef t = .ok t' →
      ∀ j : Int, 0 ≤ j → needsCover (srcA[j.toNat]!) = true → CovTs [t] j → CovTs [t'] j
  | .node l cs, hw, hc, hv, t', h, j, hj0, hn, hcov => by
    rw [rewriteE] at h
    split at h
    · cases h; exact hcov
    · rename_i hb
      have hb' : l.isBlock = true := by simpa using hb
      split at h
      · rename_i hu
        split at h
        · rename_i kids hk
          cases h
          have hmem : Tree.node l cs ∈ T.nodes (.node l cs) := by rw [T.nodes]; exact List.mem_cons_self ..
          obtain ⟨c0, cT, cS⟩ := hc (.node l cs) hmem hb' hu
          obtain ⟨vL, vT, vR⟩ := hv (.node l cs) hmem hb' hu
          rw [WFT_iff] at hw
          rcases covTs_node.1 hcov with ⟨hl, h1, h2⟩ | hcs
          · exact covTs_node.2 (Or.inl ⟨isLeaf_block hb' hl, h1, h2⟩)
          · obtain ⟨r, hr, r1, r2, r3, r4⟩ := vR j hj0 hn hcs
            exact covTs_node.2 (Or.inr (parseInlines_cover' x src srcA matchRef l.start l.stop cs c0 hw.2 cT cS vL vT
              kids hk r hr r1 r2 j r3 r4 hj0 hn))
        · cases h
      · split at h
        · rename_i kids hk
          cases h
          rw [WFT_iff] at hw
          rcases covTs_node.1 hcov with ⟨hl, h1, h2⟩ | hcs
          · exact covTs_node.2 (Or.inl ⟨isLeaf_block hb' hl, h1, h2⟩)
          · exact covTs_node.2 (Or.inr (rewriteForestE_cover x src srcA matchRef cs l.start l.stop hw.2
              (fun c hc' => hc.child hc') (fun c hc' => hv.child hc') kids hk j hj0 hn hcs))
        · cases h
theorem rewriteForestE_cover (x : IExt) (src : Bytes) (srcA : Array UInt8) (matchRef : Bytes → Bool) :
    (ts : List Tree) → ∀ lo hi, WFL lo hi ts → (∀ t ∈ ts, ContsOK x src srcA matchRef t) →
      (∀ t ∈ ts, ContsCov x src srcA matchRef t) →
      ∀ ts', rewriteForestE x src srcA matchRef ts = .ok ts' →
      ∀ j : Int, 0 ≤ j → needsCover (srcA[j.toNat]!) = true → CovTs ts j → CovTs ts' j
  | [], lo, hi, hw, _, _, ts', h, j, _, _, hcov => absurd hcov (CovTs_nil j)
  | t :: ts, lo, hi, hw, hc, hv, ts', h, j, hj0, hn, hcov => by
    rw [rewriteForestE] at h
    split at h
    · cases h
    · rename_i t' ht
      split at h
      · cases h
      · rename_i ts'' hts
        cases h
        rw [WFL_cons] at hw
        obtain ⟨h1, h2, h3⟩ := hw
        rcases covTs_consC.1 hcov with hc1 | hc2
        · exact covTs_consC.2 (Or.inl (rewriteE_cover x src srcA matchRef t h2 (hc t (List.mem_cons_self ..))
            (hv t (List.mem_cons_self ..)) t' ht j hj0 hn hc1))
        · exact covTs_consC.2 (Or.inr (rewriteForestE_cover x src srcA matchRef ts _ _ h3
            (fun c hc' => hc c (List.mem_cons_of_mem _ hc')) (fun c hc' => hv c (List.mem_cons_of_mem _ hc')) ts'' hts
            j hj0 hn hc2))
end

end CM.Proofs.InlH
